/-
Proofs/BaselineDom.lean — helpers for property C05: the baseline matcher
(`singleMatches`) run on the string and matrix domains.

Generic part: the FIFO loop of `get_all_bindings` *succeeds* and computes the level-by-level
fold once the fuel covers the total number of queued candidates (`singleLoop_total`), and a
successful run is stable under more fuel (`singleMatches_fuel_mono`).
Domain part: closed forms of `all_missing_bindings`, `bind_all`, the levels and `retain_keys`
on the position maps.
-/
import PmVerif.Props.TRun
import PmVerif.Props.TDom
import PmVerif.Props.C14
import PmVerif.Model.ManyMatcher
namespace Pm


/-! ### fuel monotonicity of `missing_bindings`

(Copies of the lemmas of `Proofs/Missing.lean`, which cannot be imported next to `Props/C13`:
both declare a `Pm.Ext`.) -/

namespace Baseline
section
variable {K : Type} [DecidableEq K]

theorem mbLoop_fuel_mono (req : K → List K) (known : List K) :
    ∀ (fuel fuel' : Nat) (st : List (Frame K)) (vis out res : List K),
      mbLoop req known fuel st vis out = some res → fuel ≤ fuel' →
      mbLoop req known fuel' st vis out = some res := by
  intro fuel
  induction fuel with
  | zero =>
    intro fuel' st vis out res h _
    cases st with
    | nil => simpa only [mbLoop] using h
    | cons f st => simp [mbLoop] at h
  | succ fuel ih =>
    intro fuel' st vis out res h hle
    cases fuel' with
    | zero => omega
    | succ fuel' =>
      have hle' : fuel ≤ fuel' := by omega
      cases st with
      | nil => simpa only [mbLoop] using h
      | cons f st =>
        cases f with
        | enter k =>
          by_cases hk : k ∈ vis
          · simp only [mbLoop, hk, if_true] at h ⊢
            exact ih _ _ _ _ _ h hle'
          · simp only [mbLoop, hk, if_false] at h ⊢
            exact ih _ _ _ _ _ h hle'
        | exit k =>
          simp only [mbLoop] at h ⊢
          exact ih _ _ _ _ _ h hle'

theorem missingBindings_fuel_mono (req : K → List K) (known : List K) (k : K)
    (fuel fuel' : Nat) (out : List K) (h : missingBindings req known k fuel = some out)
    (hle : fuel ≤ fuel') : missingBindings req known k fuel' = some out := by
  unfold missingBindings at h ⊢
  by_cases hk : k ∈ known
  · simpa only [hk, if_true] using h
  · simp only [hk, if_false] at h ⊢
    exact mbLoop_fuel_mono req known _ _ _ _ _ _ h hle

theorem allMissingLoop_fuel_mono (req : K → List K) (fuel fuel' : Nat) (hle : fuel ≤ fuel') :
    ∀ (ks known out res : List K), allMissingLoop req fuel ks known out = some res →
      allMissingLoop req fuel' ks known out = some res := by
  intro ks
  induction ks with
  | nil => intro known out res h; simpa only [allMissingLoop] using h
  | cons k ks ih =>
    intro known out res h
    by_cases hk : k ∈ known
    · simp only [allMissingLoop, hk, if_true] at h ⊢
      exact ih _ _ _ h
    · simp only [allMissingLoop, hk, if_false] at h ⊢
      cases hm : missingBindings req known k fuel with
      | none => simp [hm] at h
      | some m =>
        rw [hm] at h
        rw [missingBindings_fuel_mono req known k fuel fuel' m hm hle]
        exact ih _ _ _ h

end
end Baseline

/-! ### generic: the loop succeeds with enough fuel -/

/-- Forward form of `foldr_sat_ok`: a filter fold whose predicate never panics succeeds. -/
theorem foldr_sat_total {α β : Type} (f : α → R (List β) → R (List β)) (p : α → Option Bool)
    (g : α → β)
    (hft : ∀ x rest, p x = some true → f x (.ok rest) = .ok (g x :: rest))
    (hff : ∀ x rest, p x = some false → f x (.ok rest) = .ok rest)
    (xs : List α) (hp : ∀ x ∈ xs, p x ≠ none) :
    xs.foldr f (.ok []) = .ok ((xs.filter fun x => p x == some true).map g) := by
  induction xs with
  | nil => rfl
  | cons x xs ih =>
    rw [List.foldr_cons, ih (fun y hy => hp y (List.mem_cons_of_mem _ hy))]
    cases hpx : p x with
    | none => exact absurd hpx (hp x List.mem_cons_self)
    | some b =>
      cases b with
      | true => rw [hft x _ hpx]; simp [hpx]
      | false => rw [hff x _ hpx]; simp [hpx]

section Generic
variable {K V P H M : Type} [DecidableEq K]
variable {D : Domain K V P H M} {h : H} {requested : List K} {mbFuel : Nat}

theorem levelStep_cons (c : Constraint K P) (m : M) (A : List M) :
    levelStep D h mbFuel c (m :: A) = levelStep D h mbFuel c [m] ++ levelStep D h mbFuel c A := by
  simp [levelStep]

/-- Processing all queued candidates of one level, forward. -/
theorem singleLoop_level_fwd {c : Constraint K P} {rest : List (Constraint K P)} {keys : List K}
    (hk : allMissingBindings D.req c.args [] mbFuel = some keys)
    (hs : ∀ m, satOrFalse D.map.get D.check c h m ≠ none) (A : List M) :
    ∀ (fuel : Nat) (Q : List (List (Constraint K P) × M)) (out : List M),
      singleLoop D h requested mbFuel (A.length + fuel) (A.map (fun m => (c :: rest, m)) ++ Q) out
        = singleLoop D h requested mbFuel fuel
            (Q ++ (levelStep D h mbFuel c A).map (fun m => (rest, m))) out := by
  induction A with
  | nil => intro fuel Q out; simp [levelStep]
  | cons m A ih =>
    intro fuel Q out
    have hf : (m :: A).length + fuel = (A.length + fuel) + 1 := by
      simp only [List.length_cons]; omega
    rw [hf]
    simp only [List.map_cons, List.cons_append, singleLoop, hk]
    rw [foldr_sat_total _ (fun m' => satOrFalse D.map.get D.check c h m') (fun m' => m')
      (fun x rest hp => by simp only [hp]) (fun x rest hp => by simp only [hp]) _
      (fun x _ => hs x)]
    simp only [List.map_id']
    rw [List.append_assoc, ih, levelStep_cons, List.map_append, List.append_assoc]
    congr 3
    simp [levelStep, hk]

/-- Processing all queued candidates of the last level, forward. -/
theorem singleLoop_emit_fwd (A rs : List M)
    (hr : A.map (fun m => D.map.retain m requested) = rs.map some) :
    ∀ (fuel : Nat) (Q : List (List (Constraint K P) × M)) (out : List M),
      singleLoop D h requested mbFuel (A.length + fuel) (A.map (fun m => ([], m)) ++ Q) out
        = singleLoop D h requested mbFuel fuel Q
            (out ++ rs.filter fun m' => requested.all fun k => (D.map.get m' k).isSome) := by
  induction A generalizing rs with
  | nil =>
    intro fuel Q out
    cases rs with
    | nil => simp
    | cons _ _ => simp at hr
  | cons m A ih =>
    intro fuel Q out
    cases rs with
    | nil => simp at hr
    | cons r rs =>
      simp only [List.map_cons, List.cons.injEq] at hr
      obtain ⟨hm, hr⟩ := hr
      have hf : (m :: A).length + fuel = (A.length + fuel) + 1 := by
        simp only [List.length_cons]; omega
      rw [hf]
      simp only [List.map_cons, List.cons_append, singleLoop, hm]
      split
      · rename_i hall
        rw [ih rs hr]
        simp [hall]
      · rename_i hall
        rw [ih rs hr]
        simp [hall]

/-- The number of loop iterations of the baseline: the sizes of all levels. -/
def levelWork (D : Domain K V P H M) (h : H) (mbFuel : Nat) :
    List (Constraint K P) → List M → Nat
  | [], A => A.length
  | c :: cs, A => A.length + levelWork D h mbFuel cs (levelStep D h mbFuel c A)

/-- **Totality of the FIFO loop.** -/
theorem singleLoop_total (cs : List (Constraint K P)) :
    ∀ (A rs : List M) (fuel : Nat) (out : List M),
      (∀ c ∈ cs, ∃ keys, allMissingBindings D.req c.args [] mbFuel = some keys) →
      (∀ c ∈ cs, ∀ m, satOrFalse D.map.get D.check c h m ≠ none) →
      (singleLevels D h mbFuel cs A).map (fun m => D.map.retain m requested) = rs.map some →
      levelWork D h mbFuel cs A ≤ fuel →
      singleLoop D h requested mbFuel fuel (A.map (fun m => (cs, m))) out
        = .ok (out ++ rs.filter fun m' => requested.all fun k => (D.map.get m' k).isSome) := by
  induction cs with
  | nil =>
    intro A rs fuel out _ _ hr hw
    obtain ⟨f, rfl⟩ : ∃ f, fuel = A.length + f := ⟨fuel - A.length, by
      simp only [levelWork] at hw; omega⟩
    have := singleLoop_emit_fwd (D := D) (h := h) (mbFuel := mbFuel) A rs hr f [] out
    rw [List.append_nil] at this
    rw [this, singleLoop_nil]
  | cons c rest ih =>
    intro A rs fuel out hk hs hr hw
    simp only [levelWork] at hw
    obtain ⟨f, rfl⟩ : ∃ f, fuel = A.length + f := ⟨fuel - A.length, by omega⟩
    obtain ⟨keys, hkeys⟩ := hk c List.mem_cons_self
    have := singleLoop_level_fwd (D := D) (h := h) (requested := requested) (rest := rest) hkeys
      (hs c List.mem_cons_self) A f [] out
    rw [List.append_nil, List.nil_append] at this
    rw [this]
    exact ih _ rs f out (fun c' hc' => hk c' (List.mem_cons_of_mem _ hc'))
      (fun c' hc' => hs c' (List.mem_cons_of_mem _ hc')) hr (by omega)

/-- A successful loop is stable under more fuel (both the loop's and `missing_bindings`'). -/
theorem singleLoop_fuel_mono {mb mb' : Nat} (hmb : mb ≤ mb') :
    ∀ (fuel fuel' : Nat) (Q : List (List (Constraint K P) × M)) (out res : List M),
      fuel ≤ fuel' → singleLoop D h requested mb fuel Q out = .ok res →
      singleLoop D h requested mb' fuel' Q out = .ok res := by
  intro fuel
  induction fuel with
  | zero =>
    intro fuel' Q out res _ hr
    cases Q with
    | nil => rw [singleLoop_nil] at hr ⊢; exact hr
    | cons _ _ => simp [singleLoop] at hr
  | succ fuel ih =>
    intro fuel' Q out res hle hr
    obtain ⟨f', rfl⟩ : ∃ f', fuel' = f' + 1 := ⟨fuel' - 1, by omega⟩
    have hle' : fuel ≤ f' := by omega
    match Q with
    | [] => rw [singleLoop_nil] at hr ⊢; exact hr
    | ([], m) :: Q =>
      simp only [singleLoop] at hr ⊢
      split at hr
      · cases hr
      · rename_i m' hm
        split at hr
        · rename_i hall
          simp only [hall, if_true]
          exact ih f' _ _ _ hle' hr
        · rename_i hall
          simp only [hall]
          exact ih f' _ _ _ hle' hr
    | (c :: rest, m) :: Q =>
      simp only [singleLoop] at hr ⊢
      split at hr
      · cases hr
      · rename_i keys hk
        have hk' : allMissingBindings D.req c.args [] mb' = some keys :=
          Baseline.allMissingLoop_fuel_mono D.req mb mb' hmb _ _ _ _ hk
        rw [hk']
        split at hr
        · cases hr
        · rename_i kept hkept
          simp only [hkept]
          exact ih f' _ _ _ hle' hr

theorem singleMatches_fuel_mono {cs : List (Constraint K P)} {fuel fuel' : Nat} {out : List M}
    (hs : singleMatches D cs h fuel = .ok out) (hle : fuel ≤ fuel') :
    singleMatches D cs h fuel' = .ok out := by
  unfold singleMatches at hs ⊢
  cases hq : requestedBindings D cs fuel with
  | none => rw [hq] at hs; cases hs
  | some requested =>
    rw [hq] at hs
    have hq' : requestedBindings D cs fuel' = some requested :=
      Baseline.allMissingLoop_fuel_mono D.req fuel fuel' hle _ _ _ _ hq
    rw [hq']
    exact singleLoop_fuel_mono hle fuel fuel' _ _ _ hle hs

end Generic

/-! ### star-shaped indexing schemes: every key but the start key requires the start key -/

namespace Baseline
section Star
variable {K : Type} [DecidableEq K]

theorem mem_dedup {x : K} : ∀ {l : List K}, x ∈ dedup l ↔ x ∈ l
  | [] => by simp [dedup]
  | y :: ys => by
    have ih := mem_dedup (x := x) (l := ys)
    by_cases h : x = y
    · simp [dedup, h]
    · simp [dedup, List.mem_filter, ih, h]

theorem nodup_dedup : ∀ (l : List K), (dedup l).Nodup
  | [] => by simp [dedup]
  | y :: ys => by
    have ih := nodup_dedup ys
    rw [dedup, List.nodup_cons]
    refine ⟨?_, ih.sublist List.filter_sublist⟩
    simp [List.mem_filter]

theorem dedup_filter (p : K → Bool) : ∀ xs : List K, (dedup xs).filter p = dedup (xs.filter p)
  | [] => rfl
  | x :: xs => by
    have ih := dedup_filter p xs
    by_cases hx : p x = true
    · rw [List.filter_cons_of_pos hx]
      simp only [dedup, List.filter_cons_of_pos hx]
      rw [← ih, List.filter_filter, List.filter_filter]
      congr 2
      funext a
      exact Bool.and_comm _ _
    · rw [List.filter_cons_of_neg hx, ← ih]
      simp only [dedup, List.filter_cons_of_neg hx, List.filter_filter]
      apply List.filter_congr
      intro a _
      by_cases ha : a = x
      · subst ha; simp [hx]
      · simp [ha]

/-- The scheme: the start key `s` requires nothing, every other key requires `s`. -/
def starReq (s : K) (k : K) : List K := if k = s then [] else [s]

/-- The result of `all_missing_bindings(keys, {})` on a star scheme: the start key, then the
other keys in order of first occurrence. -/
def starKeys (s : K) : List K → List K
  | [] => []
  | k :: ks => s :: dedup ((k :: ks).filter fun x => decide (x ≠ s))

variable (s : K)

theorem star_missing_known (known : List K) (k : K) (fuel : Nat) (hk : k ∈ known) :
    missingBindings (starReq s) known k fuel = some [] := by
  simp [missingBindings, hk]

theorem star_missing_one (known : List K) (k : K) (fuel : Nat) (hk : k ∉ known)
    (h : k = s ∨ s ∈ known) : missingBindings (starReq s) known k (fuel + 2) = some [k] := by
  rcases h with rfl | h
  · simp [missingBindings, hk, mbLoop, starReq]
  · have hks : k ≠ s := fun e => hk (e ▸ h)
    simp [missingBindings, hk, mbLoop, starReq, hks, h]

theorem star_missing_two (known : List K) (k : K) (fuel : Nat) (hk : k ∉ known)
    (hks : k ≠ s) (h : s ∉ known) :
    missingBindings (starReq s) known k (fuel + 4) = some [s, k] := by
  have hsk : s ≠ k := fun e => hks e.symm
  simp [missingBindings, hk, mbLoop, starReq, hks, h, hsk]

theorem star_loop (fuel : Nat) : ∀ (ks known out : List K), s ∈ known →
    allMissingLoop (starReq s) (fuel + 2) ks known out
      = some (out ++ dedup (ks.filter fun x => decide (x ∉ known))) := by
  intro ks
  induction ks with
  | nil => intro known out _; simp [allMissingLoop, dedup]
  | cons k ks ih =>
    intro known out hs
    by_cases hk : k ∈ known
    · simp only [allMissingLoop, hk, if_true]
      rw [ih known out hs, List.filter_cons_of_neg (by simpa using hk)]
    · simp only [allMissingLoop, hk, if_false]
      rw [star_missing_one s known k fuel hk (.inr hs)]
      simp only []
      rw [ih _ _ (List.mem_append_left _ hs), List.filter_cons_of_pos (by simpa using hk)]
      simp only [dedup, dedup_filter, List.filter_filter, List.append_assoc, List.singleton_append]
      congr 4
      apply List.filter_congr
      intro a _
      by_cases ha : a = k <;> simp [ha]

theorem star_all (fuel : Nat) (ks : List K) :
    allMissingBindings (starReq s) ks [] (fuel + 4) = some (starKeys s ks) := by
  cases ks with
  | nil => rfl
  | cons k ks =>
    unfold allMissingBindings
    by_cases hk : k = s
    · subst hk
      simp only [allMissingLoop, List.not_mem_nil, if_false]
      rw [star_missing_one k [] k (fuel + 2) (by simp) (.inl rfl)]
      simp only []
      rw [star_loop k (fuel + 2) ks _ _ (by simp)]
      simp only [starKeys, List.nil_append, List.singleton_append, decide_not, decide_true,
        Bool.not_true, Bool.false_eq_true, not_false_eq_true, List.filter_cons_of_neg]
      congr 3
      apply List.filter_congr
      intro a _
      simp
    · simp only [allMissingLoop, List.not_mem_nil, if_false]
      rw [star_missing_two s [] k fuel (by simp) hk (by simp)]
      simp only []
      rw [star_loop s (fuel + 2) ks _ _ (by simp)]
      have e : (k :: ks).filter (fun x => decide (x ≠ s))
          = k :: ks.filter (fun x => decide (x ≠ s)) :=
        List.filter_cons_of_pos (by simpa using hk)
      simp only [starKeys, e, List.nil_append, dedup, dedup_filter,
        List.filter_filter, List.cons_append]
      congr 4
      apply List.filter_congr
      intro a _
      by_cases ha : a = k <;> by_cases ha' : a = s <;> simp [ha, ha']

theorem mem_starKeys {ks : List K} {x : K} : x ∈ starKeys s ks ↔ ks ≠ [] ∧ (x = s ∨ x ∈ ks) := by
  cases ks with
  | nil => simp [starKeys]
  | cons k ks =>
    simp only [starKeys, List.mem_cons, mem_dedup, List.mem_filter, ne_eq, reduceCtorEq,
      not_false_eq_true, true_and, decide_not, Bool.not_eq_eq_eq_not, Bool.not_true,
      decide_eq_false_iff_not]
    by_cases hx : x = s <;> simp [hx]

theorem starKeys_cons (k : K) (ks : List K) :
    ∃ rest, starKeys s (k :: ks) = s :: rest ∧ s ∉ rest ∧ rest.Nodup ∧
      ∀ x, x ∈ rest ↔ x ≠ s ∧ x ∈ k :: ks := by
  refine ⟨_, rfl, ?_, nodup_dedup _, ?_⟩
  · simp [mem_dedup]
  · intro x
    simp only [mem_dedup, List.mem_filter, decide_not, Bool.not_eq_eq_eq_not, Bool.not_true,
      decide_eq_false_iff_not]
    exact And.comm

end Star
end Baseline

/-! ### generic: a constraint only reads its arguments -/

section Congr
variable {K V P H M : Type}

theorem resolveArgs_congr (get : M → K → Option V) (m m' : M) :
    ∀ (ks : List K), (∀ k ∈ ks, get m k = get m' k) → resolveArgs get m ks = resolveArgs get m' ks
  | [], _ => rfl
  | k :: ks, h => by
    simp only [resolveArgs, h k List.mem_cons_self,
      resolveArgs_congr get m m' ks (fun k' hk' => h k' (List.mem_cons_of_mem _ hk'))]

theorem satOrFalse_congr (get : M → K → Option V) (check : P → H → List V → Option Bool)
    (c : Constraint K P) (h : H) (m m' : M) (hc : ∀ k ∈ c.args, get m k = get m' k) :
    satOrFalse get check c h m = satOrFalse get check c h m' := by
  simp only [satOrFalse, isSatisfied, isSatisfiedLog, resolveArgs_congr get m m' c.args hc]

theorem resolveArgs_length (get : M → K → Option V) (m : M) :
    ∀ (ks : List K) (vs : List V), resolveArgs get m ks = .ok vs → vs.length = ks.length
  | [], vs, h => by simp only [resolveArgs, Except.ok.injEq] at h; subst h; rfl
  | k :: ks, vs, h => by
    simp only [resolveArgs] at h
    split at h
    · cases h
    · split at h
      · cases h
      · rename_i vs' hvs
        simp only [Except.ok.injEq] at h
        subst h
        simp [resolveArgs_length get m ks vs' hvs]

theorem flatMap_congr' {α β : Type} {f g : α → List β} :
    ∀ {l : List α}, (∀ x ∈ l, f x = g x) → l.flatMap f = l.flatMap g
  | [], _ => rfl
  | x :: l, hfg => by
    rw [List.flatMap_cons, List.flatMap_cons, hfg x List.mem_cons_self,
      flatMap_congr' (fun y hy => hfg y (List.mem_cons_of_mem _ hy))]

theorem levelStep_single [DecidableEq K] (D : Domain K V P H M) (h : H) (mbFuel : Nat)
    (c : Constraint K P) (m : M) :
    levelStep D h mbFuel c [m]
      = (bindAll D.map D.opts h m ((allMissingBindings D.req c.args [] mbFuel).getD []) false).filter
          fun m' => satOrFalse D.map.get D.check c h m' == some true := by
  simp [levelStep]

end Congr

/-! ### strings -/

open Baseline in
theorem strReq_star : strDomain.req = starReq 0 := rfl

open Baseline in
theorem str_allMissing (fuel : Nat) (ks : List Nat) :
    allMissingBindings strDomain.req ks [] (fuel + 4) = some (starKeys 0 ks) := by
  rw [strReq_star]; exact star_all 0 fuel ks

theorem str_sat_ne_none (c : StrCons) (hc : c.args.length = c.pred.arity) (h : List Nat)
    (m : StrPos) : satOrFalse strDomain.map.get strDomain.check c h m ≠ none := by
  unfold satOrFalse isSatisfied isSatisfiedLog
  cases hr : resolveArgs strDomain.map.get m c.args with
  | error e => simp
  | ok vs =>
    have hl := resolveArgs_length _ _ _ _ hr
    rw [hc] at hl
    simp only [strDomain]
    cases hp : c.pred with
    | bindingEq =>
      rw [hp] at hl
      match vs, hl with
      | [p1, p2], _ => simp [strCheck]
    | constVal x =>
      rw [hp] at hl
      match vs, hl with
      | [p1], _ => simp [strCheck]

theorem utf8Len_pos (c : Nat) : 1 ≤ utf8Len c := by
  unfold utf8Len; split <;> (try split) <;> (try split) <;> omega

theorem length_le_strByteLen (h : List Nat) : h.length ≤ strByteLen h := by
  unfold strByteLen
  induction h with
  | nil => simp
  | cons c h ih =>
    have := utf8Len_pos c
    simp only [List.length_cons, List.map_cons, List.sum_cons]
    omega

theorem str_extend_bound (h : List Nat) (a L k : Nat) (hL : 1 ≤ L) (hin : a + L ≤ strByteLen h) :
    extend strPosMap strOpts h false k (.bound a L)
      = if a + k < strByteLen h then [.bound a (max L (k + 1))] else [] := by
  unfold extend
  by_cases hk : k < L
  · have hb : a + k < strByteLen h := by omega
    have hm : max L (k + 1) = L := by omega
    simp [strPosMap, StrPos.get, hk, hb, hm]
  · have hk0 : k ≠ 0 := by omega
    by_cases hb : a + k < strByteLen h
    · simp [strPosMap, StrPos.get, hk, strOpts, hk0, hb, StrPos.bind]
    · simp [strPosMap, StrPos.get, hk, strOpts, hk0, hb]

theorem str_extend_unbound (h : List Nat) :
    extend strPosMap strOpts h false 0 .unbound
      = (List.range (strByteLen h)).map fun a => StrPos.bound a 1 := by
  unfold extend
  simp only [strPosMap, StrPos.get, Option.isSome_none, Bool.false_eq_true, if_false, strOpts,
    if_true, Bool.and_false, StrPos.bind]
  induction List.range (strByteLen h) with
  | nil => rfl
  | cons x xs ih => simp [ih]

/-- The extent after binding the keys `ks` on a map of extent `L`. -/
def strLen (L : Nat) (ks : List Nat) : Nat := ks.foldl (fun l k => max l (k + 1)) L

theorem strLen_cons (L k : Nat) (ks : List Nat) :
    strLen L (k :: ks) = strLen (max L (k + 1)) ks := rfl

theorem strLen_append (L : Nat) (ks ks' : List Nat) :
    strLen L (ks ++ ks') = strLen (strLen L ks) ks' := by
  simp [strLen, List.foldl_append]

theorem strLen_spec : ∀ (ks : List Nat) (L : Nat),
    L ≤ strLen L ks ∧ (∀ k ∈ ks, k < strLen L ks) ∧
      (strLen L ks = L ∨ ∃ k ∈ ks, strLen L ks = k + 1)
  | [], L => ⟨Nat.le_refl _, by simp, .inl rfl⟩
  | k :: ks, L => by
    obtain ⟨h1, h2, h3⟩ := strLen_spec ks (max L (k + 1))
    rw [strLen_cons]
    refine ⟨by omega, ?_, ?_⟩
    · intro k' hk'
      rcases List.mem_cons.1 hk' with rfl | hk'
      · omega
      · exact h2 k' hk'
    · rcases h3 with h3 | ⟨k', hk', e⟩
      · by_cases hc : L ≤ k
        · exact .inr ⟨k, List.mem_cons_self, by omega⟩
        · exact .inl (by omega)
      · exact .inr ⟨k', List.mem_cons_of_mem _ hk', e⟩

theorem strLen_le {ks : List Nat} {L n : Nat} (hL : L ≤ n) (hk : ∀ k ∈ ks, k < n) :
    strLen L ks ≤ n := by
  obtain ⟨_, _, h3 | ⟨k, hk', e⟩⟩ := strLen_spec ks L
  · omega
  · have := hk k hk'; omega

theorem strLen_eq {ks : List Nat} {L n : Nat} (hL : L ≤ n) (hk : ∀ k ∈ ks, k < n)
    (hn : n = L ∨ ∃ k ∈ ks, n = k + 1) : strLen L ks = n := by
  apply Nat.le_antisymm (strLen_le hL hk)
  obtain ⟨h1, h2, _⟩ := strLen_spec ks L
  rcases hn with rfl | ⟨k, hk', rfl⟩
  · exact h1
  · exact h2 k hk'

theorem str_bindAll_bound (h : List Nat) (a : Nat) : ∀ (keys : List Nat) (L : Nat), 1 ≤ L →
    a + L ≤ strByteLen h →
    bindAll strPosMap strOpts h (.bound a L) keys false
      = if keys.all (fun k => decide (a + k < strByteLen h)) then [.bound a (strLen L keys)]
        else []
  | [], L, _, _ => rfl
  | k :: keys, L, hL, hin => by
    rw [c13_cons, str_extend_bound h a L k hL hin]
    by_cases hb : a + k < strByteLen h
    · simp only [hb, if_true, List.flatMap_cons, List.flatMap_nil, List.append_nil]
      rw [str_bindAll_bound h a keys (max L (k + 1)) (by omega) (by omega)]
      simp [hb, strLen_cons]
    · simp [hb]

/-- The constraint holds under the canonical binding of anchor `a` with extent `L`. -/
def strSat (h : List Nat) (c : StrCons) (a L : Nat) : Bool :=
  satOrFalse strDomain.map.get strDomain.check c h (.bound a L) == some true

open Baseline in
theorem str_levelStep (h : List Nat) (fuel : Nat) (c : StrCons) (L : Nat) (hL : 1 ≤ L) :
    ∀ (as : List Nat), (∀ a ∈ as, a + L ≤ strByteLen h) →
    levelStep strDomain h (fuel + 4) c (as.map fun a => StrPos.bound a L)
      = (as.filter fun a =>
          (starKeys 0 c.args).all (fun k => decide (a + k < strByteLen h)) &&
            strSat h c a (strLen L (starKeys 0 c.args))).map
          fun a => StrPos.bound a (strLen L (starKeys 0 c.args))
  | [], _ => by simp [levelStep]
  | a :: as, has => by
    rw [List.map_cons, levelStep_cons, str_levelStep h fuel c L hL as
      (fun a' ha' => has a' (List.mem_cons_of_mem _ ha')), levelStep_single, str_allMissing]
    simp only [Option.getD_some]
    show (bindAll strPosMap strOpts h (.bound a L) _ false).filter _ ++ _ = _
    rw [str_bindAll_bound h a _ L hL (has a List.mem_cons_self)]
    by_cases hc : (starKeys 0 c.args).all (fun k => decide (a + k < strByteLen h)) = true
    · by_cases hs : strSat h c a (strLen L (starKeys 0 c.args)) = true
      · have hs' := hs
        unfold strSat at hs'
        simp [hc, hs, hs']
      · have hs' := hs
        unfold strSat at hs'
        simp [hc, hs, hs']
    · simp [hc]

open Baseline in
/-- The extent after processing the constraints `cs` from extent `L`. -/
def strLenCs (L : Nat) (cs : List StrCons) : Nat :=
  strLen L (cs.flatMap fun c => starKeys 0 c.args)

open Baseline in
theorem strLenCs_cons (L : Nat) (c : StrCons) (cs : List StrCons) :
    strLenCs L (c :: cs) = strLenCs (strLen L (starKeys 0 c.args)) cs := by
  simp [strLenCs, strLen_append]

open Baseline in
/-- Anchor `a` survives the constraints `cs` from extent `L`. -/
def strGood (h : List Nat) (a : Nat) : Nat → List StrCons → Bool
  | _, [] => true
  | L, c :: cs =>
    ((starKeys 0 c.args).all (fun k => decide (a + k < strByteLen h)) &&
      strSat h c a (strLen L (starKeys 0 c.args))) &&
    strGood h a (strLen L (starKeys 0 c.args)) cs

open Baseline in
theorem str_levels (h : List Nat) (fuel : Nat) : ∀ (cs : List StrCons) (L : Nat) (as : List Nat),
    1 ≤ L → (∀ a ∈ as, a + L ≤ strByteLen h) →
    singleLevels strDomain h (fuel + 4) cs (as.map fun a => StrPos.bound a L)
      = (as.filter fun a => strGood h a L cs).map fun a => StrPos.bound a (strLenCs L cs)
  | [], L, as, _, _ => by
    have : as.filter (fun a => strGood h a L []) = as := List.filter_eq_self.2 (fun _ _ => rfl)
    rw [this]
    simp [singleLevels, strLenCs, strLen]
  | c :: cs, L, as, hL, has => by
    rw [singleLevels_cons, str_levelStep h fuel c L hL as has,
      str_levels h fuel cs _ _ (Nat.le_trans hL (strLen_spec _ _).1) ?_, List.filter_filter,
      strLenCs_cons]
    · congr 1
      apply List.filter_congr
      intro a _
      simp only [strGood]
      exact Bool.and_comm _ _
    · intro a ha
      obtain ⟨ha, hc⟩ := List.mem_filter.1 ha
      simp only [Bool.and_eq_true, List.all_eq_true, decide_eq_true_eq] at hc
      have h1 := has a ha
      have := strLen_le (n := strByteLen h - a) (L := L) (ks := starKeys 0 c.args)
        (by omega) (fun k hk => by have := hc.1 k hk; omega)
      omega

open Baseline in
/-- The first level: binding the start key offers every byte offset, after which the level is
the one computed from the bound maps of extent 1. -/
theorem str_levelStep_unbound (h : List Nat) (fuel : Nat) (c : StrCons) (hc : c.args ≠ []) :
    levelStep strDomain h (fuel + 4) c [.unbound]
      = levelStep strDomain h (fuel + 4) c
          ((List.range (strByteLen h)).map fun a => StrPos.bound a 1) := by
  cases hargs : c.args with
  | nil => exact absurd hargs hc
  | cons k ks =>
    obtain ⟨rest, hr, -⟩ := starKeys_cons 0 k ks
    rw [levelStep_single]
    unfold levelStep
    rw [str_allMissing, hargs, hr]
    simp only [Option.getD_some]
    show (bindAll strPosMap strOpts h .unbound (0 :: rest) false).filter _ = _
    rw [c13_cons, str_extend_unbound, List.filter_flatMap]
    apply flatMap_congr'
    intro m hm
    obtain ⟨a, _, rfl⟩ := List.mem_map.1 hm
    show _ = (bindAll strPosMap strOpts h (.bound a 1) (0 :: rest) false).filter _
    rw [c13_bound_left_alone _ _ _ _ _ _ _ (by simp [strPosMap, StrPos.get])]

theorem str_levels_top (h : List Nat) (fuel : Nat) (c : StrCons) (cs : List StrCons)
    (hc : c.args ≠ []) :
    singleLevels strDomain h (fuel + 4) (c :: cs) [.unbound]
      = ((List.range (strByteLen h)).filter fun a => strGood h a 1 (c :: cs)).map
          fun a => StrPos.bound a (strLenCs 1 (c :: cs)) := by
  rw [singleLevels_cons, str_levelStep_unbound h fuel c hc, ← singleLevels_cons,
    str_levels h fuel (c :: cs) 1 _ (Nat.le_refl 1)]
  intro a ha
  have := List.mem_range.1 ha
  omega

theorem strLenCs_ge (L : Nat) (cs : List StrCons) : L ≤ strLenCs L cs := (strLen_spec _ _).1

open Baseline in
theorem strSat_congr (h : List Nat) (c : StrCons) (a L L' : Nat)
    (hL : ∀ k ∈ c.args, k < L) (hL' : ∀ k ∈ c.args, k < L') :
    strSat h c a L = strSat h c a L' := by
  unfold strSat
  rw [satOrFalse_congr strDomain.map.get strDomain.check c h (.bound a L) (.bound a L')]
  intro k hk
  show StrPos.get (.bound a L) k = StrPos.get (.bound a L') k
  simp [StrPos.get, hL k hk, hL' k hk]

open Baseline in
theorem strGood_iff (h : List Nat) (a : Nat) : ∀ (cs : List StrCons) (L : Nat),
    (strGood h a L cs = true ↔
      (∀ c ∈ cs, ∀ k ∈ starKeys 0 c.args, a + k < strByteLen h) ∧
        ∀ c ∈ cs, strSat h c a (strLenCs L cs) = true)
  | [], L => by simp [strGood]
  | c :: cs, L => by
    have hmem : ∀ k ∈ c.args, k ∈ starKeys 0 c.args := fun k hk =>
      (mem_starKeys 0).2 ⟨List.ne_nil_of_mem hk, .inr hk⟩
    have e : strSat h c a (strLen L (starKeys 0 c.args))
        = strSat h c a (strLenCs (strLen L (starKeys 0 c.args)) cs) :=
      strSat_congr h c a _ _ (fun k hk => (strLen_spec _ _).2.1 k (hmem k hk))
        (fun k hk => Nat.lt_of_lt_of_le ((strLen_spec _ _).2.1 k (hmem k hk)) (strLenCs_ge _ _))
    simp only [strGood, Bool.and_eq_true, List.all_eq_true, decide_eq_true_eq,
      strGood_iff h a cs, strLenCs_cons, List.forall_mem_cons, e]
    constructor
    · rintro ⟨⟨h1, h2⟩, h3, h4⟩; exact ⟨⟨h1, h3⟩, h2, h4⟩
    · rintro ⟨⟨h1, h3⟩, h2, h4⟩; exact ⟨⟨h1, h2⟩, h3, h4⟩

open Baseline in
theorem strLenCs_pattern (p : List CharVar) (hp : p ≠ []) :
    strLenCs 1 (strConstraints p) = p.length := by
  have hpos : 0 < p.length := List.length_pos_iff.2 hp
  apply strLen_eq (by omega)
  · intro k hk
    obtain ⟨c, hc, hk⟩ := List.mem_flatMap.1 hk
    rcases ((mem_starKeys 0).1 hk).2 with rfl | hk
    · exact hpos
    · exact tdom_str_keys p c hc k hk
  · obtain ⟨c, hc, hk⟩ := tdom_str_last p hp
    exact .inr ⟨p.length - 1, List.mem_flatMap.2 ⟨c, hc,
      (mem_starKeys 0).2 ⟨List.ne_nil_of_mem hk, .inr hk⟩⟩, by omega⟩

open Baseline in
theorem strGood_pattern (p : List CharVar) (hp : p ≠ []) (h : List Nat) (a : Nat) :
    strGood h a 1 (strConstraints p) = occursStr p h a := by
  rw [Bool.eq_iff_iff, strGood_iff, strLenCs_pattern p hp]
  constructor
  · rintro ⟨_, hs⟩
    apply (tdom_str_sat_iff p h a p.length (Nat.le_refl _)).1
    intro c hc
    have := hs c hc
    unfold strSat at this
    exact eq_of_beq this
  · intro ho
    have hshort := tdom_str_sat_short p h a ho hp
    have hB := length_le_strByteLen h
    have hpos : 0 < p.length := List.length_pos_iff.2 hp
    refine ⟨?_, ?_⟩
    · intro c hc k hk
      rcases ((mem_starKeys 0).1 hk).2 with rfl | hk
      · omega
      · have := tdom_str_keys p c hc k hk; omega
    · intro c hc
      have := (tdom_str_sat_iff p h a p.length (Nat.le_refl _)).2 ho c hc
      unfold strSat
      exact beq_iff_eq.2 this

theorem filter_range_of_lt (q : Nat → Bool) (n B : Nat) (hn : n ≤ B)
    (hq : ∀ a, q a = true → a < n) : (List.range B).filter q = (List.range n).filter q := by
  obtain ⟨d, rfl⟩ : ∃ d, B = n + d := ⟨B - n, by omega⟩
  rw [List.range_add, List.filter_append]
  have : ((List.range d).map (n + ·)).filter q = [] := by
    rw [List.filter_eq_nil_iff]
    intro x hx hqx
    obtain ⟨y, _, rfl⟩ := List.mem_map.1 hx
    have := hq _ hqx
    omega
  rw [this, List.append_nil]

theorem occursStr_lt (p : List CharVar) (hp : p ≠ []) (h : List Nat) (a : Nat)
    (ho : occursStr p h a = true) : a < h.length := by
  have := tdom_str_sat_short p h a ho hp
  have hpos : 0 < p.length := List.length_pos_iff.2 hp
  omega

/-- **The levels of the baseline on a non-empty string pattern.** -/
theorem str_levels_pattern (p : List CharVar) (hp : p ≠ []) (h : List Nat) (fuel : Nat) :
    singleLevels strDomain h (fuel + 4) (strConstraints p) [.unbound]
      = (strOccurrences p h).map fun a => StrPos.bound a p.length := by
  cases hcs : strConstraints p with
  | nil =>
    obtain ⟨c, hc, _⟩ := tdom_str_last p hp
    rw [hcs] at hc; cases hc
  | cons c cs =>
    have hargs : c.args ≠ [] := by
      have := tdom_str_arity p c (by rw [hcs]; exact List.mem_cons_self)
      intro e
      rw [e] at this
      cases hpred : c.pred <;> rw [hpred] at this <;> simp [CharPred.arity] at this
    rw [str_levels_top h fuel c cs hargs, ← hcs, strLenCs_pattern p hp]
    congr 1
    unfold strOccurrences
    rw [← filter_range_of_lt _ h.length (strByteLen h) (length_le_strByteLen h)
      (fun a ha => occursStr_lt p hp h a ha)]
    apply List.filter_congr
    intro a _
    exact strGood_pattern p hp h a

/-- `retain_keys` rebuilds exactly the same map when the listed keys are bound, start with the
start key (listed once) and include the last bound key. -/
theorem str_retain_exact (a L : Nat) (rest : List Nat) (hL : 1 ≤ L) (h0 : 0 ∉ rest)
    (hlast : L - 1 ∈ 0 :: rest) :
    strPosMap.retain (.bound a L) (0 :: rest) = some (.bound a L) := by
  obtain ⟨la', e, h1, h2, h3⟩ := str_loop_some a L rest 1 h0
  rw [str_retain_head a L hL, e]
  have : la' = L := by
    apply Nat.le_antisymm
    · rcases h3 with h3 | ⟨k, _, hk, e'⟩ <;> omega
    · rcases List.mem_cons.1 hlast with e' | hm
      · omega
      · have := h2 _ hm (by omega); omega
  rw [this]

open Baseline in
theorem str_filter_inv (h : List Nat) (c : StrCons) (L : Nat) (as : List Nat)
    (has : ∀ a ∈ as, a + L ≤ strByteLen h) :
    ∀ a ∈ as.filter (fun a =>
        (starKeys 0 c.args).all (fun k => decide (a + k < strByteLen h)) &&
          strSat h c a (strLen L (starKeys 0 c.args))),
      a + strLen L (starKeys 0 c.args) ≤ strByteLen h := by
  intro a ha
  obtain ⟨ha, hc⟩ := List.mem_filter.1 ha
  simp only [Bool.and_eq_true, List.all_eq_true, decide_eq_true_eq] at hc
  have h1 := has a ha
  have := strLen_le (n := strByteLen h - a) (L := L) (ks := starKeys 0 c.args)
    (by omega) (fun k hk => by have := hc.1 k hk; omega)
  omega

open Baseline in
theorem str_levelWork (h : List Nat) (fuel : Nat) : ∀ (cs : List StrCons) (L : Nat)
    (as : List Nat), 1 ≤ L → (∀ a ∈ as, a + L ≤ strByteLen h) →
    levelWork strDomain h (fuel + 4) cs (as.map fun a => StrPos.bound a L)
      ≤ (cs.length + 1) * as.length
  | [], L, as, _, _ => by simp [levelWork]
  | c :: cs, L, as, hL, has => by
    simp only [levelWork]
    rw [str_levelStep h fuel c L hL as has]
    have ih := str_levelWork h fuel cs _ _ (Nat.le_trans hL (strLen_spec _ _).1)
      (str_filter_inv h c L as has)
    have hle := List.length_filter_le (fun a =>
        (starKeys 0 c.args).all (fun k => decide (a + k < strByteLen h)) &&
          strSat h c a (strLen L (starKeys 0 c.args))) as
    have h2 := Nat.mul_le_mul_left (cs.length + 1) hle
    simp only [List.length_map, List.length_cons]
    rw [Nat.succ_mul]
    omega

open Baseline in
theorem str_levelWork_top (h : List Nat) (fuel : Nat) (c : StrCons) (cs : List StrCons)
    (hc : c.args ≠ []) :
    levelWork strDomain h (fuel + 4) (c :: cs) [.unbound]
      ≤ 1 + (cs.length + 1) * strByteLen h := by
  simp only [levelWork, List.length_cons, List.length_nil]
  rw [str_levelStep_unbound h fuel c hc, str_levelStep h fuel c 1 (Nat.le_refl 1)]
  · have ih := str_levelWork h fuel cs _ _ (Nat.le_trans (Nat.le_refl 1) (strLen_spec _ _).1)
      (str_filter_inv h c 1 (List.range (strByteLen h))
        (fun a ha => by have := List.mem_range.1 ha; omega))
    have hle := List.length_filter_le (fun a =>
        (starKeys 0 c.args).all (fun k => decide (a + k < strByteLen h)) &&
          strSat h c a (strLen 1 (starKeys 0 c.args))) (List.range (strByteLen h))
    rw [List.length_range] at hle
    have h2 := Nat.mul_le_mul_left (cs.length + 1) hle
    omega
  · intro a ha
    have := List.mem_range.1 ha
    omega

/-- Fuel that suffices for the baseline on a string pattern. -/
def strBaselineFuel (p : List CharVar) (h : List Nat) : Nat :=
  (strConstraints p).length * strByteLen h + 4

open Baseline in
theorem str_requested_props (p : List CharVar) (hp : p ≠ []) :
    ∃ rest, starKeys 0 ((strConstraints p).flatMap (·.args)) = 0 :: rest ∧ 0 ∉ rest ∧
      p.length - 1 ∈ 0 :: rest ∧ ∀ k ∈ 0 :: rest, k < p.length := by
  obtain ⟨c, hc, hk⟩ := tdom_str_last p hp
  have hmem : p.length - 1 ∈ (strConstraints p).flatMap (·.args) :=
    List.mem_flatMap.2 ⟨c, hc, hk⟩
  have hpos : 0 < p.length := List.length_pos_iff.2 hp
  cases hargs : (strConstraints p).flatMap (·.args) with
  | nil => rw [hargs] at hmem; cases hmem
  | cons k ks =>
    obtain ⟨rest, hr, h0, _, _⟩ := starKeys_cons 0 k ks
    refine ⟨rest, hr, h0, ?_, ?_⟩
    · rw [← hr, ← hargs]
      exact (mem_starKeys 0).2 ⟨List.ne_nil_of_mem hmem, .inr hmem⟩
    · intro x hx
      rw [← hr, ← hargs] at hx
      rcases ((mem_starKeys 0).1 hx).2 with rfl | hx
      · exact hpos
      · obtain ⟨c', hc', hx⟩ := List.mem_flatMap.1 hx
        exact tdom_str_keys p c' hc' x hx

open Baseline in
/-- **The baseline on a non-empty string pattern**, with enough fuel. -/
theorem str_single_ok (p : List CharVar) (h : List Nat) (fuel : Nat) (hp : p ≠ [])
    (hf : strBaselineFuel p h ≤ fuel) :
    singleMatches strDomain (strConstraints p) h fuel
      = .ok ((strOccurrences p h).map fun a => StrPos.bound a p.length) := by
  obtain ⟨f, rfl⟩ : ∃ f, fuel = f + 4 := ⟨fuel - 4, by unfold strBaselineFuel at hf; omega⟩
  obtain ⟨rest, hreq, h0, hlast, hlt⟩ := str_requested_props p hp
  have hpos : 0 < p.length := List.length_pos_iff.2 hp
  have hq : requestedBindings strDomain (strConstraints p) (f + 4) = some (0 :: rest) := by
    rw [← hreq]; exact str_allMissing f _
  unfold singleMatches
  rw [hq]
  simp only []
  have hret : (singleLevels strDomain h (f + 4) (strConstraints p) [strDomain.map.empty]).map
      (fun m => strDomain.map.retain m (0 :: rest))
      = ((strOccurrences p h).map fun a => StrPos.bound a p.length).map some := by
    show (singleLevels strDomain h (f + 4) (strConstraints p) [StrPos.unbound]).map _ = _
    rw [str_levels_pattern p hp h f]
    apply List.map_congr_left
    intro m hm
    obtain ⟨a, _, rfl⟩ := List.mem_map.1 hm
    exact str_retain_exact a p.length rest hpos h0 hlast
  have hwork : levelWork strDomain h (f + 4) (strConstraints p) [strDomain.map.empty] ≤ f + 4 := by
    show levelWork strDomain h (f + 4) (strConstraints p) [StrPos.unbound] ≤ f + 4
    unfold strBaselineFuel at hf
    cases hcs : strConstraints p with
    | nil => simp [levelWork]
    | cons c cs =>
      have hargs : c.args ≠ [] := by
        have := tdom_str_arity p c (by rw [hcs]; exact List.mem_cons_self)
        intro e
        rw [e] at this
        cases hpred : c.pred <;> rw [hpred] at this <;> simp [CharPred.arity] at this
      have := str_levelWork_top h f c cs hargs
      rw [hcs, List.length_cons] at hf
      omega
  have := singleLoop_total (D := strDomain) (h := h) (requested := 0 :: rest) (mbFuel := f + 4)
    (strConstraints p) [strDomain.map.empty] _ (f + 4) []
    (fun c _ => ⟨_, str_allMissing f c.args⟩)
    (fun c hc m => str_sat_ne_none c (tdom_str_arity p c hc) h m) hret hwork
  rw [show [(strConstraints p, strDomain.map.empty)]
    = [strDomain.map.empty].map (fun m => (strConstraints p, m)) from rfl, this, List.nil_append,
    List.filter_eq_self.2]
  intro m hm
  obtain ⟨a, _, rfl⟩ := List.mem_map.1 hm
  rw [List.all_eq_true]
  intro k hk
  have := hlt k hk
  show (StrPos.get (.bound a p.length) k).isSome = true
  simp [StrPos.get, this]

/-- The baseline on the empty string pattern reports the unbound map once. -/
theorem str_single_nil (h : List Nat) (fuel : Nat) (hf : 1 ≤ fuel) :
    singleMatches strDomain (strConstraints []) h fuel = .ok [StrPos.unbound] := by
  obtain ⟨f, rfl⟩ : ∃ f, fuel = f + 1 := ⟨fuel - 1, by omega⟩
  rw [strConstraints_nil]
  simp [singleMatches, requestedBindings, allMissingBindings, allMissingLoop, singleLoop,
    strDomain, strPosMap, retainDefault, singleLoop_nil]

/-! ### matrices -/

open Baseline in
theorem matReq_star : matDomain.req = starReq ((0 : Int), (0 : Int)) := rfl

/-- The keys bound for a constraint: the start key, then its arguments. -/
abbrev mkeys (c : MatCons) : List MKey := Baseline.starKeys ((0 : Int), (0 : Int)) c.args

open Baseline in
theorem mat_allMissing (fuel : Nat) (ks : List MKey) :
    allMissingBindings matDomain.req ks [] (fuel + 4) = some (starKeys ((0 : Int), (0 : Int)) ks) := by
  rw [matReq_star]; exact star_all _ fuel ks

theorem mat_sat_ne_none (c : MatCons) (hc : c.args.length = c.pred.arity) (h : MatHost)
    (m : MatPos) : satOrFalse matDomain.map.get matDomain.check c h m ≠ none := by
  unfold satOrFalse isSatisfied isSatisfiedLog
  cases hr : resolveArgs matDomain.map.get m c.args with
  | error e => simp
  | ok vs =>
    have hl := resolveArgs_length _ _ _ _ hr
    rw [hc] at hl
    simp only [matDomain]
    cases hp : c.pred with
    | bindingEq =>
      rw [hp] at hl
      match vs, hl with
      | [(a, b), (c, d)], _ => simp [matCheck]
    | constVal x =>
      rw [hp] at hl
      match vs, hl with
      | [(a, b)], _ => simp [matCheck]

theorem mat_get_in (r c : Nat) (R C : Int) (k : MKey) (hk : 0 ≤ k.1 ∧ 0 ≤ k.2)
    (hb : k.1 ≤ R ∧ k.2 ≤ C) :
    MatPos.get (.bound r c 0 0 R C) k = some (r + k.1.toNat, c + k.2.toNat) := by
  obtain ⟨i, j⟩ := k
  obtain ⟨n, rfl⟩ := Int.eq_ofNat_of_zero_le hk.1
  obtain ⟨m, rfl⟩ := Int.eq_ofNat_of_zero_le hk.2
  simpa using MatPos.get_bound r c n m R C hb.1 hb.2

theorem mat_get_out (r c : Nat) (R C : Int) (k : MKey) (hb : ¬ (k.1 ≤ R ∧ k.2 ≤ C)) :
    MatPos.get (.bound r c 0 0 R C) k = none := by
  unfold MatPos.get
  rw [mat_getP_out _ _ _ _ _ _ _ (fun hbox => hb ⟨hbox.2.1, hbox.2.2.2⟩)]

def matBoxIn (R C : Int) (k : MKey) : Bool := decide (k.1 ≤ R) && decide (k.2 ≤ C)

def matCellAt (h : MatHost) (r c : Nat) (k : MKey) : Bool :=
  (matCell h (r + k.1.toNat) (c + k.2.toNat)).isSome

theorem mat_extend_bound (h : MatHost) (r c : Nat) (R C : Int) (k : MKey) (hR : 0 ≤ R)
    (hC : 0 ≤ C) (hk : 0 ≤ k.1 ∧ 0 ≤ k.2) :
    extend matPosMap matOpts h false k (.bound r c 0 0 R C)
      = if matBoxIn R C k || matCellAt h r c k then
          [.bound r c 0 0 (max R k.1) (max C k.2)] else [] := by
  unfold extend
  by_cases hb : k.1 ≤ R ∧ k.2 ≤ C
  · have e1 : max R k.1 = R := by omega
    have e2 : max C k.2 = C := by omega
    have hg : matPosMap.get (.bound r c 0 0 R C) k = some (r + k.1.toNat, c + k.2.toNat) :=
      mat_get_in r c R C k hk hb
    simp [hg, matBoxIn, hb.1, hb.2, e1, e2]
  · have hg : matPosMap.get (.bound r c 0 0 R C) k = none := mat_get_out r c R C k hb
    have hk0 : k ≠ (0, 0) := by
      rintro rfl
      exact hb ⟨hR, hC⟩
    have hin : matBoxIn R C k = false := by
      unfold matBoxIn
      by_cases h1 : k.1 ≤ R
      · have : ¬ k.2 ≤ C := fun h2 => hb ⟨h1, h2⟩
        simp [this]
      · simp [h1]
    have ha1 : addSigned r k.1 = some (r + k.1.toNat) := by
      rw [addSigned_nonneg _ _ (by omega)]; congr 1; omega
    have ha2 : addSigned c k.2 = some (c + k.2.toNat) := by
      rw [addSigned_nonneg _ _ (by omega)]; congr 1; omega
    have hbind : ∀ v, MatPos.bind (.bound r c 0 0 R C) k v
        = .ok (.bound r c 0 0 (max R k.1) (max C k.2)) := by
      intro v
      rw [mat_bind_bound_of_ne _ _ _ _ _ _ _ _ hk0]
      have e1 : min 0 k.1 = 0 := by omega
      have e2 : min 0 k.2 = 0 := by omega
      rw [e1, e2]
    simp only [hg, Option.isSome_none, Bool.false_eq_true, if_false, Bool.and_false, hin,
      Bool.false_or]
    unfold matOpts matOptsP
    simp only [hk0, if_false, ha1, ha2]
    by_cases hcell : (matCell h (r + k.1.toNat) (c + k.2.toNat)).isSome = true
    · simp [matCellAt, hcell, matPosMap, hbind]
    · simp [matCellAt, hcell]

theorem mat_extend_unbound (h : MatHost) :
    extend matPosMap matOpts h false (0, 0) .unbound
      = (matAllCells h).map fun v => MatPos.bound v.1 v.2 0 0 0 0 := by
  unfold extend
  have hg : matPosMap.get .unbound ((0 : Int), (0 : Int)) = none := rfl
  have ho : matOpts h (0, 0) .unbound = matAllCells h := rfl
  simp only [hg, Option.isSome_none, Bool.false_eq_true, if_false, Bool.and_false, ho]
  induction matAllCells h with
  | nil => rfl
  | cons x xs ih =>
    obtain ⟨vr, vc⟩ := x
    simp [matPosMap, MatPos.bind]

/-- All listed keys can be bound, in order, from the box `[0,R]×[0,C]` at anchor `(r, c)`: a key
outside the current box must lie on an existing host cell. -/
def matCond (h : MatHost) (r c : Nat) : Int → Int → List MKey → Bool
  | _, _, [] => true
  | R, C, k :: ks =>
    (matBoxIn R C k || matCellAt h r c k) && matCond h r c (max R k.1) (max C k.2) ks

/-- The box after binding the keys `ks` from the box `[0,R]×[0,C]`. -/
def matBox (R C : Int) (ks : List MKey) : Int × Int :=
  ks.foldl (fun b k => (max b.1 k.1, max b.2 k.2)) (R, C)

theorem matBox_cons (R C : Int) (k : MKey) (ks : List MKey) :
    matBox R C (k :: ks) = matBox (max R k.1) (max C k.2) ks := rfl

theorem matBox_append (R C : Int) (ks ks' : List MKey) :
    matBox R C (ks ++ ks') = matBox (matBox R C ks).1 (matBox R C ks).2 ks' := by
  simp [matBox, List.foldl_append]

theorem matBox_ge : ∀ (ks : List MKey) (R C : Int),
    R ≤ (matBox R C ks).1 ∧ C ≤ (matBox R C ks).2
  | [], R, C => ⟨Int.le_refl _, Int.le_refl _⟩
  | k :: ks, R, C => by
    obtain ⟨h1, h2⟩ := matBox_ge ks (max R k.1) (max C k.2)
    rw [matBox_cons]
    exact ⟨by omega, by omega⟩

theorem matBox_mem : ∀ (ks : List MKey) (R C : Int),
    ∀ k ∈ ks, k.1 ≤ (matBox R C ks).1 ∧ k.2 ≤ (matBox R C ks).2
  | [], R, C => by simp
  | k :: ks, R, C => by
    intro k' hk'
    rw [matBox_cons]
    rcases List.mem_cons.1 hk' with rfl | hk'
    · obtain ⟨h1, h2⟩ := matBox_ge ks (max R k'.1) (max C k'.2)
      exact ⟨by omega, by omega⟩
    · exact matBox_mem ks _ _ k' hk'

theorem matBox_att1 : ∀ (ks : List MKey) (R C : Int),
    (matBox R C ks).1 = R ∨ ∃ k ∈ ks, (matBox R C ks).1 = k.1
  | [], R, C => .inl rfl
  | k :: ks, R, C => by
    rw [matBox_cons]
    rcases matBox_att1 ks (max R k.1) (max C k.2) with h4 | ⟨k', hk', e⟩
    · by_cases hc : R ≤ k.1
      · exact .inr ⟨k, List.mem_cons_self, by omega⟩
      · exact .inl (by omega)
    · exact .inr ⟨k', List.mem_cons_of_mem _ hk', e⟩

theorem matBox_att2 : ∀ (ks : List MKey) (R C : Int),
    (matBox R C ks).2 = C ∨ ∃ k ∈ ks, (matBox R C ks).2 = k.2
  | [], R, C => .inl rfl
  | k :: ks, R, C => by
    rw [matBox_cons]
    rcases matBox_att2 ks (max R k.1) (max C k.2) with h4 | ⟨k', hk', e⟩
    · by_cases hc : C ≤ k.2
      · exact .inr ⟨k, List.mem_cons_self, by omega⟩
      · exact .inl (by omega)
    · exact .inr ⟨k', List.mem_cons_of_mem _ hk', e⟩

theorem matBox_spec (ks : List MKey) (R C : Int) :
    R ≤ (matBox R C ks).1 ∧ C ≤ (matBox R C ks).2 ∧
      (∀ k ∈ ks, k.1 ≤ (matBox R C ks).1 ∧ k.2 ≤ (matBox R C ks).2) ∧
      ((matBox R C ks).1 = R ∨ ∃ k ∈ ks, (matBox R C ks).1 = k.1) ∧
      ((matBox R C ks).2 = C ∨ ∃ k ∈ ks, (matBox R C ks).2 = k.2) :=
  ⟨(matBox_ge ks R C).1, (matBox_ge ks R C).2, matBox_mem ks R C, matBox_att1 ks R C,
    matBox_att2 ks R C⟩

theorem matBox_eq {ks : List MKey} {R C n m : Int} (hR : R ≤ n) (hC : C ≤ m)
    (hk : ∀ k ∈ ks, k.1 ≤ n ∧ k.2 ≤ m) (hn : n = R ∨ ∃ k ∈ ks, n = k.1)
    (hm : m = C ∨ ∃ k ∈ ks, m = k.2) : matBox R C ks = (n, m) := by
  obtain ⟨h1, h2, h3, h4, h5⟩ := matBox_spec ks R C
  have e1 : (matBox R C ks).1 = n := by
    apply Int.le_antisymm
    · rcases h4 with h4 | ⟨k, hk', e⟩
      · omega
      · have := (hk k hk').1; omega
    · rcases hn with rfl | ⟨k, hk', rfl⟩
      · exact h1
      · exact (h3 k hk').1
  have e2 : (matBox R C ks).2 = m := by
    apply Int.le_antisymm
    · rcases h5 with h5 | ⟨k, hk', e⟩
      · omega
      · have := (hk k hk').2; omega
    · rcases hm with rfl | ⟨k, hk', rfl⟩
      · exact h2
      · exact (h3 k hk').2
  exact Prod.ext e1 e2

theorem mat_bindAll_bound (h : MatHost) (r c : Nat) : ∀ (keys : List MKey) (R C : Int),
    0 ≤ R → 0 ≤ C → (∀ k ∈ keys, 0 ≤ k.1 ∧ 0 ≤ k.2) →
    bindAll matPosMap matOpts h (.bound r c 0 0 R C) keys false
      = if matCond h r c R C keys then
          [.bound r c 0 0 (matBox R C keys).1 (matBox R C keys).2] else []
  | [], R, C, _, _, _ => rfl
  | k :: keys, R, C, hR, hC, hnn => by
    rw [c13_cons, mat_extend_bound h r c R C k hR hC (hnn k List.mem_cons_self)]
    by_cases hb : (matBoxIn R C k || matCellAt h r c k) = true
    · simp only [hb, if_true, List.flatMap_cons, List.flatMap_nil, List.append_nil]
      rw [mat_bindAll_bound h r c keys (max R k.1) (max C k.2) (by omega) (by omega)
        (fun k' hk' => hnn k' (List.mem_cons_of_mem _ hk'))]
      simp [matCond, hb, matBox_cons]
    · simp [matCond, hb]

/-- The constraint holds under the canonical binding of anchor `v` with box `[0,R]×[0,C]`. -/
def matSat (h : MatHost) (c : MatCons) (v : MVal) (R C : Int) : Bool :=
  satOrFalse matDomain.map.get matDomain.check c h (.bound v.1 v.2 0 0 R C) == some true

open Baseline in
theorem mkeys_nonneg (c : MatCons) (hnn : ∀ k ∈ c.args, 0 ≤ k.1 ∧ 0 ≤ k.2) :
    ∀ k ∈ mkeys c, 0 ≤ k.1 ∧ 0 ≤ k.2 := by
  intro k hk
  rcases ((mem_starKeys _).1 hk).2 with rfl | hk
  · exact ⟨Int.le_refl _, Int.le_refl _⟩
  · exact hnn k hk

open Baseline in
theorem mem_mkeys (c : MatCons) (k : MKey) (hk : k ∈ c.args) : k ∈ mkeys c :=
  (mem_starKeys _).2 ⟨List.ne_nil_of_mem hk, .inr hk⟩

theorem mat_levelStep (h : MatHost) (fuel : Nat) (c : MatCons) (R C : Int) (hR : 0 ≤ R)
    (hC : 0 ≤ C) (hnn : ∀ k ∈ c.args, 0 ≤ k.1 ∧ 0 ≤ k.2) :
    ∀ (as : List MVal),
    levelStep matDomain h (fuel + 4) c (as.map fun v => MatPos.bound v.1 v.2 0 0 R C)
      = (as.filter fun v =>
          matCond h v.1 v.2 R C (mkeys c) &&
            matSat h c v (matBox R C (mkeys c)).1 (matBox R C (mkeys c)).2).map
          fun v => MatPos.bound v.1 v.2 0 0 (matBox R C (mkeys c)).1 (matBox R C (mkeys c)).2
  | [] => by simp [levelStep]
  | a :: as => by
    rw [List.map_cons, levelStep_cons, mat_levelStep h fuel c R C hR hC hnn as, levelStep_single,
      mat_allMissing]
    simp only [Option.getD_some]
    show (bindAll matPosMap matOpts h (.bound a.1 a.2 0 0 R C) (mkeys c) false).filter _ ++ _ = _
    rw [mat_bindAll_bound h a.1 a.2 _ R C hR hC (mkeys_nonneg c hnn)]
    by_cases hc : matCond h a.1 a.2 R C (mkeys c) = true
    · by_cases hs : matSat h c a (matBox R C (mkeys c)).1 (matBox R C (mkeys c)).2 = true
      · have hs' := hs
        unfold matSat at hs'
        simp [hc, hs, hs']
      · have hs' := hs
        unfold matSat at hs'
        simp [hc, hs, hs']
    · simp [hc]

/-- The box after processing the constraints `cs` from the box `[0,R]×[0,C]`. -/
def matBoxCs (R C : Int) (cs : List MatCons) : Int × Int := matBox R C (cs.flatMap mkeys)

theorem matBoxCs_cons (R C : Int) (c : MatCons) (cs : List MatCons) :
    matBoxCs R C (c :: cs)
      = matBoxCs (matBox R C (mkeys c)).1 (matBox R C (mkeys c)).2 cs := by
  simp [matBoxCs, matBox_append]

/-- Anchor `v` survives the constraints `cs` from the box `[0,R]×[0,C]`. -/
def matGood (h : MatHost) (v : MVal) : Int → Int → List MatCons → Bool
  | _, _, [] => true
  | R, C, c :: cs =>
    (matCond h v.1 v.2 R C (mkeys c) &&
      matSat h c v (matBox R C (mkeys c)).1 (matBox R C (mkeys c)).2) &&
    matGood h v (matBox R C (mkeys c)).1 (matBox R C (mkeys c)).2 cs

theorem mat_levels (h : MatHost) (fuel : Nat) : ∀ (cs : List MatCons) (R C : Int)
    (as : List MVal), 0 ≤ R → 0 ≤ C → (∀ c ∈ cs, ∀ k ∈ c.args, 0 ≤ k.1 ∧ 0 ≤ k.2) →
    singleLevels matDomain h (fuel + 4) cs (as.map fun v => MatPos.bound v.1 v.2 0 0 R C)
      = (as.filter fun v => matGood h v R C cs).map
          fun v => MatPos.bound v.1 v.2 0 0 (matBoxCs R C cs).1 (matBoxCs R C cs).2
  | [], R, C, as, _, _, _ => by
    have : as.filter (fun v => matGood h v R C []) = as := List.filter_eq_self.2 (fun _ _ => rfl)
    rw [this]
    simp [singleLevels, matBoxCs, matBox]
  | c :: cs, R, C, as, hR, hC, hnn => by
    have hb := matBox_spec (mkeys c) R C
    rw [singleLevels_cons, mat_levelStep h fuel c R C hR hC (hnn c List.mem_cons_self) as,
      mat_levels h fuel cs _ _ _ (by omega) (by omega)
        (fun c' hc' => hnn c' (List.mem_cons_of_mem _ hc')),
      List.filter_filter, matBoxCs_cons]
    congr 1
    apply List.filter_congr
    intro a _
    simp only [matGood]
    exact Bool.and_comm _ _

open Baseline in
theorem mat_levelStep_unbound (h : MatHost) (fuel : Nat) (c : MatCons) (hc : c.args ≠ []) :
    levelStep matDomain h (fuel + 4) c [.unbound]
      = levelStep matDomain h (fuel + 4) c
          ((matAllCells h).map fun v => MatPos.bound v.1 v.2 0 0 0 0) := by
  cases hargs : c.args with
  | nil => exact absurd hargs hc
  | cons k ks =>
    obtain ⟨rest, hr, -⟩ := starKeys_cons ((0 : Int), (0 : Int)) k ks
    rw [levelStep_single]
    unfold levelStep
    rw [mat_allMissing, hargs, hr]
    simp only [Option.getD_some]
    show (bindAll matPosMap matOpts h .unbound ((0, 0) :: rest) false).filter _ = _
    rw [c13_cons, mat_extend_unbound, List.filter_flatMap]
    apply flatMap_congr'
    intro m hm
    obtain ⟨a, _, rfl⟩ := List.mem_map.1 hm
    show _ = (bindAll matPosMap matOpts h (.bound a.1 a.2 0 0 0 0) ((0, 0) :: rest) false).filter _
    rw [c13_bound_left_alone _ _ _ _ _ _ _ (by
      show (MatPos.get (.bound a.1 a.2 0 0 0 0) (0, 0)).isSome = true
      rw [MatPos.get_bound_zero _ _ _ _ (Int.le_refl _) (Int.le_refl _)]; rfl)]

theorem mat_levels_top (h : MatHost) (fuel : Nat) (c : MatCons) (cs : List MatCons)
    (hc : c.args ≠ []) (hnn : ∀ c' ∈ c :: cs, ∀ k ∈ c'.args, 0 ≤ k.1 ∧ 0 ≤ k.2) :
    singleLevels matDomain h (fuel + 4) (c :: cs) [.unbound]
      = ((matAllCells h).filter fun v => matGood h v 0 0 (c :: cs)).map
          fun v => MatPos.bound v.1 v.2 0 0 (matBoxCs 0 0 (c :: cs)).1 (matBoxCs 0 0 (c :: cs)).2 := by
  rw [singleLevels_cons, mat_levelStep_unbound h fuel c hc, ← singleLevels_cons,
    mat_levels h fuel (c :: cs) 0 0 _ (Int.le_refl _) (Int.le_refl _) hnn]

theorem matSat_congr (h : MatHost) (c : MatCons) (v : MVal) (R C R' C' : Int)
    (hnn : ∀ k ∈ c.args, 0 ≤ k.1 ∧ 0 ≤ k.2) (hb : ∀ k ∈ c.args, k.1 ≤ R ∧ k.2 ≤ C)
    (hb' : ∀ k ∈ c.args, k.1 ≤ R' ∧ k.2 ≤ C') :
    matSat h c v R C = matSat h c v R' C' := by
  unfold matSat
  rw [satOrFalse_congr matDomain.map.get matDomain.check c h (.bound v.1 v.2 0 0 R C)
    (.bound v.1 v.2 0 0 R' C')]
  intro k hk
  show MatPos.get (.bound v.1 v.2 0 0 R C) k = MatPos.get (.bound v.1 v.2 0 0 R' C') k
  rw [mat_get_in _ _ _ _ k (hnn k hk) (hb k hk), mat_get_in _ _ _ _ k (hnn k hk) (hb' k hk)]

theorem matBoxCs_ge (R C : Int) (cs : List MatCons) :
    R ≤ (matBoxCs R C cs).1 ∧ C ≤ (matBoxCs R C cs).2 := matBox_ge _ R C

theorem matSat_step (h : MatHost) (v : MVal) (c : MatCons) (cs : List MatCons) (R C : Int)
    (hnn : ∀ k ∈ c.args, 0 ≤ k.1 ∧ 0 ≤ k.2) :
    matSat h c v (matBox R C (mkeys c)).1 (matBox R C (mkeys c)).2
      = matSat h c v (matBoxCs (matBox R C (mkeys c)).1 (matBox R C (mkeys c)).2 cs).1
          (matBoxCs (matBox R C (mkeys c)).1 (matBox R C (mkeys c)).2 cs).2 := by
  have hge := matBoxCs_ge (matBox R C (mkeys c)).1 (matBox R C (mkeys c)).2 cs
  apply matSat_congr h c v _ _ _ _ hnn
  · intro k hk
    exact matBox_mem (mkeys c) R C k (mem_mkeys c k hk)
  · intro k hk
    have := matBox_mem (mkeys c) R C k (mem_mkeys c k hk)
    exact ⟨Int.le_trans this.1 hge.1, Int.le_trans this.2 hge.2⟩

theorem matGood_sat (h : MatHost) (v : MVal) : ∀ (cs : List MatCons) (R C : Int),
    (∀ c ∈ cs, ∀ k ∈ c.args, 0 ≤ k.1 ∧ 0 ≤ k.2) → matGood h v R C cs = true →
    ∀ c ∈ cs, matSat h c v (matBoxCs R C cs).1 (matBoxCs R C cs).2 = true
  | [], _, _, _, _ => by simp
  | c :: cs, R, C, hnn, hg => by
    simp only [matGood, Bool.and_eq_true] at hg
    obtain ⟨⟨_, hs⟩, hg⟩ := hg
    rw [matBoxCs_cons]
    intro c' hc'
    rcases List.mem_cons.1 hc' with rfl | hc'
    · rw [← matSat_step h v c' cs R C (hnn c' List.mem_cons_self)]
      exact hs
    · exact matGood_sat h v cs _ _ (fun c'' hc'' => hnn c'' (List.mem_cons_of_mem _ hc'')) hg c' hc'

theorem matCond_of_cells (h : MatHost) (r c : Nat) : ∀ (ks : List MKey) (R C : Int),
    (∀ k ∈ ks, matCellAt h r c k = true) → matCond h r c R C ks = true
  | [], _, _, _ => rfl
  | k :: ks, R, C, hk => by
    simp only [matCond, Bool.and_eq_true, Bool.or_eq_true]
    exact ⟨.inr (hk k List.mem_cons_self),
      matCond_of_cells h r c ks _ _ (fun k' hk' => hk k' (List.mem_cons_of_mem _ hk'))⟩

theorem matGood_of (h : MatHost) (v : MVal) : ∀ (cs : List MatCons) (R C : Int),
    (∀ c ∈ cs, ∀ k ∈ c.args, 0 ≤ k.1 ∧ 0 ≤ k.2) →
    (∀ c ∈ cs, ∀ k ∈ mkeys c, matCellAt h v.1 v.2 k = true) →
    (∀ c ∈ cs, matSat h c v (matBoxCs R C cs).1 (matBoxCs R C cs).2 = true) →
    matGood h v R C cs = true
  | [], _, _, _, _, _ => rfl
  | c :: cs, R, C, hnn, hcell, hs => by
    rw [matBoxCs_cons] at hs
    simp only [matGood, Bool.and_eq_true]
    refine ⟨⟨matCond_of_cells h v.1 v.2 _ R C (hcell c List.mem_cons_self), ?_⟩, ?_⟩
    · rw [matSat_step h v c cs R C (hnn c List.mem_cons_self)]
      exact hs c List.mem_cons_self
    · exact matGood_of h v cs _ _ (fun c' hc' => hnn c' (List.mem_cons_of_mem _ hc'))
        (fun c' hc' => hcell c' (List.mem_cons_of_mem _ hc'))
        (fun c' hc' => hs c' (List.mem_cons_of_mem _ hc'))

/-- The extent is attained (or is `0`) in each coordinate. -/
theorem matExtent_fold_att (l : List (Nat × Nat × CharVar)) :
    ∀ acc : Nat × Nat,
      ((l.foldl (fun acc c => (max acc.1 c.1, max acc.2 c.2.1)) acc).1 = acc.1 ∨
        ∃ x ∈ l, (l.foldl (fun acc c => (max acc.1 c.1, max acc.2 c.2.1)) acc).1 = x.1) ∧
      ((l.foldl (fun acc c => (max acc.1 c.1, max acc.2 c.2.1)) acc).2 = acc.2 ∨
        ∃ x ∈ l, (l.foldl (fun acc c => (max acc.1 c.1, max acc.2 c.2.1)) acc).2 = x.2.1) := by
  induction l with
  | nil => intro acc; exact ⟨.inl rfl, .inl rfl⟩
  | cons y l ih =>
    intro acc
    obtain ⟨h1, h2⟩ := ih (max acc.1 y.1, max acc.2 y.2.1)
    simp only [List.foldl_cons]
    constructor
    · rcases h1 with h1 | ⟨x, hx, e⟩
      · by_cases hc : acc.1 ≤ y.1
        · exact .inr ⟨y, List.mem_cons_self, by rw [h1]; simp only; omega⟩
        · exact .inl (by rw [h1]; simp only; omega)
      · exact .inr ⟨x, List.mem_cons_of_mem _ hx, e⟩
    · rcases h2 with h2 | ⟨x, hx, e⟩
      · by_cases hc : acc.2 ≤ y.2.1
        · exact .inr ⟨y, List.mem_cons_self, by rw [h2]; simp only; omega⟩
        · exact .inl (by rw [h2]; simp only; omega)
      · exact .inr ⟨x, List.mem_cons_of_mem _ hx, e⟩

theorem matExtent_att (p : MatPattern) :
    ((matExtent p).1 = 0 ∨ ∃ i j cv, (i, j, cv) ∈ matCells p ∧ (matExtent p).1 = i) ∧
    ((matExtent p).2 = 0 ∨ ∃ i j cv, (i, j, cv) ∈ matCells p ∧ (matExtent p).2 = j) := by
  obtain ⟨h1, h2⟩ := matExtent_fold_att (matCells p) (0, 0)
  constructor
  · rcases h1 with h1 | ⟨⟨i, j, cv⟩, hx, e⟩
    · exact .inl h1
    · exact .inr ⟨i, j, cv, hx, e⟩
  · rcases h2 with h2 | ⟨⟨i, j, cv⟩, hx, e⟩
    · exact .inl h2
    · exact .inr ⟨i, j, cv, hx, e⟩

theorem mat_keys_nonneg (p : MatPattern) :
    ∀ c ∈ matConstraints p, ∀ k ∈ c.args, 0 ≤ k.1 ∧ 0 ≤ k.2 := by
  intro c hc k hk
  rcases tdom_mat_keys p c hc k hk with rfl | ⟨i, j, cv, _, rfl⟩
  · exact ⟨Int.le_refl _, Int.le_refl _⟩
  · exact ⟨by simp, by simp⟩

theorem mat_keys_inbox (p : MatPattern) :
    ∀ c ∈ matConstraints p, ∀ k ∈ c.args,
      k.1 ≤ ((matExtent p).1 : Int) ∧ k.2 ≤ ((matExtent p).2 : Int) := by
  intro c hc k hk
  rcases tdom_mat_keys p c hc k hk with rfl | ⟨i, j, cv, hm, rfl⟩
  · exact ⟨by simp, by simp⟩
  · have := matExtent_bound hm
    exact ⟨by simp only; omega, by simp only; omega⟩

open Baseline in
theorem matBoxCs_pattern (p : MatPattern) :
    matBoxCs 0 0 (matConstraints p) = (((matExtent p).1 : Int), ((matExtent p).2 : Int)) := by
  have hmem : ∀ k ∈ (matConstraints p).flatMap mkeys,
      k = (0, 0) ∨ ∃ c ∈ matConstraints p, k ∈ c.args := by
    intro k hk
    obtain ⟨c, hc, hk⟩ := List.mem_flatMap.1 hk
    rcases ((mem_starKeys _).1 hk).2 with rfl | hk
    · exact .inl rfl
    · exact .inr ⟨c, hc, hk⟩
  have hcov : ∀ i j cv, (i, j, cv) ∈ matCells p →
      (((i : Int), (j : Int)) : MKey) ∈ (matConstraints p).flatMap mkeys := by
    intro i j cv hm
    obtain ⟨c, hc, hk⟩ := tdom_mat_covers p i j cv hm
    exact List.mem_flatMap.2 ⟨c, hc, mem_mkeys c _ hk⟩
  obtain ⟨ha1, ha2⟩ := matExtent_att p
  apply matBox_eq (by simp) (by simp)
  · intro k hk
    rcases hmem k hk with rfl | ⟨c, hc, hk⟩
    · exact ⟨by simp, by simp⟩
    · exact mat_keys_inbox p c hc k hk
  · rcases ha1 with h0 | ⟨i, j, cv, hm, e⟩
    · exact .inl (by rw [h0]; rfl)
    · exact .inr ⟨_, hcov i j cv hm, by rw [e]⟩
  · rcases ha2 with h0 | ⟨i, j, cv, hm, e⟩
    · exact .inl (by rw [h0]; rfl)
    · exact .inr ⟨_, hcov i j cv hm, by rw [e]⟩

theorem occursMat_cell (p : MatPattern) (h : MatHost) (r c : Nat)
    (ho : occursMat p h r c = true) :
    (matCell h r c).isSome ∧
      ∀ i j cv, (i, j, cv) ∈ matCells p → (matCell h (r + i) (c + j)).isSome := by
  obtain ⟨h1, h2⟩ := (occursMat_iff p h r c).1 ho
  refine ⟨h1, ?_⟩
  intro i j cv hm
  exact h2.isSome (i := (i, j)) (cv := cv) (mem_natCells.2 hm)

open Baseline in
theorem matGood_pattern (p : MatPattern) (h : MatHost) (v : MVal)
    (hv : (matCell h v.1 v.2).isSome) :
    matGood h v 0 0 (matConstraints p) = occursMat p h v.1 v.2 := by
  rw [Bool.eq_iff_iff]
  constructor
  · intro hg
    have hs := matGood_sat h v _ 0 0 (mat_keys_nonneg p) hg
    rw [matBoxCs_pattern] at hs
    apply (tdom_mat_sat_iff p h v.1 v.2 _ _ ⟨Int.le_refl _, Int.le_refl _⟩).1
    refine ⟨hv, ?_⟩
    intro c hc
    have := hs c hc
    unfold matSat at this
    exact eq_of_beq this
  · intro ho
    obtain ⟨_, hsat⟩ := (tdom_mat_sat_iff p h v.1 v.2 _ _ ⟨Int.le_refl _, Int.le_refl _⟩).2 ho
    obtain ⟨hanchor, hcells⟩ := occursMat_cell p h v.1 v.2 ho
    apply matGood_of h v _ 0 0 (mat_keys_nonneg p)
    · intro c hc k hk
      have h00 : matCellAt h v.1 v.2 (0, 0) = true := by
        simpa [matCellAt] using hanchor
      rcases ((mem_starKeys _).1 hk).2 with rfl | hk
      · exact h00
      · rcases tdom_mat_keys p c hc k hk with rfl | ⟨i, j, cv, hm, rfl⟩
        · exact h00
        · simpa [matCellAt] using hcells i j cv hm
    · intro c hc
      rw [matBoxCs_pattern]
      unfold matSat
      exact beq_iff_eq.2 (hsat c hc)

theorem mem_matAllCells (h : MatHost) (v : MVal) :
    v ∈ matAllCells h ↔ (matCell h v.1 v.2).isSome = true := by
  obtain ⟨r, c⟩ := v
  unfold matAllCells matCell
  simp only [List.mem_flatMap, List.mem_range, List.mem_map, Prod.mk.injEq]
  cases hr : h[r]? with
  | none =>
    have hlen : h.length ≤ r := List.getElem?_eq_none_iff.1 hr
    simp only [Option.isSome_none, Bool.false_eq_true, iff_false]
    rintro ⟨r', hr', c', _, rfl, rfl⟩
    omega
  | some row =>
    obtain ⟨hlt, hrow⟩ := List.getElem?_eq_some_iff.1 hr
    have hgd : h.getD r [] = row := by simp [List.getD, hr]
    constructor
    · rintro ⟨r', _, c', hc', rfl, rfl⟩
      rw [hgd] at hc'
      simp [hc']
    · intro hs
      have hc : c < row.length := by
        simp only at hs
        cases hrc : row[c]? with
        | none => rw [hrc] at hs; cases hs
        | some x => exact (List.getElem?_eq_some_iff.1 hrc).1
      exact ⟨r, hlt, c, by rw [hgd]; exact hc, rfl, rfl⟩

/-- **The levels of the baseline on a matrix pattern.** -/
theorem mat_levels_pattern (p : MatPattern) (h : MatHost) (fuel : Nat) :
    singleLevels matDomain h (fuel + 4) (matConstraints p) [.unbound]
      = (matOccurrences p h).map fun rc =>
          MatPos.bound rc.1 rc.2 0 0 ((matExtent p).1 : Int) ((matExtent p).2 : Int) := by
  cases hcs : matConstraints p with
  | nil => exact absurd hcs (tdom_mat_nonempty p)
  | cons c cs =>
    have hargs : c.args ≠ [] := by
      have := tdom_mat_arity p c (by rw [hcs]; exact List.mem_cons_self)
      intro e
      rw [e] at this
      cases hpred : c.pred <;> rw [hpred] at this <;> simp [CharPred.arity] at this
    rw [mat_levels_top h fuel c cs hargs (by rw [← hcs]; exact mat_keys_nonneg p), ← hcs,
      matBoxCs_pattern p]
    congr 1
    unfold matOccurrences
    apply List.filter_congr
    intro v hv
    exact matGood_pattern p h v ((mem_matAllCells h v).1 hv)

/-- `retain_keys` rebuilds exactly the same map when the listed keys are inside the box, start
with the start key (listed once) and attain the box in each coordinate. -/
theorem mat_retain_exact (r c : Nat) (R C : Int) (rest : List MKey) (hR : 0 ≤ R) (hC : 0 ≤ C)
    (h0 : (0, 0) ∉ rest) (hnn : ∀ k ∈ rest, 0 ≤ k.1 ∧ 0 ≤ k.2)
    (hin : ∀ k ∈ rest, k.1 ≤ R ∧ k.2 ≤ C)
    (hR' : R = 0 ∨ ∃ k ∈ rest, k.1 = R) (hC' : C = 0 ∨ ∃ k ∈ rest, k.2 = C) :
    matPosMap.retain (.bound r c 0 0 R C) ((0, 0) :: rest) = some (.bound r c 0 0 R C) := by
  have hg : MatPos.getP (.bound r c 0 0 R C) (0, 0) = some (some (r, c)) := by
    rw [mat_getP_in_nonneg r c 0 0 R C (0, 0) ⟨Int.le_refl 0, hR, Int.le_refl 0, hC⟩
      (by simp) (by simp)]
    simp
  obtain ⟨a', b', c', d', e, q1, q2, q3, q4, q5, q6, q7, q8, q9⟩ :=
    mat_loop_some r c 0 0 R C (by simp) (by simp) rest 0 0 0 0 h0 (Int.le_refl _) (Int.le_refl _)
      hR hC
  rw [matPosMap_retain,
    retainDefault_cons_bind MatPos.getP MatPos.bind _ _ (.bound r c 0 0 0 0) (0, 0) _ rest hg
      (by simp [MatPos.bind]), e]
  have hbox : ∀ k ∈ rest, InBox 0 0 R C k := fun k hk =>
    ⟨(hnn k hk).1, (hin k hk).1, (hnn k hk).2, (hin k hk).2⟩
  have ea : a' = 0 := by omega
  have eb : b' = 0 := by omega
  have ec : c' = R := by
    rcases hR' with rfl | ⟨k, hk, rfl⟩
    · omega
    · have := (q9 k hk (hbox k hk)).2.1; omega
  have ed : d' = C := by
    rcases hC' with rfl | ⟨k, hk, rfl⟩
    · omega
    · have := (q9 k hk (hbox k hk)).2.2.2; omega
  rw [ea, eb, ec, ed]

theorem mat_levelWork (h : MatHost) (fuel : Nat) : ∀ (cs : List MatCons) (R C : Int)
    (as : List MVal), 0 ≤ R → 0 ≤ C → (∀ c ∈ cs, ∀ k ∈ c.args, 0 ≤ k.1 ∧ 0 ≤ k.2) →
    levelWork matDomain h (fuel + 4) cs (as.map fun v => MatPos.bound v.1 v.2 0 0 R C)
      ≤ (cs.length + 1) * as.length
  | [], R, C, as, _, _, _ => by simp [levelWork]
  | c :: cs, R, C, as, hR, hC, hnn => by
    have hb := matBox_ge (mkeys c) R C
    simp only [levelWork]
    rw [mat_levelStep h fuel c R C hR hC (hnn c List.mem_cons_self) as]
    have ih := mat_levelWork h fuel cs (matBox R C (mkeys c)).1 (matBox R C (mkeys c)).2
      (as.filter fun v => matCond h v.1 v.2 R C (mkeys c) &&
        matSat h c v (matBox R C (mkeys c)).1 (matBox R C (mkeys c)).2)
      (by omega) (by omega) (fun c' hc' => hnn c' (List.mem_cons_of_mem _ hc'))
    have hle := List.length_filter_le (fun v => matCond h v.1 v.2 R C (mkeys c) &&
        matSat h c v (matBox R C (mkeys c)).1 (matBox R C (mkeys c)).2) as
    have h2 := Nat.mul_le_mul_left (cs.length + 1) hle
    simp only [List.length_map, List.length_cons]
    rw [Nat.succ_mul]
    omega

theorem mat_levelWork_top (h : MatHost) (fuel : Nat) (c : MatCons) (cs : List MatCons)
    (hc : c.args ≠ []) (hnn : ∀ c' ∈ c :: cs, ∀ k ∈ c'.args, 0 ≤ k.1 ∧ 0 ≤ k.2) :
    levelWork matDomain h (fuel + 4) (c :: cs) [.unbound]
      ≤ 1 + (cs.length + 1) * (matAllCells h).length := by
  have hb := matBox_ge (mkeys c) 0 0
  simp only [levelWork, List.length_cons, List.length_nil]
  rw [mat_levelStep_unbound h fuel c hc,
    mat_levelStep h fuel c 0 0 (Int.le_refl _) (Int.le_refl _) (hnn c List.mem_cons_self)]
  have ih := mat_levelWork h fuel cs (matBox 0 0 (mkeys c)).1 (matBox 0 0 (mkeys c)).2
    ((matAllCells h).filter fun v => matCond h v.1 v.2 0 0 (mkeys c) &&
      matSat h c v (matBox 0 0 (mkeys c)).1 (matBox 0 0 (mkeys c)).2)
    (by omega) (by omega) (fun c' hc' => hnn c' (List.mem_cons_of_mem _ hc'))
  have hle := List.length_filter_le (fun v => matCond h v.1 v.2 0 0 (mkeys c) &&
      matSat h c v (matBox 0 0 (mkeys c)).1 (matBox 0 0 (mkeys c)).2) (matAllCells h)
  have h2 := Nat.mul_le_mul_left (cs.length + 1) hle
  omega

/-- Fuel that suffices for the baseline on a matrix pattern. -/
def matBaselineFuel (p : MatPattern) (h : MatHost) : Nat :=
  (matConstraints p).length * (matAllCells h).length + 4

theorem mat_first_args (p : MatPattern) : ∀ c ∈ matConstraints p, c.args ≠ [] := by
  intro c hc e
  have := tdom_mat_arity p c hc
  rw [e] at this
  cases hpred : c.pred <;> rw [hpred] at this <;> simp [CharPred.arity] at this

open Baseline in
theorem mat_requested_props (p : MatPattern) :
    ∃ rest, starKeys ((0 : Int), (0 : Int)) ((matConstraints p).flatMap (·.args)) = (0, 0) :: rest ∧
      (0, 0) ∉ rest ∧ (∀ k ∈ rest, 0 ≤ k.1 ∧ 0 ≤ k.2) ∧
      (∀ k ∈ rest, k.1 ≤ ((matExtent p).1 : Int) ∧ k.2 ≤ ((matExtent p).2 : Int)) ∧
      (((matExtent p).1 : Int) = 0 ∨ ∃ k ∈ rest, k.1 = ((matExtent p).1 : Int)) ∧
      (((matExtent p).2 : Int) = 0 ∨ ∃ k ∈ rest, k.2 = ((matExtent p).2 : Int)) := by
  have hne : (matConstraints p).flatMap (·.args) ≠ [] := by
    cases hcs : matConstraints p with
    | nil => exact absurd hcs (tdom_mat_nonempty p)
    | cons c cs =>
      have := mat_first_args p c (by rw [hcs]; exact List.mem_cons_self)
      intro e
      rw [List.flatMap_cons, List.append_eq_nil_iff] at e
      exact this e.1
  have hall : ∀ k ∈ (matConstraints p).flatMap (·.args), ∃ c ∈ matConstraints p, k ∈ c.args :=
    fun k hk => List.mem_flatMap.1 hk
  have hcov : ∀ i j cv, (i, j, cv) ∈ matCells p →
      (((i : Int), (j : Int)) : MKey) ∈ (matConstraints p).flatMap (·.args) := by
    intro i j cv hm
    obtain ⟨c, hc, hk⟩ := tdom_mat_covers p i j cv hm
    exact List.mem_flatMap.2 ⟨c, hc, hk⟩
  obtain ⟨ha1, ha2⟩ := matExtent_att p
  cases hargs : (matConstraints p).flatMap (·.args) with
  | nil => exact absurd hargs hne
  | cons k ks =>
    obtain ⟨rest, hr, h0, _, hmem⟩ := starKeys_cons ((0 : Int), (0 : Int)) k ks
    rw [← hargs] at hmem
    refine ⟨rest, hr, h0, ?_, ?_, ?_, ?_⟩
    · intro x hx
      obtain ⟨c, hc, hxc⟩ := hall x ((hmem x).1 hx).2
      exact mat_keys_nonneg p c hc x hxc
    · intro x hx
      obtain ⟨c, hc, hxc⟩ := hall x ((hmem x).1 hx).2
      exact mat_keys_inbox p c hc x hxc
    · rcases ha1 with h0' | ⟨i, j, cv, hm, e⟩
      · exact .inl (by rw [h0']; rfl)
      · by_cases hz : (((i : Int), (j : Int)) : MKey) = (0, 0)
        · have : (i : Int) = 0 := congrArg Prod.fst hz
          exact .inl (by rw [e]; exact this)
        · exact .inr ⟨_, (hmem _).2 ⟨hz, hcov i j cv hm⟩, by rw [e]⟩
    · rcases ha2 with h0' | ⟨i, j, cv, hm, e⟩
      · exact .inl (by rw [h0']; rfl)
      · by_cases hz : (((i : Int), (j : Int)) : MKey) = (0, 0)
        · have : (j : Int) = 0 := congrArg Prod.snd hz
          exact .inl (by rw [e]; exact this)
        · exact .inr ⟨_, (hmem _).2 ⟨hz, hcov i j cv hm⟩, by rw [e]⟩

open Baseline in
/-- **The baseline on a matrix pattern**, with enough fuel. -/
theorem mat_single_ok (p : MatPattern) (h : MatHost) (fuel : Nat)
    (hf : matBaselineFuel p h ≤ fuel) :
    singleMatches matDomain (matConstraints p) h fuel
      = .ok ((matOccurrences p h).map fun rc =>
          MatPos.bound rc.1 rc.2 0 0 ((matExtent p).1 : Int) ((matExtent p).2 : Int)) := by
  obtain ⟨f, rfl⟩ : ∃ f, fuel = f + 4 := ⟨fuel - 4, by unfold matBaselineFuel at hf; omega⟩
  obtain ⟨rest, hreq, h0, hnn, hin, hR', hC'⟩ := mat_requested_props p
  have hq : requestedBindings matDomain (matConstraints p) (f + 4) = some ((0, 0) :: rest) := by
    rw [← hreq]; exact mat_allMissing f _
  unfold singleMatches
  rw [hq]
  simp only []
  have hret : (singleLevels matDomain h (f + 4) (matConstraints p) [matDomain.map.empty]).map
      (fun m => matDomain.map.retain m ((0, 0) :: rest))
      = ((matOccurrences p h).map fun rc =>
          MatPos.bound rc.1 rc.2 0 0 ((matExtent p).1 : Int) ((matExtent p).2 : Int)).map some := by
    show (singleLevels matDomain h (f + 4) (matConstraints p) [MatPos.unbound]).map _ = _
    rw [mat_levels_pattern p h f]
    apply List.map_congr_left
    intro m hm
    obtain ⟨a, _, rfl⟩ := List.mem_map.1 hm
    exact mat_retain_exact a.1 a.2 _ _ rest (by simp) (by simp) h0 hnn hin hR' hC'
  have hwork : levelWork matDomain h (f + 4) (matConstraints p) [matDomain.map.empty] ≤ f + 4 := by
    show levelWork matDomain h (f + 4) (matConstraints p) [MatPos.unbound] ≤ f + 4
    unfold matBaselineFuel at hf
    cases hcs : matConstraints p with
    | nil => simp [levelWork]
    | cons c cs =>
      have := mat_levelWork_top h f c cs (mat_first_args p c (by rw [hcs]; exact List.mem_cons_self))
        (by rw [← hcs]; exact mat_keys_nonneg p)
      rw [hcs, List.length_cons] at hf
      omega
  have := singleLoop_total (D := matDomain) (h := h) (requested := (0, 0) :: rest)
    (mbFuel := f + 4) (matConstraints p) [matDomain.map.empty] _ (f + 4) []
    (fun c _ => ⟨_, mat_allMissing f c.args⟩)
    (fun c hc m => mat_sat_ne_none c (tdom_mat_arity p c hc) h m) hret hwork
  rw [show [(matConstraints p, matDomain.map.empty)]
    = [matDomain.map.empty].map (fun m => (matConstraints p, m)) from rfl, this, List.nil_append,
    List.filter_eq_self.2]
  intro m hm
  obtain ⟨a, _, rfl⟩ := List.mem_map.1 hm
  rw [List.all_eq_true]
  intro k hk
  show (MatPos.get (.bound a.1 a.2 0 0 _ _) k).isSome = true
  rcases List.mem_cons.1 hk with rfl | hk
  · rw [MatPos.get_bound_zero _ _ _ _ (by simp) (by simp)]; rfl
  · rw [mat_get_in _ _ _ _ k (hnn k hk) (hin k hk)]; rfl

theorem matAllCells_nodup (h : MatHost) : (matAllCells h).Nodup := by
  unfold matAllCells List.Nodup
  rw [List.pairwise_flatMap]
  constructor
  · intro r _
    exact List.Pairwise.map _ (fun a b hab e => hab (by cases e; rfl)) List.nodup_range
  · refine List.Pairwise.imp ?_ (List.nodup_range (n := h.length))
    intro r1 r2 hne x hx y hy e
    obtain ⟨c1, _, rfl⟩ := List.mem_map.1 hx
    obtain ⟨c2, _, e2⟩ := List.mem_map.1 hy
    rw [← e2] at e
    exact hne (by cases e; rfl)

theorem mem_matOccurrences (p : MatPattern) (h : MatHost) (rc : MVal) :
    rc ∈ matOccurrences p h ↔ occursMat p h rc.1 rc.2 = true := by
  unfold matOccurrences
  rw [List.mem_filter, mem_matAllCells]
  constructor
  · exact fun hh => hh.2
  · exact fun ho => ⟨(occursMat_cell p h rc.1 rc.2 ho).1, ho⟩

end Pm
