/-
Proofs/BuildFuse.lean — `make_constraints_unique`: fusing one group of transitions with equal
constraints (`fuseGroup`) is a `SubStep`; the whole pass (`makeConstraintsUnique`) is a `Pres`.
-/
import PmVerif.Proofs.BuildCommon
namespace Pm
namespace Automaton
variable {K P : Type} [DecidableEq K] [DecidableEq P]
set_option linter.unusedSectionVars false

/-- All transitions of the group leave `s` and carry the same constraint. -/
def GroupOK (a : Automaton K P) (s : Nat) (ts : List Nat) : Prop :=
  ∃ c, ∀ t ∈ ts, ∃ e, a.g.edge? t = some e ∧ e.src = s ∧ e.w = c

/-! ### The loop `absorbChildren` -/

/-- Loop invariant of `absorbChildren _ N _` started in `b0`: `b` is the current automaton, `D`
the old children absorbed so far. -/
structure Abs (b0 b : Automaton K P) (N : Nat) (D : Nat → Prop) : Prop where
  inv : Inv b
  root : b.root = b0.root
  liveN : b.Live N
  live_sub : ∀ x, b.Live x → b0.Live x
  removed : ∀ x, b0.Live x → ¬ b.Live x → D x
  wt : ∀ x w, x ≠ N → b.g.weight? x = some w → b0.g.weight? x = some w
  wtN : ∀ w0, b0.g.weight? N = some w0 → ∃ w, b.g.weight? N = some w ∧ w.det = w0.det ∧
    ∀ p, p ∈ w.matches_.map (·.1) ↔ (p ∈ w0.matches_.map (·.1) ∨ ∃ old, D old ∧ b0.Ids old p)
  old : ∀ t e, b0.g.edge? t = some e → b.Live e.src → b.g.edge? t = some e
  new : ∀ t e, b.g.edge? t = some e → b0.g.edge? t = some e ∨
    (e.src = N ∧ ∃ old, D old ∧ ∃ t0, b0.g.edge? t0 = some ⟨old, e.dst, e.w⟩)
  copies : ∀ old, D old → ∀ t0 e0, b0.g.edge? t0 = some e0 → e0.src = old →
    ∃ t, b.g.edge? t = some ⟨N, e0.dst, e0.w⟩

theorem Abs.init {b0 : Automaton K P} {N : Nat} (inv : Inv b0) (hl : b0.Live N) :
    Abs b0 b0 N (fun _ => False) where
  inv := inv
  root := rfl
  liveN := hl
  live_sub _ h := h
  removed _ h h' := absurd h h'
  wt _ _ _ h := h
  wtN w0 h0 := ⟨w0, h0, rfl, fun p => by simp⟩
  old _ _ h _ := h
  new _ _ h := .inl h
  copies _ h := h.elim

theorem Abs.congr {b0 b : Automaton K P} {N : Nat} {D D' : Nat → Prop} (ab : Abs b0 b N D)
    (h : ∀ x, D x ↔ D' x) : Abs b0 b N D' := by
  have : D = D' := funext fun x => propext (h x)
  subst this
  exact ab

/-- `cloneOutgoing N old` followed by `addMatches N (matches of old)`. -/
theorem Abs.grow {b0 b c1 c2 : Automaton K P} {N old : Nat} {D : Nat → Prop} {w : AState K}
    (ab : Abs b0 b N D) (hne : old ≠ N)
    (hN : ∀ t e, b0.g.edge? t = some e → e.src = old → e.dst ≠ N)
    (g : Grows b c1 N (fun c d => (∃ t0, b.g.edge? t0 = some ⟨old, d, c⟩) ∧ d ≠ N))
    (cov : ∀ t0 e0, b.g.edge? t0 = some e0 → e0.src = old → e0.dst ≠ N →
      ∃ t, c1.g.edge? t = some ⟨N, e0.dst, e0.w⟩)
    (hw : c1.g.weight? old = some w)
    (am : AddMatchesSpec c1 c2 N (w.matches_.map (·.1))) :
    Abs b0 c2 N (fun x => D x ∨ x = old) := by
  have hwb : b.g.weight? old = some w := by rw [← g.wt_ne old hne]; exact hw
  have hw0 : b0.g.weight? old = some w := ab.wt old w hne hwb
  have hlb : b.Live old := live_of_weight hwb
  have hlive : ∀ x, c2.Live x ↔ b.Live x := fun x => (am.live_iff x).trans (g.live_iff x)
  refine ⟨am.inv, am.root.trans (g.root.trans ab.root), (hlive N).2 ab.liveN,
    fun x hx => ab.live_sub x ((hlive x).1 hx),
    fun x hx hnx => .inl (ab.removed x hx (fun h => hnx ((hlive x).2 h))),
    fun x w' hx hw' => ab.wt x w' hx (by rw [← g.wt_ne x hx, ← am.wt_ne x hx]; exact hw'),
    fun w0 h0 => ?_, fun t e he hl => ?_, fun t e he => ?_, fun o ho t0 e0 he0 hs => ?_⟩
  · obtain ⟨wb, hwb', hd, hi⟩ := ab.wtN w0 h0
    obtain ⟨w1, hw1, hm1, hd1⟩ := g.wt wb hwb'
    obtain ⟨w2, hw2, hd2, _, _, hi2⟩ := am.wt w1 hw1
    refine ⟨w2, hw2, hd2.trans (hd1.trans hd), fun p => ?_⟩
    rw [hi2, hm1, hi]
    constructor
    · rintro ((h | ⟨o, ho, hp⟩) | h)
      · exact .inl h
      · exact .inr ⟨o, .inl ho, hp⟩
      · exact .inr ⟨old, .inr rfl, w, hw0, h⟩
    · rintro (h | ⟨o, ho | ho, hp⟩)
      · exact .inl (.inl h)
      · exact .inl (.inr ⟨o, ho, hp⟩)
      · subst ho
        obtain ⟨w', hw', hp'⟩ := hp
        rw [hw0] at hw'; cases hw'
        exact .inr hp'
  · rw [am.edge]; exact g.old t e (ab.old t e he ((hlive _).1 hl))
  · rw [am.edge] at he
    rcases g.new t e he with h | ⟨_, hs, ⟨t0, ht0⟩, _⟩
    · rcases ab.new t e h with h | ⟨hs, o, ho, h⟩
      · exact .inl h
      · exact .inr ⟨hs, o, .inl ho, h⟩
    · refine .inr ⟨hs, old, .inr rfl, t0, ?_⟩
      rcases ab.new t0 _ ht0 with h | ⟨hs', _⟩
      · exact h
      · exact absurd hs' hne
  · rcases ho with ho | ho
    · obtain ⟨t, ht⟩ := ab.copies o ho t0 e0 he0 hs
      exact ⟨t, by rw [am.edge]; exact g.old t _ ht⟩
    · subst ho
      have hb := ab.old t0 e0 he0 (hs ▸ hlb)
      obtain ⟨t, ht⟩ := cov t0 e0 hb hs (hN t0 e0 he0 hs)
      exact ⟨t, by rw [am.edge]; exact ht⟩

/-- Removing an absorbed child that has no incoming transition left. -/
theorem Abs.remove {b0 c : Automaton K P} {N old : Nat} {D : Nat → Prop}
    (ab : Abs b0 c N D) (hne : old ≠ N) (hD : D old)
    (hin : ∀ t e, c.g.edge? t = some e → e.dst ≠ old) :
    Abs b0 (c.removeState old) N D := by
  obtain ⟨hwt, hedge, hroot, inv'⟩ := removeState_spec ab.inv old hin
  have hlive : ∀ x, (c.removeState old).Live x ↔ x ≠ old ∧ c.Live x := by
    intro x
    rw [live_iff, live_iff, hwt]
    by_cases hx : x = old
    · simp [hx]
    · simp [hx]
  refine ⟨inv', hroot.trans ab.root, (hlive N).2 ⟨Ne.symm hne, ab.liveN⟩,
    fun x hx => ab.live_sub x ((hlive x).1 hx).2, fun x hx hnx => ?_, fun x w hx hw => ?_,
    fun w0 h0 => ?_, fun t e he hl => ?_, fun t e he => ab.new t e ((hedge t e).1 he).1,
    fun o ho t0 e0 he0 hs => ?_⟩
  · by_cases hxo : x = old
    · exact hxo ▸ hD
    · exact ab.removed x hx (fun h => hnx ((hlive x).2 ⟨hxo, h⟩))
  · rw [hwt] at hw
    split at hw
    · cases hw
    · exact ab.wt x w hx hw
  · obtain ⟨w, hw, h⟩ := ab.wtN w0 h0
    exact ⟨w, by rw [hwt, if_neg (Ne.symm hne)]; exact hw, h⟩
  · obtain ⟨h1, h2⟩ := (hlive _).1 hl
    exact (hedge t e).2 ⟨ab.old t e he h2, h1⟩
  · obtain ⟨t, ht⟩ := ab.copies o ho t0 e0 he0 hs
    exact ⟨t, (hedge t _).2 ⟨ht, Ne.symm hne⟩⟩

theorem absorbChildren_abs {b0 : Automaton K P} {N : Nat} :
    ∀ (olds : List Nat) {b b' : Automaton K P} {D : Nat → Prop},
    Abs b0 b N D → (∀ old ∈ olds, old ≠ N) →
    (∀ old ∈ olds, ∀ t e, b0.g.edge? t = some e → e.src = old → e.dst ≠ N) →
    b.absorbChildren N olds = .ok b' → Abs b0 b' N (fun x => D x ∨ x ∈ olds)
  | [], b, b', D, ab, _, _, h => by
    unfold absorbChildren at h; cases h
    exact ab.congr (by simp)
  | old :: olds, b, b', D, ab, hne, hN, h => by
    unfold absorbChildren at h
    split at h
    · cases h
    · rename_i c1 hcl
      split at h
      · cases h
      · rename_i w hw
        split at h
        · cases h
        · rename_i c2 ham
          simp only at h
          obtain ⟨g, cov⟩ := cloneOutgoing_grows ab.inv hcl
          have am := addMatches_spec w.matches_ g.inv ham
          have hneo := hne old List.mem_cons_self
          have ab2 := ab.grow hneo (hN old List.mem_cons_self) g cov (state_ok_iff.1 hw) am
          have ab3 : Abs b0 (if c2.isUnreachable old then c2.removeState old else c2) N
              (fun x => D x ∨ x = old) := by
            split
            · rename_i hu
              exact ab2.remove hneo (.inr rfl) (ab2.inv.isUnreachable_iff.1 hu)
            · exact ab2
          have ab4 := absorbChildren_abs olds ab3 (fun o ho => hne o (List.mem_cons_of_mem _ ho))
            (fun o ho => hN o (List.mem_cons_of_mem _ ho)) h
          exact ab4.congr (by intro x; simp [or_assoc])

/-! ### From the three phases of `fuseGroup` to a description of its result -/

private theorem AddTransitionSpec.weight_some {a a' : Automaton K P} {p ch e : Nat}
    {c : Option (Constraint K P)} (sp : AddTransitionSpec a a' p ch c e) {x : Nat} {w : AState K}
    (hw : a.g.weight? x = some w) :
    ∃ w', a'.g.weight? x = some w' ∧ w'.matches_ = w.matches_ ∧ w'.det = w.det := by
  have hx : x ≠ ch := fun h => sp.deadc (h ▸ live_of_weight hw)
  rw [sp.wt, if_neg hx]
  by_cases hp : x = p
  · subst hp
    rw [if_pos rfl, hw]
    exact ⟨addOrder c e w, rfl, by simp, by simp⟩
  · rw [if_neg hp]
    exact ⟨w, hw, rfl, rfl⟩

private theorem AddTransitionSpec.weight_some' {a a' : Automaton K P} {p ch e : Nat}
    {c : Option (Constraint K P)} (sp : AddTransitionSpec a a' p ch c e) {x : Nat} {w' : AState K}
    (hx : x ≠ ch) (hw : a'.g.weight? x = some w') :
    ∃ w, a.g.weight? x = some w ∧ w'.matches_ = w.matches_ ∧ w'.det = w.det := by
  rw [sp.wt, if_neg hx] at hw
  by_cases hp : x = p
  · subst hp
    rw [if_pos rfl] at hw
    cases h : a.g.weight? x with
    | none => rw [h] at hw; cases hw
    | some w =>
      rw [h] at hw; cases hw
      exact ⟨w, rfl, by simp, by simp⟩
  · rw [if_neg hp] at hw
    exact ⟨w', hw, rfl, rfl⟩

private theorem Shrinks.weight_some' {a a' : Automaton K P} {S : List Nat} (sh : Shrinks a a' S) {x : Nat}
    {w' : AState K} (hw : a'.g.weight? x = some w') :
    ∃ w, a.g.weight? x = some w ∧ w'.matches_ = w.matches_ ∧ w'.det = w.det := by
  cases h : a.g.weight? x with
  | none => rw [sh.dead x h] at hw; cases hw
  | some w =>
    obtain ⟨w'', hw'', h1, h2⟩ := sh.wt x w h
    rw [hw] at hw''; cases hw''
    exact ⟨w, rfl, h1, h2⟩

/-- `x` is the target of a transition of the group. -/
def IsOld (a : Automaton K P) (ts : List Nat) (x : Nat) : Prop :=
  ∃ t ∈ ts, ∃ e, a.g.edge? t = some e ∧ e.dst = x

/-- Description of the result `a'` of fusing the group `ts` (constraint `c0`) at `s` into the new
child `N`. -/
structure Fused (a a' : Automaton K P) (s : Nat) (ts : List Nat) (N : Nat)
    (c0 : Option (Constraint K P)) : Prop where
  inv0 : Inv a
  hs0 : a.Live s
  grp : ∀ t ∈ ts, ∃ e, a.g.edge? t = some e ∧ e.src = s ∧ e.w = c0
  inv' : Inv a'
  root : a'.root = a.root
  deadN : ¬ a.Live N
  liveN : a'.Live N
  live_s : a'.Live s
  live_sub : ∀ x, a'.Live x → x ≠ N → a.Live x
  removed : ∀ x, a.Live x → ¬ a'.Live x → IsOld a ts x
  wt : ∀ x w', x ≠ N → a'.g.weight? x = some w' →
    ∃ w, a.g.weight? x = some w ∧ w'.matches_ = w.matches_ ∧ w'.det = w.det
  wtN : ∃ w, a'.g.weight? N = some w ∧ w.det = false ∧
    ∀ p, p ∈ w.matches_.map (·.1) ↔ ∃ old, IsOld a ts old ∧ a.Ids old p
  keep : ∀ t e, a.g.edge? t = some e → t ∉ ts → a'.Live e.src → a'.g.edge? t = some e
  fusedEdge : ∃ tN, a'.g.edge? tN = some ⟨s, N, c0⟩
  sound : ∀ t e, a'.g.edge? t = some e → a.g.edge? t = some e ∨ e = ⟨s, N, c0⟩ ∨
    (e.src = N ∧ ∃ old, IsOld a ts old ∧ ∃ t0, a.g.edge? t0 = some ⟨old, e.dst, e.w⟩)
  copies : ∀ old, IsOld a ts old → ∀ t0 e0, a.g.edge? t0 = some e0 → e0.src = old →
    ∃ t, a'.g.edge? t = some ⟨N, e0.dst, e0.w⟩

theorem fused_of {a a1 a2 a' : Automaton K P} {s N tN : Nat} {ts : List Nat}
    {c0 : Option (Constraint K P)} (inv : Inv a) (hs : a.Live s)
    (hg : ∀ t ∈ ts, ∃ e, a.g.edge? t = some e ∧ e.src = s ∧ e.w = c0)
    (sh : Shrinks a a1 ts) (sp : AddTransitionSpec a1 a2 s N c0 tN)
    (ab : Abs a2 a' N (IsOld a ts)) : Fused a a' s ts N c0 := by
  have hold_live : ∀ x, IsOld a ts x → a.Live x := by
    rintro x ⟨t, _, e, he, rfl⟩; exact inv.ok.dst_live he
  have hold_ne_s : ∀ x, IsOld a ts x → x ≠ s := by
    rintro x ⟨t, ht, e, he, rfl⟩ hx
    obtain ⟨e', he', hs', _⟩ := hg t ht
    rw [he] at he'; cases he'
    exact inv.noloop t e he (hs'.trans hx.symm)
  have hdeadN : ¬ a.Live N := fun h => sp.deadc ((sh.live_iff N).2 h)
  -- edges of `a2` in terms of `a`
  have hfwd : ∀ t e, a.g.edge? t = some e → t ∉ ts → a2.g.edge? t = some e := by
    intro t e he hts
    have h1 : a1.g.edge? t = some e := by rw [sh.edge, if_neg hts]; exact he
    have htN : t ≠ tN := fun h => by rw [h, sp.fresh] at h1; cases h1
    rw [sp.edge, if_neg htN]; exact h1
  have hbwd : ∀ t e, a2.g.edge? t = some e → e = ⟨s, N, c0⟩ ∨ a.g.edge? t = some e := by
    intro t e he
    rw [sp.edge] at he
    split at he
    · cases he; exact .inl rfl
    · rw [sh.edge] at he
      split at he
      · cases he
      · exact .inr he
  -- weights of `a2` in terms of `a`
  have hwfwd : ∀ x w, a.g.weight? x = some w →
      ∃ w2, a2.g.weight? x = some w2 ∧ w2.matches_ = w.matches_ ∧ w2.det = w.det := by
    intro x w hw
    obtain ⟨w1, hw1, h1, h2⟩ := sh.wt x w hw
    obtain ⟨w2, hw2, h3, h4⟩ := sp.weight_some hw1
    exact ⟨w2, hw2, h3.trans h1, h4.trans h2⟩
  have hwbwd : ∀ x w2, x ≠ N → a2.g.weight? x = some w2 →
      ∃ w, a.g.weight? x = some w ∧ w2.matches_ = w.matches_ ∧ w2.det = w.det := by
    intro x w2 hx hw2
    obtain ⟨w1, hw1, h1, h2⟩ := sp.weight_some' hx hw2
    obtain ⟨w, hw, h3, h4⟩ := sh.weight_some' hw1
    exact ⟨w, hw, h1.trans h3, h2.trans h4⟩
  have hlfwd : ∀ x, a.Live x → a2.Live x := by
    intro x hx
    obtain ⟨w, hw⟩ := live_iff.1 hx
    obtain ⟨w2, hw2, _⟩ := hwfwd x w hw
    exact live_of_weight hw2
  have hids : ∀ x p, a.Live x → (a2.Ids x p ↔ a.Ids x p) := by
    intro x p hx
    have hxN : x ≠ N := fun h => hdeadN (h ▸ hx)
    constructor
    · rintro ⟨w2, hw2, hp⟩
      obtain ⟨w, hw, hm, _⟩ := hwbwd x w2 hxN hw2
      exact ⟨w, hw, hm ▸ hp⟩
    · rintro ⟨w, hw, hp⟩
      obtain ⟨w2, hw2, hm, _⟩ := hwfwd x w hw
      exact ⟨w2, hw2, hm ▸ hp⟩
  have hlive_s : a'.Live s := Classical.byContradiction fun hns =>
    hold_ne_s s (ab.removed s (hlfwd s hs) hns) rfl
  refine ⟨inv, hs, hg, ab.inv, ab.root.trans (sp.root.trans sh.root), hdeadN, ab.liveN, hlive_s,
    fun x hx hxN => ?_, fun x hx hnx => ab.removed x (hlfwd x hx) hnx,
    fun x w' hxN hw' => hwbwd x w' hxN (ab.wt x w' hxN hw'), ?_,
    fun t e he hts hl => ab.old t e (hfwd t e he hts) hl,
    ⟨tN, ab.old tN _ (by rw [sp.edge, if_pos rfl]) hlive_s⟩, fun t e he => ?_,
    fun old ho t0 e0 he0 hs0 => ?_⟩
  · obtain ⟨w2, hw2⟩ := live_iff.1 (ab.live_sub x hx)
    obtain ⟨w, hw, _⟩ := hwbwd x w2 hxN hw2
    exact live_of_weight hw
  · obtain ⟨w, hw, hd, hi⟩ := ab.wtN {} (by rw [sp.wt, if_pos rfl])
    refine ⟨w, hw, hd, fun p => ?_⟩
    rw [hi]
    constructor
    · rintro (h | ⟨old, ho, hp⟩)
      · cases h
      · exact ⟨old, ho, (hids old p (hold_live old ho)).1 hp⟩
    · rintro ⟨old, ho, hp⟩
      exact .inr ⟨old, ho, (hids old p (hold_live old ho)).2 hp⟩
  · rcases ab.new t e he with h | ⟨hsrc, old, ho, t0, h0⟩
    · rcases hbwd t e h with h | h
      · exact .inr (.inl h)
      · exact .inl h
    · refine .inr (.inr ⟨hsrc, old, ho, t0, ?_⟩)
      rcases hbwd t0 _ h0 with h | h
      · cases h; exact absurd rfl (hold_ne_s _ ho)
      · exact h
  · have hts : t0 ∉ ts := fun hm => by
      obtain ⟨e', he', hs', _⟩ := hg t0 hm
      rw [he0] at he'; cases he'
      exact hold_ne_s old ho (hs0.symm.trans hs')
    exact ab.copies old ho t0 e0 (hfwd t0 e0 he0 hts) hs0

/-! ### Semantics of a fused automaton -/

theorem Fused.ne_N {a a' : Automaton K P} {s N : Nat} {ts : List Nat}
    {c0 : Option (Constraint K P)} (f : Fused a a' s ts N c0) {x : Nat} (hx : a.Live x) : x ≠ N :=
  fun h => f.deadN (h ▸ hx)

/-- Soundness: what `a'` accepts, `a` accepts (the new child accepts what some old child did). -/
theorem Fused.sound_acc {σ : Constraint K P → Bool} {a a' : Automaton K P} {s N : Nat}
    {ts : List Nat} {c0 : Option (Constraint K P)} (f : Fused a a' s ts N c0) {x pid : Nat}
    (h : AccND σ a' x pid) :
    (x = N → ∃ old, IsOld a ts old ∧ AccND σ a old pid) ∧ (x ≠ N → AccND σ a x pid) := by
  refine AccND.edge_induction f.inv'.ok (T := fun x pid =>
    (x = N → ∃ old, IsOld a ts old ∧ AccND σ a old pid) ∧ (x ≠ N → AccND σ a x pid)) ?_ ?_ h
  · intro x pid hi
    constructor
    · intro hx
      subst hx
      obtain ⟨w, hw, _, hiff⟩ := f.wtN
      obtain ⟨w', hw', hp⟩ := hi
      rw [hw] at hw'; cases hw'
      obtain ⟨old, ho, hio⟩ := (hiff pid).1 hp
      exact ⟨old, ho, .of_ids hio⟩
    · intro hx
      obtain ⟨w', hw', hp⟩ := hi
      obtain ⟨w, hw, hm, _⟩ := f.wt x w' hx hw'
      exact .of_ids ⟨w, hw, hm ▸ hp⟩
  · intro t e pid he hc _ ih
    rcases f.sound t e he with h0 | h0 | ⟨hsrc, old, ho, t0, h0⟩
    · have hsN : e.src ≠ N := f.ne_N (f.inv0.ok.src_live h0)
      have hdN : e.dst ≠ N := f.ne_N (f.inv0.ok.dst_live h0)
      exact ⟨fun hx => absurd hx hsN, fun _ => AccND.of_edge f.inv0.ok h0 hc (ih.2 hdN)⟩
    · subst h0
      obtain ⟨old, ⟨t1, ht1, e1, he1, hd1⟩, hacc⟩ := ih.1 rfl
      obtain ⟨e1', he1', hs1, hw1⟩ := f.grp t1 ht1
      rw [he1] at he1'; cases he1'
      have hc1 : Holds σ e1.w := by rw [hw1]; exact hc
      have hacc1 : AccND σ a e1.dst pid := by rw [hd1]; exact hacc
      have hs : AccND σ a s pid := hs1 ▸ AccND.of_edge f.inv0.ok he1 hc1 hacc1
      exact ⟨fun hx => absurd hx (f.ne_N f.hs0), fun _ => hs⟩
    · have hld := f.inv0.ok.dst_live h0
      have hdN : e.dst ≠ N := f.ne_N hld
      have hacc : AccND σ a old pid := AccND.of_edge f.inv0.ok h0 hc (ih.2 hdN)
      exact ⟨fun _ => ⟨old, ho, hacc⟩, fun hx => absurd hsrc hx⟩

/-- Completeness: what `a` accepts at a surviving state, `a'` accepts; what an old child accepted,
the new child accepts. -/
theorem Fused.complete_acc {σ : Constraint K P → Bool} {a a' : Automaton K P} {s N : Nat}
    {ts : List Nat} {c0 : Option (Constraint K P)} (f : Fused a a' s ts N c0) {x pid : Nat}
    (h : AccND σ a x pid) :
    (a'.Live x → AccND σ a' x pid) ∧ (IsOld a ts x → AccND σ a' N pid) := by
  refine AccND.edge_induction f.inv0.ok (T := fun x pid =>
    (a'.Live x → AccND σ a' x pid) ∧ (IsOld a ts x → AccND σ a' N pid)) ?_ ?_ h
  · intro x pid hi
    constructor
    · intro hl
      obtain ⟨w, hw, hp⟩ := hi
      obtain ⟨w', hw'⟩ := live_iff.1 hl
      obtain ⟨w0, hw0, hm, _⟩ := f.wt x w' (f.ne_N (live_of_weight hw)) hw'
      rw [hw] at hw0; cases hw0
      exact .of_ids ⟨w', hw', by rw [hm]; exact hp⟩
    · intro ho
      obtain ⟨wN, hwN, _, hiff⟩ := f.wtN
      exact .of_ids ⟨wN, hwN, (hiff pid).2 ⟨x, ho, hi⟩⟩
  · intro t e pid he hc _ ih
    constructor
    · intro hl
      by_cases hts : t ∈ ts
      · obtain ⟨e', he', hs', hw'⟩ := f.grp t hts
        rw [he] at he'; cases he'
        have hN := ih.2 ⟨t, hts, e, he, rfl⟩
        obtain ⟨tN, htN⟩ := f.fusedEdge
        have hc0 : Holds σ c0 := hw' ▸ hc
        rw [hs']
        exact AccND.of_edge f.inv'.ok htN hc0 hN
      · have h' := f.keep t e he hts hl
        exact AccND.of_edge f.inv'.ok h' hc (ih.1 (f.inv'.ok.dst_live h'))
    · intro ho
      obtain ⟨t', ht'⟩ := f.copies e.src ho t e he rfl
      have hl := f.inv'.ok.dst_live ht'
      exact AccND.of_edge f.inv'.ok ht' hc (ih.1 hl)

theorem Fused.lang {σ : Constraint K P → Bool} {a a' : Automaton K P} {s N : Nat}
    {ts : List Nat} {c0 : Option (Constraint K P)} (f : Fused a a' s ts N c0) : LangEq σ a a' :=
  fun _ hx hx' _ => ⟨fun h => (f.sound_acc h).2 (f.ne_N hx), fun h => (f.complete_acc h).1 hx'⟩

theorem Fused.isOld_edge {a a' : Automaton K P} {s N : Nat} {ts : List Nat}
    {c0 : Option (Constraint K P)} (f : Fused a a' s ts N c0) {x : Nat} (ho : IsOld a ts x) :
    ∃ t e, a.g.edge? t = some e ∧ e.src = s ∧ e.w = c0 ∧ e.dst = x := by
  obtain ⟨t, ht, e, he, hd⟩ := ho
  obtain ⟨e', he', hs', hw'⟩ := f.grp t ht
  rw [he] at he'; cases he'
  exact ⟨t, e, he, hs', hw', hd⟩

theorem Fused.rootSrc {a a' : Automaton K P} {s N : Nat} {ts : List Nat}
    {c0 : Option (Constraint K P)} (f : Fused a a' s ts N c0) (rs : RootSrc a) : RootSrc a' := by
  obtain ⟨hl, hin⟩ := rs
  rw [RootSrc, f.root]
  constructor
  · refine Classical.byContradiction fun hn => ?_
    obtain ⟨t, _, e, he, hd⟩ := f.removed _ hl hn
    exact hin t e he hd
  · intro t e he hd
    rcases f.sound t e he with h0 | h0 | ⟨_, old, _, t0, h0⟩
    · exact hin t e h0 hd
    · subst h0
      exact f.ne_N hl hd.symm
    · exact hin t0 _ h0 hd

theorem Fused.detFlag {a a' : Automaton K P} {s N : Nat} {ts : List Nat}
    {c0 : Option (Constraint K P)} (f : Fused a a' s ts N c0) {x : Nat} (h : IsDet a' x) :
    x ≠ N ∧ IsDet a x := by
  obtain ⟨w', hw', hd⟩ := h
  have hx : x ≠ N := by
    intro hx
    subst hx
    obtain ⟨w, hw, hdw, _⟩ := f.wtN
    rw [hw] at hw'; cases hw'
    rw [hdw] at hd; cases hd
  obtain ⟨w, hw, _, hdw⟩ := f.wt x w' hx hw'
  exact ⟨hx, w, hw, hdw ▸ hd⟩

theorem Fused.flag_s {a a' : Automaton K P} {s N : Nat} {ts : List Nat}
    {c0 : Option (Constraint K P)} (f : Fused a a' s ts N c0) (h : IsDet a s) : IsDet a' s := by
  obtain ⟨w, hw, hd⟩ := h
  obtain ⟨w', hw'⟩ := live_iff.1 f.live_s
  obtain ⟨w0, hw0, _, hdw⟩ := f.wt s w' (f.ne_N f.hs0) hw'
  rw [hw] at hw0; cases hw0
  exact ⟨w', hw', hdw.trans hd⟩

theorem Fused.children {a a' : Automaton K P} {s N : Nat} {ts : List Nat}
    {c0 : Option (Constraint K P)} (f : Fused a a' s ts N c0) (t : Nat)
    (e : GEdge (Option (Constraint K P))) (he : a'.g.edge? t = some e) (hsrc : e.src = s) :
    ¬ a.Live e.dst ∨ ∃ t0 e0, a.g.edge? t0 = some e0 ∧ e0.src = s ∧ e0.dst = e.dst := by
  rcases f.sound t e he with h0 | h0 | ⟨hN, _⟩
  · exact .inr ⟨t, e, h0, hsrc, rfl⟩
  · subst h0
    exact .inl f.deadN
  · exact absurd (hN.symm.trans hsrc).symm (f.ne_N f.hs0)

theorem Fused.det {σ : Constraint K P → Bool} {a a' : Automaton K P} {s N : Nat}
    {ts : List Nat} {c0 : Option (Constraint K P)} (f : Fused a a' s ts N c0) (hne : ts ≠ [])
    (dok : DetOKE σ a) : DetOKE σ a' := by
  refine detOKE_transfer dok fun x hdet => ?_
  obtain ⟨hxN, hdet0⟩ := f.detFlag hdet
  have hlx' : a'.Live x := by obtain ⟨w, hw, _⟩ := hdet; exact live_of_weight hw
  refine ⟨hdet0, fun t e he hsrc => ?_, fun pid hc => ?_⟩
  · rcases f.sound t e he with h0 | h0 | ⟨hN, _⟩
    · refine ⟨⟨t, e, h0, hsrc, rfl⟩, fun pid hacc => ⟨t, e, h0, hsrc, rfl, ?_⟩⟩
      exact (f.sound_acc hacc).2 (f.ne_N (f.inv0.ok.dst_live h0))
    · subst h0
      have hxs : s = x := hsrc
      subst hxs
      constructor
      · obtain ⟨t1, ht1⟩ := List.exists_mem_of_ne_nil ts hne
        obtain ⟨e1, he1, hs1, hw1⟩ := f.grp t1 ht1
        exact ⟨t1, e1, he1, hs1, hw1⟩
      · intro pid hacc
        obtain ⟨old, ho, hacc0⟩ := (f.sound_acc hacc).1 rfl
        obtain ⟨t1, e1, he1, hs1, hw1, hd1⟩ := f.isOld_edge ho
        exact ⟨t1, e1, he1, hs1, hw1, hd1 ▸ hacc0⟩
    · exact absurd (hN.symm.trans hsrc).symm hxN
  · obtain ⟨t, e, c, he, hsrc, hw, hσ, hacc⟩ := hc
    by_cases hts : t ∈ ts
    · obtain ⟨e', he', hs', hw'⟩ := f.grp t hts
      rw [he] at he'; cases he'
      obtain ⟨tN, htN⟩ := f.fusedEdge
      have hN := (f.complete_acc hacc).2 ⟨t, hts, e, he, rfl⟩
      exact ⟨tN, _, c, htN, hs'.symm.trans hsrc, hw'.symm.trans hw, hσ, hN⟩
    · have h' := f.keep t e he hts (hsrc ▸ hlx')
      exact ⟨t, e, c, h', hsrc, hw, hσ, (f.complete_acc hacc).1 (f.inv'.ok.dst_live h')⟩

theorem Fused.subStep {σ : Constraint K P → Bool} {a a' : Automaton K P} {s N : Nat}
    {ts : List Nat} {c0 : Option (Constraint K P)} (f : Fused a a' s ts N c0) (hne : ts ≠ []) :
    SubStep σ a a' s where
  inv := f.inv'
  root := f.root
  rootSrc := f.rootSrc
  live_s := f.live_s
  lang := f.lang
  detFlag _ h := (f.detFlag h).2
  flag_s := f.flag_s
  children := f.children
  det := f.det hne

/-! ### `fuseGroup` -/

private theorem mem_mapR {α β : Type} {f : α → R β} : ∀ {l : List α} {out : List β},
    mapR f l = .ok out → ∀ y, y ∈ out ↔ ∃ x ∈ l, f x = .ok y
  | [], out, h, y => by
    unfold mapR at h; cases h; simp
  | x :: l, out, h, y => by
    unfold mapR at h
    split at h
    · cases h
    · rename_i y0 hy0
      split at h
      · cases h
      · rename_i ys hys
        cases h
        have ih := mem_mapR hys y
        simp only [List.mem_cons, ih]
        constructor
        · rintro (rfl | ⟨x', hx', hf⟩)
          · exact ⟨x, .inl rfl, hy0⟩
          · exact ⟨x', .inr hx', hf⟩
        · rintro ⟨x', rfl | hx', hf⟩
          · rw [hy0] at hf; cases hf; exact .inl rfl
          · exact .inr ⟨x', hx', hf⟩

theorem fuseGroup_fused {a a' : Automaton K P} {s : Nat} {ts : List Nat}
    {c0 : Option (Constraint K P)} (inv : Inv a) (hs : a.Live s)
    (hg : ∀ t ∈ ts, ∃ e, a.g.edge? t = some e ∧ e.src = s ∧ e.w = c0)
    (h : a.fuseGroup s ts = .ok a') : ∃ N, ts ≠ [] ∧ Fused a a' s ts N c0 := by
  unfold fuseGroup at h
  split at h
  · cases h
  · rename_i targets htg
    simp only at h
    have hold : ∀ x, x ∈ dedup targets ↔ IsOld a ts x := by
      intro x
      rw [mem_dedup, mem_mapR htg]
      constructor
      · rintro ⟨t, ht, hn⟩
        obtain ⟨e, he, hd⟩ := nextState_ok_iff.1 hn
        exact ⟨t, ht, e, he, hd⟩
      · rintro ⟨t, ht, e, he, hd⟩
        exact ⟨t, ht, nextState_ok_iff.2 ⟨e, he, hd⟩⟩
    split at h
    · cases h
    · cases h
    · rename_i a1 c hrm
      split at h
      · cases h
      · rename_i a2 N hat
        obtain ⟨sh, hr, _⟩ := removeTransitions_shrinks ts inv hrm
        have hne : ts ≠ [] := by
          rintro rfl
          unfold removeTransitions at hrm
          cases hrm
        have hc : c = c0 := by
          rcases hr c rfl with ⟨_, hl⟩ | ⟨t, ht, e, he, hw⟩
          · cases hl
          · obtain ⟨e', he', _, hw'⟩ := hg t ht
            rw [he] at he'; cases he'
            exact hw.symm.trans hw'
        subst hc
        obtain ⟨tN, sp⟩ := addTransition_spec sh.inv ((sh.live_iff s).2 hs) hat
        have hliveN : a2.Live N := live_of_weight (by rw [sp.wt, if_pos rfl])
        have hdeadN : ¬ a.Live N := fun hl => sp.deadc ((sh.live_iff N).2 hl)
        have hold_live : ∀ x, IsOld a ts x → a.Live x := by
          rintro x ⟨t, _, e, he, rfl⟩; exact inv.ok.dst_live he
        have hold_ne_s : ∀ x, IsOld a ts x → x ≠ s := by
          rintro x ⟨t, ht, e, he, rfl⟩ hx
          obtain ⟨e', he', hs', _⟩ := hg t ht
          rw [he] at he'; cases he'
          exact inv.noloop t e he (hs'.trans hx.symm)
        have ab := absorbChildren_abs (dedup targets) (Abs.init sp.inv hliveN)
          (fun o ho hx => hdeadN (hx ▸ hold_live o ((hold o).1 ho)))
          (fun o ho t e he hsrc hd => by
            rw [sp.edge] at he
            split at he
            · cases he
              exact hold_ne_s o ((hold o).1 ho) hsrc.symm
            · exact sp.deadc (hd ▸ sh.inv.ok.dst_live he)) h
        exact ⟨N, hne, fused_of inv hs hg sh sp (ab.congr fun x => by simp [hold])⟩

theorem fuseGroup_spec {σ : Constraint K P → Bool} {a a' : Automaton K P} {s : Nat} {ts : List Nat}
    (inv : Inv a) (hs : a.Live s) (hg : GroupOK a s ts) (h : a.fuseGroup s ts = .ok a') :
    SubStep σ a a' s ∧
    (∀ t e, a.g.edge? t = some e → e.src = s → t ∉ ts → a'.g.edge? t = some e) := by
  obtain ⟨c0, hg⟩ := hg
  obtain ⟨N, hne, f⟩ := fuseGroup_fused inv hs hg h
  exact ⟨f.subStep hne, fun t e he hsrc hts => f.keep t e he hts (hsrc ▸ f.live_s)⟩

/-! ### `groupTransitions` -/

/-- Invariant of `groupTransitions`: distinct keys; every group is duplicate free, disjoint from
the transitions still to be read, and made of transitions leaving `s` with the key as
constraint. -/
def GI (a : Automaton K P) (s : Nat) (rest : List Nat)
    (acc : List (Option (Cons K P) × List Nat)) : Prop :=
  (acc.map (·.1)).Nodup ∧ ∀ g ∈ acc, g.2.Nodup ∧
    ∀ t ∈ g.2, t ∉ rest ∧ ∃ e, a.g.edge? t = some e ∧ e.src = s ∧ e.w = g.1

theorem groupTransitions_gi {a : Automaton K P} {s : Nat} :
    ∀ (rest : List Nat) (acc out : List (Option (Cons K P) × List Nat)), rest.Nodup →
    (∀ t ∈ rest, ∃ e, a.g.edge? t = some e ∧ e.src = s) → GI a s rest acc →
    a.groupTransitions rest acc = .ok out → GI a s [] out
  | [], acc, out, _, _, hgi, h => by
    unfold groupTransitions at h; cases h; exact hgi
  | t :: rest, acc, out, hnd, hall, hgi, h => by
    unfold groupTransitions at h
    split at h
    · cases h
    · rename_i c hc
      obtain ⟨e, he, hw⟩ := constraintOf_ok_iff.1 hc
      obtain ⟨e', he', hsrc⟩ := hall t List.mem_cons_self
      rw [he] at he'; cases he'
      rw [List.nodup_cons] at hnd
      have hall' : ∀ t' ∈ rest, ∃ e, a.g.edge? t' = some e ∧ e.src = s :=
        fun t' ht' => hall t' (List.mem_cons_of_mem _ ht')
      have hkeep : ∀ g ∈ acc, g.2.Nodup ∧
          ∀ u ∈ g.2, u ∉ rest ∧ ∃ e, a.g.edge? u = some e ∧ e.src = s ∧ e.w = g.1 := by
        intro g hg
        obtain ⟨h1, h2⟩ := hgi.2 g hg
        exact ⟨h1, fun u hu => ⟨fun hm => (h2 u hu).1 (List.mem_cons_of_mem _ hm), (h2 u hu).2⟩⟩
      split at h
      · refine groupTransitions_gi rest _ out hnd.2 hall' ⟨?_, ?_⟩ h
        · have hk : (acc.map fun g => if g.1 = c then (g.1, g.2 ++ [t]) else g).map (·.1) =
              acc.map (·.1) := by
            rw [List.map_map]
            apply List.map_congr_left
            intro g _
            simp only [Function.comp]
            split <;> rfl
          rw [hk]; exact hgi.1
        · intro g' hg'
          obtain ⟨g, hg, rfl⟩ := List.mem_map.1 hg'
          by_cases hgc : g.1 = c
          · rw [if_pos hgc]
            obtain ⟨h1, h2⟩ := hgi.2 g hg
            constructor
            · show (g.2 ++ [t]).Nodup
              rw [List.nodup_append]
              refine ⟨h1, by simp, ?_⟩
              intro u hu v hv
              simp only [List.mem_singleton] at hv
              subst hv
              intro huv; subst huv
              exact (h2 u hu).1 List.mem_cons_self
            · intro u hu
              rcases List.mem_append.1 hu with hu | hu
              · exact (hkeep g hg).2 u hu
              · simp only [List.mem_singleton] at hu
                subst hu
                exact ⟨hnd.1, e, he, hsrc, hw.trans hgc.symm⟩
          · rw [if_neg hgc]; exact hkeep g hg
      · rename_i hany
        refine groupTransitions_gi rest _ out hnd.2 hall' ⟨?_, ?_⟩ h
        · rw [List.map_append, List.nodup_append]
          refine ⟨hgi.1, by simp, ?_⟩
          intro k hk k' hk'
          simp only [List.map_cons, List.map_nil, List.mem_singleton] at hk'
          subst hk'
          intro hkc; subst hkc
          obtain ⟨g, hg, hgk⟩ := List.mem_map.1 hk
          exact hany (List.any_eq_true.2 ⟨g, hg, by simpa using hgk⟩)
        · intro g hg
          rcases List.mem_append.1 hg with hg | hg
          · exact hkeep g hg
          · simp only [List.mem_singleton] at hg
            subst hg
            refine ⟨by simp, fun u hu => ?_⟩
            simp only [List.mem_singleton] at hu
            subst hu
            exact ⟨hnd.1, e, he, hsrc, hw⟩

theorem groups_flatten_nodup {a : Automaton K P} :
    ∀ (acc : List (Option (Cons K P) × List Nat)), (acc.map (·.1)).Nodup →
    (∀ g ∈ acc, g.2.Nodup ∧ ∀ t ∈ g.2, ∃ e, a.g.edge? t = some e ∧ e.w = g.1) →
    ((acc.map (·.2)).flatten).Nodup
  | [], _, _ => by simp
  | g :: acc, hk, hm => by
    rw [List.map_cons, List.nodup_cons] at hk
    rw [List.map_cons, List.flatten_cons, List.nodup_append]
    refine ⟨(hm g List.mem_cons_self).1,
      groups_flatten_nodup acc hk.2 (fun g' hg' => hm g' (List.mem_cons_of_mem _ hg')), ?_⟩
    intro u hu v hv huv
    subst huv
    obtain ⟨l, hl, hul⟩ := List.mem_flatten.1 hv
    obtain ⟨g', hg', rfl⟩ := List.mem_map.1 hl
    obtain ⟨e, he, hw⟩ := (hm g List.mem_cons_self).2 u hu
    obtain ⟨e', he', hw'⟩ := (hm g' (List.mem_cons_of_mem _ hg')).2 u hul
    rw [he] at he'; cases he'
    exact hk.1 (List.mem_map.2 ⟨g', hg', hw'.symm.trans hw⟩)

/-! ### `fuseLogged`, `makeConstraintsUnique` -/

private theorem sublist_flatten {α : Type} : ∀ {l₁ l₂ : List (List α)}, l₁.Sublist l₂ →
    l₁.flatten.Sublist l₂.flatten
  | _, _, .slnil => List.Sublist.refl _
  | _, _, .cons a h => by
    rw [List.flatten_cons]
    exact (sublist_flatten h).trans (List.sublist_append_right _ _)
  | _, _, .cons_cons a h => by
    rw [List.flatten_cons, List.flatten_cons]
    exact List.Sublist.append (List.Sublist.refl a) (sublist_flatten h)

private theorem disjoint_of_mem_erase : ∀ (pending : List (List Nat)) {ts ts' : List Nat},
    pending.flatten.Nodup → ts ∈ pending → ts' ∈ pending.erase ts → ∀ t ∈ ts', t ∉ ts
  | [], _, _, _, h, _, _, _, _ => by cases h
  | p :: rest, ts, ts', hnd, hts, hts', t, ht', ht => by
    rw [List.flatten_cons, List.nodup_append] at hnd
    obtain ⟨_, h2, h3⟩ := hnd
    by_cases hp : p = ts
    · subst hp
      rw [List.erase_cons_head] at hts'
      exact h3 t ht t (List.mem_flatten.2 ⟨ts', hts', ht'⟩) rfl
    · have hne : ¬ (p == ts) = true := by simpa using hp
      rw [List.erase_cons_tail hne] at hts'
      have hts0 : ts ∈ rest := by
        rcases List.mem_cons.1 hts with h | h
        · exact absurd h.symm hp
        · exact h
      rcases List.mem_cons.1 hts' with h | h
      · subst h
        exact h3 t ht' t (List.mem_flatten.2 ⟨ts, hts0, ht⟩) rfl
      · exact disjoint_of_mem_erase rest h2 hts0 h t ht' ht

theorem fuseLogged_spec {σ : Constraint K P → Bool} {s : Nat} :
    ∀ (evs : List Ev) (pending : List (List Nat)) {a a' : Automaton K P} {evs' : List Ev},
    Inv a → a.Live s → pending.flatten.Nodup → (∀ l ∈ pending, GroupOK a s l) →
    a.fuseLogged s pending evs = .ok (a', evs') → Pres σ a a' s ∧ ∃ pre, evs = pre ++ evs'
  | evs, [], a, a', evs', inv, hs, _, _, h => by
    unfold fuseLogged at h
    cases h
    exact ⟨Pres.refl inv hs, [], rfl⟩
  | [], p :: ps, a, a', evs', _, _, _, _, h => by
    unfold fuseLogged at h
    cases h
  | ev :: evs, p :: ps, a, a', evs', inv, hs, hnd, hgrp, h => by
    cases ev with
    | group s' ts =>
      unfold fuseLogged at h
      split at h
      · rename_i hcond
        obtain ⟨_, hmem⟩ := hcond
        split at h
        · cases h
        · rename_i a1 hf
          obtain ⟨st, hkeep⟩ := fuseGroup_spec (σ := σ) inv hs (hgrp ts hmem) hf
          have hnd' : ((p :: ps).erase ts).flatten.Nodup :=
            hnd.sublist (sublist_flatten List.erase_sublist)
          have hgrp' : ∀ l ∈ (p :: ps).erase ts, GroupOK a1 s l := by
            intro l hl
            obtain ⟨c, hc⟩ := hgrp l (List.mem_of_mem_erase hl)
            refine ⟨c, fun t ht => ?_⟩
            obtain ⟨e, he, hsrc, hw⟩ := hc t ht
            exact ⟨e, hkeep t e he hsrc (disjoint_of_mem_erase _ hnd hmem hl t ht), hsrc, hw⟩
          obtain ⟨pr, pre, hpre⟩ := fuseLogged_spec evs _ st.inv st.live_s hnd' hgrp' h
          exact ⟨st.pres.trans pr, .group s' ts :: pre, by rw [hpre]; rfl⟩
      · cases h
    | topo _ => unfold fuseLogged at h; cases h
    | detAsk _ => unfold fuseLogged at h; cases h
    | detYes _ => unfold fuseLogged at h; cases h
    | merge _ _ => unfold fuseLogged at h; cases h
    | iterEnd _ => unfold fuseLogged at h; cases h

theorem makeConstraintsUnique_spec {σ : Constraint K P → Bool} {a a' : Automaton K P} {s : Nat}
    {evs evs' : List Ev} (inv : Inv a) (hs : a.Live s)
    (h : a.makeConstraintsUnique s evs = .ok (a', evs')) :
    Pres σ a a' s ∧ ∃ pre, evs = pre ++ evs' := by
  unfold makeConstraintsUnique at h
  split at h
  · cases h
  · rename_i ts0 hts0
    split at h
    · cases h
    · rename_i groups hgr
      obtain ⟨w, hw, rfl⟩ := allTransitions_ok_iff.1 hts0
      have gi := groupTransitions_gi (s := s) _ [] groups (inv.ok.nodup s w hw)
        (fun t ht => inv.listed_live hw ht) ⟨by simp, by simp⟩ hgr
      have hfl : ((groups.map (·.2)).flatten).Nodup :=
        groups_flatten_nodup groups gi.1 fun g hg =>
          ⟨(gi.2 g hg).1, fun t ht => by
            obtain ⟨_, e, he, _, hw'⟩ := (gi.2 g hg).2 t ht
            exact ⟨e, he, hw'⟩⟩
      refine fuseLogged_spec evs _ inv hs ?_ ?_ h
      · exact hfl.sublist (sublist_flatten (List.Sublist.map _ List.filter_sublist))
      · intro l hl
        obtain ⟨g, hg, rfl⟩ := List.mem_map.1 hl
        have hg' := (List.mem_filter.1 hg).1
        exact ⟨g.1, fun t ht => ((gi.2 g hg').2 t ht).2⟩

end Automaton
end Pm
