/-
Proofs/C08Str.lean — C08 (totality) of the traversal for string automata: the hypotheses
`RunSafe` of `Proofs/C08Run.lean` from `OrdersOK`, a live root and the per-state conditions
`Anch.StateOK` (`strSafe`), the candidate bound (`stepCands_str_length`), and the facts about a
successful guarded `build` the final statements need (`built_facts`: `OrdersOK`, live root,
acyclicity). The invariant of binding maps is `StrInv` (a bound map has extent `≥ 1`).
Everything lives in `namespace Pm.C08`.
-/
import PmVerif.Proofs.C08Run
import PmVerif.Proofs.StrProgMain
import PmVerif.Props.TBuild
import PmVerif.Props.C16
import PmVerif.Props.C14
namespace Pm
namespace C08
open Automaton

/-! ### generic: evaluation of a constraint whose predicate is total at its arity -/

section
variable {K V P H M : Type}

theorem resolveArgs_length (get : M → K → Option V) (m : M) :
    ∀ (args : List K) (vs : List V), resolveArgs get m args = .ok vs → vs.length = args.length := by
  intro args vs h
  have := congrArg List.length ((c16_resolve_ok get m args vs).mp h)
  simpa using this.symm

theorem satOrFalse_isSome (get : M → K → Option V) (check : P → H → List V → Option Bool)
    (c : Constraint K P) (h : H) (m : M)
    (htot : ∀ vs : List V, vs.length = c.args.length → (check c.pred h vs).isSome) :
    (satOrFalse get check c h m).isSome := by
  unfold satOrFalse isSatisfied isSatisfiedLog
  cases hr : resolveArgs get m c.args with
  | error e => rfl
  | ok vs => exact htot vs (resolveArgs_length get m c.args vs hr)

/-! ### the out-degree bound of an automaton -/

/-- One more than the largest `constraint_order` length of a live state (explicit function of the
automaton). -/
def outDeg (a : Automaton K P) : Nat :=
  (a.g.nodes.map fun o => match o with
    | some nd => nd.w.corder.length + 1
    | none => 0).foldl max 0

theorem le_outDeg {a : Automaton K P} {s : Nat} {w : AState K} (hw : a.g.weight? s = some w) :
    w.corder.length + 1 ≤ outDeg a := by
  unfold outDeg
  apply Anch.mem_le_foldl_max
  unfold SGraph.weight? SGraph.node? at hw
  cases hn : a.g.nodes[s]? with
  | none => rw [hn] at hw; cases hw
  | some o =>
    rw [hn] at hw
    cases o with
    | none => cases hw
    | some nd =>
      change some nd.w = some w at hw
      cases hw
      exact List.mem_map.mpr ⟨some nd, List.mem_of_getElem? hn, rfl⟩

end

/-! ### what a successful guarded build provides -/

section Built
variable {K P : Type} [DecidableEq K] [DecidableEq P]

/-- The root of a successfully built automaton is live. -/
theorem build_root_live {σ : Constraint K P → Bool}
    {toTree : List (Constraint K P) → Option (CTree (Constraint K P))} (L : StepLemmas σ toTree)
    {req : K → List K} {fuel : Nat} {patterns : List (Nat × List (Constraint K P) × List K)}
    {evs : List Ev} {A : Automaton K P} (h : build toTree req fuel patterns evs = .ok A) :
    ∃ w, A.g.weight? A.root = some w := by
  unfold build at h
  split at h
  · cases h
  · rename_i a1 h1
    obtain ⟨inv1, _, rs1, nd1, _⟩ := addPatterns_spec (σ := σ) h1
    have g1 : Automaton.Good σ a1 := ⟨inv1, rs1, detOKE_of_noDet nd1⟩
    unfold finish at h
    split at h
    · cases h
    · rename_i a2 h2
      obtain ⟨g2, _, _⟩ := mainLoop_keeps L _ _ g1 h2
      obtain ⟨_, hr3, _, hw3⟩ := populateScopes_frame g2.inv h
      obtain ⟨w2, hw2⟩ := live_iff.mp g2.rs.1
      have := hw3 a2.root
      rw [hw2] at this
      rw [hr3]
      cases hA : A.g.weight? a2.root with
      | none => rw [hA] at this; cases this
      | some w => exact ⟨w, rfl⟩

/-- `OrdersOK`, a live root and a rank decreasing along edges, for every successful guarded build
with a faithful tree decomposition. -/
theorem built_facts
    (toTree : List (Constraint K P) → Option (CTree (Constraint K P)))
    (hT : ∀ σ, TreeOK toTree σ) (req : K → List K)
    (fuel : Nat) (patterns : List (Nat × List (Constraint K P) × List K)) (evs : List Ev)
    (A : Automaton K P) (h : build toTree req fuel patterns evs = .ok A) :
    OrdersOK A ∧ (∃ w, A.g.weight? A.root = some w) ∧
      ∃ rank : Nat → Nat, (∀ s, rank s ≤ A.g.nodes.length) ∧
        ∀ t e, A.g.edge? t = some e → rank e.dst < rank e.src := by
  have ok := build_ordersOK toTree req fuel patterns evs A (fun _ => true) (hT _) h
  obtain ⟨rank, hrank⟩ := build_acyclic toTree req fuel patterns evs A (fun _ => true) (hT _) h
  exact ⟨ok, build_root_live (stepLemmas (hT fun _ => true)) h,
    compressRank A rank, compressRank_le A rank, compressRank_lt A ok rank hrank⟩

end Built

/-! ### strings -/

theorem strInv_unbound : StrInv .unbound := trivial

/-- `retain_keys` on a key list of the shape the builder produces (empty, or the start key first
and only once) succeeds on every invariant map and re-establishes the invariant. -/
theorem str_retain_shape (m : StrPos) (ks : List Nat) (hi : StrInv m)
    (hs : ks = [] ∨ ∃ rest, ks = 0 :: rest ∧ 0 ∉ rest) :
    ∃ m', strPosMap.retain m ks = some m' ∧ StrInv m' := by
  have hdup : ∀ rest, ks = 0 :: rest → 0 ∉ rest := by
    intro rest he
    rcases hs with h | ⟨rest', h, h0⟩
    · rw [h] at he; cases he
    · rw [h] at he; cases he; exact h0
  have hfirst : ks = [] ∨ ks.head? = some 0 ∨ ∀ k ∈ ks, StrPos.get m k = none := by
    rcases hs with h | ⟨rest', h, _⟩
    · exact .inl h
    · exact .inr (.inl (by rw [h]; rfl))
  obtain ⟨m', hm', _⟩ := str_retain_ok m ks hi hdup hfirst
  exact ⟨m', hm', (str_retain_preserves m m' ks hm').1⟩

/-- The hypotheses of the generic traversal theorems for a string automaton all of whose live
states satisfy `Anch.StateOK`. -/
theorem strSafe {A : Automaton Nat CharPred} {ps : List (List CharVar)} (h : List Nat)
    (ok : OrdersOK A) (hroot : ∃ w, A.g.weight? A.root = some w)
    (hok : ∀ s w, A.g.weight? s = some w → Anch.StateOK A ps s w) :
    RunSafe strDomain A h StrInv where
  ok := ok
  root := hroot
  empty := strInv_unbound
  bind := fun m k v m' hi _ hb => strInv_bind m m' k v hi hb
  scope := fun s w hw m hi => str_retain_shape m w.scope hi (hok s w hw).scope_shape
  keys := fun s w hw pid ks hmem m hi =>
    (str_retain_shape m ks hi ((hok s w hw).matches_ pid ks hmem).1).imp fun _ h => h.1
  sat := by
    intro s w hw t ht e c he hc m _
    obtain ⟨e', c', he', hc', har, _⟩ := (hok s w hw).con t ht
    rw [he] at he'; cases he'
    rw [hc] at hc'; cases hc'
    apply satOrFalse_isSome
    intro vs hvs
    exact c16_str_check_total c.pred h vs (hvs.trans har)

/-! ### how many step candidates -/

/-- All candidates are bound maps. -/
abbrev AllBound (cands : List StrPos) : Prop := ∀ m ∈ cands, ∃ a l, m = StrPos.bound a l

theorem extend_str_bound (h : List Nat) (inc : Bool) (k a l : Nat) :
    (extend strPosMap strOpts h inc k (.bound a l)).length ≤ 1 ∧
      AllBound (extend strPosMap strOpts h inc k (.bound a l)) := by
  unfold extend
  split
  · exact ⟨Nat.le_refl _, fun m hm => ⟨a, l, List.mem_singleton.mp hm⟩⟩
  · simp only
    split
    · exact ⟨Nat.le_refl _, fun m hm => ⟨a, l, List.mem_singleton.mp hm⟩⟩
    · constructor
      · by_cases hk : k = 0
        · subst hk
          refine Nat.le_trans (Nat.le_of_eq ?_) (Nat.zero_le 1)
          rw [List.length_eq_zero_iff, List.filterMap_eq_nil_iff]
          intro v _
          rfl
        · refine Nat.le_trans (List.length_filterMap_le _ _) ?_
          simp only [strOpts, hk, if_false]
          split <;> simp
      · intro m hm
        obtain ⟨v, _, hv⟩ := List.mem_filterMap.mp hm
        split at hv
        · rename_i m' hb
          cases hv
          have hb' : StrPos.bind (.bound a l) k v = .ok m := hb
          exact ⟨a, _, (str_bind_bound_ok a l k v m hb').2⟩
        · cases hv

theorem extend_str_unbound (h : List Nat) (inc : Bool) (k : Nat) :
    extend strPosMap strOpts h inc k .unbound = [.unbound] ∨
      ((extend strPosMap strOpts h inc k .unbound).length ≤ strByteLen h ∧
        AllBound (extend strPosMap strOpts h inc k .unbound)) := by
  unfold extend
  have hg : (strPosMap.get .unbound k).isSome = false := rfl
  rw [hg]
  simp only [Bool.false_eq_true, if_false]
  split
  · exact .inl rfl
  · right
    constructor
    · refine Nat.le_trans (List.length_filterMap_le _ _) ?_
      simp only [strOpts]
      split <;> simp
    · intro m hm
      obtain ⟨v, _, hv⟩ := List.mem_filterMap.mp hm
      split at hv
      · rename_i m' hb
        cases hv
        have hb' : StrPos.bind .unbound k v = .ok m := hb
        exact ⟨v, 1, (str_bind_unbound_ok k v m hb').2⟩
      · cases hv

theorem bindAll_str_length (h : List Nat) (m : StrPos) (ks : List Nat) (inc : Bool) :
    (bindAll strPosMap strOpts h m ks inc).length ≤ max 1 (strByteLen h) := by
  apply bindAll_length (Bd := fun m => ∃ a l, m = StrPos.bound a l)
  · rintro inc k m ⟨a, l, rfl⟩
    exact extend_str_bound h inc k a l
  · intro inc k m hm
    cases m with
    | unbound => exact extend_str_unbound h inc k
    | bound a l => exact absurd ⟨a, l, rfl⟩ hm

theorem stepCands_str_length {h : List Nat} {w : AState Nat} {m : StrPos} {cands : List StrPos}
    (hc : stepCands strDomain h w m = .ok cands) : cands.length ≤ max 1 (strByteLen h) := by
  unfold stepCands at hc
  rw [retainAll_length hc]
  exact bindAll_str_length h m w.scope true

/-- The explicit fuel bound of the string traversal. -/
def strRunBound (A : Automaton Nat CharPred) (h : List Nat) : Nat :=
  geom (max 1 (strByteLen h) * outDeg A) A.g.nodes.length

theorem str_succ_bound {A : Automaton Nat CharPred} {h : List Nat} {s : Nat} {m : StrPos}
    {nexts : List (Nat × StrPos)} (hn : nextLegalStates strDomain A h s m = .ok nexts) :
    nexts.length ≤ max 1 (strByteLen h) * outDeg A := by
  obtain ⟨w, cands, hw, hc, hlen⟩ := nextLegalStates_length hn
  refine Nat.le_trans hlen (Nat.mul_le_mul (stepCands_str_length hc) (le_outDeg hw))

/-- Strings: the traversal of an automaton whose live states are `StateOK` returns `.ok`, the
fuel error, or the `fail_next_state` panic (the latter only with two epsilons somewhere). -/
theorem str_run_res {A : Automaton Nat CharPred} {ps : List (List CharVar)} (h : List Nat)
    (ok : OrdersOK A) (hroot : ∃ w, A.g.weight? A.root = some w)
    (hok : ∀ s w, A.g.weight? s = some w → Anch.StateOK A ps s w) (fuel : Nat) :
    ResF A (run strDomain A h fuel) :=
  run_res (strSafe h ok hroot hok) fuel

/-- Strings: with an acyclic graph, fuel `strRunBound A h` suffices. -/
theorem str_run_total {A : Automaton Nat CharPred} {ps : List (List CharVar)} (h : List Nat)
    (ok : OrdersOK A) (hroot : ∃ w, A.g.weight? A.root = some w)
    (hok : ∀ s w, A.g.weight? s = some w → Anch.StateOK A ps s w)
    (rank : Nat → Nat) (hle : ∀ s, rank s ≤ A.g.nodes.length)
    (hrank : ∀ t e, A.g.edge? t = some e → rank e.dst < rank e.src)
    (fuel : Nat) (hf : strRunBound A h ≤ fuel) : Res A (run strDomain A h fuel) := by
  apply run_terminates (strSafe h ok hroot hok) rank hrank (max 1 (strByteLen h) * outDeg A)
    (fun s m nexts _ hn => str_succ_bound hn) fuel
  exact Nat.le_trans (geom_mono _ (hle A.root)) hf

end C08
end Pm
