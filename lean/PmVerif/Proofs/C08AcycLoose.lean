/-
Proofs/C08AcycLoose.lean — the UNDISCIPLINED replays `build` / `buildL` of `Model/Builder.lean`
(any `Topo` sequence of live states, merge sets not restricted to siblings): with acyclicity as a
step invariant, the ONLY panic they can return is "unknown state" — raised by `doMerge` when a
`Merge` event names a vacant state (`state_tuple` of the log-supplied ids is evaluated before any
liveness check; `c08_buildL_merge_dead_panics`; the discipline c4T excludes it).

`iteration` and `iterationL` are instances (by `rfl`) of one iteration `iterationU det`
parameterised by the `make_det` variant, so everything is proved once.
Everything lives in `namespace Pm.C08A`.
-/
import PmVerif.Proofs.C08AcycBuild
namespace Pm
namespace C08A
open Automaton C08 StrProg
variable {K P : Type} [DecidableEq K] [DecidableEq P]
set_option linter.unusedSectionVars false

/-- The error policy of the undisciplined replays: no panic other than "unknown state". -/
def LooseOK (e : Err) : Prop := ∀ tag, e = .panic tag → tag = "unknown state"

theorem looseOK_of_noPanic {e : Err} (h : NoPanic e) : LooseOK e :=
  fun tag he => absurd he (h tag)

theorem looseOK_guard {e : Err} (h : IsGuard e) : LooseOK e := looseOK_of_noPanic h.noPanic

theorem looseOK_fuel (t : String) : LooseOK (.fuel t) := fun _ h => by cases h

theorem looseOK_unknown : LooseOK (.panic "unknown state") := fun _ h => by cases h; rfl

theorem mbOK_loose (req : K → List K) (fuel : Nat) : MBOK LooseOK req fuel :=
  fun _ _ _ t => looseOK_fuel t

theorem treeStepOK_loose
    (toTree : List (Constraint K P) → Option (CTree (Constraint K P))) (fuel : Nat) :
    TreeStepOK LooseOK toTree fuel :=
  fun a1 cs tree s ch ht inv hs hch hv =>
    (treeStepOK_fine toTree fuel a1 cs tree s ch ht inv hs hch hv).mono fun _ => looseOK_of_noPanic

/-! ### merges without c4T -/

theorem state_dead {a : Automaton K P} {s : Nat} (h : ¬ a.Live s) :
    a.state s = .error (.panic "unknown state") := by
  unfold state
  rw [not_live_iff.1 h]

/-- `state_tuple` comparison: it panics with "unknown state" exactly on a vacant state. -/
theorem sameTuple_loose {a : Automaton K P} (inv : Inv a) (s s' : Nat) :
    Only LooseOK (a.sameTuple s s') ∧ ∀ b, a.sameTuple s s' = .ok b → a.Live s ∧ a.Live s' := by
  by_cases hs : a.Live s
  · by_cases hs' : a.Live s'
    · obtain ⟨b, hb⟩ := sameTuple_total inv hs hs'
      rw [hb]
      exact ⟨Only.ok _ _, fun _ _ => ⟨hs, hs'⟩⟩
    · obtain ⟨w, hw⟩ := live_iff.1 hs
      have : a.sameTuple s s' = .error (.panic "unknown state") := by
        unfold sameTuple
        rw [state_ok_iff.2 hw, state_dead hs']
      rw [this]
      exact ⟨Only.err looseOK_unknown, fun _ h => by cases h⟩
  · have : a.sameTuple s s' = .error (.panic "unknown state") := by
      unfold sameTuple
      rw [state_dead hs]
    rw [this]
    exact ⟨Only.err looseOK_unknown, fun _ h => by cases h⟩

/-- All computations of a successful `mapR` succeeded. -/
theorem mapR_ok_all {α β : Type} {f : α → R β} : ∀ {xs : List α} {ys : List β},
    mapR f xs = .ok ys → ∀ x ∈ xs, ∃ y, f x = .ok y
  | [], _, _, _, hx => by cases hx
  | x :: xs, ys, h, x', hx' => by
    unfold mapR at h
    cases hfx : f x with
    | error e => rw [hfx] at h; cases h
    | ok y =>
      rw [hfx] at h
      simp only at h
      cases hr : mapR f xs with
      | error e => rw [hr] at h; cases h
      | ok ys' =>
        rcases List.mem_cons.1 hx' with rfl | hx'
        · exact ⟨y, hfx⟩
        · exact mapR_ok_all hr x' hx'

/-- One `Merge` event, any merge set: a guard error, or "unknown state". -/
theorem doMerge_loose {a : Automaton K P} (inv : Inv a) (node : Nat) (nodes : List Nat) :
    Only LooseOK (a.doMerge node nodes) := by
  unfold doMerge
  split
  · exact Only.ok _ _
  · exact Only.ok _ _
  · rename_i first rest _
    split
    · exact Only.err (looseOK_guard ⟨_, rfl⟩)
    · split
      · exact Only.err (looseOK_guard ⟨_, rfl⟩)
      · rename_i hnd
        have hnd' : (first :: rest).Nodup := by
          cases hd : decide (first :: rest).Nodup
          · rw [hd] at hnd; exact absurd rfl hnd
          · exact of_decide_eq_true hd
        have hf := mapR_only (A := LooseOK) (fun n => a.sameTuple node n) (first :: rest)
          (fun n _ => (sameTuple_loose inv node n).1)
        cases hsame : mapR (fun n => a.sameTuple node n) (first :: rest) with
        | error e => exact hf.error hsame
        | ok same =>
          simp only
          split
          · exact Only.err (looseOK_guard ⟨_, rfl⟩)
          · split
            · exact Only.err (looseOK_guard ⟨_, rfl⟩)
            · split
              · exact Only.err (looseOK_guard ⟨_, rfl⟩)
              · obtain ⟨b, hb⟩ := mapR_ok_all hsame first List.mem_cons_self
                have hlive := ((sameTuple_loose inv node first).2 b hb).2
                rw [List.nodup_cons] at hnd'
                exact Only.of_ok (mergeLoop_total rest inv hlive hnd'.1)

variable {E : Nat → Prop} {Q : Constraint K P → Prop}

theorem mergesLogged_loose : ∀ (evs : List Ev) {a : Automaton K P}, BI E Q a →
    Only LooseOK (a.mergesLogged evs) ∧ ∀ r, a.mergesLogged evs = .ok r → BI E Q r.1 := by
  intro evs
  induction evs with
  | nil =>
    intro a bi
    unfold mergesLogged
    exact ⟨Only.ok _ _, fun r h => by cases h; exact bi⟩
  | cons ev evs ih =>
    intro a bi
    cases ev with
    | merge n nodes =>
      unfold mergesLogged
      have hf := doMerge_loose bi.inv n nodes
      cases hd : a.doMerge n nodes with
      | error e => exact ⟨hf.error hd, fun r h => by cases h⟩
      | ok a1 =>
        simp only
        have ms := doMerge_spec (σ := fun _ => true) bi.inv hd
        obtain ⟨inv1, sp1⟩ := sp_doMerge bi.inv bi.sp hd
        exact ih ⟨inv1, ms.rootSrc bi.rs, sp1⟩
    | topo _ => unfold mergesLogged; exact ⟨Only.ok _ _, fun r h => by cases h; exact bi⟩
    | group _ _ => unfold mergesLogged; exact ⟨Only.ok _ _, fun r h => by cases h; exact bi⟩
    | detAsk _ => unfold mergesLogged; exact ⟨Only.ok _ _, fun r h => by cases h; exact bi⟩
    | detYes _ => unfold mergesLogged; exact ⟨Only.ok _ _, fun r h => by cases h; exact bi⟩
    | iterEnd _ => unfold mergesLogged; exact ⟨Only.ok _ _, fun r h => by cases h; exact bi⟩

/-! ### the undisciplined iteration and main loop, with the `make_det` variant as a parameter -/

/-- `iteration` / `iterationL` with the `make_det` variant as a parameter. -/
def iterationU (det : Automaton K P → Nat → R (Automaton K P))
    (toTree : List (Cons K P) → Option (CTree (Cons K P))) (fuel : Nat)
    (a : Automaton K P) (s : Nat) (evs : List Ev) : R (Automaton K P × List Ev) :=
  if !a.g.containsNode s then .error (.guard "c1: emitted state does not exist") else
  match a.makeConstraintsUnique s evs with
  | .error e => .error e
  | .ok (a, evs) =>
    match insertConstraintTree toTree a s fuel with
    | .error e => .error e
    | .ok (a, treeDet) =>
      match a.makeConstraintsUnique s evs with
      | .error e => .error e
      | .ok (a, evs) =>
        let afterDet : R (Automaton K P × List Ev) :=
          if treeDet then
            match evs with
            | .detAsk s' :: .detYes s'' :: evs' =>
              if s' = s ∧ s'' = s then (det a s).map (·, evs')
              else .error (.guard "c5: DetAsk/DetYes for another state")
            | .detAsk s' :: evs' =>
              if s' = s then .ok (a, evs') else .error (.guard "c5: DetAsk for another state")
            | _ => .error (.guard "c5: missing DetAsk event")
          else .ok (a, evs)
        match afterDet with
        | .error e => .error e
        | .ok (a, evs) =>
          match a.mergesLogged evs with
          | .error e => .error e
          | .ok (a, .iterEnd s' :: evs) =>
            if s' = s then .ok (a, evs) else .error (.guard "IterEnd for another state")
          | .ok _ => .error (.guard "missing IterEnd event")

theorem iteration_eq (toTree : List (Cons K P) → Option (CTree (Cons K P))) (fuel : Nat)
    (a : Automaton K P) (s : Nat) (evs : List Ev) :
    iteration toTree fuel a s evs = iterationU makeDet toTree fuel a s evs := rfl

theorem iterationL_eq (toTree : List (Cons K P) → Option (CTree (Cons K P))) (fuel : Nat)
    (a : Automaton K P) (s : Nat) (evs : List Ev) :
    iterationL toTree fuel a s evs = iterationU makeDetL toTree fuel a s evs := rfl

def mainLoopU (det : Automaton K P → Nat → R (Automaton K P))
    (toTree : List (Cons K P) → Option (CTree (Cons K P))) (fuel : Nat) :
    Nat → Automaton K P → List Ev → R (Automaton K P)
  | _, a, [] => .ok a
  | 0, _, _ :: _ => .error (.fuel "main loop")
  | n + 1, a, .topo s :: evs =>
    match iterationU det toTree fuel a s evs with
    | .error e => .error e
    | .ok (a, evs) => mainLoopU det toTree fuel n a evs
  | _, _, _ :: _ => .error (.guard "expected a Topo event")

theorem mainLoop_eq (toTree : List (Cons K P) → Option (CTree (Cons K P))) (fuel : Nat) :
    ∀ (n : Nat) (a : Automaton K P) (evs : List Ev),
    mainLoop toTree fuel n a evs = mainLoopU makeDet toTree fuel n a evs := by
  intro n
  induction n with
  | zero =>
    intro a evs
    cases evs with
    | nil => unfold mainLoop mainLoopU; rfl
    | cons e es => unfold mainLoop mainLoopU; rfl
  | succ n ih =>
    intro a evs
    cases evs with
    | nil => unfold mainLoop mainLoopU; rfl
    | cons e es =>
      cases e with
      | topo s =>
        unfold mainLoop mainLoopU
        rw [iteration_eq]
        cases iterationU makeDet toTree fuel a s es with
        | error e => rfl
        | ok v => exact ih _ _
      | group _ _ => unfold mainLoop mainLoopU; rfl
      | detAsk _ => unfold mainLoop mainLoopU; rfl
      | detYes _ => unfold mainLoop mainLoopU; rfl
      | merge _ _ => unfold mainLoop mainLoopU; rfl
      | iterEnd _ => unfold mainLoop mainLoopU; rfl

theorem mainLoopL_eq (toTree : List (Cons K P) → Option (CTree (Cons K P))) (fuel : Nat) :
    ∀ (n : Nat) (a : Automaton K P) (evs : List Ev),
    mainLoopL toTree fuel n a evs = mainLoopU makeDetL toTree fuel n a evs := by
  intro n
  induction n with
  | zero =>
    intro a evs
    cases evs with
    | nil => unfold mainLoopL mainLoopU; rfl
    | cons e es => unfold mainLoopL mainLoopU; rfl
  | succ n ih =>
    intro a evs
    cases evs with
    | nil => unfold mainLoopL mainLoopU; rfl
    | cons e es =>
      cases e with
      | topo s =>
        unfold mainLoopL mainLoopU
        rw [iterationL_eq]
        cases iterationU makeDetL toTree fuel a s es with
        | error e => rfl
        | ok v => exact ih _ _
      | group _ _ => unfold mainLoopL mainLoopU; rfl
      | detAsk _ => unfold mainLoopL mainLoopU; rfl
      | detYes _ => unfold mainLoopL mainLoopU; rfl
      | merge _ _ => unfold mainLoopL mainLoopU; rfl
      | iterEnd _ => unfold mainLoopL mainLoopU; rfl

theorem iteration_tail_loose {s : Nat}
    (x : R (Automaton K P × List Ev)) (hx : Only LooseOK x)
    (hbi : ∀ a4 evs4, x = .ok (a4, evs4) → BI E Q a4) :
    Only LooseOK (match (generalizing := false) x with
      | .error e => .error e
      | .ok (a, evs) =>
        match a.mergesLogged evs with
        | .error e => .error e
        | .ok (a, .iterEnd s' :: evs) =>
          if s' = s then .ok (a, evs) else .error (.guard "IterEnd for another state")
        | .ok _ => .error (.guard "missing IterEnd event") : R (Automaton K P × List Ev)) ∧
    ∀ r, (match (generalizing := false) x with
      | .error e => .error e
      | .ok (a, evs) =>
        match a.mergesLogged evs with
        | .error e => .error e
        | .ok (a, .iterEnd s' :: evs) =>
          if s' = s then .ok (a, evs) else .error (.guard "IterEnd for another state")
        | .ok _ => .error (.guard "missing IterEnd event") : R (Automaton K P × List Ev)) = .ok r →
      BI E Q r.1 := by
  cases x with
  | error e => exact ⟨hx.error rfl, fun r h => by cases h⟩
  | ok v =>
    obtain ⟨a4, evs4⟩ := v
    have bi4 := hbi a4 evs4 rfl
    obtain ⟨hf, hb⟩ := mergesLogged_loose evs4 bi4
    simp only
    cases hm : a4.mergesLogged evs4 with
    | error e => exact ⟨hf.error hm, fun r h => by cases h⟩
    | ok v5 =>
      obtain ⟨a5, evs5⟩ := v5
      have bi5 : BI E Q a5 := hb _ hm
      constructor
      · split
        · rename_i heq; cases heq
        · split
          · exact Only.ok _ _
          · exact Only.err (looseOK_guard ⟨_, rfl⟩)
        · exact Only.err (looseOK_guard ⟨_, rfl⟩)
      · intro r h
        split at h
        · cases h
        · rename_i a6 s' evs6 heq
          cases heq
          split at h
          · cases h; exact bi5
          · cases h
        · cases h

/-- **One undisciplined iteration**: no panic other than "unknown state"; `BI` is preserved. -/
theorem iterationU_loose {det : Automaton K P → Nat → R (Automaton K P)} (hdet : DetOK' E Q det)
    {toTree : List (Constraint K P) → Option (CTree (Constraint K P))} (hT : TreeFine Q toTree)
    (fuel : Nat) {a : Automaton K P} (s : Nat) (evs : List Ev) (bi : BI E Q a) :
    Only LooseOK (iterationU det toTree fuel a s evs) ∧
      ∀ r, iterationU det toTree fuel a s evs = .ok r → BI E Q r.1 := by
  have hg : ∀ e, IsGuard e → LooseOK e := fun _ => looseOK_guard
  unfold iterationU
  split
  · exact ⟨Only.err (hg _ ⟨_, rfl⟩), fun r h => by cases h⟩
  · rename_i hlive
    have hs : a.Live s := by
      unfold Live; cases hx : a.g.containsNode s <;> simp_all
    have hf1 := (makeConstraintsUnique_guardOnly evs bi.inv hs).mono hg
    cases h1 : a.makeConstraintsUnique s evs with
    | error e => exact ⟨hf1.error h1, fun r h => by cases h⟩
    | ok v1 =>
      obtain ⟨a1, evs1⟩ := v1
      simp only
      obtain ⟨p1, _⟩ := makeConstraintsUnique_spec (σ := fun _ => true) bi.inv hs h1
      have bi1 : BI E Q a1 :=
        ⟨p1.inv, (p1.rootSrc bi.rs).1, sp_makeConstraintsUnique bi.inv hs bi.rs bi.sp h1⟩
      have hf2 := insertConstraintTree_only (toTree := toTree) fuel (treeStepOK_loose toTree fuel)
        p1.inv p1.live_s (fun cs t h => (hT.ok cs t h).1)
        (fun cs hcs => hT.tot cs fun c hc => by
          obtain ⟨t, e, he, _, hw⟩ := hcs c hc
          exact bi1.sp.efrom t e c he hw)
      cases h2 : insertConstraintTree toTree a1 s fuel with
      | error e => exact ⟨hf2.error h2, fun r h => by cases h⟩
      | ok v2 =>
        obtain ⟨a2, treeDet⟩ := v2
        simp only
        obtain ⟨st2, _⟩ := insertConstraintTree_spec_of addConstraintTree_built hT.ok p1.inv
          p1.live_s h2
        have bi2 : BI E Q a2 :=
          ⟨st2.inv, st2.rootSrc bi1.rs, sp_insertConstraintTree hT.ok hT.hyp p1.inv bi1.sp h2⟩
        have hf3 := (makeConstraintsUnique_guardOnly evs1 st2.inv st2.live_s).mono hg
        cases h3 : a2.makeConstraintsUnique s evs1 with
        | error e => exact ⟨hf3.error h3, fun r h => by cases h⟩
        | ok v3 =>
          obtain ⟨a3, evs3⟩ := v3
          simp only
          obtain ⟨p3, _⟩ := makeConstraintsUnique_spec (σ := fun _ => true) st2.inv st2.live_s h3
          have bi3 : BI E Q a3 :=
            ⟨p3.inv, (p3.rootSrc bi2.rs).1,
              sp_makeConstraintsUnique st2.inv st2.live_s bi2.rs bi2.sp h3⟩
          have hu := makeConstraintsUnique_unique st2.inv st2.live_s h3
          obtain ⟨hfa, hba⟩ := afterDet_only hg hdet treeDet evs3 bi3 p3.live_s
            (eorder_le_one p3.inv hu)
          exact iteration_tail_loose (s := s) _ hfa hba

theorem mainLoopU_loose {det : Automaton K P → Nat → R (Automaton K P)} (hdet : DetOK' E Q det)
    {toTree : List (Constraint K P) → Option (CTree (Constraint K P))} (hT : TreeFine Q toTree)
    (fuel : Nat) :
    ∀ (n : Nat) {a : Automaton K P} (evs : List Ev), BI E Q a →
      Only LooseOK (mainLoopU det toTree fuel n a evs) ∧
        ∀ a', mainLoopU det toTree fuel n a evs = .ok a' → BI E Q a' := by
  intro n
  induction n with
  | zero =>
    intro a evs bi
    cases evs with
    | nil => unfold mainLoopU; exact ⟨Only.ok _ _, fun a' h => by cases h; exact bi⟩
    | cons e es =>
      unfold mainLoopU; exact ⟨Only.err (looseOK_fuel _), fun a' h => by cases h⟩
  | succ n ih =>
    intro a evs bi
    cases evs with
    | nil => unfold mainLoopU; exact ⟨Only.ok _ _, fun a' h => by cases h; exact bi⟩
    | cons e es =>
      cases e with
      | topo s =>
        unfold mainLoopU
        obtain ⟨hf, hb⟩ := iterationU_loose hdet hT fuel s es bi
        cases hi : iterationU det toTree fuel a s es with
        | error e => exact ⟨hf.error hi, fun a' h => by cases h⟩
        | ok v =>
          obtain ⟨a1, evs1⟩ := v
          simp only
          exact ih evs1 (hb _ hi)
      | group _ _ =>
        unfold mainLoopU
        exact ⟨Only.err (looseOK_guard ⟨_, rfl⟩), fun a' h => by cases h⟩
      | detAsk _ =>
        unfold mainLoopU
        exact ⟨Only.err (looseOK_guard ⟨_, rfl⟩), fun a' h => by cases h⟩
      | detYes _ =>
        unfold mainLoopU
        exact ⟨Only.err (looseOK_guard ⟨_, rfl⟩), fun a' h => by cases h⟩
      | merge _ _ =>
        unfold mainLoopU
        exact ⟨Only.err (looseOK_guard ⟨_, rfl⟩), fun a' h => by cases h⟩
      | iterEnd _ =>
        unfold mainLoopU
        exact ⟨Only.err (looseOK_guard ⟨_, rfl⟩), fun a' h => by cases h⟩

/-! ### the undisciplined builds -/

/-- **`build` and `buildL`**: for every decomposition satisfying `TreeFine`, every pattern list
whose constraints satisfy `Q`, every event log and every fuel, the only panic the undisciplined
builds can return is "unknown state". -/
theorem build_loose
    {toTree : List (Constraint K P) → Option (CTree (Constraint K P))} (hT : TreeFine Q toTree)
    (req : K → List K) (fuel : Nat) (patterns : List (Nat × List (Constraint K P) × List K))
    (hp : ∀ p ∈ patterns, (∀ c ∈ p.2.1, Q c) ∧ (E p.1 → p.2.1 = [])) (evs : List Ev) :
    Only LooseOK (build toTree req fuel patterns evs) ∧
    Only LooseOK (buildL toTree req fuel patterns evs) := by
  obtain ⟨inv0, _, rs0, _, _⟩ := new_spec (K := K) (P := P)
  have hf := addPatterns_only (mbOK_loose req fuel) patterns inv0 rs0.1
  unfold build buildL
  cases h : addPatterns req fuel (new : Automaton K P) patterns with
  | error e => exact ⟨hf.error h, hf.error h⟩
  | ok a =>
    simp only
    have bi : BI E Q a := bi_addPatterns hp h
    have H := (acyclic_addPatterns h).2.2
    constructor
    · unfold finish
      rw [mainLoop_eq]
      obtain ⟨hf1, _⟩ := mainLoopU_loose (E := E) (Q := Q) detOK_makeDet hT fuel evs.length evs bi
      cases hm : mainLoopU makeDet toTree fuel evs.length a evs with
      | error e => exact hf1.error hm
      | ok a2 =>
        simp only
        rw [← mainLoop_eq] at hm
        obtain ⟨inv2, H2⟩ := acyclic_mainLoop _ evs bi.inv H hm
        exact populateScopes_only_of_isSome (mbOK_loose req fuel) inv2
          (topoOrder_of_acyclic inv2.wf H2)
    · unfold finishL
      rw [mainLoopL_eq]
      obtain ⟨hf1, _⟩ := mainLoopU_loose (E := E) (Q := Q) detOK_makeDetL hT fuel evs.length evs bi
      cases hm : mainLoopU makeDetL toTree fuel evs.length a evs with
      | error e => exact hf1.error hm
      | ok a2 =>
        simp only
        rw [← mainLoopL_eq] at hm
        obtain ⟨inv2, H2⟩ := acyclic_mainLoopL _ evs bi.inv H hm
        exact populateScopes_only_of_isSome (mbOK_loose req fuel) inv2
          (topoOrder_of_acyclic inv2.wf H2)

end C08A
end Pm
