/-
Proofs/C07CharTree.lean — C07 (multiplicities): the string/matrix decomposition `charTree`
satisfies the flat-tree hypothesis `FlatTreeHyp` (Proofs/C07XDefs.lean) for the mutual-exclusion
relation `charMx` (Proofs/C07Check.lean), and `charMx` is irreflexive.

`FlatPairs t kept`: what a depth-one tree built by `withChildren` from singleton-labelled
`(constraint, index)` pairs looks like at the level of `childrenAt`/`labelsAt`.
`charTree_kept`: the three shapes of a tree returned by `charTree` (empty input, a single
`bindingEq` child, all `constVal` constraints on the key of the smallest constraint).
Everything lives in `namespace Pm.C07`.
-/
import PmVerif.Proofs.C07XDefs
import PmVerif.Proofs.C07Check
import PmVerif.Proofs.StrProgTree
namespace Pm
namespace C07
open CTree StrProg

/-! ### depth-one trees over `(constraint, index)` pairs -/

section Flat
variable {C : Type}

/-- Node-level description of the depth-one tree with one singleton label per kept pair. -/
structure FlatPairs (t : CTree C) (kept : List (C × Nat)) : Prop where
  root : t.labelsAt 0 = []
  flat : ∀ n c m, (c, m) ∈ t.childrenAt n → n = 0 ∧ t.childrenAt m = []
  label : ∀ c m i, (c, m) ∈ t.childrenAt 0 → i ∈ t.labelsAt m → (c, i) ∈ kept
  child : ∀ c m, (c, m) ∈ t.childrenAt 0 → ∃ i, (c, i) ∈ kept
  present : ∀ c i, (c, i) ∈ kept → ∃ m, (c, m) ∈ t.childrenAt 0 ∧ i ∈ t.labelsAt m

theorem flatPairs_withChildren [DecidableEq C] (kept : List (C × Nat)) :
    FlatPairs (withChildren (kept.map fun ci => (ci.1, [ci.2]))) kept := by
  have d := D1_withChildren (kept.map fun ci => (ci.1, [ci.2]))
  have r := chRoot_withChildren (kept.map fun ci => (ci.1, [ci.2]))
  refine ⟨labelsAt_zero_withChildren _, ?_, ?_, ?_, ?_⟩
  · intro n c m h
    obtain ⟨h0, -⟩ := r n c m h
    refine ⟨h0, ?_⟩
    rw [List.eq_nil_iff_forall_not_mem]
    rintro ⟨c', m'⟩ h'
    obtain ⟨hm0, -⟩ := r m c' m' h'
    have hlt := (d.wf.lt n c m h).1
    rw [hm0] at hlt
    exact absurd hlt (Nat.not_lt_zero n)
  · intro c m i hc hi
    obtain ⟨ch, hch, hl, he⟩ := (d.labels m i).1 hi
    obtain ⟨ci, hci, rfl⟩ := List.mem_map.1 hch
    have hi' : i = ci.2 := List.mem_singleton.1 hl
    have hc' : ci.1 = c := (d.wf.uniq _ _ _ _ _ he hc).2
    rw [hi', ← hc']
    exact hci
  · intro c m hc
    obtain ⟨-, ch, hch, rfl⟩ := r 0 c m hc
    obtain ⟨ci, hci, rfl⟩ := List.mem_map.1 hch
    exact ⟨ci.2, hci⟩
  · intro c i hci
    have hmem : (c, [i]) ∈ kept.map fun ci => (ci.1, [ci.2]) :=
      List.mem_map.2 ⟨(c, i), hci, rfl⟩
    obtain ⟨m, hm⟩ := d.present _ hmem
    exact ⟨m, hm, (d.labels m i).2 ⟨_, hmem, List.mem_singleton_self _, hm⟩⟩

/-- The `makeDet` flag does not matter for `FlatPairs`. -/
theorem FlatPairs.setDet {t : CTree C} {kept : List (C × Nat)} (F : FlatPairs t kept) (b : Bool) :
    FlatPairs ({ t with makeDet := b } : CTree C) kept :=
  ⟨F.root, F.flat, F.label, F.child, F.present⟩

end Flat

/-! ### the shapes of `charTree` -/

/-- A tree returned by `charTree` is the depth-one tree over `kept ⊆ sortWithIndices …`, where
either `kept` is empty (empty input), or the tree is not determinised and every kept constraint
is a `bindingEq`, or `kept` consists exactly of the `constVal` constraints on one key `k0`. -/
theorem charTree_kept {K : Type} [DecidableEq K] (lt : K → K → Bool)
    (cs : List (Constraint K CharPred)) (t : CTree (Constraint K CharPred))
    (h : charTree lt cs = some t) :
    ∃ (kept : List (Constraint K CharPred × Nat)) (b : Bool),
      t = { withChildren (kept.map fun ci => (ci.1, [ci.2])) with makeDet := b } ∧
      (∀ x ∈ kept, x ∈ sortWithIndices (strConsLe lt) cs) ∧
      (kept = [] ∨
       (b = false ∧ ∀ x ∈ kept, x.1.pred = CharPred.bindingEq) ∨
       (∃ k0, ∀ x ∈ sortWithIndices (strConsLe lt) cs,
          x ∈ kept ↔ (∃ v, x.1.pred = CharPred.constVal v) ∧ x.1.args = [k0])) := by
  unfold charTree at h
  split at h
  · next hemp =>
    cases h
    exact ⟨[], true, rfl, (by intro _ h; cases h), Or.inl rfl⟩
  · simp only at h
    split at h
    · cases h
    · next first fi rest hs =>
      split at h
      · next hb =>
        cases h
        refine ⟨(sortWithIndices (strConsLe lt) cs).take 1, false, rfl,
          fun x hx => List.mem_of_mem_take hx, Or.inr (Or.inl ⟨rfl, ?_⟩)⟩
        intro x hx
        rw [hs] at hx
        simp only [List.take_succ_cons, List.take_zero, List.mem_singleton] at hx
        rw [hx]
        exact hb
      · next v hv =>
        split at h
        · next k hk =>
          cases h
          refine ⟨_, true, rfl, fun x hx => (List.mem_filter.1 hx).1, Or.inr (Or.inr ⟨k, ?_⟩)⟩
          intro x hx
          rw [List.mem_filter]
          constructor
          · rintro ⟨-, hp⟩
            rw [Bool.and_eq_true, decide_eq_true_eq] at hp
            refine ⟨?_, hp.2⟩
            cases hxp : x.1.pred with
            | bindingEq => rw [hxp] at hp; exact absurd hp.1 (by simp)
            | constVal w => exact ⟨w, rfl⟩
          · rintro ⟨⟨w, hw⟩, ha⟩
            refine ⟨hx, ?_⟩
            rw [Bool.and_eq_true, decide_eq_true_eq, hw]
            exact ⟨rfl, ha⟩
        · cases h

/-! ### the flat-tree hypothesis -/

theorem charMx_irrefl {K : Type} [DecidableEq K] (k : Constraint K CharPred) :
    ¬ (charMx k k = true) := by
  intro h
  obtain ⟨v1, v2, args, hv, h1, h2⟩ := (charMx_iff k k).1 h
  rw [h1] at h2
  cases h2
  exact hv rfl

theorem flatTreeHyp_charTree {K : Type} [DecidableEq K] (lt : K → K → Bool) :
    FlatTreeHyp (fun k1 k2 : Constraint K CharPred => charMx k1 k2 = true) (charTree lt) := by
  intro cs tree h
  obtain ⟨kept, b, rfl, hsub, hcase⟩ := charTree_kept lt cs tree h
  have F : FlatPairs ({ withChildren (kept.map fun ci => (ci.1, [ci.2])) with makeDet := b } :
      CTree (Constraint K CharPred)) kept := (flatPairs_withChildren kept).setDet b
  have hdet : ({ withChildren (kept.map fun ci => (ci.1, [ci.2])) with makeDet := b } :
      CTree (Constraint K CharPred)).makeDet = b := rfl
  generalize ({ withChildren (kept.map fun ci => (ci.1, [ci.2])) with makeDet := b } :
      CTree (Constraint K CharPred)) = tree at F hdet
  refine ⟨F.root, F.flat, ?_, ?_, ?_⟩
  · -- labels name the constraint of their child
    intro c m i hc hi
    exact (mem_sortWithIndices (strConsLe lt) cs c i).1 (hsub _ (F.label c m i hc hi))
  · -- unlabelled constraints are never exclusive with a child constraint
    intro c m i k hc hk hno
    obtain ⟨i', hci'⟩ := F.child c m hc
    rcases hcase with hnil | ⟨-, hbind⟩ | ⟨k0, hk0⟩
    · rw [hnil] at hci'; cases hci'
    · have hcp : c.pred = CharPred.bindingEq := hbind _ hci'
      constructor
      · intro hm
        obtain ⟨v1, v2, args, -, h1, -⟩ := (charMx_iff c k).1 hm
        rw [h1] at hcp
        cases hcp
      · intro hm
        obtain ⟨v1, v2, args, -, -, h2⟩ := (charMx_iff k c).1 hm
        rw [h2] at hcp
        cases hcp
    · have hks : (k, i) ∈ sortWithIndices (strConsLe lt) cs :=
        (mem_sortWithIndices (strConsLe lt) cs k i).2 hk
      have hknot : ¬ ((∃ v, k.pred = CharPred.constVal v) ∧ k.args = [k0]) := by
        intro hp
        obtain ⟨m', hm', hl'⟩ := F.present k i ((hk0 _ hks).2 hp)
        exact hno k m' hm' hl'
      obtain ⟨-, hca⟩ := (hk0 _ (hsub _ hci')).1 hci'
      have hca' : c.args = [k0] := hca
      constructor
      · intro hm
        obtain ⟨v1, v2, args, -, h1, h2⟩ := (charMx_iff c k).1 hm
        apply hknot
        rw [h1] at hca'
        rw [h2]
        exact ⟨⟨v2, rfl⟩, hca'⟩
      · intro hm
        obtain ⟨v1, v2, args, -, h1, h2⟩ := (charMx_iff k c).1 hm
        apply hknot
        rw [h2] at hca'
        rw [h1]
        exact ⟨⟨v1, rfl⟩, hca'⟩
  · -- a determinised tree has pairwise equal or exclusive child constraints
    intro hd c m c' m' hc hc'
    obtain ⟨i, hci⟩ := F.child c m hc
    obtain ⟨i', hci'⟩ := F.child c' m' hc'
    rcases hcase with hnil | ⟨hb, -⟩ | ⟨k0, hk0⟩
    · rw [hnil] at hci; cases hci
    · rw [hdet, hb] at hd; cases hd
    · obtain ⟨⟨v, hv⟩, ha⟩ := (hk0 _ (hsub _ hci)).1 hci
      obtain ⟨⟨v', hv'⟩, ha'⟩ := (hk0 _ (hsub _ hci')).1 hci'
      obtain ⟨cp, cargs⟩ := c
      obtain ⟨cp', cargs'⟩ := c'
      have e1 : cp = CharPred.constVal v := hv
      have e2 : cargs = [k0] := ha
      have e3 : cp' = CharPred.constVal v' := hv'
      have e4 : cargs' = [k0] := ha'
      subst e1 e2 e3 e4
      by_cases hvv : v = v'
      · left; rw [hvv]
      · right
        exact (charMx_iff _ _).2 ⟨v, v', [k0], hvv, rfl, rfl⟩

end C07
end Pm
