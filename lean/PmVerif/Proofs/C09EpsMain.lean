/-
Proofs/C09EpsMain.lean — C09 clause (c) / `C08.EpsLe1` for the strict replay `buildTE`
(Model/BuilderT.lean: guards c1T, c1C, c4T, c1D and c1E — when a state is emitted neither it nor
any of its current children has an epsilon transition): the main induction.

"Every state has at most one epsilon transition" (`E1All`, Proofs/C09EpsCore.lean) is an
invariant of EVERY step of the strict replay, for every event log and every tree decomposition:
* `add_pattern` creates constraint transitions only (`allCons_addPatterns`);
* inside the iteration at `s` the local invariant `Loc b s` (every other state has at most one,
  no child of `s` has any) holds initially by c1E and is preserved by
  `make_constraints_unique(s)` (a fused child clones epsilon-free children) and
  `insert_constraint_tree(s)` (epsilon transitions are created at `s` only; the fail state and the
  inner tree states are fresh and get constraint transitions only); after the second
  `make_constraints_unique(s)` the transitions of `s` carry pairwise different constraints
  (`C08.UniqueAt`), so `s` has at most one epsilon transition as well;
* `make_det(s)` copies transitions of children of `s` only, hence no epsilon transition;
* the merges move transitions without changing their source; `populate_scopes` changes scopes.
Only c1E is used (not c1T, c1C, c4T, c1D). Everything lives in `namespace Pm.C09E`.
-/
import PmVerif.Proofs.C09EpsTree
import PmVerif.Proofs.C09EpsDet
import PmVerif.Proofs.C09EpsMerge
import PmVerif.Proofs.BuildScopes
import PmVerif.Proofs.BuildAddPattern
namespace Pm
namespace C09E
open Automaton
variable {K P : Type} [DecidableEq K] [DecidableEq P]
set_option linter.unusedSectionVars false

/-! ### `add_pattern` -/

/-- Every transition carries a constraint. -/
def AllCons (a : Automaton K P) : Prop := ∀ t e, a.g.edge? t = some e → e.w ≠ none

theorem AllCons.e1All {a : Automaton K P} (h : AllCons a) : E1All a :=
  fun _ t1 _ e1 _ h1 _ _ _ hn1 _ => absurd hn1 (h t1 e1 h1)

theorem allCons_new : AllCons (new : Automaton K P) := by
  intro t e he
  have : (new : Automaton K P).g.edge? t = none := by
    simp [Automaton.new, SGraph.addNode, SGraph.empty, SGraph.edge?]
  rw [this] at he
  cases he

theorem allCons_addPatternLoop {req : K → List K} {fuel : Nat} :
    ∀ (cs : List (Constraint K P)) {a a1 : Automaton K P} {s s1 : Nat} {keys keys1 : List K},
    Inv a → a.Live s → AllCons a →
    addPatternLoop req fuel a s keys cs = .ok (a1, s1, keys1) → Inv a1 ∧ AllCons a1
  | [], a, a1, s, s1, keys, keys1, inv, _, hc, h => by
    unfold addPatternLoop at h
    cases h
    exact ⟨inv, hc⟩
  | c :: cs, a, a1, s, s1, keys, keys1, inv, hs, hc, h => by
    unfold addPatternLoop at h
    split at h
    · cases h
    · split at h
      · cases h
      · rename_i more _ a2 s' hadd
        obtain ⟨e, sp⟩ := addTransition_spec inv hs hadd
        refine allCons_addPatternLoop cs sp.inv sp.live_child ?_ h
        intro t ed he
        rw [sp.edge] at he
        split at he
        · cases he
          exact fun hn => by cases hn
        · exact hc t ed he

theorem allCons_addPattern {req : K → List K} {fuel : Nat} {a a' : Automaton K P}
    {cs : List (Constraint K P)} {pid : Nat} {extra : List K} (inv : Inv a) (hr : a.Live a.root)
    (hc : AllCons a) (h : addPattern req fuel a cs pid extra = .ok a') :
    Inv a' ∧ a'.Live a'.root ∧ AllCons a' := by
  unfold addPattern at h
  split at h
  · cases h
  · split at h
    · cases h
    · rename_i a1 s1 keys1 hloop
      obtain ⟨inv1, hc1⟩ := allCons_addPatternLoop cs inv hr hc hloop
      have ch := addPatternLoop_spec (σ := fun _ => true) cs inv hr hloop h
      have sp := addMatch_spec inv1 h
      refine ⟨sp.inv, ?_, fun t e he => hc1 t e (by rw [← sp.edge]; exact he)⟩
      rw [ch.root]
      exact ch.live _ hr

theorem allCons_addPatterns {req : K → List K} {fuel : Nat} :
    ∀ (patterns : List (Nat × List (Constraint K P) × List K)) {a0 a : Automaton K P},
    Inv a0 → a0.Live a0.root → AllCons a0 → addPatterns req fuel a0 patterns = .ok a →
    Inv a ∧ AllCons a
  | [], a0, a, inv, _, hc, h => by
    unfold addPatterns at h
    cases h
    exact ⟨inv, hc⟩
  | (pid0, cs0, extra0) :: ps, a0, a, inv, hr, hc, h => by
    unfold addPatterns at h
    split at h
    · cases h
    · rename_i a1 hadd
      obtain ⟨inv1, hr1, hc1⟩ := allCons_addPattern inv hr hc hadd
      exact allCons_addPatterns ps inv1 hr1 hc1 h

/-! ### one iteration -/

variable {toTree : List (Constraint K P) → Option (CTree (Constraint K P))}

/-- The determinisation step of an iteration. -/
theorem afterDet_e1 {a3 a4 : Automaton K P} {s : Nat} {treeDet : Bool} {evs3 evs4 : List Ev}
    (inv3 : Inv a3) (E3 : E1All a3) (hc : ChildEF a3 s)
    (h : (if treeDet then
        match evs3 with
        | .detAsk s' :: .detYes s'' :: evs' =>
          if s' = s ∧ s'' = s then (a3.makeDet s).map (·, evs')
          else .error (.guard "c5: DetAsk/DetYes for another state")
        | .detAsk s' :: evs' =>
          if s' = s then .ok (a3, evs') else .error (.guard "c5: DetAsk for another state")
        | _ => .error (.guard "c5: missing DetAsk event")
      else .ok (a3, evs3) : R (Automaton K P × List Ev)) = .ok (a4, evs4)) :
    Inv a4 ∧ E1All a4 := by
  split at h
  · split at h
    · split at h
      · cases hm : a3.makeDet s with
        | error e => rw [hm] at h; cases h
        | ok a4' =>
          rw [hm] at h
          cases h
          obtain ⟨inv4, hn⟩ := makeDet_noNewEps inv3 hc hm
          exact ⟨inv4, hn.e1All E3⟩
      · cases h
    · split at h
      · cases h; exact ⟨inv3, E3⟩
      · cases h
    · cases h
  · cases h; exact ⟨inv3, E3⟩

/-- The merges and the `IterEnd` event of an iteration. -/
theorem tail_e1 {a' : Automaton K P} {s : Nat} {evs' : List Ev}
    (r : R (Automaton K P × List Ev))
    (hr : ∀ a4 evs4, r = .ok (a4, evs4) → Inv a4 ∧ E1All a4)
    (h : (match r with
      | .error e => .error e
      | .ok (a, evs) =>
        match a.mergesLoggedT evs with
        | .error e => .error e
        | .ok (a, .iterEnd s' :: evs) =>
          if s' = s then .ok (a, evs) else .error (.guard "IterEnd for another state")
        | .ok _ => .error (.guard "missing IterEnd event")) = Except.ok (a', evs')) :
    Inv a' ∧ E1All a' := by
  split at h
  · cases h
  · rename_i a4 evs4
    obtain ⟨inv4, E4⟩ := hr a4 evs4 rfl
    split at h
    · cases h
    · rename_i a5 s' evs5 h5
      split at h
      · cases h
        exact mergesLoggedT_e1 inv4 E4 h5
      · cases h
    · cases h

/-- **One iteration of the strict main loop preserves `E1All`**, given the guard c1E at the
emission. -/
theorem iterationWith_e1 {fuel : Nat} {a a' : Automaton K P} {s : Nat} {evs evs' : List Ev}
    (inv : Inv a) (E : E1All a) (hE : a.epsFreeAt s = true)
    (h : iterationWith makeDet toTree fuel a s evs = .ok (a', evs')) : Inv a' ∧ E1All a' := by
  unfold iterationWith at h
  split at h
  · cases h
  · rename_i hlive
    have hs : a.Live s := by
      unfold Live; cases hx : a.g.containsNode s <;> simp_all
    have L0 : Loc a s := loc_of_epsFreeAt inv E hE
    split at h
    · cases h
    · rename_i a1 evs1 h1
      obtain ⟨L1, _, inv1, hs1⟩ := loc_makeConstraintsUnique inv hs L0 h1
      split at h
      · cases h
      · rename_i a2 treeDet h2
        obtain ⟨L2, inv2, hs2⟩ := loc_insertConstraintTree inv1 hs1 L1 h2
        split at h
        · cases h
        · rename_i a3 evs3 h3
          obtain ⟨L3, e3, inv3, _⟩ := loc_makeConstraintsUnique inv2 hs2 L2 h3
          exact tail_e1 _ (fun a4 evs4 h4 => afterDet_e1 inv3 (L3.e1All e3) L3.children h4) h

/-! ### the main loop and the build -/

theorem mainLoopE_e1 {fuel : Nat} :
    ∀ (n : Nat) {a a' : Automaton K P} (emitted : List Nat) (evs : List Ev), Inv a → E1All a →
    mainLoopE makeDet toTree fuel n a emitted evs = .ok a' → Inv a' ∧ E1All a' := by
  intro n
  induction n with
  | zero =>
    intro a a' emitted evs inv E h
    cases evs with
    | nil =>
      unfold mainLoopE at h
      split at h
      · cases h; exact ⟨inv, E⟩
      · cases h
    | cons e es => unfold mainLoopE at h; cases h
  | succ n ih =>
    intro a a' emitted evs inv E h
    cases evs with
    | nil =>
      unfold mainLoopE at h
      split at h
      · cases h; exact ⟨inv, E⟩
      · cases h
    | cons e es =>
      cases e with
      | topo s =>
        unfold mainLoopE at h
        split at h
        · cases h
        · split at h
          · cases h
          · split at h
            · cases h
            · rename_i hE
              have hE' : a.epsFreeAt s = true := by
                cases hx : a.epsFreeAt s
                · rw [hx] at hE; exact absurd rfl hE
                · rfl
              split at h
              · cases h
              · rename_i a1 evs1 h1
                obtain ⟨inv1, E1'⟩ := iterationWith_e1 inv E hE' h1
                exact ih _ evs1 inv1 E1' h
      | _ => unfold mainLoopE at h; cases h

/-- **Every automaton the strict replay `buildTE` returns has at most one epsilon transition per
state** — every tree decomposition, scheme, fuel, pattern list and event log. -/
theorem buildTE_e1 {req : K → List K} {fuel : Nat}
    {patterns : List (Nat × List (Constraint K P) × List K)} {evs : List Ev} {A : Automaton K P}
    (h : buildTE toTree req fuel patterns evs = .ok A) : Inv A ∧ E1All A := by
  unfold buildTE at h
  split at h
  · cases h
  · rename_i a1 h1
    obtain ⟨inv0, _, rs0, _⟩ := new_spec (K := K) (P := P)
    obtain ⟨inv1, hc1⟩ := allCons_addPatterns patterns inv0 rs0.1 allCons_new h1
    unfold finishE at h
    split at h
    · cases h
    · rename_i a2 h2
      obtain ⟨inv2, E2⟩ := mainLoopE_e1 _ _ _ inv1 hc1.e1All h2
      obtain ⟨inv3, _, he3, _⟩ := populateScopes_frame inv2 h
      exact ⟨inv3, e1All_of_sub E2 fun t e he => by rw [← he3]; exact he⟩

/-! ### the strict replay only adds a guard -/

theorem mainLoopE_imp_mainLoopD {det : Automaton K P → Nat → R (Automaton K P)} {fuel : Nat} :
    ∀ (n : Nat) {a a' : Automaton K P} (emitted : List Nat) (evs : List Ev),
    mainLoopE det toTree fuel n a emitted evs = .ok a' →
    mainLoopD det toTree fuel n a emitted evs = .ok a' := by
  intro n
  induction n with
  | zero =>
    intro a a' emitted evs h
    cases evs with
    | nil => unfold mainLoopE at h; unfold mainLoopD; exact h
    | cons e es => unfold mainLoopE at h; cases h
  | succ n ih =>
    intro a a' emitted evs h
    cases evs with
    | nil => unfold mainLoopE at h; unfold mainLoopD; exact h
    | cons e es =>
      cases e with
      | topo s =>
        unfold mainLoopE at h
        unfold mainLoopD
        split at h
        · cases h
        · rename_i hadm
          rw [if_neg hadm]
          split at h
          · cases h
          · rename_i hnd
            rw [if_neg hnd]
            split at h
            · cases h
            · split at h
              · cases h
              · rename_i a1 evs1 h1
                exact ih _ _ h
      | _ => unfold mainLoopE at h; cases h

/-- **Whenever `buildTE` succeeds, the strict build `buildTD` returns the same automaton.** -/
theorem buildTE_imp_buildTD {req : K → List K} {fuel : Nat}
    {patterns : List (Nat × List (Constraint K P) × List K)} {evs : List Ev} {A : Automaton K P}
    (h : buildTE toTree req fuel patterns evs = .ok A) :
    buildTD toTree req fuel patterns evs = .ok A := by
  unfold buildTE at h
  unfold buildTD
  cases h1 : addPatterns req fuel (new : Automaton K P) patterns with
  | error e => rw [h1] at h; cases h
  | ok a1 =>
    rw [h1] at h
    simp only at h ⊢
    unfold finishE at h
    unfold finishD
    cases h2 : mainLoopE makeDet toTree fuel evs.length a1 [] evs with
    | error e => rw [h2] at h; cases h
    | ok a2 =>
      rw [h2] at h
      rw [mainLoopE_imp_mainLoopD _ _ _ h2]
      exact h

end C09E
end Pm
