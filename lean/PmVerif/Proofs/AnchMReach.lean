/-
Proofs/AnchMReach.lean — T-RUN-ANCH-MAT, stage 2: what `matProgramOK` says about each live state
(`AnchM.StateOK`), and the invariant of every configuration the traversal can arrive at
(`AnchM.Inv`): the binding is unbound (at the root, or anywhere on a host without cells) or
`.bound r c 0 0 R C` anchored at an existing host cell `(r, c)` with a non-negative box, the state
lying on an acceptance path from the root under `matSigma h r c`.
Everything lives in `namespace Pm.AnchM`.
-/
import PmVerif.Proofs.AnchMBind
namespace Pm
namespace AnchM
open Automaton

/-! ### `matProgramOK`, state by state -/

/-- A prerequisite-ordered duplicate-free key list of the matrix scheme is empty or starts with
the start key, which does not occur again. -/
theorem shape_of_prereq (ks : List MKey) (h1 : prereqOrdered matReq ks = true) (h2 : ks.Nodup) :
    ks = [] ∨ ∃ rest, ks = (0, 0) :: rest ∧ (0, 0) ∉ rest := by
  cases ks with
  | nil => exact .inl rfl
  | cons k rest =>
    right
    have hp := (c09_prereqOrdered_iff matReq _).mp h1
    have h0 := hp 0 k rfl
    have hk : k = (0, 0) := by
      by_cases hk : k = (0, 0)
      · exact hk
      · have := h0 (0, 0) (by simp [matReq, hk])
        simp at this
    subst hk
    exact ⟨rest, rfl, (List.nodup_cons.mp h2).1⟩

/-- The clauses of `matProgramOK` the proofs use, for one live state. -/
structure StateOK (A : Automaton MKey CharPred) (ps : List MatPattern) (s : Nat)
    (w : AState MKey) : Prop where
  con : ∀ t ∈ w.corder, ∃ e q, A.g.edge? t = some e ∧ e.w = some q ∧
    q.args.length = q.pred.arity ∧ ∀ k ∈ q.args, k ∈ w.scope
  scope_ne : (w.corder ≠ [] ∨ w.eorder ≠ []) → w.scope ≠ []
  scope_shape : w.scope = [] ∨ ∃ rest, w.scope = (0, 0) :: rest ∧ (0, 0) ∉ rest
  scope_nn : NN w.scope
  matches_ : ∀ pid ks, (pid, ks) ∈ w.matches_ →
    (ks = [] ∨ ∃ rest, ks = (0, 0) :: rest ∧ (0, 0) ∉ rest) ∧ (s = A.root ∨ ks ≠ []) ∧ NN ks ∧
    ∃ p, ps[pid]? = some p ∧ ks = matPatternKeys p

theorem NN_of_all {ks : List MKey}
    (h : (ks.all fun k => decide (0 ≤ k.1) && decide (0 ≤ k.2)) = true) : NN ks := by
  intro k hk
  have := List.all_eq_true.mp h k hk
  simpa using this

theorem stateOK_of_programOK {A : Automaton MKey CharPred} {ps : List MatPattern}
    (hok : matProgramOK A ps = true) {s : Nat} {w : AState MKey}
    (hw : A.g.weight? s = some w) : StateOK A ps s w := by
  have hall := (liveStates_all A fun s w =>
    decide (w.eorder.length ≤ 1) &&
    (w.corder.all fun t => match A.g.edge? t with
      | some ⟨_, _, some c⟩ => decide (c.args.length = c.pred.arity) && c.args.all w.scope.contains
      | _ => false) &&
    (w.eorder.all fun t => match A.g.edge? t with
      | some ⟨_, _, none⟩ => true
      | _ => false) &&
    ((w.corder.isEmpty && w.eorder.isEmpty) || !w.scope.isEmpty) &&
    prereqOrdered matReq w.scope && decide w.scope.Nodup &&
    (w.scope.all fun k => decide (0 ≤ k.1) && decide (0 ≤ k.2)) &&
    (w.matches_.all fun m =>
      prereqOrdered matReq m.2 && decide m.2.Nodup &&
      (s == A.root || !m.2.isEmpty) &&
      (m.2.all fun k => decide (0 ≤ k.1) && decide (0 ≤ k.2)) &&
      (match ps[m.1]? with
       | some p => decide (m.2 = matPatternKeys p)
       | none => false))).mp hok s w hw
  simp only [Bool.and_eq_true, decide_eq_true_eq] at hall
  obtain ⟨⟨⟨⟨⟨⟨⟨_, hcon⟩, _⟩, hne⟩, hpo⟩, hnd⟩, hnn⟩, hmat⟩ := hall
  refine ⟨?_, ?_, shape_of_prereq _ hpo hnd, NN_of_all hnn, ?_⟩
  · intro t ht
    have := List.all_eq_true.mp hcon t ht
    split at this
    · rename_i src dst c heq
      simp only [Bool.and_eq_true, decide_eq_true_eq] at this
      refine ⟨_, c, heq, rfl, this.1, ?_⟩
      intro k hk
      have := List.all_eq_true.mp this.2 k hk
      simpa using this
    · cases this
  · intro hor hsc
    rw [hsc] at hne
    rcases hor with h | h
    · cases hc : w.corder with
      | nil => exact h hc
      | cons _ _ => simp [hc] at hne
    · cases hc : w.eorder with
      | nil => exact h hc
      | cons _ _ => simp [hc] at hne
  · intro pid ks hm
    have := List.all_eq_true.mp hmat (pid, ks) hm
    simp only [Bool.and_eq_true, decide_eq_true_eq, Bool.or_eq_true, beq_iff_eq,
      Bool.not_eq_true'] at this
    obtain ⟨⟨⟨⟨hpo', hnd'⟩, hroot⟩, hnn'⟩, hp⟩ := this
    refine ⟨shape_of_prereq _ hpo' hnd', ?_, NN_of_all hnn', ?_⟩
    · rcases hroot with h | h
      · exact .inl h
      · right; intro e; rw [e] at h; cases h
    · split at hp
      · rename_i p hps
        exact ⟨p, hps, by simpa using hp⟩
      · cases hp

/-! ### evaluation at a step candidate -/

variable {A : Automaton MKey CharPred} {ps : List MatPattern} {h : MatHost}

/-- Fact 2 at a state of an OK program: the constraints on its outgoing transitions evaluate, on
a candidate anchored at `(r, c)` whose box contains every bindable scope key, to their truth
value under `matSigma h r c`. -/
theorem sat_cand {s : Nat} {w : AState MKey} (hst : StateOK A ps s w) {t : Nat}
    {e : GEdge (Option MatCons)} {q : MatCons} (ht : t ∈ w.corder) (he : A.g.edge? t = some e)
    (hcw : e.w = some q) (r c : Nat) (R C : Int)
    (hcov : ∀ k ∈ w.scope, matCellAt h r c k = true → k.1 ≤ R ∧ k.2 ≤ C) :
    satOrFalse matDomain.map.get matDomain.check q h (.bound r c 0 0 R C) =
      some (matSigma h r c q) := by
  obtain ⟨e', q', he', hcw', har, hsc⟩ := hst.con t ht
  rw [he] at he'
  cases he'
  rw [hcw] at hcw'
  cases hcw'
  show satOrFalse MatPos.get matCheck q h _ = _
  apply sat_eq_sigma _ _ _ _ _ _ _ _ har
  · intro k hk
    exact hst.scope_nn k (hsc k hk)
  · intro k hk hb
    exact hcov k (hsc k hk) hb

/-- The fallback condition of `next_legal_states` is the one of `AccDet`. -/
theorem eps_cond_iff {s : Nat} {w : AState MKey} (hst : StateOK A ps s w) (r c : Nat) (R C : Int)
    (hcov : ∀ k ∈ w.scope, matCellAt h r c k = true → k.1 ≤ R ∧ k.2 ≤ C) :
    (w.det = false ∨ ∀ t' ∈ w.corder, ∀ e' c', A.g.edge? t' = some e' → e'.w = some c' →
        satOrFalse matDomain.map.get matDomain.check c' h (.bound r c 0 0 R C) ≠ some true) ↔
      (w.det = false ∨ ¬ fires (matSigma h r c) A w) := by
  constructor
  · rintro (hd | hn)
    · exact .inl hd
    · right
      rintro ⟨t, ht, e, q, he, hcw, hsig⟩
      apply hn t ht e q he hcw
      rw [sat_cand hst ht he hcw r c R C hcov, hsig]
  · rintro (hd | hn)
    · exact .inl hd
    · right
      intro t ht e q he hcw hsat
      apply hn
      refine ⟨t, ht, e, q, he, hcw, ?_⟩
      rw [sat_cand hst ht he hcw r c R C hcov] at hsat
      exact Option.some.inj hsat

/-! ### the invariant of reachable configurations -/

/-- Fact 3 (→): every configuration the traversal can arrive at is unbound — at the root, or
anywhere on a host without cells — or bound at an existing host cell `(r, c)` with a non-negative
box `[0,R]×[0,C]`, at a state from which acceptance under `matSigma h r c` lifts to the root. -/
def Inv (A : Automaton MKey CharPred) (h : MatHost) (s : Nat) (m : MatPos) : Prop :=
  (m = .unbound ∧ (s = A.root ∨ matAllCells h = [])) ∨
  ∃ r c R C, m = .bound r c 0 0 R C ∧ (matCell h r c).isSome = true ∧ 0 ≤ R ∧ 0 ≤ C ∧
    ∀ pid ks, AccDetK (matSigma h r c) A s pid ks → AccDetK (matSigma h r c) A A.root pid ks

/-- The step candidates at a state with outgoing transitions, from a configuration satisfying
the invariant. -/
theorem cands_cases {s : Nat} {w : AState MKey} {m m' : MatPos} {cands : List MatPos}
    (hst : StateOK A ps s w) (hne : w.scope ≠ []) (hinv : Inv A h s m)
    (hc : stepCands matDomain h w m = .ok cands) (hm' : m' ∈ cands) :
    (m' = .unbound ∧ matAllCells h = []) ∨
    ∃ r c R C, (matCell h r c).isSome = true ∧ m' = .bound r c 0 0 R C ∧ 0 ≤ R ∧ 0 ≤ C ∧
      (∀ k ∈ w.scope, matCellAt h r c k = true → k.1 ≤ R ∧ k.2 ≤ C) ∧
      ∀ pid ks, AccDetK (matSigma h r c) A s pid ks → AccDetK (matSigma h r c) A A.root pid ks := by
  obtain ⟨rest, hs, h0⟩ : ∃ rest, w.scope = (0, 0) :: rest ∧ (0, 0) ∉ rest := by
    rcases hst.scope_shape with h | h
    · exact absurd h hne
    · exact h
  have hnn : NN rest := by
    have := hst.scope_nn
    rw [hs] at this
    exact NN_tail this
  rcases hinv with ⟨rfl, hroot⟩ | ⟨r, c, R, C, rfl, hcell, hR, hC, hpath⟩
  · by_cases hB : matAllCells h = []
    · rw [stepCands_unbound_empty h w hB] at hc
      cases hc
      exact .inl ⟨List.mem_singleton.mp hm', hB⟩
    · have hs' : s = A.root := by
        rcases hroot with h | h
        · exact h
        · exact absurd h hB
      rw [stepCands_unbound h w rest hs h0 hnn hB] at hc
      cases hc
      obtain ⟨v, hv, rfl⟩ := List.mem_map.mp hm'
      obtain ⟨g1, g2, g3⟩ := stepBox_spec h v.1 v.2 (0, 0) rest
      refine .inr ⟨v.1, v.2, _, _, (mem_matAllCells h v).mp hv, rfl, g1, g2, ?_,
        fun pid ks hacc => hs' ▸ hacc⟩
      rw [hs]; exact g3
  · rw [stepCands_bound h w r c R C rest hs h0 hnn hR hC] at hc
    cases hc
    obtain ⟨g1, g2, g3⟩ := stepBox_spec h r c (R, C) rest
    refine .inr ⟨r, c, _, _, hcell, List.mem_singleton.mp hm', g1, g2, ?_, hpath⟩
    rw [hs]; exact g3

theorem reach_inv (hok : matProgramOK A ps = true) {s : Nat} {m : MatPos}
    (hr : Reach matDomain A h s m) : Inv A h s m := by
  induction hr with
  | root => exact .inl ⟨rfl, .inl rfl⟩
  | @con s m w cands m' t e q _ hw hc hm' ht he hcw hsat ih =>
    have hst := stateOK_of_programOK hok hw
    have hne : w.scope ≠ [] := hst.scope_ne (.inl (List.ne_nil_of_mem ht))
    rcases cands_cases hst hne ih hc hm' with ⟨rfl, hB⟩ | ⟨r, c, R, C, hcell, rfl, hR, hC, hcov, hpath⟩
    · exact .inl ⟨rfl, .inr hB⟩
    · refine .inr ⟨r, c, R, C, rfl, hcell, hR, hC, fun pid ks hacc => hpath pid ks ?_⟩
      rw [sat_cand hst ht he hcw r c R C hcov] at hsat
      exact AccDetK.con hw ht he hcw (Option.some.inj hsat) hacc
  | @eps s m w cands m' t e _ hw hc hm' ht he hd ih =>
    have hst := stateOK_of_programOK hok hw
    have hne : w.scope ≠ [] := hst.scope_ne (.inr (List.ne_nil_of_mem ht))
    rcases cands_cases hst hne ih hc hm' with ⟨rfl, hB⟩ | ⟨r, c, R, C, hcell, rfl, hR, hC, hcov, hpath⟩
    · exact .inl ⟨rfl, .inr hB⟩
    · refine .inr ⟨r, c, R, C, rfl, hcell, hR, hC, fun pid ks hacc => hpath pid ks ?_⟩
      exact AccDetK.eps hw ht he ((eps_cond_iff hst r c R C hcov).mp hd) hacc

end AnchM
end Pm
