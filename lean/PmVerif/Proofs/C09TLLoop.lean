/-
Proofs/C09TLLoop.lean — C09 clause (c) for the replay of the Rust loop itself (`buildTL`): the
main induction.

`C09E.E1All` ("at most one epsilon transition per state") is threaded through
`mainLoopWith makeDetL` ALONGSIDE the invariant `GE.INV` of `Proofs/GuardEInv.lean` (with `Inv` and
acyclicity, which `GE.iteration_keepsINV` needs): at the emission of `s` the guard c1T gives
`s ∉ E`, so `INV a E` says that no child of `s` has a fallback transition (`childEF_of_INV`) —
exactly what `C09TL.iterationWithL_e1` needs (the content of the guard c1E of the strict replay
`buildTE`, here a theorem). `GE.iteration_keepsINV` is used as a black box.
Stated for any decomposition satisfying the two step contracts `GE.TreeKeeps`, `GE.DetKeepsJ`
(flat decompositions: `GE.tree_keepsJ`, `GE.detKeepsJ`) and instantiated for `charTree`.
Everything lives in `namespace Pm.C09TL`.
-/
import PmVerif.Proofs.C09TLDet
import PmVerif.Proofs.GuardELoop
import PmVerif.Proofs.GuardETree
import PmVerif.Proofs.GuardEDet
import PmVerif.Proofs.GuardEInit
namespace Pm
namespace C09TL
open Automaton Pm.C09E Pm.GE Pm.C08A
variable {K P : Type} [DecidableEq K] [DecidableEq P]
set_option linter.unusedSectionVars false

/-- **c1E is a theorem under `INV`**: no child of a pending state has a fallback transition. -/
theorem childEF_of_INV {a : Automaton K P} {E : List Nat} {s : Nat} (hI : INV a E)
    (hs : s ∉ E) : ChildEF a s :=
  childEF_of_locOK (hI s hs).locOK

/-- … and the pending state itself has none (the other half of `epsFreeAt`; not needed below). -/
theorem ef_of_INV {a : Automaton K P} {E : List Nat} {s : Nat} (hI : INV a E) (hs : s ∉ E) :
    EF a s :=
  ef_of_eft (hI s hs).self

/-- The Boolean guard c1E of `buildTE` holds at every emission of a pending state. -/
theorem epsFreeAt_of_INV {a : Automaton K P} {E : List Nat} {s : Nat} (inv : Inv a)
    (hI : INV a E) (hs : s ∉ E) : a.epsFreeAt s = true := by
  have eo : ∀ x, EF a x →
      (match a.g.weight? x with | some w => w.eorder.isEmpty | none => true) = true := by
    intro x hx
    cases hw : a.g.weight? x with
    | none => rfl
    | some w =>
      simp only
      rw [eorder_nil_of_ef inv hw hx]
      rfl
  unfold epsFreeAt
  simp only [Bool.and_eq_true, List.all_eq_true]
  refine ⟨eo s (ef_of_INV hI hs), fun x hx => eo x ?_⟩
  obtain ⟨nd, t, e, hnd, hout, he, hd⟩ := SGraph.mem_succs.1 hx
  have hsrc : e.src = s := by
    obtain ⟨ed, hed, hs'⟩ := inv.wf.out_edge s nd hnd t hout
    rw [he] at hed; cases hed
    exact hs'
  exact hd ▸ childEF_of_INV hI hs t e he hsrc

variable {toTree : List (Constraint K P) → Option (CTree (Constraint K P))}

/-- **One iteration of the Rust loop's replay keeps `Inv`, acyclicity, `INV` and `E1All`.** -/
theorem iteration_keeps (TK : TreeKeeps toTree) (DK : DetKeepsJ K P) {fuel : Nat}
    {a a' : Automaton K P} {s : Nat} {evs evs' : List Ev} {E : List Nat} (inv : Inv a)
    (H : Acyclic a) (hI : INV a E) (E1 : E1All a) (hadm : a.topoAdmissible E s = true)
    (h : iterationWith makeDetL toTree fuel a s evs = .ok (a', evs')) :
    Inv a' ∧ Acyclic a' ∧ INV a' (s :: E) ∧ E1All a' := by
  obtain ⟨inv', H', I'⟩ := iteration_keepsINV TK DK inv H hI hadm h
  exact ⟨inv', H', I',
    (iterationWithL_e1 inv E1 (childEF_of_INV hI (preds_of_admissible inv hadm).1) h).2⟩

/-- The main loop. -/
theorem mainLoopL_e1 (TK : TreeKeeps toTree) (DK : DetKeepsJ K P) {fuel : Nat} :
    ∀ (n : Nat) {a a' : Automaton K P} {E : List Nat} {evs : List Ev},
      Inv a → Acyclic a → INV a E → E1All a →
      mainLoopWith makeDetL toTree fuel n a E evs = .ok a' →
      Inv a' ∧ Acyclic a' ∧ E1All a' ∧ ∃ E', INV a' E' := by
  intro n
  induction n with
  | zero =>
    intro a a' E evs inv H hI E1 h
    cases evs with
    | nil =>
      unfold mainLoopWith at h
      split at h
      · cases h; exact ⟨inv, H, E1, E, hI⟩
      · cases h
    | cons e es => unfold mainLoopWith at h; cases h
  | succ n ih =>
    intro a a' E evs inv H hI E1 h
    cases evs with
    | nil =>
      unfold mainLoopWith at h
      split at h
      · cases h; exact ⟨inv, H, E1, E, hI⟩
      · cases h
    | cons e es =>
      cases e with
      | topo s =>
        unfold mainLoopWith at h
        split at h
        · cases h
        · rename_i hadm
          have hadm' : a.topoAdmissible E s = true := by
            cases hx : a.topoAdmissible E s <;> simp_all
          split at h
          · cases h
          · rename_i a1 evs1 h1
            obtain ⟨inv1, H1, I1, E1'⟩ := iteration_keeps TK DK inv H hI E1 hadm' h1
            exact ih inv1 H1 I1 E1' h
      | _ => unfold mainLoopWith at h; cases h

/-- **Every automaton the replay of the Rust loop returns has at most one epsilon transition per
state** — for every decomposition satisfying the two step contracts of `Proofs/GuardELoop.lean`
and the initial invariant. -/
theorem buildTL_e1_of (TK : TreeKeeps toTree) (DK : DetKeepsJ K P) {req : K → List K}
    {fuel : Nat} {patterns : List (Nat × List (Constraint K P) × List K)} {evs : List Ev}
    {A : Automaton K P}
    (hinit : ∀ a0, addPatterns req fuel (new : Automaton K P) patterns = .ok a0 → INV a0 [])
    (h : buildTL toTree req fuel patterns evs = .ok A) : Inv A ∧ E1All A := by
  unfold buildTL at h
  split at h
  · cases h
  · rename_i a1 h1
    obtain ⟨inv0, _, rs0, _⟩ := new_spec (K := K) (P := P)
    obtain ⟨inv1, hc1⟩ := allCons_addPatterns patterns inv0 rs0.1 allCons_new h1
    obtain ⟨_, _, H1⟩ := acyclic_addPatterns h1
    unfold finishWith at h
    split at h
    · cases h
    · rename_i a2 h2
      obtain ⟨inv2, _, E2, _⟩ := mainLoopL_e1 TK DK _ inv1 H1 (hinit a1 h1) hc1.e1All h2
      obtain ⟨inv3, _, he3, _⟩ := populateScopes_frame inv2 h
      exact ⟨inv3, e1All_of_sub E2 fun t e he => by rw [← he3]; exact he⟩

/-- Flat decompositions (`C07.FlatTreeHyp`) that keep a single constraint (`SingleKept`). -/
theorem buildTL_e1_flat {Mx : Constraint K P → Constraint K P → Prop}
    (hF : C07.FlatTreeHyp Mx toTree) (hS : SingleKept toTree) {req : K → List K}
    {fuel : Nat} {patterns : List (Nat × List (Constraint K P) × List K)} {evs : List Ev}
    {A : Automaton K P} (h : buildTL toTree req fuel patterns evs = .ok A) :
    Inv A ∧ E1All A :=
  buildTL_e1_of (tree_keepsJ hF hS) detKeepsJ (fun _ h0 => inv_addPatterns h0) h

/-- The string/matrix decomposition `charTree`, any key order. -/
theorem buildTL_e1_char {K : Type} [DecidableEq K] (lt : K → K → Bool) {req : K → List K}
    {fuel : Nat} {patterns : List (Nat × List (Constraint K CharPred) × List K)} {evs : List Ev}
    {A : Automaton K CharPred} (h : buildTL (charTree lt) req fuel patterns evs = .ok A) :
    Inv A ∧ E1All A :=
  buildTL_e1_of (treeKeeps_charTree lt) detKeepsJ (fun _ h0 => inv_addPatterns h0) h

/-! ### c1E as a theorem: the replay with the guard c1E accepts the same logs -/

section GuardC1E
variable {toTree : List (Constraint K P) → Option (CTree (Constraint K P))}

/-- `mainLoopWith makeDetL` with the guard c1E of `buildTE` (`Automaton.epsFreeAt`) checked at
every emission — and nothing else added (no c1D, no `make_det` guard). -/
def mainLoopLE (toTree : List (Constraint K P) → Option (CTree (Constraint K P))) (fuel : Nat) :
    Nat → Automaton K P → List Nat → List Ev → R (Automaton K P)
  | _, a, emitted, [] =>
    if a.g.nodeIndices.all emitted.contains then .ok a
    else .error (.guard "c1C: the log ends although a live state was never emitted")
  | 0, _, _, _ :: _ => .error (.fuel "main loop")
  | n + 1, a, emitted, .topo s :: evs =>
    if !a.topoAdmissible emitted s then
      .error (.guard "c1T: state emitted twice or before one of its predecessors")
    else if !a.epsFreeAt s then
      .error (.guard "c1E: the emitted state or one of its children already has a fallback transition")
    else
      match iterationWith makeDetL toTree fuel a s evs with
      | .error e => .error e
      | .ok (a, evs) => mainLoopLE toTree fuel n a (s :: emitted) evs
  | _, _, _, _ :: _ => .error (.guard "expected a Topo event")

/-- The replay of the Rust loop with the guard c1E. -/
def buildTLE (toTree : List (Constraint K P) → Option (CTree (Constraint K P))) (req : K → List K)
    (fuel : Nat) (patterns : List (Nat × List (Constraint K P) × List K)) (evs : List Ev) :
    R (Automaton K P) :=
  match addPatterns req fuel new patterns with
  | .error e => .error e
  | .ok a =>
    match mainLoopLE toTree fuel evs.length a [] evs with
    | .error e => .error e
    | .ok a => populateScopes req fuel a

/-- The main loop of the Rust code passes c1E at every emission. -/
theorem mainLoop_imp_LE (TK : TreeKeeps toTree) (DK : DetKeepsJ K P) {fuel : Nat} :
    ∀ (n : Nat) {a a' : Automaton K P} {E : List Nat} {evs : List Ev},
      Inv a → Acyclic a → INV a E →
      mainLoopWith makeDetL toTree fuel n a E evs = .ok a' →
      mainLoopLE toTree fuel n a E evs = .ok a' := by
  intro n
  induction n with
  | zero =>
    intro a a' E evs _ _ _ h
    cases evs with
    | nil => unfold mainLoopWith at h; unfold mainLoopLE; exact h
    | cons e es => unfold mainLoopWith at h; cases h
  | succ n ih =>
    intro a a' E evs inv H hI h
    cases evs with
    | nil => unfold mainLoopWith at h; unfold mainLoopLE; exact h
    | cons e es =>
      cases e with
      | topo s =>
        unfold mainLoopWith at h
        unfold mainLoopLE
        split at h
        · cases h
        · rename_i hadm
          rw [if_neg hadm]
          have hadm' : a.topoAdmissible E s = true := by
            cases hx : a.topoAdmissible E s <;> simp_all
          have hc : (!a.epsFreeAt s) = false := by
            rw [epsFreeAt_of_INV inv hI (preds_of_admissible inv hadm').1]
            rfl
          rw [hc]
          simp only [Bool.false_eq_true, if_false]
          split at h
          · cases h
          · rename_i a1 evs1 h1
            rw [h1]
            simp only
            obtain ⟨inv1, H1, I1⟩ := iteration_keepsINV TK DK inv H hI hadm' h1
            exact ih inv1 H1 I1 h
      | _ => unfold mainLoopWith at h; cases h

/-- The guard only rejects. -/
theorem mainLoopLE_imp {fuel : Nat} :
    ∀ (n : Nat) {a a' : Automaton K P} {E : List Nat} {evs : List Ev},
      mainLoopLE toTree fuel n a E evs = .ok a' →
      mainLoopWith makeDetL toTree fuel n a E evs = .ok a' := by
  intro n
  induction n with
  | zero =>
    intro a a' E evs h
    cases evs with
    | nil => unfold mainLoopLE at h; unfold mainLoopWith; exact h
    | cons e es => unfold mainLoopLE at h; cases h
  | succ n ih =>
    intro a a' E evs h
    cases evs with
    | nil => unfold mainLoopLE at h; unfold mainLoopWith; exact h
    | cons e es =>
      cases e with
      | topo s =>
        unfold mainLoopLE at h
        unfold mainLoopWith
        split at h
        · cases h
        · rename_i hadm
          rw [if_neg hadm]
          split at h
          · cases h
          · split at h
            · cases h
            · rename_i a1 evs1 h1
              rw [h1]
              exact ih h
      | _ => unfold mainLoopLE at h; cases h

/-- **c1E is a theorem for the logs of the Rust loop** (given the two step contracts): `buildTL`
and `buildTLE` accept the same logs and return the same automaton. -/
theorem buildTL_iff_buildTLE_of (TK : TreeKeeps toTree) (DK : DetKeepsJ K P) {req : K → List K}
    {fuel : Nat} {patterns : List (Nat × List (Constraint K P) × List K)} {evs : List Ev}
    {A : Automaton K P}
    (hinit : ∀ a0, addPatterns req fuel (new : Automaton K P) patterns = .ok a0 → INV a0 []) :
    buildTL toTree req fuel patterns evs = .ok A ↔
      buildTLE toTree req fuel patterns evs = .ok A := by
  unfold buildTL buildTLE finishWith
  cases h1 : addPatterns req fuel (new : Automaton K P) patterns with
  | error e => simp
  | ok a1 =>
    simp only
    obtain ⟨inv1, _, H1⟩ := acyclic_addPatterns h1
    constructor
    · intro h
      cases h2 : mainLoopWith makeDetL toTree fuel evs.length a1 [] evs with
      | error e => rw [h2] at h; cases h
      | ok a2 =>
        rw [h2] at h
        rw [mainLoop_imp_LE TK DK _ inv1 H1 (hinit a1 h1) h2]
        exact h
    · intro h
      cases h2 : mainLoopLE toTree fuel evs.length a1 [] evs with
      | error e => rw [h2] at h; cases h
      | ok a2 =>
        rw [h2] at h
        rw [mainLoopLE_imp _ h2]
        exact h

end GuardC1E

end C09TL
end Pm
