/-
Proofs/C08AcycMain.lean — acyclicity is an invariant of the main loop of
`finish_with_det_heuristic`, for EVERY event log, every decomposition `toTree` and every indexing
scheme: the disciplined replays (`iterationWith` / `mainLoopWith` / `mainLoopD`, with the guarded
`makeDet` or the lenient `makeDetL`) and the undisciplined ones (`iteration` / `mainLoop`,
`iterationL` / `mainLoopL`). Hence the Kahn sort of `populate_scopes` succeeds on the automaton the
main loop ends with, and `expect("Graph should be acyclic")` is unreachable.
The structural invariant `Inv` and `Acyclic` are carried together; no semantic invariant is needed.
Everything lives in `namespace Pm.C08A`.
-/
import PmVerif.Proofs.C08AcycFuse
import PmVerif.Proofs.C08AcycTree
import PmVerif.Proofs.C08AcycDet
import PmVerif.Proofs.C08AcycMerge
import PmVerif.Proofs.C08Total6
namespace Pm
namespace C08A
open Automaton
variable {K P : Type} [DecidableEq K] [DecidableEq P]
set_option linter.unusedSectionVars false

/-- What the main loop needs from the `make_det` variant. -/
def DetAcyc (det : Automaton K P → Nat → R (Automaton K P)) : Prop :=
  ∀ (a a' : Automaton K P) (s : Nat), Inv a → a.Live s →
    (∀ w, a.g.weight? s = some w → w.eorder.length ≤ 1) → Acyclic a → det a s = .ok a' →
    Inv a' ∧ Acyclic a'

theorem detAcyc_makeDetL : DetAcyc (makeDetL (K := K) (P := P)) :=
  fun _ _ _ inv hs hle H h => acyclic_makeDetL inv hs hle H h

theorem detAcyc_makeDet : DetAcyc (makeDet (K := K) (P := P)) :=
  fun _ _ _ inv hs hle H h => acyclic_makeDet inv hs hle H h

/-- The three normalisation steps of an iteration at `s`. -/
theorem acyclic_normalise
    {toTree : List (Constraint K P) → Option (CTree (Constraint K P))}
    {fuel : Nat} {a a1 a2 a3 : Automaton K P} {s : Nat} {evs evs1 evs3 : List Ev} {treeDet : Bool}
    (inv : Inv a) (hs : a.Live s) (H : Acyclic a)
    (h1 : a.makeConstraintsUnique s evs = .ok (a1, evs1))
    (h2 : insertConstraintTree toTree a1 s fuel = .ok (a2, treeDet))
    (h3 : a2.makeConstraintsUnique s evs1 = .ok (a3, evs3)) :
    Inv a3 ∧ a3.Live s ∧ Acyclic a3 ∧ ∀ w, a3.g.weight? s = some w → w.eorder.length ≤ 1 := by
  have p1 := (makeConstraintsUnique_spec (σ := fun _ => true) inv hs h1).1
  have H1 := acyclic_makeConstraintsUnique inv hs H h1
  obtain ⟨inv2, hs2, H2⟩ := acyclic_insertConstraintTree p1.inv p1.live_s H1 h2
  have p3 := (makeConstraintsUnique_spec (σ := fun _ => true) inv2 hs2 h3).1
  have H3 := acyclic_makeConstraintsUnique inv2 hs2 H2 h3
  have hu := C08.makeConstraintsUnique_unique inv2 hs2 h3
  exact ⟨p3.inv, p3.live_s, H3, C08.eorder_le_one p3.inv hu⟩

/-- The `DetAsk` / `DetYes` step. -/
theorem acyclic_afterDet {det : Automaton K P → Nat → R (Automaton K P)} (hdet : DetAcyc det)
    {a3 a4 : Automaton K P} {s : Nat} {treeDet : Bool} {evs3 evs4 : List Ev}
    (inv3 : Inv a3) (hs3 : a3.Live s) (H3 : Acyclic a3)
    (hle : ∀ w, a3.g.weight? s = some w → w.eorder.length ≤ 1)
    (h4 : (if treeDet then
        match evs3 with
        | .detAsk s' :: .detYes s'' :: evs' =>
          if s' = s ∧ s'' = s then (det a3 s).map (·, evs')
          else .error (.guard "c5: DetAsk/DetYes for another state")
        | .detAsk s' :: evs' =>
          if s' = s then .ok (a3, evs') else .error (.guard "c5: DetAsk for another state")
        | _ => .error (.guard "c5: missing DetAsk event")
      else .ok (a3, evs3) : R (Automaton K P × List Ev)) = .ok (a4, evs4)) :
    Inv a4 ∧ Acyclic a4 := by
  split at h4
  · split at h4
    · split at h4
      · obtain ⟨a5, hm, he⟩ := c09b_map_ok h4
        cases he
        exact hdet _ _ _ inv3 hs3 hle H3 hm
      · cases h4
    · split at h4
      · cases h4; exact ⟨inv3, H3⟩
      · cases h4
    · cases h4
  · cases h4; exact ⟨inv3, H3⟩

/-- **One iteration of the disciplined main loop** preserves `Inv` and acyclicity. -/
theorem acyclic_iterationWith {det : Automaton K P → Nat → R (Automaton K P)} (hdet : DetAcyc det)
    {toTree : List (Constraint K P) → Option (CTree (Constraint K P))}
    {fuel : Nat} {a a' : Automaton K P} {s : Nat} {evs evs' : List Ev} (inv : Inv a)
    (H : Acyclic a) (h : iterationWith det toTree fuel a s evs = .ok (a', evs')) :
    Inv a' ∧ Acyclic a' := by
  unfold iterationWith at h
  split at h
  · cases h
  · rename_i hlive
    have hs : a.Live s := by
      unfold Live; cases hx : a.g.containsNode s <;> simp_all
    split at h
    · cases h
    · rename_i a1 evs1 h1
      split at h
      · cases h
      · rename_i a2 treeDet h2
        split at h
        · cases h
        · rename_i a3 evs3 h3
          obtain ⟨inv3, hs3, H3, hle⟩ := acyclic_normalise inv hs H h1 h2 h3
          dsimp only at h
          split at h
          · cases h
          · rename_i a4 evs4 h4
            have H4 : Inv a4 ∧ Acyclic a4 := acyclic_afterDet hdet inv3 hs3 H3 hle h4
            split at h
            · cases h
            · rename_i a5 s' evs5 h5
              split at h
              · cases h
                exact acyclic_mergesLoggedT _ H4.1 H4.2 h5
              · cases h
            · cases h

theorem acyclic_mainLoopWith {det : Automaton K P → Nat → R (Automaton K P)} (hdet : DetAcyc det)
    {toTree : List (Constraint K P) → Option (CTree (Constraint K P))} {fuel : Nat} :
    ∀ (n : Nat) {a a' : Automaton K P} (emitted : List Nat) (evs : List Ev), Inv a → Acyclic a →
    mainLoopWith det toTree fuel n a emitted evs = .ok a' → Inv a' ∧ Acyclic a' := by
  intro n
  induction n with
  | zero =>
    intro a a' emitted evs inv H h
    cases evs with
    | nil =>
      unfold mainLoopWith at h
      split at h
      · cases h; exact ⟨inv, H⟩
      · cases h
    | cons e es => unfold mainLoopWith at h; cases h
  | succ n ih =>
    intro a a' emitted evs inv H h
    cases evs with
    | nil =>
      unfold mainLoopWith at h
      split at h
      · cases h; exact ⟨inv, H⟩
      · cases h
    | cons e es =>
      cases e with
      | topo s =>
        unfold mainLoopWith at h
        split at h
        · cases h
        · split at h
          · cases h
          · rename_i a1 evs1 h1
            obtain ⟨inv1, H1⟩ := acyclic_iterationWith hdet inv H h1
            exact ih _ evs1 inv1 H1 h
      | _ => unfold mainLoopWith at h; cases h

/-- The strict disciplined loop (c1D) runs the same iterations. -/
theorem acyclic_mainLoopD {det : Automaton K P → Nat → R (Automaton K P)} (hdet : DetAcyc det)
    {toTree : List (Constraint K P) → Option (CTree (Constraint K P))} {fuel : Nat} :
    ∀ (n : Nat) {a a' : Automaton K P} (emitted : List Nat) (evs : List Ev), Inv a → Acyclic a →
    mainLoopD det toTree fuel n a emitted evs = .ok a' → Inv a' ∧ Acyclic a' := by
  intro n
  induction n with
  | zero =>
    intro a a' emitted evs inv H h
    cases evs with
    | nil =>
      unfold mainLoopD at h
      split at h
      · cases h; exact ⟨inv, H⟩
      · cases h
    | cons e es => unfold mainLoopD at h; cases h
  | succ n ih =>
    intro a a' emitted evs inv H h
    cases evs with
    | nil =>
      unfold mainLoopD at h
      split at h
      · cases h; exact ⟨inv, H⟩
      · cases h
    | cons e es =>
      cases e with
      | topo s =>
        unfold mainLoopD at h
        split at h
        · cases h
        · split at h
          · cases h
          · split at h
            · cases h
            · rename_i a1 evs1 h1
              obtain ⟨inv1, H1⟩ := acyclic_iterationWith hdet inv H h1
              exact ih _ evs1 inv1 H1 h
      | _ => unfold mainLoopD at h; cases h

/-! ### the undisciplined replays of `Model/Builder.lean` -/

theorem acyclic_iteration
    {toTree : List (Constraint K P) → Option (CTree (Constraint K P))}
    {fuel : Nat} {a a' : Automaton K P} {s : Nat} {evs evs' : List Ev} (inv : Inv a)
    (H : Acyclic a) (h : iteration toTree fuel a s evs = .ok (a', evs')) :
    Inv a' ∧ Acyclic a' := by
  unfold iteration at h
  split at h
  · cases h
  · rename_i hlive
    have hs : a.Live s := by
      unfold Live; cases hx : a.g.containsNode s <;> simp_all
    split at h
    · cases h
    · rename_i a1 evs1 h1
      split at h
      · cases h
      · rename_i a2 treeDet h2
        split at h
        · cases h
        · rename_i a3 evs3 h3
          obtain ⟨inv3, hs3, H3, hle⟩ := acyclic_normalise inv hs H h1 h2 h3
          dsimp only at h
          split at h
          · cases h
          · rename_i a4 evs4 h4
            have H4 : Inv a4 ∧ Acyclic a4 :=
              acyclic_afterDet detAcyc_makeDet inv3 hs3 H3 hle h4
            split at h
            · cases h
            · rename_i a5 s' evs5 h5
              split at h
              · cases h
                exact acyclic_mergesLogged _ H4.1 H4.2 h5
              · cases h
            · cases h

theorem acyclic_iterationL
    {toTree : List (Constraint K P) → Option (CTree (Constraint K P))}
    {fuel : Nat} {a a' : Automaton K P} {s : Nat} {evs evs' : List Ev} (inv : Inv a)
    (H : Acyclic a) (h : iterationL toTree fuel a s evs = .ok (a', evs')) :
    Inv a' ∧ Acyclic a' := by
  unfold iterationL at h
  split at h
  · cases h
  · rename_i hlive
    have hs : a.Live s := by
      unfold Live; cases hx : a.g.containsNode s <;> simp_all
    split at h
    · cases h
    · rename_i a1 evs1 h1
      split at h
      · cases h
      · rename_i a2 treeDet h2
        split at h
        · cases h
        · rename_i a3 evs3 h3
          obtain ⟨inv3, hs3, H3, hle⟩ := acyclic_normalise inv hs H h1 h2 h3
          dsimp only at h
          split at h
          · cases h
          · rename_i a4 evs4 h4
            have H4 : Inv a4 ∧ Acyclic a4 :=
              acyclic_afterDet detAcyc_makeDetL inv3 hs3 H3 hle h4
            split at h
            · cases h
            · rename_i a5 s' evs5 h5
              split at h
              · cases h
                exact acyclic_mergesLogged _ H4.1 H4.2 h5
              · cases h
            · cases h

theorem acyclic_mainLoop
    {toTree : List (Constraint K P) → Option (CTree (Constraint K P))} {fuel : Nat} :
    ∀ (n : Nat) {a a' : Automaton K P} (evs : List Ev), Inv a → Acyclic a →
    mainLoop toTree fuel n a evs = .ok a' → Inv a' ∧ Acyclic a' := by
  intro n
  induction n with
  | zero =>
    intro a a' evs inv H h
    cases evs with
    | nil => unfold mainLoop at h; cases h; exact ⟨inv, H⟩
    | cons e es => unfold mainLoop at h; cases h
  | succ n ih =>
    intro a a' evs inv H h
    cases evs with
    | nil => unfold mainLoop at h; cases h; exact ⟨inv, H⟩
    | cons e es =>
      cases e with
      | topo s =>
        unfold mainLoop at h
        split at h
        · cases h
        · rename_i a1 evs1 h1
          obtain ⟨inv1, H1⟩ := acyclic_iteration inv H h1
          exact ih evs1 inv1 H1 h
      | _ => unfold mainLoop at h; cases h

theorem acyclic_mainLoopL
    {toTree : List (Constraint K P) → Option (CTree (Constraint K P))} {fuel : Nat} :
    ∀ (n : Nat) {a a' : Automaton K P} (evs : List Ev), Inv a → Acyclic a →
    mainLoopL toTree fuel n a evs = .ok a' → Inv a' ∧ Acyclic a' := by
  intro n
  induction n with
  | zero =>
    intro a a' evs inv H h
    cases evs with
    | nil => unfold mainLoopL at h; cases h; exact ⟨inv, H⟩
    | cons e es => unfold mainLoopL at h; cases h
  | succ n ih =>
    intro a a' evs inv H h
    cases evs with
    | nil => unfold mainLoopL at h; cases h; exact ⟨inv, H⟩
    | cons e es =>
      cases e with
      | topo s =>
        unfold mainLoopL at h
        split at h
        · cases h
        · rename_i a1 evs1 h1
          obtain ⟨inv1, H1⟩ := acyclic_iterationL inv H h1
          exact ih evs1 inv1 H1 h
      | _ => unfold mainLoopL at h; cases h

/-! ### `populate_scopes` -/

/-- Kahn's algorithm succeeds on an acyclic well-formed graph. -/
theorem topoOrder_of_acyclic {a : Automaton K P} (hg : a.g.WF) (H : Acyclic a) :
    a.topoOrder.isSome = true := by
  obtain ⟨rank, m⟩ := H
  exact wfAcyclic_complete hg ⟨rank, m⟩

/-- `populate_scopes` does not touch the graph. -/
theorem acyclic_populateScopes {req : K → List K} {fuel : Nat} {a a' : Automaton K P}
    (H : Acyclic a) (h : populateScopes req fuel a = .ok a') : Acyclic a' := by
  obtain ⟨rank, m⟩ := H
  have hs := populateScopes_sameButScope h
  exact ⟨rank, m.of_edge_eq fun t => hs.edge? t⟩

/-- On an acyclic automaton satisfying the structural invariant, `populate_scopes` does not raise
`expect("Graph should be acyclic")`. -/
theorem populateScopes_no_acyclic_panic {req : K → List K} {fuel : Nat} {a : Automaton K P}
    (inv : Inv a) (H : Acyclic a) :
    populateScopes req fuel a ≠ .error (.panic C08.acyclicTag) := by
  intro h
  have hfine : C08.Fine (populateScopes req fuel a) :=
    C08.populateScopes_only_of_isSome (C08.mbOK_noPanic req fuel) inv
      (topoOrder_of_acyclic inv.wf H)
  exact hfine.not_panic _ h

end C08A
end Pm
