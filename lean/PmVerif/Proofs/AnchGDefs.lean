/-
Proofs/AnchGDefs.lean — T-RUN-ANCH-PG (anchored traversal theorem for single-root port-graph
programs over the generic association-list binding map), shared vocabulary:
`MapIs`/`MapGets`/`MapEqv` (a binding described extensionally), the "corner" constraints
`isNotEqual _ [k]` on which the tree decomposition `pgTree` is not faithful for `pgSigmaAnch`
when `k` is undefined, and the adjusted truth assignment `pgSigmaAnch'`.
Everything lives in `namespace Pm.AnchG`.
-/
import PmVerif.Spec.PGAnch
namespace Pm
namespace AnchG

/-! ### bindings, extensionally -/

/-- `get` of `m` is: the value `val k` on the keys of `ks`, nothing elsewhere. -/
def MapGets (m : PGMap) (ks : List PGKey) (val : PGKey → Option Nat) : Prop :=
  ∀ k, alGet m k = if k ∈ ks then val k else none

/-- `m` is exactly the binding of the keys `ks` to their values: no key is listed twice, and
`get` is `val` on `ks` and nothing elsewhere. (The order of the entries of `m` is the order in
which the traversal happened to bind the keys — an artefact of the path taken.) -/
def MapIs (m : PGMap) (ks : List PGKey) (val : PGKey → Option Nat) : Prop :=
  (m.map (·.1)).Nodup ∧ MapGets m ks val

/-- Two bindings with the same `get`. -/
def MapEqv (m m' : PGMap) : Prop := ∀ k, alGet m k = alGet m' k

/-! ### corner constraints -/

/-- A constraint is *not* of the form `isNotEqual _ [k]` with `k ≠ root 0`. (`constraint_vec`
never produces such a constraint, and `PGPredicate::conditioned` never returns one.) -/
def pgNoCorner (c : PGCons) : Bool :=
  match c.pred, c.args with
  | .isNotEqual _, [k] => k == .root 0
  | _, _ => true

/-- `c` is `isNotEqual _ [k]` with `k` undefined at anchor `r`. -/
def pgCornerAt (h : PortGraph) (r : Nat) (c : PGCons) : Bool :=
  match c.pred, c.args with
  | .isNotEqual _, [k] => (pgVal h r k).isNone
  | _, _ => false

/-- `pgSigmaAnch` made true on the corner constraints whose key is undefined: the truth
assignment for which `pgTree` is faithful (`PGPredicate::conditioned` reports a one-key
`isNotEqual` constraint as implied by the empty set of satisfied constraints). -/
def pgSigmaAnch' (h : PortGraph) (r : Nat) (c : PGCons) : Bool :=
  pgCornerAt h r c || pgSigmaAnch h r c

theorem pgCornerAt_of_noCorner {h : PortGraph} {r : Nat} {c : PGCons}
    (hc : pgNoCorner c = true) : pgCornerAt h r c = false := by
  unfold pgNoCorner at hc
  unfold pgCornerAt
  split
  · next n k hp ha =>
    rw [hp, ha] at hc
    simp only [beq_iff_eq] at hc
    subst hc
    rfl
  · rfl

theorem sigma'_eq_of_noCorner {h : PortGraph} {r : Nat} {c : PGCons}
    (hc : pgNoCorner c = true) : pgSigmaAnch' h r c = pgSigmaAnch h r c := by
  unfold pgSigmaAnch'
  rw [pgCornerAt_of_noCorner hc]
  rfl

end AnchG
end Pm
