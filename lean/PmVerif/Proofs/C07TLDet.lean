/-
Proofs/C07TLDet.lean — C07 (multiplicities) WITHOUT the guard c1D, determinisation step
(namespace `Pm.C07TL`).

`C07.xb_makeDet` (Proofs/C07XDet.lean) is about the guarded `make_det` and needs "no child of `s`
is deterministic".  Here: `make_det(s)` with guard E (`TBL.makeDetE`, which is what the unguarded
`makeDetL` of the Rust code computes under `GE.LocalOK`, `GE.makeDetE_of_makeDetL`) preserves `XB`
as soon as every deterministic constraint child is covered by guard E (`TBL.EOK`: it and the
fallback state have no fallback transition — provided by guard E itself) and the fallback state
`F` is deterministic only if it has no fallback transition (from `LocalOK`).  Reason: the target
`tgt` of a round gets the transitions of `X` and of `F`; its flag is that of `X`; two transitions
of `X` (or of `F`) that were exclusive through the flag of `X` (of `F`) cannot exist, because a
deterministic `X` (`F`) has no fallback transition (`excl_mx_of_detEF`).
-/
import PmVerif.Proofs.C07XDet
import PmVerif.Proofs.C07TLFuse
import PmVerif.Proofs.TBuildLDet
namespace Pm
namespace C07TL
open Automaton C07 C09E TBL Pm.GE
variable {K P : Type} [DecidableEq K] [DecidableEq P]
set_option linter.unusedSectionVars false

section
variable {Mx : Constraint K P → Constraint K P → Prop}
variable {b b' : Automaton K P} {s F tε t X tgt : Nat} {c : Constraint K P} {fw ws : AState K}

/-- One round of `makeDetLoop` preserves `XB` when the constraint child `X` and the fallback state
`F` are deterministic only if they have no fallback transition (`C07.xb_round` with the weaker
hypotheses; the proof is the same except for `excl_tgt`). -/
theorem xb_round_L (pre : RoundPre b s F tε t X c fw) (rs : RoundSpec b b' s F t X tgt c)
    (hws : b.g.weight? s = some ws) (hdet : ws.det = true)
    (hXnd : IsDet b X → EF b X) (hFnd : IsDet b F → EF b F)
    (hP1 : ∀ i, Below b X i → Below b F i → False)
    (hP3 : MxAt Mx b s) (hE1 : OneEps b s tε) (Xb : XB Mx b) : XB Mx b' := by
  have ok := pre.inv.ok
  have hP3' := round_mxAt pre rs hP3
  have hE1' := round_oneEps pre rs hE1
  have hsdet : IsDet b' s := ⟨ws, (rs.wt_ne s (Ne.symm rs.nes)).trans hws, hdet⟩
  have eX : HasEdge b s X (some c) := ⟨t, pre.edge_t⟩
  have eF : HasEdge b s F none := ⟨tε, pre.edge_ε⟩
  -- classification of the transitions of `b'`
  have cls : ∀ {x d : Nat} {cc : Option (Constraint K P)}, HasEdge b' x d cc →
      (x = s ∧ d = tgt) ∨
      (x ≠ tgt ∧ d ≠ tgt ∧ HasEdge b x d cc) ∨
      (x = tgt ∧ d ≠ tgt ∧ (HasEdge b X d cc ∨ HasEdge b F d cc)) := by
    rintro x d cc ⟨x0, hx0⟩
    by_cases hxt : x0 = t
    · subst hxt
      rw [rs.edge_t] at hx0
      cases hx0
      exact .inl ⟨rfl, rfl⟩
    · have hd : d ≠ tgt := fun hd => hxt (rs.only x0 _ hx0 hd)
      rcases rs.new x0 _ hx0 with h1 | h1 | ⟨h1, _, y, h2 | h2⟩
      · exact absurd h1 hxt
      · by_cases hx : x = tgt
        · subst hx
          rcases rs.cases with hX | hdead
          · exact .inr (.inr ⟨rfl, hd, .inl (hX ▸ ⟨x0, h1⟩)⟩)
          · exact absurd (ok.src_live h1) hdead
        · exact .inr (.inl ⟨hx, hd, ⟨x0, h1⟩⟩)
      · exact .inr (.inr ⟨h1, hd, .inl ⟨y, h2⟩⟩)
      · exact .inr (.inr ⟨h1, hd, .inr ⟨y, h2⟩⟩)
  have below_ne : ∀ {y i : Nat}, y ≠ tgt → Below b' y i → Below b y i :=
    fun hy h => (rs.lang_ne (σ := fun _ => true) pre hy _).1 h
  have below_tgt : ∀ {i : Nat}, Below b' tgt i → Below b X i ∨ Below b F i :=
    fun h => (rs.lang_tgt (σ := fun _ => true) pre _).1 h
  have ids_ne : ∀ {y i : Nat}, y ≠ tgt → b'.Ids y i → b.Ids y i := by
    rintro y i hy ⟨w, hw, hp⟩
    exact ⟨w, (rs.wt_ne y hy).symm.trans hw, hp⟩
  have excl_ne : ∀ {y : Nat} {c1 c2 : Option (Constraint K P)}, y ≠ tgt →
      ¬ Excl Mx b' y c1 c2 → ¬ Excl Mx b y c1 c2 := by
    intro y c1 c2 hy hex h
    refine hex (h.mono ?_)
    rintro ⟨w, hw, hd⟩
    exact ⟨w, (rs.wt_ne y hy).trans hw, hd⟩
  -- at `tgt`: exclusivity is `Mx` only, as at `X` and at `F`
  have excl_tgt : ∀ {y d1 d2 : Nat} {c1 c2 : Option (Constraint K P)}, (IsDet b y → EF b y) →
      HasEdge b y d1 c1 → HasEdge b y d2 c2 →
      ¬ Excl Mx b' tgt c1 c2 → ¬ Excl Mx b y c1 c2 :=
    fun hy h1 h2 hex h => hex (.inl (excl_mx_of_detEF hy h1 h2 h))
  -- two transitions of `s` in `b'` with different ids are exclusive
  have excl_s : ∀ {t1 t2 d1 d2 : Nat} {c1 c2 : Option (Constraint K P)},
      b'.g.edge? t1 = some ⟨s, d1, c1⟩ → b'.g.edge? t2 = some ⟨s, d2, c2⟩ → t1 ≠ t2 →
      Excl Mx b' s c1 c2 := by
    intro t1 t2 d1 d2 c1 c2 h1 h2 hne
    cases c1 with
    | none =>
      cases c2 with
      | none => exact absurd ((hE1' t1 _ h1 rfl rfl).trans (hE1' t2 _ h2 rfl rfl).symm) hne
      | some k2 => exact .inr ⟨hsdet, .inl ⟨rfl, by simp⟩⟩
    | some k1 =>
      cases c2 with
      | none => exact .inr ⟨hsdet, .inr ⟨by simp, rfl⟩⟩
      | some k2 => exact .inl ⟨k1, k2, rfl, rfl, hP3' t1 t2 _ _ k1 k2 h1 h2 rfl rfl rfl rfl hne⟩
  -- the own and the copied part of `tgt` have nothing in common below
  have cross : ∀ {d1 d2 i : Nat} {c1 c2 : Option (Constraint K P)}, HasEdge b X d1 c1 →
      HasEdge b F d2 c2 → Below b d1 i → Below b d2 i → False :=
    fun h1 h2 hb1 hb2 => hP1 _ (below_of_edge ok h1 hb1) (below_of_edge ok h2 hb2)
  refine ⟨?_, ?_, ?_⟩
  · intro x d1 d2 c1 c2 h1 h2 hne hex i hb1 hb2
    by_cases hxs : x = s
    · subst hxs
      obtain ⟨t1, ht1⟩ := h1
      obtain ⟨t2, ht2⟩ := h2
      refine hex (excl_s ht1 ht2 ?_)
      intro h12
      subst h12
      rw [ht1] at ht2
      cases ht2
      exact hne rfl
    · rcases cls h1 with ⟨hx1, _⟩ | ⟨hx1, hd1, e1⟩ | ⟨hx1, hd1, e1⟩
      · exact hxs hx1
      · rcases cls h2 with ⟨hx2, _⟩ | ⟨_, hd2, e2⟩ | ⟨hx2, _⟩
        · exact hxs hx2
        · exact Xb.sib x d1 d2 c1 c2 e1 e2 hne (excl_ne hx1 hex) i (below_ne hd1 hb1)
            (below_ne hd2 hb2)
        · exact hx1 hx2
      · rcases cls h2 with ⟨hx2, _⟩ | ⟨hx2, _⟩ | ⟨_, hd2, e2⟩
        · exact hxs hx2
        · exact hx2 hx1
        · subst hx1
          have b1 := below_ne hd1 hb1
          have b2 := below_ne hd2 hb2
          rcases e1 with e1 | e1
          · rcases e2 with e2 | e2
            · exact Xb.sib X d1 d2 c1 c2 e1 e2 hne (excl_tgt hXnd e1 e2 hex) i b1 b2
            · exact cross e1 e2 b1 b2
          · rcases e2 with e2 | e2
            · exact cross e2 e1 b2 b1
            · exact Xb.sib F d1 d2 c1 c2 e1 e2 hne (excl_tgt hFnd e1 e2 hex) i b1 b2
  · intro x i d cc hi he hb
    rcases cls he with ⟨hx, hd⟩ | ⟨hx, hd, e⟩ | ⟨hx, hd, e⟩
    · subst hx; subst hd
      have hi' := ids_ne (Ne.symm rs.nes) hi
      rcases below_tgt hb with h | h
      · exact Xb.down x i X _ hi' eX h
      · exact Xb.down x i F _ hi' eF h
    · exact Xb.down x i d cc (ids_ne hx hi) e (below_ne hd hb)
    · subst hx
      have bd := below_ne hd hb
      rcases (rs.ids_tgt i).1 hi with hi' | hi'
      · rcases e with e | e
        · exact Xb.down X i d cc hi' e bd
        · exact hP1 i (below_of_ids hi') (below_of_edge ok e bd)
      · rcases e with e | e
        · exact hP1 i (below_of_edge ok e bd) (below_of_ids hi')
        · exact Xb.down F i d cc hi' e bd
  · intro x d c1 c2 h1 h2 hc hex i hb
    by_cases hxs : x = s
    · subst hxs
      obtain ⟨t1, ht1⟩ := h1
      obtain ⟨t2, ht2⟩ := h2
      refine hex (excl_s ht1 ht2 ?_)
      intro h12
      subst h12
      rw [ht1] at ht2
      cases ht2
      exact hc rfl
    · rcases cls h1 with ⟨hx1, _⟩ | ⟨hx1, hd1, e1⟩ | ⟨hx1, hd1, e1⟩
      · exact hxs hx1
      · rcases cls h2 with ⟨hx2, _⟩ | ⟨_, _, e2⟩ | ⟨hx2, _⟩
        · exact hxs hx2
        · exact Xb.par x d c1 c2 e1 e2 hc (excl_ne hx1 hex) i (below_ne hd1 hb)
        · exact hx1 hx2
      · rcases cls h2 with ⟨hx2, _⟩ | ⟨hx2, _⟩ | ⟨_, _, e2⟩
        · exact hxs hx2
        · exact hx2 hx1
        · subst hx1
          have bd := below_ne hd1 hb
          rcases e1 with e1 | e1
          · rcases e2 with e2 | e2
            · exact Xb.par X d c1 c2 e1 e2 hc (excl_tgt hXnd e1 e2 hex) i bd
            · exact cross e1 e2 bd bd
          · rcases e2 with e2 | e2
            · exact cross e2 e1 bd bd
            · exact Xb.par F d c1 c2 e1 e2 hc (excl_tgt hFnd e1 e2 hex) i bd

/-- What the loop carries next to `TBL.LoopInvE`. -/
structure DetXL (Mx : Constraint K P → Constraint K P → Prop) (b : Automaton K P) (s F tε : Nat)
    (rest : List Nat) : Prop where
  xb : XB Mx b
  p1 : ∀ t ∈ rest, ∀ X c, b.g.edge? t = some ⟨s, X, some c⟩ →
    ∀ i, Below b X i → Below b F i → False
  mx : MxAt Mx b s
  one : OneEps b s tε

/-- Guard E's condition on a constraint child gives "deterministic only without fallback". -/
theorem detEF_of_eok {b : Automaton K P} {X : Nat} {fw : AState K} (inv : Inv b)
    (h : EOK b X fw) : IsDet b X → EF b X := by
  intro hd
  rcases h with hn | ⟨_, wx, hwx, hxe⟩
  · exact absurd hd hn
  · exact ef_of_eorder_nil inv hwx hxe

/-- `makeDetLoop` preserves `XB` (same induction as `C07.makeDetLoop_xb`, on `TBL.LoopInvE`);
`hF`: the fallback state is deterministic only if it has no fallback transition. -/
theorem makeDetLoop_xb_L {σ : Constraint K P → Bool} {a0 : Automaton K P} {s F tε : Nat}
    {ws fw : AState K} (hdet : ws.det = true) (hF : fw.det = true → fw.eorder = []) :
    ∀ (rest : List Nat) {b a' : Automaton K P},
    LoopInvE σ a0 b s F tε ws fw rest → DetXL Mx b s F tε rest → rest.Nodup →
    b.makeDetLoop (fw.corder ++ fw.eorder) fw.matches_ rest = .ok a' →
    XB Mx a'
  | [], b, a', _, dx, _, h => by
    unfold makeDetLoop at h; cases h; exact dx.xb
  | t :: rest, b, a', li, dx, hnd, h => by
    unfold makeDetLoop at h
    split at h
    · cases h
    · rename_i b1 tgt hsp
      split at h
      · cases h
      · rename_i b2 hcp
        split at h
        · cases h
        · rename_i b3 hm
          rw [List.nodup_cons] at hnd
          obtain ⟨X, c, he, hEOK⟩ := li.todo t List.mem_cons_self
          have pre : RoundPre b s F tε t X c fw := ⟨li.inv, he, li.edge_ε, li.wtF⟩
          have su := splitU_of_splitTarget pre hsp
          have rs := roundSpec_of pre su hcp hm
          have hP1 := dx.p1 t List.mem_cons_self X c he
          have hFb : IsDet b F → EF b F := by
            rintro ⟨w, hw, hd⟩
            rw [li.wtF] at hw; cases hw
            exact ef_of_eorder_nil li.inv li.wtF (hF hd)
          have xb' : XB Mx b3 :=
            xb_round_L pre rs li.wts hdet (detEF_of_eok li.inv hEOK) hFb hP1 dx.mx dx.one dx.xb
          refine makeDetLoop_xb_L hdet hF rest (li.step hnd.1 pre rs)
            ⟨xb', ?_, round_mxAt pre rs dx.mx, round_oneEps pre rs dx.one⟩ hnd.2 h
          intro t' ht' X' c' he' i hb1 hb2
          have htt : t' ≠ t := fun e => hnd.1 (e ▸ ht')
          have he0 : b.g.edge? t' = some ⟨s, X', some c'⟩ := by
            rcases rs.new t' _ he' with h1 | h1 | ⟨h1, _⟩
            · exact absurd h1 htt
            · exact h1
            · exact absurd h1.symm rs.nes
          have hX' : X' ≠ tgt := fun hd => htt (rs.only t' _ he' hd)
          exact dx.p1 t' (List.mem_cons_of_mem _ ht') X' c' he0 i
            ((rs.lang_ne (σ := fun _ => true) pre hX' _).1 hb1)
            ((rs.lang_ne (σ := fun _ => true) pre (Ne.symm rs.neF) _).1 hb2)

end

/-- **`make_det(s)` with guard E preserves `XB`** when every deterministic child of `s` is free of
fallback transitions (`DetEF`, from `GE.LocalOK`) and the constraint transitions of `s` carry
pairwise `Mx`-exclusive constraints. -/
theorem xb_makeDetE
    {Mx : Constraint K P → Constraint K P → Prop} {σ : Constraint K P → Bool}
    {a a' : Automaton K P} {s : Nat}
    (inv : Inv a) (rs : RootSrc a) (dok : DetOKE σ a) (X : XB Mx a)
    (hl : DetEF a s) (hmx : MxAt Mx a s)
    (h : makeDetE a s = .ok a') : XB Mx a' := by
  unfold makeDetE at h
  split at h
  · cases h
  · rename_i a0 wd hsd
    obtain ⟨w, rfl, r⟩ := setDeterministic_reflag inv hsd
    have X0 : XB Mx a0 := xb_reflag r inv X
    split at h
    · cases h
      exact X0
    · rename_i hwd
      split at h
      · cases h
      · cases h
        exact X0
      · rename_i F hfn
        obtain ⟨ws, hws, hr | ⟨tε, eε, hε, heε, hr⟩⟩ := Automaton.failNextState_ok hfn
        · cases hr.1
        · cases hr
          split at h
          · rename_i failTs cts fw hft hcts hfw
            obtain ⟨fw', hfw', rfl⟩ := allTransitions_ok_iff.1 hft
            obtain ⟨ws', hws', rfl⟩ := corderOf_ok_iff.1 hcts
            rw [state_ok_iff] at hfw
            rw [hfw] at hfw'; cases hfw'
            rw [hws] at hws'; cases hws'
            split at h
            · cases h
            · rename_i hcd
              have hwsdet : ws.det = true := by
                have := r.wt0
                rw [hws] at this
                cases this
                rfl
              have hwdet : w.det = false := by
                cases hx : w.det
                · rfl
                · rw [hx] at hwd; exact absurd rfl hwd
              have hsnd : ¬ IsDet a s := by
                rintro ⟨w1, hw1, hd1⟩
                rw [r.wt] at hw1
                cases hw1
                rw [hwdet] at hd1
                cases hd1
              -- the fallback transition
              have hε' : a0.g.edge? tε = some ⟨s, eε.dst, none⟩ := by
                obtain ⟨e, he, hsrc, hnone⟩ :=
                  r.inv.ok.eorder_edge s ws hws tε (by rw [hε]; exact List.mem_singleton.2 rfl)
                rw [heε] at he; cases he
                rw [heε]
                cases eε with
                | mk src dst wt =>
                  simp only at hsrc
                  subst hsrc
                  cases wt with
                  | none => rfl
                  | some _ => cases hnone
              have li : LoopInvE σ a0 a0 s eε.dst tε ws fw ws.corder := by
                refine ⟨r.inv, rfl, hws, hfw, hε', fun t ht => ?_, fun t ht hn => absurd ht hn,
                  r.rootSrc rs, fun _ => Iff.rfl, r.detEx inv dok⟩
                obtain ⟨e, he, hsrc, hsome⟩ := r.inv.ok.corder_edge s ws hws t ht
                obtain ⟨c, hc⟩ := Option.isSome_iff_exists.1 hsome
                refine ⟨e.dst, c, ?_, eok_of_not_bad hcd ht he⟩
                rw [he]
                cases e
                simp only at hsrc hc
                subst hsrc hc
                rfl
              have hnodup : ws.corder.Nodup :=
                (List.nodup_append.1 (r.inv.ok.nodup s ws hws)).1
              -- transfer between `a` and `a0`
              have hedge : ∀ {t : Nat} {e : GEdge (Option (Constraint K P))},
                  a0.g.edge? t = some e → a.g.edge? t = some e := by
                intro t e he
                rw [r.edge] at he
                exact he
              have hbelow : ∀ {x i : Nat}, Below a0 x i → Below a x i :=
                fun h => (r.acc_iff (σ := fun _ => true) inv _ _).1 h
              have hFs : eε.dst ≠ s := fun hx => r.inv.noloop tε _ hε' hx.symm
              have hFa : a.g.weight? eε.dst = some fw := (r.wt_ne _ hFs).symm.trans hfw
              have hF : fw.det = true → fw.eorder = [] := fun hd =>
                eorder_nil_of_ef inv hFa (hl tε ⟨s, eε.dst, none⟩ (hedge hε') rfl ⟨fw, hFa, hd⟩)
              have dx : DetXL Mx a0 s eε.dst tε ws.corder := by
                refine ⟨X0, ?_, ?_, ?_⟩
                · intro t _ X1 c1 he1 i hb1 hb2
                  have e1 : HasEdge a s X1 (some c1) := ⟨t, hedge he1⟩
                  have e2 : HasEdge a s eε.dst none := ⟨tε, hedge hε'⟩
                  have hex : ¬ Excl Mx a s (some c1) none := by
                    rintro (⟨_, _, _, h2, _⟩ | ⟨hd, _⟩)
                    · cases h2
                    · exact hsnd hd
                  by_cases hXF : X1 = eε.dst
                  · rw [hXF] at e1
                    exact X.par s eε.dst (some c1) none e1 e2 (by simp) hex i (hbelow hb2)
                  · exact X.sib s X1 eε.dst (some c1) none e1 e2 hXF hex i (hbelow hb1)
                      (hbelow hb2)
                · intro t1 t2 e1 e2 k1 k2 h1 h2 hs1 hs2 hw1 hw2 hne
                  exact hmx t1 t2 e1 e2 k1 k2 (hedge h1) (hedge h2) hs1 hs2 hw1 hw2 hne
                · intro t e he hsrc hw
                  have : t ∈ ws.eorder :=
                    (mem_eorder_iff r.inv.ok hws).2 ⟨e, he, hsrc, hw⟩
                  rw [hε] at this
                  exact List.mem_singleton.1 this
              exact makeDetLoop_xb_L hwsdet hF _ li dx hnodup h
          · cases h
          · cases h
          · cases h

end C07TL
end Pm
