/-
Proofs/C08Total6.lean — C08 (totality) of the builder, part 6: `add_pattern` (for every pattern
list) and `populate_scopes` never panic, except that `populate_scopes` panics with
"Graph should be acyclic" when (and only when) the Kahn sort `topoOrder` fails; the assembled
statements for the disciplined builds `buildT` (guarded `make_det`) and `buildTL` (the Rust code):
the only panic tag a build can return is "Graph should be acyclic" (`buildWith_fine`).
Everything lives in `namespace Pm.C08`.
-/
import PmVerif.Proofs.C08Total5
import PmVerif.Proofs.BuildScopes
import PmVerif.Proofs.BuildAddPattern
import PmVerif.Proofs.WFLemmas
import PmVerif.Proofs.StrProgFrames
import PmVerif.Proofs.MapLemmas
namespace Pm
namespace C08
open Automaton StrProg
variable {K P : Type} [DecidableEq K] [DecidableEq P]
set_option linter.unusedSectionVars false

/-- The one panic of the build that is not excluded here. -/
def acyclicTag : String := "Graph should be acyclic"

/-- The error policy of the whole build: what the policy `A` admits, or
`expect("Graph should be acyclic")`. -/
def OrAcyclic (A : Err → Prop) (e : Err) : Prop := A e ∨ e = .panic acyclicTag

/-- The result is not a panic, except possibly `expect("Graph should be acyclic")`. -/
def FineEx {α : Type} (r : R α) : Prop := ∀ tag, r = .error (.panic tag) → tag = acyclicTag

theorem FineEx.of_only {α : Type} {r : R α} (h : Only (OrAcyclic NoPanic) r) : FineEx r := by
  intro tag ht
  rcases h _ ht with h1 | h1
  · exact absurd rfl (h1 tag)
  · cases h1; rfl

/-- The policy admits the fuel error of `all_missing_bindings` whenever it can occur. -/
def MBOK (A : Err → Prop) (req : K → List K) (fuel : Nat) : Prop :=
  ∀ keys known, allMissingBindings req keys known fuel = none → ∀ t, A (.fuel t)

theorem mbOK_noPanic (req : K → List K) (fuel : Nat) : MBOK NoPanic req fuel :=
  fun _ _ _ _ _ h => by cases h

theorem mapR_only {α β : Type} {A : Err → Prop} (f : α → R β) (xs : List α)
    (h : ∀ x ∈ xs, Only A (f x)) : Only A (mapR f xs) := by
  induction xs with
  | nil => exact Only.ok _ _
  | cons x xs ih =>
    unfold mapR
    cases hx : f x with
    | error e => exact (h x List.mem_cons_self).error hx
    | ok y =>
      simp only
      have := ih fun x' hx' => h x' (List.mem_cons_of_mem _ hx')
      cases hr : mapR f xs with
      | error e => exact this.error hr
      | ok ys => exact Only.ok _ _

variable {A : Err → Prop}

/-! ### `add_pattern` -/

theorem addPatternLoop_only {req : K → List K} {fuel : Nat} (hmb : MBOK A req fuel) :
    ∀ (cs : List (Constraint K P)) {a : Automaton K P} (s : Nat) (keys : List K), Inv a →
      a.Live s → Only A (addPatternLoop req fuel a s keys cs) ∧
        ∀ r, addPatternLoop req fuel a s keys cs = .ok r →
          Inv r.1 ∧ r.1.Live r.2.1 ∧ r.1.root = a.root ∧ ∀ x, a.Live x → r.1.Live x
  | [], a, s, keys, inv, hs => by
    unfold addPatternLoop
    exact ⟨Only.ok _ _, fun r h => by cases h; exact ⟨inv, hs, rfl, fun _ h => h⟩⟩
  | c :: cs, a, s, keys, inv, hs => by
    unfold addPatternLoop
    cases hm : allMissingBindings req c.args keys fuel with
    | none => exact ⟨Only.err (hmb _ _ hm _), fun r h => by cases h⟩
    | some more =>
      simp only
      obtain ⟨⟨a1, s'⟩, h1⟩ := addTransition_total inv (some c) hs
      rw [h1]
      simp only
      obtain ⟨e, sp⟩ := addTransition_spec inv hs h1
      have hl1 : ∀ x, a.Live x → a1.Live x := by
        intro x hx
        obtain ⟨w, hw⟩ := live_iff.1 hx
        rw [live_iff, sp.wt]
        split
        · exact ⟨_, rfl⟩
        · split
          · rename_i hxp; subst hxp; rw [hw]; exact ⟨_, rfl⟩
          · exact ⟨w, hw⟩
      obtain ⟨hf, hk⟩ := addPatternLoop_only hmb cs s' (keys ++ more)
        sp.inv (live_of_weight (by rw [sp.wt, if_pos rfl]))
      refine ⟨hf, fun r h => ?_⟩
      obtain ⟨i1, i2, i3, i4⟩ := hk r h
      exact ⟨i1, i2, i3.trans sp.root, fun x hx => i4 x (hl1 x hx)⟩

theorem addPattern_only {req : K → List K} {fuel : Nat} (hmb : MBOK A req fuel)
    {a : Automaton K P}
    (cs : List (Constraint K P)) (pid : Nat) (extra : List K) (inv : Inv a)
    (hroot : a.Live a.root) : Only A (addPattern req fuel a cs pid extra) ∧
      ∀ a', addPattern req fuel a cs pid extra = .ok a' → Inv a' ∧ a'.Live a'.root := by
  unfold addPattern
  cases hm : allMissingBindings req extra [] fuel with
  | none => exact ⟨Only.err (hmb _ _ hm _), fun a' h => by cases h⟩
  | some keys0 =>
    simp only
    obtain ⟨hf, hk⟩ := addPatternLoop_only hmb cs a.root keys0 inv hroot
    cases hl : addPatternLoop req fuel a a.root keys0 cs with
    | error e => exact ⟨hf.error hl, fun a' h => by cases h⟩
    | ok v =>
      obtain ⟨a1, s, keys⟩ := v
      simp only
      obtain ⟨inv1, hs1, hr1, hl1⟩ := hk _ hl
      obtain ⟨a2, h2⟩ := addMatch_total (a := a1) pid keys hs1
      rw [h2]
      refine ⟨Only.ok _ _, fun a' h => ?_⟩
      cases h
      have sp := addMatch_spec inv1 h2
      refine ⟨sp.inv, ?_⟩
      rw [sp.root]
      have hr : a1.Live a1.root := hr1 ▸ hl1 _ hroot
      obtain ⟨w, hw⟩ := live_iff.1 hr
      by_cases hx : a1.root = s
      · obtain ⟨_, w', _, hw', _⟩ := sp.wt
        have hw'' : a2.g.weight? s = some w' := hw'
        rw [hx]
        exact live_of_weight hw''
      · exact live_of_weight ((sp.wt_ne _ hx).trans hw)

theorem addPatterns_only {req : K → List K} {fuel : Nat} (hmb : MBOK A req fuel) :
    ∀ (patterns : List (Nat × List (Constraint K P) × List K)) {a : Automaton K P}, Inv a →
      a.Live a.root → Only A (addPatterns req fuel a patterns)
  | [], a, _, _ => by unfold addPatterns; exact Only.ok _ _
  | (pid, cs, extra) :: ps, a, inv, hroot => by
    unfold addPatterns
    obtain ⟨hf, hk⟩ := addPattern_only hmb cs pid extra inv hroot
    cases h1 : addPattern req fuel a cs pid extra with
    | error e => exact hf.error h1
    | ok a1 =>
      simp only
      obtain ⟨inv1, hr1⟩ := hk a1 h1
      exact addPatterns_only hmb ps inv1 hr1

/-! ### `populate_scopes` -/

theorem mem_outEdges_edge {a : Automaton K P} {n t d : Nat} (h : (t, d) ∈ a.g.outEdges n) :
    ∃ e, a.g.edge? t = some e ∧ e.dst = d := by
  unfold SGraph.outEdges at h
  split at h
  · cases h
  · obtain ⟨t', _, ht'⟩ := List.mem_filterMap.1 h
    cases he : a.g.edge? t' with
    | none => rw [he] at ht'; cases ht'
    | some e =>
      rw [he] at ht'
      simp only [Option.map_some, Option.some.injEq, Prod.mk.injEq] at ht'
      obtain ⟨rfl, rfl⟩ := ht'
      exact ⟨e, he, rfl⟩

theorem alGet_isSome_append {V : Type} (acc : List (Nat × V)) (n : Nat) (v : V) (x : Nat)
    (h : x = n ∨ (alGet acc x).isSome) : (alGet (acc ++ [(n, v)]) x).isSome := by
  cases hx : alGet acc x with
  | some v' => rw [alGet_append_of_some acc _ x v' hx]; rfl
  | none =>
    rw [alGet_append_of_none acc _ x hx, alGet_singleton]
    rcases h with h | h
    · rw [if_pos h.symm]; rfl
    · rw [hx] at h; cases h

theorem forwardScopes_only {req : K → List K} {fuel : Nat} (hmb : MBOK A req fuel)
    {a : Automaton K P} (inv : Inv a) :
    ∀ (ns : List Nat) (acc : List (Nat × List K)),
      Only A (forwardScopes req fuel a ns acc) ∧
      ∀ fwd, forwardScopes req fuel a ns acc = .ok fwd →
        ∀ x, (x ∈ ns ∨ (alGet acc x).isSome) → (alGet fwd x).isSome
  | [], acc => by
    unfold forwardScopes
    refine ⟨Only.ok _ _, fun fwd h x hx => ?_⟩
    cases h
    rcases hx with hx | hx
    · cases hx
    · exact hx
  | n :: ns, acc => by
    unfold forwardScopes
    simp only
    have hfine : Only A (mapR (fun (es : Nat × Nat) =>
        match a.constraintOf es.1 with
        | .error e => (.error e : R (List K))
        | .ok c =>
          match allMissingBindings req (match c with | some c => c.args | none => [])
            ((alGet acc es.2).getD []) fuel with
          | none => .error (.fuel "all_missing_bindings")
          | some more => .ok ((alGet acc es.2).getD [] ++ more)) (a.g.inEdges n)) := by
      apply mapR_only
      intro es hes
      obtain ⟨t, p⟩ := es
      obtain ⟨ed, hed, _, _⟩ := (SGraph.mem_inEdges inv.wf).1 hes
      simp only [constraintOf_ok_iff.2 ⟨ed, hed, rfl⟩]
      split
      · rename_i hm
        exact Only.err (hmb _ _ hm _)
      · exact Only.ok _ _
    split
    · rename_i e he
      exact ⟨Only.error hfine he, fun fwd h => by cases h⟩
    · rename_i scopes hsc
      obtain ⟨hf, hk⟩ := forwardScopes_only hmb inv ns
        (acc ++ [(n, (reduceOpt (fun x y => x.filter fun k => y.contains k) scopes).getD [])])
      refine ⟨hf, fun fwd h x hx => hk fwd h x ?_⟩
      rcases hx with hx | hx
      · rcases List.mem_cons.1 hx with hx | hx
        · exact .inr (alGet_isSome_append acc n _ x (.inl hx))
        · exact .inl hx
      · exact .inr (alGet_isSome_append acc n _ x (.inr hx))

theorem backwardScopes_only {a : Automaton K P} (inv : Inv a) :
    ∀ (ns : List Nat) (acc : List (Nat × List K)),
      Only A (backwardScopes a ns acc) ∧
      ∀ bwd, backwardScopes a ns acc = .ok bwd →
        ∀ x, (x ∈ ns ∨ (alGet acc x).isSome) → (alGet bwd x).isSome
  | [], acc => by
    unfold backwardScopes
    refine ⟨Only.ok _ _, fun bwd h x hx => ?_⟩
    cases h
    rcases hx with hx | hx
    · cases hx
    · exact hx
  | n :: ns, acc => by
    unfold backwardScopes
    simp only
    have hfine : Only A (mapR (fun (es : Nat × Nat) =>
        match a.state es.2 with
        | .error e => (.error e : R (List K))
        | .ok w => .ok ((alGet acc es.2).getD [] ++ w.matches_.flatMap (·.2)))
        (a.g.outEdges n)) := by
      apply mapR_only
      intro es hes
      obtain ⟨t, d⟩ := es
      obtain ⟨e, he, hd⟩ := mem_outEdges_edge hes
      obtain ⟨w, hw⟩ := live_iff.1 (inv.ok.dst_live he)
      rw [hd] at hw
      simp only [state_ok_iff.2 hw]
      exact Only.ok _ _
    split
    · rename_i e he
      exact ⟨Only.error hfine he, fun bwd h => by cases h⟩
    · rename_i scopes hsc
      obtain ⟨hf, hk⟩ := backwardScopes_only inv ns (acc ++ [(n, scopes.flatten)])
      refine ⟨hf, fun bwd h x hx => hk bwd h x ?_⟩
      rcases hx with hx | hx
      · rcases List.mem_cons.1 hx with hx | hx
        · exact .inr (alGet_isSome_append acc n _ x (.inl hx))
        · exact .inl hx
      · exact .inr (alGet_isSome_append acc n _ x (.inr hx))

theorem constraintsAt_total {a : Automaton K P} (inv : Inv a) {n : Nat} (hn : a.Live n) :
    ∃ cs, a.constraintsAt n = .ok cs := by
  unfold constraintsAt
  obtain ⟨w, hw⟩ := live_iff.1 hn
  rw [corderOf_ok_iff.2 ⟨w, hw, rfl⟩]
  simp only
  apply mapR_total'
  intro t ht
  obtain ⟨e, he, _, hsome⟩ := inv.ok.corder_edge n w hw t ht
  obtain ⟨c, hc⟩ := Option.isSome_iff_exists.1 hsome
  exact ⟨c, by simp only [constraintOf_ok_iff.2 ⟨e, he, rfl⟩, hc]⟩

theorem setScopes_only {req : K → List K} {fuel : Nat} (hmb : MBOK A req fuel)
    {fwd bwd : List (Nat × List K)} :
    ∀ (ns : List Nat) {a : Automaton K P}, Inv a →
      (∀ n ∈ ns, a.Live n ∧ (alGet fwd n).isSome ∧ (alGet bwd n).isSome) →
      Only A (setScopes req fuel fwd bwd a ns)
  | [], a, _, _ => by unfold setScopes; exact Only.ok _ _
  | n :: ns, a, inv, hns => by
    obtain ⟨hl, hf, hb⟩ := hns n List.mem_cons_self
    obtain ⟨f, hf'⟩ := Option.isSome_iff_exists.1 hf
    obtain ⟨b, hb'⟩ := Option.isSome_iff_exists.1 hb
    unfold setScopes
    rw [hf', hb']
    simp only
    obtain ⟨cs, hcs⟩ := constraintsAt_total inv hl
    rw [hcs]
    simp only
    cases hm : allMissingBindings req (cs.flatMap (·.args)) (f.filter fun k => b.contains k)
        fuel with
    | none => exact Only.err (hmb _ _ hm _)
    | some more =>
      simp only
      rw [modifyState_of_live _ hl]
      simp only
      obtain ⟨inv1, hw1⟩ := setScope_frame inv n ((f.filter fun k => b.contains k) ++ more)
      refine setScopes_only hmb ns inv1 fun m hm => ?_
      obtain ⟨hlm, h2, h3⟩ := hns m (List.mem_cons_of_mem _ hm)
      refine ⟨?_, h2, h3⟩
      obtain ⟨w, hw⟩ := live_iff.1 hlm
      have := hw1 m
      rw [hw] at this
      rw [live_iff]
      cases hx : (a.g.setWeight n fun w =>
          { w with scope := (f.filter fun k => b.contains k) ++ more }).weight? m with
      | none => rw [hx] at this; cases this
      | some w' => exact ⟨w', rfl⟩

/-- **`populate_scopes`**: besides what the policy admits for `all_missing_bindings`, the only
error is the panic "Graph should be acyclic", raised exactly when the Kahn sort fails. -/
theorem populateScopes_only {req : K → List K} {fuel : Nat} (hmb : MBOK A req fuel)
    {a : Automaton K P} (inv : Inv a) : Only (OrAcyclic A) (populateScopes req fuel a) := by
  unfold populateScopes
  cases ho : a.topoOrder with
  | none => exact Only.err (.inr rfl)
  | some order =>
    simp only
    obtain ⟨_, hmem, _⟩ := topoOrder_spec ho
    obtain ⟨hff, hfk⟩ := forwardScopes_only hmb inv order []
    obtain ⟨hbf, hbk⟩ := backwardScopes_only (A := A) inv order.reverse []
    cases hfw : forwardScopes req fuel a order [] with
    | error e => exact (hff.error hfw).mono fun _ h => .inl h
    | ok fwd =>
      cases hbw : backwardScopes a order.reverse [] with
      | error e => exact (hbf.error hbw).mono fun _ h => .inl h
      | ok bwd =>
        simp only
        refine (setScopes_only hmb _ inv fun n hn => ?_).mono fun _ h => .inl h
        have hl : a.g.containsNode n = true := SGraph.mem_nodeIndices.1 hn
        refine ⟨hl, hfk fwd hfw n (.inl ((hmem n).2 hl)), hbk bwd hbw n (.inl ?_)⟩
        exact List.mem_reverse.2 ((hmem n).2 hl)

/-- With a successful Kahn sort the acyclicity panic does not occur. -/
theorem populateScopes_only_of_isSome {req : K → List K} {fuel : Nat} (hmb : MBOK A req fuel)
    {a : Automaton K P} (inv : Inv a) (h : a.topoOrder.isSome = true) :
    Only A (populateScopes req fuel a) := by
  unfold populateScopes
  cases ho : a.topoOrder with
  | none => rw [ho] at h; cases h
  | some order =>
    simp only
    obtain ⟨_, hmem, _⟩ := topoOrder_spec ho
    obtain ⟨hff, hfk⟩ := forwardScopes_only hmb inv order []
    obtain ⟨hbf, hbk⟩ := backwardScopes_only (A := A) inv order.reverse []
    cases hfw : forwardScopes req fuel a order [] with
    | error e => exact hff.error hfw
    | ok fwd =>
      cases hbw : backwardScopes a order.reverse [] with
      | error e => exact hbf.error hbw
      | ok bwd =>
        simp only
        refine setScopes_only hmb _ inv fun n hn => ?_
        have hl : a.g.containsNode n = true := SGraph.mem_nodeIndices.1 hn
        refine ⟨hl, hfk fwd hfw n (.inl ((hmem n).2 hl)), hbk bwd hbw n (.inl ?_)⟩
        exact List.mem_reverse.2 ((hmem n).2 hl)

/-! ### the disciplined builds -/

variable {E : Nat → Prop} {Q : Constraint K P → Prop}

/-- **`finishWith`** (main loop with the length of the log as fuel, then `populate_scopes`). -/
theorem finishWith_only (hg : ∀ e, IsGuard e → A e)
    {det : Automaton K P → Nat → R (Automaton K P)} (hdet : DetOK' E Q det)
    {toTree : List (Constraint K P) → Option (CTree (Constraint K P))} (hT : TreeFine Q toTree)
    (req : K → List K) (fuel : Nat) (htree : TreeStepOK A toTree fuel) (hmb : MBOK A req fuel)
    {a : Automaton K P} (evs : List Ev) (bi : BI E Q a) :
    Only (OrAcyclic A) (finishWith det toTree req fuel a evs) := by
  unfold finishWith
  obtain ⟨hf, hb⟩ := mainLoopWith_only hg hdet hT fuel htree evs.length [] evs bi
    (.inr (Nat.le_refl _))
  cases hm : mainLoopWith det toTree fuel evs.length a [] evs with
  | error e => exact (hf.error hm).mono fun _ h => .inl h
  | ok a2 => exact populateScopes_only hmb (hb a2 hm).inv

theorem bi_addPatterns {req : K → List K} {fuel : Nat}
    {patterns : List (Nat × List (Constraint K P) × List K)} {a : Automaton K P}
    (hp : ∀ p ∈ patterns, (∀ c ∈ p.2.1, Q c) ∧ (E p.1 → p.2.1 = []))
    (h : addPatterns req fuel (new : Automaton K P) patterns = .ok a) : BI E Q a := by
  obtain ⟨inv1, _, rs1, _, _⟩ := addPatterns_spec (σ := fun _ => true) h
  obtain ⟨inv0, _, rs0, _, _⟩ := new_spec (K := K) (P := P)
  exact ⟨inv1, rs1, (sp0_addPatterns patterns inv0 rs0.1 sp0_new hp h).sp⟩

/-- **The disciplined build**, for every decomposition satisfying `TreeFine`, every pattern list
whose constraints satisfy `Q`, every event log and every fuel — with the guarded or the lenient
`make_det`: every error is admitted by the policy `A` (guard errors; the fuel of
`all_missing_bindings` and `add_constraint_tree` where they can occur) or is the panic
"Graph should be acyclic". -/
theorem buildWith_only (hg : ∀ e, IsGuard e → A e)
    {det : Automaton K P → Nat → R (Automaton K P)} (hdet : DetOK' E Q det)
    {toTree : List (Constraint K P) → Option (CTree (Constraint K P))} (hT : TreeFine Q toTree)
    (req : K → List K) (fuel : Nat) (htree : TreeStepOK A toTree fuel) (hmb : MBOK A req fuel)
    (patterns : List (Nat × List (Constraint K P) × List K))
    (hp : ∀ p ∈ patterns, (∀ c ∈ p.2.1, Q c) ∧ (E p.1 → p.2.1 = [])) (evs : List Ev) :
    Only (OrAcyclic A) (match addPatterns req fuel (new : Automaton K P) patterns with
      | .error e => .error e
      | .ok a => finishWith det toTree req fuel a evs) := by
  obtain ⟨inv0, _, rs0, _, _⟩ := new_spec (K := K) (P := P)
  have hf := addPatterns_only hmb patterns inv0 rs0.1
  cases h : addPatterns req fuel (new : Automaton K P) patterns with
  | error e => exact (hf.error h).mono fun _ h => .inl h
  | ok a => exact finishWith_only hg hdet hT req fuel htree hmb evs (bi_addPatterns hp h)

/-- Instance "never panics, except possibly with the acyclicity `expect`": any fuel. -/
theorem buildWith_fineEx {det : Automaton K P → Nat → R (Automaton K P)}
    (hdet : DetOK' E Q det)
    {toTree : List (Constraint K P) → Option (CTree (Constraint K P))} (hT : TreeFine Q toTree)
    (req : K → List K) (fuel : Nat) (patterns : List (Nat × List (Constraint K P) × List K))
    (hp : ∀ p ∈ patterns, (∀ c ∈ p.2.1, Q c) ∧ (E p.1 → p.2.1 = [])) (evs : List Ev) :
    FineEx (match addPatterns req fuel (new : Automaton K P) patterns with
      | .error e => .error e
      | .ok a => finishWith det toTree req fuel a evs) :=
  FineEx.of_only (buildWith_only (fun _ => IsGuard.noPanic) hdet hT req fuel
    (treeStepOK_fine toTree fuel) (mbOK_noPanic req fuel) patterns hp evs)

end C08
end Pm
