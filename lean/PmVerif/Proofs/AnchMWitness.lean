/-
Proofs/AnchMWitness.lean — T-RUN-ANCH-MAT, a decidable per-program sufficient condition for
`AnchM.KeysWitnessed` (on every host): `AnchM.keysWitnessedOK A` checks, for every recorded key
`k ≠ (0,0)` of every accepting state `s`, that `s` cannot be reached from the root along fallback
transitions and constraint transitions whose constraint does not mention `k` (a must-witness
check). Soundness (`keysWitnessed_of_ok`) only uses that the computed state set contains the
root and is closed under those transitions, which the check itself verifies.
Everything lives in `namespace Pm.AnchM`.
-/
import PmVerif.Proofs.AnchMKeys
namespace Pm
namespace AnchM
open Automaton

/-- The constraint (if any) carried by an edge mentions key `k`. -/
def mentions (k : MKey) (w : Option MatCons) : Bool :=
  match w with
  | some q => q.args.contains k
  | none => false

/-- Successors of `s` along fallback transitions and constraint transitions that do not
mention `k`. -/
def avoidSucc (A : Automaton MKey CharPred) (k : MKey) (s : Nat) : List Nat :=
  ((A.stateD s).corder.filterMap fun t =>
    match A.g.edge? t with
    | some e => if mentions k e.w then none else some e.dst
    | none => none) ++
  ((A.stateD s).eorder.filterMap fun t => (A.g.edge? t).map (·.dst))

/-- Breadth-first closure of a state list under `avoidSucc`, at most `fuel` rounds. -/
def avoidClosure (A : Automaton MKey CharPred) (k : MKey) : Nat → List Nat → List Nat
  | 0, S => S
  | n + 1, S =>
    let new := (S.flatMap (avoidSucc A k)).filter fun s => !S.contains s
    if new.isEmpty then S else avoidClosure A k n (S ++ dedup new)

/-- The states reachable from the root without passing a constraint that mentions `k`. -/
def avoidSet (A : Automaton MKey CharPred) (k : MKey) : List Nat :=
  avoidClosure A k A.g.nodes.length [A.root]

/-- `S` contains the root and is closed under `avoidSucc`. -/
def closedOK (A : Automaton MKey CharPred) (k : MKey) (S : List Nat) : Bool :=
  S.contains A.root && S.all fun s => (avoidSucc A k s).all S.contains

/-- Decidable per-program condition: every recorded key other than the start key is mentioned by
a constraint on every path from the root to the recording state. -/
def keysWitnessedOK (A : Automaton MKey CharPred) : Bool :=
  A.liveStates.all fun s => (A.stateD s).matches_.all fun m => m.2.all fun k =>
    k == (0, 0) || (closedOK A k (avoidSet A k) && !(avoidSet A k).contains s)

theorem mem_avoidSucc_con {A : Automaton MKey CharPred} {k : MKey} {s t : Nat}
    {w : AState MKey} {e : GEdge (Option MatCons)} (hw : A.g.weight? s = some w)
    (ht : t ∈ w.corder) (he : A.g.edge? t = some e) (hm : mentions k e.w = false) :
    e.dst ∈ avoidSucc A k s := by
  unfold avoidSucc
  rw [stateD_of_weight? hw]
  apply List.mem_append_left
  rw [List.mem_filterMap]
  exact ⟨t, ht, by simp [he, hm]⟩

theorem mem_avoidSucc_eps {A : Automaton MKey CharPred} {k : MKey} {s t : Nat}
    {w : AState MKey} {e : GEdge (Option MatCons)} (hw : A.g.weight? s = some w)
    (ht : t ∈ w.eorder) (he : A.g.edge? t = some e) : e.dst ∈ avoidSucc A k s := by
  unfold avoidSucc
  rw [stateD_of_weight? hw]
  apply List.mem_append_right
  rw [List.mem_filterMap]
  exact ⟨t, ht, by simp [he]⟩

/-- From a state of a closed set that contains no state recording `k`, every acceptance
derivation whose key list contains `k` passes a true constraint mentioning `k`. -/
theorem witnessed_of_closed {A : Automaton MKey CharPred} {k : MKey} {S : List Nat}
    (hcl : ∀ s ∈ S, ∀ s' ∈ avoidSucc A k s, s' ∈ S)
    (hrec : ∀ s w pid ks, A.g.weight? s = some w → (pid, ks) ∈ w.matches_ → k ∈ ks → s ∉ S)
    {σ : MatCons → Bool} {s i : Nat} {ks : List MKey} (hacc : AccDetK σ A s i ks) (hs : s ∈ S)
    (hk : k ∈ ks) : ∃ q, σ q = true ∧ k ∈ q.args := by
  induction hacc with
  | here hw hm => exact absurd hs (hrec _ _ _ _ hw hm hk)
  | @con s pid ks w t e q hw ht he hcw hsig _ ih =>
    by_cases hkq : k ∈ q.args
    · exact ⟨q, hsig, hkq⟩
    · apply ih _ hk
      apply hcl s hs
      apply mem_avoidSucc_con hw ht he
      rw [hcw]
      simp [mentions, hkq]
  | @eps s pid ks w t e hw ht he _ _ ih =>
    exact ih (hcl s hs _ (mem_avoidSucc_eps hw ht he)) hk

/-- **Soundness of the check**: a program passing `keysWitnessedOK` witnesses its recorded keys
under every truth assignment … -/
theorem witnessed_of_ok {A : Automaton MKey CharPred} (hok : keysWitnessedOK A = true)
    {σ : MatCons → Bool} {i : Nat} {ks : List MKey} (hacc : AccDetK σ A A.root i ks) :
    ∀ k ∈ ks, k ≠ (0, 0) → ∃ q, σ q = true ∧ k ∈ q.args := by
  intro k hk hk0
  have hall := (liveStates_all A fun s w => w.matches_.all fun m => m.2.all fun k =>
    k == (0, 0) || (closedOK A k (avoidSet A k) && !(avoidSet A k).contains s)).mp hok
  have hat : ∀ s w pid ks', A.g.weight? s = some w → (pid, ks') ∈ w.matches_ → k ∈ ks' →
      closedOK A k (avoidSet A k) = true ∧ s ∉ avoidSet A k := by
    intro s w pid ks' hw hm hk'
    have h1 := List.all_eq_true.mp (hall s w hw) (pid, ks') hm
    have h2 := List.all_eq_true.mp h1 k hk'
    have hne : (k == ((0 : Int), (0 : Int))) = false := by
      simpa using hk0
    rw [hne, Bool.false_or, Bool.and_eq_true] at h2
    refine ⟨h2.1, ?_⟩
    intro hin
    have := h2.2
    simp [hin] at this
  obtain ⟨s', w', hw', hm'⟩ := Anch.accDetK_recorded hacc
  obtain ⟨hclosed, _⟩ := hat s' w' i ks hw' hm' hk
  unfold closedOK at hclosed
  rw [Bool.and_eq_true] at hclosed
  obtain ⟨hroot, hcl⟩ := hclosed
  refine witnessed_of_closed (S := avoidSet A k) ?_ ?_ hacc (by simpa using hroot) hk
  · intro s hs s' hs'
    have := List.all_eq_true.mp (List.all_eq_true.mp hcl s hs) s' hs'
    simpa using this
  · intro s w pid ks' hw hm hk'
    exact (hat s w pid ks' hw hm hk').2

/-- … hence on every host. -/
theorem keysWitnessed_of_ok {A : Automaton MKey CharPred} (hok : keysWitnessedOK A = true)
    (h : MatHost) : KeysWitnessed A h := by
  intro r c i ks hcell hacc k hk
  by_cases hk0 : k = (0, 0)
  · subst hk0
    simpa using hcell
  · obtain ⟨q, hq, hkq⟩ := witnessed_of_ok hok hacc k hk hk0
    exact sigma_cells h r c q hq k hkq

end AnchM
end Pm
