/-
Proofs/C01GenScopes.lean — the CONTENT of the scopes `populate_scopes` computes (the existing
scope lemmas are about their shape: prerequisite order, anchor first):

* `topoOrder_spec`      the Kahn order lists every live state once, parents before children;
* `forwardScopes_spec`  a key missing from the forward scope of `n` is missing from the forward
                        scope of one of its parents and is not a key of that transition's
                        constraint (or `n` has no incoming transition);
* `backwardScopes_spec` the backward scope of `n` contains the recorded key lists of its children
                        and their backward scopes;
* `setScopes_keeps`     the final scope contains forward ∩ backward;
* `populateScopes_scope` assembled: a key recorded strictly below `s` is in `scope(s)` unless some
                        path from the root to `s` never mentions it.
-/
import PmVerif.Proofs.C01GenDefs
namespace Pm.C01G
open Automaton

/-! ### lists sorted along a dependency function -/

/-- Every dependency `q ∈ f n` of an element `n` of `ns` is in `base` or occurs before `n`. -/
def SortedS (f : Nat → List Nat) (base ns : List Nat) : Prop :=
  ∀ pre n post, ns = pre ++ n :: post → ∀ q ∈ f n, q ∈ base ∨ q ∈ pre

theorem SortedS.head {f : Nat → List Nat} {base ns : List Nat} {n : Nat}
    (h : SortedS f base (n :: ns)) : ∀ q ∈ f n, q ∈ base := by
  intro q hq
  rcases h [] n ns rfl q hq with h1 | h1
  · exact h1
  · cases h1

theorem SortedS.tail {f : Nat → List Nat} {base ns : List Nat} {n : Nat}
    (h : SortedS f base (n :: ns)) : SortedS f (base ++ [n]) ns := by
  intro pre m post e q hq
  rcases h (n :: pre) m post (by rw [e]; rfl) q hq with h1 | h1
  · exact .inl (List.mem_append_left _ h1)
  · rcases List.mem_cons.1 h1 with rfl | h1
    · exact .inl (List.mem_append_right _ List.mem_cons_self)
    · exact .inr h1

theorem SortedS.append {f : Nat → List Nat} {xs ys : List Nat} (h : SortedS f [] xs)
    (hy : ∀ n ∈ ys, ∀ q ∈ f n, q ∈ xs) : SortedS f [] (xs ++ ys) := by
  intro pre n post e q hq
  rcases List.append_eq_append_iff.1 e with ⟨a', h1, h2⟩ | ⟨c', h1, h2⟩
  · -- `pre = xs ++ a'`, `ys = a' ++ n :: post`
    have hn : n ∈ ys := by rw [h2]; exact List.mem_append_right _ List.mem_cons_self
    exact .inr (by rw [h1]; exact List.mem_append_left _ (hy n hn q hq))
  · -- `xs = pre ++ c'`, `n :: post = c' ++ ys`
    cases c' with
    | nil =>
      have hn : n ∈ ys := by
        rw [List.nil_append] at h2
        rw [← h2]; exact List.mem_cons_self
      have hx : xs = pre := by rw [h1, List.append_nil]
      exact .inr (hx ▸ hy n hn q hq)
    | cons x c'' =>
      rw [List.cons_append] at h2
      obtain ⟨rfl, _⟩ := List.cons.inj h2
      exact h pre n c'' h1 q hq

theorem sortedS_nil (f : Nat → List Nat) (base : List Nat) : SortedS f base [] := by
  intro pre n post e
  cases pre <;> cases e

/-! ### association lists -/

section AL
variable {α : Type}

theorem alGet_none_iff (m : List (Nat × α)) (k : Nat) : alGet m k = none ↔ k ∉ m.map (·.1) := by
  induction m with
  | nil => simp [alGet]
  | cons x m ih =>
    obtain ⟨k', v⟩ := x
    simp only [alGet, List.map_cons, List.mem_cons, not_or]
    by_cases hk : k' = k
    · simp [hk]
    · rw [if_neg hk, ih]
      exact ⟨fun h => ⟨fun e => hk e.symm, h⟩, fun h => h.2⟩

theorem alGet_some_of_mem (m : List (Nat × α)) (k : Nat) (h : k ∈ m.map (·.1)) :
    ∃ v, alGet m k = some v := by
  cases hg : alGet m k with
  | some v => exact ⟨v, rfl⟩
  | none => exact absurd h ((alGet_none_iff m k).1 hg)

theorem alGet_snoc (m : List (Nat × α)) (n k : Nat) (x v : α)
    (h : alGet (m ++ [(n, x)]) k = some v) : alGet m k = some v ∨ (alGet m k = none ∧ k = n ∧ v = x) := by
  cases hg : alGet m k with
  | some v' =>
    rw [alGet_append_of_some m _ k v' hg] at h
    exact .inl h
  | none =>
    rw [alGet_append_of_none m _ k hg, alGet_singleton] at h
    split at h
    · next e => cases h; exact .inr ⟨rfl, e.symm, rfl⟩
    · cases h

end AL

section Scopes
variable {K P : Type} [DecidableEq K]

/-! ### `topoOrder` -/

omit [DecidableEq K] in
theorem topoOrder_go_spec (a : Automaton K P) :
    ∀ (fuel : Nat) (done order : List Nat), done.Nodup → (∀ n ∈ done, n ∈ a.g.nodeIndices) →
      SortedS a.g.preds [] done → topoOrder.go a a.g.nodeIndices fuel done = some order →
      order.Nodup ∧ (∀ n ∈ order, n ∈ a.g.nodeIndices) ∧ SortedS a.g.preds [] order ∧
        order.length = a.g.nodeIndices.length
  | 0, done, order, hnd, hl, hs, h => by
    rw [topoOrder.go] at h
    split at h
    · next hlen => cases h; exact ⟨hnd, hl, hs, by simpa using hlen⟩
    · cases h
  | f + 1, done, order, hnd, hl, hs, h => by
    rw [topoOrder.go] at h
    split at h
    · split at h
      · next hlen => cases h; exact ⟨hnd, hl, hs, by simpa using hlen⟩
      · cases h
    · have hnext : ∀ n, n ∈ (a.g.nodeIndices.filter fun n =>
          !done.contains n && (a.g.preds n).all done.contains) ↔
          n ∈ a.g.nodeIndices ∧ n ∉ done ∧ ∀ p ∈ a.g.preds n, p ∈ done := by
        intro n
        simp [List.mem_filter, List.all_eq_true]
      refine topoOrder_go_spec a f _ order ?_ ?_ ?_ h
      · rw [List.nodup_append]
        refine ⟨hnd, (SGraph.nodup_nodeIndices a.g).sublist List.filter_sublist, ?_⟩
        intro x hx y hy e
        exact ((hnext y).1 hy).2.1 (e ▸ hx)
      · intro n hn
        rcases List.mem_append.1 hn with hn | hn
        · exact hl n hn
        · exact ((hnext n).1 hn).1
      · exact hs.append fun n hn q hq => ((hnext n).1 hn).2.2 q hq

omit [DecidableEq K] in
/-- The order computed by `topoOrder`: every live state exactly once, parents first. -/
theorem topoOrder_spec {a : Automaton K P} {order : List Nat} (h : a.topoOrder = some order) :
    order.Nodup ∧ (∀ n, n ∈ order ↔ a.g.containsNode n = true) ∧ SortedS a.g.preds [] order := by
  unfold topoOrder at h
  obtain ⟨hnd, hl, hs, hlen⟩ := topoOrder_go_spec a _ [] order List.nodup_nil
    (fun _ h => by cases h) (sortedS_nil _ _) h
  refine ⟨hnd, fun n => ⟨fun hn => SGraph.mem_nodeIndices.1 (hl n hn), fun hn => ?_⟩, hs⟩
  exact subset_of_nodup_of_length_le order a.g.nodeIndices hnd hl (by omega) n
    (SGraph.mem_nodeIndices.2 hn)

omit [DecidableEq K] in
/-- Reversing a parents-first order of all live states gives a children-first order. -/
theorem sortedS_reverse {g : SGraph (AState K) (Option (Constraint K P))} (wf : g.WF)
    {order : List Nat} (hnd : order.Nodup) (hall : ∀ n, g.containsNode n = true → n ∈ order)
    (hs : SortedS g.preds [] order) : SortedS g.succs [] order.reverse := by
  intro pre n post e d hd
  right
  have e' : order = post.reverse ++ n :: pre.reverse := by
    have := congrArg List.reverse e
    rw [List.reverse_reverse] at this
    rw [this]; simp
  have hnp : n ∈ g.preds d := wf.preds_iff_succs.2 hd
  have hdo : d ∈ order := hall d (wf.succ_live hd)
  rw [e'] at hdo hnd
  rcases List.mem_append.1 hdo with h1 | h1
  · -- `d` before `n`: impossible
    obtain ⟨p1, p2, hp⟩ := List.append_of_mem h1
    have hsplit : order = p1 ++ d :: (p2 ++ n :: pre.reverse) := by
      rw [e', hp]; simp
    rcases hs p1 d _ hsplit n hnp with h2 | h2
    · cases h2
    · exfalso
      have hn1 : n ∈ post.reverse := by rw [hp]; exact List.mem_append_left _ h2
      exact (List.nodup_append.1 hnd).2.2 n hn1 n List.mem_cons_self rfl
  · rcases List.mem_cons.1 h1 with rfl | h1
    · -- a self loop: `d ∈ preds d` must occur before itself
      exfalso
      rcases hs post.reverse d pre.reverse e' d hnp with h2 | h2
      · cases h2
      · exact (List.nodup_append.1 hnd).2.2 d h2 d List.mem_cons_self rfl
    · exact List.mem_reverse.1 h1

/-! ### forward scopes -/

/-- What is known of the forward scopes computed so far. -/
def FwdOK (a : Automaton K P) (acc : List (Nat × List K)) : Prop :=
  ∀ n f, alGet acc n = some f → ∀ k, k ∉ f →
    a.g.inEdges n = [] ∨ ∃ t p fp, (t, p) ∈ a.g.inEdges n ∧ alGet acc p = some fp ∧ k ∉ fp ∧
      ∀ c, a.constraintOf t = .ok (some c) → k ∉ c.args

theorem mem_foldl_inter {k : K} : ∀ (xs : List (List K)) (x : List K), k ∈ x →
    (∀ y ∈ xs, k ∈ y) → k ∈ xs.foldl (fun x y => x.filter fun k => y.contains k) x
  | [], x, hx, _ => hx
  | y :: xs, x, hx, hy => by
    rw [List.foldl_cons]
    refine mem_foldl_inter xs _ ?_ fun z hz => hy z (List.mem_cons_of_mem _ hz)
    rw [List.mem_filter]
    exact ⟨hx, by simpa using hy y List.mem_cons_self⟩

theorem not_mem_reduce {k : K} {scopes : List (List K)}
    (h : k ∉ (reduceOpt (fun x y => x.filter fun k => y.contains k) scopes).getD []) :
    scopes = [] ∨ ∃ y ∈ scopes, k ∉ y := by
  cases scopes with
  | nil => exact .inl rfl
  | cons x xs =>
    right
    apply Classical.byContradiction
    intro hno
    apply h
    have hall : ∀ y ∈ x :: xs, k ∈ y := fun y hy =>
      Classical.byContradiction fun hk => hno ⟨y, hy, hk⟩
    simp only [reduceOpt, Option.getD_some]
    exact mem_foldl_inter xs x (hall x List.mem_cons_self)
      fun y hy => hall y (List.mem_cons_of_mem _ hy)

theorem mapR_nil_iff {α β : Type} {f : α → R β} {xs : List α} {ys : List β}
    (h : mapR f xs = .ok ys) : ys = [] → xs = [] := by
  intro hy
  cases xs with
  | nil => rfl
  | cons x xs =>
    unfold mapR at h
    split at h
    · cases h
    · split at h
      · cases h
      · cases h; cases hy

theorem forwardScopes_spec {req : K → List K} (hacy : RankAcyclic req) (fuel : Nat)
    (a : Automaton K P) :
    ∀ (ns : List Nat) (acc fwd : List (Nat × List K)),
      forwardScopes req fuel a ns acc = .ok fwd → SortedS a.g.preds (acc.map (·.1)) ns →
      FwdOK a acc →
      FwdOK a fwd ∧ ∀ n, (n ∈ acc.map (·.1) ∨ n ∈ ns) → ∃ f, alGet fwd n = some f
  | [], acc, fwd, h, _, hok => by
    rw [forwardScopes] at h
    cases h
    refine ⟨hok, fun n hn => ?_⟩
    rcases hn with hn | hn
    · exact alGet_some_of_mem acc n hn
    · cases hn
  | n :: ns, acc, fwd, h, hs, hok => by
    rw [forwardScopes] at h
    split at h
    · cases h
    · rename_i scopes hscopes
      simp only at h
      have hmap : ((acc ++ [(n, (reduceOpt (fun x y => x.filter fun k => y.contains k)
          scopes).getD [])]).map (·.1)) = acc.map (·.1) ++ [n] := by simp
      suffices hok' : FwdOK a (acc ++ [(n, (reduceOpt (fun x y => x.filter fun k => y.contains k)
          scopes).getD [])]) by
        obtain ⟨h1, h2⟩ := forwardScopes_spec hacy fuel a ns _ fwd h
          (by rw [hmap]; exact hs.tail) hok'
        refine ⟨h1, fun m hm => h2 m ?_⟩
        rw [hmap]
        rcases hm with hm | hm
        · exact .inl (List.mem_append_left _ hm)
        · rcases List.mem_cons.1 hm with rfl | hm
          · exact .inl (List.mem_append_right _ List.mem_cons_self)
          · exact .inr hm
      · -- the extended accumulator is still described
        intro m f hm k hk
        rcases alGet_snoc acc n m _ f hm with hm | ⟨_, rfl, rfl⟩
        · rcases hok m f hm k hk with h0 | ⟨t, p, fp, htp, hfp, hkp, hc⟩
          · exact .inl h0
          · exact .inr ⟨t, p, fp, htp, alGet_append_of_some acc _ p fp hfp, hkp, hc⟩
        · rcases not_mem_reduce hk with h0 | ⟨y, hy, hky⟩
          · exact .inl (mapR_nil_iff hscopes h0)
          · right
            obtain ⟨es, hes, hf⟩ := mapR_mem_out hscopes y hy
            simp only at hf
            split at hf
            · cases hf
            · rename_i c hc
              split at hf
              · cases hf
              · rename_i more hmore
                cases hf
                have hp : es.2 ∈ a.g.preds m := List.mem_map.2 ⟨es, hes, rfl⟩
                obtain ⟨fp, hfp⟩ := alGet_some_of_mem acc es.2 (hs.head es.2 hp)
                rw [hfp, Option.getD_some, List.mem_append, not_or] at hky
                rw [hfp, Option.getD_some] at hmore
                refine ⟨es.1, es.2, fp, hes, alGet_append_of_some acc _ es.2 fp hfp, hky.1, ?_⟩
                intro c' hc' hkc
                rw [hc] at hc'
                cases hc'
                have spec := c12_all_any_fuel req hacy _ _ _ _ hmore
                exact hky.2 ((spec.exact k).2 (Needed.root hkc hky.1))

/-! ### backward scopes -/

/-- What is known of the backward scopes computed so far. -/
def BwdOK (a : Automaton K P) (acc : List (Nat × List K)) : Prop :=
  ∀ n b, alGet acc n = some b → ∀ t d, (t, d) ∈ a.g.outEdges n → ∀ w, a.g.weight? d = some w →
    (∀ m ∈ w.matches_, ∀ k ∈ m.2, k ∈ b) ∧ ∃ bd, alGet acc d = some bd ∧ ∀ k ∈ bd, k ∈ b

omit [DecidableEq K] in
theorem backwardScopes_spec (a : Automaton K P) :
    ∀ (ns : List Nat) (acc bwd : List (Nat × List K)),
      backwardScopes a ns acc = .ok bwd → SortedS a.g.succs (acc.map (·.1)) ns →
      BwdOK a acc →
      BwdOK a bwd ∧ ∀ n, (n ∈ acc.map (·.1) ∨ n ∈ ns) → ∃ b, alGet bwd n = some b
  | [], acc, bwd, h, _, hok => by
    rw [backwardScopes] at h
    cases h
    refine ⟨hok, fun n hn => ?_⟩
    rcases hn with hn | hn
    · exact alGet_some_of_mem acc n hn
    · cases hn
  | n :: ns, acc, bwd, h, hs, hok => by
    rw [backwardScopes] at h
    split at h
    · cases h
    · rename_i scopes hscopes
      have hmap : ((acc ++ [(n, scopes.flatten)]).map (·.1)) = acc.map (·.1) ++ [n] := by simp
      suffices hok' : BwdOK a (acc ++ [(n, scopes.flatten)]) by
        obtain ⟨h1, h2⟩ := backwardScopes_spec a ns _ bwd h (by rw [hmap]; exact hs.tail) hok'
        refine ⟨h1, fun m hm => h2 m ?_⟩
        rw [hmap]
        rcases hm with hm | hm
        · exact .inl (List.mem_append_left _ hm)
        · rcases List.mem_cons.1 hm with rfl | hm
          · exact .inl (List.mem_append_right _ List.mem_cons_self)
          · exact .inr hm
      · intro m b hm t d htd w hw
        rcases alGet_snoc acc n m _ b hm with hm | ⟨_, rfl, rfl⟩
        · obtain ⟨g1, bd, hbd, g2⟩ := hok m b hm t d htd w hw
          exact ⟨g1, bd, alGet_append_of_some acc _ d bd hbd, g2⟩
        · obtain ⟨y, hy, hf⟩ := mapR_mem_in hscopes (t, d) htd
          simp only at hf
          split at hf
          · cases hf
          · rename_i w' hw'
            cases hf
            have hww : w' = w := by
              have := state_ok_iff.1 hw'
              rw [hw] at this
              exact (Option.some.inj this).symm
            subst hww
            have hd : d ∈ a.g.succs m := List.mem_map.2 ⟨(t, d), htd, rfl⟩
            obtain ⟨bd, hbd⟩ := alGet_some_of_mem acc d (hs.head d hd)
            refine ⟨fun mm hmm k hk => ?_, bd, alGet_append_of_some acc _ d bd hbd, fun k hk => ?_⟩
            · exact List.mem_flatten.2 ⟨_, hy, List.mem_append_right _
                (List.mem_flatMap.2 ⟨mm, hmm, hk⟩)⟩
            · refine List.mem_flatten.2 ⟨_, hy, List.mem_append_left _ ?_⟩
              rw [hbd]; exact hk

/-! ### `setScopes` -/

/-- The final scope of `n` contains the intersection of its forward and backward scopes. -/
theorem setScopes_keeps {req : K → List K} (fuel : Nat) (fwd bwd : List (Nat × List K)) :
    ∀ (ns : List Nat) (a a' : Automaton K P), ns.Nodup →
      setScopes req fuel fwd bwd a ns = .ok a' → ∀ n ∈ ns, ∀ w', a'.g.weight? n = some w' →
      ∀ f b, alGet fwd n = some f → alGet bwd n = some b → ∀ k ∈ f, k ∈ b → k ∈ w'.scope
  | [], _, _, _, _, n, hn => by cases hn
  | m :: ns, a, a', hnd, h, n, hn => by
    rw [List.nodup_cons] at hnd
    obtain ⟨f, b, cs, more, a1, hf, hb, _, _, hmod, hrest⟩ := setScopes_cons_ok h
    rcases List.mem_cons.1 hn with rfl | hn
    · intro w' hw' f' b' hf' hb' k hkf hkb
      rw [hf] at hf'; cases hf'
      rw [hb] at hb'; cases hb'
      obtain ⟨hlive, _⟩ := modifyState_ok_wf hmod
      have hw := weight?_of_live hlive
      have hw1 := modifyState_weight?_self hmod hw
      have hnode := setScopes_untouched req fuel fwd bwd n ns a1 a' hnd.1 hrest
      have : a'.g.weight? n = a1.g.weight? n := by
        unfold SGraph.weight?; rw [hnode]
      rw [this, hw1] at hw'
      cases hw'
      show k ∈ _ ++ more
      refine List.mem_append_left _ (List.mem_filter.2 ⟨hkf, ?_⟩)
      simpa using hkb
    · exact setScopes_keeps fuel fwd bwd ns a1 a' hnd.2 hrest n hn

end Scopes
end Pm.C01G
