/-
Proofs/BuildLenient.lean — the lenient build `buildL` (the Rust code as it runs, without the
`make_det` model guard) versus the guarded `build`: whenever the guarded build succeeds, the
lenient one returns the same automaton, so T-BUILD transfers to every lenient run that the
guarded model accepts. The counterexample of `Proofs/BuildCex` is a run of `buildL`.
-/
import PmVerif.Proofs.BuildCex
namespace Pm
namespace Automaton
variable {K P : Type} [DecidableEq K] [DecidableEq P]
set_option linter.unusedSectionVars false

theorem makeDetL_of_makeDet {a a' : Automaton K P} {s : Nat} (h : a.makeDet s = .ok a') :
    a.makeDetL s = .ok a' := by
  unfold makeDet makeDetWith at h
  unfold makeDetL
  cases hsd : a.setDeterministic s with
  | error e => rw [hsd] at h; cases h
  | ok v =>
    obtain ⟨a0, wasDet⟩ := v
    rw [hsd] at h
    simp only at h ⊢
    by_cases hw : wasDet = true
    · rw [if_pos hw] at h ⊢; exact h
    · rw [if_neg hw] at h ⊢
      cases hf : a0.failNextState s with
      | error e => rw [hf] at h; cases h
      | ok o =>
        rw [hf] at h
        cases o with
        | none => exact h
        | some failState =>
          simp only at h ⊢
          cases h1 : a0.allTransitions failState with
          | error e => rw [h1] at h; simp only at h; cases h
          | ok failTs =>
            cases h2 : a0.corderOf s with
            | error e => rw [h1, h2] at h; simp only at h; cases h
            | ok cts =>
              cases h3 : a0.state failState with
              | error e => rw [h1, h2, h3] at h; simp only at h; cases h
              | ok fw =>
                rw [h1, h2, h3] at h
                simp only at h ⊢
                split at h
                · cases h
                · simpa using h

theorem iterationL_of_iteration
    {toTree : List (Constraint K P) → Option (CTree (Constraint K P))} {fuel : Nat}
    {a : Automaton K P} {s : Nat} {evs : List Ev} {r : Automaton K P × List Ev}
    (h : iteration toTree fuel a s evs = .ok r) : iterationL toTree fuel a s evs = .ok r := by
  unfold iteration at h
  unfold iterationL
  by_cases hlive : (!a.g.containsNode s) = true
  · rw [if_pos hlive] at h; cases h
  · rw [if_neg hlive] at h ⊢
    cases h1 : a.makeConstraintsUnique s evs with
    | error e => rw [h1] at h; cases h
    | ok v1 =>
      obtain ⟨a1, evs1⟩ := v1
      rw [h1] at h
      simp only at h ⊢
      cases h2 : insertConstraintTree toTree a1 s fuel with
      | error e => rw [h2] at h; cases h
      | ok v2 =>
        obtain ⟨a2, treeDet⟩ := v2
        rw [h2] at h
        simp only at h ⊢
        cases h3 : a2.makeConstraintsUnique s evs1 with
        | error e => rw [h3] at h; cases h
        | ok v3 =>
          obtain ⟨a3, evs3⟩ := v3
          rw [h3] at h
          simp only at h ⊢
          -- the two `afterDet` values agree whenever the guarded one is `.ok`
          have key : ∀ (x y : R (Automaton K P × List Ev)),
              (∀ v, x = .ok v → y = .ok v) →
              (match x with
                | .error e => .error e
                | .ok (a, evs) =>
                  match a.mergesLogged evs with
                  | .error e => .error e
                  | .ok (a, .iterEnd s' :: evs) =>
                    if s' = s then .ok (a, evs) else .error (.guard "IterEnd for another state")
                  | .ok _ => .error (.guard "missing IterEnd event")) = Except.ok r →
              (match y with
                | .error e => .error e
                | .ok (a, evs) =>
                  match a.mergesLogged evs with
                  | .error e => .error e
                  | .ok (a, .iterEnd s' :: evs) =>
                    if s' = s then .ok (a, evs) else .error (.guard "IterEnd for another state")
                  | .ok _ => .error (.guard "missing IterEnd event")) = Except.ok r := by
            intro x y hxy hx
            cases x with
            | error e => cases hx
            | ok v => rw [hxy v rfl]; exact hx
          refine key _ _ ?_ h
          intro v hv
          split at hv
          · rw [if_pos ‹_›]
            split at hv
            · split at hv
              · rw [if_pos ‹_›]
                cases hm : a3.makeDet s with
                | error e => rw [hm] at hv; cases hv
                | ok a4 =>
                  rw [hm] at hv
                  rw [makeDetL_of_makeDet hm]
                  exact hv
              · cases hv
            · exact hv
            · cases hv
          · rw [if_neg ‹_›]; exact hv

theorem mainLoopL_of_mainLoop
    {toTree : List (Constraint K P) → Option (CTree (Constraint K P))} {fuel : Nat} :
    ∀ (n : Nat) {a a' : Automaton K P} {evs : List Ev},
      mainLoop toTree fuel n a evs = .ok a' → mainLoopL toTree fuel n a evs = .ok a' := by
  intro n
  induction n with
  | zero =>
    intro a a' evs h
    cases evs with
    | nil => unfold mainLoop at h; unfold mainLoopL; exact h
    | cons e es => unfold mainLoop at h; cases h
  | succ n ih =>
    intro a a' evs h
    cases evs with
    | nil => unfold mainLoop at h; unfold mainLoopL; exact h
    | cons e es =>
      cases e with
      | topo s =>
        unfold mainLoop at h
        unfold mainLoopL
        split at h
        · cases h
        · rename_i a1 evs1 h1
          rw [iterationL_of_iteration h1]
          exact ih h
      | _ => unfold mainLoop at h; cases h

/-- Whenever the guarded build succeeds, the lenient build (the Rust code as it runs) returns the
same automaton. -/
theorem buildL_of_build
    {toTree : List (Constraint K P) → Option (CTree (Constraint K P))} {req : K → List K}
    {fuel : Nat} {patterns : List (Nat × List (Constraint K P) × List K)} {evs : List Ev}
    {A : Automaton K P} (h : build toTree req fuel patterns evs = .ok A) :
    buildL toTree req fuel patterns evs = .ok A := by
  unfold build at h
  unfold buildL
  cases h1 : addPatterns req fuel (new : Automaton K P) patterns with
  | error e => rw [h1] at h; cases h
  | ok a1 =>
    rw [h1] at h
    simp only at h ⊢
    unfold finish at h
    unfold finishL
    cases h2 : mainLoop toTree fuel evs.length a1 evs with
    | error e => rw [h2] at h; cases h
    | ok a2 =>
      rw [h2] at h
      rw [mainLoopL_of_mainLoop _ h2]
      exact h

end Automaton

namespace BuildCex

theorem buildL_eq : Automaton.buildL cexTree (fun _ => []) 10 cexPats cexEvs = .ok A := by
  rfl

/-- `build_acc` is false for the lenient build: the guard on deterministic constraint children is
needed. -/
theorem buildL_acc_counterexample :
    ∃ (toTree : List (Constraint Nat Nat) → Option (CTree (Constraint Nat Nat)))
      (patterns : List (Nat × List (Constraint Nat Nat) × List Nat)) (evs : List Ev)
      (A : Automaton Nat Nat) (σ : Constraint Nat Nat → Bool),
      Automaton.TreeOK toTree σ ∧
      Automaton.buildL toTree (fun _ => []) 10 patterns evs = .ok A ∧
      (∃ cs extra, (2, cs, extra) ∈ patterns ∧ ∀ c ∈ cs, σ c = true) ∧
      ¬ Automaton.AccDet σ A A.root 2 ∧ Automaton.AccND σ A A.root 2 :=
  ⟨cexTree, cexPats, cexEvs, A, σ, treeOK, buildL_eq,
    ⟨[cE, cF], [], by simp [cexPats], fun _ _ => rfl⟩, not_det0, nd0⟩

end BuildCex
end Pm
