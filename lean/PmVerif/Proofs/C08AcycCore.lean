/-
Proofs/C08AcycCore.lean — acyclicity as a STEP invariant of the builder, part 1: the definition
(`Acyclic a` = a rank function on state ids strictly increasing along every live transition), how
the primitive and composite edits of `Model/Automaton.lean` (described by the frame structures
`AddTransitionSpec`, `Grows`, `Shrinks`, `AddMatchSpec`, `AddMatchesSpec`, `Reflag`,
`removeState`) act on a rank function, and `new` / `add_pattern`.

Technique: a rank function can always be rescaled (`Mono.double`) and changed at a state that no
transition touches (`Mono.update_dead`), so a fresh state `n` below `p` gets rank `rank p + 1`
(after doubling: `2·rank p + 1`, strictly between `p` and everything above `p`).
Everything lives in `namespace Pm.C08A`.
-/
import PmVerif.Proofs.AutomatonLoops
import PmVerif.Proofs.BuildAddPattern
import PmVerif.Proofs.BuildDet
namespace Pm
namespace C08A
open Automaton
variable {K P : Type}

/-- `rank` increases strictly along every live transition. -/
def Mono (rank : Nat → Nat) (a : Automaton K P) : Prop :=
  ∀ t e, a.g.edge? t = some e → rank e.src < rank e.dst

/-- Acyclicity of the live graph (clause (a) of `Automaton.WF`, the hypothesis of
`Automaton.topoOrder_isSome`). -/
def Acyclic (a : Automaton K P) : Prop := ∃ rank : Nat → Nat, Mono rank a

/-- `rank` with the value at `n` replaced by `v`. -/
def upd (rank : Nat → Nat) (n v : Nat) : Nat → Nat := fun x => if x = n then v else rank x

@[simp] theorem upd_self (rank : Nat → Nat) (n v : Nat) : upd rank n v n = v := by
  unfold upd; rw [if_pos rfl]

theorem upd_ne (rank : Nat → Nat) {n x : Nat} (v : Nat) (h : x ≠ n) : upd rank n v x = rank x := by
  unfold upd; rw [if_neg h]

/-- Every transition of `a'` joins two states already joined in `a`. -/
theorem Mono.of_sub {rank : Nat → Nat} {a a' : Automaton K P} (m : Mono rank a)
    (h : ∀ t e, a'.g.edge? t = some e →
      ∃ t0 e0, a.g.edge? t0 = some e0 ∧ e0.src = e.src ∧ e0.dst = e.dst) : Mono rank a' := by
  intro t e he
  obtain ⟨t0, e0, he0, hs, hd⟩ := h t e he
  rw [← hs, ← hd]
  exact m t0 e0 he0

theorem Mono.of_edge_eq {rank : Nat → Nat} {a a' : Automaton K P} (m : Mono rank a)
    (h : ∀ t, a'.g.edge? t = a.g.edge? t) : Mono rank a' :=
  fun t e he => m t e (by rw [← h]; exact he)

theorem Mono.double {rank : Nat → Nat} {a : Automaton K P} (m : Mono rank a) :
    Mono (fun x => 2 * rank x) a := by
  intro t e he
  have := m t e he
  show 2 * rank e.src < 2 * rank e.dst
  omega

/-- The rank of a state that no transition touches is arbitrary. -/
theorem Mono.update_dead {rank : Nat → Nat} {a : Automaton K P} (m : Mono rank a) (inv : Inv a)
    {n : Nat} (hn : ¬ a.Live n) (v : Nat) : Mono (upd rank n v) a := by
  intro t e he
  obtain ⟨h1, h2⟩ := inv.src_ne_of_dead hn he
  rw [upd_ne rank v h1, upd_ne rank v h2]
  exact m t e he

/-! ### the frame structures -/

/-- `add_transition(p, c)`: the fresh child `ch` gets any rank above `rank p`. -/
theorem Mono.addTransition {rank : Nat → Nat} {a a' : Automaton K P} {p ch e : Nat}
    {c : Option (Constraint K P)} (m : Mono rank a) (inv : Inv a)
    (sp : AddTransitionSpec a a' p ch c e) {v : Nat} (hv : rank p < v) :
    Mono (upd rank ch v) a' := by
  intro t ed ht
  rw [sp.edge] at ht
  split at ht
  · cases ht
    have hp : p ≠ ch := fun h => sp.deadc (h ▸ sp.livep)
    show upd rank ch v p < upd rank ch v ch
    rw [upd_self, upd_ne rank v hp]
    exact hv
  · exact m.update_dead inv sp.deadc v t ed ht

theorem acyclic_addTransition {a a' : Automaton K P} {p ch e : Nat}
    {c : Option (Constraint K P)} (inv : Inv a) (sp : AddTransitionSpec a a' p ch c e)
    (h : Acyclic a) : Acyclic a' := by
  obtain ⟨rank, m⟩ := h
  exact ⟨_, m.addTransition inv sp (Nat.lt_succ_self _)⟩

/-- Growing the out-edges of `dst` towards states of larger rank. -/
theorem Mono.grows {rank : Nat → Nat} {a a' : Automaton K P} {dst : Nat}
    {New : Option (Constraint K P) → Nat → Prop} (m : Mono rank a) (g : Grows a a' dst New)
    (h : ∀ c d, New c d → rank dst < rank d) : Mono rank a' := by
  intro t e he
  rcases g.new t e he with h1 | ⟨_, h2, h3⟩
  · exact m t e h1
  · rw [h2]; exact h _ _ h3

theorem Mono.shrinks {rank : Nat → Nat} {a a' : Automaton K P} {S : List Nat} (m : Mono rank a)
    (sh : Shrinks a a' S) : Mono rank a' := by
  intro t e he
  rw [sh.edge] at he
  split at he
  · cases he
  · exact m t e he

theorem Mono.removeState {rank : Nat → Nat} {a : Automaton K P} (m : Mono rank a) (inv : Inv a)
    (s : Nat) : Mono rank (a.removeState s) := by
  intro t e he
  exact m t e ((SGraph.removeNode_edge? inv.wf s t e).1 he).1

theorem Mono.reflag {rank : Nat → Nat} {a a0 : Automaton K P} {s : Nat} {w : AState K}
    (m : Mono rank a) (r : Reflag a a0 s w) : Mono rank a0 :=
  m.of_edge_eq r.edge

theorem acyclic_reflag {a a0 : Automaton K P} {s : Nat} {w : AState K} (r : Reflag a a0 s w)
    (h : Acyclic a) : Acyclic a0 := by
  obtain ⟨rank, m⟩ := h
  exact ⟨rank, m.reflag r⟩

/-! ### `new`, `add_pattern` -/

theorem new_edge (t : Nat) : (new : Automaton K P).g.edge? t = none := by
  simp [new, SGraph.addNode, SGraph.empty, SGraph.edge?]

theorem acyclic_new : Acyclic (new : Automaton K P) :=
  ⟨fun _ => 0, fun t e he => by rw [new_edge] at he; cases he⟩

section Builder
variable [DecidableEq K] [DecidableEq P]
set_option linter.unusedSectionVars false

theorem acyclic_addPatternLoop {req : K → List K} {fuel : Nat} :
    ∀ (cs : List (Constraint K P)) {a a1 : Automaton K P} {s s1 : Nat} {keys keys1 : List K},
    Inv a → a.Live s → Acyclic a →
    addPatternLoop req fuel a s keys cs = .ok (a1, s1, keys1) → Inv a1 ∧ Acyclic a1
  | [], a, a1, s, s1, keys, keys1, inv, _, H, h => by
    unfold addPatternLoop at h
    cases h
    exact ⟨inv, H⟩
  | c :: cs, a, a1, s, s1, keys, keys1, inv, hs, H, h => by
    unfold addPatternLoop at h
    split at h
    · cases h
    · split at h
      · cases h
      · rename_i more _ a2 s' hadd
        obtain ⟨e, sp⟩ := addTransition_spec inv hs hadd
        exact acyclic_addPatternLoop cs sp.inv sp.live_child (acyclic_addTransition inv sp H) h

theorem acyclic_addPattern {req : K → List K} {fuel : Nat} {a a' : Automaton K P}
    {cs : List (Constraint K P)} {pid : Nat} {extra : List K} (inv : Inv a) (rs : RootSrc a)
    (H : Acyclic a) (h : addPattern req fuel a cs pid extra = .ok a') : Acyclic a' := by
  unfold addPattern at h
  split at h
  · cases h
  · split at h
    · cases h
    · rename_i a1 s1 keys1 hloop
      obtain ⟨inv1, rank, m⟩ := acyclic_addPatternLoop cs inv rs.1 H hloop
      exact ⟨rank, m.of_edge_eq (addMatch_spec inv1 h).edge⟩

theorem acyclic_addPatterns_from {req : K → List K} {fuel : Nat} :
    ∀ (ps : List (Nat × List (Constraint K P) × List K)) {a0 a : Automaton K P},
    Inv a0 → RootSrc a0 → NoDet a0 → Acyclic a0 → addPatterns req fuel a0 ps = .ok a →
      Inv a ∧ RootSrc a ∧ Acyclic a
  | [], a0, a, inv, rs, _, H, h => by
    unfold addPatterns at h
    cases h
    exact ⟨inv, rs, H⟩
  | (pid0, cs0, extra0) :: ps, a0, a, inv, rs, nd, H, h => by
    unfold addPatterns at h
    split at h
    · cases h
    · rename_i a1 hadd
      obtain ⟨inv1, _, rs1, nd1, _⟩ := addPattern_spec (σ := fun _ => true) inv rs nd hadd
      exact acyclic_addPatterns_from ps inv1 rs1 nd1 (acyclic_addPattern inv rs H hadd) h

/-- The automaton the main loop starts with: structural invariant, live source root, acyclic. -/
theorem acyclic_addPatterns {req : K → List K} {fuel : Nat}
    {ps : List (Nat × List (Constraint K P) × List K)} {a : Automaton K P}
    (h : addPatterns req fuel (new : Automaton K P) ps = .ok a) :
    Inv a ∧ RootSrc a ∧ Acyclic a := by
  obtain ⟨inv0, _, rs0, nd0, _⟩ := new_spec (K := K) (P := P)
  exact acyclic_addPatterns_from ps inv0 rs0 nd0 acyclic_new h

end Builder

end C08A
end Pm
