/-
Proofs/StrProgTree.lean — the string decomposition `charTree` satisfies `TreeHyp`
(`Proofs/StrProgDefs.lean`): the root of a returned tree carries no label, for a non-empty
constraint list the root has a labelled child, and every edge constraint of the tree is one of the
input constraints.
-/
import PmVerif.Proofs.StrProgDefs
import PmVerif.Proofs.TreeLemmas
namespace Pm
namespace StrProg
open CTree

section WithChildren
variable {C : Type}

/-- Extra invariant of the `withChildren` fold: only the root has children, and every child
constraint comes from a processed entry. -/
def ChRoot (t : CTree C) (done : List (C × List Nat)) : Prop :=
  ∀ n c m, (c, m) ∈ t.childrenAt n → n = 0 ∧ ∃ ch ∈ done, ch.1 = c

theorem chRoot_new : ChRoot (new : CTree C) [] := by
  intro n c m h
  cases n <;> simp [new, childrenAt] at h

theorem chRoot_step [DecidableEq C] {t : CTree C} {done : List (C × List Nat)} (d : D1 t done)
    (h : ChRoot t done) (ch : C × List Nat) : ChRoot (wcStep t ch) (done ++ [ch]) := by
  have g := getOrAddChild_spec d.wf d.wf.pos ch.1
  unfold wcStep
  intro n c m hm
  rw [childrenAt_addLabels] at hm
  rcases (g.children _ _ _).1 hm with e | ⟨e1, e2, -⟩
  · obtain ⟨h0, ch', hch', hc⟩ := h n c m e
    exact ⟨h0, ch', List.mem_append_left _ hch', hc⟩
  · exact ⟨e1, ch, List.mem_append_right _ (List.mem_singleton_self _), e2.symm⟩

theorem chRoot_foldl [DecidableEq C] (rest : List (C × List Nat)) {t : CTree C}
    {done : List (C × List Nat)} (d : D1 t done) (h : ChRoot t done) :
    ChRoot (rest.foldl wcStep t) (done ++ rest) := by
  induction rest generalizing t done with
  | nil => simpa using h
  | cons ch rest ih =>
    have := ih (D1_step d ch) (chRoot_step d h ch)
    simpa using this

/-- Every edge of `withChildren children` leaves the root and carries the constraint of one of
the entries. -/
theorem chRoot_withChildren [DecidableEq C] (children : List (C × List Nat)) :
    ChRoot (withChildren children) children := by
  have := chRoot_foldl children (D1_new (C := C)) chRoot_new
  simpa [withChildren_eq] using this

/-- The root of a depth-one tree carries no label. -/
theorem labelsAt_zero_withChildren [DecidableEq C] (children : List (C × List Nat)) :
    (withChildren children).labelsAt 0 = [] := by
  have d := D1_withChildren children
  rw [List.eq_nil_iff_forall_not_mem]
  intro l hl
  obtain ⟨ch, -, -, he⟩ := (d.labels 0 l).1 hl
  exact absurd (d.wf.lt _ _ _ he).1 (Nat.lt_irrefl 0)

/-- A non-empty list of singleton-labelled entries yields a labelled child of the root. -/
theorem labelled_child_withChildren [DecidableEq C] {kept : List (C × Nat)} (hne : kept ≠ []) :
    ∃ c m, (c, m) ∈ (withChildren (kept.map fun ci => (ci.1, [ci.2]))).childrenAt 0 ∧
      (withChildren (kept.map fun ci => (ci.1, [ci.2]))).labelsAt m ≠ [] := by
  have d := D1_withChildren (kept.map fun ci => (ci.1, [ci.2]))
  cases kept with
  | nil => exact absurd rfl hne
  | cons ci rest =>
    have hmem : (ci.1, [ci.2]) ∈ ((ci :: rest).map fun ci => (ci.1, [ci.2])) :=
      List.mem_map.2 ⟨ci, List.mem_cons_self .., rfl⟩
    obtain ⟨m, hm⟩ := d.present _ hmem
    refine ⟨ci.1, m, hm, ?_⟩
    have hl : ci.2 ∈ (withChildren ((ci :: rest).map fun ci => (ci.1, [ci.2]))).labelsAt m :=
      (d.labels m ci.2).2 ⟨_, hmem, List.mem_singleton_self _, hm⟩
    exact List.ne_nil_of_mem hl

end WithChildren

/-- The shape of a tree returned by `charTree`: a depth-one tree over part of the sorted
`(constraint, index)` pairs that contains the head of the sorted list. -/
theorem charTree_shape {K : Type} [DecidableEq K] (lt : K → K → Bool)
    (cs : List (Constraint K CharPred)) (t : CTree (Constraint K CharPred))
    (h : charTree lt cs = some t) :
    ∃ (kept : List (Constraint K CharPred × Nat)) (b : Bool),
      t = { withChildren (kept.map fun ci => (ci.1, [ci.2])) with makeDet := b } ∧
      (∀ x ∈ kept, x ∈ sortWithIndices (strConsLe lt) cs) ∧
      (∀ x xs, sortWithIndices (strConsLe lt) cs = x :: xs → x ∈ kept) := by
  unfold charTree at h
  split at h
  · next hemp =>
    have : cs = [] := by simpa using hemp
    subst this
    cases h
    exact ⟨[], true, rfl, (by intro _ h; cases h), (by intro _ _ h; cases h)⟩
  · simp only at h
    split at h
    · cases h
    · next first fi rest hs =>
      split at h
      · cases h
        refine ⟨(sortWithIndices (strConsLe lt) cs).take 1, false, rfl,
          fun x hx => List.mem_of_mem_take hx, ?_⟩
        intro x xs hx
        rw [hx]; simp
      · next v hv =>
        split at h
        · next k hk =>
          cases h
          refine ⟨_, true, rfl, fun x hx => (List.mem_filter.1 hx).1, ?_⟩
          intro x xs hx
          rw [hs] at hx
          cases hx
          rw [hs]
          refine List.mem_filter.2 ⟨List.mem_cons_self .., ?_⟩
          simp [hv, hk]
        · cases h

/-- `charTree` satisfies the tree hypothesis of the string-program invariant. -/
theorem treeHyp_charTree {K : Type} [DecidableEq K] (lt : K → K → Bool)
    (Q : Constraint K CharPred → Prop) : TreeHyp Q (charTree lt) := by
  intro cs tree h
  obtain ⟨kept, b, rfl, hsub, hhead⟩ := charTree_shape lt cs tree h
  have hch : ∀ n, ({ withChildren (kept.map fun ci => (ci.1, [ci.2])) with makeDet := b } :
      CTree (Constraint K CharPred)).childrenAt n =
      (withChildren (kept.map fun ci => (ci.1, [ci.2]))).childrenAt n := fun _ => rfl
  have hlb : ∀ n, ({ withChildren (kept.map fun ci => (ci.1, [ci.2])) with makeDet := b } :
      CTree (Constraint K CharPred)).labelsAt n =
      (withChildren (kept.map fun ci => (ci.1, [ci.2]))).labelsAt n := fun _ => rfl
  refine ⟨?_, ?_, ?_⟩
  · rw [hlb]; exact labelsAt_zero_withChildren _
  · intro hne
    have hk : kept ≠ [] := by
      cases hs : sortWithIndices (strConsLe lt) cs with
      | nil => exact absurd hs (sortWithIndices_ne_nil _ hne)
      | cons x xs => exact List.ne_nil_of_mem (hhead x xs hs)
    obtain ⟨c, m, hm, hl⟩ := labelled_child_withChildren hk
    exact ⟨c, m, by rw [hch]; exact hm, Or.inr (by rw [hlb]; exact hl)⟩
  · intro hQ n c n' hmem
    rw [hch] at hmem
    obtain ⟨-, ch, hch', rfl⟩ := chRoot_withChildren _ n c n' hmem
    obtain ⟨ci, hci, rfl⟩ := List.mem_map.1 hch'
    have hs := hsub ci hci
    have hin : ci.1 ∈ cs :=
      List.mem_of_getElem? ((mem_sortWithIndices (strConsLe lt) cs ci.1 ci.2).1 hs)
    exact hQ _ hin

end StrProg
end Pm
