/-
Proofs/C08Total5.lean — C08 (totality) of the builder, part 5: one iteration (`iterationWith`) and
the main loop (`mainLoopWith`) of the disciplined replay, for every event log, both with the
guarded `makeDet` and with the lenient `makeDetL`: every error is a guard error of the replay, or
an error of `add_constraint_tree` (its fuel; none for depth-one decompositions), or the fuel of
the main loop (none when the fuel is the length of the log, as in `finishWith`); `BI` is preserved.
Stated for an arbitrary error policy `A` (`Only A`), so that "never panics" (`A = NoPanic`) and
"only guard errors" (`A = IsGuard`) are instances.
Everything lives in `namespace Pm.C08`.
-/
import PmVerif.Proofs.C08Total4
namespace Pm
namespace C08
open Automaton StrProg
variable {K P : Type} [DecidableEq K] [DecidableEq P]
set_option linter.unusedSectionVars false

variable {E : Nat → Prop} {Q : Constraint K P → Prop} {A : Err → Prop}

/-- What the totality proof needs from `to_constraints_tree`: totality on constraint lists
satisfying `Q`, the hypotheses of the `SP` step lemma, and the tree contract of T-BUILD (for some
truth assignment; only its "valid labels" half matters here). -/
structure TreeFine (Q : Constraint K P → Prop)
    (toTree : List (Constraint K P) → Option (CTree (Constraint K P))) : Prop where
  tot : ∀ cs, (∀ c ∈ cs, Q c) → (toTree cs).isSome = true
  hyp : TreeHyp Q toTree
  ok : TreeOK toTree (fun _ => true)

theorem iteration_tail_only (hg : ∀ e, IsGuard e → A e) {s : Nat}
    (x : R (Automaton K P × List Ev)) (hx : Only A x)
    (hbi : ∀ a4 evs4, x = .ok (a4, evs4) → BI E Q a4) :
    Only A (match (generalizing := false) x with
      | .error e => .error e
      | .ok (a, evs) =>
        match a.mergesLoggedT evs with
        | .error e => .error e
        | .ok (a, .iterEnd s' :: evs) =>
          if s' = s then .ok (a, evs) else .error (.guard "IterEnd for another state")
        | .ok _ => .error (.guard "missing IterEnd event") : R (Automaton K P × List Ev)) ∧
    ∀ r, (match (generalizing := false) x with
      | .error e => .error e
      | .ok (a, evs) =>
        match a.mergesLoggedT evs with
        | .error e => .error e
        | .ok (a, .iterEnd s' :: evs) =>
          if s' = s then .ok (a, evs) else .error (.guard "IterEnd for another state")
        | .ok _ => .error (.guard "missing IterEnd event") : R (Automaton K P × List Ev)) = .ok r →
      BI E Q r.1 := by
  cases x with
  | error e => exact ⟨hx.error rfl, fun r h => by cases h⟩
  | ok v =>
    obtain ⟨a4, evs4⟩ := v
    have bi4 := hbi a4 evs4 rfl
    obtain ⟨hf, hb⟩ := mergesLoggedT_guardOnly evs4 bi4
    simp only
    cases hm : a4.mergesLoggedT evs4 with
    | error e => exact ⟨(hf.mono hg).error hm, fun r h => by cases h⟩
    | ok v5 =>
      obtain ⟨a5, evs5⟩ := v5
      have bi5 : BI E Q a5 := hb _ hm
      constructor
      · split
        · rename_i heq; cases heq
        · split
          · exact Only.ok _ _
          · exact Only.err (hg _ ⟨_, rfl⟩)
        · exact Only.err (hg _ ⟨_, rfl⟩)
      · intro r h
        split at h
        · cases h
        · rename_i a6 s' evs6 heq
          cases heq
          split at h
          · cases h; exact bi5
          · cases h
        · cases h

theorem afterDet_only (hg : ∀ e, IsGuard e → A e)
    {det : Automaton K P → Nat → R (Automaton K P)} (hdet : DetOK' E Q det)
    {a3 : Automaton K P} {s : Nat} (treeDet : Bool) (evs3 : List Ev) (bi3 : BI E Q a3)
    (hs3 : a3.Live s) (hle : ∀ w, a3.g.weight? s = some w → w.eorder.length ≤ 1) :
    Only A (if treeDet then
        match evs3 with
        | .detAsk s' :: .detYes s'' :: evs' =>
          if s' = s ∧ s'' = s then (det a3 s).map (·, evs')
          else .error (.guard "c5: DetAsk/DetYes for another state")
        | .detAsk s' :: evs' =>
          if s' = s then .ok (a3, evs') else .error (.guard "c5: DetAsk for another state")
        | _ => .error (.guard "c5: missing DetAsk event")
      else .ok (a3, evs3) : R (Automaton K P × List Ev)) ∧
    ∀ a4 evs4, (if treeDet then
        match evs3 with
        | .detAsk s' :: .detYes s'' :: evs' =>
          if s' = s ∧ s'' = s then (det a3 s).map (·, evs')
          else .error (.guard "c5: DetAsk/DetYes for another state")
        | .detAsk s' :: evs' =>
          if s' = s then .ok (a3, evs') else .error (.guard "c5: DetAsk for another state")
        | _ => .error (.guard "c5: missing DetAsk event")
      else .ok (a3, evs3) : R (Automaton K P × List Ev)) = .ok (a4, evs4) → BI E Q a4 := by
  obtain ⟨hfd, hbd⟩ := hdet a3 s bi3 hs3 hle
  constructor
  · split
    · split
      · split
        · cases hd : det a3 s with
          | error e => exact (hfd.mono hg).error hd
          | ok a4 => exact Only.ok _ _
        · exact Only.err (hg _ ⟨_, rfl⟩)
      · split
        · exact Only.ok _ _
        · exact Only.err (hg _ ⟨_, rfl⟩)
      · exact Only.err (hg _ ⟨_, rfl⟩)
    · exact Only.ok _ _
  · intro a4 evs4 h
    split at h
    · split at h
      · split at h
        · cases hd : det a3 s with
          | error e => rw [hd] at h; cases h
          | ok a4' =>
            rw [hd] at h
            cases h
            exact hbd _ hd
        · cases h
      · split at h
        · cases h; exact bi3
        · cases h
      · cases h
    · cases h; exact bi3

/-- **One iteration of the main loop**: every error is a guard error or an error of
`add_constraint_tree`; `BI` is preserved. -/
theorem iterationWith_only (hg : ∀ e, IsGuard e → A e)
    {det : Automaton K P → Nat → R (Automaton K P)} (hdet : DetOK' E Q det)
    {toTree : List (Constraint K P) → Option (CTree (Constraint K P))} (hT : TreeFine Q toTree)
    (fuel : Nat) (htree : TreeStepOK A toTree fuel) {a : Automaton K P} (s : Nat) (evs : List Ev)
    (bi : BI E Q a) :
    Only A (iterationWith det toTree fuel a s evs) ∧
      ∀ r, iterationWith det toTree fuel a s evs = .ok r → BI E Q r.1 := by
  unfold iterationWith
  split
  · exact ⟨Only.err (hg _ ⟨_, rfl⟩), fun r h => by cases h⟩
  · rename_i hlive
    have hs : a.Live s := by
      unfold Live; cases hx : a.g.containsNode s <;> simp_all
    have hf1 := (makeConstraintsUnique_guardOnly evs bi.inv hs).mono hg
    cases h1 : a.makeConstraintsUnique s evs with
    | error e => exact ⟨hf1.error h1, fun r h => by cases h⟩
    | ok v1 =>
      obtain ⟨a1, evs1⟩ := v1
      simp only
      obtain ⟨p1, _⟩ := makeConstraintsUnique_spec (σ := fun _ => true) bi.inv hs h1
      have bi1 : BI E Q a1 :=
        ⟨p1.inv, (p1.rootSrc bi.rs).1, sp_makeConstraintsUnique bi.inv hs bi.rs bi.sp h1⟩
      have hf2 := insertConstraintTree_only (toTree := toTree) fuel htree p1.inv p1.live_s
        (fun cs t h => (hT.ok cs t h).1)
        (fun cs hcs => hT.tot cs fun c hc => by
          obtain ⟨t, e, he, _, hw⟩ := hcs c hc
          exact bi1.sp.efrom t e c he hw)
      cases h2 : insertConstraintTree toTree a1 s fuel with
      | error e => exact ⟨hf2.error h2, fun r h => by cases h⟩
      | ok v2 =>
        obtain ⟨a2, treeDet⟩ := v2
        simp only
        obtain ⟨st2, _⟩ := insertConstraintTree_spec_of addConstraintTree_built hT.ok p1.inv
          p1.live_s h2
        have bi2 : BI E Q a2 :=
          ⟨st2.inv, st2.rootSrc bi1.rs, sp_insertConstraintTree hT.ok hT.hyp p1.inv bi1.sp h2⟩
        have hf3 := (makeConstraintsUnique_guardOnly evs1 st2.inv st2.live_s).mono hg
        cases h3 : a2.makeConstraintsUnique s evs1 with
        | error e => exact ⟨hf3.error h3, fun r h => by cases h⟩
        | ok v3 =>
          obtain ⟨a3, evs3⟩ := v3
          simp only
          obtain ⟨p3, _⟩ := makeConstraintsUnique_spec (σ := fun _ => true) st2.inv st2.live_s h3
          have bi3 : BI E Q a3 :=
            ⟨p3.inv, (p3.rootSrc bi2.rs).1,
              sp_makeConstraintsUnique st2.inv st2.live_s bi2.rs bi2.sp h3⟩
          have hu := makeConstraintsUnique_unique st2.inv st2.live_s h3
          obtain ⟨hfa, hba⟩ := afterDet_only hg hdet treeDet evs3 bi3 p3.live_s
            (eorder_le_one p3.inv hu)
          exact iteration_tail_only hg (s := s) _ hfa hba

/-! ### an iteration consumes events -/

theorem mergesLoggedT_length : ∀ (evs : List Ev) {a : Automaton K P}
    {r : Automaton K P × List Ev}, a.mergesLoggedT evs = .ok r → r.2.length ≤ evs.length := by
  intro evs
  induction evs with
  | nil => intro a r h; unfold mergesLoggedT at h; cases h; exact Nat.le_refl _
  | cons ev evs ih =>
    intro a r h
    cases ev with
    | merge n nodes =>
      unfold mergesLoggedT at h
      split at h
      · cases h
      · cases hd : a.doMerge n nodes with
        | error e => rw [hd] at h; cases h
        | ok a1 =>
          rw [hd] at h
          exact Nat.le_succ_of_le (ih h)
    | topo _ => unfold mergesLoggedT at h; cases h; exact Nat.le_refl _
    | group _ _ => unfold mergesLoggedT at h; cases h; exact Nat.le_refl _
    | detAsk _ => unfold mergesLoggedT at h; cases h; exact Nat.le_refl _
    | detYes _ => unfold mergesLoggedT at h; cases h; exact Nat.le_refl _
    | iterEnd _ => unfold mergesLoggedT at h; cases h; exact Nat.le_refl _

theorem iteration_tail_length {s : Nat} {n : Nat} (x : R (Automaton K P × List Ev))
    (hx : ∀ a4 evs4, x = .ok (a4, evs4) → evs4.length ≤ n) {r : Automaton K P × List Ev}
    (h : (match (generalizing := false) x with
      | .error e => .error e
      | .ok (a, evs) =>
        match a.mergesLoggedT evs with
        | .error e => .error e
        | .ok (a, .iterEnd s' :: evs) =>
          if s' = s then .ok (a, evs) else .error (.guard "IterEnd for another state")
        | .ok _ => .error (.guard "missing IterEnd event") : R (Automaton K P × List Ev)) = .ok r) :
    r.2.length ≤ n := by
  cases x with
  | error e => cases h
  | ok v =>
    obtain ⟨a4, evs4⟩ := v
    have h4 := hx a4 evs4 rfl
    simp only at h
    cases hm : a4.mergesLoggedT evs4 with
    | error e => rw [hm] at h; cases h
    | ok v5 =>
      have h5 := mergesLoggedT_length evs4 hm
      rw [hm] at h
      split at h
      · cases h
      · rename_i a6 s' evs6 heq
        cases heq
        split at h
        · cases h
          simp only [List.length_cons] at h5
          show evs6.length ≤ n
          omega
        · cases h
      · cases h

/-- An iteration returns a log that is not longer than the one it was given. -/
theorem iterationWith_length {det : Automaton K P → Nat → R (Automaton K P)}
    {toTree : List (Constraint K P) → Option (CTree (Constraint K P))} {fuel : Nat}
    {a : Automaton K P} {s : Nat} {evs : List Ev} (inv : Inv a)
    {r : Automaton K P × List Ev} (h : iterationWith det toTree fuel a s evs = .ok r)
    (hT : TreeOK toTree (fun _ => true)) : r.2.length ≤ evs.length := by
  unfold iterationWith at h
  split at h
  · cases h
  · rename_i hlive
    have hs : a.Live s := by
      unfold Live; cases hx : a.g.containsNode s <;> simp_all
    cases h1 : a.makeConstraintsUnique s evs with
    | error e => rw [h1] at h; cases h
    | ok v1 =>
      obtain ⟨a1, evs1⟩ := v1
      rw [h1] at h
      simp only at h
      obtain ⟨p1, pre1, hpre1⟩ := makeConstraintsUnique_spec (σ := fun _ => true) inv hs h1
      cases h2 : insertConstraintTree toTree a1 s fuel with
      | error e => rw [h2] at h; cases h
      | ok v2 =>
        obtain ⟨a2, treeDet⟩ := v2
        rw [h2] at h
        simp only at h
        obtain ⟨st2, _⟩ := insertConstraintTree_spec_of addConstraintTree_built hT p1.inv
          p1.live_s h2
        cases h3 : a2.makeConstraintsUnique s evs1 with
        | error e => rw [h3] at h; cases h
        | ok v3 =>
          obtain ⟨a3, evs3⟩ := v3
          rw [h3] at h
          simp only at h
          obtain ⟨_, pre3, hpre3⟩ :=
            makeConstraintsUnique_spec (σ := fun _ => true) st2.inv st2.live_s h3
          have hlen3 : evs3.length ≤ evs.length := by
            rw [hpre1, hpre3]
            simp only [List.length_append]
            omega
          refine iteration_tail_length (s := s) _ ?_ h
          intro a4 evs4 h4
          split at h4
          · split at h4
            · split at h4
              · cases hd : det a3 s with
                | error e => rw [hd] at h4; cases h4
                | ok a4' =>
                  rw [hd] at h4
                  cases h4
                  simp only [List.length_cons] at hlen3
                  omega
              · cases h4
            · split at h4
              · cases h4
                simp only [List.length_cons] at hlen3
                omega
              · cases h4
            · cases h4
          · cases h4
            exact hlen3

/-- **The main loop**: every error is a guard error, an error of `add_constraint_tree`, or the
fuel of the loop — which cannot run out when it is at least the length of the log. -/
theorem mainLoopWith_only (hg : ∀ e, IsGuard e → A e)
    {det : Automaton K P → Nat → R (Automaton K P)} (hdet : DetOK' E Q det)
    {toTree : List (Constraint K P) → Option (CTree (Constraint K P))} (hT : TreeFine Q toTree)
    (fuel : Nat) (htree : TreeStepOK A toTree fuel) :
    ∀ (n : Nat) {a : Automaton K P} (emitted : List Nat) (evs : List Ev), BI E Q a →
      ((∀ t, A (.fuel t)) ∨ evs.length ≤ n) →
      Only A (mainLoopWith det toTree fuel n a emitted evs) ∧
        ∀ a', mainLoopWith det toTree fuel n a emitted evs = .ok a' → BI E Q a' := by
  intro n
  induction n with
  | zero =>
    intro a emitted evs bi hmain
    cases evs with
    | nil =>
      unfold mainLoopWith
      split
      · exact ⟨Only.ok _ _, fun a' h => by cases h; exact bi⟩
      · exact ⟨Only.err (hg _ ⟨_, rfl⟩), fun a' h => by cases h⟩
    | cons e es =>
      unfold mainLoopWith
      rcases hmain with hfu | hlen
      · exact ⟨Only.err (hfu _), fun a' h => by cases h⟩
      · simp at hlen
  | succ n ih =>
    intro a emitted evs bi hmain
    cases evs with
    | nil =>
      unfold mainLoopWith
      split
      · exact ⟨Only.ok _ _, fun a' h => by cases h; exact bi⟩
      · exact ⟨Only.err (hg _ ⟨_, rfl⟩), fun a' h => by cases h⟩
    | cons e es =>
      cases e with
      | topo s =>
        unfold mainLoopWith
        split
        · exact ⟨Only.err (hg _ ⟨_, rfl⟩), fun a' h => by cases h⟩
        · obtain ⟨hf, hb⟩ := iterationWith_only hg hdet hT fuel htree s es bi
          cases hi : iterationWith det toTree fuel a s es with
          | error e => exact ⟨hf.error hi, fun a' h => by cases h⟩
          | ok v =>
            obtain ⟨a1, evs1⟩ := v
            simp only
            refine ih (s :: emitted) evs1 (hb _ hi) ?_
            rcases hmain with hfu | hlen
            · exact .inl hfu
            · right
              have := iterationWith_length bi.inv hi hT.ok
              simp only [List.length_cons] at hlen
              exact Nat.le_trans this (by omega)
      | group _ _ =>
        unfold mainLoopWith; exact ⟨Only.err (hg _ ⟨_, rfl⟩), fun a' h => by cases h⟩
      | detAsk _ =>
        unfold mainLoopWith; exact ⟨Only.err (hg _ ⟨_, rfl⟩), fun a' h => by cases h⟩
      | detYes _ =>
        unfold mainLoopWith; exact ⟨Only.err (hg _ ⟨_, rfl⟩), fun a' h => by cases h⟩
      | merge _ _ =>
        unfold mainLoopWith; exact ⟨Only.err (hg _ ⟨_, rfl⟩), fun a' h => by cases h⟩
      | iterEnd _ =>
        unfold mainLoopWith; exact ⟨Only.err (hg _ ⟨_, rfl⟩), fun a' h => by cases h⟩

end C08
end Pm
