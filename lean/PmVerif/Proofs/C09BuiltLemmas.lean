/-
Proofs/C09BuiltLemmas.lean — helpers for Props/C09Built.lean: clauses of `Automaton.WF` (C09)
that hold of EVERY automaton a successful guarded `build` returns, derived from the T-BUILD
invariant `Automaton.Inv` (`OrdersOK` + `SGraph.WF` + no live self-loop edge), from `build_accND`
and from the `populate_scopes` lemmas of Proofs/WFLemmas.
-/
import PmVerif.Props.C09
import PmVerif.Props.TBuild
namespace Pm

/-! ### the out-adjacency of a structurally well-formed graph -/

section
variable {N E : Type}

/-- On a structurally well-formed graph, the out-adjacency of `s` lists exactly the live edges
with source `s`, with their target. -/
theorem c09b_mem_outEdges {g : SGraph N E} (wf : g.WF) {s t d : Nat} :
    (t, d) ∈ g.outEdges s ↔ ∃ e, g.edge? t = some e ∧ e.src = s ∧ e.dst = d := by
  unfold SGraph.outEdges
  constructor
  · intro h
    cases hn : g.node? s with
    | none => rw [hn] at h; cases h
    | some nd =>
      rw [hn] at h
      obtain ⟨t', ht', hm⟩ := List.mem_filterMap.1 h
      cases he : g.edge? t' with
      | none => rw [he] at hm; cases hm
      | some ed =>
        rw [he] at hm
        simp only [Option.map_some, Option.some.injEq, Prod.mk.injEq] at hm
        obtain ⟨rfl, rfl⟩ := hm
        obtain ⟨ed', hed', hsrc⟩ := wf.out_edge s nd hn t' ht'
        rw [he] at hed'; cases hed'
        exact ⟨ed, he, hsrc, rfl⟩
  · rintro ⟨e, he, rfl, rfl⟩
    obtain ⟨nd, hnd, hout⟩ := wf.edge_src t e he
    rw [hnd]
    exact List.mem_filterMap.2 ⟨t, hout, by rw [he]; rfl⟩

theorem c09b_le_foldr_max (l : List Nat) : ∀ x ∈ l, x ≤ l.foldr max 0 := by
  induction l with
  | nil => intro x hx; cases hx
  | cons y ys ih =>
    intro x hx
    rw [List.foldr_cons]
    rcases List.mem_cons.1 hx with rfl | hx
    · exact Nat.le_max_left _ _
    · exact Nat.le_trans (ih x hx) (Nat.le_max_right _ _)

theorem c09b_edge?_mem {g : SGraph N E} {t : Nat} {e : GEdge E} (h : g.edge? t = some e) :
    some e ∈ g.edges := by
  unfold SGraph.edge? at h
  cases hi : g.edges[t]? with
  | none => rw [hi] at h; cases h
  | some o =>
    rw [hi] at h
    cases o with
    | none => cases h
    | some e' =>
      cases h
      exact List.mem_of_getElem? hi

/-- A rank function strictly decreasing along the (finitely many) live edges can be reversed. -/
theorem c09b_reverse_rank (g : SGraph N E) (rank : Nat → Nat)
    (h : ∀ t e, g.edge? t = some e → rank e.dst < rank e.src) :
    ∃ rank' : Nat → Nat, ∀ t e, g.edge? t = some e → rank' e.src < rank' e.dst := by
  let f : Option (GEdge E) → Nat := fun o => match o with | some e => rank e.src | none => 0
  let B := (g.edges.map f).foldr max 0
  refine ⟨fun x => B - rank x, fun t e he => ?_⟩
  have hB : rank e.src ≤ B :=
    c09b_le_foldr_max _ _ (List.mem_map.2 ⟨some e, c09b_edge?_mem he, rfl⟩)
  have := h t e he
  show B - rank e.src < B - rank e.dst
  omega

end

namespace Automaton
variable {K P : Type}

/-! ### clauses (d), (e) from `Inv` -/

/-- (d) from "no live edge with `src = dst`" on a structurally well-formed graph. -/
theorem c09b_noSelfLoop_of_inv {a : Automaton K P} (inv : Inv a) :
    ∀ s, a.g.containsNode s = true → ∀ t d, (t, d) ∈ a.g.outEdges s → d ≠ s := by
  intro s _ t d htd hds
  obtain ⟨e, he, hsrc, hdst⟩ := (c09b_mem_outEdges inv.wf).1 htd
  exact inv.noloop t e he (by rw [hsrc, hdst, hds])

/-- (e) from `OrdersOK` on a structurally well-formed graph. -/
theorem c09b_orders_of_inv {a : Automaton K P} (inv : Inv a) :
    ∀ s w, a.g.weight? s = some w →
      w.corder.Nodup ∧ w.eorder.Nodup ∧
      (∀ t, t ∈ w.corder ↔
        ∃ d e c, (t, d) ∈ a.g.outEdges s ∧ a.g.edge? t = some e ∧ e.w = some c) ∧
      (∀ t, t ∈ w.eorder ↔
        ∃ d e, (t, d) ∈ a.g.outEdges s ∧ a.g.edge? t = some e ∧ e.w = none) := by
  intro s w hw
  have hnd := inv.ok.nodup s w hw
  have hnd' := List.nodup_append.1 hnd
  refine ⟨hnd'.1, hnd'.2.1, fun t => ⟨fun ht => ?_, ?_⟩, fun t => ⟨fun ht => ?_, ?_⟩⟩
  · obtain ⟨e, he, hsrc, hsome⟩ := inv.ok.corder_edge s w hw t ht
    obtain ⟨c, hc⟩ := Option.isSome_iff_exists.1 hsome
    exact ⟨e.dst, e, c, (c09b_mem_outEdges inv.wf).2 ⟨e, he, hsrc, rfl⟩, he, hc⟩
  · rintro ⟨d, e, c, htd, he, hc⟩
    obtain ⟨e', he', hsrc, _⟩ := (c09b_mem_outEdges inv.wf).1 htd
    rw [he] at he'; cases he'
    have hl := inv.ok.edge_listed t e he w (by rw [hsrc]; exact hw)
    rcases List.mem_append.1 hl with hl | hl
    · exact hl
    · obtain ⟨e', he', _, hnone⟩ := inv.ok.eorder_edge s w hw t hl
      rw [he] at he'; cases he'
      rw [hc] at hnone; cases hnone
  · obtain ⟨e, he, hsrc, hnone⟩ := inv.ok.eorder_edge s w hw t ht
    exact ⟨e.dst, e, (c09b_mem_outEdges inv.wf).2 ⟨e, he, hsrc, rfl⟩, he,
      Option.isNone_iff_eq_none.1 hnone⟩
  · rintro ⟨d, e, htd, he, hc⟩
    obtain ⟨e', he', hsrc, _⟩ := (c09b_mem_outEdges inv.wf).1 htd
    rw [he] at he'; cases he'
    have hl := inv.ok.edge_listed t e he w (by rw [hsrc]; exact hw)
    rcases List.mem_append.1 hl with hl | hl
    · obtain ⟨e', he', _, hsome⟩ := inv.ok.corder_edge s w hw t hl
      rw [he] at he'; cases he'
      rw [hc] at hsome; cases hsome
    · exact hl

/-! ### clause (f) from acceptance at the root -/

/-- Whatever a state accepts (non-deterministic reading, any assignment) is recorded in the
`matches_` of some live state. -/
theorem c09b_accND_accepted {σ : Constraint K P → Bool} {a : Automaton K P} {s pid : Nat}
    (h : AccND σ a s pid) :
    ∃ s' w keys, a.g.weight? s' = some w ∧ (pid, keys) ∈ w.matches_ := by
  induction h with
  | here hw hm =>
    rename_i s pid w
    obtain ⟨m, hmem, rfl⟩ := List.mem_map.1 hm
    exact ⟨s, w, m.2, hw, hmem⟩
  | step _ _ _ _ _ ih => exact ih

/-! ### clause (g), second half: the builder only ever copies recorded key lists

`c09b_MFrom S a`: every recorded `(pattern id, key list)` of a live state of `a` satisfies `S`.
Every edit of Model/Automaton.lean and every loop of Model/Builder.lean preserves it, for an
arbitrary `S` (no invariant needed): weights are only changed by functions that keep `matches_`
or append a pair already recorded elsewhere; fresh states carry no pair or a copy. -/

/-- Every recorded `(pattern id, key list)` of a live state satisfies `S`. -/
def c09b_MFrom (S : Nat × List K → Prop) (a : Automaton K P) : Prop :=
  ∀ s w, a.g.weight? s = some w → ∀ m ∈ w.matches_, S m

theorem c09b_map_ok {α β : Type} {x : R α} {f : α → β} {b : β} (h : x.map f = .ok b) :
    ∃ a, x = .ok a ∧ f a = b := by
  cases x with
  | error e => cases h
  | ok a => cases h; exact ⟨a, rfl, rfl⟩

variable {S : Nat × List K → Prop}

theorem c09b_mfrom_congr {a a' : Automaton K P} (hw : ∀ j, a'.g.weight? j = a.g.weight? j)
    (H : c09b_MFrom S a) : c09b_MFrom S a' := fun s w h => H s w (hw s ▸ h)

theorem c09b_mfrom_of_matchesIn {a a' : Automaton K P} (h : MatchesIn a a' none)
    (H : c09b_MFrom S a) : c09b_MFrom S a' := by
  intro s w' hw' m hm
  rcases h s w' hw' m hm with ⟨s0, w, hw, hm0⟩ | h
  · exact H s0 w hw m hm0
  · cases h

theorem c09b_mfrom_modifyState {a a' : Automaton K P} {s : Nat} {f : AState K → AState K}
    (h : a.modifyState s f = .ok a')
    (hf : ∀ w, (∀ m ∈ w.matches_, S m) → ∀ m ∈ (f w).matches_, S m)
    (H : c09b_MFrom S a) : c09b_MFrom S a' := by
  obtain ⟨_, rfl⟩ := modifyState_ok_wf h
  intro j w' hw' m hm
  change (a.g.setWeight s f).weight? j = some w' at hw'
  rw [SGraph.weight?_setWeight] at hw'
  split at hw'
  · cases hw0 : a.g.weight? j with
    | none => rw [hw0] at hw'; cases hw'
    | some w =>
      rw [hw0] at hw'
      simp only [Option.map_some, Option.some.injEq] at hw'
      subst hw'
      exact hf w (H j w hw0) m hm
  · exact H j w' hw' m hm

theorem c09b_mfrom_modifyState_eq {a a' : Automaton K P} {s : Nat} {f : AState K → AState K}
    (h : a.modifyState s f = .ok a') (hf : ∀ w, (f w).matches_ = w.matches_)
    (H : c09b_MFrom S a) : c09b_MFrom S a' :=
  c09b_mfrom_modifyState h (fun w hw m hm => hw m (hf w ▸ hm)) H

theorem c09b_mfrom_addNode {a : Automaton K P} (w0 : AState K) (r : Nat)
    (h0 : ∀ m ∈ w0.matches_, S m) (H : c09b_MFrom S a) :
    c09b_MFrom S (⟨(a.g.addNode w0).1, r⟩ : Automaton K P) := by
  intro j w hw m hm
  change (a.g.addNode w0).1.weight? j = some w at hw
  rcases SGraph.weight?_addNode a.g w0 j with h | h
  · rw [h] at hw; cases hw; exact h0 m hm
  · rw [h] at hw; exact H j w hw m hm

theorem c09b_mfrom_setDeterministic {a a' : Automaton K P} {s : Nat} {b : Bool}
    (h : a.setDeterministic s = .ok (a', b)) (H : c09b_MFrom S a) : c09b_MFrom S a' := by
  unfold setDeterministic at h
  split at h
  · cases h
  · split at h
    · cases h
    · rename_i hm
      cases h
      exact c09b_mfrom_modifyState_eq hm (fun _ => rfl) H

theorem c09b_mfrom_appendEdge {a a' : Automaton K P} {p ch : Nat} {c : Option (Constraint K P)}
    (h : a.appendEdge p ch c = .ok a') (H : c09b_MFrom S a) : c09b_MFrom S a' :=
  c09b_mfrom_of_matchesIn (matchesIn_appendEdge h) H

theorem c09b_mfrom_addTransition {a a' : Automaton K P} {p ch : Nat}
    {c : Option (Constraint K P)} (h : a.addTransition p c = .ok (a', ch))
    (H : c09b_MFrom S a) : c09b_MFrom S a' :=
  c09b_mfrom_of_matchesIn (matchesIn_addTransition h) H

theorem c09b_mfrom_addMatch {a a' : Automaton K P} {s pid : Nat} {keys : List K}
    (h : a.addMatch s pid keys = .ok a') (hS : S (pid, keys)) (H : c09b_MFrom S a) :
    c09b_MFrom S a' := by
  intro j w' hw' m hm
  rcases matchesIn_addMatch h j w' hw' m hm with ⟨s0, w, hw, hm0⟩ | h
  · exact H s0 w hw m hm0
  · cases h; exact hS

theorem c09b_mfrom_removeTransition {a a' : Automaton K P} {t : Nat}
    {c : Option (Constraint K P)} (h : a.removeTransition t = .ok (a', c))
    (H : c09b_MFrom S a) : c09b_MFrom S a' := by
  unfold removeTransition at h
  split at h
  · cases h
  · rename_i ed hed
    split at h
    · cases h
    · rename_i w hw
      by_cases hcont : (!(if ed.w.isNone then w.eorder else w.corder).contains t) = true
      · rw [if_pos hcont] at h; cases h
      · rw [if_neg hcont] at h
        split at h
        · cases h
        · rename_i a1 hm
          split at h
          · cases h
          · rename_i g ed' hr
            cases h
            have H1 := c09b_mfrom_modifyState_eq hm (fun w => by split <;> rfl) H
            exact c09b_mfrom_congr (fun j => SGraph.removeEdge_weight? hr j) H1

theorem c09b_mfrom_removeState {a : Automaton K P} (s : Nat) (H : c09b_MFrom S a) :
    c09b_MFrom S (a.removeState s) := by
  intro j w hw m hm
  change (a.g.removeNode s).weight? j = some w at hw
  rw [SGraph.removeNode_weight?] at hw
  split at hw
  · cases hw
  · exact H j w hw m hm


theorem c09b_mfrom_rewireTarget {a a' : Automaton K P} {t n t' : Nat}
    (h : a.rewireTarget t n = .ok (a', t')) (H : c09b_MFrom S a) : c09b_MFrom S a' := by
  unfold rewireTarget at h
  split at h
  · cases h
  · rename_i g ed hr
    split at h
    · cases h
    · rename_i g2 t2 hadd
      have H2 : c09b_MFrom S (⟨g2, a.root⟩ : Automaton K P) :=
        c09b_mfrom_congr (a := a)
          (fun j => (SGraph.weight?_addEdge hadd j).trans (SGraph.removeEdge_weight? hr j)) H
      split at h
      · cases h
      · split at h
        · obtain ⟨a1, hm, he⟩ := c09b_map_ok h
          cases he
          exact c09b_mfrom_modifyState_eq hm (fun _ => rfl) H2
        · split at h
          · obtain ⟨a1, hm, he⟩ := c09b_map_ok h
            cases he
            exact c09b_mfrom_modifyState_eq hm (fun _ => rfl) H2
          · cases h

theorem c09b_mfrom_appendCopies {dst : Nat} : ∀ (ts : List Nat) {a a' : Automaton K P},
    a.appendCopies dst ts = .ok a' → c09b_MFrom S a → c09b_MFrom S a'
  | [], a, a', h, H => by
    rw [appendCopies] at h; cases h; exact H
  | t :: ts, a, a', h, H => by
    rw [appendCopies] at h
    split at h
    · split at h
      · cases h
      · rename_i a1 happ
        exact c09b_mfrom_appendCopies ts h (c09b_mfrom_appendEdge happ H)
    · cases h
    · cases h

theorem c09b_mfrom_cloneOutgoing {a a' : Automaton K P} {s other : Nat}
    (h : a.cloneOutgoing s other = .ok a') (H : c09b_MFrom S a) : c09b_MFrom S a' := by
  unfold cloneOutgoing at h
  split at h
  · cases h
  · exact c09b_mfrom_appendCopies _ h H

theorem c09b_state_ok {a : Automaton K P} {s : Nat} {w : AState K} (h : a.state s = .ok w) :
    a.g.weight? s = some w := by
  unfold state at h
  split at h
  · rename_i w' hw; cases h; exact hw
  · cases h

theorem c09b_mfrom_splitTarget {a a' : Automaton K P} {t n : Nat}
    (h : a.splitTarget t = .ok (a', n)) (H : c09b_MFrom S a) : c09b_MFrom S a' := by
  unfold splitTarget at h
  split at h
  · cases h
  · rename_i s hs
    split at h
    · cases h; exact H
    · split at h
      · cases h
      · rename_i w hw
        have hw' := c09b_state_ok hw
        have H1 := c09b_mfrom_addNode (S := S) (a := a)
          ({ matches_ := w.matches_, det := w.det } : AState K) a.root (H s w hw') H
        revert h H1
        generalize a.g.addNode ({ matches_ := w.matches_, det := w.det } : AState K) = gn
        obtain ⟨g, n'⟩ := gn
        intro h H1
        simp only at h
        split at h
        · cases h
        · rename_i a2 t2 hrw
          have H2 := c09b_mfrom_rewireTarget hrw H1
          split at h
          · cases h
          · obtain ⟨a3, hc, he⟩ := c09b_map_ok h
            cases he
            exact c09b_mfrom_appendCopies _ hc H2

theorem c09b_mfrom_moveIncomingLoop {s : Nat} : ∀ (ts : List Nat) {a a' : Automaton K P},
    a.moveIncomingLoop s ts = .ok a' → c09b_MFrom S a → c09b_MFrom S a'
  | [], a, a', h, H => by
    rw [moveIncomingLoop] at h; cases h; exact H
  | t :: ts, a, a', h, H => by
    rw [moveIncomingLoop] at h
    split at h
    · cases h
    · split at h
      · cases h
      · rename_i a1 c hrem
        split at h
        · cases h
        · rename_i a2 happ
          exact c09b_mfrom_moveIncomingLoop ts h
            (c09b_mfrom_appendEdge happ (c09b_mfrom_removeTransition hrem H))

theorem c09b_mfrom_moveIncoming {a a' : Automaton K P} {s other : Nat}
    (h : a.moveIncoming s other = .ok a') (H : c09b_MFrom S a) : c09b_MFrom S a' :=
  c09b_mfrom_moveIncomingLoop _ h H

theorem c09b_mfrom_drainLoop : ∀ (ts : List Nat) {a a' : Automaton K P}
    {acc out : List (Option (Constraint K P) × Nat)},
    a.drainLoop ts acc = .ok (a', out) → c09b_MFrom S a → c09b_MFrom S a'
  | [], a, a', acc, out, h, H => by
    rw [drainLoop] at h; cases h; exact H
  | t :: ts, a, a', acc, out, h, H => by
    rw [drainLoop] at h
    split at h
    · cases h
    · split at h
      · cases h
      · rename_i a1 c hrem
        exact c09b_mfrom_drainLoop ts h (c09b_mfrom_removeTransition hrem H)

theorem c09b_mfrom_drainConstraints {a a' : Automaton K P} {s : Nat}
    {out : List (Option (Constraint K P) × Nat)}
    (h : a.drainConstraints s = .ok (a', out)) (H : c09b_MFrom S a) : c09b_MFrom S a' := by
  unfold drainConstraints at h
  split at h
  · cases h
  · exact c09b_mfrom_drainLoop _ h H


section Builder
variable [DecidableEq K] [DecidableEq P]
set_option linter.unusedSectionVars false

theorem c09b_mfrom_removeTransitions : ∀ (ts : List Nat) {a a' : Automaton K P}
    {l l' : Option (Option (Cons K P))},
    a.removeTransitions ts l = .ok (a', l') → c09b_MFrom S a → c09b_MFrom S a'
  | [], a, a', l, l', h, H => by
    rw [removeTransitions] at h; cases h; exact H
  | t :: ts, a, a', l, l', h, H => by
    rw [removeTransitions] at h
    split at h
    · cases h
    · rename_i a1 c hrem
      exact c09b_mfrom_removeTransitions ts h (c09b_mfrom_removeTransition hrem H)

theorem c09b_mfrom_addMatches {s : Nat} : ∀ (ms : List (Nat × List K)) {a a' : Automaton K P},
    a.addMatches s ms = .ok a' → (∀ m ∈ ms, S m) → c09b_MFrom S a → c09b_MFrom S a'
  | [], a, a', h, _, H => by
    rw [addMatches] at h; cases h; exact H
  | (pid, keys) :: ms, a, a', h, hS, H => by
    rw [addMatches] at h
    split at h
    · cases h
    · rename_i a1 hadd
      exact c09b_mfrom_addMatches ms h (fun m hm => hS m (List.mem_cons_of_mem _ hm))
        (c09b_mfrom_addMatch hadd (hS _ List.mem_cons_self) H)

theorem c09b_mfrom_absorbChildren {newChild : Nat} : ∀ (olds : List Nat) {a a' : Automaton K P},
    a.absorbChildren newChild olds = .ok a' → c09b_MFrom S a → c09b_MFrom S a'
  | [], a, a', h, H => by
    rw [absorbChildren] at h; cases h; exact H
  | old :: olds, a, a', h, H => by
    rw [absorbChildren] at h
    split at h
    · cases h
    · rename_i a1 hcl
      have H1 := c09b_mfrom_cloneOutgoing hcl H
      split at h
      · cases h
      · rename_i w hw
        split at h
        · cases h
        · rename_i a2 ham
          have H2 := c09b_mfrom_addMatches _ ham (H1 old w (c09b_state_ok hw)) H1
          refine c09b_mfrom_absorbChildren olds h ?_
          split
          · exact c09b_mfrom_removeState old H2
          · exact H2

theorem c09b_mfrom_fuseGroup {a a' : Automaton K P} {s : Nat} {ts : List Nat}
    (h : a.fuseGroup s ts = .ok a') (H : c09b_MFrom S a) : c09b_MFrom S a' := by
  unfold fuseGroup at h
  split at h
  · cases h
  · split at h
    · cases h
    · cases h
    · rename_i a1 c hrem
      have H1 := c09b_mfrom_removeTransitions _ hrem H
      split at h
      · cases h
      · rename_i a2 nc hadd
        exact c09b_mfrom_absorbChildren _ h (c09b_mfrom_addTransition hadd H1)

theorem c09b_mfrom_fuseLogged {s : Nat} : ∀ (evs : List Ev) (pending : List (List Nat))
    {a a' : Automaton K P} {evs' : List Ev},
    a.fuseLogged s pending evs = .ok (a', evs') → c09b_MFrom S a → c09b_MFrom S a'
  | evs, [], a, a', evs', h, H => by
    unfold fuseLogged at h
    cases h
    exact H
  | [], p :: ps, a, a', evs', h, _ => by
    unfold fuseLogged at h
    cases h
  | ev :: evs, p :: ps, a, a', evs', h, H => by
    cases ev with
    | group s' ts =>
      unfold fuseLogged at h
      split at h
      · split at h
        · cases h
        · rename_i a1 hf
          exact c09b_mfrom_fuseLogged evs _ h (c09b_mfrom_fuseGroup hf H)
      · cases h
    | topo _ => unfold fuseLogged at h; cases h
    | detAsk _ => unfold fuseLogged at h; cases h
    | detYes _ => unfold fuseLogged at h; cases h
    | merge _ _ => unfold fuseLogged at h; cases h
    | iterEnd _ => unfold fuseLogged at h; cases h

theorem c09b_mfrom_makeConstraintsUnique {a a' : Automaton K P} {s : Nat} {evs evs' : List Ev}
    (h : a.makeConstraintsUnique s evs = .ok (a', evs')) (H : c09b_MFrom S a) :
    c09b_MFrom S a' := by
  unfold makeConstraintsUnique at h
  split at h
  · cases h
  · split at h
    · cases h
    · exact c09b_mfrom_fuseLogged _ _ h H

theorem c09b_mfrom_appendEdges {src : Nat} {children : List Nat} {c : Option (Cons K P)} :
    ∀ (inds : List Nat) {a a' : Automaton K P},
    a.appendEdges src children c inds = .ok a' → c09b_MFrom S a → c09b_MFrom S a'
  | [], a, a', h, H => by
    rw [appendEdges] at h; cases h; exact H
  | i :: is, a, a', h, H => by
    rw [appendEdges] at h
    split at h
    · cases h
    · split at h
      · cases h
      · rename_i a1 happ
        exact c09b_mfrom_appendEdges is h (c09b_mfrom_appendEdge happ H)

theorem c09b_mfrom_treeChildren {tree : CTree (Cons K P)} {children : List Nat} {m : Nat} :
    ∀ (cs : List (Cons K P × Nat)) {a a' : Automaton K P} {stack stack' : List (Nat × Nat)}
      {added added' : List Nat},
    treeChildren tree children m a cs stack added = .ok (a', stack', added') →
    c09b_MFrom S a → c09b_MFrom S a'
  | [], a, a', stack, stack', added, added', h, H => by
    unfold treeChildren at h; cases h; exact H
  | (c, z) :: rest, a, a', stack, stack', added, added', h, H => by
    obtain ⟨b1, b2, stack1, hcase, happ, hrest⟩ := treeChildren_cons_inv h
    have H1 : c09b_MFrom S b1 := by
      rcases hcase with ⟨_, cm, hadd, _⟩ | ⟨_, rfl, _⟩
      · exact c09b_mfrom_addTransition hadd H
      · exact H
    exact c09b_mfrom_treeChildren rest hrest (c09b_mfrom_appendEdges _ happ H1)

theorem c09b_mfrom_treeLoop {tree : CTree (Cons K P)} {children : List Nat} :
    ∀ (fuel : Nat) {a a' : Automaton K P} {stack : List (Nat × Nat)} {added added' : List Nat},
    treeLoop tree children fuel a stack added = .ok (a', added') →
    c09b_MFrom S a → c09b_MFrom S a'
  | fuel, a, a', stack, added, added', h, H => by
    rcases treeLoop_inv h with ⟨_, hr⟩ | ⟨fuel', n0, m0, init, b', stack', added1, rfl, _, htc, hl⟩
    · cases hr; exact H
    · exact c09b_mfrom_treeLoop fuel' hl (c09b_mfrom_treeChildren _ htc H)

theorem c09b_mfrom_addConstraintTree {a a' : Automaton K P} {tree : CTree (Cons K P)} {s : Nat}
    {children : List Nat} {fuel : Nat} {added : List Nat}
    (h : a.addConstraintTree tree s children fuel = .ok (a', added)) (H : c09b_MFrom S a) :
    c09b_MFrom S a' := by
  unfold addConstraintTree at h
  simp only at h
  split at h
  · cases h
  · rename_i a1 happ
    exact c09b_mfrom_treeLoop _ h (c09b_mfrom_appendEdges _ happ H)

theorem c09b_mfrom_addRest {cs : List (Constraint K P)} {ch : List Nat} {f : Nat} :
    ∀ (is : List Nat) {a a' : Automaton K P},
    insertConstraintTree.addRest cs ch f a is = .ok a' → c09b_MFrom S a → c09b_MFrom S a'
  | [], a, a', h, H => by
    unfold insertConstraintTree.addRest at h; cases h; exact H
  | i :: is, a, a', h, H => by
    unfold insertConstraintTree.addRest at h
    split at h
    · split at h
      · cases h
      · rename_i a1 happ
        exact c09b_mfrom_addRest is h (c09b_mfrom_appendEdge happ H)
    · cases h

theorem c09b_mfrom_insertConstraintTree
    {toTree : List (Constraint K P) → Option (CTree (Constraint K P))}
    {a a' : Automaton K P} {s fuel : Nat} {det : Bool}
    (h : insertConstraintTree toTree a s fuel = .ok (a', det)) (H : c09b_MFrom S a) :
    c09b_MFrom S a' := by
  unfold insertConstraintTree at h
  split at h
  · cases h
  · split at h
    · cases h; exact H
    · split at h
      · cases h; exact H
      · split at h
        · cases h
        · rename_i a1 drained hdr
          have H1 := c09b_mfrom_drainConstraints hdr H
          extract_lets pairs cs ch at h
          split at h
          · cases h
          · split at h
            · cases h
            · rename_i a2 added hadd
              have H2 := c09b_mfrom_addConstraintTree hadd H1
              extract_lets notAdded at h
              split at h
              · cases h; exact H2
              · split at h
                · cases h
                · rename_i a3 f h1
                  obtain ⟨a4, hrest, he⟩ := c09b_map_ok h
                  cases he
                  exact c09b_mfrom_addRest _ hrest (c09b_mfrom_addTransition h1 H2)

theorem c09b_mfrom_makeDetLoop {failTs : List Nat} {fm : List (Nat × List K)}
    (hfm : ∀ m ∈ fm, S m) : ∀ (ts : List Nat) {a a' : Automaton K P},
    a.makeDetLoop failTs fm ts = .ok a' → c09b_MFrom S a → c09b_MFrom S a'
  | [], a, a', h, H => by
    rw [makeDetLoop] at h; cases h; exact H
  | t :: ts, a, a', h, H => by
    rw [makeDetLoop] at h
    split at h
    · cases h
    · rename_i a1 tgt hsp
      split at h
      · cases h
      · rename_i a2 hac
        split at h
        · cases h
        · rename_i a3 ham
          exact c09b_mfrom_makeDetLoop hfm ts h
            (c09b_mfrom_addMatches _ ham hfm
              (c09b_mfrom_appendCopies _ hac (c09b_mfrom_splitTarget hsp H)))

theorem c09b_mfrom_makeDet {a a' : Automaton K P} {s : Nat}
    (h : a.makeDet s = .ok a') (H : c09b_MFrom S a) : c09b_MFrom S a' := by
  unfold makeDet makeDetWith at h
  split at h
  · cases h
  · rename_i a0 wd hsd
    have H0 := c09b_mfrom_setDeterministic hsd H
    split at h
    · cases h; exact H0
    · split at h
      · cases h
      · cases h; exact H0
      · split at h
        · rename_i failTs cts fw hft hcts hfw
          rw [if_pos rfl] at h
          dsimp only at h
          split at h
          · cases h
          · exact c09b_mfrom_makeDetLoop (H0 _ fw (c09b_state_ok hfw)) _ h H0
        · cases h
        · cases h
        · cases h

theorem c09b_mfrom_mergeLoop {first : Nat} : ∀ (ns : List Nat) {a a' : Automaton K P},
    a.mergeLoop first ns = .ok a' → c09b_MFrom S a → c09b_MFrom S a'
  | [], a, a', h, H => by
    rw [mergeLoop] at h; cases h; exact H
  | n :: ns, a, a', h, H => by
    rw [mergeLoop] at h
    split at h
    · cases h
    · rename_i a1 hmv
      exact c09b_mfrom_mergeLoop ns h (c09b_mfrom_removeState n (c09b_mfrom_moveIncoming hmv H))

theorem c09b_mfrom_doMerge {a a' : Automaton K P} {node : Nat} {nodes : List Nat}
    (h : a.doMerge node nodes = .ok a') (H : c09b_MFrom S a) : c09b_MFrom S a' := by
  unfold doMerge at h
  split at h
  · cases h; exact H
  · cases h; exact H
  · split at h
    · cases h
    · split at h
      · cases h
      · split at h
        · cases h
        · split at h
          · cases h
          · split at h
            · cases h
            · split at h
              · cases h
              · exact c09b_mfrom_mergeLoop _ h H

theorem c09b_mfrom_mergesLogged : ∀ (evs : List Ev) {a a' : Automaton K P} {evs' : List Ev},
    a.mergesLogged evs = .ok (a', evs') → c09b_MFrom S a → c09b_MFrom S a' := by
  intro evs
  induction evs with
  | nil =>
    intro a a' evs' h H
    unfold mergesLogged at h
    cases h
    exact H
  | cons ev evs0 ih =>
    intro a a' evs' h H
    cases ev with
    | merge n nodes =>
      unfold mergesLogged at h
      split at h
      · cases h
      · rename_i a1 hdm
        exact ih h (c09b_mfrom_doMerge hdm H)
    | _ =>
      unfold mergesLogged at h
      cases h
      exact H

theorem c09b_mfrom_iteration
    {toTree : List (Constraint K P) → Option (CTree (Constraint K P))} {fuel : Nat}
    {a a' : Automaton K P} {s : Nat} {evs evs' : List Ev}
    (h : iteration toTree fuel a s evs = .ok (a', evs')) (H : c09b_MFrom S a) :
    c09b_MFrom S a' := by
  unfold iteration at h
  split at h
  · cases h
  · split at h
    · cases h
    · rename_i a1 evs1 h1
      have H1 := c09b_mfrom_makeConstraintsUnique h1 H
      split at h
      · cases h
      · rename_i a2 treeDet h2
        have H2 := c09b_mfrom_insertConstraintTree h2 H1
        split at h
        · cases h
        · rename_i a3 evs3 h3
          have H3 := c09b_mfrom_makeConstraintsUnique h3 H2
          dsimp only at h
          split at h
          · cases h
          · rename_i a4 evs4 h4
            have H4 : c09b_MFrom S a4 := by
              split at h4
              · split at h4
                · split at h4
                  · obtain ⟨a5, hm, he⟩ := c09b_map_ok h4
                    cases he
                    exact c09b_mfrom_makeDet hm H3
                  · cases h4
                · split at h4
                  · cases h4; exact H3
                  · cases h4
                · cases h4
              · cases h4; exact H3
            split at h
            · cases h
            · rename_i a5 s' evs5 h5
              split at h
              · cases h; exact c09b_mfrom_mergesLogged _ h5 H4
              · cases h
            · cases h

theorem c09b_mfrom_mainLoop
    {toTree : List (Constraint K P) → Option (CTree (Constraint K P))} {fuel : Nat} :
    ∀ (n : Nat) {a a' : Automaton K P} (evs : List Ev),
    mainLoop toTree fuel n a evs = .ok a' → c09b_MFrom S a → c09b_MFrom S a' := by
  intro n
  induction n with
  | zero =>
    intro a a' evs h H
    cases evs with
    | nil => unfold mainLoop at h; cases h; exact H
    | cons e es => unfold mainLoop at h; cases h
  | succ n ih =>
    intro a a' evs h H
    cases evs with
    | nil => unfold mainLoop at h; cases h; exact H
    | cons e es =>
      cases e with
      | topo s =>
        unfold mainLoop at h
        split at h
        · cases h
        · rename_i a1 evs1 h1
          exact ih evs1 h (c09b_mfrom_iteration h1 H)
      | _ => unfold mainLoop at h; cases h

end Builder


section Build
variable [DecidableEq K] [DecidableEq P]

omit [DecidableEq P] in
theorem c09b_mfrom_populateScopes {S : Nat × List K → Prop} {req : K → List K} {fuel : Nat}
    {a a' : Automaton K P} (h : populateScopes req fuel a = .ok a') (H : c09b_MFrom S a) :
    c09b_MFrom S a' := by
  intro s w' hw' m hm
  obtain ⟨w, hw, he⟩ := (populateScopes_sameButScope h).weight? hw'
  rw [he] at hm
  exact H s w hw m hm

omit [DecidableEq P] in
theorem c09b_mfrom_addPatterns {S : Nat × List K → Prop} {req : K → List K}
    (hacy : RankAcyclic req) (fuel : Nat) :
    ∀ (ps : List (Nat × List (Cons K P) × List K)) (a a' : Automaton K P),
      (∀ p ∈ ps, ∀ keys, prereqOrdered req keys = true → S (p.1, keys)) →
      addPatterns req fuel a ps = .ok a' → c09b_MFrom S a → c09b_MFrom S a'
  | [], a, a', _, h, H => by
    rw [addPatterns] at h; cases h; exact H
  | (pid, cs, extra) :: ps, a, a', hS, h, H => by
    rw [addPatterns] at h
    split at h
    · cases h
    · rename_i a1 hadd
      refine c09b_mfrom_addPatterns hacy fuel ps a1 a'
        (fun p hp => hS p (List.mem_cons_of_mem _ hp)) h ?_
      intro s w hw m hm
      rcases addPattern_matches hacy hadd s w hw m hm with ⟨s0, w0, hw0, hm0⟩ | ⟨hpid, ho⟩
      · exact H s0 w0 hw0 m hm0
      · have := hS (pid, cs, extra) List.mem_cons_self m.2 ho
        rw [← hpid] at this
        exact this

/-- Every `(pattern id, key list)` recorded in a built automaton satisfies any `S` that holds of
`(pid, keys)` for every compiled pattern id `pid` and every prerequisite-ordered `keys`. Needs no
hypothesis on the tree decomposition. -/
theorem c09b_mfrom_build {S : Nat × List K → Prop}
    {toTree : List (Constraint K P) → Option (CTree (Constraint K P))} {req : K → List K}
    (hacy : RankAcyclic req) {fuel : Nat}
    {patterns : List (Nat × List (Constraint K P) × List K)} {evs : List Ev} {A : Automaton K P}
    (h : build toTree req fuel patterns evs = .ok A)
    (hS : ∀ p ∈ patterns, ∀ keys, prereqOrdered req keys = true → S (p.1, keys)) :
    c09b_MFrom S A := by
  unfold build at h
  split at h
  · cases h
  · rename_i a1 h1
    have H1 : c09b_MFrom S a1 := by
      refine c09b_mfrom_addPatterns hacy fuel patterns new a1 hS h1 ?_
      intro s w hw m hm
      rw [new_no_matches s w hw] at hm
      cases hm
    unfold finish at h
    split at h
    · cases h
    · rename_i a2 h2
      exact c09b_mfrom_populateScopes h (c09b_mfrom_mainLoop _ _ h2 H1)

/-- The root of a built automaton is live and has no incoming transition. -/
theorem c09b_build_rootSrc {σ : Constraint K P → Bool}
    {toTree : List (Constraint K P) → Option (CTree (Constraint K P))} (L : StepLemmas σ toTree)
    {req : K → List K} {fuel : Nat} {patterns : List (Nat × List (Constraint K P) × List K)}
    {evs : List Ev} {A : Automaton K P} (h : build toTree req fuel patterns evs = .ok A) :
    A.g.containsNode A.root = true ∧ ∀ t e, A.g.edge? t = some e → e.dst ≠ A.root := by
  unfold build at h
  split at h
  · cases h
  · rename_i a1 h1
    obtain ⟨inv1, _, rs1, nd1, _⟩ := addPatterns_spec (σ := σ) h1
    have g1 : Good σ a1 := ⟨inv1, rs1, detOKE_of_noDet nd1⟩
    unfold finish at h
    split at h
    · cases h
    · rename_i a2 h2
      obtain ⟨g2, _, _⟩ := mainLoop_keeps L _ _ g1 h2
      have hs := populateScopes_sameButScope h
      refine ⟨?_, fun t e he => ?_⟩
      · rw [hs.root, hs.containsNode]; exact g2.rs.1
      · rw [hs.edge?] at he
        rw [hs.root]
        exact g2.rs.2 t e he

end Build

end Automaton
end Pm
