/-
Proofs/C01GenPG.lean — the port-graph instance of the generic soundness theorem: the atom system
of `pgDomain` / `pgTree` and the map laws of the association-list map.

An `isNotEqual` constraint `first ∉ {k₁, …, kₙ}` is the conjunction of its binary inequalities
`first ≠ kᵢ` (`pgAtoms`); every other constraint is its own atom. `PGPredicate::conditioned`
(`pgCond`) only ever removes inequalities that are atoms of satisfied constraints, so the powerset
decomposition is faithful for every assignment of the form "all atoms belong to a set"
(`pgCond_law_atoms`, `pgTree_faithful_atoms`) — with no hypothesis on bindings, hosts or roots, in
particular for MULTI-ROOT patterns.
-/
import PmVerif.Proofs.C01GenBuilt
import PmVerif.Proofs.C01GenRun
import PmVerif.Props.TPG
import PmVerif.Props.C14
import PmVerif.Proofs.PGProgScopes
namespace Pm.C01G
open Automaton CTree

/-! ### evaluation by values -/

section Vals
variable {K V P H M : Type}

theorem sat_iff_vals (get : M → K → Option V) (check : P → H → List V → Option Bool)
    (c : Constraint K P) (h : H) (m : M) :
    satOrFalse get check c h m = some true ↔
      ∃ vs, c.args.map (get m) = vs.map some ∧ check c.pred h vs = some true := by
  unfold satOrFalse isSatisfied isSatisfiedLog
  constructor
  · intro hs
    cases hr : resolveArgs get m c.args with
    | error e => rw [hr] at hs; simp at hs
    | ok vs =>
      rw [hr] at hs
      exact ⟨vs, (c16_resolve_ok get m c.args vs).1 hr, hs⟩
  · rintro ⟨vs, hb, hc⟩
    rw [(c16_resolve_ok get m c.args vs).2 hb]
    exact hc

theorem map_some_of_bound (get : K → Option V) :
    ∀ ks : List K, (∀ k ∈ ks, (get k).isSome = true) → ∃ vs : List V, ks.map get = vs.map some
  | [], _ => ⟨[], rfl⟩
  | k :: ks, h => by
    obtain ⟨v, hv⟩ := Option.isSome_iff_exists.1 (h k List.mem_cons_self)
    obtain ⟨vs, hvs⟩ := map_some_of_bound get ks fun k' hk' => h k' (List.mem_cons_of_mem _ hk')
    exact ⟨v :: vs, by simp [hv, hvs]⟩

theorem mem_of_map_some {get : K → Option V} {ks : List K} {vs : List V}
    (h : ks.map get = vs.map some) : (∀ k ∈ ks, ∃ v ∈ vs, get k = some v) ∧
      ∀ v ∈ vs, ∃ k ∈ ks, get k = some v := by
  constructor
  · intro k hk
    have : get k ∈ vs.map some := by rw [← h]; exact List.mem_map.2 ⟨k, hk, rfl⟩
    obtain ⟨v, hv, e⟩ := List.mem_map.1 this
    exact ⟨v, hv, e.symm⟩
  · intro v hv
    have : some v ∈ ks.map get := by rw [h]; exact List.mem_map.2 ⟨v, hv, rfl⟩
    obtain ⟨k, hk, e⟩ := List.mem_map.1 this
    exact ⟨k, hk, e⟩

end Vals

/-! ### atoms of port-graph constraints -/

/-- The binary inequality `f ≠ x`. -/
def ne1 (f x : PGKey) : PGCons := ⟨.isNotEqual 1, [f, x]⟩

/-- An `isNotEqual` constraint is the conjunction of its binary inequalities; every other
constraint (and the degenerate `isNotEqual` without arguments) is its own atom. -/
def pgAtoms (c : PGCons) : List PGCons :=
  match c.pred, c.args with
  | .isNotEqual _, f :: others => others.map (ne1 f)
  | _, _ => [c]

theorem pgAtoms_ne (n : Nat) (f : PGKey) (os : List PGKey) :
    pgAtoms ⟨.isNotEqual n, f :: os⟩ = os.map (ne1 f) := rfl

theorem pgAtoms_cases (c : PGCons) :
    (∃ n f os, c = ⟨.isNotEqual n, f :: os⟩) ∨ pgAtoms c = [c] := by
  obtain ⟨p, args⟩ := c
  cases p with
  | isNotEqual n =>
    cases args with
    | nil => exact .inr rfl
    | cons f os => exact .inl ⟨n, f, os, rfl⟩
  | hasNodeWeight => exact .inr rfl
  | isConnected l r => exact .inr rfl

/-- Evaluation of an `isNotEqual` constraint: all keys are bound and the first value differs from
all the others. -/
theorem sat_ne_iff (n : Nat) (f : PGKey) (os : List PGKey) (h : PortGraph) (m : PGMap) :
    satOrFalse alGet (fun p g vs => pgCheck p g vs) (⟨.isNotEqual n, f :: os⟩ : PGCons) h m =
        some true ↔
      ∃ v, alGet m f = some v ∧ ∀ x ∈ os, ∃ vx, alGet m x = some vx ∧ vx ≠ v := by
  rw [sat_iff_vals]
  constructor
  · rintro ⟨vs, hb, hc⟩
    cases vs with
    | nil => simp at hb
    | cons v vs =>
      simp only [List.map_cons, List.cons.injEq] at hb
      obtain ⟨hf, hos⟩ := hb
      have hnot : v ∉ vs := by
        have : pgCheck (.isNotEqual n) h (v :: vs) = some (!vs.contains v) := rfl
        rw [this] at hc
        simpa using hc
      refine ⟨v, hf, fun x hx => ?_⟩
      obtain ⟨vx, hvx, e⟩ := (mem_of_map_some hos).1 x hx
      exact ⟨vx, e, fun e' => hnot (e' ▸ hvx)⟩
  · rintro ⟨v, hf, hos⟩
    obtain ⟨vs, hvs⟩ := map_some_of_bound (alGet m) os fun x hx => by
      obtain ⟨vx, e, _⟩ := hos x hx
      rw [e]; rfl
    refine ⟨v :: vs, by simp [hf, hvs], ?_⟩
    have hnot : v ∉ vs := by
      intro hv
      obtain ⟨x, hx, e⟩ := (mem_of_map_some hvs).2 v hv
      obtain ⟨vx, e', hne⟩ := hos x hx
      rw [e] at e'
      exact hne (Option.some.inj e').symm
    show some (!vs.contains v) = some true
    simp [hnot]

theorem sat_ne1_iff (f x : PGKey) (h : PortGraph) (m : PGMap) :
    satOrFalse alGet (fun p g vs => pgCheck p g vs) (ne1 f x) h m = some true ↔
      ∃ v vx, alGet m f = some v ∧ alGet m x = some vx ∧ vx ≠ v := by
  unfold ne1
  rw [sat_ne_iff]
  constructor
  · rintro ⟨v, hf, hos⟩
    obtain ⟨vx, e, hne⟩ := hos x List.mem_cons_self
    exact ⟨v, vx, hf, e, hne⟩
  · rintro ⟨v, vx, hf, e, hne⟩
    refine ⟨v, hf, fun x' hx' => ?_⟩
    rw [List.mem_singleton.1 hx']
    exact ⟨vx, e, hne⟩

theorem pgAtoms_args_sub (c a : PGCons) (ha : a ∈ pgAtoms c) : ∀ k ∈ a.args, k ∈ c.args := by
  rcases pgAtoms_cases c with ⟨n, f, os, rfl⟩ | hc
  · rw [pgAtoms_ne] at ha
    obtain ⟨x, hx, rfl⟩ := List.mem_map.1 ha
    intro k hk
    simp only [ne1, List.mem_cons, List.not_mem_nil, or_false] at hk
    rcases hk with rfl | rfl
    · exact List.mem_cons_self
    · exact List.mem_cons_of_mem _ hx
  · rw [hc] at ha
    rw [List.mem_singleton.1 ha]
    exact fun _ hk => hk

theorem pgAtoms_sat_atoms (c : PGCons) (h : PortGraph) (m : PGMap)
    (hs : satOrFalse alGet (fun p g vs => pgCheck p g vs) c h m = some true) :
    ∀ a ∈ pgAtoms c, satOrFalse alGet (fun p g vs => pgCheck p g vs) a h m = some true := by
  rcases pgAtoms_cases c with ⟨n, f, os, rfl⟩ | hc
  · intro a ha
    rw [pgAtoms_ne] at ha
    obtain ⟨x, hx, rfl⟩ := List.mem_map.1 ha
    obtain ⟨v, hf, hos⟩ := (sat_ne_iff n f os h m).1 hs
    obtain ⟨vx, e, hne⟩ := hos x hx
    exact (sat_ne1_iff f x h m).2 ⟨v, vx, hf, e, hne⟩
  · intro a ha
    rw [hc] at ha
    rw [List.mem_singleton.1 ha]
    exact hs

theorem pgAtoms_atoms_sat (c : PGCons) (h : PortGraph) (m : PGMap)
    (hb : ∀ k ∈ c.args, (alGet m k).isSome = true)
    (ha : ∀ a ∈ pgAtoms c, satOrFalse alGet (fun p g vs => pgCheck p g vs) a h m = some true) :
    satOrFalse alGet (fun p g vs => pgCheck p g vs) c h m = some true := by
  rcases pgAtoms_cases c with ⟨n, f, os, rfl⟩ | hc
  · obtain ⟨v, hv⟩ := Option.isSome_iff_exists.1 (hb f List.mem_cons_self)
    refine (sat_ne_iff n f os h m).2 ⟨v, hv, fun x hx => ?_⟩
    have := ha (ne1 f x) (by rw [pgAtoms_ne]; exact List.mem_map.2 ⟨x, hx, rfl⟩)
    obtain ⟨v', vx, hf, e, hne⟩ := (sat_ne1_iff f x h m).1 this
    rw [hv] at hf
    cases hf
    exact ⟨vx, e, hne⟩
  · exact ha c (by rw [hc]; exact List.mem_cons_self)

/-! ### the conditioning law for "all atoms in a set" -/

/-- The assignment "all atoms of `c` satisfy `Q`". -/
def sigQ (Q : PGCons → Bool) (c : PGCons) : Bool := (pgAtoms c).all Q

theorem sigQ_ne (Q : PGCons → Bool) (n : Nat) (f : PGKey) (os : List PGKey) :
    sigQ Q ⟨.isNotEqual n, f :: os⟩ = true ↔ ∀ k ∈ os, Q (ne1 f k) = true := by
  unfold sigQ
  rw [pgAtoms_ne, List.all_eq_true]
  constructor
  · intro h k hk
    exact h _ (List.mem_map.2 ⟨k, hk, rfl⟩)
  · intro h a ha
    obtain ⟨k, hk, rfl⟩ := List.mem_map.1 ha
    exact h k hk

/-- **The conditioning law of `pgCond` for the atom assignments**: no hypothesis on bindings. -/
theorem pgCond_law_atoms (Q : PGCons → Bool) (c : PGCons) (S : List PGCons)
    (hne : c.isNE = true) (hS : ∀ s ∈ S, s.isNE = true ∧ sigQ Q s = true) :
    (pgCond c S = none → sigQ Q c = true) ∧
    (∀ c', pgCond c S = some c' → sigQ Q c' = sigQ Q c) := by
  obtain ⟨pred, args⟩ := c
  obtain ⟨n, hn⟩ := (PGCons.isNE_iff _).1 hne
  simp only at hn
  subst hn
  cases args with
  | nil =>
    refine ⟨fun h => ?_, fun c' h => ?_⟩
    · simp [pgCond] at h
    · simp only [pgCond, Option.some.injEq] at h
      subst h; rfl
  | cons first others =>
    unfold pgCond
    simp only
    have hrem : ∀ k, k ∈ S.foldl (fun (ks : List PGKey) s =>
        match s.args with
        | f :: os => if f = first then ks.filter (fun k => !os.contains k) else ks
        | [] => ks) (others.foldl (fun s k => insertKeySet k s) []) ↔
        k ∈ others ∧ ∀ s ∈ S, ¬ pgCovered first s k := by
      intro k
      refine (pg_mem_removed_fold first S _ k).trans ?_
      rw [mem_insertKeySet_fold]
      simp
    generalize S.foldl (fun (ks : List PGKey) s =>
        match s.args with
        | f :: os => if f = first then ks.filter (fun k => !os.contains k) else ks
        | [] => ks) (others.foldl (fun s k => insertKeySet k s) []) = removed at hrem
    -- the inequalities to covered keys are atoms of satisfied constraints
    have hcov : ∀ k, k ∈ others → k ∉ removed → Q (ne1 first k) = true := by
      intro k hk hnr
      have h1 : ¬ ∀ s ∈ S, ¬ pgCovered first s k := fun h => hnr ((hrem k).2 ⟨hk, h⟩)
      have h2 : ∃ s ∈ S, pgCovered first s k := by
        apply Classical.byContradiction
        intro hne
        exact h1 (fun s hs hc => hne ⟨s, hs, hc⟩)
      obtain ⟨s, hs, os, hargs, hkos⟩ := h2
      obtain ⟨hsne, hsσ⟩ := hS s hs
      obtain ⟨n', hn'⟩ := (PGCons.isNE_iff _).1 hsne
      obtain ⟨sp, sargs⟩ := s
      simp only at hargs hn'
      subst hargs hn'
      exact (sigQ_ne Q n' first os).1 hsσ k hkos
    split
    · next hemp =>
      have hnil : removed = [] := by simpa using hemp
      refine ⟨fun _ => ?_, fun c' h => by cases h⟩
      rw [sigQ_ne]
      intro k hk
      exact hcov k hk (by rw [hnil]; simp)
    · refine ⟨fun h => (by cases h), ?_⟩
      intro c' hc'
      cases hc'
      rw [Bool.eq_iff_iff, sigQ_ne, sigQ_ne]
      constructor
      · intro hall k hk
        by_cases hr : k ∈ removed
        · exact hall k hr
        · exact hcov k hk hr
      · intro hall k hk
        exact hall k ((hrem k).1 hk).1

/-- `pgTree` is faithful for every atom assignment (both branches). -/
theorem pgTree_faithful_atoms (Q : PGCons → Bool) {cs : List PGCons} {fuel : Nat}
    {t : CTree PGCons} (h : pgTree cs fuel = some t) :
    ∀ i ∈ t.allLabels, ∀ c, cs[i]? = some c →
      (t.reachLabel (sigQ Q) i = true ↔ sigQ Q c = true) := by
  cases hs : sortWithIndices pgConsLe cs with
  | nil =>
    have : cs = [] := Classical.byContradiction fun hne => sortWithIndices_ne_nil _ hne hs
    subst this
    cases h
    exact (pgTree_new_clauses [] _).2
  | cons x xs =>
    rcases pgTree_cons_cases (fuel := fuel) hs with ⟨-, ht⟩ | ⟨hne, -⟩
    · rw [ht] at h
      obtain ⟨t0, ht0, rfl⟩ := Option.map_eq_some_iff.1 h
      intro i hi c hc
      rw [allLabels_makeDet] at hi
      rw [reachLabel_makeDet]
      obtain ⟨c', hc'⟩ := withPowerset_valid ht0 i hi
      have hc'' := (mem_sortWithIndices pgConsLe cs c' i).1 (pgKept_sub cs x.1 _ hc')
      have : c' = c := Option.some.inj (hc''.symm.trans hc)
      subst this
      have hP : ∀ s, (∃ j, (s, j) ∈ pgKept cs x.1) → s.isNE = true := by
        rintro s ⟨j, hj⟩
        exact pgKept_isNE cs x.1 _ hj
      have law : CondLawOn pgCond (sigQ Q) (fun c => ∃ i, (c, i) ∈ pgKept cs x.1) := by
        intro c S hc hSP hS
        exact pgCond_law_atoms Q c S (hP c hc) (fun s hs => ⟨hP s (hSP s hs), hS s hs⟩)
      exact withPowerset_faithful ht0 law (pgKept_nodup cs x.1) hc'
    · refine (pgTree_mutex h (fun y ys hy => ?_) _).2.1
      rw [hs] at hy
      cases hy
      exact hne

/-- Hence `TreeOK` for every atom assignment. -/
theorem pgTree_treeOK_atoms (fuelT : Nat) (Q : PGCons → Bool) :
    TreeOK (fun cs => pgTree cs fuelT) (fun c => (pgAtoms c).all Q) := by
  intro cs t ht
  exact ⟨tpg_tree_valid cs fuelT t ht, pgTree_faithful_atoms Q ht⟩

/-- **The atom system of the port-graph family**, for every host and every decomposition fuel. -/
def pgAtomSys (h : PortGraph) (fuelT : Nat) : AtomSys pgDomain h (fun cs => pgTree cs fuelT) where
  atoms := pgAtoms
  ok _ := True
  args_sub := pgAtoms_args_sub
  sat_atoms c m hs := pgAtoms_sat_atoms c h m hs
  atoms_sat c m _ hb ha := pgAtoms_atoms_sat c h m hb ha
  treeOK Q := pgTree_treeOK_atoms fuelT Q

/-! ### map laws -/

/-- The association-list map (the generic `HashMap`/`BTreeMap` `BindMap`) is lawful, whatever the
candidates the domain offers. -/
theorem assoc_lawful {K V P H : Type} [DecidableEq K] [DecidableEq V]
    (D : Domain K V P H (List (K × V))) (hmap : D.map = assocMap) (h : H) : LawfulDomain D h := by
  refine ⟨?_, ?_, ?_⟩
  · intro m k v m' hb k' v' hg
    rw [hmap] at hb hg ⊢
    exact c14_generic_keeps m m' k k' v v' hb hg
  · intro m k v m' _ hb
    rw [hmap] at hb ⊢
    show (alGet m' k).isSome = true
    rw [c14_generic_get_after_bind m m' k v hb]; rfl
  · intro m ks m' hr k hk v hg
    rw [hmap] at hr hg ⊢
    have : m' = alRetain m ks := (Option.some.inj hr).symm
    subst this
    show alGet (alRetain m ks) k = some v
    rw [c14_generic_retain, if_pos hk]
    exact hg

theorem pg_lawful (h : PortGraph) : LawfulDomain pgDomain h := assoc_lawful pgDomain rfl h

theorem pgReq_rankAcyclic : RankAcyclic pgReq := PGProg.pgReq_acyclic

end Pm.C01G
