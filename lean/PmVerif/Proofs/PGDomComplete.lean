/-
Proofs/PGDomComplete.lean — completeness half of T-DOM-PG for single-root patterns: an
embedding `φ` of `p` into `h` with `φ root = r` satisfies, under the anchored truth assignment
`pgSigmaAnch h r`, every constraint of `pgConstraints p root`. Key lemma: the host walk from `r`
follows (the image of) every line that starts at the root.
-/
import PmVerif.Proofs.PGDomSound
namespace Pm.PGDom

/-! ### Consequences of `embedsPG` -/

theorem inj_of_nodup_map {α β : Type} (f : α → β) :
    ∀ (l : List α), (l.map f).Nodup → ∀ x ∈ l, ∀ y ∈ l, f x = f y → x = y
  | [], _, x, hx, _, _, _ => by cases hx
  | a :: l, h, x, hx, y, hy, e => by
    rw [List.map_cons, List.nodup_cons] at h
    rcases List.mem_cons.1 hx with hxa | hx
    · rcases List.mem_cons.1 hy with hya | hy
      · rw [hxa, hya]
      · exact absurd (List.mem_map.2 ⟨y, hy, by rw [← e, hxa]⟩) h.1
    · rcases List.mem_cons.1 hy with hya | hy
      · exact absurd (List.mem_map.2 ⟨x, hx, by rw [e, hya]⟩) h.1
      · exact inj_of_nodup_map f l h.2 x hx y hy e

/-- The facts about an embedding that the completeness proof uses. -/
structure Emb (p h : PortGraph) (φ : List (Nat × Nat)) : Prop where
  total : ∀ x : PLink, p.portLink x.1 = some x.2 →
    (alGet φ x.1.1).isSome = true ∧ (alGet φ x.2.1).isSome = true
  inj : ∀ a b v, alGet φ a = some v → alGet φ b = some v → a = b
  pres : ∀ x : PLink, p.portLink x.1 = some x.2 → ∀ a b, alGet φ x.1.1 = some a →
    alGet φ x.2.1 = some b → h.portExists (a, x.1.2) = true ∧ h.portLink (a, x.1.2) = some (b, x.2.2)
  live : ∀ n v, alGet φ n = some v → (h.node? v).isSome = true

theorem Emb.of_embedsPG {p h : PortGraph} {φ : List (Nat × Nat)} (hp : p.LinksOK)
    (hh : h.LinksOK) (hemb : embedsPG p h φ = true) : Emb p h φ := by
  obtain ⟨htot, hnd, hlive, hpres⟩ := (embedsPG_iff p h φ).1 hemb
  rw [linksPreserved_iff] at hpres
  refine ⟨?_, ?_, ?_, ?_⟩
  · intro x hx
    obtain ⟨h1, h2⟩ := hp.portLink_exists hx
    exact ⟨htot _ ((p.mem_nodesIter _).2 (PortGraph.node_of_portExists h1)),
      htot _ ((p.mem_nodesIter _).2 (PortGraph.node_of_portExists h2))⟩
  · intro a b v ha hb
    have := inj_of_nodup_map (·.2) φ hnd (a, v) (alGet_mem ha) (b, v) (alGet_mem hb) rfl
    exact congrArg Prod.fst this
  · intro x hx a b ha hb
    rcases PortGraph.portLink_some_mem hx with hl | hl
    · exact hpres _ hl a b ha hb
    · have := hpres _ hl b a hb ha
      exact ⟨(hh.portLink_exists this.2).2, hh.portLink_symm this.2⟩
  · intro n v hv
    exact hlive (n, v) (alGet_mem hv)

/-! ### The host walk follows a line -/

/-- `walkPathFrom` along the image of a chain of pattern links none of whose intermediate nodes
is the root. -/
theorem walkFrom_follows {p h : PortGraph} {φ : List (Nat × Nat)} (e : Emb p h φ) {root r : Nat}
    (hroot : alGet φ root = some r) :
    ∀ (rest : List PLink) (f : Nat) (l : PLink) (a : Nat),
      (∀ x ∈ l :: rest, p.portLink x.1 = some x.2) →
      (∀ (j : Nat) x y, (l :: rest)[j]? = some x → (l :: rest)[j + 1]? = some y →
        y.1 = (x.2.1, x.2.2.opposite) ∧ x.2.1 ≠ root) →
      alGet φ l.1.1 = some a → (l :: rest).length ≤ f →
      ∀ (j : Nat) x, (l :: rest)[j]? = some x → x.2.1 ≠ root →
        ∃ v, alGet φ x.2.1 = some v ∧
          ((walkPathFrom h r f (some (a, l.1.2))).map (·.2.1))[j]? = some v
  | rest, 0, l, a, _, _, _, hf, _, _, _, _ => by simp at hf
  | rest, f + 1, l, a, hlink, hch, ha, hf, j, x, hx, hxr => by
    have hl := hlink l (List.mem_cons_self ..)
    obtain ⟨b, hb⟩ := Option.isSome_iff_exists.1 (e.total l hl).2
    obtain ⟨hex, hlk⟩ := e.pres l hl a b ha hb
    rw [walkPathFrom_succ, hlk]
    simp only
    cases j with
    | zero =>
      simp only [List.getElem?_cons_zero, Option.some.injEq] at hx
      subst hx
      have hbr : b ≠ r := fun ebr => hxr (e.inj _ _ r (ebr ▸ hb) hroot)
      rw [if_neg hbr]
      exact ⟨b, hb, by simp⟩
    | succ j =>
      cases rest with
      | nil => simp at hx
      | cons l' rest' =>
        obtain ⟨hl'1, hlr⟩ := hch 0 l l' rfl rfl
        have hbr : b ≠ r := fun ebr => hlr (e.inj _ _ r (ebr ▸ hb) hroot)
        rw [if_neg hbr]
        have hl' := hlink l' (List.mem_cons_of_mem _ (List.mem_cons_self ..))
        have ha' : alGet φ l'.1.1 = some b := by rw [hl'1]; exact hb
        obtain ⟨c, hc⟩ := Option.isSome_iff_exists.1 (e.total l' hl').2
        have hex' := (e.pres l' hl' b c ha' hc).1
        have hport : (b, l.2.2.opposite) = (b, l'.1.2) := by rw [hl'1]
        rw [hport, if_pos hex']
        have ih := walkFrom_follows e hroot rest' f l' b
          (fun y hy => hlink y (List.mem_cons_of_mem _ hy))
          (fun i y z hy hz => hch (i + 1) y z (by simpa using hy) (by simpa using hz))
          ha' (by simp at hf ⊢; omega) j x (by simpa using hx) hxr
        simpa using ih

/-- **`walk_follows_line`**: for a line of the pattern that starts at the root through port
`first.1.2`, the host walk from `r = φ root` through the same port visits, at position `j + 1`,
the image of the right-hand node of the line's `j`-th link (for every link whose right-hand node
is not the root itself — where both the line and the walk end). -/
theorem walk_follows_line {p h : PortGraph} {φ : List (Nat × Nat)} (hh : h.LinksOK)
    (e : Emb p h φ) {root r : Nat} (hroot : alGet φ root = some r) {line : List PLink}
    (hline : IsLine p line) {first : PLink} (hfirst : line.head? = some first)
    (hstart : first.1.1 = root) :
    ∀ (j : Nat) x, line[j]? = some x → x.2.1 ≠ root →
      ∃ v, alGet φ x.2.1 = some v ∧ (walkPathNodes h r first.1.2)[j + 1]? = some v := by
  intro j x hx hxr
  cases line with
  | nil => cases hfirst
  | cons l rest =>
    simp only [List.head?_cons, Option.some.injEq] at hfirst
    subst hfirst
    have ha : alGet φ l.1.1 = some r := by rw [hstart]; exact hroot
    have hl := hline.link l (List.mem_cons_self ..)
    obtain ⟨b, hb⟩ := Option.isSome_iff_exists.1 (e.total l hl).2
    have hex := (e.pres l hl r b ha hb).1
    obtain ⟨v, hv, hw⟩ := walkFrom_follows e hroot rest
      (pgWalkFuel h + (l :: rest).length) l r hline.link
      (fun i y z hy hz => ⟨hline.chain i y z hy hz, by
        rw [← hstart]; exact hline.nostart i y z l rfl hy hz⟩)
      ha (by omega) j x hx hxr
    refine ⟨v, hv, ?_⟩
    have hfuel := walkPathFrom_fuel_enough hh r l.1.2 (pgWalkFuel h + (l :: rest).length)
      (by omega)
    rw [if_pos hex] at hfuel
    rw [hfuel] at hw
    simp only [walkPathNodes, walkPath, if_pos hex]
    simpa using hw

/-! ### The semantic invariant -/

/-- Every key assigned so far denotes (under the anchor `r`) the image of its node. -/
structure CompInv (h : PortGraph) (r : Nat) (φ : List (Nat × Nat)) (root : Nat)
    (n2k : List (Nat × PGKey)) : Prop where
  root : alGet n2k root = some (.root 0)
  agree : ∀ x ∈ n2k, ∃ v, alGet φ x.1 = some v ∧ pgVal h r x.2 = some v

theorem exists_vals {α : Type} (f : α → Option Nat) :
    ∀ (ks : List α), (∀ k ∈ ks, (f k).isSome = true) → ∃ vs : List Nat, ks.map f = vs.map some
  | [], _ => ⟨[], rfl⟩
  | k :: ks, h => by
    obtain ⟨vs, hvs⟩ := exists_vals f ks (fun k' hk' => h k' (List.mem_cons_of_mem _ hk'))
    obtain ⟨v, hv⟩ := Option.isSome_iff_exists.1 (h k (List.mem_cons_self ..))
    exact ⟨v :: vs, by simp [hv, hvs]⟩

theorem singleRoot_along {ri : Nat} {off : POff} {len : Nat} {ks : List PGKey}
    (h : pgSingleRootKeys (.along ri off len :: ks) = true) : ri = 0 := by
  unfold pgSingleRootKeys at h
  rw [List.all_cons, Bool.and_eq_true] at h
  cases ri with
  | zero => rfl
  | succ n => simp at h

theorem consLines_complete (p h : PortGraph) (root r : Nat) (φ : List (Nat × Nat))
    (hh : h.LinksOK) (e : Emb p h φ) (hroot : alGet φ root = some r) (cs : List PGCons)
    (hc : consLines (linePartition p root) [(root, .root 0)] [(root, 0)] [] = some cs)
    (hsr : ∀ c ∈ cs, pgSingleRootKeys c.args = true) :
    CompInv h r φ root (pgNodeKeys p root) ∧ ∀ c ∈ cs, pgSigmaAnch h r c = true := by
  rw [pgNodeKeys_eq]
  refine consLines_induct root (linePartition p root)
    (fun _ n2k cs => (∀ c ∈ cs, pgSingleRootKeys c.args = true) →
      CompInv h r φ root n2k ∧ ∀ c ∈ cs, pgSigmaAnch h r c = true)
    ?_ ?_ _ _ _ [] [] cs (fun _ h => h) (RootsOK.init root) hc ?_ hsr
  · intro line hline first ri hfirst hri done n2k cs j l lk hj hP hnone _ hsr'
    obtain ⟨inv, hsat⟩ := hP (fun c hc => hsr' c (List.mem_append_left _ hc))
    have hri0 : ri = 0 :=
      singleRoot_along (hsr' _ (List.mem_append_right _ (List.mem_singleton.2 rfl)))
    subst hri0
    have hlr : l.2.1 ≠ root := by
      intro e'
      rw [e', inv.root] at hnone
      cases hnone
    obtain ⟨v, hv, hw⟩ := walk_follows_line hh e hroot (linePartition_isLine p root line hline)
      hfirst (hri rfl) j l hj hlr
    have hval : pgVal h r (.along 0 first.1.2 (j + 1)) = some v := hw
    refine ⟨⟨alGet_append_of_some inv.root _, ?_⟩, ?_⟩
    · intro x hx
      rcases List.mem_append.1 hx with hx | hx
      · exact inv.agree x hx
      · rw [List.mem_singleton] at hx; subst hx
        exact ⟨v, hv, hval⟩
    · intro c hc
      rcases List.mem_append.1 hc with hc | hc
      · exact hsat c hc
      · rw [List.mem_singleton] at hc; subst hc
        obtain ⟨vs, hvs⟩ := exists_vals (pgVal h r) (n2k.map (·.2)) (fun k hk => by
          obtain ⟨x, hx, rfl⟩ := List.mem_map.1 hk
          obtain ⟨w, -, hw⟩ := inv.agree x hx
          rw [hw]; rfl)
        refine (sigma_ne h r _ _ _).2 ⟨v, vs, hval, hvs, ?_⟩
        intro hmem
        have : some v ∈ vs.map some := List.mem_map.2 ⟨v, hmem, rfl⟩
        rw [← hvs, List.map_map] at this
        obtain ⟨x, hx, hxv⟩ := List.mem_map.1 this
        obtain ⟨w, hw1, hw2⟩ := inv.agree x hx
        simp only [Function.comp] at hxv
        rw [hw2] at hxv
        cases hxv
        have : x.1 = l.2.1 := e.inj _ _ _ hw1 hv
        exact alGet_none_iff.1 hnone (List.mem_map.2 ⟨x, hx, this⟩)
  · intro line hline done n2k cs j l kl kr hj hP hkl hkr hsr'
    obtain ⟨inv, hsat⟩ := hP (fun c hc => hsr' c (List.mem_append_left _ hc))
    refine ⟨inv, ?_⟩
    intro c hc
    rcases List.mem_append.1 hc with hc | hc
    · exact hsat c hc
    · rw [List.mem_singleton] at hc; subst hc
      obtain ⟨a, ha1, ha2⟩ := inv.agree _ (alGet_mem hkl)
      obtain ⟨b, hb1, hb2⟩ := inv.agree _ (alGet_mem hkr)
      have hl := (linePartition_isLine p root line hline).link l (List.mem_of_getElem? hj)
      obtain ⟨hex, hlk⟩ := e.pres l hl a b ha1 hb1
      exact (sigma_conn h r _ _ _ _).2 ⟨a, b, ha2, hb2, hex, hlk⟩
  · intro _
    refine ⟨⟨by simp [alGet], ?_⟩, by simp⟩
    intro x hx
    rw [List.mem_singleton] at hx; subst hx
    exact ⟨r, hroot, rfl⟩

/-- **Completeness, core form**, together with the agreement of `φ` with the anchored values of
the keys. -/
theorem complete_core (p h : PortGraph) (root r : Nat) (cs : List PGCons)
    (φ : List (Nat × Nat)) (hp : p.LinksOK) (hh : h.LinksOK)
    (hcs : pgConstraints p root = some cs) (hsr : pgSigMultiRoot cs = false)
    (hemb : embedsPG p h φ = true) (hroot : alGet φ root = some r) :
    (∀ c ∈ cs, pgSigmaAnch h r c = true) ∧
    ∀ nk ∈ pgNodeKeys p root, ∃ v, alGet φ nk.1 = some v ∧ pgVal h r nk.2 = some v := by
  have e := Emb.of_embedsPG hp hh hemb
  obtain ⟨cs0, h0, hcase⟩ := pgConstraints_cases hcs
  have hsr' := (pgSigMultiRoot_false_iff cs).1 hsr
  have hsr0 : ∀ c ∈ cs0, pgSingleRootKeys c.args = true := by
    rcases hcase with rfl | ⟨rfl, -⟩
    · exact hsr'
    · intro c hc; cases hc
  obtain ⟨inv, hsat⟩ := consLines_complete p h root r φ hh e hroot cs0 h0 hsr0
  refine ⟨?_, inv.agree⟩
  rcases hcase with rfl | ⟨-, rfl | rfl⟩
  · exact hsat
  · intro c hc; rw [List.mem_singleton] at hc; subst hc; exact sigma_hasNodeWeight h r
  · intro c hc; rw [List.mem_singleton] at hc; subst hc; exact sigma_ne_root h r

end Pm.PGDom
