/-
Proofs/PGProgScopes.lean — `populate_scopes` on an indexing scheme that is a star scheme ON THE
KEYS SATISFYING A PREDICATE `Pk` (`StarOn req s0 Pk`: the start key `s0` satisfies `Pk` and has no
prerequisite, every other `Pk` key has the single prerequisite `s0`; nothing is assumed about the
other keys beyond rank-acyclicity). The port-graph scheme `pgReq` is such a scheme for the
single-root keys (`AnchG.SR`) with start key `root 0` — it is NOT a star scheme on all keys.
Every scope `populate_scopes` computes then has the shape `MatProg.ShP s0 Pk`: it is empty, or the
start key followed by keys different from it, and all its keys satisfy `Pk` — provided every
argument of every constraint carried by an edge satisfies `Pk` and every non-empty recorded key
list contains the start key. Relativised version of Proofs/MatProgScopes.lean (whose
`req`-independent lemmas are reused). Everything lives in `namespace Pm.PGProg`.
-/
import PmVerif.Proofs.MatProgScopes
import PmVerif.Proofs.PGProgDefs
namespace Pm
namespace PGProg
open Automaton MatProg

variable {K : Type} [DecidableEq K] {req : K → List K} {s0 : K} {Pk : K → Prop}

/-- `req` is a star scheme with centre `s0` on the keys satisfying `Pk`. -/
structure StarOn (req : K → List K) (s0 : K) (Pk : K → Prop) : Prop where
  acy : RankAcyclic req
  start : Pk s0
  req0 : req s0 = []
  reqP : ∀ k, Pk k → k ≠ s0 → req k = [s0]

omit [DecidableEq K] in
/-- From `Pk` keys only `Pk` keys are needed: the requested ones and the start key. -/
theorem needed_starOn (st : StarOn req s0 Pk) {known keys : List K} (hkeys : ∀ k ∈ keys, Pk k)
    {x : K} (h : Needed req known keys x) : (x ∈ keys ∨ x = s0) ∧ Pk x := by
  induction h with
  | root hk _ => exact ⟨.inl hk, hkeys _ hk⟩
  | @step x p _ hp _ ih =>
    have hx : x ≠ s0 := by
      intro e
      rw [e, st.req0] at hp
      cases hp
    rw [st.reqP x ih.2 hx] at hp
    rw [List.mem_singleton.1 hp]
    exact ⟨.inr rfl, st.start⟩

theorem sh_append_missingOn (st : StarOn req s0 Pk) {known keys more : List K}
    (hk : Sh s0 known) (hkeys : ∀ k ∈ keys, Pk k)
    (hm : MissingSpec req known keys more) : Sh s0 (known ++ more) := by
  rcases hk with rfl | ⟨rest, rfl, hr⟩
  · rw [List.nil_append]
    cases more with
    | nil => exact .inl rfl
    | cons x tl =>
      have hx0 : x = s0 := by
        by_cases hx : x = s0
        · exact hx
        · exfalso
          have hPx := (needed_starOn st hkeys ((hm.exact x).1 List.mem_cons_self)).2
          have h2 := (hm.order x List.mem_cons_self s0
            (by rw [st.reqP x hPx hx]; exact List.mem_singleton.2 rfl)
            (fun h => by cases h)).2
          rw [List.idxOf_cons_self] at h2
          exact Nat.not_lt_zero _ h2
      subst hx0
      exact .inr ⟨tl, rfl, (List.nodup_cons.1 hm.nodup).1⟩
  · refine .inr ⟨rest ++ more, rfl, ?_⟩
    intro h
    rcases List.mem_append.1 h with h | h
    · exact hr h
    · have hn := (hm.exact s0).1 h
      cases hn with
      | root _ hnk => exact hnk List.mem_cons_self
      | step _ _ hnk => exact hnk List.mem_cons_self

theorem shP_append_allMissingOn (st : StarOn req s0 Pk) {known keys more : List K} {fuel : Nat}
    (hk : ShP s0 Pk known) (hkeys : ∀ k ∈ keys, Pk k)
    (h : allMissingBindings req keys known fuel = some more) :
    ShP s0 Pk (known ++ more) := by
  have spec := c12_all_any_fuel req st.acy keys known fuel more h
  refine ⟨sh_append_missingOn st hk.1 hkeys spec, ?_⟩
  intro k hkm
  rcases List.mem_append.1 hkm with hkm | hkm
  · exact hk.2 k hkm
  · exact (needed_starOn st hkeys ((spec.exact k).1 hkm)).2

/-! ### Forward scopes -/

variable {P : Type}

theorem forwardScopes_shPOn (st : StarOn req s0 Pk) (fuel : Nat) (a : Automaton K P)
    (hQ : EdgeKeys Pk a) :
    ∀ (ns : List Nat) (acc fwd : List (Nat × List K)),
      forwardScopes req fuel a ns acc = .ok fwd → (∀ p ∈ acc, ShP s0 Pk p.2) →
      ∀ p ∈ fwd, ShP s0 Pk p.2
  | [], acc, fwd, h, hacc => by
    rw [forwardScopes] at h
    cases h
    exact hacc
  | n :: ns, acc, fwd, h, hacc => by
    rw [forwardScopes] at h
    split at h
    · cases h
    · rename_i scopes hscopes
      refine forwardScopes_shPOn st fuel a hQ ns _ fwd h ?_
      intro p hp
      rcases List.mem_append.1 hp with hp | hp
      · exact hacc p hp
      · rw [List.mem_singleton.1 hp]
        refine shP_reduce ?_
        intro y hy
        obtain ⟨es, _, hf⟩ := StrProg.mapR_out hscopes y hy
        simp only at hf
        split at hf
        · cases hf
        · rename_i c hc
          split at hf
          · cases hf
          · rename_i more hmore
            cases hf
            refine shP_append_allMissingOn st (alGet_getD_prop shP_nil hacc es.2) ?_ hmore
            obtain ⟨e, he, hw⟩ := constraintOf_ok_iff.1 hc
            cases c with
            | none => intro k hk; cases hk
            | some c => exact hQ es.1 e c he hw

theorem forwardScopes_get_shPOn (st : StarOn req s0 Pk) {fuel : Nat} {a : Automaton K P}
    (hQ : EdgeKeys Pk a) {ns : List Nat} {fwd : List (Nat × List K)}
    (h : forwardScopes req fuel a ns [] = .ok fwd)
    {n : Nat} {f : List K} (hf : alGet fwd n = some f) : ShP s0 Pk f := by
  obtain ⟨p, hp, hv⟩ := StrProg.alGet_some_mem hf
  exact hv ▸ forwardScopes_shPOn st fuel a hQ ns [] fwd h (fun p hp => by cases hp) p hp

/-! ### `setScopes` and `populateScopes` -/

theorem setScopes_shPOn (st : StarOn req s0 Pk) (fuel : Nat) (fwd bwd : List (Nat × List K))
    (hfwd : ∀ n f, alGet fwd n = some f → ShP s0 Pk f)
    (hbwd : ∀ n b, alGet bwd n = some b → b ≠ [] → s0 ∈ b) :
    ∀ (ns : List Nat) (a a' : Automaton K P), ns.Nodup → EdgeKeys Pk a →
      setScopes req fuel fwd bwd a ns = .ok a' →
      ∀ n ∈ ns, ∀ w, a'.g.weight? n = some w → ShP s0 Pk w.scope
  | [], _, _, _, _, _, n, hn => by cases hn
  | m :: ns, a, a', hnd, hQ, h, n, hn => by
    rw [List.nodup_cons] at hnd
    obtain ⟨f, b, cs, more, a1, hf, hb, hcs, hmore, hmod, hrest⟩ := setScopes_cons_ok h
    have hQ1 : EdgeKeys Pk a1 := by
      intro t e c he hw
      rw [(modifyState_scope hmod).edge?] at he
      exact hQ t e c he hw
    rcases List.mem_cons.1 hn with rfl | hn
    · intro w' hw'
      obtain ⟨hlive, _⟩ := modifyState_ok_wf hmod
      have hw := weight?_of_live hlive
      have hw1 := modifyState_weight?_self hmod hw
      have hnode := setScopes_untouched req fuel fwd bwd n ns a1 a' hnd.1 hrest
      have : a'.g.weight? n = a1.g.weight? n := by
        unfold SGraph.weight?; rw [hnode]
      rw [this, hw1] at hw'
      cases hw'
      show ShP s0 Pk (_ ++ more)
      refine shP_append_allMissingOn st (shP_filter (hfwd n f hf) (hbwd n b hb)) ?_ hmore
      intro k hk
      obtain ⟨c, hc, hkc⟩ := List.mem_flatMap.1 hk
      obtain ⟨t, e, he, hw⟩ := constraintsAt_mem hcs c hc
      exact hQ t e c he hw k hkc
    · exact setScopes_shPOn st fuel fwd bwd hfwd hbwd ns a1 a' hnd.2 hQ1 hrest n hn

/-- **Every scope computed by `populate_scopes` on a scheme that is a star scheme on the `Pk` keys
has the shape `ShP`**, provided every edge-constraint key satisfies `Pk` and every non-empty
recorded key list contains the start key. -/
theorem populateScopes_shPOn (st : StarOn req s0 Pk) {fuel : Nat} {a A : Automaton K P}
    (h : Automaton.populateScopes req fuel a = .ok A) (hQ : EdgeKeys Pk a)
    (hk : ∀ s w, a.g.weight? s = some w → ∀ m ∈ w.matches_, m.2 ≠ [] → s0 ∈ m.2) :
    ∀ s w, A.g.weight? s = some w → ShP s0 Pk w.scope := by
  intro s w hw
  have hsame := populateScopes_sameButScope h
  have hlive : s ∈ a.g.nodeIndices := by
    rw [SGraph.mem_nodeIndices, ← hsame.containsNode]
    exact live_of_weight? hw
  unfold populateScopes at h
  split at h
  · cases h
  · split at h
    · rename_i fwd bwd hfwd hbwd
      exact setScopes_shPOn st fuel fwd bwd
        (fun n f hf => forwardScopes_get_shPOn st hQ hfwd hf)
        (fun n b hb => backwardScopes_get_start hk hbwd hb)
        _ a A (SGraph.nodup_nodeIndices a.g) hQ h s hlive w hw
    · cases h
    · cases h

/-! ### The port-graph scheme on single-root keys -/

/-- The port-graph scheme is rank-acyclic (roots by index, then the path keys). -/
theorem pgReq_acyclic : RankAcyclic pgReq :=
  ⟨fun k => match k with | .root i => i | .along r _ _ => r + 1, fun k p hp => by
    cases k with
    | root i =>
      cases i with
      | zero => simp [pgReq] at hp
      | succ i =>
        simp only [pgReq, List.mem_singleton] at hp
        subst hp
        exact Nat.lt_succ_self i
    | along r o l =>
      simp only [pgReq, List.mem_singleton] at hp
      subst hp
      exact Nat.lt_succ_self r⟩

/-- `pgReq` is a star scheme with centre `root 0` on the single-root keys. -/
theorem pgReq_starOn : StarOn pgReq (.root 0) AnchG.SR where
  acy := pgReq_acyclic
  start := .inl rfl
  req0 := rfl
  reqP := by
    intro k hk hne
    rcases hk with rfl | ⟨p, l, rfl⟩
    · exact absurd rfl hne
    · rfl

/-- A `ShP (root 0) SR` list has the shape `AnchG.Sh` the traversal theorem asks for. -/
theorem anchSh_of_shP {ks : List PGKey} (h : ShP (.root 0) AnchG.SR ks) : AnchG.Sh ks := by
  refine ⟨h.2, ?_⟩
  rcases h.1 with h1 | ⟨rest, h1, _⟩
  · exact .inl h1
  · exact .inr ⟨rest, h1⟩

end PGProg
end Pm
