/-
Proofs/BuildAddPattern.lean — semantics of the first phase of the builder: the initial automaton
(`Automaton.new`), one `add_pattern` (a chain of fresh states below the root, ending in a match)
and the loop `addPatterns`. After the phase the root accepts exactly the ids of the patterns all
of whose constraints hold.
-/
import PmVerif.Proofs.BuildCommon
namespace Pm
namespace Automaton
variable {K P : Type}

/-- `x` reaches `s` along edges whose constraints hold under `σ`. -/
inductive HoldsPath (σ : Constraint K P → Bool) (a : Automaton K P) (s : Nat) : Nat → Prop where
  | refl : HoldsPath σ a s s
  | head {t : Nat} {e : GEdge (Option (Constraint K P))} : a.g.edge? t = some e → Holds σ e.w →
      HoldsPath σ a s e.dst → HoldsPath σ a s e.src

/-! ### `addMatch` -/

/-- After `add_match(s, pid, _)` a state gains `pid` iff it reaches `s`. -/
theorem addMatch_lang {σ : Constraint K P → Bool} {a a' : Automaton K P} {s pid : Nat}
    (inv : Inv a) (sp : AddMatchSpec a a' s pid) (x pid' : Nat) :
    AccND σ a' x pid' ↔ AccND σ a x pid' ∨ (pid' = pid ∧ HoldsPath σ a s x) := by
  obtain ⟨w, w', hw, hw', _, _, _, hm⟩ := sp.wt
  constructor
  · intro h
    refine AccND.edge_induction sp.inv.ok
      (T := fun x pid' => AccND σ a x pid' ∨ (pid' = pid ∧ HoldsPath σ a s x)) ?_ ?_ h
    · rintro y q ⟨wy, hwy, hq⟩
      by_cases hy : y = s
      · subst hy
        rw [hw'] at hwy; cases hwy
        rcases (hm q).1 hq with h1 | h1
        · exact .inl (.of_ids ⟨w, hw, h1⟩)
        · exact .inr ⟨h1, .refl⟩
      · rw [sp.wt_ne y hy] at hwy
        exact .inl (.of_ids ⟨wy, hwy, hq⟩)
    · intro t e q he hc _ ih
      rw [sp.edge] at he
      rcases ih with ih | ⟨h1, h2⟩
      · exact .inl (.of_edge inv.ok he hc ih)
      · exact .inr ⟨h1, .head he hc h2⟩
  · rintro (h | ⟨rfl, h⟩)
    · refine accND_congr inv.ok sp.inv.ok ?_ ?_ h
      · rintro y q ⟨wy, hwy, hq⟩
        by_cases hy : y = s
        · subst hy
          rw [hw] at hwy; cases hwy
          exact ⟨w', hw', (hm q).2 (.inl hq)⟩
        · exact ⟨wy, (sp.wt_ne y hy).trans hwy, hq⟩
      · intro t e he
        rw [sp.edge]; exact he
    · induction h with
      | refl => exact .of_ids ⟨w', hw', (hm _).2 (.inr rfl)⟩
      | head he hc _ ih => exact .of_edge sp.inv.ok ((sp.edge _).trans he) hc ih

theorem AddMatchSpec.live_of_live {a a' : Automaton K P} {s pid : Nat}
    (sp : AddMatchSpec a a' s pid) {x : Nat} (h : a.Live x) : a'.Live x := by
  by_cases hx : x = s
  · obtain ⟨_, w', _, hw', _⟩ := sp.wt
    exact hx ▸ live_of_weight hw'
  · obtain ⟨w, hw⟩ := live_iff.1 h
    exact live_of_weight ((sp.wt_ne x hx).trans hw)

theorem AddMatchSpec.isDet {a a' : Automaton K P} {s pid : Nat}
    (sp : AddMatchSpec a a' s pid) {x : Nat} (h : IsDet a' x) : IsDet a x := by
  obtain ⟨wx, hwx, hd⟩ := h
  by_cases hx : x = s
  · obtain ⟨w, w', hw, hw', hdet, _⟩ := sp.wt
    subst hx
    rw [hw'] at hwx; cases hwx
    exact ⟨w, hw, hdet ▸ hd⟩
  · exact ⟨wx, (sp.wt_ne x hx).symm.trans hwx, hd⟩

/-! ### `addTransition` -/

theorem AddTransitionSpec.live_of_live {a a1 : Automaton K P} {p ch e : Nat}
    {c : Option (Constraint K P)} (sp : AddTransitionSpec a a1 p ch c e) {x : Nat}
    (h : a.Live x) : a1.Live x := by
  obtain ⟨w, hw⟩ := live_iff.1 h
  have hxc : x ≠ ch := fun hx => sp.deadc (hx ▸ h)
  by_cases hxp : x = p
  · subst hxp
    refine live_of_weight (w := addOrder c e w) ?_
    rw [sp.wt, if_neg hxc, if_pos rfl, hw]; rfl
  · refine live_of_weight (w := w) ?_
    rw [sp.wt, if_neg hxc, if_neg hxp]; exact hw

theorem AddTransitionSpec.live_child {a a1 : Automaton K P} {p ch e : Nat}
    {c : Option (Constraint K P)} (sp : AddTransitionSpec a a1 p ch c e) : a1.Live ch := by
  refine live_of_weight (w := {}) ?_
  rw [sp.wt, if_pos rfl]

theorem AddTransitionSpec.isDet {a a1 : Automaton K P} {p ch e : Nat}
    {c : Option (Constraint K P)} (sp : AddTransitionSpec a a1 p ch c e) {x : Nat}
    (h : IsDet a1 x) : IsDet a x := by
  obtain ⟨wx, hwx, hd⟩ := h
  rw [sp.wt] at hwx
  split at hwx
  · cases hwx; cases hd
  · split at hwx
    · rename_i hxp
      subst hxp
      cases hwp : a.g.weight? x with
      | none => rw [hwp] at hwx; cases hwx
      | some w0 =>
        rw [hwp] at hwx; cases hwx
        rw [addOrder_det] at hd
        exact ⟨w0, hwp, hd⟩
    · exact ⟨wx, hwx, hd⟩

theorem AddTransitionSpec.old_edge {a a1 : Automaton K P} {p ch e : Nat}
    {c : Option (Constraint K P)} (sp : AddTransitionSpec a a1 p ch c e) {t : Nat}
    {ed : GEdge (Option (Constraint K P))} (h : a.g.edge? t = some ed) :
    a1.g.edge? t = some ed := by
  have hte : t ≠ e := fun hte => by rw [hte, sp.fresh] at h; cases h
  rw [sp.edge, if_neg hte]; exact h

/-- An edge of the new automaton into an old state is an old edge. -/
theorem AddTransitionSpec.edge_into_old {a a1 : Automaton K P} {p ch e : Nat}
    {c : Option (Constraint K P)} (sp : AddTransitionSpec a a1 p ch c e) {t : Nat}
    {ed : GEdge (Option (Constraint K P))} (h : a1.g.edge? t = some ed) (hl : a.Live ed.dst) :
    a.g.edge? t = some ed := by
  rw [sp.edge] at h
  split at h
  · cases h; exact absurd hl sp.deadc
  · exact h

/-- The fresh state accepts nothing, so no language changes. -/
theorem addTransition_lang {σ : Constraint K P → Bool} {a a1 : Automaton K P} {p ch e : Nat}
    {c : Option (Constraint K P)} (inv : Inv a) (sp : AddTransitionSpec a a1 p ch c e)
    (x pid : Nat) : AccND σ a1 x pid ↔ AccND σ a x pid := by
  constructor
  · intro h
    refine AccND.edge_induction sp.inv.ok (T := fun x pid => AccND σ a x pid) ?_ ?_ h
    · rintro y q ⟨wy, hwy, hq⟩
      rw [sp.wt] at hwy
      split at hwy
      · cases hwy; cases hq
      · split at hwy
        · rename_i hyp
          subst hyp
          cases hwp : a.g.weight? y with
          | none => rw [hwp] at hwy; cases hwy
          | some w0 =>
            rw [hwp] at hwy; cases hwy
            rw [addOrder_matches] at hq
            exact .of_ids ⟨w0, hwp, hq⟩
        · exact .of_ids ⟨wy, hwy, hq⟩
    · intro t ed q he hc _ ih
      rw [sp.edge] at he
      split at he
      · cases he; exact absurd ih.live sp.deadc
      · exact .of_edge inv.ok he hc ih
  · intro h
    refine accND_congr inv.ok sp.inv.ok ?_ ?_ h
    · rintro y q ⟨wy, hwy, hq⟩
      have hyc : y ≠ ch := fun hy => sp.deadc (hy ▸ live_of_weight hwy)
      by_cases hyp : y = p
      · subst hyp
        refine ⟨addOrder c e wy, ?_, ?_⟩
        · rw [sp.wt, if_neg hyc, if_pos rfl, hwy]; rfl
        · rw [addOrder_matches]; exact hq
      · refine ⟨wy, ?_, hq⟩
        rw [sp.wt, if_neg hyc, if_neg hyp]; exact hwy
    · intro t ed he
      exact sp.old_edge he

theorem addTransition_path_old {σ : Constraint K P → Bool} {a a1 : Automaton K P} {p ch e : Nat}
    {c : Constraint K P} (inv : Inv a) (sp : AddTransitionSpec a a1 p ch (some c) e) {x : Nat}
    (h : HoldsPath σ a1 ch x) (hx : x ≠ ch) : σ c = true ∧ HoldsPath σ a p x := by
  induction h with
  | refl => exact absurd rfl hx
  | @head t ed he hc _ ih =>
    rw [sp.edge] at he
    split at he
    · cases he
      exact ⟨(holds_some σ c).1 hc, .refl⟩
    · have hd : ed.dst ≠ ch := fun hd => sp.deadc (hd ▸ inv.ok.dst_live he)
      obtain ⟨h1, h2⟩ := ih hd
      exact ⟨h1, .head he hc h2⟩

theorem addTransition_path_new {σ : Constraint K P → Bool} {a a1 : Automaton K P} {p ch e : Nat}
    {c : Constraint K P} (sp : AddTransitionSpec a a1 p ch (some c) e) {x : Nat}
    (hc : σ c = true) (h : HoldsPath σ a p x) : HoldsPath σ a1 ch x := by
  induction h with
  | refl =>
    exact .head (t := e) (e := ⟨p, ch, some c⟩) (by rw [sp.edge, if_pos rfl])
      ((holds_some σ c).2 hc) .refl
  | head he hc' _ ih => exact .head (sp.old_edge he) hc' ih

/-! ### `new` -/

/-- The automaton without any state. -/
theorem inv_empty : Inv (⟨SGraph.empty, 0⟩ : Automaton K P) := by
  have hw : ∀ x, (SGraph.empty : SGraph (AState K) (Option (Constraint K P))).weight? x = none :=
    fun x => by simp [SGraph.weight?, SGraph.node?, SGraph.empty]
  have he : ∀ t, (SGraph.empty : SGraph (AState K) (Option (Constraint K P))).edge? t = none :=
    fun t => by simp [SGraph.edge?, SGraph.empty]
  refine ⟨OrdersOK.mk' SGraph.freeOK_empty ?_ ?_ ?_ ?_ ?_, SGraph.wf_empty, SGraph.freeOK_empty, ?_⟩
  · intro s w h; rw [hw] at h; cases h
  · intro s w h; rw [hw] at h; cases h
  · intro s w h; rw [hw] at h; cases h
  · intro t e h; rw [he] at h; cases h
  · intro t e h; rw [he] at h; cases h
  · intro t e h; rw [he] at h; cases h

variable [DecidableEq K] [DecidableEq P]

-- the three main statements keep both instance arguments, as `build` has them
set_option linter.unusedSectionVars false in
/-- The initial automaton. -/
theorem new_spec :
    Inv (new : Automaton K P) ∧ (new : Automaton K P).root = 0 ∧ RootSrc (new : Automaton K P) ∧
    NoDet (new : Automaton K P) ∧
    ∀ (σ : Constraint K P → Bool) pid, ¬ AccND σ (new : Automaton K P) 0 pid := by
  obtain ⟨_, hwt, hed, inv⟩ := addNode_frame (inv_empty (K := K) (P := P)) ({} : AState K) rfl rfl
  have hnew : (new : Automaton K P) =
      ⟨((SGraph.empty : SGraph (AState K) (Option (Constraint K P))).addNode {}).1, 0⟩ := rfl
  have hidx : ((SGraph.empty : SGraph (AState K) (Option (Constraint K P))).addNode {}).2 = 0 := rfl
  rw [hidx] at hwt
  have hw : ∀ x, (new : Automaton K P).g.weight? x = if x = 0 then some {} else none := by
    intro x
    rw [hnew]
    show ((SGraph.empty : SGraph (AState K) (Option (Constraint K P))).addNode {}).1.weight? x = _
    rw [hwt]
    split
    · rfl
    · simp [SGraph.weight?, SGraph.node?, SGraph.empty]
  have he : ∀ t, (new : Automaton K P).g.edge? t = none := by
    intro t
    rw [hnew]
    show ((SGraph.empty : SGraph (AState K) (Option (Constraint K P))).addNode {}).1.edge? t = _
    rw [hed]
    simp [SGraph.edge?, SGraph.empty]
  have inv' : Inv (new : Automaton K P) := by rw [hnew]; exact inv
  refine ⟨inv', rfl, ⟨?_, ?_⟩, ?_, ?_⟩
  · refine live_of_weight (w := {}) ?_
    show (new : Automaton K P).g.weight? 0 = _
    rw [hw, if_pos rfl]
  · intro t e h; rw [he] at h; cases h
  · rintro s ⟨w, hws, hd⟩
    rw [hw] at hws
    split at hws
    · cases hws; cases hd
    · cases hws
  · intro σ pid h
    rcases (accND_iff inv'.ok).1 h with ⟨w, hw0, hp⟩ | ⟨t, e, hte, _⟩
    · rw [hw, if_pos rfl] at hw0
      cases hw0; cases hp
    · rw [he] at hte; cases hte

/-! ### the chain of `add_pattern` -/

/-- Contract of `addPatternLoop` from `s` followed by `addMatch`. -/
structure ChainSpec (σ : Constraint K P → Bool) (a a' : Automaton K P) (s pid : Nat)
    (cs : List (Constraint K P)) : Prop where
  inv : Inv a'
  root : a'.root = a.root
  live : ∀ x, a.Live x → a'.Live x
  det : ∀ x, IsDet a' x → IsDet a x
  edge : ∀ t e, a'.g.edge? t = some e → a.Live e.dst → a.g.edge? t = some e
  lang : ∀ x, a.Live x → ∀ pid', AccND σ a' x pid' ↔
    AccND σ a x pid' ∨ (pid' = pid ∧ (∀ c ∈ cs, σ c = true) ∧ HoldsPath σ a s x)

omit [DecidableEq P] in
theorem addPatternLoop_spec {σ : Constraint K P → Bool} {req : K → List K} {fuel : Nat}
    {pid : Nat} : ∀ (cs : List (Constraint K P)) {a a1 a' : Automaton K P} {s s1 : Nat}
      {keys keys1 : List K}, Inv a → a.Live s →
      addPatternLoop req fuel a s keys cs = .ok (a1, s1, keys1) →
      a1.addMatch s1 pid keys1 = .ok a' → ChainSpec σ a a' s pid cs
  | [], a, a1, a', s, s1, keys, keys1, inv, _, h, hm => by
    unfold addPatternLoop at h
    cases h
    have sp := addMatch_spec inv hm
    refine ⟨sp.inv, sp.root, fun x => sp.live_of_live, fun x => sp.isDet, ?_, ?_⟩
    · intro t e he _
      rw [sp.edge] at he; exact he
    · intro x _ pid'
      rw [addMatch_lang inv sp]
      simp
  | c :: cs, a, a1, a', s, s1, keys, keys1, inv, hs, h, hm => by
    unfold addPatternLoop at h
    split at h
    · cases h
    · split at h
      · cases h
      · rename_i more _ a2 s' hadd
        obtain ⟨e, sp⟩ := addTransition_spec inv hs hadd
        have ih := addPatternLoop_spec (σ := σ) cs sp.inv sp.live_child h hm
        refine ⟨ih.inv, ih.root.trans sp.root, fun x hx => ih.live x (sp.live_of_live hx),
          fun x hx => sp.isDet (ih.det x hx), ?_, ?_⟩
        · intro t ed he hl
          exact sp.edge_into_old (ih.edge t ed he (sp.live_of_live hl)) hl
        · intro x hx pid'
          have hxc : x ≠ s' := fun hxs => sp.deadc (hxs ▸ hx)
          rw [ih.lang x (sp.live_of_live hx) pid', addTransition_lang inv sp]
          constructor
          · rintro (h1 | ⟨h1, h2, h3⟩)
            · exact .inl h1
            · obtain ⟨h4, h5⟩ := addTransition_path_old inv sp h3 hxc
              refine .inr ⟨h1, ?_, h5⟩
              intro c' hc'
              rcases List.mem_cons.1 hc' with rfl | hc'
              · exact h4
              · exact h2 c' hc'
          · rintro (h1 | ⟨h1, h2, h3⟩)
            · exact .inl h1
            · exact .inr ⟨h1, fun c' hc' => h2 c' (List.mem_cons_of_mem _ hc'),
                addTransition_path_new sp (h2 c List.mem_cons_self) h3⟩

/-! ### `addPattern`, `addPatterns` -/

set_option linter.unusedSectionVars false in
/-- One `add_pattern`: the root gains exactly `pid`, provided all constraints hold. -/
theorem addPattern_spec {σ : Constraint K P → Bool} {req : K → List K} {fuel : Nat}
    {a a' : Automaton K P} {cs : List (Constraint K P)} {pid : Nat} {extra : List K}
    (inv : Inv a) (rs : RootSrc a) (nd : NoDet a)
    (h : addPattern req fuel a cs pid extra = .ok a') :
    Inv a' ∧ a'.root = a.root ∧ RootSrc a' ∧ NoDet a' ∧
    ∀ pid', AccND σ a' a'.root pid' ↔
      AccND σ a a.root pid' ∨ (pid' = pid ∧ ∀ c ∈ cs, σ c = true) := by
  unfold addPattern at h
  split at h
  · cases h
  · split at h
    · cases h
    · rename_i a1 s1 keys1 hloop
      have ch := addPatternLoop_spec (σ := σ) cs inv rs.1 hloop h
      refine ⟨ch.inv, ch.root, ⟨?_, ?_⟩, fun x hx => nd x (ch.det x hx), ?_⟩
      · rw [ch.root]; exact ch.live _ rs.1
      · intro t e he hd
        rw [ch.root] at hd
        exact rs.2 t e (ch.edge t e he (hd ▸ rs.1)) hd
      · intro pid'
        rw [ch.root, ch.lang _ rs.1 pid']
        constructor
        · rintro (h1 | ⟨h1, h2, _⟩)
          · exact .inl h1
          · exact .inr ⟨h1, h2⟩
        · rintro (h1 | ⟨h1, h2⟩)
          · exact .inl h1
          · exact .inr ⟨h1, h2, .refl⟩

/-- `addPatterns` from any admissible starting automaton. -/
theorem addPatterns_spec_from {σ : Constraint K P → Bool} {req : K → List K} {fuel : Nat} :
    ∀ (patterns : List (Nat × List (Constraint K P) × List K)) {a0 a : Automaton K P},
      Inv a0 → RootSrc a0 → NoDet a0 → addPatterns req fuel a0 patterns = .ok a →
      Inv a ∧ a.root = a0.root ∧ RootSrc a ∧ NoDet a ∧
      ∀ pid, AccND σ a a.root pid ↔ AccND σ a0 a0.root pid ∨
        ∃ cs extra, (pid, cs, extra) ∈ patterns ∧ ∀ c ∈ cs, σ c = true
  | [], a0, a, inv, rs, nd, h => by
    unfold addPatterns at h
    cases h
    refine ⟨inv, rfl, rs, nd, fun pid => ?_⟩
    simp
  | (pid0, cs0, extra0) :: ps, a0, a, inv, rs, nd, h => by
    unfold addPatterns at h
    split at h
    · cases h
    · rename_i a1 hadd
      obtain ⟨inv1, hr1, rs1, nd1, hl1⟩ := addPattern_spec (σ := σ) inv rs nd hadd
      obtain ⟨inv2, hr2, rs2, nd2, hl2⟩ := addPatterns_spec_from (σ := σ) ps inv1 rs1 nd1 h
      refine ⟨inv2, hr2.trans hr1, rs2, nd2, fun pid => ?_⟩
      rw [hl2 pid, hl1 pid]
      constructor
      · rintro ((h1 | ⟨rfl, h2⟩) | ⟨cs, extra, hm, h2⟩)
        · exact .inl h1
        · exact .inr ⟨cs0, extra0, List.mem_cons_self, h2⟩
        · exact .inr ⟨cs, extra, List.mem_cons_of_mem _ hm, h2⟩
      · rintro (h1 | ⟨cs, extra, hm, h2⟩)
        · exact .inl (.inl h1)
        · rcases List.mem_cons.1 hm with heq | hm
          · cases heq
            exact .inl (.inr ⟨rfl, h2⟩)
          · exact .inr ⟨cs, extra, hm, h2⟩

theorem addPatterns_spec {σ : Constraint K P → Bool} {req : K → List K} {fuel : Nat}
    {patterns : List (Nat × List (Constraint K P) × List K)} {a : Automaton K P}
    (h : addPatterns req fuel (new : Automaton K P) patterns = .ok a) :
    Inv a ∧ a.root = 0 ∧ RootSrc a ∧ NoDet a ∧
    ∀ pid, AccND σ a a.root pid ↔
      ∃ cs extra, (pid, cs, extra) ∈ patterns ∧ ∀ c ∈ cs, σ c = true := by
  obtain ⟨inv0, hr0, rs0, nd0, hl0⟩ := new_spec (K := K) (P := P)
  obtain ⟨inv1, hr1, rs1, nd1, hl1⟩ := addPatterns_spec_from (σ := σ) patterns inv0 rs0 nd0 h
  refine ⟨inv1, hr1.trans hr0, rs1, nd1, fun pid => ?_⟩
  rw [hl1 pid, hr0]
  constructor
  · rintro (h1 | h1)
    · exact absurd h1 (hl0 σ pid)
    · exact h1
  · exact .inr

end Automaton
end Pm
