/-
Proofs/WFLemmas.lean — helper lemmas for property C09 (structural well-formedness of a compiled
automaton):
* the Kahn loop `Automaton.topoOrder`: soundness (`topoOrder_spec`: position in the result is a
  rank) and completeness on ranked graphs (`topoOrder_isSome`);
* the fuel-bounded DFS `Automaton.reachable`: soundness (`reachable_sound`) and completeness with
  the checker's fuel bound on a well-formed graph (`reachable_closed`, `reachable_complete`);
* Boolean/Prop bridges for the local clauses of `Spec/WF.lean` (`wf*_iff`, `wfCheck_iff`);
* an executable test `SGraph.wfB` of `SGraph.WF`;
* builder side: `appendEdge` (`appendEdge_edge?`), `populateScopes` (`SameButScope`, transfer of
  the scope-independent clauses, `populateScopes_covers`), `addPattern` (`prereqOrdered_append`,
  `addPattern_keys_ordered`, `MatchesIn`, `addPatterns_matches_ordered`), and preservation of the
  graph invariants by `setWeight`.
-/
import PmVerif.Spec.WF
import PmVerif.Proofs.TopoLemmas
import PmVerif.Props.C12
namespace Pm

/-! ### The Kahn loop `topoOrder` -/

namespace SGraph
variable {N E : Type}

/-- Invariant of the Kahn loop of `Automaton.topoOrder`: the processed nodes are live, listed
once, closed under predecessors, and every predecessor sits at a strictly earlier position. -/
def OrderInv (g : SGraph N E) (done : List Nat) : Prop :=
  done.Nodup ∧ (∀ n ∈ done, n ∈ g.nodeIndices) ∧
    ∀ n ∈ done, ∀ p ∈ g.preds n, p ∈ done ∧ done.idxOf p < done.idxOf n

theorem orderInv_nil (g : SGraph N E) : OrderInv g [] :=
  ⟨List.nodup_nil, by simp, by simp⟩

theorem mem_kahnNext {g : SGraph N E} {done : List Nat} {n : Nat} :
    n ∈ (g.nodeIndices.filter fun n => !done.contains n && (g.preds n).all done.contains) ↔
      n ∈ g.nodeIndices ∧ n ∉ done ∧ ∀ p ∈ g.preds n, p ∈ done := by
  simp [List.mem_filter, List.all_eq_true]

theorem orderInv_step {g : SGraph N E} {done : List Nat} (inv : OrderInv g done) :
    OrderInv g (done ++ g.nodeIndices.filter fun n =>
      !done.contains n && (g.preds n).all done.contains) := by
  obtain ⟨hnd, hlive, hord⟩ := inv
  refine ⟨?_, ?_, ?_⟩
  · rw [List.nodup_append]
    refine ⟨hnd, (nodup_nodeIndices g).sublist List.filter_sublist, ?_⟩
    intro x hx y hy e
    exact (mem_kahnNext.1 hy).2.1 (e ▸ hx)
  · intro n hn
    rcases List.mem_append.1 hn with hn | hn
    · exact hlive n hn
    · exact (mem_kahnNext.1 hn).1
  · intro n hn p hp
    by_cases h : n ∈ done
    · obtain ⟨hpd, hlt⟩ := hord n h p hp
      refine ⟨List.mem_append_left _ hpd, ?_⟩
      rw [List.idxOf_append, List.idxOf_append, if_pos hpd, if_pos h]
      exact hlt
    · have hn' := (List.mem_append.1 hn).resolve_left h
      have hpd := (mem_kahnNext.1 hn').2.2 p hp
      refine ⟨List.mem_append_left _ hpd, ?_⟩
      rw [List.idxOf_append, List.idxOf_append, if_pos hpd, if_neg h]
      have := List.idxOf_lt_length_iff.2 hpd
      omega

end SGraph

namespace Automaton
variable {K P : Type}

theorem topoOrder_go_sound_wf (a : Automaton K P) :
    ∀ (fuel : Nat) (done order : List Nat), a.g.OrderInv done →
      topoOrder.go a a.g.nodeIndices fuel done = some order →
      a.g.OrderInv order ∧ order.length = a.g.nodeIndices.length
  | 0, done, order, inv, h => by
    rw [topoOrder.go] at h
    split at h
    · rename_i hh; cases h; exact ⟨inv, by simpa using hh⟩
    · cases h
  | f + 1, done, order, inv, h => by
    rw [topoOrder.go] at h
    split at h
    · split at h
      · rename_i hh; cases h; exact ⟨inv, by simpa using hh⟩
      · cases h
    · exact topoOrder_go_sound_wf a f _ order (SGraph.orderInv_step inv) h

/-- **Soundness of the Kahn loop.** If `topoOrder` returns `some order`, then `order` lists
exactly the live states, once each, and every predecessor (as listed by the in-adjacency) of a
state sits at a strictly earlier position: position in `order` is a rank. -/
theorem topoOrder_spec {a : Automaton K P} {order : List Nat} (h : a.topoOrder = some order) :
    order.Nodup ∧ (∀ n, n ∈ order ↔ a.g.containsNode n = true) ∧
      ∀ n p, p ∈ a.g.preds n → p ∈ order ∧ n ∈ order ∧ order.idxOf p < order.idxOf n := by
  obtain ⟨⟨hnd, hlive, hord⟩, hlen⟩ :=
    topoOrder_go_sound_wf a _ [] order (SGraph.orderInv_nil a.g) h
  have hall := subset_of_nodup_of_length_le order a.g.nodeIndices hnd hlive (by omega)
  refine ⟨hnd, fun n => ⟨fun hn => SGraph.mem_nodeIndices.1 (hlive n hn),
    fun hn => hall n (SGraph.mem_nodeIndices.2 hn)⟩, fun n p hp => ?_⟩
  have hn : n ∈ order := hall n (SGraph.mem_nodeIndices.2 (SGraph.live_of_mem_preds hp))
  exact ⟨(hord n hn p hp).1, hn, (hord n hn p hp).2⟩

end Automaton

/-! ### The fuel-bounded DFS `reachable` -/

namespace Automaton
variable {K P : Type}

/-- **Soundness of the DFS.** Every node returned satisfies any predicate that holds of the
initial work list and `seen` list and is closed under the successor relation. -/
theorem reachable_sound (a : Automaton K P) (R : Nat → Prop)
    (hcl : ∀ n d, R n → d ∈ a.g.succs n → R d) :
    ∀ (fuel : Nat) (work seen : List Nat), (∀ n ∈ work, R n) → (∀ n ∈ seen, R n) →
      ∀ n ∈ a.reachable fuel work seen, R n
  | 0, work, seen, _, hs => by
    rw [reachable]; exact hs
  | fuel + 1, [], seen, _, hs => by
    rw [reachable]; exact hs
    exact fun h => Nat.noConfusion h
  | fuel + 1, m :: work, seen, hw, hs => by
    rw [reachable]
    split
    · exact reachable_sound a R hcl fuel work seen
        (fun n hn => hw n (List.mem_cons_of_mem _ hn)) hs
    · refine reachable_sound a R hcl fuel _ _ ?_ ?_
      · intro n hn
        rcases List.mem_append.1 hn with hn | hn
        · exact hcl m n (hw m List.mem_cons_self) hn
        · exact hw n (List.mem_cons_of_mem _ hn)
      · intro n hn
        rcases List.mem_cons.1 hn with rfl | hn
        · exact hw _ List.mem_cons_self
        · exact hs n hn

theorem mem_succs_iff_outEdges {a : Automaton K P} {s d : Nat} :
    d ∈ a.g.succs s ↔ ∃ t, (t, d) ∈ a.g.outEdges s := by
  unfold SGraph.succs
  rw [List.mem_map]
  constructor
  · rintro ⟨⟨t, d'⟩, h, rfl⟩; exact ⟨t, h⟩
  · rintro ⟨t, h⟩; exact ⟨(t, d), h, rfl⟩

end Automaton

/-! ### Boolean / Prop bridges for the local clauses of `Spec/WF.lean` -/

namespace Automaton
variable {K P : Type}

theorem weight?_eq_some {a : Automaton K P} {s : Nat} {w : AState K} :
    a.g.weight? s = some w ↔ ∃ nd, a.g.node? s = some nd ∧ nd.w = w := by
  simp [SGraph.weight?, Option.map_eq_some_iff]

theorem live_of_weight? {a : Automaton K P} {s : Nat} {w : AState K}
    (h : a.g.weight? s = some w) : a.g.containsNode s = true := by
  obtain ⟨nd, hnd, _⟩ := weight?_eq_some.1 h
  exact SGraph.containsNode_iff.2 ⟨nd, hnd⟩

theorem stateD_of_weight? {a : Automaton K P} {s : Nat} {w : AState K}
    (h : a.g.weight? s = some w) : a.stateD s = w := by
  simp [stateD, h]

theorem weight?_of_live {a : Automaton K P} {s : Nat} (h : a.g.containsNode s = true) :
    a.g.weight? s = some (a.stateD s) := by
  obtain ⟨nd, hnd⟩ := SGraph.containsNode_iff.1 h
  simp [stateD, SGraph.weight?, hnd]

theorem mem_liveStates {a : Automaton K P} {s : Nat} :
    s ∈ a.liveStates ↔ a.g.containsNode s = true :=
  SGraph.mem_nodeIndices

/-- A per-state Boolean test over the live states, as a statement about every live state and
its weight. -/
theorem liveStates_all (a : Automaton K P) (f : Nat → AState K → Bool) :
    (a.liveStates.all fun s => f s (a.stateD s)) = true ↔
      ∀ s w, a.g.weight? s = some w → f s w = true := by
  rw [List.all_eq_true]
  constructor
  · intro h s w hw
    have := h s (mem_liveStates.2 (live_of_weight? hw))
    rwa [stateD_of_weight? hw] at this
  · intro h s hs
    exact h s _ (weight?_of_live (mem_liveStates.1 hs))

theorem liveStates_any (a : Automaton K P) (f : Nat → AState K → Bool) :
    (a.liveStates.any fun s => f s (a.stateD s)) = true ↔
      ∃ s w, a.g.weight? s = some w ∧ f s w = true := by
  rw [List.any_eq_true]
  constructor
  · rintro ⟨s, hs, h⟩
    exact ⟨s, _, weight?_of_live (mem_liveStates.1 hs), h⟩
  · rintro ⟨s, w, hw, h⟩
    refine ⟨s, mem_liveStates.2 (live_of_weight? hw), ?_⟩
    rwa [stateD_of_weight? hw]

/-- (c) -/
theorem wfOneEpsilon_iff (a : Automaton K P) :
    a.wfOneEpsilon = true ↔ ∀ s w, a.g.weight? s = some w → w.eorder.length ≤ 1 := by
  refine (liveStates_all a fun _ w => decide (w.eorder.length ≤ 1)).trans ?_
  simp only [decide_eq_true_eq]

/-- (d) -/
theorem wfNoSelfLoop_iff (a : Automaton K P) :
    a.wfNoSelfLoop = true ↔
      ∀ s, a.g.containsNode s = true → ∀ t d, (t, d) ∈ a.g.outEdges s → d ≠ s := by
  unfold wfNoSelfLoop
  rw [List.all_eq_true]
  constructor
  · intro h s hs t d htd
    have := h s (mem_liveStates.2 hs)
    rw [List.all_eq_true] at this
    simpa using this d (mem_succs_iff_outEdges.2 ⟨t, htd⟩)
  · intro h s hs
    rw [List.all_eq_true]
    intro d hd
    obtain ⟨t, htd⟩ := mem_succs_iff_outEdges.1 hd
    simpa using h s (mem_liveStates.1 hs) t d htd

theorem sameMembers_iff {xs ys : List Nat} :
    sameMembers xs ys = true ↔ ∀ t, t ∈ xs ↔ t ∈ ys := by
  simp only [sameMembers, Bool.and_eq_true, List.all_eq_true, List.contains_iff_mem]
  exact ⟨fun h t => ⟨h.1 t, h.2 t⟩, fun h => ⟨fun t => (h t).1, fun t => (h t).2⟩⟩

theorem mem_outIds {a : Automaton K P} {s t : Nat} :
    t ∈ (a.g.outEdges s).map (·.1) ↔ ∃ d, (t, d) ∈ a.g.outEdges s := by
  rw [List.mem_map]
  constructor
  · rintro ⟨⟨t', d⟩, h, rfl⟩; exact ⟨d, h⟩
  · rintro ⟨d, h⟩; exact ⟨(t, d), h, rfl⟩

theorem mem_consOut {a : Automaton K P} {s t : Nat} :
    t ∈ ((a.g.outEdges s).map (·.1)).filter
        (fun e => match a.g.edge? e with | some ed => ed.w.isSome | none => false) ↔
      ∃ d e c, (t, d) ∈ a.g.outEdges s ∧ a.g.edge? t = some e ∧ e.w = some c := by
  rw [List.mem_filter, mem_outIds]
  constructor
  · rintro ⟨⟨d, hd⟩, h⟩
    cases he : a.g.edge? t with
    | none => rw [he] at h; cases h
    | some e =>
      rw [he] at h
      obtain ⟨c, hc⟩ := Option.isSome_iff_exists.1 h
      exact ⟨d, e, c, hd, rfl, hc⟩
  · rintro ⟨d, e, c, hd, he, hc⟩
    refine ⟨⟨d, hd⟩, ?_⟩
    rw [he]; simp [hc]

theorem mem_epsOut {a : Automaton K P} {s t : Nat} :
    t ∈ ((a.g.outEdges s).map (·.1)).filter
        (fun e => match a.g.edge? e with | some ed => ed.w.isNone | none => false) ↔
      ∃ d e, (t, d) ∈ a.g.outEdges s ∧ a.g.edge? t = some e ∧ e.w = none := by
  rw [List.mem_filter, mem_outIds]
  constructor
  · rintro ⟨⟨d, hd⟩, h⟩
    cases he : a.g.edge? t with
    | none => rw [he] at h; cases h
    | some e =>
      rw [he] at h
      exact ⟨d, e, hd, rfl, Option.isNone_iff_eq_none.1 h⟩
  · rintro ⟨d, e, hd, he, hc⟩
    refine ⟨⟨d, hd⟩, ?_⟩
    rw [he]; simp [hc]

/-- (e) -/
theorem wfOrders_iff (a : Automaton K P) :
    a.wfOrders = true ↔ ∀ s w, a.g.weight? s = some w →
      w.corder.Nodup ∧ w.eorder.Nodup ∧
      (∀ t, t ∈ w.corder ↔
        ∃ d e c, (t, d) ∈ a.g.outEdges s ∧ a.g.edge? t = some e ∧ e.w = some c) ∧
      (∀ t, t ∈ w.eorder ↔ ∃ d e, (t, d) ∈ a.g.outEdges s ∧ a.g.edge? t = some e ∧ e.w = none) := by
  refine (liveStates_all a fun s w =>
    decide w.corder.Nodup && decide w.eorder.Nodup &&
      sameMembers w.corder (((a.g.outEdges s).map (·.1)).filter
        (fun e => match a.g.edge? e with | some ed => ed.w.isSome | none => false)) &&
      sameMembers w.eorder (((a.g.outEdges s).map (·.1)).filter
        (fun e => match a.g.edge? e with | some ed => ed.w.isNone | none => false))).trans ?_
  simp only [Bool.and_eq_true, decide_eq_true_eq, sameMembers_iff, mem_consOut, mem_epsOut,
    and_assoc]

/-- (f) -/
theorem wfAccepted_iff (a : Automaton K P) (ids : List Nat) :
    a.wfAccepted ids = true ↔
      ∀ pid ∈ ids, ∃ s w keys, a.g.weight? s = some w ∧ (pid, keys) ∈ w.matches_ := by
  unfold wfAccepted
  rw [List.all_eq_true]
  refine forall_congr' fun pid => imp_congr_right fun _ => ?_
  refine (liveStates_any a fun _ w => w.matches_.any (·.1 == pid)).trans ?_
  constructor
  · rintro ⟨s, w, hw, h⟩
    obtain ⟨⟨p, keys⟩, hm, hp⟩ := List.any_eq_true.1 h
    have : p = pid := by simpa using hp
    subst this
    exact ⟨s, w, keys, hw, hm⟩
  · rintro ⟨s, w, keys, hw, hm⟩
    exact ⟨s, w, hw, List.any_eq_true.2 ⟨(pid, keys), hm, by simp⟩⟩

variable [DecidableEq K]

/-- Prop-level reading of `prereqOrdered`. -/
theorem prereqOrdered_iff (req : K → List K) (ks : List K) :
    prereqOrdered req ks = true ↔
      ∀ i k, ks[i]? = some k → ∀ p ∈ req k, p ∈ ks.take i := by
  unfold prereqOrdered
  rw [List.all_eq_true]
  constructor
  · intro h i k hk p hp
    have hi : i < ks.length := (List.getElem?_eq_some_iff.1 hk).1
    have := h i (List.mem_range.2 hi)
    rw [hk] at this
    simp only [List.all_eq_true, List.contains_iff_mem] at this
    exact this p hp
  · intro h i _
    cases hk : ks[i]? with
    | none => rfl
    | some k =>
      simp only [List.all_eq_true, List.contains_iff_mem]
      exact h i k hk

/-- (g) -/
theorem wfKeyOrder_iff (req : K → List K) (a : Automaton K P) :
    a.wfKeyOrder req = true ↔ ∀ s w, a.g.weight? s = some w →
      prereqOrdered req w.scope = true ∧ ∀ m ∈ w.matches_, prereqOrdered req m.2 = true := by
  refine (liveStates_all a fun _ w =>
    prereqOrdered req w.scope && w.matches_.all fun m => prereqOrdered req m.2).trans ?_
  simp only [Bool.and_eq_true, List.all_eq_true]

/-- (h) -/
theorem wfScopeCovers_iff (a : Automaton K P) :
    a.wfScopeCovers = true ↔ ∀ s w, a.g.weight? s = some w → ∀ t ∈ w.corder,
      ∀ e c, a.g.edge? t = some e → e.w = some c → ∀ k ∈ c.args, k ∈ w.scope := by
  refine (liveStates_all a fun _ w => w.corder.all fun t =>
      match a.g.edge? t with
      | some ⟨_, _, some c⟩ => c.args.all w.scope.contains
      | _ => true).trans ?_
  refine forall_congr' fun s => forall_congr' fun w => imp_congr_right fun _ => ?_
  rw [List.all_eq_true]
  refine forall_congr' fun t => imp_congr_right fun _ => ?_
  constructor
  · intro h e c he hc k hk
    obtain ⟨src, dst, ew⟩ := e
    simp only at hc
    subst hc
    rw [he] at h
    simp only [List.all_eq_true, List.contains_iff_mem] at h
    exact h k hk
  · intro h
    split
    · rename_i c he
      simp only [List.all_eq_true, List.contains_iff_mem]
      exact h _ c he rfl
    · rfl

theorem ite_nil_iff {b : Bool} {x : String} : (if b = true then ([] : List String) else [x]) = [] ↔ b = true := by
  cases b <;> simp

/-- `wfCheck` is the conjunction of the eight clause checks. -/
theorem wfCheck_iff (req : K → List K) (a : Automaton K P) (ids : List Nat) :
    a.wfCheck req ids = true ↔
      a.wfAcyclic = true ∧ a.wfReachable = true ∧ a.wfOneEpsilon = true ∧
      a.wfNoSelfLoop = true ∧ a.wfOrders = true ∧ a.wfAccepted ids = true ∧
      a.wfKeyOrder req = true ∧ a.wfScopeCovers = true := by
  unfold wfCheck wfFailures
  simp only [List.isEmpty_iff, List.append_eq_nil_iff, ite_nil_iff, and_assoc]

end Automaton

/-! ### Clause (a): from the Kahn order to a rank function -/

namespace Automaton
variable {K P : Type}

theorem wfAcyclic_sound_adj (a : Automaton K P) (h : a.wfAcyclic = true) :
    ∃ rank : Nat → Nat, ∀ d t s, (t, s) ∈ a.g.inEdges d → rank s < rank d := by
  unfold wfAcyclic at h
  obtain ⟨order, ho⟩ := Option.isSome_iff_exists.1 h
  refine ⟨fun n => order.idxOf n, fun d t s hts => ?_⟩
  exact ((topoOrder_spec ho).2.2 d s (List.mem_map.2 ⟨(t, s), hts, rfl⟩)).2.2

theorem mem_inEdges_of_edge {a : Automaton K P} {t : Nat} {e : GEdge (Option (Constraint K P))}
    (hdst : ∃ nd, a.g.node? e.dst = some nd ∧ t ∈ nd.inc) (he : a.g.edge? t = some e) :
    (t, e.src) ∈ a.g.inEdges e.dst := by
  obtain ⟨nd, hnd, hin⟩ := hdst
  unfold SGraph.inEdges
  rw [hnd]
  exact List.mem_filterMap.2 ⟨t, hin, by simp [he]⟩

theorem wfAcyclic_sound (a : Automaton K P)
    (hdst : ∀ e ed, a.g.edge? e = some ed → ∃ nd, a.g.node? ed.dst = some nd ∧ e ∈ nd.inc)
    (h : a.wfAcyclic = true) :
    ∃ rank : Nat → Nat, ∀ t e, a.g.edge? t = some e → rank e.src < rank e.dst := by
  obtain ⟨rank, hr⟩ := wfAcyclic_sound_adj a h
  exact ⟨rank, fun t e he => hr e.dst t e.src (mem_inEdges_of_edge (hdst t e he) he)⟩

end Automaton

/-! ### Builder side: `appendEdge` -/

namespace SGraph
variable {N E : Type}

/-- After a successful `add_edge` every edge slot holds what it held before, or the new edge. -/
theorem addEdge_edge? {g g' : SGraph N E} {a b e : Nat} {w : E}
    (h : g.addEdge a b w = .ok (g', e)) (t : Nat) :
    g'.edge? t = g.edge? t ∨ g'.edge? t = some ⟨a, b, w⟩ := by
  obtain ⟨_, _, edges', free', hcase, rfl⟩ := addEdge_ok h
  show (edges'[t]?).join = _ ∨ (edges'[t]?).join = _
  rcases hcase with ⟨_, rfl⟩ | ⟨_, _, rfl, _⟩
  · rw [join_getElem?_set]
    split
    · exact .inr rfl
    · exact .inl rfl
  · rw [join_getElem?_concat]
    split
    · exact .inr rfl
    · exact .inl rfl

end SGraph

namespace Automaton
variable {K P : Type}

theorem modifyState_ok_wf {a a' : Automaton K P} {s : Nat} {f : AState K → AState K}
    (h : a.modifyState s f = .ok a') :
    a.g.containsNode s = true ∧ a' = { a with g := a.g.setWeight s f } := by
  unfold modifyState at h
  split at h
  · rename_i hc; cases h; exact ⟨hc, rfl⟩
  · cases h

/-- `append_edge(s, s, c)` is a no-op. -/
theorem appendEdge_self (a : Automaton K P) (s : Nat) (c : Option (Constraint K P)) :
    a.appendEdge s s c = .ok a := by
  unfold appendEdge; rw [if_pos rfl]

/-- Every live transition after `append_edge(parent, child, c)` is an old one (same id, same
content) or the new one, and the new one exists only if `parent ≠ child`. -/
theorem appendEdge_edge? {a a' : Automaton K P} {p ch : Nat} {c : Option (Constraint K P)}
    (h : a.appendEdge p ch c = .ok a') (t : Nat) :
    a'.g.edge? t = a.g.edge? t ∨ (a'.g.edge? t = some ⟨p, ch, c⟩ ∧ p ≠ ch) := by
  unfold appendEdge at h
  split at h
  · cases h; exact .inl rfl
  · rename_i hne
    split at h
    · cases h
    · rename_i g e hadd
      obtain ⟨_, rfl⟩ := modifyState_ok_wf h
      show g.edge? t = _ ∨ (g.edge? t = _ ∧ _)
      rcases SGraph.addEdge_edge? hadd t with h1 | h1
      · exact .inl h1
      · exact .inr ⟨h1, hne⟩

end Automaton

/-! ### Builder side: the key list recorded by `addPattern` -/

section Keys
variable {K : Type} [DecidableEq K]

theorem idxOf_le_of_getElem? {l : List K} {j : Nat} {k : K} :
    l[j]? = some k → l.idxOf k ≤ j := by
  induction l generalizing j with
  | nil => simp
  | cons x xs ih =>
    intro h
    rw [List.idxOf_cons]
    cases hxk : (x == k) with
    | true => simp
    | false =>
      cases j with
      | zero =>
        simp only [List.getElem?_cons_zero, Option.some.injEq] at h
        simp [h] at hxk
      | succ j =>
        simp only [List.getElem?_cons_succ] at h
        have := ih h
        simp only [cond_false]
        omega

theorem mem_take_of_idxOf_lt {l : List K} {j : Nat} {p : K} (hp : p ∈ l)
    (h : l.idxOf p < j) : p ∈ l.take j := by
  have hlt : l.idxOf p < l.length := List.idxOf_lt_length_iff.2 hp
  rw [List.mem_take_iff_getElem]
  exact ⟨l.idxOf p, by omega, List.getElem_idxOf hlt⟩

namespace Automaton

/-- Appending to a prerequisite-ordered list what `all_missing_bindings` reports missing relative
to it keeps the list prerequisite-ordered. -/
theorem prereqOrdered_append {req : K → List K} {keys args more : List K}
    (hk : prereqOrdered req keys = true) (hm : MissingSpec req keys args more) :
    prereqOrdered req (keys ++ more) = true := by
  rw [prereqOrdered_iff] at hk ⊢
  intro i k hik p hp
  rw [List.getElem?_append] at hik
  split at hik
  · rename_i hlt
    rw [List.take_append_of_le_length (Nat.le_of_lt hlt)]
    exact hk i k hik p hp
  · rename_i hge
    rw [List.take_append]
    by_cases hpk : p ∈ keys
    · refine List.mem_append_left _ ?_
      rw [List.take_of_length_le (by omega)]
      exact hpk
    · have hx : k ∈ more := List.mem_of_getElem? hik
      obtain ⟨hpm, hlt⟩ := hm.order k hx p hp hpk
      have := idxOf_le_of_getElem? hik
      exact List.mem_append_right _ (mem_take_of_idxOf_lt hpm (by omega))

theorem prereqOrdered_nil (req : K → List K) : prereqOrdered req [] = true := by
  simp [prereqOrdered]

variable {P : Type}

theorem addPatternLoop_keys_ordered {req : K → List K} (hacy : RankAcyclic req) (fuel : Nat) :
    ∀ (cs : List (Cons K P)) (a a' : Automaton K P) (s s' : Nat) (keys0 keys : List K),
      prereqOrdered req keys0 = true →
      addPatternLoop req fuel a s keys0 cs = .ok (a', s', keys) →
      prereqOrdered req keys = true
  | [], a, a', s, s', keys0, keys, h0, h => by
    rw [addPatternLoop] at h
    cases h; exact h0
  | c :: cs, a, a', s, s', keys0, keys, h0, h => by
    rw [addPatternLoop] at h
    split at h
    · cases h
    · rename_i more hmore
      split at h
      · cases h
      · exact addPatternLoop_keys_ordered hacy fuel cs _ a' _ s' _ keys
          (prereqOrdered_append h0 (c12_all_any_fuel req hacy _ _ _ _ hmore)) h

/-- The shape of a successful `add_pattern`, with the recorded key list prerequisite-ordered. -/
theorem addPattern_keys_ordered {req : K → List K} (hacy : RankAcyclic req) {fuel : Nat}
    {a a' : Automaton K P} {cs : List (Cons K P)} {pid : Nat} {extra : List K}
    (h : addPattern req fuel a cs pid extra = .ok a') :
    ∃ keys0 a1 s keys, allMissingBindings req extra [] fuel = some keys0 ∧
      addPatternLoop req fuel a a.root keys0 cs = .ok (a1, s, keys) ∧
      a1.addMatch s pid keys = .ok a' ∧ prereqOrdered req keys = true := by
  unfold addPattern at h
  split at h
  · cases h
  · rename_i keys0 h0
    split at h
    · cases h
    · rename_i a1 s keys hloop
      refine ⟨keys0, a1, s, keys, h0, hloop, h, ?_⟩
      refine addPatternLoop_keys_ordered hacy fuel cs a a1 a.root s keys0 keys ?_ hloop
      have := prereqOrdered_append (prereqOrdered_nil req)
        (c12_all_any_fuel req hacy _ _ _ _ h0)
      simpa using this

end Automaton
end Keys

/-! ### Builder side: `populateScopes` changes nothing but the `scope` fields -/

namespace Automaton
variable {K P : Type}

/-- A node with its `scope` blanked. -/
def eraseScope (nd : GNode (AState K)) : GNode (AState K) :=
  { nd with w := { nd.w with scope := [] } }

/-- `a'` is `a` up to the `scope` fields of the states. -/
structure SameButScope (a a' : Automaton K P) : Prop where
  root : a'.root = a.root
  edges : a'.g.edges = a.g.edges
  freeNodes : a'.g.freeNodes = a.g.freeNodes
  freeEdges : a'.g.freeEdges = a.g.freeEdges
  len : a'.g.nodes.length = a.g.nodes.length
  node : ∀ i, (a'.g.node? i).map eraseScope = (a.g.node? i).map eraseScope

theorem SameButScope.refl (a : Automaton K P) : SameButScope a a :=
  ⟨rfl, rfl, rfl, rfl, rfl, fun _ => rfl⟩

theorem SameButScope.trans {a a' a'' : Automaton K P} (h1 : SameButScope a a')
    (h2 : SameButScope a' a'') : SameButScope a a'' :=
  ⟨h2.root.trans h1.root, h2.edges.trans h1.edges, h2.freeNodes.trans h1.freeNodes,
    h2.freeEdges.trans h1.freeEdges, h2.len.trans h1.len, fun i => (h2.node i).trans (h1.node i)⟩

theorem modifyState_scope {a a' : Automaton K P} {n : Nat} {sc : List K}
    (h : a.modifyState n (fun w => { w with scope := sc }) = .ok a') : SameButScope a a' := by
  obtain ⟨_, rfl⟩ := modifyState_ok_wf h
  refine ⟨rfl, rfl, rfl, rfl, ?_, fun i => ?_⟩
  · show (a.g.nodes.modify n _).length = _
    exact List.length_modify ..
  · show ((a.g.modifyNode n _).node? i).map eraseScope = _
    rw [SGraph.node?_modifyNode]
    split
    · cases a.g.node? i with
      | none => rfl
      | some nd => rfl
    · rfl

theorem SameButScope.edge? {a a' : Automaton K P} (h : SameButScope a a') (e : Nat) :
    a'.g.edge? e = a.g.edge? e := by
  unfold SGraph.edge?; rw [h.edges]

theorem SameButScope.node_some {a a' : Automaton K P} (h : SameButScope a a') {i : Nat}
    {nd' : GNode (AState K)} (hn : a'.g.node? i = some nd') :
    ∃ nd, a.g.node? i = some nd ∧ nd'.out = nd.out ∧ nd'.inc = nd.inc ∧
      nd'.w = { nd.w with scope := nd'.w.scope } := by
  have := h.node i
  rw [hn] at this
  cases hnd : a.g.node? i with
  | none => rw [hnd] at this; cases this
  | some nd =>
    rw [hnd] at this
    simp only [Option.map_some, Option.some.injEq, eraseScope] at this
    obtain ⟨⟨m', d', c', e', s'⟩, o', i'⟩ := nd'
    obtain ⟨⟨m, d, c, e, s⟩, o, i0⟩ := nd
    simp only [GNode.mk.injEq, AState.mk.injEq] at this
    obtain ⟨⟨rfl, rfl, rfl, rfl, _⟩, rfl, rfl⟩ := this
    exact ⟨_, rfl, rfl, rfl, rfl⟩

theorem SameButScope.symm_node_some {a a' : Automaton K P} (h : SameButScope a a') {i : Nat}
    {nd : GNode (AState K)} (hn : a.g.node? i = some nd) :
    ∃ nd', a'.g.node? i = some nd' ∧ nd'.out = nd.out ∧ nd'.inc = nd.inc ∧
      nd'.w = { nd.w with scope := nd'.w.scope } := by
  have := h.node i
  rw [hn] at this
  cases hnd : a'.g.node? i with
  | none => rw [hnd] at this; cases this
  | some nd' =>
    obtain ⟨nd0, h0, h1, h2, h3⟩ := h.node_some hnd
    rw [hn] at h0; cases h0
    exact ⟨nd', rfl, h1, h2, h3⟩

theorem SameButScope.containsNode {a a' : Automaton K P} (h : SameButScope a a') (i : Nat) :
    a'.g.containsNode i = a.g.containsNode i := by
  have := congrArg Option.isSome (h.node i)
  simpa [SGraph.containsNode] using this

theorem SameButScope.outEdges {a a' : Automaton K P} (h : SameButScope a a') (s : Nat) :
    a'.g.outEdges s = a.g.outEdges s := by
  unfold SGraph.outEdges
  cases hn : a'.g.node? s with
  | none =>
    have := h.node s
    rw [hn] at this
    cases hn0 : a.g.node? s with
    | none => rfl
    | some nd => rw [hn0] at this; cases this
  | some nd' =>
    obtain ⟨nd, h0, h1, _, _⟩ := h.node_some hn
    rw [h0]
    simp only [h1, h.edge?]

theorem SameButScope.inEdges {a a' : Automaton K P} (h : SameButScope a a') (s : Nat) :
    a'.g.inEdges s = a.g.inEdges s := by
  unfold SGraph.inEdges
  cases hn : a'.g.node? s with
  | none =>
    have := h.node s
    rw [hn] at this
    cases hn0 : a.g.node? s with
    | none => rfl
    | some nd => rw [hn0] at this; cases this
  | some nd' =>
    obtain ⟨nd, h0, _, h2, _⟩ := h.node_some hn
    rw [h0]
    simp only [h2, h.edge?]

theorem SameButScope.nodeIndices {a a' : Automaton K P} (h : SameButScope a a') :
    a'.g.nodeIndices = a.g.nodeIndices := by
  unfold SGraph.nodeIndices
  rw [h.len]
  exact List.filter_congr fun i _ => h.containsNode i

/-- The weight of a state after the change is the old weight with another `scope`. -/
theorem SameButScope.weight? {a a' : Automaton K P} (h : SameButScope a a') {s : Nat}
    {w' : AState K} (hw : a'.g.weight? s = some w') :
    ∃ w, a.g.weight? s = some w ∧ w' = { w with scope := w'.scope } := by
  obtain ⟨nd', hn', rfl⟩ := weight?_eq_some.1 hw
  obtain ⟨nd, h0, _, _, h3⟩ := h.node_some hn'
  exact ⟨nd.w, weight?_eq_some.2 ⟨nd, h0, rfl⟩, h3⟩

theorem SameButScope.weight?_symm {a a' : Automaton K P} (h : SameButScope a a') {s : Nat}
    {w : AState K} (hw : a.g.weight? s = some w) :
    ∃ w', a'.g.weight? s = some w' ∧ w' = { w with scope := w'.scope } := by
  obtain ⟨nd, hn, rfl⟩ := weight?_eq_some.1 hw
  obtain ⟨nd', h0, _, _, h3⟩ := h.symm_node_some hn
  exact ⟨nd'.w, weight?_eq_some.2 ⟨nd', h0, rfl⟩, h3⟩

variable [DecidableEq K]

/-- The shape of one successful step of `setScopes`. -/
theorem setScopes_cons_ok {req : K → List K} {fuel : Nat} {fwd bwd : List (Nat × List K)}
    {n : Nat} {ns : List Nat} {a a' : Automaton K P}
    (h : setScopes req fuel fwd bwd a (n :: ns) = .ok a') :
    ∃ f b cs more a1, alGet fwd n = some f ∧ alGet bwd n = some b ∧
      a.constraintsAt n = .ok cs ∧
      allMissingBindings req (cs.flatMap (·.args)) (f.filter fun k => b.contains k) fuel =
        some more ∧
      a.modifyState n (fun w => { w with scope := (f.filter fun k => b.contains k) ++ more }) =
        .ok a1 ∧
      setScopes req fuel fwd bwd a1 ns = .ok a' := by
  rw [setScopes] at h
  split at h
  · rename_i f b hf hb
    split at h
    · cases h
    · rename_i cs hcs
      simp only at h
      split at h
      · cases h
      · rename_i more hmore
        split at h
        · cases h
        · rename_i a1 hmod
          exact ⟨f, b, cs, more, a1, hf, hb, hcs, hmore, hmod, h⟩
  · cases h

theorem setScopes_sameButScope (req : K → List K) (fuel : Nat) (fwd bwd : List (Nat × List K)) :
    ∀ (ns : List Nat) (a a' : Automaton K P), setScopes req fuel fwd bwd a ns = .ok a' →
      SameButScope a a'
  | [], a, a', h => by
    rw [setScopes] at h; cases h; exact SameButScope.refl a
  | n :: ns, a, a', h => by
    obtain ⟨_, _, _, _, a1, _, _, _, _, hmod, hrest⟩ := setScopes_cons_ok h
    exact (modifyState_scope hmod).trans (setScopes_sameButScope req fuel fwd bwd ns a1 a' hrest)

theorem populateScopes_sameButScope {req : K → List K} {fuel : Nat} {a a' : Automaton K P}
    (h : populateScopes req fuel a = .ok a') : SameButScope a a' := by
  unfold populateScopes at h
  split at h
  · cases h
  · split at h
    · exact setScopes_sameButScope req fuel _ _ _ a a' h
    · cases h
    · cases h

end Automaton

/-! ### Transfer of the scope-independent clauses along `SameButScope` -/

namespace Automaton
variable {K P : Type}

theorem SameButScope.acyclic {a a' : Automaton K P} (h : SameButScope a a')
    (H : ∃ rank : Nat → Nat, ∀ t e, a.g.edge? t = some e → rank e.src < rank e.dst) :
    ∃ rank : Nat → Nat, ∀ t e, a'.g.edge? t = some e → rank e.src < rank e.dst := by
  obtain ⟨rank, hr⟩ := H
  exact ⟨rank, fun t e he => hr t e (by rwa [h.edge?] at he)⟩

theorem SameButScope.oneEpsilon {a a' : Automaton K P} (h : SameButScope a a')
    (H : ∀ s w, a.g.weight? s = some w → w.eorder.length ≤ 1) :
    ∀ s w, a'.g.weight? s = some w → w.eorder.length ≤ 1 := by
  intro s w' hw'
  obtain ⟨w, hw, e⟩ := h.weight? hw'
  rw [e]; exact H s w hw

theorem SameButScope.noSelfLoop {a a' : Automaton K P} (h : SameButScope a a')
    (H : ∀ s, a.g.containsNode s = true → ∀ t d, (t, d) ∈ a.g.outEdges s → d ≠ s) :
    ∀ s, a'.g.containsNode s = true → ∀ t d, (t, d) ∈ a'.g.outEdges s → d ≠ s := by
  intro s hs t d htd
  rw [h.containsNode] at hs
  rw [h.outEdges] at htd
  exact H s hs t d htd

theorem SameButScope.orders {a a' : Automaton K P} (h : SameButScope a a')
    (H : ∀ s w, a.g.weight? s = some w →
      w.corder.Nodup ∧ w.eorder.Nodup ∧
      (∀ t, t ∈ w.corder ↔
        ∃ d e c, (t, d) ∈ a.g.outEdges s ∧ a.g.edge? t = some e ∧ e.w = some c) ∧
      (∀ t, t ∈ w.eorder ↔
        ∃ d e, (t, d) ∈ a.g.outEdges s ∧ a.g.edge? t = some e ∧ e.w = none)) :
    ∀ s w, a'.g.weight? s = some w →
      w.corder.Nodup ∧ w.eorder.Nodup ∧
      (∀ t, t ∈ w.corder ↔
        ∃ d e c, (t, d) ∈ a'.g.outEdges s ∧ a'.g.edge? t = some e ∧ e.w = some c) ∧
      (∀ t, t ∈ w.eorder ↔
        ∃ d e, (t, d) ∈ a'.g.outEdges s ∧ a'.g.edge? t = some e ∧ e.w = none) := by
  intro s w' hw'
  obtain ⟨w, hw, e⟩ := h.weight? hw'
  have := H s w hw
  rw [e]
  simp only [h.outEdges, h.edge?]
  exact this

theorem SameButScope.accepted {a a' : Automaton K P} (h : SameButScope a a') {ids : List Nat}
    (H : ∀ pid ∈ ids, ∃ s w keys, a.g.weight? s = some w ∧ (pid, keys) ∈ w.matches_) :
    ∀ pid ∈ ids, ∃ s w keys, a'.g.weight? s = some w ∧ (pid, keys) ∈ w.matches_ := by
  intro pid hp
  obtain ⟨s, w, keys, hw, hm⟩ := H pid hp
  obtain ⟨w', hw', e⟩ := h.weight?_symm hw
  exact ⟨s, w', keys, hw', by rw [e]; exact hm⟩

/-- The key lists of the accepted patterns are untouched. -/
theorem SameButScope.matchKeys {a a' : Automaton K P} (h : SameButScope a a')
    {Q : List K → Prop}
    (H : ∀ s w, a.g.weight? s = some w → ∀ m ∈ w.matches_, Q m.2) :
    ∀ s w, a'.g.weight? s = some w → ∀ m ∈ w.matches_, Q m.2 := by
  intro s w' hw' m hm
  obtain ⟨w, hw, e⟩ := h.weight? hw'
  rw [e] at hm
  exact H s w hw m hm

end Automaton

/-! ### An executable test of `SGraph.WF` (for examples and for discharging `hg` at run time) -/

namespace SGraph
variable {N E : Type}

/-- Boolean test of the structural well-formedness `SGraph.WF`. -/
def wfB (g : SGraph N E) : Bool :=
  ((List.range g.edges.length).all fun e =>
    match g.edge? e with
    | none => true
    | some ed =>
      (match g.node? ed.src with | some nd => nd.out.contains e | none => false) &&
      (match g.node? ed.dst with | some nd => nd.inc.contains e | none => false)) &&
  ((List.range g.nodes.length).all fun a =>
    match g.node? a with
    | none => true
    | some nd =>
      (nd.out.all fun e => match g.edge? e with | some ed => ed.src == a | none => false) &&
      (nd.inc.all fun e => match g.edge? e with | some ed => ed.dst == a | none => false) &&
      decide nd.out.Nodup && decide nd.inc.Nodup)

theorem wfB_sound {g : SGraph N E} (h : g.wfB = true) : g.WF := by
  unfold wfB at h
  rw [Bool.and_eq_true, List.all_eq_true, List.all_eq_true] at h
  obtain ⟨hE, hN⟩ := h
  have hedge : ∀ e ed, g.edge? e = some ed →
      (∃ nd, g.node? ed.src = some nd ∧ e ∈ nd.out) ∧
      (∃ nd, g.node? ed.dst = some nd ∧ e ∈ nd.inc) := by
    intro e ed he
    have := hE e (List.mem_range.2 (join_getElem?_lt he))
    rw [he] at this
    simp only [Bool.and_eq_true] at this
    obtain ⟨h1, h2⟩ := this
    constructor
    · cases hs : g.node? ed.src with
      | none => rw [hs] at h1; cases h1
      | some nd => rw [hs] at h1; exact ⟨nd, rfl, List.contains_iff_mem.1 h1⟩
    · cases hd : g.node? ed.dst with
      | none => rw [hd] at h2; cases h2
      | some nd => rw [hd] at h2; exact ⟨nd, rfl, List.contains_iff_mem.1 h2⟩
  have hnode : ∀ a nd, g.node? a = some nd →
      (∀ e ∈ nd.out, ∃ ed, g.edge? e = some ed ∧ ed.src = a) ∧
      (∀ e ∈ nd.inc, ∃ ed, g.edge? e = some ed ∧ ed.dst = a) ∧ nd.out.Nodup ∧ nd.inc.Nodup := by
    intro a nd hnd
    have := hN a (List.mem_range.2 (join_getElem?_lt hnd))
    rw [hnd] at this
    simp only [Bool.and_eq_true, List.all_eq_true, decide_eq_true_eq] at this
    obtain ⟨⟨⟨h1, h2⟩, h3⟩, h4⟩ := this
    refine ⟨fun e he => ?_, fun e he => ?_, h3, h4⟩
    · have := h1 e he
      cases hed : g.edge? e with
      | none => rw [hed] at this; cases this
      | some ed => rw [hed] at this; exact ⟨ed, rfl, by simpa using this⟩
    · have := h2 e he
      cases hed : g.edge? e with
      | none => rw [hed] at this; cases this
      | some ed => rw [hed] at this; exact ⟨ed, rfl, by simpa using this⟩
  exact
    { edge_src := fun e ed he => (hedge e ed he).1
      edge_dst := fun e ed he => (hedge e ed he).2
      out_edge := fun a nd hnd => (hnode a nd hnd).1
      inc_edge := fun a nd hnd => (hnode a nd hnd).2.1
      out_nodup := fun a nd hnd => (hnode a nd hnd).2.2.1
      inc_nodup := fun a nd hnd => (hnode a nd hnd).2.2.2 }

end SGraph

/-! ### Completeness of the Kahn loop: on a ranked graph `topoOrder` succeeds -/

namespace Automaton
variable {K P : Type}

/-- While some live node is unprocessed, the next batch of the Kahn loop is non-empty. -/
theorem kahnNext_ne_nil {a : Automaton K P} (rank : Nat → Nat)
    (hr : ∀ n p, p ∈ a.g.preds n → rank p < rank n ∧ a.g.containsNode p = true)
    (done : List Nat) :
    ∀ r n, rank n = r → n ∈ a.g.nodeIndices → n ∉ done →
      (a.g.nodeIndices.filter fun n => !done.contains n && (a.g.preds n).all done.contains)
        ≠ [] := by
  intro r
  induction r using Nat.strongRecOn with
  | _ r ih =>
    intro n hrn hlive hnd
    by_cases hall : ∀ p ∈ a.g.preds n, p ∈ done
    · exact List.ne_nil_of_mem (SGraph.mem_kahnNext.2 ⟨hlive, hnd, hall⟩)
    · have : ∃ p, p ∈ a.g.preds n ∧ p ∉ done := by
        apply Classical.byContradiction
        intro hne
        exact hall fun p hp => Classical.byContradiction fun hpd => hne ⟨p, hp, hpd⟩
      obtain ⟨p, hp, hpd⟩ := this
      obtain ⟨hlt, hpl⟩ := hr n p hp
      exact ih (rank p) (hrn ▸ hlt) p rfl (SGraph.mem_nodeIndices.2 hpl) hpd

theorem topoOrder_go_isSome {a : Automaton K P} (rank : Nat → Nat)
    (hr : ∀ n p, p ∈ a.g.preds n → rank p < rank n ∧ a.g.containsNode p = true) :
    ∀ (fuel : Nat) (done : List Nat), a.g.OrderInv done →
      a.g.nodeIndices.length < done.length + fuel →
      (topoOrder.go a a.g.nodeIndices fuel done).isSome = true := by
  have hle : ∀ done : List Nat, a.g.OrderInv done → done.length ≤ a.g.nodeIndices.length :=
    fun done inv => inv.1.length_le_of_subset inv.2.1
  have hfin : ∀ done : List Nat, a.g.OrderInv done →
      (a.g.nodeIndices.filter fun n => !done.contains n && (a.g.preds n).all done.contains)
        = [] → done.length = a.g.nodeIndices.length := by
    intro done inv hnil
    apply Nat.le_antisymm (hle done inv)
    refine (SGraph.nodup_nodeIndices a.g).length_le_of_subset fun n hn => ?_
    apply Classical.byContradiction
    intro hnd'
    exact kahnNext_ne_nil rank hr done _ n rfl hn hnd' hnil
  intro fuel
  induction fuel with
  | zero =>
    intro done inv hlt
    have := hle done inv
    omega
  | succ f ih =>
    intro done inv hlt
    rw [topoOrder.go]
    split
    · rename_i hemp
      rw [hfin done inv (List.isEmpty_iff.1 hemp)]
      simp
    · rename_i hemp
      refine ih _ (SGraph.orderInv_step inv) ?_
      have hpos : 0 < (a.g.nodeIndices.filter fun n =>
          !done.contains n && (a.g.preds n).all done.contains).length :=
        List.length_pos_iff.2 fun e => hemp (by rw [e]; rfl)
      rw [List.length_append]
      omega

/-- **Completeness of the Kahn loop.** If the in-adjacency has a rank function and lists live
sources only, `topoOrder` succeeds. -/
theorem topoOrder_isSome {a : Automaton K P} (rank : Nat → Nat)
    (hr : ∀ n p, p ∈ a.g.preds n → rank p < rank n ∧ a.g.containsNode p = true) :
    a.topoOrder.isSome = true := by
  unfold topoOrder
  exact topoOrder_go_isSome rank hr _ [] (SGraph.orderInv_nil a.g) (by simp)

/-- On a well-formed graph a rank function on the live edges is one on the in-adjacency. -/
theorem rank_preds_of_edges {a : Automaton K P} (hg : a.g.WF) {rank : Nat → Nat}
    (hr : ∀ t e, a.g.edge? t = some e → rank e.src < rank e.dst) :
    ∀ n p, p ∈ a.g.preds n → rank p < rank n ∧ a.g.containsNode p = true := by
  intro n p hp
  refine ⟨?_, hg.pred_live hp⟩
  obtain ⟨nd, e, ed, hnd, he, hed, rfl⟩ := SGraph.mem_preds.1 hp
  obtain ⟨ed', hed', hdst⟩ := hg.inc_edge n nd hnd e he
  rw [hed] at hed'; cases hed'
  rw [← hdst]
  exact hr e ed hed

theorem wfAcyclic_complete {a : Automaton K P} (hg : a.g.WF)
    (H : ∃ rank : Nat → Nat, ∀ t e, a.g.edge? t = some e → rank e.src < rank e.dst) :
    a.wfAcyclic = true := by
  obtain ⟨rank, hr⟩ := H
  exact topoOrder_isSome rank (rank_preds_of_edges hg hr)

end Automaton

/-! ### Completeness of the DFS: with enough fuel the result is closed under successors -/

/-- `Σ f` over the members of `l` not in `seen`. -/
def sumUnseen (f : Nat → Nat) : List Nat → List Nat → Nat
  | [], _ => 0
  | x :: l, seen => (if x ∈ seen then 0 else f x) + sumUnseen f l seen

theorem sumUnseen_cons_not_mem (f : Nat → Nat) (seen : List Nat) (n : Nat) :
    ∀ (l : List Nat), n ∉ l → sumUnseen f l (n :: seen) = sumUnseen f l seen
  | [], _ => rfl
  | x :: l, h => by
    have hx : x ≠ n := fun e => h (e ▸ List.mem_cons_self)
    have ih := sumUnseen_cons_not_mem f seen n l (fun hm => h (List.mem_cons_of_mem _ hm))
    simp only [sumUnseen, List.mem_cons, hx, false_or, ih]

theorem sumUnseen_cons_mem (f : Nat → Nat) (seen : List Nat) (n : Nat) (hn : n ∉ seen) :
    ∀ (l : List Nat), l.Nodup → n ∈ l →
      sumUnseen f l (n :: seen) + f n = sumUnseen f l seen
  | [], _, h => by cases h
  | x :: l, hnd, h => by
    rw [List.nodup_cons] at hnd
    by_cases hx : x = n
    · subst hx
      have := sumUnseen_cons_not_mem f seen x l hnd.1
      simp only [sumUnseen, List.mem_cons, true_or, if_true, if_neg hn, this]
      omega
    · have hm : n ∈ l := (List.mem_cons.1 h).resolve_left (Ne.symm hx)
      have ih := sumUnseen_cons_mem f seen n hn l hnd.2 hm
      simp only [sumUnseen, List.mem_cons, hx, false_or]
      omega

theorem sumUnseen_le (f : Nat → Nat) (m : Nat) (seen : List Nat) :
    ∀ (l : List Nat), (∀ x ∈ l, f x ≤ m) → sumUnseen f l seen ≤ l.length * m
  | [], _ => by simp [sumUnseen]
  | x :: l, h => by
    have ih := sumUnseen_le f m seen l fun y hy => h y (List.mem_cons_of_mem _ hy)
    have hx := h x List.mem_cons_self
    simp only [sumUnseen, List.length_cons, Nat.add_mul, Nat.one_mul]
    split <;> omega

namespace Automaton
variable {K P : Type}

/-- Potential of a DFS state: pending work plus the out-degrees of the unseen live nodes. -/
def dfsPot (a : Automaton K P) (seen : List Nat) : Nat :=
  sumUnseen (fun n => (a.g.succs n).length) a.g.nodeIndices seen

theorem succs_dead {a : Automaton K P} {n : Nat} (h : n ∉ a.g.nodeIndices) : a.g.succs n = [] := by
  cases hs : a.g.succs n with
  | nil => rfl
  | cons d _ =>
    exact absurd (SGraph.mem_nodeIndices.2
      (SGraph.live_of_mem_succs (a := n) (n := d) (by rw [hs]; exact List.mem_cons_self))) h

/-- With fuel at least `work.length + dfsPot seen`, the DFS result contains `seen` and `work` and
is closed under successors, provided the successors of `seen` are in `seen` or `work`. -/
theorem reachable_closed (a : Automaton K P) :
    ∀ (fuel : Nat) (work seen : List Nat), work.length + a.dfsPot seen ≤ fuel →
      (∀ n ∈ seen, ∀ d ∈ a.g.succs n, d ∈ seen ∨ d ∈ work) →
      (∀ n ∈ seen, n ∈ a.reachable fuel work seen) ∧
      (∀ n ∈ work, n ∈ a.reachable fuel work seen) ∧
      ∀ n ∈ a.reachable fuel work seen, ∀ d ∈ a.g.succs n, d ∈ a.reachable fuel work seen
  | 0, work, seen, hf, hcl => by
    have hw : work = [] := List.eq_nil_of_length_eq_zero (by omega)
    subst hw
    rw [reachable]
    exact ⟨fun n hn => hn, fun n hn => (by cases hn),
      fun n hn d hd => (hcl n hn d hd).resolve_right (by simp)⟩
  | fuel + 1, [], seen, _, hcl => by
    rw [reachable]
    · exact ⟨fun n hn => hn, fun n hn => (by cases hn),
        fun n hn d hd => (hcl n hn d hd).resolve_right (by simp)⟩
    · exact fun h => Nat.noConfusion h
  | fuel + 1, m :: work, seen, hf, hcl => by
    rw [reachable]
    simp only [List.length_cons] at hf
    split
    · rename_i hm
      have hm' : m ∈ seen := List.contains_iff_mem.1 hm
      obtain ⟨h1, h2, h3⟩ := reachable_closed a fuel work seen (by omega) (by
        intro n hn d hd
        rcases hcl n hn d hd with h | h
        · exact .inl h
        · rcases List.mem_cons.1 h with rfl | h
          · exact .inl hm'
          · exact .inr h)
      refine ⟨h1, fun n hn => ?_, h3⟩
      rcases List.mem_cons.1 hn with rfl | hn
      · exact h1 _ hm'
      · exact h2 n hn
    · rename_i hm
      have hm' : m ∉ seen := fun h => hm (List.contains_iff_mem.2 h)
      have hpot : (a.g.succs m).length + a.dfsPot (m :: seen) = a.dfsPot seen := by
        unfold dfsPot
        by_cases hl : m ∈ a.g.nodeIndices
        · have : sumUnseen (fun n => (a.g.succs n).length) a.g.nodeIndices (m :: seen) +
              (a.g.succs m).length =
              sumUnseen (fun n => (a.g.succs n).length) a.g.nodeIndices seen :=
            sumUnseen_cons_mem (fun n => (a.g.succs n).length) seen m hm' _
              (SGraph.nodup_nodeIndices a.g) hl
          omega
        · rw [sumUnseen_cons_not_mem _ _ _ _ hl, succs_dead hl]
          simp
      obtain ⟨h1, h2, h3⟩ := reachable_closed a fuel (a.g.succs m ++ work) (m :: seen)
        (by rw [List.length_append]; omega) (by
        intro n hn d hd
        rcases List.mem_cons.1 hn with rfl | hn
        · exact .inr (List.mem_append_left _ hd)
        · rcases hcl n hn d hd with h | h
          · exact .inl (List.mem_cons_of_mem _ h)
          · rcases List.mem_cons.1 h with rfl | h
            · exact .inl List.mem_cons_self
            · exact .inr (List.mem_append_right _ h))
      refine ⟨fun n hn => h1 n (List.mem_cons_of_mem _ hn), fun n hn => ?_, h3⟩
      rcases List.mem_cons.1 hn with rfl | hn
      · exact h1 _ List.mem_cons_self
      · exact h2 n (List.mem_append_right _ hn)

/-- On a well-formed graph the out-degree is bounded by the size of the edge table. -/
theorem succs_length_le {a : Automaton K P} (hg : a.g.WF) (n : Nat) :
    (a.g.succs n).length ≤ a.g.edges.length := by
  unfold SGraph.succs SGraph.outEdges
  cases hn : a.g.node? n with
  | none => simp
  | some nd =>
    simp only [List.length_map]
    refine Nat.le_trans (List.length_filterMap_le _ _) ?_
    have := (hg.out_nodup n nd hn).length_le_of_subset (l₂ := List.range a.g.edges.length)
      (fun e he => by
        obtain ⟨ed, hed, _⟩ := hg.out_edge n nd hn e he
        exact List.mem_range.2 (join_getElem?_lt hed))
    simpa using this

/-- The checker's fuel bound covers the initial potential. -/
theorem dfs_bound_ok {a : Automaton K P} (hg : a.g.WF) (s : Nat) :
    [s].length + a.dfsPot [] ≤ a.g.nodes.length * (a.g.edges.length + 2) + 2 := by
  have h1 : a.dfsPot [] ≤ a.g.nodeIndices.length * a.g.edges.length :=
    sumUnseen_le _ _ _ _ fun x _ => succs_length_le hg x
  have h2 : a.g.nodeIndices.length ≤ a.g.nodes.length := by
    unfold SGraph.nodeIndices
    exact Nat.le_trans (List.length_filter_le _ _) (by simp)
  have h3 := Nat.mul_le_mul_right a.g.edges.length h2
  simp only [List.length_singleton, Nat.mul_add]
  omega

/-- **Completeness of the DFS.** On a well-formed graph, with the checker's fuel bound, the result
contains the start node and is closed under successors. Stated impredicatively (the `Path`
relation lives in `Props/C09`): every `n` that belongs to every successor-closed set containing
`s` is returned. -/
theorem reachable_complete {a : Automaton K P} (hg : a.g.WF) (s n : Nat)
    (hn : ∀ S : Nat → Prop, S s → (∀ m d, S m → d ∈ a.g.succs m → S d) → S n) :
    n ∈ a.reachable (a.g.nodes.length * (a.g.edges.length + 2) + 2) [s] [] := by
  obtain ⟨_, h2, h3⟩ := reachable_closed a _ [s] [] (dfs_bound_ok hg s) (by simp)
  exact hn (fun m => m ∈ a.reachable _ [s] []) (h2 s (by simp)) (fun m d hm hd => h3 m hm d hd)

theorem wfReachable_complete {a : Automaton K P} (hg : a.g.WF)
    (H : ∀ s, a.g.containsNode s = true →
      ∀ S : Nat → Prop, S a.root → (∀ m d, S m → d ∈ a.g.succs m → S d) → S s) :
    a.wfReachable = true := by
  unfold wfReachable
  simp only [List.all_eq_true, List.contains_iff_mem]
  intro s hs
  exact reachable_complete hg a.root s (H s (mem_liveStates.1 hs))

end Automaton

/-! ### `populateScopes` establishes clause (h): scopes cover the outgoing constraints' keys -/

theorem mapR_ok_mem {α β} {f : α → R β} :
    ∀ {l : List α} {ys : List β}, mapR f l = .ok ys → ∀ x ∈ l, ∃ y ∈ ys, f x = .ok y
  | [], _, _, x, hx => by cases hx
  | z :: l, ys, h, x, hx => by
    rw [mapR] at h
    split at h
    · cases h
    · rename_i y hy
      split at h
      · cases h
      · rename_i ys' hys
        cases h
        rcases List.mem_cons.1 hx with rfl | hx
        · exact ⟨y, List.mem_cons_self, hy⟩
        · obtain ⟨y', hy', hf⟩ := mapR_ok_mem hys x hx
          exact ⟨y', List.mem_cons_of_mem _ hy', hf⟩

namespace Automaton
variable {K P : Type}

/-- `constraints(state)` lists the constraint of every transition in `constraint_order`. -/
theorem constraintsAt_ok {a : Automaton K P} {n : Nat} {cs : List (Constraint K P)}
    (h : a.constraintsAt n = .ok cs) {w : AState K} (hw : a.g.weight? n = some w) :
    ∀ t ∈ w.corder, ∀ e c, a.g.edge? t = some e → e.w = some c → c ∈ cs := by
  intro t ht e c he hc
  unfold constraintsAt corderOf state at h
  rw [hw] at h
  simp only [Except.map] at h
  obtain ⟨y, hy, hf⟩ := mapR_ok_mem h t ht
  unfold constraintOf at hf
  rw [he] at hf
  simp only [hc, Except.ok.injEq] at hf
  exact hf ▸ hy

theorem modifyState_weight?_self {a a1 : Automaton K P} {n : Nat} {f : AState K → AState K}
    (h : a.modifyState n f = .ok a1) {w : AState K} (hw : a.g.weight? n = some w) :
    a1.g.weight? n = some (f w) := by
  obtain ⟨_, rfl⟩ := modifyState_ok_wf h
  obtain ⟨nd, hnd, rfl⟩ := weight?_eq_some.1 hw
  show ((a.g.modifyNode n _).node? n).map (·.w) = _
  rw [SGraph.node?_modifyNode, if_pos rfl, hnd]
  rfl

theorem modifyState_node?_ne {a a1 : Automaton K P} {n m : Nat} {f : AState K → AState K}
    (h : a.modifyState n f = .ok a1) (hm : n ≠ m) : a1.g.node? m = a.g.node? m := by
  obtain ⟨_, rfl⟩ := modifyState_ok_wf h
  show (a.g.modifyNode n _).node? m = _
  rw [SGraph.node?_modifyNode, if_neg hm]

variable [DecidableEq K]

theorem setScopes_untouched (req : K → List K) (fuel : Nat) (fwd bwd : List (Nat × List K))
    (n : Nat) :
    ∀ (ns : List Nat) (a a' : Automaton K P), n ∉ ns →
      setScopes req fuel fwd bwd a ns = .ok a' → a'.g.node? n = a.g.node? n
  | [], a, a', _, h => by
    rw [setScopes] at h; cases h; rfl
  | m :: ns, a, a', hn, h => by
    obtain ⟨_, _, _, _, a1, _, _, _, _, hmod, hrest⟩ := setScopes_cons_ok h
    rw [setScopes_untouched req fuel fwd bwd n ns a1 a'
      (fun hm => hn (List.mem_cons_of_mem _ hm)) hrest]
    exact modifyState_node?_ne hmod fun e => hn (e ▸ List.mem_cons_self)

/-- Clause (h) at state `s`. -/
def Covers (a : Automaton K P) (s : Nat) : Prop :=
  ∀ w, a.g.weight? s = some w → ∀ t ∈ w.corder,
    ∀ e c, a.g.edge? t = some e → e.w = some c → ∀ k ∈ c.args, k ∈ w.scope

theorem setScopes_covers {req : K → List K} (hacy : RankAcyclic req) (fuel : Nat)
    (fwd bwd : List (Nat × List K)) :
    ∀ (ns : List Nat) (a a' : Automaton K P), ns.Nodup →
      setScopes req fuel fwd bwd a ns = .ok a' → ∀ n ∈ ns, Covers a' n
  | [], _, _, _, _, n, hn => by cases hn
  | m :: ns, a, a', hnd, h, n, hn => by
    rw [List.nodup_cons] at hnd
    obtain ⟨f, b, cs, more, a1, _, _, hcs, hmore, hmod, hrest⟩ := setScopes_cons_ok h
    rcases List.mem_cons.1 hn with rfl | hn
    · intro w' hw' t ht e c he hc k hk
      have hsame := setScopes_sameButScope req fuel fwd bwd _ a a' h
      obtain ⟨hlive, _⟩ := modifyState_ok_wf hmod
      have hw := weight?_of_live hlive
      have hw1 := modifyState_weight?_self hmod hw
      have hnode := setScopes_untouched req fuel fwd bwd n ns a1 a' hnd.1 hrest
      have : a'.g.weight? n = a1.g.weight? n := by
        unfold SGraph.weight?; rw [hnode]
      rw [this, hw1] at hw'
      cases hw'
      rw [hsame.edge?] at he
      have hc' : c ∈ cs := constraintsAt_ok hcs hw t ht e c he hc
      have hkf : k ∈ cs.flatMap (·.args) := List.mem_flatMap.2 ⟨c, hc', hk⟩
      have spec := c12_all_any_fuel req hacy _ _ _ _ hmore
      show k ∈ _ ++ more
      by_cases hks : k ∈ f.filter fun k => b.contains k
      · exact List.mem_append_left _ hks
      · exact List.mem_append_right _ ((spec.exact k).2 (Needed.root hkf hks))
    · exact setScopes_covers hacy fuel fwd bwd ns a1 a' hnd.2 hrest n hn

/-- **`populate_scopes` establishes clause (h)** (on an acyclic indexing scheme). -/
theorem populateScopes_covers {req : K → List K} (hacy : RankAcyclic req) {fuel : Nat}
    {a a' : Automaton K P} (h : populateScopes req fuel a = .ok a') :
    ∀ s w, a'.g.weight? s = some w → ∀ t ∈ w.corder,
      ∀ e c, a'.g.edge? t = some e → e.w = some c → ∀ k ∈ c.args, k ∈ w.scope := by
  intro s w hw
  have hsame := populateScopes_sameButScope h
  have hlive : s ∈ a.g.nodeIndices := by
    rw [SGraph.mem_nodeIndices, ← hsame.containsNode]
    exact live_of_weight? hw
  unfold populateScopes at h
  split at h
  · cases h
  · split at h
    · exact setScopes_covers hacy fuel _ _ _ a a' (SGraph.nodup_nodeIndices a.g) h s hlive w hw
    · cases h
    · cases h

end Automaton

/-! ### `addPattern` and the key lists of accepted patterns -/

namespace SGraph
variable {N E : Type}

theorem weight?_modifyNode_w (g : SGraph N E) (i : Nat) (f : GNode N → GNode N)
    (hf : ∀ nd, (f nd).w = nd.w) (j : Nat) : (g.modifyNode i f).weight? j = g.weight? j := by
  unfold weight?
  rw [node?_modifyNode]
  split
  · cases g.node? j with
    | none => rfl
    | some nd => simp [hf]
  · rfl

theorem weight?_setWeight (g : SGraph N E) (i : Nat) (f : N → N) (j : Nat) :
    (g.setWeight i f).weight? j = if i = j then (g.weight? j).map f else g.weight? j := by
  unfold weight? setWeight
  rw [node?_modifyNode]
  split
  · cases g.node? j with
    | none => rfl
    | some nd => rfl
  · rfl

theorem weight?_addNode (g : SGraph N E) (w : N) (j : Nat) :
    (g.addNode w).1.weight? j = some w ∨ (g.addNode w).1.weight? j = g.weight? j := by
  unfold addNode weight?
  cases g.freeNodes with
  | nil =>
    show Option.map _ ((g.nodes ++ [some ⟨w, [], []⟩])[j]?).join = _ ∨
      Option.map _ ((g.nodes ++ [some ⟨w, [], []⟩])[j]?).join = _
    rw [join_getElem?_concat]
    split
    · exact .inl rfl
    · exact .inr rfl
  | cons i rest =>
    show Option.map _ ((g.nodes.set i (some ⟨w, [], []⟩))[j]?).join = _ ∨
      Option.map _ ((g.nodes.set i (some ⟨w, [], []⟩))[j]?).join = _
    rw [join_getElem?_set]
    split
    · exact .inl rfl
    · exact .inr rfl

theorem weight?_addEdge {g g' : SGraph N E} {a b e : Nat} {w : E}
    (h : g.addEdge a b w = .ok (g', e)) (j : Nat) : g'.weight? j = g.weight? j := by
  obtain ⟨_, _, edges', free', _, rfl⟩ := addEdge_ok h
  refine (weight?_modifyNode_w _ _ _ ?_ j).trans ((weight?_modifyNode_w _ _ _ ?_ j).trans rfl)
  · intro nd; rfl
  · intro nd; rfl

end SGraph

namespace Automaton
variable {K P : Type}

/-- Every accepted `(pattern id, key list)` of `a'` is one of `a` (possibly at another state) or
the pair `extra`. -/
def MatchesIn (a a' : Automaton K P) (extra : Option (Nat × List K)) : Prop :=
  ∀ s w', a'.g.weight? s = some w' → ∀ m ∈ w'.matches_,
    (∃ s0 w, a.g.weight? s0 = some w ∧ m ∈ w.matches_) ∨ some m = extra

theorem MatchesIn.refl (a : Automaton K P) : MatchesIn a a none :=
  fun s w hw _ hm => .inl ⟨s, w, hw, hm⟩

theorem MatchesIn.trans {a a' a'' : Automaton K P} {x : Option (Nat × List K)}
    (h1 : MatchesIn a a' none) (h2 : MatchesIn a' a'' x) : MatchesIn a a'' x := by
  intro s w'' hw'' m hm
  rcases h2 s w'' hw'' m hm with ⟨s0, w', hw', hm'⟩ | h
  · rcases h1 s0 w' hw' m hm' with h | h
    · exact .inl h
    · cases h
  · exact .inr h

theorem matchesIn_addNonDetNode (a : Automaton K P) : MatchesIn a a.addNonDetNode.1 none := by
  intro s w' hw' m hm
  change (a.g.addNode {}).1.weight? s = some w' at hw'
  rcases SGraph.weight?_addNode a.g {} s with h | h
  · rw [h] at hw'; cases hw'; cases hm
  · rw [h] at hw'; exact .inl ⟨s, w', hw', hm⟩

theorem matchesIn_appendEdge {a a' : Automaton K P} {p ch : Nat} {c : Option (Constraint K P)}
    (h : a.appendEdge p ch c = .ok a') : MatchesIn a a' none := by
  unfold appendEdge at h
  split at h
  · cases h; exact MatchesIn.refl a
  · split at h
    · cases h
    · rename_i g e hadd
      obtain ⟨_, rfl⟩ := modifyState_ok_wf h
      intro s w' hw' m hm
      change (g.setWeight p _).weight? s = some w' at hw'
      rw [SGraph.weight?_setWeight, SGraph.weight?_addEdge hadd] at hw'
      split at hw'
      · cases hw0 : a.g.weight? s with
        | none => rw [hw0] at hw'; cases hw'
        | some w =>
          rw [hw0] at hw'
          simp only [Option.map_some, Option.some.injEq] at hw'
          refine .inl ⟨s, w, hw0, ?_⟩
          rw [← hw'] at hm
          split at hm <;> exact hm
      · exact .inl ⟨s, w', hw', hm⟩

theorem matchesIn_addTransition {a a' : Automaton K P} {p ch : Nat}
    {c : Option (Constraint K P)} (h : a.addTransition p c = .ok (a', ch)) :
    MatchesIn a a' none := by
  unfold addTransition at h
  have h0 := matchesIn_addNonDetNode a
  revert h h0
  cases a.addNonDetNode with
  | mk a0 child =>
    intro h h0
    simp only at h
    split at h
    · cases h
    · rename_i a1 happ
      cases h
      exact h0.trans (matchesIn_appendEdge happ)

theorem matchesIn_addMatch {a a' : Automaton K P} {s pid : Nat} {keys : List K}
    (h : a.addMatch s pid keys = .ok a') : MatchesIn a a' (some (pid, keys)) := by
  unfold addMatch at h
  split at h
  · cases h
  · split at h
    · cases h; exact fun s w hw _ hm => .inl ⟨s, w, hw, hm⟩
    · obtain ⟨_, rfl⟩ := modifyState_ok_wf h
      intro s' w' hw' m hm
      change (a.g.setWeight s _).weight? s' = some w' at hw'
      rw [SGraph.weight?_setWeight] at hw'
      split at hw'
      · cases hw0 : a.g.weight? s' with
        | none => rw [hw0] at hw'; cases hw'
        | some w =>
          rw [hw0] at hw'
          simp only [Option.map_some, Option.some.injEq] at hw'
          rw [← hw'] at hm
          rcases List.mem_append.1 hm with hm | hm
          · exact .inl ⟨s', w, hw0, hm⟩
          · exact .inr (by rw [List.mem_singleton.1 hm])
      · exact .inl ⟨s', w', hw', hm⟩

variable [DecidableEq K]

theorem matchesIn_addPatternLoop (req : K → List K) (fuel : Nat) :
    ∀ (cs : List (Cons K P)) (a a' : Automaton K P) (s s' : Nat) (keys0 keys : List K),
      addPatternLoop req fuel a s keys0 cs = .ok (a', s', keys) → MatchesIn a a' none
  | [], a, a', s, s', keys0, keys, h => by
    rw [addPatternLoop] at h
    cases h; exact MatchesIn.refl a
  | c :: cs, a, a', s, s', keys0, keys, h => by
    rw [addPatternLoop] at h
    split at h
    · cases h
    · split at h
      · cases h
      · rename_i a1 s1 hadd
        exact (matchesIn_addTransition hadd).trans
          (matchesIn_addPatternLoop req fuel cs a1 a' s1 s' _ keys h)

/-- After `add_pattern(cs, pid, extra)` every accepted `(pattern id, key list)` is an old one or
`(pid, keys)` with `keys` prerequisite-ordered. -/
theorem addPattern_matches {req : K → List K} (hacy : RankAcyclic req) {fuel : Nat}
    {a a' : Automaton K P} {cs : List (Cons K P)} {pid : Nat} {extra : List K}
    (h : addPattern req fuel a cs pid extra = .ok a') :
    ∀ s w', a'.g.weight? s = some w' → ∀ m ∈ w'.matches_,
      (∃ s0 w, a.g.weight? s0 = some w ∧ m ∈ w.matches_) ∨
        (m.1 = pid ∧ prereqOrdered req m.2 = true) := by
  obtain ⟨keys0, a1, s1, keys, _, hloop, hmatch, hord⟩ := addPattern_keys_ordered hacy h
  intro s w' hw' m hm
  rcases ((matchesIn_addPatternLoop req fuel cs a a1 a.root s1 keys0 keys hloop).trans
    (matchesIn_addMatch hmatch)) s w' hw' m hm with h | h
  · exact .inl h
  · cases h; exact .inr ⟨rfl, hord⟩

/-- `addPatterns` keeps every accepted pattern's key list prerequisite-ordered. -/
theorem addPatterns_matches_ordered {req : K → List K} (hacy : RankAcyclic req) (fuel : Nat) :
    ∀ (ps : List (Nat × List (Cons K P) × List K)) (a a' : Automaton K P),
      (∀ s w, a.g.weight? s = some w → ∀ m ∈ w.matches_, prereqOrdered req m.2 = true) →
      addPatterns req fuel a ps = .ok a' →
      ∀ s w, a'.g.weight? s = some w → ∀ m ∈ w.matches_, prereqOrdered req m.2 = true
  | [], a, a', H, h => by
    rw [addPatterns] at h; cases h; exact H
  | (pid, cs, extra) :: ps, a, a', H, h => by
    rw [addPatterns] at h
    split at h
    · cases h
    · rename_i a1 hadd
      refine addPatterns_matches_ordered hacy fuel ps a1 a' ?_ h
      intro s w hw m hm
      rcases addPattern_matches hacy hadd s w hw m hm with ⟨s0, w0, hw0, hm0⟩ | ⟨_, ho⟩
      · exact H s0 w0 hw0 m hm0
      · exact ho

omit [DecidableEq K] in
theorem new_no_matches (s : Nat) (w : AState K) (h : (new : Automaton K P).g.weight? s = some w) :
    w.matches_ = [] := by
  rcases SGraph.weight?_addNode (SGraph.empty : SGraph (AState K) (Option (Constraint K P))) {} s
    with h' | h'
  · change (new : Automaton K P).g.weight? s = _ at h'
    rw [h'] at h; cases h; rfl
  · change (new : Automaton K P).g.weight? s = _ at h'
    rw [h'] at h
    simp [SGraph.weight?, SGraph.node?, SGraph.empty] at h

end Automaton

/-! ### `SameButScope` preserves the structural well-formedness of the graph -/

namespace Automaton
variable {K P : Type}

theorem SameButScope.wf {a a' : Automaton K P} (h : SameButScope a a') (wf : a.g.WF) :
    a'.g.WF where
  edge_src e ed he := by
    rw [h.edge?] at he
    obtain ⟨nd, hnd, hm⟩ := wf.edge_src e ed he
    obtain ⟨nd', hnd', ho, _, _⟩ := h.symm_node_some hnd
    exact ⟨nd', hnd', ho ▸ hm⟩
  edge_dst e ed he := by
    rw [h.edge?] at he
    obtain ⟨nd, hnd, hm⟩ := wf.edge_dst e ed he
    obtain ⟨nd', hnd', _, hi, _⟩ := h.symm_node_some hnd
    exact ⟨nd', hnd', hi ▸ hm⟩
  out_edge s nd' hnd' e hm := by
    obtain ⟨nd, hnd, ho, _, _⟩ := h.node_some hnd'
    rw [h.edge?]
    exact wf.out_edge s nd hnd e (ho ▸ hm)
  inc_edge s nd' hnd' e hm := by
    obtain ⟨nd, hnd, _, hi, _⟩ := h.node_some hnd'
    rw [h.edge?]
    exact wf.inc_edge s nd hnd e (hi ▸ hm)
  out_nodup s nd' hnd' := by
    obtain ⟨nd, hnd, ho, _, _⟩ := h.node_some hnd'
    exact ho ▸ wf.out_nodup s nd hnd
  inc_nodup s nd' hnd' := by
    obtain ⟨nd, hnd, _, hi, _⟩ := h.node_some hnd'
    exact hi ▸ wf.inc_nodup s nd hnd

end Automaton

/-! ### `setWeight` preserves the graph invariants (toolkit for the hypothesis `hg`) -/

namespace SGraph
variable {N E : Type}

theorem node?_setWeight_some {g : SGraph N E} {i j : Nat} {f : N → N} {nd' : GNode N}
    (h : (g.setWeight i f).node? j = some nd') :
    ∃ nd, g.node? j = some nd ∧ nd'.out = nd.out ∧ nd'.inc = nd.inc := by
  unfold setWeight at h
  rw [node?_modifyNode] at h
  split at h
  · cases hn : g.node? j with
    | none => rw [hn] at h; cases h
    | some nd => rw [hn] at h; cases h; exact ⟨nd, rfl, rfl, rfl⟩
  · exact ⟨nd', h, rfl, rfl⟩

theorem node?_setWeight_of_some {g : SGraph N E} {i j : Nat} (f : N → N) {nd : GNode N}
    (h : g.node? j = some nd) :
    ∃ nd', (g.setWeight i f).node? j = some nd' ∧ nd'.out = nd.out ∧ nd'.inc = nd.inc := by
  unfold setWeight
  rw [node?_modifyNode, h]
  split
  · exact ⟨_, rfl, rfl, rfl⟩
  · exact ⟨nd, rfl, rfl, rfl⟩

theorem wf_setWeight {g : SGraph N E} (wf : g.WF) (i : Nat) (f : N → N) :
    (g.setWeight i f).WF where
  edge_src e ed he := by
    obtain ⟨nd, hnd, hm⟩ := wf.edge_src e ed he
    obtain ⟨nd', hnd', ho, _⟩ := node?_setWeight_of_some (i := i) f hnd
    exact ⟨nd', hnd', ho ▸ hm⟩
  edge_dst e ed he := by
    obtain ⟨nd, hnd, hm⟩ := wf.edge_dst e ed he
    obtain ⟨nd', hnd', _, hi⟩ := node?_setWeight_of_some (i := i) f hnd
    exact ⟨nd', hnd', hi ▸ hm⟩
  out_edge s nd' hnd' e hm := by
    obtain ⟨nd, hnd, ho, _⟩ := node?_setWeight_some hnd'
    exact wf.out_edge s nd hnd e (ho ▸ hm)
  inc_edge s nd' hnd' e hm := by
    obtain ⟨nd, hnd, _, hi⟩ := node?_setWeight_some hnd'
    exact wf.inc_edge s nd hnd e (hi ▸ hm)
  out_nodup s nd' hnd' := by
    obtain ⟨nd, hnd, ho, _⟩ := node?_setWeight_some hnd'
    exact ho ▸ wf.out_nodup s nd hnd
  inc_nodup s nd' hnd' := by
    obtain ⟨nd, hnd, _, hi⟩ := node?_setWeight_some hnd'
    exact hi ▸ wf.inc_nodup s nd hnd

theorem freeOK_setWeight {g : SGraph N E} (fo : g.FreeOK) (i : Nat) (f : N → N) :
    (g.setWeight i f).FreeOK where
  node_free j hj := by
    obtain ⟨hlt, hv⟩ := fo.node_free j hj
    refine ⟨by simpa [setWeight, modifyNode] using hlt, ?_⟩
    unfold setWeight
    rw [node?_modifyNode, hv]
    split <;> rfl
  edge_free := fo.edge_free
  node_nodup := fo.node_nodup
  edge_nodup := fo.edge_nodup

end SGraph

namespace Automaton
variable {K P : Type}

theorem new_graph_wf : (new : Automaton K P).g.WF ∧ (new : Automaton K P).g.FreeOK :=
  ⟨SGraph.wf_addNode SGraph.wf_empty _ SGraph.freeOK_empty.head_node,
    SGraph.freeOK_addNode SGraph.freeOK_empty _⟩

theorem modifyState_graph_wf {a a' : Automaton K P} {s : Nat} {f : AState K → AState K}
    (h : a.modifyState s f = .ok a') (hg : a.g.WF ∧ a.g.FreeOK) : a'.g.WF ∧ a'.g.FreeOK := by
  obtain ⟨_, rfl⟩ := modifyState_ok_wf h
  exact ⟨SGraph.wf_setWeight hg.1 s f, SGraph.freeOK_setWeight hg.2 s f⟩

theorem appendEdge_graph_wf {a a' : Automaton K P} {p ch : Nat} {c : Option (Constraint K P)}
    (h : a.appendEdge p ch c = .ok a') (hg : a.g.WF ∧ a.g.FreeOK) : a'.g.WF ∧ a'.g.FreeOK := by
  unfold appendEdge at h
  split at h
  · cases h; exact hg
  · split at h
    · cases h
    · rename_i g e hadd
      exact modifyState_graph_wf h
        ⟨SGraph.wf_addEdge hg.1 hg.2.head_edge hadd, SGraph.freeOK_addEdge hg.2 hadd⟩

end Automaton

end Pm
