/-
Proofs/PGProgDefs.lean — vocabulary of the proof that every successfully built SINGLE-ROOT
port-graph automaton satisfies the per-state conditions `AnchG.StateOK` of the anchored traversal
theorem T-RUN-ANCH-PG, and the step-level invariant `StrProg.SP` carried through the builder under
a tree hypothesis that is CONDITIONAL on the input constraints (`TreeHypC`): unlike `charTree`,
the port-graph decomposition `pgTree` labels the root of its tree (and hence makes
`add_constraint_tree` add a fallback edge from the state itself) when it is handed a one-key
`isNotEqual` constraint, so the tree-shape clauses of `StrProg.TreeHyp` only hold when every
input constraint satisfies the edge predicate.

* `pgNoUnary c` — `c` is not `isNotEqual _ [k]`;
* `CQ c` — the edge predicate: arity-correct, single-root keys, not unary;
* `TreeHypC Q toTree` — `StrProg.TreeHyp` with all three clauses conditional on `∀ c ∈ cs, Q c`;
* `sp_insertConstraintTreeC`, `sp_iterationC`, `sp_mainLoopC`, `sp_buildC` — `SP` through
  `insert_constraint_tree`, one iteration, the main loop and `build` under `TreeHypC` (the other
  steps are the generic lemmas of Proofs/StrProgFuse, StrProgDet, StrProgMerge, StrProgFrames).
Everything lives in `namespace Pm.PGProg`.
-/
import PmVerif.Proofs.StrProgFrames
import PmVerif.Proofs.AnchGBuilt
namespace Pm
namespace PGProg
open Automaton

/-! ### the edge predicate -/

/-- `c` is not a one-key `isNotEqual` constraint. (`constraint_vec` emits such a constraint only
as the whole vector `[isNotEqual 0 [root 0]]` of a pattern whose root is isolated while the graph
has links; `PGPredicate::conditioned` never returns one.) -/
def pgNoUnary (c : PGCons) : Bool :=
  match c.pred, c.args with
  | .isNotEqual _, [_] => false
  | _, _ => true

/-- The predicate every edge constraint of a built single-root automaton satisfies. -/
structure CQ (c : PGCons) : Prop where
  arity : c.args.length = c.pred.arity
  sr : ∀ k ∈ c.args, AnchG.SR k
  nu : pgNoUnary c = true

theorem noCorner_of_noUnary {c : PGCons} (h : pgNoUnary c = true) : AnchG.pgNoCorner c = true := by
  unfold pgNoUnary at h
  unfold AnchG.pgNoCorner
  split
  · next n k hp ha =>
    rw [hp, ha] at h
    cases h
  · rfl

/-- Every port-graph predicate has at least one argument. -/
theorem pgArity_pos (p : PGPred) : 0 < p.arity := by
  cases p <;> simp [PGPred.arity]

theorem CQ.args_ne {c : PGCons} (h : CQ c) : c.args ≠ [] := by
  intro e
  have := h.arity
  rw [e] at this
  have hp := pgArity_pos c.pred
  simp at this
  omega

/-! ### the conditional tree hypothesis -/

section Generic
variable {K P : Type}

/-- `StrProg.TreeHyp` with every clause conditional on the input constraints satisfying `Q`. -/
def TreeHypC (Q : Constraint K P → Prop)
    (toTree : List (Constraint K P) → Option (CTree (Constraint K P))) : Prop :=
  ∀ cs tree, toTree cs = some tree → (∀ c ∈ cs, Q c) →
    tree.labelsAt 0 = [] ∧
    (cs ≠ [] → ∃ c n', (c, n') ∈ tree.childrenAt 0 ∧
      (tree.childrenAt n' ≠ [] ∨ tree.labelsAt n' ≠ [])) ∧
    (∀ n c n', (c, n') ∈ tree.childrenAt n → Q c)

variable [DecidableEq K] [DecidableEq P]
set_option linter.unusedSectionVars false

/-- `insert_constraint_tree` preserves `SP` under the conditional tree hypothesis. -/
theorem sp_insertConstraintTreeC {E : Nat → Prop} {Q : Constraint K P → Prop}
    {σ : Constraint K P → Bool}
    {toTree : List (Constraint K P) → Option (CTree (Constraint K P))} (hT : TreeOK toTree σ)
    (hH : TreeHypC Q toTree)
    {a a' : Automaton K P} {s fuel : Nat} {det : Bool} (inv : Inv a)
    (sp : StrProg.SP E Q a) (h : insertConstraintTree toTree a s fuel = .ok (a', det)) :
    StrProg.SP E Q a' := by
  have hA : AddTreeStmt K P := addConstraintTree_built
  unfold insertConstraintTree at h
  split at h
  · cases h
  · rename_i w hw
    rw [state_ok_iff] at hw
    split at h
    · cases h; exact sp
    · rename_i hdet
      split at h
      · cases h; exact sp
      · rename_i hemp
        have hdet' : w.det = false := by cases hx : w.det <;> simp_all
        have hcne : w.corder ≠ [] := by
          intro hc
          rw [hc] at hemp
          exact hemp rfl
        split at h
        · cases h
        · rename_i a1 drained hdr
          extract_lets pairs cs ch at h
          split at h
          · cases h
          · rename_i tree htree
            split at h
            · cases h
            · rename_i a2 added hadd
              extract_lets notAdded at h
              have hmem : ∀ i, i ∈ notAdded ↔ i < cs.length ∧ i ∉ added := by
                intro i
                simp [notAdded, List.mem_filter, and_comm]
              -- common conclusion from a context
              have fin : ∀ {a'' : Automaton K P} {Rep F},
                  Ctx σ a a1 a2 a'' s w cs ch tree fuel added Rep F → StrProg.SP E Q a'' := by
                intro a'' Rep F X
                have hcs : ∀ c ∈ cs, Q c := by
                  intro c hc
                  obtain ⟨i, hi⟩ := List.mem_iff_getElem?.1 hc
                  have hlt : i < ch.length := by
                    rw [X.len]; exact (List.getElem?_eq_some_iff.1 hi).1
                  obtain ⟨t, _, he⟩ := X.idx_edge i c ch[i] hi (List.getElem?_eq_getElem hlt)
                  exact sp.efrom t _ c he rfl
                obtain ⟨h0, hch, hQ⟩ := hH cs tree htree hcs
                have hcsne : cs ≠ [] := by
                  obtain ⟨t, ht⟩ := List.exists_mem_of_ne_nil _ hcne
                  obtain ⟨i, c, d, hci, _, _⟩ := X.edge_idx t ht
                  exact List.ne_nil_of_mem (List.mem_of_getElem? hci)
                exact StrProg.sp_ctx X h0 (hch hcsne) (fun _ => hQ) sp
              split at h
              · rename_i hempna
                cases h
                obtain ⟨Rep, F, X⟩ := StrProg.ctx_of_run hA hT inv hw hdet' hdr _ htree hadd
                  (by intro _ _; rfl) (by
                    intro inv2 _ _
                    refine ⟨_, failBuilt_nil inv2 s ch ?_⟩
                    intro i hi
                    refine Classical.byContradiction fun hn => ?_
                    have := (hmem i).2 ⟨hi, hn⟩
                    rw [List.isEmpty_iff.1 hempna] at this
                    cases this)
                exact fin X
              · split at h
                · cases h
                · rename_i a3 f h1
                  cases hrest : insertConstraintTree.addRest cs ch f a3 notAdded with
                  | error e => rw [hrest] at h; cases h
                  | ok a4 =>
                    rw [hrest] at h
                    cases h
                    obtain ⟨Rep, F, X⟩ := StrProg.ctx_of_run hA hT inv hw hdet' hdr _ htree hadd
                      (by intro _ _; rfl) (by
                        intro inv2 hs2 hchl
                        exact ⟨_, failBuilt_cons inv2 hs2 hchl
                          (fun i h1 h2 => (hmem i).2 ⟨h1, h2⟩)
                          (fun i hi => ((hmem i).1 hi).2) h1 hrest⟩)
                    exact fin X

section Loop
variable {E : Nat → Prop} {Q : Constraint K P → Prop} {σ : Constraint K P → Bool}
  {toTree : List (Constraint K P) → Option (CTree (Constraint K P))}

theorem sp_iterationC (L : StepLemmas σ toTree) (hT : TreeOK toTree σ) (hH : TreeHypC Q toTree)
    {fuel : Nat} {a a' : Automaton K P} {s : Nat} {evs evs' : List Ev} (g : Automaton.Good σ a)
    (sp : StrProg.SP E Q a) (h : iteration toTree fuel a s evs = .ok (a', evs')) :
    StrProg.SP E Q a' := by
  unfold iteration at h
  split at h
  · cases h
  · rename_i hlive
    have hs : a.Live s := by
      unfold Live; cases hx : a.g.containsNode s <;> simp_all
    split at h
    · cases h
    · rename_i a1 evs1 h1
      have p1 := L.fuse g.inv hs h1
      have k1 := Keeps.of_pres g p1
      have sp1 : StrProg.SP E Q a1 := StrProg.sp_makeConstraintsUnique g.inv hs g.rs sp h1
      split at h
      · cases h
      · rename_i a2 treeDet h2
        have p2 := (L.tree p1.inv p1.live_s h2).pres
        have k2 := k1.trans (Keeps.of_pres k1.1 p2)
        have sp2 : StrProg.SP E Q a2 := sp_insertConstraintTreeC hT hH p1.inv sp1 h2
        split at h
        · cases h
        · rename_i a3 evs3 h3
          have p3 := L.fuse p2.inv p2.live_s h3
          have k3 := k2.trans (Keeps.of_pres k2.1 p3)
          have sp3 : StrProg.SP E Q a3 :=
            StrProg.sp_makeConstraintsUnique p2.inv p2.live_s k2.1.rs sp2 h3
          exact StrProg.sp_iteration_tail _
            (fun a4 evs4 h4 => ⟨afterDet_keeps L k3 h4, StrProg.sp_afterDet k3 sp3 h4⟩) h

theorem sp_mainLoopC (L : StepLemmas σ toTree) (hT : TreeOK toTree σ) (hH : TreeHypC Q toTree)
    {fuel : Nat} : ∀ (n : Nat) {a a' : Automaton K P} (evs : List Ev), Automaton.Good σ a →
    StrProg.SP E Q a → mainLoop toTree fuel n a evs = .ok a' → StrProg.SP E Q a' := by
  intro n
  induction n with
  | zero =>
    intro a a' evs g sp h
    cases evs with
    | nil => unfold mainLoop at h; cases h; exact sp
    | cons e es => unfold mainLoop at h; cases h
  | succ n ih =>
    intro a a' evs g sp h
    cases evs with
    | nil => unfold mainLoop at h; cases h; exact sp
    | cons e es =>
      cases e with
      | topo s =>
        unfold mainLoop at h
        split at h
        · cases h
        · rename_i a1 evs1 h1
          exact ih evs1 (iteration_keeps L g h1).1 (sp_iterationC L hT hH g sp h1) h
      | _ => unfold mainLoop at h; cases h

/-- `StrProg.sp_build` under the conditional tree hypothesis: the automaton `a2` the main loop
ends with satisfies the structural invariant, the root-is-a-source invariant and `SP`, and it is
`a1` (the result of `addPatterns`) run through the main loop; the result is `populate_scopes` of
it. -/
theorem sp_buildC (hT : TreeOK toTree σ) (hH : TreeHypC Q toTree)
    {req : K → List K} {fuel : Nat} {patterns : List (Nat × List (Constraint K P) × List K)}
    {evs : List Ev} {A : Automaton K P} (h : build toTree req fuel patterns evs = .ok A)
    (hp : ∀ p ∈ patterns, (∀ c ∈ p.2.1, Q c) ∧ (E p.1 → p.2.1 = [])) :
    ∃ a2, populateScopes req fuel a2 = .ok A ∧ Inv a2 ∧ RootSrc a2 ∧ StrProg.SP E Q a2 := by
  have L := stepLemmas hT
  unfold build at h
  split at h
  · cases h
  · rename_i a1 h1
    obtain ⟨inv1, _, rs1, nd1, _⟩ := addPatterns_spec (σ := σ) h1
    have g1 : Automaton.Good σ a1 := ⟨inv1, rs1, detOKE_of_noDet nd1⟩
    obtain ⟨inv0, _, rs0, _, _⟩ := new_spec (K := K) (P := P)
    have sp1 : StrProg.SP E Q a1 :=
      (StrProg.sp0_addPatterns patterns inv0 rs0.1 StrProg.sp0_new hp h1).sp
    unfold finish at h
    split at h
    · cases h
    · rename_i a2 h2
      obtain ⟨g2, _, _⟩ := mainLoop_keeps L _ _ g1 h2
      exact ⟨a2, h, g2.inv, g2.rs, sp_mainLoopC L hT hH _ _ g1 sp1 h2⟩

end Loop
end Generic

end PGProg
end Pm
