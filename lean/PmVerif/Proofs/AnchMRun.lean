/-
Proofs/AnchMRun.lean — T-RUN-ANCH-MAT, stage 3: the visited-set pruning is lossless (the
`(state, projection)` key of a configuration with outgoing transitions or accepted patterns
determines the anchor cell; from any configuration standing for an anchor there is a successor /
an emitted match standing for the same anchor), and the theorems themselves
(`AnchM.trun_mat_sound`, `AnchM.trun_mat_complete`, `AnchM.trun_mat_main`).
Everything lives in `namespace Pm.AnchM`.
-/
import PmVerif.Proofs.AnchMReach
namespace Pm
namespace AnchM
open Automaton

variable {A : Automaton MKey CharPred} {ps : List MatPattern} {h : MatHost}

/-- The configurations at state `s` that stand for the anchor `(r, c)`: the initial configuration
at the root, or a binding at `(r, c)` with a non-negative box. (Unlike for strings the box is not
determined by anchor and state: it depends on the path taken.) -/
def Good (A : Automaton MKey CharPred) (r c s : Nat) (m : MatPos) : Prop :=
  (m = .unbound ∧ s = A.root) ∨ ∃ R C, m = .bound r c 0 0 R C ∧ 0 ≤ R ∧ 0 ≤ C

/-- Fact 4, the key determines the anchor: a reachable configuration with the same projection
as a good configuration for `(r, c)` — at a state whose projected keys contain the start key — is
itself good for `(r, c)`. -/
theorem good_of_key {r c s : Nat} {m m₂ : MatPos} {w : AState MKey}
    (hg : Good A r c s m) (hinv : Inv A h s m₂)
    (h0 : (0, 0) ∈ w.scope ++ dedup (w.matches_.flatMap (·.2)))
    (hkey : visitKey matDomain w m₂ = visitKey matDomain w m) : Good A r c s m₂ := by
  have hget : MatPos.get m₂ (0, 0) = MatPos.get m (0, 0) := List.map_inj_left.mp hkey (0, 0) h0
  rcases hg with ⟨rfl, hs⟩ | ⟨R, C, rfl, hR, hC⟩
  · rcases hinv with ⟨rfl, _⟩ | ⟨r₂, c₂, R₂, C₂, rfl, _, hR₂, hC₂, _⟩
    · exact .inl ⟨rfl, hs⟩
    · rw [get_bound_zero r₂ c₂ R₂ C₂ hR₂ hC₂] at hget
      cases hget
  · rcases hinv with ⟨rfl, _⟩ | ⟨r₂, c₂, R₂, C₂, rfl, _, hR₂, hC₂, _⟩
    · rw [get_bound_zero r c R C hR hC] at hget
      cases hget
    · rw [get_bound_zero r c R C hR hC, get_bound_zero r₂ c₂ R₂ C₂ hR₂ hC₂] at hget
      cases hget
      exact .inr ⟨R₂, C₂, rfl, hR₂, hC₂⟩

/-- From a good configuration for `(r, c)` there is a step candidate anchored at `(r, c)` whose
box is non-negative and contains every bindable scope key. -/
theorem good_step {r c s : Nat} {m : MatPos} {w : AState MKey}
    (hcell : (matCell h r c).isSome = true)
    (hst : StateOK A ps s w) (hne : w.scope ≠ []) (hg : Good A r c s m) :
    ∃ cands R C, stepCands matDomain h w m = .ok cands ∧ .bound r c 0 0 R C ∈ cands ∧
      0 ≤ R ∧ 0 ≤ C ∧ ∀ k ∈ w.scope, matCellAt h r c k = true → k.1 ≤ R ∧ k.2 ≤ C := by
  obtain ⟨rest, hs, h0⟩ : ∃ rest, w.scope = (0, 0) :: rest ∧ (0, 0) ∉ rest := by
    rcases hst.scope_shape with h | h
    · exact absurd h hne
    · exact h
  have hnn : NN rest := by
    have := hst.scope_nn
    rw [hs] at this
    exact NN_tail this
  rcases hg with ⟨rfl, _⟩ | ⟨R, C, rfl, hR, hC⟩
  · have hv : (r, c) ∈ matAllCells h := (mem_matAllCells h (r, c)).mpr hcell
    obtain ⟨g1, g2, g3⟩ := stepBox_spec h r c (0, 0) rest
    refine ⟨_, _, _, stepCands_unbound h w rest hs h0 hnn (List.ne_nil_of_mem hv),
      List.mem_map.mpr ⟨(r, c), hv, rfl⟩, g1, g2, ?_⟩
    rw [hs]; exact g3
  · obtain ⟨g1, g2, g3⟩ := stepBox_spec h r c (R, C) rest
    refine ⟨_, _, _, stepCands_bound h w r c R C rest hs h0 hnn hR hC,
      List.mem_singleton.mpr rfl, g1, g2, ?_⟩
    rw [hs]; exact g3

/-- From a good configuration for `(r, c)` at an accepting state, the match with the box
`boxMax ks` is emitted whenever every recorded key is bindable. -/
theorem good_emit {r c s pid : Nat} {ks : List MKey} {m : MatPos} {w : AState MKey}
    {em : List (Match MatPos)} (hcell : (matCell h r c).isSome = true)
    (hst : StateOK A ps s w) (hg : Good A r c s m) (hm : (pid, ks) ∈ w.matches_) (hne : ks ≠ [])
    (hb : ∀ k ∈ ks, matCellAt h r c k = true)
    (he : emitMatches matDomain h m w.matches_ = .ok em) :
    (pid, .bound r c 0 0 (boxMax ks).1 (boxMax ks).2) ∈ em := by
  rw [mem_emitMatches he]
  refine ⟨ks, hm, ?_⟩
  obtain ⟨hshape, _, hnn, _⟩ := hst.matches_ pid ks hm
  obtain ⟨rest, rfl, h0⟩ : ∃ rest, ks = (0, 0) :: rest ∧ (0, 0) ∉ rest := by
    rcases hshape with h | h
    · exact absurd h hne
    · exact h
  rcases hg with ⟨rfl, _⟩ | ⟨R, C, rfl, hR, hC⟩
  · have hv : (r, c) ∈ matAllCells h := (mem_matAllCells h (r, c)).mpr hcell
    exact emit_unbound_complete h rest h0 (NN_tail hnn) (r, c) hv hb
  · exact emit_bound_complete h r c R C rest h0 (NN_tail hnn) hR hC hb

/-! ### completeness along an acceptance path -/

section Complete
variable {fuel : Nat} {ms : List (Match MatPos)} {seen : List (Nat × List (Option MVal))}

/-- A good configuration whose key is in the visit log has an expanded twin that is good for
the same anchor. -/
theorem twin {exp : List (Nat × MatPos)} {r c s : Nat} {m : MatPos} {w : AState MKey}
    (hok : matProgramOK A ps = true)
    (hF : Forall2 (fun sm key => ∃ w, A.g.weight? sm.1 = some w ∧
      key = (sm.1, visitKey matDomain w sm.2)) exp seen)
    (hreach : ∀ sm ∈ exp, Reach matDomain A h sm.1 sm.2)
    (hw : A.g.weight? s = some w) (hg : Good A r c s m)
    (h0 : (0, 0) ∈ w.scope ++ dedup (w.matches_.flatMap (·.2)))
    (hkey : (s, visitKey matDomain w m) ∈ seen) :
    ∃ m₂, (s, m₂) ∈ exp ∧ Good A r c s m₂ := by
  obtain ⟨⟨s', m₂⟩, hmem, w', hw', heq⟩ := hF.mem_right hkey
  simp only [Prod.mk.injEq] at heq
  obtain ⟨rfl, hk⟩ := heq
  rw [hw] at hw'
  cases hw'
  exact ⟨m₂, hmem, good_of_key hg (reach_inv hok (hreach _ hmem)) h0 hk.symm⟩

theorem complete_aux (hok : matProgramOK A ps = true)
    (hr : run matDomain A h fuel = .ok (ms, seen)) (r c : Nat)
    (hcell : (matCell h r c).isSome = true)
    (pid : Nat) (ks : List MKey) (hne : ks ≠ []) (hb : ∀ k ∈ ks, matCellAt h r c k = true)
    (s : Nat) (hacc : AccDetK (matSigma h r c) A s pid ks) :
    ∀ m, Good A r c s m → (∀ w, A.g.weight? s = some w → (s, visitKey matDomain w m) ∈ seen) →
      (pid, MatPos.bound r c 0 0 (boxMax ks).1 (boxMax ks).2) ∈ ms := by
  obtain ⟨_, exp, hF, ⟨ems, hE, rfl⟩, hreach, hclosed⟩ := trun_closed hr
  induction hacc with
  | @here s pid ks w hw hmem =>
    intro m hg hkey
    have hst := stateOK_of_programOK hok hw
    have h0 : (0, 0) ∈ w.scope ++ dedup (w.matches_.flatMap (·.2)) := by
      apply List.mem_append_right
      rw [Baseline.mem_dedup, List.mem_flatMap]
      refine ⟨(pid, ks), hmem, ?_⟩
      rcases (hst.matches_ pid ks hmem).1 with h | ⟨rest, h, _⟩
      · exact absurd h hne
      · rw [h]; exact List.mem_cons_self
    obtain ⟨m₂, hexp, hg₂⟩ := twin hok hF hreach hw hg h0 (hkey w hw)
    obtain ⟨em, hem, w', hw', he⟩ := hE.mem_left hexp
    rw [hw] at hw'
    cases hw'
    exact List.mem_flatten.mpr ⟨em, hem, good_emit hcell hst hg₂ hmem hne hb he⟩
  | @con s pid ks w t e q hw ht he hcw hsig _ ih =>
    intro m hg hkey
    have hst := stateOK_of_programOK hok hw
    have hsne : w.scope ≠ [] := hst.scope_ne (.inl (List.ne_nil_of_mem ht))
    have h0 : (0, 0) ∈ w.scope ++ dedup (w.matches_.flatMap (·.2)) := by
      apply List.mem_append_left
      rcases hst.scope_shape with h | ⟨rest, h, _⟩
      · exact absurd h hsne
      · rw [h]; exact List.mem_cons_self
    obtain ⟨m₂, hexp, hg₂⟩ := twin hok hF hreach hw hg h0 (hkey w hw)
    obtain ⟨nexts, hn, hcl⟩ := hclosed _ hexp
    obtain ⟨cands, R, C, hc, hcand, hR, hC, hcov⟩ := good_step hcell hst hsne hg₂
    have hnext : (e.dst, MatPos.bound r c 0 0 R C) ∈ nexts :=
      (mem_nextLegalStates hn _ _).mpr ⟨w, cands, hw, hc, hcand,
        .inl ⟨t, e, q, ht, he, hcw, by rw [sat_cand hst ht he hcw r c R C hcov, hsig], rfl⟩⟩
    obtain ⟨w', hw', hseen⟩ := hcl _ hnext
    refine ih hne hb _ (.inr ⟨R, C, rfl, hR, hC⟩) ?_
    intro w'' hw''
    rw [hw'] at hw''
    cases hw''
    exact hseen
  | @eps s pid ks w t e hw ht he hd _ ih =>
    intro m hg hkey
    have hst := stateOK_of_programOK hok hw
    have hsne : w.scope ≠ [] := hst.scope_ne (.inr (List.ne_nil_of_mem ht))
    have h0 : (0, 0) ∈ w.scope ++ dedup (w.matches_.flatMap (·.2)) := by
      apply List.mem_append_left
      rcases hst.scope_shape with h | ⟨rest, h, _⟩
      · exact absurd h hsne
      · rw [h]; exact List.mem_cons_self
    obtain ⟨m₂, hexp, hg₂⟩ := twin hok hF hreach hw hg h0 (hkey w hw)
    obtain ⟨nexts, hn, hcl⟩ := hclosed _ hexp
    obtain ⟨cands, R, C, hc, hcand, hR, hC, hcov⟩ := good_step hcell hst hsne hg₂
    have hnext : (e.dst, MatPos.bound r c 0 0 R C) ∈ nexts :=
      (mem_nextLegalStates hn _ _).mpr ⟨w, cands, hw, hc, hcand,
        .inr ⟨t, e, ht, he, (eps_cond_iff hst r c R C hcov).mpr hd, rfl⟩⟩
    obtain ⟨w', hw', hseen⟩ := hcl _ hnext
    refine ih hne hb _ (.inr ⟨R, C, rfl, hR, hC⟩) ?_
    intro w'' hw''
    rw [hw'] at hw''
    cases hw''
    exact hseen

end Complete

/-! ### the theorems -/

/-- "Accepting paths witness their recorded keys" on the host `h`: whenever the automaton accepts
`i` from its root under `matSigma h r c` (anchor cell existing) at a state recording `ks`, every
key of `ks` denotes an existing host cell. True of every built automaton
(`AnchM.keysWitnessed_built`); not implied by `matProgramOK` alone (`Props/TRunMat.lean`,
`trun_mat_needs_witness`). -/
def KeysWitnessed (A : Automaton MKey CharPred) (h : MatHost) : Prop :=
  ∀ r c i ks, (matCell h r c).isSome = true → AccDetK (matSigma h r c) A A.root i ks →
    ∀ k ∈ ks, (matCell h (r + k.1.toNat) (c + k.2.toNat)).isSome = true

/-- **T-RUN-ANCH-MAT, soundness** (every OK program, no further hypothesis). -/
theorem trun_mat_sound (A : Automaton MKey CharPred) (ps : List MatPattern) (h : MatHost)
    (fuel : Nat) (ms : List (Match MatPos)) (seen : List (Nat × List (Option MVal)))
    (hok : matProgramOK A ps = true) (hr : run matDomain A h fuel = .ok (ms, seen))
    (i : Nat) (m : MatPos) (hm : (i, m) ∈ ms) :
    (m = .unbound ∧ ∃ w, A.g.weight? A.root = some w ∧ (i, []) ∈ w.matches_) ∨
    (∃ r c ks, (matCell h r c).isSome = true ∧ ks ≠ [] ∧
      AccDetK (matSigma h r c) A A.root i ks ∧
      m = .bound r c 0 0 (boxMax ks).1 (boxMax ks).2) := by
  obtain ⟨s, m0, w, keys, hreach, hw, hk, m₁, hm₁, hret⟩ := trun_sound hr i m hm
  have hst := stateOK_of_programOK hok hw
  have hinv := reach_inv hok hreach
  obtain ⟨hshape, hroot, hnn, _⟩ := hst.matches_ i keys hk
  rcases hshape with rfl | ⟨rest, rfl, h0⟩
  · left
    have hs : s = A.root := by
      rcases hroot with h | h
      · exact h
      · exact absurd rfl h
    subst hs
    have : m = .unbound := by
      have hret' : matPosMap.retain m₁ [] = some m := hret
      rw [retain_nil] at hret'
      exact (Option.some.inj hret').symm
    exact ⟨this, w, hw, hk⟩
  · right
    rcases hinv with ⟨rfl, hs⟩ | ⟨r, c, R, C, rfl, hcell, hR, hC, hpath⟩
    · obtain ⟨v, hv, hmm⟩ := emit_unbound_sound h rest h0 (NN_tail hnn) m ⟨m₁, hm₁, hret⟩
      have hs' : s = A.root := by
        rcases hs with h | h
        · exact h
        · rw [h] at hv; cases hv
      subst hs'
      exact ⟨v.1, v.2, _, (mem_matAllCells h v).mp hv, by simp, AccDetK.here hw hk, hmm⟩
    · have hmm := emit_bound_sound h r c R C rest h0 (NN_tail hnn) hR hC m ⟨m₁, hm₁, hret⟩
      exact ⟨r, c, _, hcell, by simp, hpath _ _ (AccDetK.here hw hk), hmm⟩

/-- **T-RUN-ANCH-MAT, completeness** (every OK program, no further hypothesis). -/
theorem trun_mat_complete (A : Automaton MKey CharPred) (ps : List MatPattern) (h : MatHost)
    (fuel : Nat) (ms : List (Match MatPos)) (seen : List (Nat × List (Option MVal)))
    (hok : matProgramOK A ps = true) (hr : run matDomain A h fuel = .ok (ms, seen))
    (i : Nat) (m : MatPos)
    (hrhs : (m = .unbound ∧ ∃ w, A.g.weight? A.root = some w ∧ (i, []) ∈ w.matches_) ∨
      (∃ r c ks, (matCell h r c).isSome = true ∧ ks ≠ [] ∧
        AccDetK (matSigma h r c) A A.root i ks ∧
        (∀ k ∈ ks, (matCell h (r + k.1.toNat) (c + k.2.toNat)).isSome = true) ∧
        m = .bound r c 0 0 (boxMax ks).1 (boxMax ks).2)) :
    (i, m) ∈ ms := by
  rcases hrhs with ⟨rfl, w, hw, hk⟩ | ⟨r, c, ks, hcell, hne, hacc, hb, rfl⟩
  · obtain ⟨⟨wr, hwr, hrk⟩, exp, hF, ⟨ems, hE, rfl⟩, _, _⟩ := trun_closed hr
    obtain ⟨⟨s', m₂⟩, hmem, w', hw', heq⟩ := hF.mem_right hrk
    simp only [Prod.mk.injEq] at heq
    obtain ⟨rfl, _⟩ := heq
    obtain ⟨em, hem, w'', hw'', he⟩ := hE.mem_left hmem
    rw [hw] at hw''
    cases hw''
    refine List.mem_flatten.mpr ⟨em, hem, (mem_emitMatches he _ _).mpr ⟨[], hk, m₂, ?_, ?_⟩⟩
    · exact List.mem_singleton.mpr rfl
    · exact retain_nil m₂
  · obtain ⟨⟨wr, hwr, hrk⟩, _⟩ := trun_closed hr
    refine complete_aux hok hr r c hcell i ks hne hb A.root hacc .unbound (.inl ⟨rfl, rfl⟩) ?_
    intro w hw
    rw [hwr] at hw
    cases hw
    exact hrk

/-- **T-RUN-ANCH-MAT.** -/
theorem trun_mat_main (A : Automaton MKey CharPred) (ps : List MatPattern) (h : MatHost)
    (fuel : Nat) (ms : List (Match MatPos)) (seen : List (Nat × List (Option MVal)))
    (hok : matProgramOK A ps = true) (hwit : KeysWitnessed A h)
    (hr : run matDomain A h fuel = .ok (ms, seen)) (i : Nat) (m : MatPos) :
    (i, m) ∈ ms ↔
      (m = .unbound ∧ ∃ w, A.g.weight? A.root = some w ∧ (i, []) ∈ w.matches_) ∨
      (∃ r c ks, (matCell h r c).isSome = true ∧ ks ≠ [] ∧
        AccDetK (matSigma h r c) A A.root i ks ∧
        (∀ k ∈ ks, (matCell h (r + k.1.toNat) (c + k.2.toNat)).isSome = true) ∧
        m = .bound r c 0 0 (boxMax ks).1 (boxMax ks).2) := by
  constructor
  · intro hm
    rcases trun_mat_sound A ps h fuel ms seen hok hr i m hm with h1 | ⟨r, c, ks, hcell, hne, hacc, hmm⟩
    · exact .inl h1
    · exact .inr ⟨r, c, ks, hcell, hne, hacc, hwit r c i ks hcell hacc, hmm⟩
  · exact trun_mat_complete A ps h fuel ms seen hok hr i m

end AnchM
end Pm
