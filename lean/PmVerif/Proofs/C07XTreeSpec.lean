/-
Proofs/C07XTreeSpec.lean — C07 (multiplicities), builder part: an EXACT edge-level description
of a successful `insert_constraint_tree(s)` when `to_constraints_tree` returns a FLAT tree
(`FlatTreeHyp`, Proofs/C07XDefs.lean).

For a flat tree `add_constraint_tree` never creates a state: its run is a sequence of
`appendEdges s children (some c) (labelsAt m)` for the root children `(c, m)`
(`treeChildren_flat`, `addConstraintTree_flat`), so the automaton only `Grows` at `s`, and
`added` is exactly the set of labels of root children. Together with the description of the
drained transitions (`drainConstraints_shrinks`, `drain_ctx`, `drain_index`) and of the fail state
(`FailBuilt`) this gives `FlatCtx` (`insertConstraintTree_flat`).
Everything lives in `namespace Pm.C07`.
-/
import PmVerif.Proofs.C07XDefs
import PmVerif.Proofs.C08Fuse
import PmVerif.Proofs.BuildTreeSem
import PmVerif.Proofs.BuildTreeLoop
namespace Pm
namespace C07
open Automaton
variable {K P : Type} [DecidableEq K] [DecidableEq P]
set_option linter.unusedSectionVars false

/-! ### `add_constraint_tree` for a flat tree -/

/-- The edges added below `s` by the children loop over the root children `l`. -/
def FlatNew (tree : CTree (Constraint K P)) (ch : List Nat) (s : Nat)
    (l : List (Constraint K P × Nat)) (c' : Option (Constraint K P)) (d : Nat) : Prop :=
  ∃ c m, (c, m) ∈ l ∧ c' = some c ∧ (∃ i ∈ tree.labelsAt m, ch[i]? = some d) ∧ d ≠ s

/-- One run of the children loop over children that are all leaves: nothing is pushed, the
automaton only grows at `s`, and `added` gains exactly the labels of the children. -/
theorem treeChildren_flat {tree : CTree (Constraint K P)} {ch : List Nat} {s : Nat} :
    ∀ (l : List (Constraint K P × Nat)) {a a' : Automaton K P} {stack stack' : List (Nat × Nat)}
      {added added' : List Nat}, Inv a →
    (∀ c m, (c, m) ∈ l → tree.childrenAt m = []) →
    treeChildren tree ch s a l stack added = .ok (a', stack', added') →
    stack' = stack ∧
    (∀ i, i ∈ added' ↔ i ∈ added ∨ ∃ c m, (c, m) ∈ l ∧ i ∈ tree.labelsAt m) ∧
    Grows a a' s (FlatNew tree ch s l)
  | [], a, a', stack, stack', added, added', inv, _, h => by
    unfold treeChildren at h; cases h
    refine ⟨rfl, fun i => ⟨fun h => .inl h, ?_⟩, Grows.refl inv _ _⟩
    rintro (h | ⟨_, _, h, _⟩)
    · exact h
    · cases h
  | (c, m) :: rest, a, a', stack, stack', added, added', inv, hfl, h => by
    obtain ⟨b1, b2, stack1, hcase, happ, hrest⟩ := treeChildren_cons_inv h
    have hm : tree.childrenAt m = [] := hfl c m List.mem_cons_self
    rcases hcase with ⟨hne, _⟩ | ⟨_, rfl, rfl⟩
    · exact absurd hm hne
    · obtain ⟨g1, _⟩ := appendEdges_grows _ inv happ
      obtain ⟨hst, hadd, g2⟩ := treeChildren_flat rest g1.inv
        (fun c' m' hmem => hfl c' m' (List.mem_cons_of_mem _ hmem)) hrest
      refine ⟨hst, fun i => ?_, (g1.mono ?_).trans (g2.mono ?_)⟩
      · rw [hadd, List.mem_append]
        constructor
        · rintro ((h1 | h1) | ⟨c', m', hmem, hi⟩)
          · exact .inl h1
          · exact .inr ⟨c, m, List.mem_cons_self, h1⟩
          · exact .inr ⟨c', m', List.mem_cons_of_mem _ hmem, hi⟩
        · rintro (h1 | ⟨c', m', hmem, hi⟩)
          · exact .inl (.inl h1)
          · rcases List.mem_cons.1 hmem with heq | hmem
            · cases heq; exact .inl (.inr hi)
            · exact .inr ⟨c', m', hmem, hi⟩
      · rintro c' d ⟨rfl, hi, hne⟩
        exact ⟨c, m, List.mem_cons_self, rfl, hi, hne⟩
      · rintro c' d ⟨c1, m1, hmem, hc, hi, hne⟩
        exact ⟨c1, m1, List.mem_cons_of_mem _ hmem, hc, hi, hne⟩

/-- `add_constraint_tree` for a flat tree: the automaton grows at `s` by the edges
`s -c-> children[i]` for the labels `i` of the root children `(c, m)`; `added` is the set of
these labels. -/
theorem addConstraintTree_flat {tree : CTree (Constraint K P)} {ch : List Nat} {s fuel : Nat}
    {a1 a2 : Automaton K P} {added : List Nat} (inv : Inv a1)
    (h0 : tree.labelsAt 0 = [])
    (hfl : ∀ c m, (c, m) ∈ tree.childrenAt 0 → tree.childrenAt m = [])
    (h : a1.addConstraintTree tree s ch fuel = .ok (a2, added)) :
    Grows a1 a2 s (FlatNew tree ch s (tree.childrenAt 0)) ∧
    (∀ i, i ∈ added ↔ ∃ c m, (c, m) ∈ tree.childrenAt 0 ∧ i ∈ tree.labelsAt m) := by
  unfold addConstraintTree at h
  simp only at h
  rw [h0] at h
  unfold appendEdges at h
  simp only at h
  rcases treeLoop_inv h with ⟨hnil, _⟩ |
    ⟨fuel', n, m, init, b', stack', added', _, hst, htc, hl⟩
  · cases hnil
  · have hinit : init = [] ∧ (n, m) = (0, s) := by
      cases init with
      | nil =>
        simp only [List.nil_append, List.cons.injEq, and_true] at hst
        exact ⟨rfl, hst.symm⟩
      | cons x xs =>
        cases xs with
        | nil => simp at hst
        | cons y ys => simp at hst
    obtain ⟨rfl, hnm⟩ := hinit
    cases hnm
    obtain ⟨hst', hadd, g⟩ := treeChildren_flat _ inv hfl htc
    subst hst'
    rcases treeLoop_inv hl with ⟨_, heq⟩ | ⟨_, _, _, init2, _, _, _, _, hst2, _, _⟩
    · cases heq
      refine ⟨g, fun i => ?_⟩
      rw [hadd]
      constructor
      · rintro (h1 | h1)
        · cases h1
        · exact h1
      · exact fun h1 => .inr h1
    · cases init2 <;> simp at hst2

/-! ### the drained constraints are pairwise different -/

/-- Distinct positions of `w.corder` are distinct transitions of `s`, which carry different
constraints under `UniqueAt`. -/
theorem drained_nodup {a : Automaton K P} (inv : Inv a) {s : Nat} {w : AState K}
    (hw : a.g.weight? s = some w) (hu : C08.UniqueAt a s)
    (g : Option (Constraint K P) × Nat → Option (Constraint K P × Nat))
    (hg : ∀ c d, g (c, d) = c.map fun c => (c, d))
    (drained : List (Option (Constraint K P) × Nat))
    (hmap : w.corder.map (edgeInfo a) = drained.map some) :
    ((drained.filterMap g).map (·.1)).Nodup := by
  have hsome : ∀ t ∈ w.corder, ∃ e, a.g.edge? t = some e ∧ e.w.isSome = true := by
    intro t ht
    obtain ⟨e, he, _, hc⟩ := inv.ok.corder_edge s w hw t ht
    exact ⟨e, he, hc⟩
  obtain ⟨hlen, hidx⟩ := drain_index a g hg w.corder drained hmap hsome
  have hnd : w.corder.Nodup := (List.nodup_append.1 (inv.ok.nodup s w hw)).1
  have hpw := List.pairwise_iff_getElem.1 (List.nodup_iff_pairwise_ne.1 hnd)
  rw [List.nodup_iff_pairwise_ne, List.pairwise_iff_getElem]
  intro i j hi hj hlt heq
  have hi0 : i < (drained.filterMap g).length := by rw [List.length_map] at hi; exact hi
  have hj0 : j < (drained.filterMap g).length := by rw [List.length_map] at hj; exact hj
  have hi' : i < w.corder.length := hlen ▸ hi0
  have hj' : j < w.corder.length := hlen ▸ hj0
  obtain ⟨e1, c1, he1, hc1, hp1⟩ := hidx i _ (List.getElem?_eq_getElem hi')
  obtain ⟨e2, c2, he2, hc2, hp2⟩ := hidx j _ (List.getElem?_eq_getElem hj')
  have h1 : (drained.filterMap g)[i] = (c1, e1.dst) := (List.getElem_eq_iff hi0).2 hp1
  have h2 : (drained.filterMap g)[j] = (c2, e2.dst) := (List.getElem_eq_iff hj0).2 hp2
  rw [List.getElem_map, List.getElem_map, h1, h2] at heq
  simp only at heq
  obtain ⟨e1', he1', hs1, _⟩ := inv.ok.corder_edge s w hw _ (List.getElem_mem hi')
  obtain ⟨e2', he2', hs2, _⟩ := inv.ok.corder_edge s w hw _ (List.getElem_mem hj')
  rw [he1] at he1'; cases he1'
  rw [he2] at he2'; cases he2'
  exact hpw i j hi' hj' hlt (hu _ _ e1 e2 he1 he2 hs1 hs2 (by rw [hc1, hc2, heq]))

/-! ### assembling `FlatCtx` -/

section Assemble
variable {a a1 a2 a' : Automaton K P} {s : Nat} {w : AState K}
  {cs : List (Constraint K P)} {ch : List Nat} {tree : CTree (Constraint K P)}
  {added : List Nat} {F : Nat → Prop}

/-- The constraint transitions `s -k-> d` that stay at `s`. -/
def KeptP (tree : CTree (Constraint K P)) (cs : List (Constraint K P)) (ch : List Nat)
    (k : Constraint K P) (d : Nat) : Prop :=
  ∃ m i, (k, m) ∈ tree.childrenAt 0 ∧ i ∈ tree.labelsAt m ∧ cs[i]? = some k ∧ ch[i]? = some d

/-- The constraint transitions `s -k-> d` that move below the fail state. -/
def MovedP (cs : List (Constraint K P)) (ch : List Nat) (added : List Nat)
    (k : Constraint K P) (d : Nat) : Prop :=
  ∃ i, i ∉ added ∧ cs[i]? = some k ∧ ch[i]? = some d

/-- `FlatCtx` from the three stages of the run: drain (`Shrinks`), flat tree (`Grows` at `s`),
fail state (`FailBuilt`). -/
theorem flatCtx_of_parts (inv : Inv a) (hw : a.g.weight? s = some w)
    (sh : Shrinks a a1 w.corder)
    (hie : ∀ (i : Nat) c d, cs[i]? = some c → ch[i]? = some d →
      ∃ t, t ∈ w.corder ∧ a.g.edge? t = some ⟨s, d, some c⟩)
    (hlab : ∀ c m i, (c, m) ∈ tree.childrenAt 0 → i ∈ tree.labelsAt m → cs[i]? = some c)
    (g : Grows a1 a2 s (FlatNew tree ch s (tree.childrenAt 0)))
    (fb : FailBuilt a2 a' s cs ch added F) :
    FlatCtx a a' s F (KeptP tree cs ch) (MovedP cs ch added) := by
  have hlive2 : ∀ x, a2.Live x ↔ a.Live x := fun x => (g.live_iff x).trans (sh.live_iff x)
  have hs : a.Live s := live_of_weight hw
  -- weights of `a` survive in `a'`
  have wt_fwd : ∀ x w0, a.g.weight? x = some w0 →
      ∃ w', a'.g.weight? x = some w' ∧ w'.matches_ = w0.matches_ ∧ w'.det = w0.det := by
    intro x w0 hw0
    obtain ⟨w1, hw1, hm1, hd1⟩ := sh.wt x w0 hw0
    obtain ⟨w2, hw2, hm2, hd2⟩ := g.weight_some hw1
    by_cases hx : x = s
    · subst hx
      obtain ⟨w3, hw3, hm3, hd3⟩ := fb.wt_s w2 hw2
      exact ⟨w3, hw3, hm3.trans (hm2.trans hm1), hd3.trans (hd2.trans hd1)⟩
    · exact ⟨w2, (fb.wt_old x (live_of_weight hw2) hx).trans hw2, hm2.trans hm1, hd2.trans hd1⟩
  refine ⟨fb.inv, fun f hf hl => fb.fresh f hf ((hlive2 f).2 hl), ?_, ?_, ?_, ?_, ?_⟩
  · intro x w' hx hw'
    obtain ⟨w0, hw0⟩ := live_iff.1 hx
    obtain ⟨w'', hw'', hm, hd⟩ := wt_fwd x w0 hw0
    rw [hw'] at hw''; cases hw''
    exact ⟨w0, hw0, hm, hd⟩
  · intro x w' hx hw'
    obtain ⟨hm, hd, hf⟩ := fb.wt_new x w' (fun hl => hx ((hlive2 x).1 hl)) hw'
    exact ⟨hf, hm, hd⟩
  · rintro x d c ⟨t, ht⟩
    rcases fb.new t _ ht with h2 | ⟨hsrc, hc, hf⟩ | ⟨hf, i, k, hi, hci, hdi, hc⟩
    · rcases g.new t _ h2 with h1 | ⟨_, hsrc, c0, m, hmem, hc, ⟨i, hi, hdi⟩, _⟩
      · rw [sh.edge] at h1
        split at h1
        · cases h1
        · rename_i hnot
          by_cases hx : x = s
          · subst hx
            cases c with
            | none => exact .inr (.inl ⟨rfl, rfl, t, h1⟩)
            | some k =>
              exfalso
              have hl := inv.ok.edge_listed t _ h1 w hw
              rcases List.mem_append.1 hl with hl | hl
              · exact hnot hl
              · obtain ⟨e, he, _, hnone⟩ := inv.ok.eorder_edge x w hw t hl
                rw [h1] at he; cases he
                cases hnone
          · exact .inl ⟨hx, inv.ok.src_live h1, t, h1⟩
      · simp only at hsrc hc hdi
        subst hsrc
        subst hc
        exact .inr (.inr (.inl ⟨rfl, c0, rfl, m, i, hmem, hi, hlab c0 m i hmem hi, hdi⟩))
    · simp only at hsrc hc hf
      exact .inr (.inr (.inr (.inl ⟨hsrc, hc, hf⟩)))
    · simp only at hf hdi hc
      exact .inr (.inr (.inr (.inr ⟨hf, k, hc, i, hi, hci, hdi⟩)))
  · rintro k d ⟨m, i, _, _, hci, hdi⟩
    obtain ⟨t, _, he⟩ := hie i k d hci hdi
    exact ⟨t, he⟩
  · rintro k d ⟨i, _, hci, hdi⟩
    obtain ⟨t, _, he⟩ := hie i k d hci hdi
    exact ⟨t, he⟩

end Assemble

/-! ### the step -/

/-- The run of the non-trivial branch of `insert_constraint_tree` up to the fail state, for a
flat tree (the analogue of `ctx_of_run`). -/
theorem flat_of_run {Mx : Constraint K P → Constraint K P → Prop}
    {toTree : List (Constraint K P) → Option (CTree (Constraint K P))} (hT : FlatTreeHyp Mx toTree)
    {a a1 a2 a' : Automaton K P} {s fuel : Nat} {w : AState K} (inv : Inv a)
    (hu : C08.UniqueAt a s) (hw : a.g.weight? s = some w) (hndet : ¬ IsDet a s)
    {drained : List (Option (Constraint K P) × Nat)}
    (hdr : a.drainConstraints s = .ok (a1, drained))
    (g : Option (Constraint K P) × Nat → Option (Constraint K P × Nat))
    {tree : CTree (Constraint K P)} {added : List Nat}
    (htree : toTree ((drained.filterMap g).map (·.1)) = some tree)
    (hadd : a1.addConstraintTree tree s ((drained.filterMap g).map (·.2)) fuel = .ok (a2, added))
    (hg : ∀ c d, g (c, d) = c.map fun c => (c, d))
    (hfb : Inv a2 → a2.Live s →
      (∀ (i : Nat) d, ((drained.filterMap g).map (·.2))[i]? = some d → a2.Live d) →
      ∃ F, (∀ f1 f2, F f1 → F f2 → f1 = f2) ∧
        FailBuilt a2 a' s ((drained.filterMap g).map (·.1))
        ((drained.filterMap g).map (·.2)) added F) :
    ∃ (F : Nat → Prop) (cs : List (Constraint K P)) (tr : CTree (Constraint K P))
      (Kept Moved : Constraint K P → Nat → Prop),
      toTree cs = some tr ∧ tree.makeDet = tr.makeDet ∧ cs.Nodup ∧ ¬ IsDet a s ∧
      a'.root = a.root ∧ (∀ f1 f2, F f1 → F f2 → f1 = f2) ∧ FlatCtx a a' s F Kept Moved ∧
      (∀ k d, Kept k d → ∃ m i, (k, m) ∈ tr.childrenAt 0 ∧ i ∈ tr.labelsAt m ∧
        cs[i]? = some k) ∧
      (∀ k d, Moved k d → ∃ i, cs[i]? = some k ∧
        ∀ c' m', (c', m') ∈ tr.childrenAt 0 → i ∉ tr.labelsAt m') := by
  obtain ⟨w', hw', sh, hmap⟩ := drainConstraints_shrinks inv hdr
  rw [hw] at hw'; cases hw'
  obtain ⟨hie, _⟩ := drain_ctx inv.ok hw g hg drained hmap
  have hnd := drained_nodup inv hw hu g hg drained hmap
  obtain ⟨h0, hflat, hlab, _, _⟩ := hT _ tree htree
  obtain ⟨gr, hadded⟩ := addConstraintTree_flat sh.inv h0
    (fun c m hm => (hflat 0 c m hm).2) hadd
  have hlive2 : ∀ x, a.Live x → a2.Live x :=
    fun x hx => (gr.live_iff x).2 ((sh.live_iff x).2 hx)
  have hlen : ((drained.filterMap g).map (·.2)).length =
      ((drained.filterMap g).map (·.1)).length := by simp
  have hchl : ∀ (i : Nat) d, ((drained.filterMap g).map (·.2))[i]? = some d → a2.Live d := by
    intro i d hd
    have hi : i < ((drained.filterMap g).map (·.1)).length := by
      rw [← hlen]; exact (List.getElem?_eq_some_iff.1 hd).1
    obtain ⟨t, _, he⟩ := hie i _ d (List.getElem?_eq_getElem hi) hd
    exact hlive2 d (inv.ok.dst_live he)
  obtain ⟨F, hFu, fb⟩ := hfb gr.inv (hlive2 s (live_of_weight hw)) hchl
  refine ⟨F, _, tree, KeptP tree _ _, MovedP _ _ added, htree, rfl, hnd,
    hndet, fb.root.trans (gr.root.trans sh.root), hFu,
    flatCtx_of_parts inv hw sh hie hlab gr fb, ?_, ?_⟩
  · rintro k d ⟨m, i, hm, hi, hci, _⟩
    exact ⟨m, i, hm, hi, hci⟩
  · rintro k d ⟨i, hi, hci, _⟩
    exact ⟨i, hci, fun c' m' hm hl => hi ((hadded i).2 ⟨c', m', hm, hl⟩)⟩

/-- A successful `insert_constraint_tree(s)` with a flat tree decomposition either does nothing,
or is described exactly by `FlatCtx`: every constraint transition `s -k-> d` stays at `s`
(`Kept`, when its index is a label of a root child, which then carries `k`) or moves below the
single fresh fail state (`Moved`, when its index is not a label of any root child). -/
theorem insertConstraintTree_flat {Mx : Constraint K P → Constraint K P → Prop}
    {toTree : List (Constraint K P) → Option (CTree (Constraint K P))} (hT : FlatTreeHyp Mx toTree)
    {a a' : Automaton K P} {s fuel : Nat} {det : Bool} (inv : Inv a) (hu : C08.UniqueAt a s)
    (h : insertConstraintTree toTree a s fuel = .ok (a', det)) :
    (a' = a ∧ det = false) ∨
    ∃ (F : Nat → Prop) (cs : List (Constraint K P)) (tree : CTree (Constraint K P))
      (Kept Moved : Constraint K P → Nat → Prop),
      toTree cs = some tree ∧ det = tree.makeDet ∧ cs.Nodup ∧ ¬ IsDet a s ∧ a'.root = a.root ∧
      (∀ f1 f2, F f1 → F f2 → f1 = f2) ∧ FlatCtx a a' s F Kept Moved ∧
      (∀ k d, Kept k d → ∃ m i, (k, m) ∈ tree.childrenAt 0 ∧ i ∈ tree.labelsAt m ∧
        cs[i]? = some k) ∧
      (∀ k d, Moved k d → ∃ i, cs[i]? = some k ∧
        ∀ c' m', (c', m') ∈ tree.childrenAt 0 → i ∉ tree.labelsAt m') := by
  unfold insertConstraintTree at h
  split at h
  · cases h
  · rename_i w hw
    rw [state_ok_iff] at hw
    split at h
    · cases h; exact .inl ⟨rfl, rfl⟩
    · rename_i hdet
      split at h
      · cases h; exact .inl ⟨rfl, rfl⟩
      · have hndet : ¬ IsDet a s := by
          rintro ⟨w0, hw0, hd⟩
          rw [hw] at hw0; cases hw0
          exact hdet hd
        split at h
        · cases h
        · rename_i a1 drained hdr
          extract_lets pairs cs ch at h
          split at h
          · cases h
          · rename_i tree htree
            split at h
            · cases h
            · rename_i a2 added hadd
              extract_lets notAdded at h
              right
              have hmem : ∀ i, i ∈ notAdded ↔ i < cs.length ∧ i ∉ added := by
                intro i
                simp [notAdded, List.mem_filter, and_comm]
              split at h
              · rename_i hempna
                cases h
                refine flat_of_run hT inv hu hw hndet hdr _ htree hadd (by intro _ _; rfl) ?_
                intro inv2 _ _
                refine ⟨_, fun _ _ h => h.elim, failBuilt_nil inv2 s ch ?_⟩
                intro i hi
                refine Classical.byContradiction fun hn => ?_
                have := (hmem i).2 ⟨hi, hn⟩
                rw [List.isEmpty_iff.1 hempna] at this
                cases this
              · split at h
                · cases h
                · rename_i a3 f h1
                  cases hrest : insertConstraintTree.addRest cs ch f a3 notAdded with
                  | error e => rw [hrest] at h; cases h
                  | ok a4 =>
                    rw [hrest] at h
                    cases h
                    refine flat_of_run hT inv hu hw hndet hdr _ htree hadd
                      (by intro _ _; rfl) ?_
                    intro inv2 hs2 hchl
                    exact ⟨_, fun _ _ h1 h2 => h1.trans h2.symm, failBuilt_cons inv2 hs2 hchl
                      (fun i h1 h2 => (hmem i).2 ⟨h1, h2⟩)
                      (fun i hi => ((hmem i).1 hi).2) h1 hrest⟩

end C07
end Pm
