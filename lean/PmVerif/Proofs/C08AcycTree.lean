/-
Proofs/C08AcycTree.lean — acyclicity is preserved by `insert_constraint_tree`, for EVERY tree
decomposition `toTree` (no hypothesis on it).

`insert_constraint_tree(s)` drains the constraint transitions `s → d` of `s` (the `d` are the
drained `children`), then hangs a tree of FRESH states below `s` whose states get edges to fresh
states and to drained children, plus possibly a fresh fail state below `s` with edges to drained
children. Loop invariant `TJ`: for some rank function, every state that can still receive
out-edges (the set `M`: `s`, the matcher state being processed, those on the stack) lies strictly
below every drained child. A fresh state `cm` below `m ∈ M` gets rank `2·rank m + 1` after
doubling all ranks: strictly between `m` and every drained child.
Everything lives in `namespace Pm.C08A`.
-/
import PmVerif.Proofs.C08AcycCore
import PmVerif.Proofs.BuildTreeLoop
import PmVerif.Proofs.BuildTreeSem
namespace Pm
namespace C08A
open Automaton
variable {K P : Type}

/-- Invariant of `add_constraint_tree` and of the fail-state phase. -/
structure TJ (b : Automaton K P) (children M : List Nat) : Prop where
  inv : Inv b
  liveM : ∀ m ∈ M, b.Live m
  rank : ∃ r : Nat → Nat, Mono r b ∧ ∀ m ∈ M, ∀ d ∈ children, r m < r d

theorem TJ.subset {b : Automaton K P} {children M M' : List Nat} (tj : TJ b children M)
    (h : ∀ x ∈ M', x ∈ M) : TJ b children M' := by
  obtain ⟨r, m, hr⟩ := tj.rank
  exact ⟨tj.inv, fun x hx => tj.liveM x (h x hx), r, m, fun x hx => hr x (h x hx)⟩

theorem TJ.acyclic {b : Automaton K P} {children M : List Nat} (tj : TJ b children M) :
    Acyclic b := by
  obtain ⟨r, m, _⟩ := tj.rank
  exact ⟨r, m⟩

/-- New out-edges of a state of `M` towards drained children. -/
theorem TJ.grows {b b' : Automaton K P} {children M : List Nat} {src : Nat}
    {New : Option (Constraint K P) → Nat → Prop} (tj : TJ b children M) (g : Grows b b' src New)
    (hsrc : src ∈ M) (hnew : ∀ c d, New c d → d ∈ children) : TJ b' children M := by
  obtain ⟨r, m, hr⟩ := tj.rank
  refine ⟨g.inv, fun x hx => (g.live_iff x).2 (tj.liveM x hx), r, ?_, hr⟩
  exact m.grows g fun c d h => hr src hsrc d (hnew c d h)

/-- A fresh state below a state of `M` joins `M`. -/
theorem TJ.addTransition {b b' : Automaton K P} {children M : List Nat} {p cm e : Nat}
    {c : Option (Constraint K P)} (tj : TJ b children M) (sp : AddTransitionSpec b b' p cm c e)
    (hp : p ∈ M) (hch : ∀ d ∈ children, b.Live d) : TJ b' children (cm :: M) := by
  obtain ⟨r, m, hr⟩ := tj.rank
  have m2 : Mono (upd (fun x => 2 * r x) cm (2 * r p + 1)) b' :=
    m.double.addTransition tj.inv sp (by show 2 * r p < 2 * r p + 1; omega)
  have hMcm : ∀ x ∈ M, x ≠ cm := fun x hx h => sp.deadc (h ▸ tj.liveM x hx)
  have hCcm : ∀ d ∈ children, d ≠ cm := fun d hd h => sp.deadc (h ▸ hch d hd)
  refine ⟨sp.inv, fun x hx => ?_, _, m2, fun x hx d hd => ?_⟩
  · rcases List.mem_cons.1 hx with rfl | hx
    · exact sp.live_child
    · exact sp.live_of_live (tj.liveM x hx)
  · rw [upd_ne _ _ (hCcm d hd)]
    rcases List.mem_cons.1 hx with rfl | hx
    · rw [upd_self]
      have := hr p hp d hd
      show 2 * r p + 1 < 2 * r d
      omega
    · rw [upd_ne _ _ (hMcm x hx)]
      have := hr x hx d hd
      show 2 * r x < 2 * r d
      omega

section Loops
variable [DecidableEq K] [DecidableEq P]
set_option linter.unusedSectionVars false

theorem tj_treeChildren {tree : CTree (Cons K P)} {children : List Nat} {m s0 : Nat} :
    ∀ (cs : List (Cons K P × Nat)) {b b' : Automaton K P} {stack stack' : List (Nat × Nat)}
      {added added' : List Nat},
    TJ b children (m :: s0 :: stack.map (·.2)) → (∀ d ∈ children, b.Live d) →
    treeChildren tree children m b cs stack added = .ok (b', stack', added') →
    TJ b' children (m :: s0 :: stack'.map (·.2)) ∧ ∀ d ∈ children, b'.Live d
  | [], b, b', stack, stack', added, added', tj, hch, h => by
    unfold treeChildren at h; cases h
    exact ⟨tj, hch⟩
  | (c, z) :: rest, b, b', stack, stack', added, added', tj, hch, h => by
    obtain ⟨b1, b2, stack1, hcase, happ, hrest⟩ := treeChildren_cons_inv h
    have h1 : TJ b1 children (m :: s0 :: stack1.map (·.2)) ∧ ∀ d ∈ children, b1.Live d := by
      rcases hcase with ⟨_, cm, hadd, rfl⟩ | ⟨_, rfl, rfl⟩
      · obtain ⟨e, sp⟩ := addTransition_spec tj.inv (tj.liveM m List.mem_cons_self) hadd
        refine ⟨(tj.addTransition sp List.mem_cons_self hch).subset fun x hx => ?_,
          fun d hd => sp.live_of_live (hch d hd)⟩
        simp only [List.map_append, List.map_cons, List.map_nil, List.mem_cons, List.mem_append,
          List.not_mem_nil, or_false] at hx ⊢
        rcases hx with h | h | h | h
        · exact .inr (.inl h)
        · exact .inr (.inr (.inl h))
        · exact .inr (.inr (.inr h))
        · exact .inl h
      · exact ⟨tj, hch⟩
    obtain ⟨tj1, hch1⟩ := h1
    obtain ⟨g, _⟩ := appendEdges_grows _ tj1.inv happ
    have tj2 : TJ b2 children (m :: s0 :: stack1.map (·.2)) :=
      tj1.grows g List.mem_cons_self fun c' d ⟨_, ⟨i, _, hi⟩, _⟩ => List.mem_of_getElem? hi
    exact tj_treeChildren rest tj2 (fun d hd => (g.live_iff d).2 (hch1 d hd)) hrest

theorem tj_treeLoop {tree : CTree (Cons K P)} {children : List Nat} {s0 : Nat} :
    ∀ (fuel : Nat) {b b' : Automaton K P} {stack : List (Nat × Nat)} {added added' : List Nat},
    TJ b children (s0 :: stack.map (·.2)) → (∀ d ∈ children, b.Live d) →
    treeLoop tree children fuel b stack added = .ok (b', added') →
    TJ b' children [s0] ∧ ∀ d ∈ children, b'.Live d
  | fuel, b, b', stack, added, added', tj, hch, h => by
    rcases treeLoop_inv h with ⟨_, heq⟩ | ⟨fuel', n, m, init, b1, stack1, added1, rfl, rfl, htc, hl⟩
    · cases heq
      exact ⟨tj.subset fun x hx => by
        rw [List.mem_singleton.1 hx]; exact List.mem_cons_self, hch⟩
    · have tj0 : TJ b children (m :: s0 :: init.map (·.2)) := tj.subset fun x hx => by
        simp only [List.map_append, List.map_cons, List.map_nil, List.mem_cons, List.mem_append,
          List.not_mem_nil, or_false] at hx ⊢
        rcases hx with h | h | h
        · exact .inr (.inr h)
        · exact .inl h
        · exact .inr (.inl h)
      obtain ⟨tj1, hch1⟩ := tj_treeChildren _ tj0 hch htc
      exact tj_treeLoop fuel' (tj1.subset fun x hx => List.mem_cons_of_mem _ hx) hch1 hl

theorem tj_addConstraintTree {a1 a2 : Automaton K P} {tree : CTree (Cons K P)} {s : Nat}
    {children : List Nat} {fuel : Nat} {added : List Nat} (tj : TJ a1 children [s])
    (hch : ∀ d ∈ children, a1.Live d)
    (h : a1.addConstraintTree tree s children fuel = .ok (a2, added)) :
    TJ a2 children [s] ∧ ∀ d ∈ children, a2.Live d := by
  unfold addConstraintTree at h
  simp only at h
  cases happ : a1.appendEdges s children none (tree.labelsAt 0) with
  | error e => rw [happ] at h; cases h
  | ok b =>
    rw [happ] at h
    simp only at h
    obtain ⟨g, _⟩ := appendEdges_grows _ tj.inv happ
    have tjb : TJ b children [s] :=
      tj.grows g List.mem_cons_self fun c' d ⟨_, ⟨i, _, hi⟩, _⟩ => List.mem_of_getElem? hi
    refine tj_treeLoop fuel (tjb.subset fun x hx => ?_) (fun d hd => (g.live_iff d).2 (hch d hd)) h
    simp only [List.map_cons, List.map_nil, List.mem_cons, List.not_mem_nil, or_false,
      or_self] at hx
    rw [hx]; exact List.mem_cons_self

/-- **`insert_constraint_tree(s)` preserves the structural invariant and acyclicity**, for every
decomposition `toTree`. -/
theorem acyclic_insertConstraintTree
    {toTree : List (Constraint K P) → Option (CTree (Constraint K P))}
    {a a' : Automaton K P} {s fuel : Nat} {det : Bool} (inv : Inv a) (hs : a.Live s)
    (H : Acyclic a) (h : insertConstraintTree toTree a s fuel = .ok (a', det)) :
    Inv a' ∧ a'.Live s ∧ Acyclic a' := by
  unfold insertConstraintTree at h
  split at h
  · cases h
  · rename_i w hw
    rw [state_ok_iff] at hw
    split at h
    · cases h; exact ⟨inv, hs, H⟩
    · split at h
      · cases h; exact ⟨inv, hs, H⟩
      · split at h
        · cases h
        · rename_i a1 drained hdr
          extract_lets pairs cs ch at h
          -- the drained children lie strictly above `s`
          obtain ⟨w', hw', sh, hmap⟩ := drainConstraints_shrinks inv hdr
          rw [hw] at hw'; cases hw'
          obtain ⟨hie, _⟩ := drain_ctx inv.ok hw
            (fun (p : Option (Constraint K P) × Nat) => p.1.map fun c => (c, p.2))
            (by intro _ _; rfl) drained hmap
          have hedge : ∀ d ∈ ch, ∃ t c, a.g.edge? t = some ⟨s, d, some c⟩ := by
            intro d hd
            obtain ⟨i, hi⟩ := List.mem_iff_getElem?.1 hd
            have hlt : i < cs.length := by
              have := (List.getElem?_eq_some_iff.1 hi).1
              simpa [cs, ch] using this
            obtain ⟨t, _, he⟩ := hie i _ d (List.getElem?_eq_getElem hlt) hi
            exact ⟨t, _, he⟩
          obtain ⟨r, m⟩ := H
          have tj1 : TJ a1 ch [s] := by
            refine ⟨sh.inv, fun x hx => ?_, r, m.shrinks sh, fun x hx d hd => ?_⟩
            · rw [List.mem_singleton.1 hx]; exact (sh.live_iff s).2 hs
            · rw [List.mem_singleton.1 hx]
              obtain ⟨t, c, he⟩ := hedge d hd
              exact m t _ he
          have hch1 : ∀ d ∈ ch, a1.Live d := by
            intro d hd
            obtain ⟨t, c, he⟩ := hedge d hd
            exact (sh.live_iff d).2 (inv.ok.edge_live t _ he).2
          split at h
          · cases h
          · rename_i tree htree
            split at h
            · cases h
            · rename_i a2 added hadd
              obtain ⟨tj2, hch2⟩ := tj_addConstraintTree tj1 hch1 hadd
              extract_lets notAdded at h
              split at h
              · cases h
                exact ⟨tj2.inv, tj2.liveM s List.mem_cons_self, tj2.acyclic⟩
              · split at h
                · cases h
                · rename_i a3 f h1
                  cases hrest : insertConstraintTree.addRest cs ch f a3 notAdded with
                  | error e => rw [hrest] at h; cases h
                  | ok a4 =>
                    rw [hrest] at h
                    cases h
                    obtain ⟨e0, sp⟩ := addTransition_spec tj2.inv (tj2.liveM s List.mem_cons_self) h1
                    have tj3 := tj2.addTransition sp List.mem_cons_self hch2
                    obtain ⟨g, _⟩ := addRest_grows notAdded sp.inv hrest
                    have tj4 : TJ a' ch [f, s] :=
                      tj3.grows g List.mem_cons_self
                        fun c' d ⟨i, _, c, _, hi, _, _⟩ => List.mem_of_getElem? hi
                    exact ⟨tj4.inv, tj4.liveM s (List.mem_cons_of_mem _ List.mem_cons_self),
                      tj4.acyclic⟩

end Loops

end C08A
end Pm
