/-
Proofs/C07XDefs.lean — C07 (multiplicities), builder part: the invariant `XB Mx a` carried through
every step of the builder, and the hypotheses on the tree decomposition (`FlatTreeHyp`).

`XB Mx a` is `XInv Mx a` (Proofs/C07Unamb.lean) without the per-state `Nodup` clause (carried
separately as `IdsNodup`) plus a clause on PARALLEL transitions: two transitions of a state
towards the SAME target with different, not syntactically exclusive constraints are only allowed
when nothing is accepted at or below the target (needed because a later `fuseGroup` may separate
the two targets).
Everything lives in `namespace Pm.C07`.
-/
import PmVerif.Proofs.C07Unamb
namespace Pm
namespace C07
open Automaton
variable {K P : Type}

/-- The builder invariant for multiplicities. -/
structure XB (Mx : Constraint K P → Constraint K P → Prop) (a : Automaton K P) : Prop where
  sib : ∀ x d1 d2 c1 c2, HasEdge a x d1 c1 → HasEdge a x d2 c2 → d1 ≠ d2 →
    ¬ Excl Mx a x c1 c2 → ∀ i, Below a d1 i → Below a d2 i → False
  down : ∀ x i d c, a.Ids x i → HasEdge a x d c → ¬ Below a d i
  par : ∀ x d c1 c2, HasEdge a x d c1 → HasEdge a x d c2 → c1 ≠ c2 →
    ¬ Excl Mx a x c1 c2 → ∀ i, ¬ Below a d i

theorem XB.xinv {Mx : Constraint K P → Constraint K P → Prop} {a : Automaton K P}
    (X : XB Mx a) (hn : IdsNodup a) : XInv Mx a := ⟨X.sib, X.down, hn⟩

/-- What the multiplicity invariant needs from `to_constraints_tree`: a returned tree is flat
(no root label, only the root has children), a label `i` below the child carrying `c` names a
constraint equal to `c`, the constraints that are NOT labelled anywhere are never in `Mx` with a
child constraint, and when the tree asks for determinisation its child constraints are pairwise
equal or in `Mx`. -/
def FlatTreeHyp (Mx : Constraint K P → Constraint K P → Prop)
    (toTree : List (Constraint K P) → Option (CTree (Constraint K P))) : Prop :=
  ∀ cs tree, toTree cs = some tree →
    tree.labelsAt 0 = [] ∧
    (∀ n c m, (c, m) ∈ tree.childrenAt n → n = 0 ∧ tree.childrenAt m = []) ∧
    (∀ c m i, (c, m) ∈ tree.childrenAt 0 → i ∈ tree.labelsAt m → cs[i]? = some c) ∧
    (∀ c m (i : Nat) k, (c, m) ∈ tree.childrenAt 0 → cs[i]? = some k →
      (∀ c' m', (c', m') ∈ tree.childrenAt 0 → i ∉ tree.labelsAt m') →
      ¬ Mx c k ∧ ¬ Mx k c) ∧
    (tree.makeDet = true → ∀ c m c' m', (c, m) ∈ tree.childrenAt 0 →
      (c', m') ∈ tree.childrenAt 0 → c = c' ∨ Mx c c')

/-- Edge-level description of a successful, non-trivial `insert_constraint_tree(s)` for a FLAT
tree: `F` are the fresh states (at most one: the fail state), `Kept k d` the constraint
transitions `s -k-> d` that stay at `s`, `Moved k d` those that now leave a fail state. -/
structure FlatCtx (a a' : Automaton K P) (s : Nat) (F : Nat → Prop)
    (Kept Moved : Constraint K P → Nat → Prop) : Prop where
  inv' : Inv a'
  fresh : ∀ f, F f → ¬ a.Live f
  wt_old : ∀ x w', a.Live x → a'.g.weight? x = some w' →
    ∃ w, a.g.weight? x = some w ∧ w'.matches_ = w.matches_ ∧ w'.det = w.det
  wt_new : ∀ x w', ¬ a.Live x → a'.g.weight? x = some w' →
    F x ∧ w'.matches_ = [] ∧ w'.det = false
  edges : ∀ x d c, HasEdge a' x d c →
    (x ≠ s ∧ a.Live x ∧ HasEdge a x d c) ∨
    (x = s ∧ c = none ∧ HasEdge a s d none) ∨
    (x = s ∧ ∃ k, c = some k ∧ Kept k d) ∨
    (x = s ∧ c = none ∧ F d) ∨
    (F x ∧ ∃ k, c = some k ∧ Moved k d)
  kept : ∀ k d, Kept k d → HasEdge a s d (some k)
  moved : ∀ k d, Moved k d → HasEdge a s d (some k)

/-! ### basic facts -/

section Basics
variable {Mx : Constraint K P → Constraint K P → Prop} {a : Automaton K P}

theorem below_of_edge (ok : OrdersOK a) {x d i : Nat} {c : Option (Constraint K P)}
    (he : HasEdge a x d c) (hb : Below a d i) : Below a x i := by
  obtain ⟨t, ht⟩ := he
  exact AccND.of_edge (e := ⟨x, d, c⟩) ok ht (fun _ _ => rfl) hb

theorem below_of_ids {x i : Nat} (h : a.Ids x i) : Below a x i := AccND.of_ids h

/-- One-step unfolding of `Below` with edges as triples. -/
theorem below_iff (ok : OrdersOK a) {x i : Nat} :
    Below a x i ↔ a.Ids x i ∨ ∃ d c, HasEdge a x d c ∧ Below a d i := by
  unfold Below
  rw [accND_iff ok]
  constructor
  · rintro (h | ⟨t, e, he, hs, _, hacc⟩)
    · exact .inl h
    · subst hs
      exact .inr ⟨e.dst, e.w, HasEdge.of_edge he, hacc⟩
  · rintro (h | ⟨d, c, ⟨t, ht⟩, hacc⟩)
    · exact .inl h
    · exact .inr ⟨t, _, ht, rfl, fun _ _ => rfl, hacc⟩

/-- `Excl` only depends on the determinism flag of the state. -/
theorem Excl.mono {a' : Automaton K P} {x x' : Nat} {c1 c2 : Option (Constraint K P)}
    (h : Excl Mx a x c1 c2) (hd : IsDet a x → IsDet a' x') : Excl Mx a' x' c1 c2 := by
  rcases h with h | ⟨hdet, hc⟩
  · exact .inl h
  · exact .inr ⟨hd hdet, hc⟩

/-- At a non-deterministic state only the `Mx` part of `Excl` is left. -/
theorem Excl.of_nondet {x : Nat} {c1 c2 : Option (Constraint K P)} (h : Excl Mx a x c1 c2)
    (hn : ¬ IsDet a x) : ∃ k1 k2, c1 = some k1 ∧ c2 = some k2 ∧ Mx k1 k2 := by
  rcases h with h | ⟨hdet, _⟩
  · exact h
  · exact absurd hdet hn

/-- A constraint is never exclusive with itself when `Mx` is irreflexive. -/
theorem not_excl_self (hirr : ∀ k, ¬ Mx k k) (x : Nat) (c : Option (Constraint K P)) :
    ¬ Excl Mx a x c c := by
  rintro (⟨k1, k2, h1, h2, hm⟩ | ⟨_, ⟨h1, h2⟩ | ⟨h1, h2⟩⟩)
  · rw [h1] at h2; cases h2; exact hirr _ hm
  · exact h2 h1
  · exact h1 h2

end Basics

end C07
end Pm
