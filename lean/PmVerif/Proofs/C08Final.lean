/-
Proofs/C08Final.lean — helpers of `Props/C08Final.lean` (the composition of C08 = totality over the
four files `Props/C08`, `Props/C08Acyc`, `Props/C08PG`, `Props/C09Eps`).

* `mainLoopE_cases`, `buildTD_cases`, `buildTE_cases`, `buildTE_error_cases`: the strict replays
  `buildTD` (c1D) and `buildTE` (c1D + c1E) are `buildT` with one / two more GUARDS — as a statement
  about ALL results (errors included), not only about successful builds
  (`C07.buildTD_imp_buildT`, `C09E.buildTE_imp_buildTD`): either the extra guard fires, or the result
  is literally the result of the weaker replay.
* `pg_buildWith_only_tree`: port graphs, ANY fuels: if the automaton the main loop ends with has a
  successful Kahn sort, the only panic of a disciplined build is "to_constraints_tree" (the model's
  fuel for `with_powerset`).
* `manyInputs_total`: `manyInputs` returns when every pattern converts.
* `singleLoop_panic_mono`, `singleMatches_panic_mono`: a panic of the baseline persists under more
  fuel — so a baseline that returns `.ok` for SOME fuel never panics for ANY fuel.
Everything lives in `namespace Pm.C08F`.
-/
import PmVerif.Proofs.C08AcycBuild
import PmVerif.Proofs.C09EpsMain
import PmVerif.Proofs.BaselineDom
import PmVerif.Proofs.C08PGBuildPG
namespace Pm
namespace C08F
open Automaton

section Replay
variable {K P : Type} [DecidableEq K] [DecidableEq P]

/-- The epsilon-free-emission loop is the strict loop with one more guard. -/
theorem mainLoopE_cases (det : Automaton K P → Nat → R (Automaton K P))
    (toTree : List (Constraint K P) → Option (CTree (Constraint K P))) (fuel : Nat) :
    ∀ (n : Nat) (a : Automaton K P) (emitted : List Nat) (evs : List Ev),
    mainLoopE det toTree fuel n a emitted evs =
        .error (.guard
          "c1E: the emitted state or one of its children already has a fallback transition") ∨
      mainLoopE det toTree fuel n a emitted evs = mainLoopD det toTree fuel n a emitted evs := by
  intro n
  induction n with
  | zero =>
    intro a emitted evs
    cases evs with
    | nil => right; unfold mainLoopE mainLoopD; rfl
    | cons e es => right; unfold mainLoopE mainLoopD; rfl
  | succ n ih =>
    intro a emitted evs
    cases evs with
    | nil => right; unfold mainLoopE mainLoopD; rfl
    | cons e es =>
      cases e with
      | topo s =>
        unfold mainLoopE mainLoopD
        by_cases h1 : (!a.topoAdmissible emitted s) = true
        · right; rw [if_pos h1, if_pos h1]
        · rw [if_neg h1, if_neg h1]
          by_cases h2 : (!a.noDetChild s) = true
          · right; rw [if_pos h2, if_pos h2]
          · rw [if_neg h2, if_neg h2]
            by_cases h3 : (!a.epsFreeAt s) = true
            · left; rw [if_pos h3]
            · rw [if_neg h3]
              cases hi : iterationWith det toTree fuel a s es with
              | error e => right; rfl
              | ok v => exact ih _ _ _
      | group _ _ => right; unfold mainLoopE mainLoopD; rfl
      | detAsk _ => right; unfold mainLoopE mainLoopD; rfl
      | detYes _ => right; unfold mainLoopE mainLoopD; rfl
      | merge _ _ => right; unfold mainLoopE mainLoopD; rfl
      | iterEnd _ => right; unfold mainLoopE mainLoopD; rfl

variable (toTree : List (Constraint K P) → Option (CTree (Constraint K P))) (req : K → List K)
  (fuel : Nat) (patterns : List (Nat × List (Constraint K P) × List K)) (evs : List Ev)

/-- **`buildTD` is `buildT` with one more guard**: either c1D fires, or the two replays return the
same result (the same automaton or the SAME error). -/
theorem buildTD_cases :
    buildTD toTree req fuel patterns evs =
        .error (.guard "c1D: a child of the emitted state is already deterministic") ∨
      buildTD toTree req fuel patterns evs = buildT toTree req fuel patterns evs := by
  unfold buildTD buildT
  cases h : addPatterns req fuel (new : Automaton K P) patterns with
  | error e => right; rfl
  | ok a =>
    simp only
    unfold finishD finishWith
    rcases C08A.mainLoopD_cases makeDet toTree fuel evs.length a [] evs with hc | hc
    · left; rw [hc]
    · right; rw [hc]

/-- **`buildTE` is `buildTD` with one more guard**: either c1E fires, or the two replays return the
same result. -/
theorem buildTE_cases :
    buildTE toTree req fuel patterns evs =
        .error (.guard
          "c1E: the emitted state or one of its children already has a fallback transition") ∨
      buildTE toTree req fuel patterns evs = buildTD toTree req fuel patterns evs := by
  unfold buildTE buildTD
  cases h : addPatterns req fuel (new : Automaton K P) patterns with
  | error e => right; rfl
  | ok a =>
    simp only
    unfold finishE finishD
    rcases mainLoopE_cases makeDet toTree fuel evs.length a [] evs with hc | hc
    · left; rw [hc]
    · right; rw [hc]

/-- Every error of `buildTD` is the guard c1D or an error of `buildT`. -/
theorem buildTD_error_cases (e : Err) (h : buildTD toTree req fuel patterns evs = .error e) :
    e = .guard "c1D: a child of the emitted state is already deterministic" ∨
      buildT toTree req fuel patterns evs = .error e := by
  rcases buildTD_cases toTree req fuel patterns evs with hc | hc
  · rw [hc] at h; cases h; exact .inl rfl
  · rw [hc] at h; exact .inr h

/-- **Every error of `buildTE` is one of the two extra guards (c1E, c1D) or an error of `buildTD`
and of `buildT`.** -/
theorem buildTE_error_cases (e : Err) (h : buildTE toTree req fuel patterns evs = .error e) :
    e = .guard
        "c1E: the emitted state or one of its children already has a fallback transition" ∨
      e = .guard "c1D: a child of the emitted state is already deterministic" ∨
      (buildTD toTree req fuel patterns evs = .error e ∧
        buildT toTree req fuel patterns evs = .error e) := by
  rcases buildTE_cases toTree req fuel patterns evs with hc | hc
  · rw [hc] at h; cases h; exact .inl rfl
  · rw [hc] at h
    rcases buildTD_error_cases toTree req fuel patterns evs e h with h' | h'
    · exact .inr (.inl h')
    · exact .inr (.inr ⟨h, h'⟩)

/-- Whatever holds of every error of `buildT` and of guard errors holds of every error of the
strict replays. -/
theorem strict_only {A : Err → Prop} (hg : ∀ e, C08.IsGuard e → A e)
    (hT : ∀ e, buildT toTree req fuel patterns evs = .error e → A e) :
    (∀ e, buildTD toTree req fuel patterns evs = .error e → A e) ∧
    (∀ e, buildTE toTree req fuel patterns evs = .error e → A e) := by
  refine ⟨fun e he => ?_, fun e he => ?_⟩
  · rcases buildTD_error_cases toTree req fuel patterns evs e he with h | h
    · exact hg e ⟨_, h⟩
    · exact hT e h
  · rcases buildTE_error_cases toTree req fuel patterns evs e he with h | h | h
    · exact hg e ⟨_, h⟩
    · exact hg e ⟨_, h⟩
    · exact hT e h.2

/-- If `buildT` never panics, neither do the strict replays. -/
theorem strict_no_panic (hT : ∀ tag, buildT toTree req fuel patterns evs ≠ .error (.panic tag))
    (tag : String) :
    buildTD toTree req fuel patterns evs ≠ .error (.panic tag) ∧
    buildTE toTree req fuel patterns evs ≠ .error (.panic tag) := by
  have h := strict_only (A := C08.NoPanic) toTree req fuel patterns evs
    (fun _ hg => hg.noPanic) (fun e he t ht => by subst ht; exact hT t he)
  exact ⟨fun ht => h.1 _ ht tag rfl, fun ht => h.2 _ ht tag rfl⟩

end Replay

section PG
open C08 C08PG

/-- **Port graphs, any inputs, any log, ANY fuels**: if the automaton the main loop ends with has a
successful Kahn sort, a disciplined build (guarded or lenient `make_det`) panics at most with
"to_constraints_tree" (`pgTree cs fuelT = none`: the model's fuel for `with_powerset` ran out).
(`C08PG.pg_buildWith_panics` without the acyclicity tag; `C08PG.pg_buildWith_noPanic_of_acyclic`
without the bound on `fuelT`.) -/
theorem pg_buildWith_only_tree
    {det : Automaton PGKey PGPred → Nat → R (Automaton PGKey PGPred)}
    (hdet : DetOKQ (fun _ : PGCons => True) det) (req : PGKey → List PGKey) (fuel fuelT : Nat)
    (inputs : List (Nat × List PGCons × List PGKey)) (evs : List Ev)
    (hac : ∀ a1 a2, addPatterns req fuel (new : Automaton PGKey PGPred) inputs = .ok a1 →
      mainLoopWith det (fun cs => pgTree cs fuelT) fuel evs.length a1 [] evs = .ok a2 →
      a2.topoOrder.isSome = true) :
    Only PanicA (buildWith det (fun cs => pgTree cs fuelT) req fuel inputs evs) := by
  unfold buildWith
  obtain ⟨inv0, _, rs0, _, _⟩ := new_spec (K := PGKey) (P := PGPred)
  have hmb : MBOK PanicA req fuel := fun _ _ _ _ => .inl fun tag h => by cases h
  have hf := addPatterns_only hmb inputs inv0 rs0.1
  cases h1 : addPatterns req fuel (new : Automaton PGKey PGPred) inputs with
  | error e => exact hf.error h1
  | ok a1 =>
    simp only
    unfold finishWith
    have bi := bq_addPatterns (Q := fun _ : PGCons => True) (fun _ _ _ _ => trivial) h1
    obtain ⟨hfm, hb⟩ := mainLoopWith_onlyQ (A := PanicA) (fun _ hg => .inl hg.noPanic) hdet
      (treeQ_pg (fun _ _ _ _ _ => trivial) fuelT) (.inl (.inr rfl)) fuel
      (fun a1 cs tree s ch _ _ htree inv hs hch hv =>
        (treeStepOK_fine (fun cs => pgTree cs fuelT) fuel a1 cs tree s ch htree inv hs hch
          hv).mono fun _ => panicA_of_noPanic)
      evs.length [] evs bi (.inr (Nat.le_refl _))
    cases h2 : mainLoopWith det (fun cs => pgTree cs fuelT) fuel evs.length a1 [] evs with
    | error e => exact hfm.error h2
    | ok a2 => exact populateScopes_only_of_isSome hmb (hb a2 h2).inv (hac a1 a2 h1 h2)

end PG

section Inputs
variable {K P Pat : Type}

/-- `manyInputs` returns whenever every pattern converts. -/
theorem manyInputs_total (convert : Pat → Option (List (Constraint K P))) (extra : Pat → List K)
    (ff : Bool) (pats : List Pat) (hc : ∀ p ∈ pats, (convert p).isSome = true) :
    ∀ i, ∃ inputs, manyInputs convert extra ff pats i = some inputs := by
  induction pats with
  | nil => exact fun _ => ⟨[], rfl⟩
  | cons p ps ih =>
    intro i
    obtain ⟨cs, hcs⟩ := Option.isSome_iff_exists.1 (hc p List.mem_cons_self)
    obtain ⟨rest, hrest⟩ := ih (fun q hq => hc q (List.mem_cons_of_mem _ hq)) (i + 1)
    exact ⟨(i, cs, extra p) :: rest, by simp only [manyInputs, hcs, hrest]⟩

end Inputs

section Baseline
variable {K V P H M : Type} [DecidableEq K]
variable {D : Domain K V P H M} {h : H} {requested : List K}

/-- A panic of the baseline loop persists under more fuel (both the loop's and
`missing_bindings`'). -/
theorem singleLoop_panic_mono {mb mb' : Nat} (hmb : mb ≤ mb') (t : String) :
    ∀ (fuel fuel' : Nat) (Q : List (List (Constraint K P) × M)) (out : List M),
      fuel ≤ fuel' → singleLoop D h requested mb fuel Q out = .error (.panic t) →
      singleLoop D h requested mb' fuel' Q out = .error (.panic t) := by
  intro fuel
  induction fuel with
  | zero =>
    intro fuel' Q out _ hr
    cases Q with
    | nil => rw [singleLoop_nil] at hr; cases hr
    | cons _ _ => simp [singleLoop] at hr
  | succ fuel ih =>
    intro fuel' Q out hle hr
    obtain ⟨f', rfl⟩ : ∃ f', fuel' = f' + 1 := ⟨fuel' - 1, by omega⟩
    have hle' : fuel ≤ f' := by omega
    match Q with
    | [] => rw [singleLoop_nil] at hr; cases hr
    | ([], m) :: Q =>
      simp only [singleLoop] at hr ⊢
      split at hr
      · exact hr
      · rename_i m' hm
        split at hr
        · rename_i hall
          simp only [hall, if_true]
          exact ih f' _ _ hle' hr
        · rename_i hall
          simp only [hall]
          exact ih f' _ _ hle' hr
    | (c :: rest, m) :: Q =>
      simp only [singleLoop] at hr ⊢
      split at hr
      · cases hr
      · rename_i keys hk
        have hk' : allMissingBindings D.req c.args [] mb' = some keys :=
          Baseline.allMissingLoop_fuel_mono D.req mb mb' hmb _ _ _ _ hk
        rw [hk']
        split at hr
        · rename_i e hkept
          simp only [hkept]
          exact hr
        · rename_i kept hkept
          simp only [hkept]
          exact ih f' _ _ hle' hr

/-- A panic of the baseline persists under more fuel. -/
theorem singleMatches_panic_mono {cs : List (Constraint K P)} {fuel fuel' : Nat} {t : String}
    (hs : singleMatches D cs h fuel = .error (.panic t)) (hle : fuel ≤ fuel') :
    singleMatches D cs h fuel' = .error (.panic t) := by
  unfold singleMatches at hs ⊢
  cases hq : requestedBindings D cs fuel with
  | none => rw [hq] at hs; cases hs
  | some requested =>
    rw [hq] at hs
    have hq' : requestedBindings D cs fuel' = some requested :=
      Baseline.allMissingLoop_fuel_mono D.req fuel fuel' hle _ _ _ _ hq
    rw [hq']
    exact singleLoop_panic_mono hle t fuel fuel' _ _ hle hs

/-- **A baseline that returns for some fuel never panics, whatever the fuel.** -/
theorem singleMatches_no_panic_of_ok {cs : List (Constraint K P)} {fuel0 : Nat} {out : List M}
    (h0 : singleMatches D cs h fuel0 = .ok out) (fuel : Nat) (t : String) :
    singleMatches D cs h fuel ≠ .error (.panic t) := by
  intro hp
  rcases Nat.le_total fuel fuel0 with hle | hle
  · rw [singleMatches_panic_mono hp hle] at h0; cases h0
  · rw [singleMatches_fuel_mono h0 hle] at hp; cases hp

end Baseline

section FindMatches
variable {K V P H M : Type} [DecidableEq K] [DecidableEq V]

/-- `find_matches` is `run` followed by a projection: it returns exactly the errors of `run`. -/
theorem findMatches_error {D : Domain K V P H M} {m : Many K P} {h : H} {fuel : Nat} {e : Err}
    (hf : m.findMatches D h fuel = .error e) : run D m.automaton h fuel = .error e := by
  unfold Many.findMatches at hf
  cases hr : run D m.automaton h fuel with
  | error e' => rw [hr] at hf; cases hf; rfl
  | ok x => rw [hr] at hf; cases hf

end FindMatches

end C08F
end Pm
