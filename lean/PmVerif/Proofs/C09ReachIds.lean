/-
Proofs/C09ReachIds.lean — clause (f) of C09 (every compiled pattern id is accepted by some live
state) for every build WITHOUT any hypothesis on the tree decomposition: the invariant
`HasId a pid` ("some live state records `pid`") is preserved by every builder step, because a
state is only ever removed after its recorded ids were copied onto another state
(`absorbChildren`: `addMatches newChild old.matches_`; `doMerge`: the twin records the same ids),
and every other edit keeps or extends the `matches_` of every state.
(Props/C09Built.lean derives (f) from T-BUILD under the all-true assignment, which needs
`TreeOK toTree (fun _ => true)`.)
-/
import PmVerif.Proofs.C09ReachMain
namespace Pm
namespace C09R
open Automaton
variable {K P : Type}

/-- Some live state records the pattern id `pid`. -/
def HasId (a : Automaton K P) (pid : Nat) : Prop := ∃ s, a.Ids s pid

/-- Generic transfer: every state survives with the same recorded pairs. -/
theorem hasId_of_wt {a a' : Automaton K P}
    (hwt : ∀ x w, a.g.weight? x = some w →
      ∃ w', a'.g.weight? x = some w' ∧ w'.matches_ = w.matches_)
    {pid : Nat} (h : HasId a pid) : HasId a' pid := by
  obtain ⟨s, w, hw, hp⟩ := h
  obtain ⟨w', hw', hm⟩ := hwt s w hw
  exact ⟨s, w', hw', by rw [hm]; exact hp⟩

theorem hasId_grows {a a' : Automaton K P} {dst : Nat}
    {New : Option (Constraint K P) → Nat → Prop} (g : Grows a a' dst New) {pid : Nat}
    (h : HasId a pid) : HasId a' pid :=
  hasId_of_wt (fun _ _ hw => by
    obtain ⟨w', hw', h1, _⟩ := g.weight_some hw
    exact ⟨w', hw', h1⟩) h

theorem hasId_shrinks {a a' : Automaton K P} {S : List Nat} (sh : Shrinks a a' S) {pid : Nat}
    (h : HasId a pid) : HasId a' pid :=
  hasId_of_wt (fun x w hw => by
    obtain ⟨w', hw', h1, _⟩ := sh.wt x w hw
    exact ⟨w', hw', h1⟩) h

theorem hasId_addMatches {a a' : Automaton K P} {s : Nat} {ids : List Nat}
    (sp : AddMatchesSpec a a' s ids) {pid : Nat} (h : HasId a pid) : HasId a' pid := by
  obtain ⟨x, w, hw, hp⟩ := h
  by_cases hx : x = s
  · subst hx
    obtain ⟨w', hw', _, _, _, hids⟩ := sp.wt w hw
    exact ⟨x, w', hw', (hids pid).2 (.inl hp)⟩
  · exact ⟨x, w, (sp.wt_ne x hx).trans hw, hp⟩

theorem hasId_addMatch {a a' : Automaton K P} {s pid0 : Nat} (sp : AddMatchSpec a a' s pid0)
    {pid : Nat} (h : HasId a pid) : HasId a' pid := by
  obtain ⟨x, w, hw, hp⟩ := h
  by_cases hx : x = s
  · subst hx
    obtain ⟨w0, w', hw0, hw', _, _, _, hids⟩ := sp.wt
    rw [hw] at hw0
    cases hw0
    exact ⟨x, w', hw', (hids pid).2 (.inl hp)⟩
  · exact ⟨x, w, (sp.wt_ne x hx).trans hw, hp⟩

theorem hasId_addMatch_new {a a' : Automaton K P} {s pid0 : Nat} (sp : AddMatchSpec a a' s pid0) :
    HasId a' pid0 := by
  obtain ⟨_, w', _, hw', _, _, _, hids⟩ := sp.wt
  exact ⟨s, w', hw', (hids pid0).2 (.inr rfl)⟩

theorem hasId_addTransition {a a' : Automaton K P} {p ch e : Nat}
    {c : Option (Constraint K P)} (sp : AddTransitionSpec a a' p ch c e) {pid : Nat}
    (h : HasId a pid) : HasId a' pid :=
  hasId_of_wt (fun x w hw => by
    have hx : x ≠ ch := fun hx => sp.deadc (hx ▸ live_of_weight hw)
    rw [sp.wt, if_neg hx]
    by_cases hp : x = p
    · subst hp
      rw [if_pos rfl, hw]
      exact ⟨addOrder c e w, rfl, by simp⟩
    · rw [if_neg hp]
      exact ⟨w, hw, rfl⟩) h

theorem hasId_split {a a' : Automaton K P} {t n : Nat} {ed : GEdge (Option (Constraint K P))}
    (sp : SplitSpec a a' t n ed) {pid : Nat} (h : HasId a pid) : HasId a' pid :=
  hasId_of_wt (fun x w hw => by
    have hx : x ≠ n := fun hx => sp.fresh (hx ▸ live_of_weight hw)
    exact ⟨w, (sp.wt_ne x hx).trans hw, rfl⟩) h

theorem hasId_splitTarget {a a' : Automaton K P} (inv : Inv a) {t tgt : Nat}
    (h : a.splitTarget t = .ok (a', tgt)) {pid : Nat} (H : HasId a pid) : HasId a' pid := by
  rcases splitTarget_spec inv h with ⟨rfl, _, _⟩ | ⟨ed, sp⟩
  · exact H
  · exact hasId_split sp H

theorem hasId_reflag {a a0 : Automaton K P} {s : Nat} {w : AState K} (r : Reflag a a0 s w)
    {pid : Nat} (h : HasId a pid) : HasId a0 pid := by
  obtain ⟨x, hx⟩ := h
  exact ⟨x, (r.ids_iff x pid).2 hx⟩

/-- Folding `n` into its twin `first`: the twin records the same ids. -/
theorem hasId_fold {a a' : Automaton K P} {first n : Nat} (f : Fold a a' first n)
    (tw : Twin a first n) (hne : first ≠ n) {pid : Nat} (h : HasId a pid) : HasId a' pid := by
  obtain ⟨x, hx⟩ := h
  by_cases hxn : x = n
  · subst hxn
    exact ⟨first, f.ids_fwd hne ((tw.ids pid).2 hx)⟩
  · exact ⟨x, f.ids_fwd hxn hx⟩

/-- `insert_constraint_tree`: no state is removed, recorded pairs are untouched. -/
theorem hasId_pieces {a a' : Automaton K P} {s : Nat} (hp : TreePieces a a' s) {pid : Nat}
    (h : HasId a pid) : HasId a' pid := by
  obtain ⟨w, a1, a2, cs, ch, tree, fuel, added, Rep, F, _, _, sh, _, tb, fb, _⟩ := hp
  refine hasId_of_wt (fun x w0 hw0 => ?_) h
  obtain ⟨w2, hw2, hm2, _⟩ := wt_fwd2_of sh tb hw0
  by_cases hx : x = s
  · subst hx
    obtain ⟨w3, hw3, hm3, _⟩ := fb.wt_s w2 hw2
    exact ⟨w3, hw3, hm3.trans hm2⟩
  · exact ⟨w2, (fb.wt_old x (live_of_weight hw2) hx).trans hw2, hm2⟩

section Builder
variable [DecidableEq K] [DecidableEq P]
set_option linter.unusedSectionVars false

/-- Fusing a group: the ids of the removed old children were copied onto the new child. -/
theorem hasId_fused {a a' : Automaton K P} {s N : Nat} {ts : List Nat}
    {c0 : Option (Constraint K P)} (f : Fused a a' s ts N c0) {pid : Nat} (h : HasId a pid) :
    HasId a' pid := by
  obtain ⟨x, w, hw, hp⟩ := h
  have hxa : a.Live x := live_of_weight hw
  have hxN : x ≠ N := f.ne_N hxa
  by_cases hx' : a'.Live x
  · obtain ⟨w', hw'⟩ := live_iff.1 hx'
    obtain ⟨w0, hw0, hm, _⟩ := f.wt x w' hxN hw'
    rw [hw] at hw0
    cases hw0
    exact ⟨x, w', hw', by rw [hm]; exact hp⟩
  · obtain ⟨wN, hwN, _, hids⟩ := f.wtN
    exact ⟨N, wN, hwN, (hids pid).2 ⟨x, f.removed x hxa hx', w, hw, hp⟩⟩

theorem hasId_insertConstraintTree
    {toTree : List (Constraint K P) → Option (CTree (Constraint K P))}
    {a a' : Automaton K P} {s fuel : Nat} {det : Bool} (inv : Inv a) {pid : Nat}
    (H : HasId a pid) (h : insertConstraintTree toTree a s fuel = .ok (a', det)) :
    HasId a' pid := by
  rcases insertConstraintTree_pieces inv h with rfl | hp
  · exact H
  · exact hasId_pieces hp H

/-! ### `make_det` -/

theorem hasId_makeDetLoop {failTs : List Nat} {fm : List (Nat × List K)} {pid : Nat} :
    ∀ (ts : List Nat) {a a' : Automaton K P}, Inv a → HasId a pid →
    a.makeDetLoop failTs fm ts = .ok a' → HasId a' pid
  | [], a, a', _, H, h => by
    rw [makeDetLoop] at h; cases h; exact H
  | t :: ts, a, a', inv, H, h => by
    rw [makeDetLoop] at h
    split at h
    · cases h
    · rename_i a1 tgt hsp
      have inv1 : Inv a1 := by
        rcases splitTarget_spec inv hsp with ⟨rfl, _, _⟩ | ⟨ed, sp⟩
        · exact inv
        · exact sp.inv
      have H1 := hasId_splitTarget inv hsp H
      split at h
      · cases h
      · rename_i a2 hac
        obtain ⟨g, _⟩ := appendCopies_grows _ inv1 hac
        split at h
        · cases h
        · rename_i a3 ham
          have am := addMatches_spec _ g.inv ham
          exact hasId_makeDetLoop ts am.inv (hasId_addMatches am (hasId_grows g H1)) h

theorem hasId_makeDet {a a' : Automaton K P} {s : Nat} (inv : Inv a) {pid : Nat}
    (H : HasId a pid) (h : a.makeDet s = .ok a') : HasId a' pid := by
  unfold makeDet makeDetWith at h
  split at h
  · cases h
  · rename_i a0 wd hsd
    obtain ⟨w, _, r⟩ := setDeterministic_reflag inv hsd
    have H0 := hasId_reflag r H
    split at h
    · cases h; exact H0
    · split at h
      · cases h
      · cases h; exact H0
      · split at h
        · rw [if_pos rfl] at h
          dsimp only at h
          split at h
          · cases h
          · exact hasId_makeDetLoop _ r.inv H0 h
        · cases h
        · cases h
        · cases h

/-! ### `try_merge_new_nodes` -/

theorem hasId_mergeLoop {first : Nat} {pid : Nat} :
    ∀ (rest : List Nat) {a a' : Automaton K P}, Inv a → (first :: rest).Nodup →
    (∀ m ∈ rest, Twin a first m) → HasId a pid → a.mergeLoop first rest = .ok a' → HasId a' pid
  | [], a, a', _, _, _, H, h => by
    unfold mergeLoop at h; cases h; exact H
  | n :: ns, a, a', inv, hnd, htw, H, h => by
    unfold mergeLoop at h
    split at h
    · cases h
    · rename_i a1 hmv
      have tw : Twin a first n := htw n List.mem_cons_self
      rw [List.nodup_cons] at hnd
      obtain ⟨hfn, hnd'⟩ := hnd
      rw [List.nodup_cons] at hnd'
      have hne : first ≠ n := fun hx => hfn (hx ▸ List.mem_cons_self)
      have f := fold_of_merge inv hne (tw.no_edge inv) hmv
      refine hasId_mergeLoop ns f.inv ?_ ?_ (hasId_fold f tw hne H) h
      · exact List.nodup_cons.2 ⟨fun hm => hfn (List.mem_cons_of_mem _ hm), hnd'.2⟩
      · intro m hm
        have hmn : m ≠ n := fun hx => hnd'.1 (hx ▸ hm)
        exact f.twin inv hne hmn tw (htw m (List.mem_cons_of_mem _ hm))

theorem hasId_doMerge {a a' : Automaton K P} {node : Nat} {nodes : List Nat} (inv : Inv a)
    {pid : Nat} (H : HasId a pid) (h : a.doMerge node nodes = .ok a') : HasId a' pid := by
  unfold doMerge at h
  split at h
  · cases h; exact H
  · cases h; exact H
  · rename_i first rest _
    split at h
    · cases h
    · split at h
      · cases h
      · rename_i hnd
        split at h
        · cases h
        · rename_i same hsame
          split at h
          · cases h
          · rename_i hall
            split at h
            · cases h
            · split at h
              · cases h
              · have hnd' : (first :: rest).Nodup := by
                  cases hd : decide (first :: rest).Nodup
                  · rw [hd] at hnd; exact absurd rfl hnd
                  · exact of_decide_eq_true hd
                have hall' : ∀ y ∈ same, y = true := by
                  cases hd : same.all id
                  · rw [hd] at hall; exact absurd rfl hall
                  · intro y hy
                    exact List.all_eq_true.1 hd y hy
                have htw : ∀ n ∈ first :: rest, Twin a node n := by
                  intro n hn
                  obtain ⟨y, hy, hf⟩ := mapR_mem_in hsame n hn
                  rw [hall' y hy] at hf
                  exact sameTuple_twin inv hf
                have hfirst := htw first List.mem_cons_self
                refine hasId_mergeLoop rest inv hnd' ?_ H h
                intro m hm
                exact hfirst.symm.trans (htw m (List.mem_cons_of_mem _ hm))

theorem hasId_mergesLogged {pid : Nat} : ∀ (evs : List Ev) {a a' : Automaton K P}
    {evs' : List Ev}, Inv a → HasId a pid → a.mergesLogged evs = .ok (a', evs') →
    HasId a' pid := by
  intro evs
  induction evs with
  | nil =>
    intro a a' evs' _ H h
    unfold mergesLogged at h
    cases h
    exact H
  | cons ev evs0 ih =>
    intro a a' evs' inv H h
    cases ev with
    | merge n nodes =>
      unfold mergesLogged at h
      split at h
      · cases h
      · rename_i a1 hdm
        have s1 : MergeStep (fun _ => true) a a1 := doMerge_spec inv hdm
        exact ih s1.inv (hasId_doMerge inv H hdm) h
    | _ =>
      unfold mergesLogged at h
      cases h
      exact H

/-! ### `make_constraints_unique` -/

theorem hasId_fuseLogged {s : Nat} {pid : Nat} :
    ∀ (evs : List Ev) (pending : List (List Nat)) {a a' : Automaton K P} {evs' : List Ev},
    Inv a → a.Live s → pending.flatten.Nodup → (∀ l ∈ pending, GroupOK a s l) → HasId a pid →
    a.fuseLogged s pending evs = .ok (a', evs') → HasId a' pid
  | evs, [], a, a', evs', _, _, _, _, H, h => by
    unfold fuseLogged at h
    cases h
    exact H
  | [], p :: ps, a, a', evs', _, _, _, _, _, h => by
    unfold fuseLogged at h
    cases h
  | ev :: evs, p :: ps, a, a', evs', inv, hs, hnd, hgrp, H, h => by
    cases ev with
    | group s' ts =>
      unfold fuseLogged at h
      split at h
      · rename_i hcond
        obtain ⟨_, hmem⟩ := hcond
        split at h
        · cases h
        · rename_i a1 hf
          obtain ⟨st, hkeep⟩ :=
            fuseGroup_spec (σ := fun _ => true) inv hs (hgrp ts hmem) hf
          obtain ⟨c0, hc0⟩ := hgrp ts hmem
          obtain ⟨N, _, fu⟩ := fuseGroup_fused inv hs hc0 hf
          have H1 := hasId_fused fu H
          have hnd' : ((p :: ps).erase ts).flatten.Nodup :=
            hnd.sublist (sublist_flatten' List.erase_sublist)
          have hgrp' : ∀ l ∈ (p :: ps).erase ts, GroupOK a1 s l := by
            intro l hl
            obtain ⟨c, hc⟩ := hgrp l (List.mem_of_mem_erase hl)
            refine ⟨c, fun t ht => ?_⟩
            obtain ⟨e, he, hsrc, hw⟩ := hc t ht
            exact ⟨e, hkeep t e he hsrc (disjoint_of_mem_erase' _ hnd hmem hl t ht), hsrc, hw⟩
          exact hasId_fuseLogged evs _ st.inv st.live_s hnd' hgrp' H1 h
      · cases h
    | topo _ => unfold fuseLogged at h; cases h
    | detAsk _ => unfold fuseLogged at h; cases h
    | detYes _ => unfold fuseLogged at h; cases h
    | merge _ _ => unfold fuseLogged at h; cases h
    | iterEnd _ => unfold fuseLogged at h; cases h

theorem hasId_makeConstraintsUnique {a a' : Automaton K P} {s : Nat} {evs evs' : List Ev}
    (inv : Inv a) (hs : a.Live s) {pid : Nat} (H : HasId a pid)
    (h : a.makeConstraintsUnique s evs = .ok (a', evs')) : HasId a' pid := by
  unfold makeConstraintsUnique at h
  split at h
  · cases h
  · rename_i ts0 hts0
    split at h
    · cases h
    · rename_i groups hgr
      obtain ⟨w, hw, rfl⟩ := allTransitions_ok_iff.1 hts0
      have gi := groupTransitions_gi (s := s) _ [] groups (inv.ok.nodup s w hw)
        (fun t ht => inv.listed_live hw ht) ⟨by simp, by simp⟩ hgr
      have hfl : ((groups.map (·.2)).flatten).Nodup :=
        groups_flatten_nodup groups gi.1 fun g hg =>
          ⟨(gi.2 g hg).1, fun t ht => by
            obtain ⟨_, e, he, _, hw'⟩ := (gi.2 g hg).2 t ht
            exact ⟨e, he, hw'⟩⟩
      refine hasId_fuseLogged evs _ inv hs ?_ ?_ H h
      · exact hfl.sublist (sublist_flatten' (List.Sublist.map _ List.filter_sublist))
      · intro l hl
        obtain ⟨g, hg, rfl⟩ := List.mem_map.1 hl
        have hg' := (List.mem_filter.1 hg).1
        exact ⟨g.1, fun t ht => ((gi.2 g hg').2 t ht).2⟩

/-! ### the main loop -/

theorem hasId_iteration
    {toTree : List (Constraint K P) → Option (CTree (Constraint K P))}
    {fuel : Nat} {a a' : Automaton K P} {s : Nat} {evs evs' : List Ev} (inv : Inv a)
    (Hin : HasIn a) {pid : Nat} (H : HasId a pid)
    (h : iteration toTree fuel a s evs = .ok (a', evs')) : HasId a' pid := by
  unfold iteration at h
  split at h
  · cases h
  · rename_i hlive
    have hs : a.Live s := by
      unfold Live; cases hx : a.g.containsNode s <;> simp_all
    split at h
    · cases h
    · rename_i a1 evs1 h1
      have p1 := (makeConstraintsUnique_spec (σ := fun _ => true) inv hs h1).1
      have Hin1 := hasIn_makeConstraintsUnique inv hs Hin h1
      have H1 := hasId_makeConstraintsUnique inv hs H h1
      split at h
      · cases h
      · rename_i a2 treeDet h2
        obtain ⟨inv2, hs2, Hin2⟩ := hasIn_insertConstraintTree p1.inv p1.live_s Hin1 h2
        have H2 := hasId_insertConstraintTree p1.inv H1 h2
        split at h
        · cases h
        · rename_i a3 evs3 h3
          have p3 := (makeConstraintsUnique_spec (σ := fun _ => true) inv2 hs2 h3).1
          have Hin3 := hasIn_makeConstraintsUnique inv2 hs2 Hin2 h3
          have H3 := hasId_makeConstraintsUnique inv2 hs2 H2 h3
          dsimp only at h
          split at h
          · cases h
          · rename_i a4 evs4 h4
            have H4 : Inv a4 ∧ HasId a4 pid := by
              split at h4
              · split at h4
                · split at h4
                  · obtain ⟨a5, hm, he⟩ := c09b_map_ok h4
                    cases he
                    exact ⟨(hasIn_makeDet p3.inv Hin3 hm).1, hasId_makeDet p3.inv H3 hm⟩
                  · cases h4
                · split at h4
                  · cases h4; exact ⟨p3.inv, H3⟩
                  · cases h4
                · cases h4
              · cases h4; exact ⟨p3.inv, H3⟩
            split at h
            · cases h
            · rename_i a5 s' evs5 h5
              split at h
              · cases h
                exact hasId_mergesLogged _ H4.1 H4.2 h5
              · cases h
            · cases h

theorem hasId_mainLoop
    {toTree : List (Constraint K P) → Option (CTree (Constraint K P))}
    {fuel : Nat} {pid : Nat} : ∀ (n : Nat) {a a' : Automaton K P} (evs : List Ev), Inv a →
    HasIn a → HasId a pid → mainLoop toTree fuel n a evs = .ok a' → HasId a' pid := by
  intro n
  induction n with
  | zero =>
    intro a a' evs _ _ H h
    cases evs with
    | nil => unfold mainLoop at h; cases h; exact H
    | cons e es => unfold mainLoop at h; cases h
  | succ n ih =>
    intro a a' evs inv Hin H h
    cases evs with
    | nil => unfold mainLoop at h; cases h; exact H
    | cons e es =>
      cases e with
      | topo s =>
        unfold mainLoop at h
        split at h
        · cases h
        · rename_i a1 evs1 h1
          obtain ⟨inv1, Hin1⟩ := hasIn_iteration inv Hin h1
          exact ih evs1 inv1 Hin1 (hasId_iteration inv Hin H h1) h
      | _ => unfold mainLoop at h; cases h

/-! ### `add_pattern`, `build` -/

theorem hasId_addPatternLoop {req : K → List K} {fuel : Nat} :
    ∀ (cs : List (Constraint K P)) {a a1 : Automaton K P} {s s1 : Nat} {keys keys1 : List K},
    Inv a → a.Live s → addPatternLoop req fuel a s keys cs = .ok (a1, s1, keys1) →
    Inv a1 ∧ ∀ pid, HasId a pid → HasId a1 pid
  | [], a, a1, s, s1, keys, keys1, inv, _, h => by
    unfold addPatternLoop at h
    cases h
    exact ⟨inv, fun _ H => H⟩
  | c :: cs, a, a1, s, s1, keys, keys1, inv, hs, h => by
    unfold addPatternLoop at h
    split at h
    · cases h
    · split at h
      · cases h
      · rename_i more _ a2 s' hadd
        obtain ⟨e, sp⟩ := addTransition_spec inv hs hadd
        obtain ⟨inv1, ih⟩ := hasId_addPatternLoop cs sp.inv sp.live_child h
        exact ⟨inv1, fun pid H => ih pid (hasId_addTransition sp H)⟩

/-- One `add_pattern(cs, pid0, _)`: old ids stay, `pid0` is recorded. -/
theorem hasId_addPattern {req : K → List K} {fuel : Nat} {a a' : Automaton K P}
    {cs : List (Constraint K P)} {pid0 : Nat} {extra : List K} (inv : Inv a) (rs : RootSrc a)
    (h : addPattern req fuel a cs pid0 extra = .ok a') :
    HasId a' pid0 ∧ ∀ pid, HasId a pid → HasId a' pid := by
  unfold addPattern at h
  split at h
  · cases h
  · split at h
    · cases h
    · rename_i a1 s1 keys1 hloop
      obtain ⟨inv1, ih⟩ := hasId_addPatternLoop cs inv rs.1 hloop
      have sp := addMatch_spec inv1 h
      exact ⟨hasId_addMatch_new sp, fun pid H => hasId_addMatch sp (ih pid H)⟩

theorem hasId_addPatterns {req : K → List K} {fuel : Nat} :
    ∀ (ps : List (Nat × List (Constraint K P) × List K)) {a0 a : Automaton K P},
    Inv a0 → RootSrc a0 → NoDet a0 → addPatterns req fuel a0 ps = .ok a →
    (∀ pid ∈ ps.map (·.1), HasId a pid) ∧ ∀ pid, HasId a0 pid → HasId a pid
  | [], a0, a, _, _, _, h => by
    unfold addPatterns at h
    cases h
    exact ⟨fun _ hm => (by cases hm), fun _ H => H⟩
  | (pid0, cs0, extra0) :: ps, a0, a, inv, rs, nd, h => by
    unfold addPatterns at h
    split at h
    · cases h
    · rename_i a1 hadd
      obtain ⟨inv1, _, rs1, nd1, _⟩ := addPattern_spec (σ := fun _ => true) inv rs nd hadd
      obtain ⟨hnew, hold⟩ := hasId_addPattern inv rs hadd
      obtain ⟨ih1, ih2⟩ := hasId_addPatterns ps inv1 rs1 nd1 h
      refine ⟨fun pid hm => ?_, fun pid H => ih2 pid (hold pid H)⟩
      rcases List.mem_cons.1 hm with hm | hm
      · exact hm ▸ ih2 pid0 hnew
      · exact ih1 pid hm

omit [DecidableEq P] in
theorem hasId_populateScopes {req : K → List K} {fuel : Nat} {a a' : Automaton K P}
    (h : populateScopes req fuel a = .ok a') {pid : Nat} (H : HasId a pid) : HasId a' pid := by
  have hs := populateScopes_sameButScope h
  refine hasId_of_wt (fun x w hw => ?_) H
  obtain ⟨w', hw', he⟩ := hs.weight?_symm hw
  exact ⟨w', hw', by rw [he]⟩

/-- Clause (f) for every build, any decomposition `toTree`. -/
theorem build_accepted
    {toTree : List (Constraint K P) → Option (CTree (Constraint K P))}
    {req : K → List K} {fuel : Nat} {patterns : List (Nat × List (Constraint K P) × List K)}
    {evs : List Ev} {A : Automaton K P} (h : build toTree req fuel patterns evs = .ok A) :
    ∀ pid ∈ patterns.map (·.1), ∃ s w keys, A.g.weight? s = some w ∧ (pid, keys) ∈ w.matches_ := by
  intro pid hpid
  have H : HasId A pid := by
    unfold build at h
    split at h
    · cases h
    · rename_i a1 h1
      obtain ⟨inv0, _, rs0, nd0, _⟩ := new_spec (K := K) (P := P)
      have Hin1 : HasIn a1 := hasIn_addPatterns patterns inv0 rs0 nd0 hasIn_new h1
      have H1 : HasId a1 pid := (hasId_addPatterns patterns inv0 rs0 nd0 h1).1 pid hpid
      obtain ⟨inv1, _, _, _, _⟩ := addPatterns_spec (σ := fun _ => true) h1
      unfold finish at h
      split at h
      · cases h
      · rename_i a2 h2
        exact hasId_populateScopes h (hasId_mainLoop _ _ inv1 Hin1 H1 h2)
  obtain ⟨s, w, hw, hp⟩ := H
  obtain ⟨m, hm, rfl⟩ := List.mem_map.1 hp
  exact ⟨s, w, m.2, hw, hm⟩

end Builder

end C09R
end Pm
