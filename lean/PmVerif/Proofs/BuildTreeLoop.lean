/-
Proofs/BuildTreeLoop.lean — `add_constraint_tree` builds the structure `TreeBuilt` of
`BuildTreeDefs`: a loop invariant `TI` relative to the initial automaton, preserved by the
processing of one child (`Step`), by one `treeChildren` run, and by `treeLoop`; plus the depth
bound implied by the termination of the loop within its fuel.
-/
import PmVerif.Proofs.BuildTreeDefs
namespace Pm
namespace Automaton
variable {K P : Type}

/-! ### Inversion of the loops -/

theorem treeChildren_cons_inv {tree : CTree (Cons K P)} {children : List Nat} {m : Nat}
    {a : Automaton K P} {c : Cons K P} {z : Nat} {rest : List (Cons K P × Nat)}
    {stack : List (Nat × Nat)} {added : List Nat}
    {r : Automaton K P × List (Nat × Nat) × List Nat}
    (h : treeChildren tree children m a ((c, z) :: rest) stack added = .ok r) :
    ∃ b1 b2 stack1,
      ((tree.childrenAt z ≠ [] ∧ ∃ cm, a.addTransition m (some c) = .ok (b1, cm) ∧
          stack1 = stack ++ [(z, cm)]) ∨
        (tree.childrenAt z = [] ∧ b1 = a ∧ stack1 = stack)) ∧
      b1.appendEdges m children (some c) (tree.labelsAt z) = .ok b2 ∧
      treeChildren tree children m b2 rest stack1 (added ++ tree.labelsAt z) = .ok r := by
  unfold treeChildren at h
  by_cases hlen : (tree.childrenAt z).length > 0
  · have hne : tree.childrenAt z ≠ [] := fun h0 => by rw [h0] at hlen; exact Nat.lt_irrefl _ hlen
    simp only [hlen, if_true] at h
    cases hadd : a.addTransition m (some c) with
    | error e => rw [hadd] at h; cases h
    | ok p =>
      obtain ⟨b1, cm⟩ := p
      rw [hadd] at h
      simp only at h
      cases happ : b1.appendEdges m children (some c) (tree.labelsAt z) with
      | error e => rw [happ] at h; cases h
      | ok b2 =>
        rw [happ] at h
        exact ⟨b1, b2, _, .inl ⟨hne, cm, rfl, rfl⟩, happ, h⟩
  · have he : tree.childrenAt z = [] := by
      cases hx : tree.childrenAt z with
      | nil => rfl
      | cons x l => rw [hx] at hlen; exact absurd (Nat.succ_pos _) hlen
    simp only [hlen, if_false] at h
    cases happ : a.appendEdges m children (some c) (tree.labelsAt z) with
    | error e => rw [happ] at h; cases h
    | ok b2 =>
      rw [happ] at h
      exact ⟨a, b2, _, .inr ⟨he, rfl, rfl⟩, happ, h⟩

theorem treeLoop_inv {tree : CTree (Cons K P)} {children : List Nat} {fuel : Nat}
    {a : Automaton K P} {stack : List (Nat × Nat)} {added : List Nat}
    {r : Automaton K P × List Nat}
    (h : treeLoop tree children fuel a stack added = .ok r) :
    (stack = [] ∧ r = (a, added)) ∨
    ∃ fuel' n m init b' stack' added', fuel = fuel' + 1 ∧ stack = init ++ [(n, m)] ∧
      treeChildren tree children m a (tree.childrenAt n) init added = .ok (b', stack', added') ∧
      treeLoop tree children fuel' b' stack' added' = .ok r := by
  cases stack with
  | nil => unfold treeLoop at h; cases h; exact .inl ⟨rfl, rfl⟩
  | cons st stack =>
    cases fuel with
    | zero => unfold treeLoop at h; cases h
    | succ fuel =>
      right
      unfold treeLoop at h
      simp only at h
      cases hl : (st :: stack).getLast? with
      | none => simp at hl
      | some p =>
        obtain ⟨n, m⟩ := p
        rw [hl] at h
        simp only at h
        obtain ⟨ys, hys⟩ := List.getLast?_eq_some_iff.1 hl
        rw [hys, List.dropLast_concat] at h
        cases htc : treeChildren tree children m a (tree.childrenAt n) ys added with
        | error e => rw [htc] at h; cases h
        | ok q =>
          obtain ⟨b', stack', added'⟩ := q
          rw [htc] at h
          exact ⟨fuel, n, m, ys, b', stack', added', rfl, hys, htc, h⟩

/-! ### The depth bound -/

/-- Which pairs one `treeChildren` run pushes (first components only). -/
theorem treeChildren_stack {tree : CTree (Cons K P)} {children : List Nat} {m : Nat} :
    ∀ (cs : List (Cons K P × Nat)) {a a' : Automaton K P} {stack stack' : List (Nat × Nat)}
      {added added' : List Nat},
    treeChildren tree children m a cs stack added = .ok (a', stack', added') →
    (∀ p ∈ stack, p ∈ stack') ∧
      ∀ c z, (c, z) ∈ cs → tree.childrenAt z ≠ [] → ∃ cm, (z, cm) ∈ stack'
  | [], a, a', stack, stack', added, added', h => by
    unfold treeChildren at h; cases h
    exact ⟨fun _ hp => hp, fun _ _ hm => by cases hm⟩
  | (c, z) :: rest, a, a', stack, stack', added, added', h => by
    obtain ⟨b1, b2, stack1, hcase, _, hrest⟩ := treeChildren_cons_inv h
    obtain ⟨hsub, hpush⟩ := treeChildren_stack rest hrest
    have hsub1 : ∀ p ∈ stack, p ∈ stack1 := by
      rcases hcase with ⟨_, cm, _, rfl⟩ | ⟨_, _, rfl⟩
      · exact fun p hp => List.mem_append_left _ hp
      · exact fun p hp => hp
    refine ⟨fun p hp => hsub p (hsub1 p hp), fun c' z' hm hne => ?_⟩
    rcases List.mem_cons.1 hm with heq | hm
    · cases heq
      rcases hcase with ⟨_, cm, _, rfl⟩ | ⟨he, _, _⟩
      · exact ⟨cm, hsub _ (List.mem_append_right _ List.mem_cons_self)⟩
      · exact absurd he hne
    · exact hpush c' z' hm hne

/-- If the loop terminates within its fuel, every path below a stacked node is bounded by it. -/
theorem treeLoop_depth {tree : CTree (Cons K P)} {children : List Nat} :
    ∀ (fuel : Nat) {a : Automaton K P} {stack : List (Nat × Nat)} {added : List Nat}
      {r : Automaton K P × List Nat},
    treeLoop tree children fuel a stack added = .ok r →
    ∀ n m, (n, m) ∈ stack → ∀ L k, CTree.PathN tree (fun _ => true) L n k → L ≤ fuel
  | fuel, a, stack, added, r, h => by
    intro n m hm L k hp
    rcases treeLoop_inv h with ⟨rfl, _⟩ | ⟨fuel', n0, m0, init, b', stack', added', rfl, rfl, htc, hl⟩
    · cases hm
    · have ih := treeLoop_depth fuel' hl
      obtain ⟨hsub, hpush⟩ := treeChildren_stack _ htc
      rcases List.mem_append.1 hm with hm | hm
      · exact Nat.le_succ_of_le (ih n m (hsub _ hm) L k hp)
      · simp only [List.mem_singleton, Prod.mk.injEq] at hm
        obtain ⟨rfl, rfl⟩ := hm
        cases L with
        | zero => exact Nat.zero_le _
        | succ L =>
          obtain ⟨c, n1, hc, _, hp1⟩ := hp
          cases L with
          | zero => exact Nat.succ_le_succ (Nat.zero_le _)
          | succ L =>
            have hne : tree.childrenAt n1 ≠ [] := by
              obtain ⟨c2, n2, hc2, _, _⟩ := hp1
              intro h0; rw [h0] at hc2; cases hc2
            obtain ⟨cm, hcm⟩ := hpush c n1 hc hne
            exact Nat.succ_le_succ (ih n1 cm hcm _ k hp1)

/-! ### Processing one child of a popped pair -/

/-- `b2` is `b` after the processing of one child `(c, _)` (with labels `inds`) of a popped pair
with matcher state `m`: possibly one fresh state `fresh` below `m`, and the edges
`m -c-> children[i]` for `i ∈ inds`. -/
structure Step (b b2 : Automaton K P) (m : Nat) (c : Constraint K P) (fresh : Option Nat)
    (inds children : List Nat) : Prop where
  inv : Inv b2
  root : b2.root = b.root
  wt_ne : ∀ x, x ≠ m → fresh ≠ some x → b2.g.weight? x = b.g.weight? x
  wt_m : ∀ w, b.g.weight? m = some w →
    ∃ w', b2.g.weight? m = some w' ∧ w'.matches_ = w.matches_ ∧ w'.det = w.det
  dead_m : b.g.weight? m = none → b2.g.weight? m = none
  wt_fresh : ∀ x, fresh = some x → ¬ b.Live x ∧ x ≠ m ∧
    ∃ w, b2.g.weight? x = some w ∧ w.matches_ = [] ∧ w.det = false
  old : ∀ t e, b.g.edge? t = some e → b2.g.edge? t = some e
  new : ∀ t e, b2.g.edge? t = some e → b.g.edge? t = some e ∨
    (e.src = m ∧ e.w = some c ∧ (fresh = some e.dst ∨ ∃ i ∈ inds, children[i]? = some e.dst))
  cov_fresh : ∀ x, fresh = some x → ∃ t, b2.g.edge? t = some ⟨m, x, some c⟩
  cov : ∀ i ∈ inds, ∃ d, children[i]? = some d ∧
    (d ≠ m → ∃ t, b2.g.edge? t = some ⟨m, d, some c⟩)

/-- The child has no children itself: only `appendEdges`. -/
theorem Step.of_grows {b b2 : Automaton K P} {m : Nat} {c : Constraint K P}
    {inds children : List Nat}
    (g : Grows b b2 m (fun c' d => c' = some c ∧ (∃ i ∈ inds, children[i]? = some d) ∧ d ≠ m))
    (cov : ∀ i ∈ inds, ∃ d, children[i]? = some d ∧
      (d ≠ m → ∃ t, b2.g.edge? t = some ⟨m, d, some c⟩)) :
    Step b b2 m c none inds children where
  inv := g.inv
  root := g.root
  wt_ne x hx _ := g.wt_ne x hx
  wt_m := g.wt
  dead_m := g.dead
  wt_fresh x hx := by cases hx
  old := g.old
  new t e he := by
    rcases g.new t e he with h | ⟨_, h1, h2, h3, _⟩
    · exact .inl h
    · exact .inr ⟨h1, h2, .inr h3⟩
  cov_fresh x hx := by cases hx
  cov := cov

/-- The child has children: `addTransition`, then `appendEdges`. -/
theorem Step.of_add {b b1 b2 : Automaton K P} {m cm e : Nat} {c : Constraint K P}
    {inds children : List Nat} (sp : AddTransitionSpec b b1 m cm (some c) e)
    (g : Grows b1 b2 m (fun c' d => c' = some c ∧ (∃ i ∈ inds, children[i]? = some d) ∧ d ≠ m))
    (cov : ∀ i ∈ inds, ∃ d, children[i]? = some d ∧
      (d ≠ m → ∃ t, b2.g.edge? t = some ⟨m, d, some c⟩)) :
    Step b b2 m c (some cm) inds children := by
  have hcm : cm ≠ m := fun h => sp.deadc (h ▸ sp.livep)
  have hold : ∀ t ed, b.g.edge? t = some ed → b1.g.edge? t = some ed := by
    intro t ed h
    have hte : t ≠ e := fun hte => by rw [hte, sp.fresh] at h; cases h
    rw [sp.edge, if_neg hte]; exact h
  refine ⟨g.inv, g.root.trans sp.root, fun x hx hf => ?_, fun w hw => ?_, fun hd => ?_,
    fun x hx => ?_, fun t ed h => g.old t ed (hold t ed h), fun t ed h => ?_, fun x hx => ?_, cov⟩
  · have hxc : x ≠ cm := fun h => hf (by rw [h])
    rw [g.wt_ne x hx, sp.wt, if_neg hxc, if_neg hx]
  · exact g.wt (addOrder (some c) e w) (by rw [sp.wt, if_neg (Ne.symm hcm), if_pos rfl, hw]; rfl)
  · exact g.dead (by rw [sp.wt, if_neg (Ne.symm hcm), if_pos rfl, hd]; rfl)
  · cases hx
    refine ⟨sp.deadc, hcm, {}, ?_, rfl, rfl⟩
    rw [g.wt_ne cm hcm, sp.wt, if_pos rfl]
  · rcases g.new t ed h with h1 | ⟨_, h1, h2, h3, _⟩
    · rw [sp.edge] at h1
      split at h1
      · cases h1; exact .inr ⟨rfl, rfl, .inl rfl⟩
      · exact .inl h1
    · exact .inr ⟨h1, h2, .inr h3⟩
  · cases hx
    exact ⟨e, g.old e _ (by rw [sp.edge, if_pos rfl])⟩

theorem Step.weight_some {b b2 : Automaton K P} {m : Nat} {c : Constraint K P}
    {fresh : Option Nat} {inds children : List Nat} (st : Step b b2 m c fresh inds children)
    {x : Nat} {w : AState K} (hw : b.g.weight? x = some w) :
    ∃ w', b2.g.weight? x = some w' ∧ w'.matches_ = w.matches_ ∧ w'.det = w.det := by
  by_cases hx : x = m
  · subst hx; exact st.wt_m w hw
  · have hf : fresh ≠ some x := fun hf => (st.wt_fresh x hf).1 (live_of_weight hw)
    exact ⟨w, (st.wt_ne x hx hf).trans hw, rfl, rfl⟩

theorem Step.weight_some' {b b2 : Automaton K P} {m : Nat} {c : Constraint K P}
    {fresh : Option Nat} {inds children : List Nat} (st : Step b b2 m c fresh inds children)
    {x : Nat} {w' : AState K} (hw : b2.g.weight? x = some w') :
    (fresh = some x ∧ w'.matches_ = [] ∧ w'.det = false) ∨
    ∃ w, b.g.weight? x = some w ∧ w'.matches_ = w.matches_ ∧ w'.det = w.det := by
  by_cases hf : fresh = some x
  · obtain ⟨_, _, w, hw2, h1, h2⟩ := st.wt_fresh x hf
    rw [hw] at hw2; cases hw2
    exact .inl ⟨hf, h1, h2⟩
  · right
    by_cases hx : x = m
    · subst hx
      cases h : b.g.weight? x with
      | none => rw [st.dead_m h] at hw; cases hw
      | some w =>
        obtain ⟨w'', hw'', h1, h2⟩ := st.wt_m w h
        rw [hw] at hw''; cases hw''
        exact ⟨w, rfl, h1, h2⟩
    · exact ⟨w', (st.wt_ne x hx hf).symm.trans hw, rfl, rfl⟩

theorem Step.live_of_live {b b2 : Automaton K P} {m : Nat} {c : Constraint K P}
    {fresh : Option Nat} {inds children : List Nat} (st : Step b b2 m c fresh inds children)
    {x : Nat} (h : b.Live x) : b2.Live x := by
  obtain ⟨w, hw⟩ := live_iff.1 h
  obtain ⟨w', hw', _⟩ := st.weight_some hw
  exact live_of_weight hw'

/-! ### The loop invariant -/

/-- The loop invariant, relative to the initial automaton `a1`. `Rep n m`: the pair `(n, m)` has
been pushed; `D n m c n'`: the child `(c, n')` of the pair `(n, m)` has been processed. -/
structure TI (a1 b : Automaton K P) (tree : CTree (Constraint K P)) (s : Nat)
    (children : List Nat) (added : List Nat) (Rep : Nat → Nat → Prop)
    (D : Nat → Nat → Constraint K P → Nat → Prop) : Prop where
  inv : Inv b
  root : b.root = a1.root
  live_s : a1.Live s
  rep_root : Rep 0 s
  rep_fresh : ∀ n m, Rep n m → (n = 0 ∧ m = s) ∨ ¬ a1.Live m
  rep_fun : ∀ n n' m, Rep n m → Rep n' m → n = n'
  rep_live : ∀ n m, Rep n m → b.Live m
  wt_old : ∀ x, a1.Live x → x ≠ s → b.g.weight? x = a1.g.weight? x
  wt_s : ∀ w, a1.g.weight? s = some w →
    ∃ w', b.g.weight? s = some w' ∧ w'.matches_ = w.matches_ ∧ w'.det = w.det
  wt_new : ∀ x w, ¬ a1.Live x → b.g.weight? x = some w →
    w.matches_ = [] ∧ w.det = false ∧ ∃ n, Rep n x
  old : ∀ t e, a1.g.edge? t = some e → b.g.edge? t = some e
  new : ∀ t e, b.g.edge? t = some e → a1.g.edge? t = some e ∨
    (e.src = s ∧ e.w = none ∧ ∃ i ∈ tree.labelsAt 0, children[i]? = some e.dst) ∨
    (∃ n c n', Rep n e.src ∧ (c, n') ∈ tree.childrenAt n ∧ e.w = some c ∧
      ((Rep n' e.dst ∧ ¬ a1.Live e.dst) ∨ ∃ i ∈ tree.labelsAt n', children[i]? = some e.dst))
  root_labels : ∀ i ∈ tree.labelsAt 0, ∃ d, children[i]? = some d ∧
    (d ≠ s → ∃ t, b.g.edge? t = some ⟨s, d, none⟩)
  d_sub : ∀ n m c n', D n m c n' → Rep n m ∧ (c, n') ∈ tree.childrenAt n
  inner : ∀ n m c n', D n m c n' →
    (tree.childrenAt n' ≠ [] →
      ∃ m', Rep n' m' ∧ ¬ a1.Live m' ∧ ∃ t, b.g.edge? t = some ⟨m, m', some c⟩) ∧
    (∀ i ∈ tree.labelsAt n', ∃ d, children[i]? = some d ∧
      (d ≠ m → ∃ t, b.g.edge? t = some ⟨m, d, some c⟩))
  added_iff : ∀ i, i ∈ added ↔ i ∈ tree.labelsAt 0 ∨
    ∃ n m c n', D n m c n' ∧ i ∈ tree.labelsAt n'

theorem TI.live_old {a1 b : Automaton K P} {tree : CTree (Constraint K P)} {s : Nat}
    {children added : List Nat} {Rep : Nat → Nat → Prop}
    {D : Nat → Nat → Constraint K P → Nat → Prop} (ti : TI a1 b tree s children added Rep D)
    {x : Nat} (h : a1.Live x) : b.Live x := by
  obtain ⟨w, hw⟩ := live_iff.1 h
  by_cases hx : x = s
  · subst hx
    obtain ⟨w', hw', _⟩ := ti.wt_s w hw
    exact live_of_weight hw'
  · exact live_of_weight ((ti.wt_old x h hx).trans hw)

/-- The popped matcher state is not an old state other than `s`. -/
theorem TI.rep_ne {a1 b : Automaton K P} {tree : CTree (Constraint K P)} {s : Nat}
    {children added : List Nat} {Rep : Nat → Nat → Prop}
    {D : Nat → Nat → Constraint K P → Nat → Prop} (ti : TI a1 b tree s children added Rep D)
    {n m x : Nat} (hr : Rep n m) (h : a1.Live x) (hx : x ≠ s) : x ≠ m := by
  intro hxm
  subst hxm
  rcases ti.rep_fresh n x hr with ⟨_, h1⟩ | h1
  · exact hx h1
  · exact h1 h

/-- Processing one child `(c, n')` of the pair `(n, m)` preserves the invariant. -/
theorem TI.step {a1 b b2 : Automaton K P} {tree : CTree (Constraint K P)} {s : Nat}
    {children added : List Nat} {Rep : Nat → Nat → Prop}
    {D : Nat → Nat → Constraint K P → Nat → Prop} (ti : TI a1 b tree s children added Rep D)
    {n m n' : Nat} {c : Constraint K P} {fresh : Option Nat} (hr : Rep n m)
    (hc : (c, n') ∈ tree.childrenAt n)
    (st : Step b b2 m c fresh (tree.labelsAt n') children)
    (hfr : tree.childrenAt n' ≠ [] → ∃ x, fresh = some x) :
    TI a1 b2 tree s children (added ++ tree.labelsAt n')
      (fun x y => Rep x y ∨ (x = n' ∧ fresh = some y))
      (fun x y c1 z => D x y c1 z ∨ (x = n ∧ y = m ∧ c1 = c ∧ z = n')) where
  inv := st.inv
  root := st.root.trans ti.root
  live_s := ti.live_s
  rep_root := .inl ti.rep_root
  rep_fresh x y h := by
    rcases h with h | ⟨_, h⟩
    · exact ti.rep_fresh x y h
    · exact .inr fun hl => (st.wt_fresh y h).1 (ti.live_old hl)
  rep_fun x x' y h h' := by
    rcases h with h | ⟨h1, h2⟩
    · rcases h' with h' | ⟨_, h2'⟩
      · exact ti.rep_fun x x' y h h'
      · exact absurd (ti.rep_live x y h) (st.wt_fresh y h2').1
    · rcases h' with h' | ⟨h1', _⟩
      · exact absurd (ti.rep_live x' y h') (st.wt_fresh y h2).1
      · rw [h1, h1']
  rep_live x y h := by
    rcases h with h | ⟨_, h⟩
    · exact st.live_of_live (ti.rep_live x y h)
    · obtain ⟨_, _, w, hw, _⟩ := st.wt_fresh y h
      exact live_of_weight hw
  wt_old x hl hx := by
    have hxm : x ≠ m := ti.rep_ne hr hl hx
    have hf : fresh ≠ some x := fun hf => (st.wt_fresh x hf).1 (ti.live_old hl)
    rw [st.wt_ne x hxm hf]
    exact ti.wt_old x hl hx
  wt_s w hw := by
    obtain ⟨w1, hw1, h1, h2⟩ := ti.wt_s w hw
    obtain ⟨w2, hw2, h3, h4⟩ := st.weight_some hw1
    exact ⟨w2, hw2, h3.trans h1, h4.trans h2⟩
  wt_new x w hd hw := by
    rcases st.weight_some' hw with ⟨hf, h1, h2⟩ | ⟨w0, hw0, h1, h2⟩
    · exact ⟨h1, h2, n', .inr ⟨rfl, hf⟩⟩
    · obtain ⟨h3, h4, k, hk⟩ := ti.wt_new x w0 hd hw0
      exact ⟨h1.trans h3, h2.trans h4, k, .inl hk⟩
  old t e h := st.old t e (ti.old t e h)
  new t e h := by
    rcases st.new t e h with h0 | ⟨h1, h2, h3⟩
    · rcases ti.new t e h0 with h4 | h4 | ⟨k, c1, k', h5, h6, h7, h8⟩
      · exact .inl h4
      · exact .inr (.inl h4)
      · refine .inr (.inr ⟨k, c1, k', .inl h5, h6, h7, ?_⟩)
        rcases h8 with ⟨h8, h9⟩ | h8
        · exact .inl ⟨.inl h8, h9⟩
        · exact .inr h8
    · refine .inr (.inr ⟨n, c, n', .inl (h1 ▸ hr), hc, h2, ?_⟩)
      rcases h3 with h3 | h3
      · exact .inl ⟨.inr ⟨rfl, h3⟩, fun hl => (st.wt_fresh _ h3).1 (ti.live_old hl)⟩
      · exact .inr h3
  root_labels i hi := by
    obtain ⟨d, hd, he⟩ := ti.root_labels i hi
    refine ⟨d, hd, fun hne => ?_⟩
    obtain ⟨t, ht⟩ := he hne
    exact ⟨t, st.old t _ ht⟩
  d_sub x y c1 z h := by
    rcases h with h | ⟨rfl, rfl, rfl, rfl⟩
    · obtain ⟨h1, h2⟩ := ti.d_sub x y c1 z h
      exact ⟨.inl h1, h2⟩
    · exact ⟨.inl hr, hc⟩
  inner x y c1 z h := by
    rcases h with h | ⟨rfl, rfl, rfl, rfl⟩
    · obtain ⟨h1, h2⟩ := ti.inner x y c1 z h
      refine ⟨fun hne => ?_, fun i hi => ?_⟩
      · obtain ⟨m', h3, h4, t, ht⟩ := h1 hne
        exact ⟨m', .inl h3, h4, t, st.old t _ ht⟩
      · obtain ⟨d, hd, he⟩ := h2 i hi
        refine ⟨d, hd, fun hne => ?_⟩
        obtain ⟨t, ht⟩ := he hne
        exact ⟨t, st.old t _ ht⟩
    · refine ⟨fun hne => ?_, st.cov⟩
      obtain ⟨x, hx⟩ := hfr hne
      exact ⟨x, .inr ⟨rfl, hx⟩, fun hl => (st.wt_fresh x hx).1 (ti.live_old hl), st.cov_fresh x hx⟩
  added_iff i := by
    rw [List.mem_append, ti.added_iff]
    constructor
    · rintro ((h | ⟨x, y, c1, z, h1, h2⟩) | h)
      · exact .inl h
      · exact .inr ⟨x, y, c1, z, .inl h1, h2⟩
      · exact .inr ⟨n, m, c, n', .inr ⟨rfl, rfl, rfl, rfl⟩, h⟩
    · rintro (h | ⟨x, y, c1, z, h1 | ⟨rfl, rfl, rfl, rfl⟩, h2⟩)
      · exact .inl (.inl h)
      · exact .inl (.inr ⟨x, y, c1, z, h1, h2⟩)
      · exact .inr h2

/-! ### Initialisation and final form of the invariant -/

/-- After the root labels have been attached: only `(0, s)` is represented, nothing processed. -/
theorem TI.init {a1 b : Automaton K P} {tree : CTree (Constraint K P)} {s : Nat}
    {children : List Nat} (hs : a1.Live s)
    (g : Grows a1 b s (fun c' d => c' = none ∧
      (∃ i ∈ tree.labelsAt 0, children[i]? = some d) ∧ d ≠ s))
    (cov : ∀ i ∈ tree.labelsAt 0, ∃ d, children[i]? = some d ∧
      (d ≠ s → ∃ t, b.g.edge? t = some ⟨s, d, none⟩)) :
    TI a1 b tree s children (tree.labelsAt 0) (fun n m => n = 0 ∧ m = s)
      (fun _ _ _ _ => False) where
  inv := g.inv
  root := g.root
  live_s := hs
  rep_root := ⟨rfl, rfl⟩
  rep_fresh _ _ h := .inl h
  rep_fun x x' _ h h' := h.1.trans h'.1.symm
  rep_live x y h := by rw [h.2]; exact (g.live_iff s).2 hs
  wt_old x _ hx := g.wt_ne x hx
  wt_s := g.wt
  wt_new x w hd hw := by
    obtain ⟨w0, hw0, _⟩ := g.weight_some' hw
    exact absurd (live_of_weight hw0) hd
  old := g.old
  new t e h := by
    rcases g.new t e h with h1 | ⟨_, h1, h2, h3, _⟩
    · exact .inl h1
    · exact .inr (.inl ⟨h1, h2, h3⟩)
  root_labels := cov
  d_sub _ _ _ _ h := h.elim
  inner _ _ _ _ h := h.elim
  added_iff i := by
    constructor
    · exact fun h => .inl h
    · rintro (h | ⟨_, _, _, _, h, _⟩)
      · exact h
      · exact h.elim

/-- When every represented pair has been fully processed the invariant is `TreeBuilt`. -/
theorem TI.built {a1 b : Automaton K P} {tree : CTree (Constraint K P)} {s : Nat}
    {children added : List Nat} {Rep : Nat → Nat → Prop}
    {D : Nat → Nat → Constraint K P → Nat → Prop} (ti : TI a1 b tree s children added Rep D)
    (hfull : ∀ x y, Rep x y → ∀ c z, (c, z) ∈ tree.childrenAt x → D x y c z) {fuel : Nat}
    (hdepth : ∀ L k, CTree.PathN tree (fun _ => true) L 0 k → L ≤ fuel) :
    TreeBuilt a1 b tree s children fuel added Rep where
  inv := ti.inv
  root := ti.root
  rep_root := ti.rep_root
  rep_fresh := ti.rep_fresh
  rep_fun := ti.rep_fun
  rep_live := ti.rep_live
  wt_old := ti.wt_old
  wt_s := ti.wt_s
  wt_new := ti.wt_new
  old := ti.old
  new := ti.new
  root_labels := ti.root_labels
  inner n m c n' hr hc := ti.inner n m c n' (hfull n m hr c n' hc)
  added_iff i := by
    rw [ti.added_iff]
    constructor
    · rintro (h | ⟨n, m, c, n', h1, h2⟩)
      · exact .inl h
      · obtain ⟨h3, h4⟩ := ti.d_sub n m c n' h1
        exact .inr ⟨n, m, c, n', h3, h4, h2⟩
    · rintro (h | ⟨n, m, c, n', h1, h2, h3⟩)
      · exact .inl h
      · exact .inr ⟨n, m, c, n', hfull n m h1 c n' h2, h3⟩
  depth := hdepth

/-! ### One `treeChildren` run -/

section Loops
variable [DecidableEq K] [DecidableEq P]

/-- The automaton part of the processing of one child. -/
theorem Step.of_child {b b1 b2 : Automaton K P} {tree : CTree (Constraint K P)}
    {children : List Nat} {m z : Nat} {c : Constraint K P} {stack stack1 : List (Nat × Nat)}
    (inv : Inv b) (hm : b.Live m)
    (hcase : (tree.childrenAt z ≠ [] ∧ ∃ cm, b.addTransition m (some c) = .ok (b1, cm) ∧
        stack1 = stack ++ [(z, cm)]) ∨ (tree.childrenAt z = [] ∧ b1 = b ∧ stack1 = stack))
    (happ : b1.appendEdges m children (some c) (tree.labelsAt z) = .ok b2) :
    ∃ fresh, Step b b2 m c fresh (tree.labelsAt z) children ∧
      (tree.childrenAt z ≠ [] → ∃ x, fresh = some x) ∧
      (∀ x, fresh = some x → (z, x) ∈ stack1) ∧
      (∀ p ∈ stack1, p ∈ stack ∨ (p.1 = z ∧ fresh = some p.2)) ∧
      (∀ p ∈ stack, p ∈ stack1) := by
  rcases hcase with ⟨_, cm, hadd, rfl⟩ | ⟨he, rfl, rfl⟩
  · obtain ⟨e, sp⟩ := addTransition_spec inv hm hadd
    obtain ⟨g, cov⟩ := appendEdges_grows _ sp.inv happ
    refine ⟨some cm, Step.of_add sp g cov, fun _ => ⟨cm, rfl⟩, fun x hx => ?_, fun p hp => ?_,
      fun p hp => List.mem_append_left _ hp⟩
    · cases hx; exact List.mem_append_right _ List.mem_cons_self
    · rcases List.mem_append.1 hp with hp | hp
      · exact .inl hp
      · simp only [List.mem_singleton] at hp
        subst hp
        exact .inr ⟨rfl, rfl⟩
  · obtain ⟨g, cov⟩ := appendEdges_grows _ inv happ
    exact ⟨none, Step.of_grows g cov, fun hne => absurd he hne, fun x hx => (by cases hx),
      fun p hp => .inl hp, fun p hp => hp⟩

theorem treeChildren_ti {a1 : Automaton K P} {tree : CTree (Constraint K P)} {s : Nat}
    {children : List Nat} {n m : Nat} :
    ∀ (cs : List (Cons K P × Nat)) {b b' : Automaton K P} {stack stack' : List (Nat × Nat)}
      {added added' : List Nat} {Rep : Nat → Nat → Prop}
      {D : Nat → Nat → Constraint K P → Nat → Prop},
    TI a1 b tree s children added Rep D → Rep n m → (∀ x ∈ cs, x ∈ tree.childrenAt n) →
    treeChildren tree children m b cs stack added = .ok (b', stack', added') →
    ∃ Rep' D', TI a1 b' tree s children added' Rep' D' ∧
      (∀ x y, Rep x y → Rep' x y) ∧
      (∀ x y c z, D x y c z → D' x y c z) ∧
      (∀ c z, (c, z) ∈ cs → D' n m c z) ∧
      (∀ x y, Rep' x y → Rep x y ∨ (x, y) ∈ stack') ∧
      (∀ p ∈ stack, p ∈ stack') ∧
      (∀ p ∈ stack', p ∈ stack ∨ Rep' p.1 p.2)
  | [], b, b', stack, stack', added, added', Rep, D, ti, _, _, h => by
    unfold treeChildren at h; cases h
    exact ⟨Rep, D, ti, fun _ _ h => h, fun _ _ _ _ h => h, fun _ _ h => (by cases h),
      fun _ _ h => .inl h, fun _ h => h, fun _ h => .inl h⟩
  | (c, z) :: rest, b, b', stack, stack', added, added', Rep, D, ti, hr, hsub, h => by
    obtain ⟨b1, b2, stack1, hcase, happ, hrest⟩ := treeChildren_cons_inv h
    have hc : (c, z) ∈ tree.childrenAt n := hsub _ List.mem_cons_self
    obtain ⟨fresh, st, hfr, hpush, hst1, hst0⟩ :=
      Step.of_child ti.inv (ti.rep_live n m hr) hcase happ
    have ti2 := ti.step hr hc st hfr
    obtain ⟨Rep', D', ti', hR, hD, hdone, hnew, hss, hss'⟩ :=
      treeChildren_ti rest ti2 (.inl hr) (fun x hx => hsub x (List.mem_cons_of_mem _ hx)) hrest
    refine ⟨Rep', D', ti', fun x y h => hR x y (.inl h), fun x y c1 z1 h => hD x y c1 z1 (.inl h),
      fun c1 z1 hm => ?_, fun x y h => ?_, fun p hp => hss p (hst0 p hp), fun p hp => ?_⟩
    · rcases List.mem_cons.1 hm with heq | hm
      · cases heq
        exact hD n m c z (.inr ⟨rfl, rfl, rfl, rfl⟩)
      · exact hdone c1 z1 hm
    · rcases hnew x y h with (h1 | ⟨rfl, h1⟩) | h1
      · exact .inl h1
      · exact .inr (hss _ (hpush y h1))
      · exact .inr h1
    · rcases hss' p hp with h1 | h1
      · rcases hst1 p h1 with h2 | ⟨h2, h3⟩
        · exact .inl h2
        · exact .inr (hR _ _ (.inr ⟨h2, h3⟩))
      · exact .inr h1

/-! ### `treeLoop` -/

theorem treeLoop_ti {a1 : Automaton K P} {tree : CTree (Constraint K P)} {s : Nat}
    {children : List Nat} :
    ∀ (fuel : Nat) {b b' : Automaton K P} {stack : List (Nat × Nat)} {added added' : List Nat}
      {Rep : Nat → Nat → Prop} {D : Nat → Nat → Constraint K P → Nat → Prop},
    TI a1 b tree s children added Rep D → (∀ p ∈ stack, Rep p.1 p.2) →
    (∀ x y, Rep x y → (x, y) ∈ stack ∨ ∀ c z, (c, z) ∈ tree.childrenAt x → D x y c z) →
    treeLoop tree children fuel b stack added = .ok (b', added') →
    ∃ Rep' D', TI a1 b' tree s children added' Rep' D' ∧
      ∀ x y, Rep' x y → ∀ c z, (c, z) ∈ tree.childrenAt x → D' x y c z
  | fuel, b, b', stack, added, added', Rep, D, ti, hst, hdone, h => by
    rcases treeLoop_inv h with ⟨rfl, heq⟩ | ⟨fuel', n, m, init, b1, stack1, added1, rfl, rfl, htc, hl⟩
    · cases heq
      refine ⟨Rep, D, ti, fun x y hxy => ?_⟩
      rcases hdone x y hxy with h1 | h1
      · cases h1
      · exact h1
    · have hr : Rep n m := hst (n, m) (List.mem_append_right _ List.mem_cons_self)
      obtain ⟨Rep1, D1, ti1, hR, hD, hd1, hnew, hss, hss'⟩ :=
        treeChildren_ti _ ti hr (fun x hx => hx) htc
      refine treeLoop_ti fuel' ti1 (fun p hp => ?_) (fun x y hxy => ?_) hl
      · rcases hss' p hp with h1 | h1
        · exact hR _ _ (hst p (List.mem_append_left _ h1))
        · exact h1
      · rcases hnew x y hxy with h1 | h1
        · rcases hdone x y h1 with h2 | h2
          · rcases List.mem_append.1 h2 with h3 | h3
            · exact .inl (hss _ h3)
            · simp only [List.mem_singleton, Prod.mk.injEq] at h3
              obtain ⟨rfl, rfl⟩ := h3
              exact .inr hd1
          · exact .inr fun c z hcz => hD _ _ _ _ (h2 c z hcz)
        · exact .inl h1

/-! ### The main statement -/

/-- `add_constraint_tree` builds the image of the tree below `s`. -/
theorem addConstraintTree_built : AddTreeStmt K P := by
  intro a1 a2 tree s children fuel added inv hs h
  unfold addConstraintTree at h
  simp only at h
  cases happ : a1.appendEdges s children none (tree.labelsAt 0) with
  | error e => rw [happ] at h; cases h
  | ok b =>
    rw [happ] at h
    simp only at h
    obtain ⟨g, cov⟩ := appendEdges_grows _ inv happ
    have ti0 := TI.init hs g cov
    obtain ⟨Rep, D, ti, hfull⟩ := treeLoop_ti fuel ti0
      (fun p hp => by
        simp only [List.mem_singleton] at hp
        subst hp
        exact ⟨rfl, rfl⟩)
      (fun x y hxy => by
        obtain ⟨rfl, rfl⟩ := hxy
        exact .inl List.mem_cons_self) h
    exact ⟨Rep, ti.built hfull
      (treeLoop_depth fuel h 0 s List.mem_cons_self)⟩

end Loops

end Automaton
end Pm
