/-
Proofs/AnchBind.lean — T-RUN-ANCH-STR, stage 1: the bindings the traversal of a string automaton
computes. `bindAll`/`retain` on `StrPos` in closed form (`Anch.ext`, `Anch.ret`), the step
candidates of a state (`stepCands`), the bindings emitted at an accepting state, and the
evaluation of a constraint under such a binding (`= strSigma`).
Everything lives in `namespace Pm.Anch`.
-/
import PmVerif.Spec.StrRun
import PmVerif.Spec.RunSpec
import PmVerif.Props.C13
import PmVerif.Props.C09
import PmVerif.Props.TRun
namespace Pm
namespace Anch

/-! ### host length -/

theorem utf8Len_pos (c : Nat) : 1 ≤ utf8Len c := by
  unfold utf8Len
  split
  · exact Nat.le_refl _
  · split
    · omega
    · split <;> omega

theorem length_le_byteLen (h : List Nat) : h.length ≤ strByteLen h := by
  unfold strByteLen
  induction h with
  | nil => simp
  | cons c cs ih =>
    have := utf8Len_pos c
    simp only [List.length_cons, List.map_cons, List.sum_cons]
    omega

/-! ### closed forms -/

/-- The extent after binding (incomplete mode) the keys `ks` in order, starting from extent
`len`, at anchor `a` in a host of byte length `B`: a key `k` is bindable iff `a + k < B`. -/
def ext (B a : Nat) : Nat → List Nat → Nat
  | len, [] => len
  | len, k :: ks => ext B a (if a + k < B then max len (k + 1) else len) ks

/-- The extent after re-binding (`retain_keys`) the keys `ks` that are below the extent `L`. -/
def ret (L : Nat) : Nat → List Nat → Nat
  | cur, [] => cur
  | cur, k :: ks => ret L (if k < L then max cur (k + 1) else cur) ks

theorem ext_ge (B a : Nat) : ∀ (ks : List Nat) (len : Nat), len ≤ ext B a len ks := by
  intro ks
  induction ks with
  | nil => intro len; exact Nat.le_refl _
  | cons k ks ih =>
    intro len
    simp only [ext]
    split
    · exact Nat.le_trans (Nat.le_max_left _ _) (ih _)
    · exact ih _

theorem ext_le (B a : Nat) : ∀ (ks : List Nat) (len : Nat), a + len ≤ B → a + ext B a len ks ≤ B := by
  intro ks
  induction ks with
  | nil => intro len h; exact h
  | cons k ks ih =>
    intro len h
    simp only [ext]
    split
    · exact ih _ (by omega)
    · exact ih _ h

theorem ext_lt (B a : Nat) : ∀ (ks : List Nat) (len : Nat) (k : Nat), k ∈ ks → a + k < B →
    k < ext B a len ks := by
  intro ks
  induction ks with
  | nil => intro len k hk; cases hk
  | cons k' ks ih =>
    intro len k hk hb
    simp only [ext]
    rcases List.mem_cons.mp hk with rfl | hk
    · rw [if_pos hb]
      have := ext_ge B a ks (max len (k + 1))
      omega
    · exact ih _ k hk hb

theorem ext_zero_cons (B a : Nat) (rest : List Nat) : ext B a 1 (0 :: rest) = ext B a 1 rest := by
  simp only [ext]
  split <;> simp

theorem ret_eq_ext (B a L : Nat) : ∀ (ks : List Nat) (cur : Nat),
    (∀ k ∈ ks, k < L ↔ a + k < B) → ret L cur ks = ext B a cur ks := by
  intro ks
  induction ks with
  | nil => intro cur _; rfl
  | cons k ks ih =>
    intro cur h
    simp only [ret, ext]
    have hk := h k List.mem_cons_self
    have hrest : ∀ k ∈ ks, k < L ↔ a + k < B := fun k' hk' => h k' (List.mem_cons_of_mem _ hk')
    by_cases hl : k < L
    · rw [if_pos hl, if_pos (hk.mp hl)]; exact ih _ hrest
    · rw [if_neg hl, if_neg (fun hb => hl (hk.mpr hb))]; exact ih _ hrest

theorem ret_all (L : Nat) : ∀ (ks : List Nat) (cur : Nat), (∀ k ∈ ks, k < L) →
    ret L cur ks = ks.foldl (fun acc k => max acc (k + 1)) cur := by
  intro ks
  induction ks with
  | nil => intro cur _; rfl
  | cons k ks ih =>
    intro cur h
    simp only [ret, List.foldl_cons]
    rw [if_pos (h k List.mem_cons_self)]
    exact ih _ fun k' hk' => h k' (List.mem_cons_of_mem _ hk')

theorem foldl_max_succ : ∀ (ks : List Nat) (c : Nat),
    ks.foldl (fun acc k => max acc (k + 1)) (c + 1) = 1 + ks.foldl max c := by
  intro ks
  induction ks with
  | nil => intro c; simp; omega
  | cons k ks ih =>
    intro c
    simp only [List.foldl_cons]
    have : max (c + 1) (k + 1) = max c k + 1 := by omega
    rw [this]
    exact ih _

/-- The retained extent when every key of `0 :: rest` lies below `L`. -/
theorem ret_all_keys (L : Nat) (rest : List Nat) (h : ∀ k ∈ rest, k < L) :
    ret L 1 rest = 1 + (0 :: rest).foldl max 0 := by
  rw [ret_all L rest 1 h]
  exact foldl_max_succ rest 0

theorem le_foldl_max : ∀ (ks : List Nat) (c : Nat), c ≤ ks.foldl max c := by
  intro ks
  induction ks with
  | nil => intro c; exact Nat.le_refl _
  | cons k ks ih => intro c; exact Nat.le_trans (Nat.le_max_left _ _) (ih _)

theorem mem_le_foldl_max : ∀ (ks : List Nat) (c k : Nat), k ∈ ks → k ≤ ks.foldl max c := by
  intro ks
  induction ks with
  | nil => intro c k hk; cases hk
  | cons k' ks ih =>
    intro c k hk
    simp only [List.foldl_cons]
    rcases List.mem_cons.mp hk with rfl | hk
    · exact Nat.le_trans (Nat.le_max_right _ _) (le_foldl_max ks _)
    · exact ih _ k hk

theorem foldl_max_le : ∀ (ks : List Nat) (c n : Nat), c ≤ n → (∀ k ∈ ks, k ≤ n) →
    ks.foldl max c ≤ n := by
  intro ks
  induction ks with
  | nil => intro c n hc _; exact hc
  | cons k ks ih =>
    intro c n hc h
    simp only [List.foldl_cons]
    exact ih _ n (Nat.max_le.mpr ⟨hc, h k List.mem_cons_self⟩)
      fun k' hk' => h k' (List.mem_cons_of_mem _ hk')

/-- `1 + max` of a key list whose largest key is `n`. -/
theorem foldl_max_eq (ks : List Nat) (n : Nat) (hmem : n ∈ ks) (hle : ∀ k ∈ ks, k ≤ n) :
    1 + ks.foldl max 0 = n + 1 := by
  have h1 := mem_le_foldl_max ks 0 n hmem
  have h2 := foldl_max_le ks 0 n (Nat.zero_le _) hle
  omega

/-! ### `get`, `extend`, `bindAll` on a bound position map -/

theorem get_bound (a L k : Nat) : StrPos.get (.bound a L) k = if k < L then some (a + k) else none :=
  rfl

theorem get_bound_zero (a L : Nat) (hL : 1 ≤ L) : StrPos.get (.bound a L) 0 = some a := by
  rw [get_bound, if_pos (by omega)]; rfl

theorem extend_bound (h : List Nat) (a len k : Nat) (inc : Bool) (h1 : 1 ≤ len)
    (h2 : a + len ≤ strByteLen h) :
    extend strPosMap strOpts h inc k (.bound a len) =
      if a + k < strByteLen h then [.bound a (max len (k + 1))]
      else if inc = true then [.bound a len] else [] := by
  unfold extend
  show (if (StrPos.get (.bound a len) k).isSome = true then _ else _) = _
  rw [get_bound]
  by_cases hk : k < len
  · have hb : a + k < strByteLen h := by omega
    have hm : max len (k + 1) = len := by omega
    simp [hk, hb, hm]
  · have hk0 : k ≠ 0 := by omega
    simp only [hk, if_false, Option.isSome_none, Bool.false_eq_true]
    by_cases hb : a + k < strByteLen h
    · simp [strOpts, hk0, hb, strPosMap, StrPos.bind]
    · cases inc <;> simp [strOpts, hk0, hb]

/-- `bindAll` from a bound map: a single candidate, or none in complete mode when some key
cannot be bound. -/
theorem bindAll_bound (h : List Nat) (a : Nat) (inc : Bool) : ∀ (ks : List Nat) (len : Nat),
    1 ≤ len → a + len ≤ strByteLen h →
    bindAll strPosMap strOpts h (.bound a len) ks inc =
      if inc = true ∨ ∀ k ∈ ks, a + k < strByteLen h then
        [.bound a (ext (strByteLen h) a len ks)] else [] := by
  intro ks
  induction ks with
  | nil =>
    intro len _ _
    simp [bindAll, bindAllLoop, ext]
  | cons k ks ih =>
    intro len h1 h2
    rw [c13_cons, extend_bound h a len k inc h1 h2]
    by_cases hb : a + k < strByteLen h
    · rw [if_pos hb]
      simp only [List.flatMap_cons, List.flatMap_nil, List.append_nil]
      rw [ih _ (by omega) (by omega)]
      have hc : (inc = true ∨ ∀ k' ∈ k :: ks, a + k' < strByteLen h) ↔
          (inc = true ∨ ∀ k' ∈ ks, a + k' < strByteLen h) := by
        constructor
        · rintro (hi | hall)
          · exact .inl hi
          · exact .inr fun k' hk' => hall k' (List.mem_cons_of_mem _ hk')
        · rintro (hi | hall)
          · exact .inl hi
          · refine .inr fun k' hk' => ?_
            rcases List.mem_cons.mp hk' with rfl | hk'
            · exact hb
            · exact hall k' hk'
      simp only [hc, ext, if_pos hb]
    · rw [if_neg hb]
      cases inc with
      | true =>
        simp only [if_true, List.flatMap_cons, List.flatMap_nil, List.append_nil]
        rw [ih _ h1 h2]
        simp [ext, hb]
      | false =>
        have : ¬ (false = true ∨ ∀ k' ∈ k :: ks, a + k' < strByteLen h) := by
          rintro (hf | hall)
          · cases hf
          · exact hb (hall k List.mem_cons_self)
        rw [if_neg this]
        rfl

/-! ### `retain` -/

theorem retain_nil (m : StrPos) : strPosMap.retain m [] = some .unbound := rfl

theorem retainDefault_unbound : ∀ (ks : List Nat) (acc : StrPos),
    retainDefault (fun m k => some (StrPos.get m k)) StrPos.bind .unbound ks acc = some acc := by
  intro ks
  induction ks with
  | nil => intro acc; rfl
  | cons k ks ih => intro acc; simp only [retainDefault, StrPos.get]; exact ih acc

theorem retain_unbound (ks : List Nat) : strPosMap.retain .unbound ks = some .unbound :=
  retainDefault_unbound ks .unbound

theorem retainDefault_bound (a L : Nat) : ∀ (ks : List Nat) (cur : Nat), 0 ∉ ks →
    retainDefault (fun m k => some (StrPos.get m k)) StrPos.bind (.bound a L) ks (.bound a cur) =
      some (.bound a (ret L cur ks)) := by
  intro ks
  induction ks with
  | nil => intro cur _; rfl
  | cons k ks ih =>
    intro cur h0
    have hk0 : k ≠ 0 := fun e => h0 (e ▸ List.mem_cons_self)
    have h0' : 0 ∉ ks := fun hm => h0 (List.mem_cons_of_mem _ hm)
    simp only [retainDefault, get_bound, ret]
    by_cases hk : k < L
    · simp only [hk, if_true, StrPos.bind, hk0, if_false]
      exact ih _ h0'
    · simp only [hk, if_false]
      exact ih _ h0'

/-- `retain_keys` on a bound map, with the start key listed first and only once. -/
theorem retain_bound (a L : Nat) (rest : List Nat) (hL : 1 ≤ L) (h0 : 0 ∉ rest) :
    strPosMap.retain (.bound a L) (0 :: rest) = some (.bound a (ret L 1 rest)) := by
  show retainDefault (fun m k => some (StrPos.get m k)) StrPos.bind (.bound a L) (0 :: rest)
    .unbound = _
  have hz : (0 : Nat) < L := by omega
  simp only [retainDefault, get_bound, hz, if_true, StrPos.bind, Nat.add_zero]
  exact retainDefault_bound a L rest 1 h0

/-! ### step candidates -/

theorem retainAll_singleton {keys : List Nat} {m m' : StrPos}
    (hr : strPosMap.retain m keys = some m') : retainAll strDomain keys [m] = .ok [m'] := by
  have hr' : strDomain.map.retain m keys = some m' := hr
  simp [retainAll, hr']

theorem retainAll_map {α : Type} (keys : List Nat) (l : List α) (f g : α → StrPos)
    (H : ∀ x ∈ l, strPosMap.retain (f x) keys = some (g x)) :
    retainAll strDomain keys (l.map f) = .ok (l.map g) := by
  rw [retainAll_ok]
  rw [List.map_map, List.map_map]
  exact List.map_congr_left fun x hx => H x hx

theorem flatMap_singleton_of_mem {α β : Type} (l : List α) (g : α → List β) (F : α → β)
    (H : ∀ x ∈ l, g x = [F x]) : l.flatMap g = l.map F := by
  induction l with
  | nil => rfl
  | cons x xs ih =>
    rw [List.flatMap_cons, List.map_cons, H x List.mem_cons_self,
      ih fun y hy => H y (List.mem_cons_of_mem _ hy)]
    rfl

/-- The retained step candidate: depends on the anchor and the scope only. -/
theorem retain_ext (h : List Nat) (a len : Nat) (rest : List Nat) (h0 : 0 ∉ rest)
    (h1 : 1 ≤ len) (h2 : a + len ≤ strByteLen h) :
    strPosMap.retain (.bound a (ext (strByteLen h) a len (0 :: rest))) (0 :: rest) =
      some (.bound a (ext (strByteLen h) a 1 (0 :: rest))) := by
  have hge := ext_ge (strByteLen h) a (0 :: rest) len
  have hle := ext_le (strByteLen h) a (0 :: rest) len h2
  rw [retain_bound a _ rest (by omega) h0, ext_zero_cons]
  congr 2
  apply ret_eq_ext
  intro k hk
  constructor
  · intro hlt; omega
  · intro hb; exact ext_lt _ _ _ _ k (List.mem_cons_of_mem _ hk) hb

theorem stepCands_bound (h : List Nat) (w : AState Nat) (a len : Nat) (rest : List Nat)
    (hs : w.scope = 0 :: rest) (h0 : 0 ∉ rest) (h1 : 1 ≤ len) (h2 : a + len ≤ strByteLen h) :
    stepCands strDomain h w (.bound a len) =
      .ok [.bound a (ext (strByteLen h) a 1 w.scope)] := by
  unfold stepCands
  show retainAll strDomain w.scope (bindAll strPosMap strOpts h (.bound a len) w.scope true) = _
  rw [bindAll_bound h a true w.scope len h1 h2, if_pos (.inl rfl), hs]
  exact retainAll_singleton (retain_ext h a len rest h0 h1 h2)

theorem extend_unbound_zero (h : List Nat) (inc : Bool) (hB : inc = false ∨ 0 < strByteLen h) :
    extend strPosMap strOpts h inc 0 .unbound = (List.range (strByteLen h)).map (.bound · 1) := by
  unfold extend
  show (if (StrPos.get .unbound 0).isSome = true then _ else _) = _
  have he : ((strOpts h 0 .unbound).isEmpty && inc) = false := by
    rcases hB with rfl | hB
    · simp
    · have : (strOpts h 0 .unbound).isEmpty = false := by
        simp only [strOpts, if_true]
        cases hn : strByteLen h with
        | zero => omega
        | succ n => simp [List.range_succ]
      simp [this]
  simp only [StrPos.get, Option.isSome_none, Bool.false_eq_true, if_false, he]
  simp only [strOpts, if_true, strPosMap, StrPos.bind]
  induction List.range (strByteLen h) with
  | nil => rfl
  | cons x xs ih => simp [ih]

theorem stepCands_unbound (h : List Nat) (w : AState Nat) (rest : List Nat)
    (hs : w.scope = 0 :: rest) (h0 : 0 ∉ rest) (hB : 0 < strByteLen h) :
    stepCands strDomain h w .unbound =
      .ok ((List.range (strByteLen h)).map fun a => .bound a (ext (strByteLen h) a 1 w.scope)) := by
  unfold stepCands
  show retainAll strDomain w.scope (bindAll strPosMap strOpts h .unbound w.scope true) = _
  rw [hs, c13_cons, extend_unbound_zero h true (.inr hB), List.flatMap_map]
  rw [flatMap_singleton_of_mem (List.range (strByteLen h))
    (F := fun a => StrPos.bound a (ext (strByteLen h) a 1 (0 :: rest)))]
  · apply retainAll_map
    intro a ha
    have ha' : a < strByteLen h := List.mem_range.mp ha
    have := retain_ext h a 1 rest h0 (Nat.le_refl _) (by omega)
    exact this
  · intro a ha
    have ha' : a < strByteLen h := List.mem_range.mp ha
    rw [bindAll_bound h a true rest 1 (Nat.le_refl _) (by omega), if_pos (.inl rfl), ext_zero_cons]

theorem bindAll_unbound_empty (h : List Nat) (hB : strByteLen h = 0) : ∀ ks : List Nat,
    bindAll strPosMap strOpts h .unbound ks true = [.unbound] := by
  intro ks
  induction ks with
  | nil => rfl
  | cons k ks ih =>
    rw [c13_cons]
    have : extend strPosMap strOpts h true k .unbound = [.unbound] := by
      unfold extend
      show (if (StrPos.get .unbound k).isSome = true then _ else _) = _
      have : strOpts h k .unbound = [] := by
        unfold strOpts
        split
        · rw [hB]; rfl
        · rfl
      simp [StrPos.get, this]
    rw [this]
    simp [ih]

/-- On the empty host nothing is ever bound. -/
theorem stepCands_unbound_empty (h : List Nat) (w : AState Nat) (hB : strByteLen h = 0) :
    stepCands strDomain h w .unbound = .ok [.unbound] := by
  unfold stepCands
  show retainAll strDomain w.scope (bindAll strPosMap strOpts h .unbound w.scope true) = _
  rw [bindAll_unbound_empty h hB]
  exact retainAll_singleton (retain_unbound _)

/-! ### emission -/

/-- Emission of an accepted pattern with key list `0 :: rest` at a bound configuration: one
match, with the extent `1 + max keys`, iff every key can be bound; nothing otherwise. -/
theorem emit_bound (h : List Nat) (a len : Nat) (rest : List Nat) (h0 : 0 ∉ rest)
    (h1 : 1 ≤ len) (h2 : a + len ≤ strByteLen h) (mm : StrPos) :
    (∃ m₁ ∈ bindAll strPosMap strOpts h (.bound a len)
        ((0 :: rest).filter fun k => (strPosMap.get (.bound a len) k).isNone) false,
        strPosMap.retain m₁ (0 :: rest) = some mm) ↔
      (∀ k ∈ (0 :: rest), a + k < strByteLen h) ∧
        mm = .bound a (1 + (0 :: rest).foldl max 0) := by
  rw [bindAll_bound h a false _ len h1 h2]
  have hall : (∀ k ∈ (0 :: rest).filter (fun k => (strPosMap.get (.bound a len) k).isNone),
      a + k < strByteLen h) ↔ ∀ k ∈ (0 :: rest), a + k < strByteLen h := by
    constructor
    · intro hf k hk
      by_cases hlt : k < len
      · omega
      · apply hf k
        rw [List.mem_filter]
        refine ⟨hk, ?_⟩
        show (StrPos.get (.bound a len) k).isNone = true
        rw [get_bound, if_neg hlt]; rfl
    · intro hf k hk
      exact hf k (List.mem_filter.mp hk).1
  by_cases hb : ∀ k ∈ (0 :: rest), a + k < strByteLen h
  · rw [if_pos (.inr (hall.mpr hb))]
    have hge := ext_ge (strByteLen h) a
      ((0 :: rest).filter fun k => (strPosMap.get (.bound a len) k).isNone) len
    have hret : strPosMap.retain (.bound a (ext (strByteLen h) a len
        ((0 :: rest).filter fun k => (strPosMap.get (.bound a len) k).isNone))) (0 :: rest) =
        some (.bound a (1 + (0 :: rest).foldl max 0)) := by
      rw [retain_bound a _ rest (by omega) h0, ret_all_keys]
      intro k hk
      by_cases hlt : k < len
      · omega
      · apply ext_lt
        · rw [List.mem_filter]
          refine ⟨List.mem_cons_of_mem _ hk, ?_⟩
          show (StrPos.get (.bound a len) k).isNone = true
          rw [get_bound, if_neg hlt]; rfl
        · exact hb k (List.mem_cons_of_mem _ hk)
    constructor
    · rintro ⟨m₁, hm₁, hr⟩
      rw [List.mem_singleton] at hm₁
      subst hm₁
      rw [hret] at hr
      exact ⟨hb, (Option.some.inj hr).symm⟩
    · rintro ⟨_, rfl⟩
      exact ⟨_, List.mem_singleton.mpr rfl, hret⟩
  · have : ¬ (false = true ∨ ∀ k ∈ (0 :: rest).filter
        (fun k => (strPosMap.get (.bound a len) k).isNone), a + k < strByteLen h) := by
      rintro (hf | hf)
      · cases hf
      · exact hb (hall.mp hf)
    rw [if_neg this]
    constructor
    · rintro ⟨m₁, hm₁, _⟩; cases hm₁
    · rintro ⟨hb', _⟩; exact absurd hb' hb

/-- Emission at the unbound configuration: one match per anchor at which every key can be
bound. -/
theorem emit_unbound (h : List Nat) (rest : List Nat) (h0 : 0 ∉ rest) (mm : StrPos) :
    (∃ m₁ ∈ bindAll strPosMap strOpts h .unbound
        ((0 :: rest).filter fun k => (strPosMap.get .unbound k).isNone) false,
        strPosMap.retain m₁ (0 :: rest) = some mm) ↔
      ∃ a, a < strByteLen h ∧ (∀ k ∈ (0 :: rest), a + k < strByteLen h) ∧
        mm = .bound a (1 + (0 :: rest).foldl max 0) := by
  have hf : ((0 :: rest).filter fun k => (strPosMap.get .unbound k).isNone) = 0 :: rest := by
    apply List.filter_eq_self.mpr
    intro k _; rfl
  rw [hf, c13_cons, extend_unbound_zero h false (.inl rfl)]
  have hfilter : ∀ a, ((0 :: rest).filter fun k => (strPosMap.get (.bound a 1) k).isNone) = rest := by
    intro a
    rw [List.filter_cons]
    have : (strPosMap.get (.bound a 1) 0).isNone = false := by
      show (StrPos.get (.bound a 1) 0).isNone = false
      rw [get_bound_zero a 1 (Nat.le_refl _)]; rfl
    rw [this]
    simp only [Bool.false_eq_true, if_false]
    apply List.filter_eq_self.mpr
    intro k hk
    have hk0 : k ≠ 0 := fun e => h0 (e ▸ hk)
    show (StrPos.get (.bound a 1) k).isNone = true
    rw [get_bound, if_neg (by omega)]; rfl
  constructor
  · rintro ⟨m₁, hm₁, hr⟩
    obtain ⟨m₀, hm₀, hm₁⟩ := List.mem_flatMap.mp hm₁
    obtain ⟨a, ha, rfl⟩ := List.mem_map.mp hm₀
    have ha' : a < strByteLen h := List.mem_range.mp ha
    have := (emit_bound h a 1 rest h0 (Nat.le_refl _) (by omega) mm).mp
      ⟨m₁, by rw [hfilter]; exact hm₁, hr⟩
    exact ⟨a, ha', this⟩
  · rintro ⟨a, ha, hb, hmm⟩
    obtain ⟨m₁, hm₁, hr⟩ := (emit_bound h a 1 rest h0 (Nat.le_refl _) (by omega) mm).mpr ⟨hb, hmm⟩
    rw [hfilter] at hm₁
    exact ⟨m₁, List.mem_flatMap.mpr ⟨.bound a 1, List.mem_map.mpr ⟨a, List.mem_range.mpr ha, rfl⟩,
      hm₁⟩, hr⟩

/-! ### evaluation of a constraint is `strSigma` -/

/-- Fact 2: under a binding `.bound a L` that covers
every bindable key of the arity-correct constraint `c`, the traversal's evaluation of `c` is the
truth value `strSigma h a c`. -/
theorem sat_eq_sigma (h : List Nat) (a L : Nat) (c : StrCons)
    (hk : ∀ k ∈ c.args, a + k < strByteLen h → k < L)
    (har : c.args.length = c.pred.arity) :
    satOrFalse StrPos.get strCheck c h (.bound a L) = some (strSigma h a c) := by
  have hlen := length_le_byteLen h
  obtain ⟨pred, args⟩ := c
  cases pred with
  | constVal v =>
    match args, har with
    | [k], _ =>
      simp only [satOrFalse, isSatisfied, isSatisfiedLog, resolveArgs, get_bound, strSigma,
        List.map_cons, List.map_nil, strCheck]
      by_cases hlt : k < L
      · simp [hlt]
      · have hnb : ¬ a + k < strByteLen h := fun hb =>
          hlt (hk k List.mem_cons_self hb)
        have : h[a + k]? = none := List.getElem?_eq_none (by omega)
        simp [hlt, this]
  | bindingEq =>
    match args, har with
    | [k1, k2], _ =>
      simp only [satOrFalse, isSatisfied, isSatisfiedLog, resolveArgs, get_bound, strSigma,
        List.map_cons, List.map_nil, strCheck]
      by_cases hlt1 : k1 < L
      · by_cases hlt2 : k2 < L
        · simp [hlt1, hlt2]
        · have hnb : ¬ a + k2 < strByteLen h := fun hb =>
            hlt2 (hk k2 (by simp) hb)
          have h2 : h[a + k2]? = none := List.getElem?_eq_none (by omega)
          simp only [hlt1, hlt2, if_true, if_false, h2]
          cases h[a + k1]? <;> simp
      · have hnb : ¬ a + k1 < strByteLen h := fun hb =>
          hlt1 (hk k1 List.mem_cons_self hb)
        have h1 : h[a + k1]? = none := List.getElem?_eq_none (by omega)
        simp [hlt1, h1]

end Anch
end Pm
