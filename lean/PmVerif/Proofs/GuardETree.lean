/-
Proofs/GuardETree.lean — `insert_constraint_tree(s)` keeps the invariant inside the iteration
(`GE.TreeKeeps`), for a FLAT decomposition that keeps a single constraint (`SingleKept`), in
particular for `charTree` (namespace `Pm.GE`).

The kept transitions of `s` lead to the same children; the fresh fail state `F` gets the moved
transitions, which lead to children of `s` as well: its children have no fallback transition and
its grandchildren are the grandchildren of `s` — chains.  If `s` lies on a chain it has a single
constraint transition, which the decomposition keeps, so no fail state is created and the chain
is untouched (`SingleKept`; this is where an arbitrary flat decomposition could break the
invariant).
-/
import PmVerif.Proofs.GuardELoop
import PmVerif.Proofs.GuardETreeSpec
import PmVerif.Proofs.C07CharTree
namespace Pm
namespace GE
open Automaton TBL C07
variable {K P : Type} [DecidableEq K] [DecidableEq P]
set_option linter.unusedSectionVars false

/-- The decomposition of a single constraint keeps it. -/
def SingleKept (toTree : List (Constraint K P) → Option (CTree (Constraint K P))) : Prop :=
  ∀ k tree, toTree [k] = some tree → ∃ m, (k, m) ∈ tree.childrenAt 0 ∧ 0 ∈ tree.labelsAt m

theorem reach_live {a : Automaton K P} (inv : Inv a) {x y : Nat} (h : Reach a x y)
    (hx : a.Live x) : a.Live y := by
  induction h with
  | refl x => exact hx
  | @head x m z c h1 _ ih =>
    obtain ⟨t, ht⟩ := h1
    exact ih (inv.ok.dst_live ht)

section Step
variable {Mx : Constraint K P → Constraint K P → Prop}
  {toTree : List (Constraint K P) → Option (CTree (Constraint K P))}

/-- **`insert_constraint_tree(s)` keeps the invariant inside the iteration.** -/
theorem tree_keepsJ (hT : FlatTreeHyp Mx toTree) (hS : SingleKept toTree) : TreeKeeps toTree := by
  intro a a' s fuel td E inv hs _ hu J e0 h
  rcases insertConstraintTree_flat' hT inv hu h with rfl | ⟨F, cs, tree, Kept, Moved, htree, hnd,
    C, hcs, hF⟩
  · exact J
  have live_dst : ∀ {x d c}, HasEdge a x d c → a.Live d := by
    rintro x d c ⟨t, ht⟩; exact inv.ok.dst_live ht
  have live_src : ∀ {x d c}, HasEdge a x d c → a.Live x := by
    rintro x d c ⟨t, ht⟩; exact inv.ok.src_live ht
  have noloop : ∀ {x d c}, HasEdge a x d c → x ≠ d := by
    rintro x d c ⟨t, ht⟩; exact inv.noloop t _ ht
  have notF : ∀ {x}, a.Live x → ¬ F x := fun hx hf => C.fresh _ hf hx
  -- a state without fallback transition other than `s` keeps that property
  have eft : ∀ {y}, EFt a y → y ≠ s → EFt a' y := by
    intro y hy hys d hd
    rcases C.edges y d none hd with ⟨_, _, h0⟩ | ⟨h0, _⟩ | ⟨h0, _⟩ | ⟨h0, _⟩ | ⟨_, k, h0, _⟩
    · exact hy d h0
    · exact hys h0
    · exact hys h0
    · exact hys h0
    · cases h0
  -- a poor `s` gets no fail state
  have noF : Poor a s → ∀ f, ¬ F f := by
    intro hp f hf
    obtain ⟨i, k, hik, hnl⟩ := hF f hf
    have same : ∀ (j : Nat) k', cs[j]? = some k' → k' = k := by
      intro j k' hj
      obtain ⟨d1, h1⟩ := hcs j k' hj
      obtain ⟨d2, h2⟩ := hcs i k hik
      have := (hp.2 d1 _ d2 _ h1 h2).2
      cases this
      rfl
    have hcs1 : cs = [k] := by
      cases hc : cs with
      | nil => rw [hc] at hik; cases hik
      | cons k0 rest =>
        have h0 : k0 = k := same 0 k0 (by rw [hc]; rfl)
        cases hr : rest with
        | nil => rw [h0]
        | cons k1 rest' =>
          exfalso
          have h1 : k1 = k := same 1 k1 (by rw [hc, hr]; rfl)
          rw [hc, hr, h0, h1] at hnd
          exact (List.nodup_cons.1 hnd).1 List.mem_cons_self
    have hi0 : i = 0 := by
      rw [hcs1] at hik
      cases i with
      | zero => rfl
      | succ n => cases hik
    rw [hcs1] at htree
    obtain ⟨m, hm, hl⟩ := hS k tree htree
    exact hnl k m hm (hi0 ▸ hl)
  -- chains survive
  have chn : ∀ {g}, Chain a g → a.Live g → Chain a' g := by
    intro g hg hgl
    refine chain_frame hg fun y hy d c hd => ?_
    rcases C.edges y d c hd with ⟨_, _, h0⟩ | ⟨h0, h1, h2⟩ | ⟨h0, k, h1, h2⟩ | ⟨h0, _, h2⟩ |
      ⟨h0, _⟩
    · exact h0
    · rw [h0, h1]; exact h2
    · rw [h0, h1]; exact C.kept k d h2
    · exact absurd h2 (noF (h0 ▸ hg y hy) d)
    · exact absurd h0 (notF (reach_live inv hy hgl))
  -- below a moved transition
  have movedOK : ∀ {k c1}, Moved k c1 → EFt a' c1 ∧ ∀ g k', HasEdge a' c1 g k' → Chain a' g := by
    intro k c1 hm
    have h0 := C.moved k c1 hm
    have hc1s : c1 ≠ s := fun e => noloop h0 e.symm
    refine ⟨eft (J.loc.child c1 _ h0) hc1s, fun g k' hg => ?_⟩
    rcases C.edges c1 g k' hg with ⟨_, _, h1⟩ | ⟨h1, _⟩ | ⟨h1, _⟩ | ⟨h1, _⟩ | ⟨h1, _⟩
    · exact chn (J.loc.grand c1 k h0 g k' h1) (live_dst h1)
    · exact absurd h1 hc1s
    · exact absurd h1 hc1s
    · exact absurd h1 hc1s
    · exact absurd h1 (notF (live_dst h0))
  refine ⟨fun p hp hps => ?_, ⟨fun c1 k hc1 => ?_, fun c1 k hc1 g k' hg => ?_,
    fun f hf c1 k hc1 => ?_⟩, fun p k hp => ?_⟩
  · -- the other pending states
    refine ⟨?_, fun c1 k hc1 => ?_, fun c1 k hc1 g k' hg => ?_⟩
    · by_cases hl : a.Live p
      · exact eft (J.others p hp hps).self hps
      · exact eft (fun d hd => hl (live_src hd)) hps
    · rcases C.edges p c1 k hc1 with ⟨_, _, h0⟩ | ⟨h0, _⟩ | ⟨h0, _⟩ | ⟨h0, _⟩ | ⟨_, k', _, h0⟩
      · have hc1s : c1 ≠ s := fun e => hp (J.preds p k (e ▸ h0))
        exact eft ((J.others p hp hps).child c1 k h0) hc1s
      · exact absurd h0 hps
      · exact absurd h0 hps
      · exact absurd h0 hps
      · exact (movedOK h0).1
    · rcases C.edges p c1 k hc1 with ⟨_, _, h0⟩ | ⟨h0, _⟩ | ⟨h0, _⟩ | ⟨h0, _⟩ | ⟨_, k2, _, h0⟩
      · have hc1s : c1 ≠ s := fun e => hp (J.preds p k (e ▸ h0))
        rcases C.edges c1 g k' hg with ⟨_, _, h1⟩ | ⟨h1, _⟩ | ⟨h1, _⟩ | ⟨h1, _⟩ | ⟨h1, _⟩
        · exact chn ((J.others p hp hps).grand c1 k h0 g k' h1) (live_dst h1)
        · exact absurd h1 hc1s
        · exact absurd h1 hc1s
        · exact absurd h1 hc1s
        · exact absurd h1 (notF (live_dst h0))
      · exact absurd h0 hps
      · exact absurd h0 hps
      · exact absurd h0 hps
      · exact (movedOK h0).2 g k' hg
  · -- children of `s`
    rcases C.edges s c1 k hc1 with ⟨h0, _⟩ | ⟨_, _, h0⟩ | ⟨_, k', _, h0⟩ | ⟨_, _, h0⟩ | ⟨h0, _⟩
    · exact absurd rfl h0
    · exact absurd h0 (e0 c1)
    · have h1 := C.kept k' c1 h0
      exact eft (J.loc.child c1 _ h1) (fun e => noloop h1 e.symm)
    · exact eft (fun d hd => C.fresh c1 h0 (live_src hd)) (fun e => C.fresh c1 h0 (e ▸ hs))
    · exact absurd h0 (notF hs)
  · -- below the constraint children of `s`
    rcases C.edges s c1 (some k) hc1 with ⟨h0, _⟩ | ⟨_, h0, _⟩ | ⟨_, k2, hk, h0⟩ | ⟨_, h0, _⟩ |
      ⟨h0, _⟩
    · exact absurd rfl h0
    · cases h0
    · have h1 := C.kept k2 c1 h0
      have hc1s : c1 ≠ s := fun e => noloop h1 e.symm
      rcases C.edges c1 g k' hg with ⟨_, _, h2⟩ | ⟨h2, _⟩ | ⟨h2, _⟩ | ⟨h2, _⟩ | ⟨h2, _⟩
      · exact chn (J.loc.grand c1 k2 h1 g k' h2) (live_dst h2)
      · exact absurd h2 hc1s
      · exact absurd h2 hc1s
      · exact absurd h2 hc1s
      · exact absurd h2 (notF (live_dst h1))
    · cases h0
    · exact absurd h0 (notF hs)
  · -- below the fail state
    rcases C.edges s f none hf with ⟨h0, _⟩ | ⟨_, _, h0⟩ | ⟨_, k', hk, _⟩ | ⟨_, _, h0⟩ | ⟨h0, _⟩
    · exact absurd rfl h0
    · exact absurd h0 (e0 f)
    · cases hk
    · rcases C.edges f c1 k hc1 with ⟨_, h1, _⟩ | ⟨h1, _⟩ | ⟨h1, _⟩ | ⟨h1, _⟩ | ⟨_, k', _, h1⟩
      · exact absurd h0 (notF h1)
      · exact absurd (h1 ▸ h0) (notF hs)
      · exact absurd (h1 ▸ h0) (notF hs)
      · exact absurd (h1 ▸ h0) (notF hs)
      · exact movedOK h1
    · exact absurd h0 (notF hs)
  · -- the parents of `s`
    rcases C.edges p s k hp with ⟨_, _, h0⟩ | ⟨_, _, h0⟩ | ⟨_, k', _, h0⟩ | ⟨_, _, h0⟩ |
      ⟨_, k', _, h0⟩
    · exact J.preds p k h0
    · exact absurd h0 (e0 s)
    · exact absurd rfl (noloop (C.kept k' s h0))
    · exact absurd h0 (notF hs)
    · exact absurd rfl (noloop (C.moved k' s h0))

end Step

/-! ### `charTree` -/

theorem sortWithIndices_single {α} (le : α → α → Bool) (k : α) :
    sortWithIndices le [k] = [(k, 0)] := by
  rfl

/-- `charTree` keeps a single constraint (whatever it is). -/
theorem singleKept_charTree {K : Type} [DecidableEq K] (lt : K → K → Bool) :
    SingleKept (charTree lt) := by
  intro k tree h
  unfold charTree at h
  simp only [List.isEmpty_cons, Bool.false_eq_true, if_false, sortWithIndices_single] at h
  split at h
  · next hb =>
    cases h
    have F := (flatPairs_withChildren ([(k, 0)] : List (Constraint K CharPred × Nat))).setDet false
    exact F.present k 0 List.mem_cons_self
  · next v hv =>
    split at h
    · next k0 hk =>
      cases h
      simp only [List.filter, hv, hk, decide_true, Bool.and_self]
      have F := (flatPairs_withChildren ([(k, 0)] : List (Constraint K CharPred × Nat))).setDet true
      exact F.present k 0 List.mem_cons_self
    · cases h

/-- **`insert_constraint_tree` keeps the invariant for the string/matrix decomposition.** -/
theorem treeKeeps_charTree {K : Type} [DecidableEq K] (lt : K → K → Bool) :
    TreeKeeps (charTree lt) :=
  tree_keepsJ (flatTreeHyp_charTree lt) (singleKept_charTree lt)

end GE
end Pm
