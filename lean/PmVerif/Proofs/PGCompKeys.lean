/-
Proofs/PGCompKeys.lean — composition of T-RUN-ANCH-PG / T-SINGLE with T-DOM-PG, stage 1: keys.
`all_missing_bindings` of the port-graph indexing scheme on single-root keys (the scheme is a
star there: every key but `root 0` requires `root 0`), the key list `pgPatternKeys cs` the
automaton records and the key list the baseline requests, and their relation to the keys
`pgNodeKeys g root` that `constraint_vec` gives to the pattern's nodes: as SETS they are the same.
Everything lives in `namespace Pm.PGComp`.
-/
import PmVerif.Props.TDomPG
import PmVerif.Props.TRunPG
import PmVerif.Props.C05
namespace Pm.PGComp
open AnchG PGDom

/-! ### `missing_bindings` only looks at the prerequisites of the keys it meets -/

section Congr
variable {K : Type} [DecidableEq K]

theorem mbLoop_congr (req req' : K → List K) (known : List K) (S : K → Prop)
    (hag : ∀ k, S k → req k = req' k) (hcl : ∀ k, S k → ∀ p ∈ req k, S p) :
    ∀ (fuel : Nat) (st : List (Frame K)) (vis out : List K),
      (∀ k, Frame.enter k ∈ st → S k) →
      mbLoop req known fuel st vis out = mbLoop req' known fuel st vis out := by
  intro fuel
  induction fuel with
  | zero =>
    intro st vis out _
    cases st with
    | nil => simp only [mbLoop]
    | cons f st => simp only [mbLoop]
  | succ fuel ih =>
    intro st vis out hS
    cases st with
    | nil => simp only [mbLoop]
    | cons f st =>
      have hS' : ∀ k, Frame.enter k ∈ st → S k := fun k hk => hS k (List.mem_cons_of_mem _ hk)
      cases f with
      | enter k =>
        have hk : S k := hS k List.mem_cons_self
        by_cases hv : k ∈ vis
        · simp only [mbLoop, hv, if_true]
          exact ih _ _ _ hS'
        · simp only [mbLoop, hv, if_false]
          rw [← hag k hk]
          apply ih
          intro k' hk'
          rcases List.mem_append.1 hk' with hk' | hk'
          · obtain ⟨x, hx, he⟩ := List.mem_map.1 hk'
            cases he
            exact hcl k hk k' (List.mem_filter.1 (List.mem_reverse.1 hx)).1
          · rcases List.mem_cons.1 hk' with hk' | hk'
            · cases hk'
            · exact hS' k' hk'
      | exit k =>
        simp only [mbLoop]
        exact ih _ _ _ hS'

theorem missingBindings_congr (req req' : K → List K) (known : List K) (S : K → Prop)
    (hag : ∀ k, S k → req k = req' k) (hcl : ∀ k, S k → ∀ p ∈ req k, S p) (k : K) (hk : S k)
    (fuel : Nat) : missingBindings req known k fuel = missingBindings req' known k fuel := by
  unfold missingBindings
  split
  · rfl
  · apply mbLoop_congr req req' known S hag hcl
    intro k' hk'
    rw [List.mem_singleton] at hk'
    cases hk'
    exact hk

theorem allMissingLoop_congr (req req' : K → List K) (S : K → Prop)
    (hag : ∀ k, S k → req k = req' k) (hcl : ∀ k, S k → ∀ p ∈ req k, S p) (fuel : Nat) :
    ∀ (ks known out : List K), (∀ k ∈ ks, S k) →
      allMissingLoop req fuel ks known out = allMissingLoop req' fuel ks known out := by
  intro ks
  induction ks with
  | nil => intro known out _; simp only [allMissingLoop]
  | cons k ks ih =>
    intro known out hS
    have hS' : ∀ k' ∈ ks, S k' := fun k' hk' => hS k' (List.mem_cons_of_mem _ hk')
    by_cases hk : k ∈ known
    · simp only [allMissingLoop, hk, if_true]
      exact ih _ _ hS'
    · simp only [allMissingLoop, hk, if_false]
      rw [missingBindings_congr req req' known S hag hcl k (hS k List.mem_cons_self) fuel]
      cases missingBindings req' known k fuel with
      | none => rfl
      | some missing => exact ih _ _ hS'

end Congr

/-! ### the port-graph scheme on single-root keys is a star -/

theorem pgReq_star (k : PGKey) (hk : SR k) : pgReq k = Baseline.starReq (.root 0) k := by
  rcases hk with rfl | ⟨p, l, rfl⟩
  · rfl
  · simp [pgReq, Baseline.starReq]

theorem pgReq_closed (k : PGKey) (hk : SR k) : ∀ p ∈ pgReq k, SR p := by
  rcases hk with rfl | ⟨p, l, rfl⟩
  · intro p hp; cases hp
  · intro p hp
    simp only [pgReq, List.mem_singleton] at hp
    exact .inl hp

/-- With fuel `≥ 4`, on single-root keys: `root 0` first, then the other keys in order of first
occurrence. -/
theorem pg_allMissing (fuel : Nat) (ks : List PGKey) (hsr : ∀ k ∈ ks, SR k) :
    allMissingBindings pgReq ks [] (fuel + 4) = some (Baseline.starKeys (.root 0) ks) := by
  unfold allMissingBindings
  rw [allMissingLoop_congr pgReq (Baseline.starReq (.root 0)) SR pgReq_star pgReq_closed _ ks [] []
    hsr]
  exact Baseline.star_all (.root 0) fuel ks

/-- Whenever `all_missing_bindings` returns on single-root keys, that is what it returns. -/
theorem pg_allMissing_of_some {fuel : Nat} {ks keys : List PGKey} (hsr : ∀ k ∈ ks, SR k)
    (h : allMissingBindings pgReq ks [] fuel = some keys) :
    keys = Baseline.starKeys (.root 0) ks := by
  have h1 := Baseline.allMissingLoop_fuel_mono pgReq fuel (fuel + 4) (by omega) ks [] [] keys h
  have h2 := pg_allMissing fuel ks hsr
  unfold allMissingBindings at h2
  rw [h1] at h2
  exact Option.some.inj h2

theorem sr_starKeys {ks : List PGKey} (hsr : ∀ k ∈ ks, SR k) :
    ∀ k ∈ Baseline.starKeys (.root 0) ks, SR k := by
  intro k hk
  rcases (Baseline.mem_starKeys (PGKey.root 0)).1 hk with ⟨_, rfl | hk⟩
  · exact .inl rfl
  · exact hsr k hk

/-! ### `all_missing_bindings` over a known set that contains the root key -/

theorem pg_allMissing_known (fuel : Nat) (ks known : List PGKey) (hsr : ∀ k ∈ ks, SR k)
    (h0 : PGKey.root 0 ∈ known) :
    allMissingBindings pgReq ks known (fuel + 2) =
      some (dedup (ks.filter fun x => decide (x ∉ known))) := by
  unfold allMissingBindings
  rw [allMissingLoop_congr pgReq (Baseline.starReq (.root 0)) SR pgReq_star pgReq_closed _ ks known
    [] hsr, Baseline.star_loop (.root 0) fuel ks known [] h0]
  rfl

/-! ### the key list of a pattern -/

/-- Key sets that arise: empty, or containing the root key. -/
def Rooted (ks : List PGKey) : Prop := ks ≠ [] → PGKey.root 0 ∈ ks

theorem patternKeys_step (acc : List PGKey) (c : PGCons) (hsr : ∀ k ∈ c.args, SR k)
    (hacc : Rooted acc) :
    Rooted (acc ++ (allMissingBindings pgReq c.args acc 64).getD []) ∧
    ∀ x, x ∈ acc ++ (allMissingBindings pgReq c.args acc 64).getD [] ↔
      x ∈ acc ∨ x ∈ c.args ∨ (x = .root 0 ∧ c.args ≠ []) := by
  by_cases hnil : acc = []
  · subst hnil
    rw [show (64 : Nat) = 60 + 4 from rfl, pg_allMissing 60 c.args hsr]
    simp only [Option.getD_some, List.nil_append]
    refine ⟨fun hne => ?_, fun x => ?_⟩
    · rw [Baseline.mem_starKeys]
      refine ⟨?_, .inl rfl⟩
      intro he; rw [he] at hne; exact hne rfl
    · rw [Baseline.mem_starKeys]
      constructor
      · rintro ⟨hne, rfl | hx⟩
        · exact .inr (.inr ⟨rfl, hne⟩)
        · exact .inr (.inl hx)
      · rintro (hx | hx | ⟨rfl, hne⟩)
        · cases hx
        · exact ⟨List.ne_nil_of_mem hx, .inr hx⟩
        · exact ⟨hne, .inl rfl⟩
  · have h0 : PGKey.root 0 ∈ acc := hacc hnil
    rw [show (64 : Nat) = 62 + 2 from rfl, pg_allMissing_known 62 c.args acc hsr h0]
    simp only [Option.getD_some]
    refine ⟨fun _ => List.mem_append_left _ h0, fun x => ?_⟩
    rw [List.mem_append, Baseline.mem_dedup, List.mem_filter]
    constructor
    · rintro (hx | ⟨hx, _⟩)
      · exact .inl hx
      · exact .inr (.inl hx)
    · rintro (hx | hx | ⟨rfl, _⟩)
      · exact .inl hx
      · by_cases hxa : x ∈ acc
        · exact .inl hxa
        · exact .inr ⟨hx, by simpa using hxa⟩
      · exact .inl h0

theorem patternKeys_fold (cs : List PGCons) (hsr : ∀ c ∈ cs, ∀ k ∈ c.args, SR k) :
    ∀ (acc : List PGKey), Rooted acc →
      ∀ x, x ∈ cs.foldl (fun keys c => keys ++ (allMissingBindings pgReq c.args keys 64).getD [])
          acc ↔
        x ∈ acc ∨ (∃ c ∈ cs, x ∈ c.args) ∨ (x = .root 0 ∧ ∃ c ∈ cs, c.args ≠ []) := by
  induction cs with
  | nil => intro acc _ x; simp
  | cons c cs ih =>
    intro acc hacc x
    obtain ⟨h1, h2⟩ := patternKeys_step acc c (hsr c List.mem_cons_self) hacc
    rw [List.foldl_cons, ih (fun c' hc' => hsr c' (List.mem_cons_of_mem _ hc')) _ h1 x, h2 x]
    simp only [List.mem_cons, exists_eq_or_imp]
    constructor
    · rintro ((hx | hx | ⟨rfl, hne⟩) | ⟨c', hc', hx⟩ | ⟨rfl, c', hc', hne⟩)
      · exact .inl hx
      · exact .inr (.inl (.inl hx))
      · exact .inr (.inr ⟨rfl, .inl hne⟩)
      · exact .inr (.inl (.inr ⟨c', hc', hx⟩))
      · exact .inr (.inr ⟨rfl, .inr ⟨c', hc', hne⟩⟩)
    · rintro (hx | (hx | ⟨c', hc', hx⟩) | ⟨rfl, hne | ⟨c', hc', hne⟩⟩)
      · exact .inl (.inl hx)
      · exact .inl (.inr (.inl hx))
      · exact .inr (.inl ⟨c', hc', hx⟩)
      · exact .inl (.inr (.inr ⟨rfl, hne⟩))
      · exact .inr (.inr ⟨rfl, c', hc', hne⟩)

/-- **The keys the automaton records for a single-root pattern**: the keys of its constraints,
and `root 0` as soon as some constraint has an argument. -/
theorem mem_patternKeys (cs : List PGCons) (hsr : ∀ c ∈ cs, ∀ k ∈ c.args, SR k) (x : PGKey) :
    x ∈ pgPatternKeys cs ↔ (∃ c ∈ cs, x ∈ c.args) ∨ (x = .root 0 ∧ ∃ c ∈ cs, c.args ≠ []) := by
  unfold pgPatternKeys
  rw [patternKeys_fold cs hsr [] (fun h => absurd rfl h) x]
  simp

/-- **The keys the baseline requests for a single-root pattern**: the same set. -/
theorem requested_eq {cs : List PGCons} {fuel : Nat} {requested : List PGKey}
    (hsr : ∀ c ∈ cs, ∀ k ∈ c.args, SR k)
    (hq : requestedBindings pgDomain cs fuel = some requested) :
    requested = Baseline.starKeys (.root 0) (cs.flatMap (·.args)) := by
  apply pg_allMissing_of_some _ hq
  intro k hk
  obtain ⟨c, hc, hk⟩ := List.mem_flatMap.1 hk
  exact hsr c hc k hk

theorem mem_requested {cs : List PGCons} {fuel : Nat} {requested : List PGKey}
    (hsr : ∀ c ∈ cs, ∀ k ∈ c.args, SR k)
    (hq : requestedBindings pgDomain cs fuel = some requested) (x : PGKey) :
    x ∈ requested ↔ (∃ c ∈ cs, x ∈ c.args) ∨ (x = .root 0 ∧ ∃ c ∈ cs, c.args ≠ []) := by
  rw [requested_eq hsr hq, Baseline.mem_starKeys]
  constructor
  · rintro ⟨hne, rfl | hx⟩
    · obtain ⟨k, hk⟩ := List.exists_mem_of_ne_nil _ hne
      obtain ⟨c, hc, hk⟩ := List.mem_flatMap.1 hk
      exact .inr ⟨rfl, c, hc, List.ne_nil_of_mem hk⟩
    · obtain ⟨c, hc, hk⟩ := List.mem_flatMap.1 hx
      exact .inl ⟨c, hc, hk⟩
  · rintro (⟨c, hc, hx⟩ | ⟨rfl, c, hc, hne⟩)
    · have : x ∈ cs.flatMap (·.args) := List.mem_flatMap.2 ⟨c, hc, hx⟩
      exact ⟨List.ne_nil_of_mem this, .inr this⟩
    · obtain ⟨k, hk⟩ := List.exists_mem_of_ne_nil _ hne
      exact ⟨List.ne_nil_of_mem (List.mem_flatMap.2 ⟨c, hc, hk⟩), .inl rfl⟩

/-! ### pattern keys versus node keys -/

theorem sr_of_sig {cs : List PGCons} (h : pgSigMultiRoot cs = false) :
    ∀ c ∈ cs, ∀ k ∈ c.args, SR k := fun c hc =>
  (pgSingleRootKeys_iff c.args).1 ((pgSigMultiRoot_false_iff cs).1 h c hc)

theorem args_ne_nil {g : PortGraph} {root : Nat} {cs : List PGCons}
    (hcs : pgConstraints g root = some cs) : ∀ c ∈ cs, c.args ≠ [] := by
  intro c hc he
  have har := pgConstraints_arity hcs c hc
  rw [he] at har
  cases hp : c.pred <;> rw [hp] at har <;> simp [PGPred.arity] at har

/-- The set of keys occurring in the constraint vector, plus `root 0`, is the set of keys of
the pattern's nodes. -/
theorem mem_nodeKeys_iff {g : PortGraph} {root : Nat} {cs : List PGCons}
    (hcs : pgConstraints g root = some cs) (x : PGKey) :
    x ∈ (pgNodeKeys g root).map (·.2) ↔ (∃ c ∈ cs, x ∈ c.args) ∨ x = .root 0 := by
  obtain ⟨cs0, h0, hcase⟩ := pgConstraints_cases hcs
  obtain ⟨k1, _, k3, k4⟩ := consLines_keys g root cs0 h0
  have hroot : PGKey.root 0 ∈ (pgNodeKeys g root).map (·.2) :=
    List.mem_map.2 ⟨(root, .root 0), alGet_mem k1, rfl⟩
  rcases hcase with rfl | ⟨rfl, hc⟩
  · constructor
    · intro hx
      rcases k4 x hx with rfl | ⟨c, hc, hh⟩
      · exact .inr rfl
      · refine .inl ⟨c, hc, ?_⟩
        cases ha : c.args with
        | nil => rw [ha] at hh; cases hh
        | cons a as =>
          rw [ha] at hh
          cases hh
          exact List.mem_cons_self
    · rintro (⟨c, hc, hx⟩ | rfl)
      · exact k3 c hc x hx
      · exact hroot
  · constructor
    · intro hx
      rcases k4 x hx with rfl | ⟨c, hc, _⟩
      · exact .inr rfl
      · cases hc
    · rintro (⟨c, hc', hx⟩ | rfl)
      · rcases hc with rfl | rfl <;>
        · rw [List.mem_singleton] at hc'
          subst hc'
          rw [List.mem_singleton] at hx
          subst hx
          exact hroot
      · exact hroot

/-- **`pgPatternKeys cs` and the node keys are the same set.** -/
theorem patternKeys_nodeKeys {g : PortGraph} {root : Nat} {cs : List PGCons}
    (hcs : pgConstraints g root = some cs) (hsr : pgSigMultiRoot cs = false) (x : PGKey) :
    x ∈ pgPatternKeys cs ↔ x ∈ (pgNodeKeys g root).map (·.2) := by
  rw [mem_patternKeys cs (sr_of_sig hsr), mem_nodeKeys_iff hcs]
  obtain ⟨c0, hc0⟩ := List.exists_mem_of_ne_nil cs (AnchG.pgConstraints_ne_nil hcs)
  constructor
  · rintro (h | ⟨rfl, _⟩)
    · exact .inl h
    · exact .inr rfl
  · rintro (h | rfl)
    · exact .inl h
    · exact .inr ⟨rfl, c0, hc0, args_ne_nil hcs c0 hc0⟩

/-- **The baseline's requested keys and the node keys are the same set.** -/
theorem requested_nodeKeys {g : PortGraph} {root : Nat} {cs : List PGCons} {fuel : Nat}
    {requested : List PGKey} (hcs : pgConstraints g root = some cs)
    (hsr : pgSigMultiRoot cs = false)
    (hq : requestedBindings pgDomain cs fuel = some requested) (x : PGKey) :
    x ∈ requested ↔ x ∈ (pgNodeKeys g root).map (·.2) := by
  rw [mem_requested (sr_of_sig hsr) hq, ← mem_patternKeys cs (sr_of_sig hsr)]
  exact patternKeys_nodeKeys hcs hsr x

end Pm.PGComp
