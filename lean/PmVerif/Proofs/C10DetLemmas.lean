/-
Proofs/C10DetLemmas.lean — helper lemmas for Props/C10Det.lean: when the documented `make_det`
reading (`reachFromDet`, Spec/TreeDet.lean) coincides with the literal one (`reachFrom`,
Spec/TreeSpec.lean), and the list-level shape of `withChildren` trees (depth one, pairwise
different child constraints).
-/
import PmVerif.Proofs.PGLemmas
import PmVerif.Spec.TreeDet
namespace Pm
namespace CTree
variable {C : Type}

/-! ### `reachFromDet` versus `reachFrom` -/

theorem reachFrom_leaf (t : CTree C) (σ : C → Bool) (fuel n : Nat) (h : t.childrenAt n = []) :
    t.reachFrom σ fuel n = [n] := by
  cases fuel with
  | zero => rfl
  | succ f => simp [reachFrom, h]

/-- If the children of the root are leaves and at most one of them is satisfied, entering only the
first satisfied child is the same as entering all of them. -/
theorem reachFromDet_eq_of_le_one (t : CTree C) (σ : C → Bool)
    (hleaf : ∀ cm ∈ t.childrenAt 0, t.childrenAt cm.2 = [])
    (hone : ((t.childrenAt 0).filter (fun ch => σ ch.1)).length ≤ 1) :
    t.reachFromDet σ = t.reachFrom σ t.nodes.length 0 := by
  have hsat : ∀ cm ∈ (t.childrenAt 0).filter (fun ch => σ ch.1), t.childrenAt cm.2 = [] :=
    fun cm h => hleaf cm (List.mem_filter.1 h).1
  have hent : (if t.makeDet then ((t.childrenAt 0).filter (fun ch => σ ch.1)).take 1
      else (t.childrenAt 0).filter (fun ch => σ ch.1)) =
      (t.childrenAt 0).filter (fun ch => σ ch.1) := by
    split
    · exact List.take_of_length_le hone
    · rfl
  unfold reachFromDet
  simp only [hent]
  rw [flatMap_congr' (g := fun ch => [ch.2])
    (fun cm h => reachFrom_leaf t σ t.nodes.length cm.2 (hsat cm h))]
  cases hl : t.nodes.length with
  | zero =>
    have : t.childrenAt 0 = [] := childrenAt_eq_nil_of_le t (by omega)
    simp [this, reachFrom]
  | succ f =>
    rw [reachFrom]
    rw [flatMap_congr' (g := fun ch => [ch.2])
      (fun cm h => reachFrom_leaf t σ f cm.2 (hsat cm h))]

theorem reachLabelDet_eq_of_reachFromDet_eq (t : CTree C) (σ : C → Bool)
    (h : t.reachFromDet σ = t.reachFrom σ t.nodes.length 0) (i : Nat) :
    t.reachLabelDet σ i = t.reachLabel σ i := by
  unfold reachLabelDet reachLabel
  rw [h]

theorem detFaithfulAt_eq_of_reachLabelDet_eq (t : CTree C) (cs : List C) (σ : C → Bool)
    (h : ∀ i, t.reachLabelDet σ i = t.reachLabel σ i) :
    t.detFaithfulAt cs σ = t.faithfulAt cs σ := by
  have : t.reachLabelDet σ = t.reachLabel σ := funext h
  unfold detFaithfulAt faithfulAt
  rw [this]
  rfl

/-- A list whose first components are pairwise different, and on which `p` holds of at most one
first component, has at most one element passing the filter. -/
theorem filter_fst_length_le_one {α β : Type} (l : List (α × β)) (p : α → Bool)
    (hnd : (l.map (·.1)).Nodup)
    (huniq : ∀ a ∈ l, ∀ b ∈ l, p a.1 = true → p b.1 = true → a.1 = b.1) :
    (l.filter (fun ch => p ch.1)).length ≤ 1 := by
  induction l with
  | nil => simp
  | cons a l ih =>
    rw [List.map_cons, List.nodup_cons] at hnd
    have ih' := ih hnd.2 (fun x hx y hy => huniq x (List.mem_cons_of_mem _ hx) y
      (List.mem_cons_of_mem _ hy))
    rw [List.filter_cons]
    split
    · next hp =>
      have : l.filter (fun ch => p ch.1) = [] := by
        rw [List.filter_eq_nil_iff]
        intro b hb hpb
        have hab := huniq a (List.mem_cons_self ..) b (List.mem_cons_of_mem _ hb) hp hpb
        exact hnd.1 (List.mem_map.2 ⟨b, hb, hab.symm⟩)
      rw [this]; exact Nat.le_refl _
    · exact ih'

/-! ### The shape of `withChildren` trees -/

/-- A depth-one tree: the root exists, the constraints on its children are pairwise different
(as list entries) and satisfy `P`, the children are not the root, and only the root has
children. -/
structure DepthOne (P : C → Prop) (t : CTree C) : Prop where
  pos : 0 < t.nodes.length
  nodup : ((t.childrenAt 0).map (·.1)).Nodup
  leaf : ∀ m, m ≠ 0 → t.childrenAt m = []
  child : ∀ cm ∈ t.childrenAt 0, P cm.1 ∧ cm.2 ≠ 0

theorem DepthOne_new (P : C → Prop) : DepthOne P (new : CTree C) where
  pos := by simp [new]
  nodup := by simp [new, childrenAt]
  leaf := by
    intro m hm
    cases m with
    | zero => exact absurd rfl hm
    | succ m => simp [new, childrenAt]
  child := by intro cm h; simp [new, childrenAt] at h

theorem DepthOne.setMakeDet {P : C → Prop} {t : CTree C} (h : DepthOne P t) (b : Bool) :
    DepthOne P ({ t with makeDet := b } : CTree C) :=
  ⟨h.pos, h.nodup, h.leaf, h.child⟩

/-- List-level case analysis of `getOrAddChild` at the root. -/
theorem getOrAddChild_root_cases [DecidableEq C] (t : CTree C) (hpos : 0 < t.nodes.length)
    (c : C) :
    ((t.getOrAddChild 0 c).1 = t ∧ c ∈ (t.childrenAt 0).map (·.1)) ∨
    ((t.getOrAddChild 0 c).1.childrenAt 0 = t.childrenAt 0 ++ [(c, t.nodes.length)] ∧
      (∀ m, m ≠ 0 → (t.getOrAddChild 0 c).1.childrenAt m = t.childrenAt m) ∧
      (t.getOrAddChild 0 c).1.nodes.length = t.nodes.length + 1 ∧
      c ∉ (t.childrenAt 0).map (·.1)) := by
  unfold getOrAddChild
  cases hf : (t.childrenAt 0).find? (fun ch => ch.1 = c) with
  | some ch =>
    left
    have hmem := List.mem_of_find?_eq_some hf
    have hc : ch.1 = c := by simpa using List.find?_some hf
    exact ⟨rfl, List.mem_map.2 ⟨ch, hmem, hc⟩⟩
  | none =>
    right
    have hch : ∀ m, (CTree.modifyNode { nodes := t.nodes ++ [⟨[], []⟩], makeDet := t.makeDet } 0
        fun nd => { nd with children := nd.children ++ [(c, t.nodes.length)] }).childrenAt m =
        if 0 = m then t.childrenAt 0 ++ [(c, t.nodes.length)] else t.childrenAt m := by
      intro m
      rw [childrenAt_modifyNode]
      by_cases h : 0 = m
      · subst h
        cases hn : t.nodes with
        | nil => rw [hn] at hpos; cases hpos
        | cons nd rest => simp [childrenAt, hn]
      · simp only [if_neg h]
        exact childrenAt_push t _ m
    refine ⟨?_, ?_, ?_, ?_⟩
    · show CTree.childrenAt (CTree.modifyNode _ 0 _) 0 = _
      rw [hch, if_pos rfl]
    · intro m hm
      show CTree.childrenAt (CTree.modifyNode _ 0 _) m = _
      rw [hch, if_neg (fun h => hm h.symm)]
    · show (CTree.modifyNode _ 0 _).nodes.length = _
      simp
    · intro hmem
      obtain ⟨ch, hch', hc⟩ := List.mem_map.1 hmem
      have := List.find?_eq_none.1 hf ch hch'
      simp [hc] at this

theorem DepthOne_step [DecidableEq C] {P : C → Prop} {t : CTree C} (h : DepthOne P t)
    (ch : C × List Nat) (hP : P ch.1) : DepthOne P (wcStep t ch) := by
  unfold wcStep
  have hc : ∀ m, (ch.2.foldl (fun t' i => t'.addLabel (t.getOrAddChild 0 ch.1).2 i)
      (t.getOrAddChild 0 ch.1).1).childrenAt m = (t.getOrAddChild 0 ch.1).1.childrenAt m :=
    childrenAt_addLabels _ _ ch.2
  have hl : (ch.2.foldl (fun t' i => t'.addLabel (t.getOrAddChild 0 ch.1).2 i)
      (t.getOrAddChild 0 ch.1).1).nodes.length = (t.getOrAddChild 0 ch.1).1.nodes.length :=
    length_addLabels _ _ ch.2
  rcases getOrAddChild_root_cases t h.pos ch.1 with ⟨he, -⟩ | ⟨h0, hne, hlen, hnot⟩
  · refine ⟨?_, ?_, ?_, ?_⟩
    · rw [hl, he]; exact h.pos
    · rw [hc, he]; exact h.nodup
    · intro m hm; rw [hc, he]; exact h.leaf m hm
    · intro cm; rw [hc, he]; exact h.child cm
  · refine ⟨?_, ?_, ?_, ?_⟩
    · rw [hl, hlen]; exact Nat.succ_pos _
    · rw [hc, h0, List.map_append, List.nodup_append]
      refine ⟨h.nodup, by simp, ?_⟩
      intro a ha b hb
      have : b = ch.1 := by simpa using hb
      subst this
      rintro rfl
      exact hnot ha
    · intro m hm; rw [hc, hne m hm]; exact h.leaf m hm
    · intro cm; rw [hc, h0]
      intro hcm
      rcases List.mem_append.1 hcm with hcm | hcm
      · exact h.child cm hcm
      · have : cm = (ch.1, t.nodes.length) := by simpa using hcm
        subst this
        exact ⟨hP, Nat.ne_of_gt h.pos⟩

theorem DepthOne_foldl [DecidableEq C] {P : C → Prop} (rest : List (C × List Nat)) {t : CTree C}
    (h : DepthOne P t) (hP : ∀ ch ∈ rest, P ch.1) : DepthOne P (rest.foldl wcStep t) := by
  induction rest generalizing t with
  | nil => exact h
  | cons ch rest ih =>
    exact ih (DepthOne_step h ch (hP ch (List.mem_cons_self ..)))
      (fun x hx => hP x (List.mem_cons_of_mem _ hx))

/-- `withChildren` builds a depth-one tree whose child constraints are pairwise different and
come from the given list. -/
theorem DepthOne_withChildren [DecidableEq C] {P : C → Prop} (children : List (C × List Nat))
    (hP : ∀ ch ∈ children, P ch.1) : DepthOne P (withChildren children) := by
  rw [withChildren_eq]
  exact DepthOne_foldl children (DepthOne_new P) hP

/-- On a depth-one tree on which `σ` holds of at most one of the constraints satisfying `P`, the
two readings agree. -/
theorem DepthOne.det_agrees {P : C → Prop} {t : CTree C} (h : DepthOne P t) (σ : C → Bool)
    (huniq : ∀ c₁ c₂, P c₁ → P c₂ → σ c₁ = true → σ c₂ = true → c₁ = c₂) :
    ((t.childrenAt 0).filter (fun ch => σ ch.1)).length ≤ 1 ∧
    t.reachFromDet σ = t.reachFrom σ t.nodes.length 0 := by
  have hone : ((t.childrenAt 0).filter (fun ch => σ ch.1)).length ≤ 1 :=
    filter_fst_length_le_one _ σ h.nodup
      (fun a ha b hb => huniq a.1 b.1 (h.child a ha).1 (h.child b hb).1)
  exact ⟨hone, reachFromDet_eq_of_le_one t σ
    (fun cm hcm => h.leaf cm.2 (h.child cm hcm).2) hone⟩

end CTree

/-- Successful argument resolution returns the bound values in order. -/
theorem c10det_resolveArgs_ok {m : PGMap} : ∀ (ks : List PGKey) (vs : List Nat),
    resolveArgs alGet m ks = .ok vs → ks.map (alGet m) = vs.map some
  | [], vs, h => by
    simp only [resolveArgs] at h
    cases h; rfl
  | k :: ks, vs, h => by
    simp only [resolveArgs] at h
    cases hk : alGet m k with
    | none => rw [hk] at h; cases h
    | some v =>
      rw [hk] at h
      cases hr : resolveArgs alGet m ks with
      | error e => rw [hr] at h; cases h
      | ok ws =>
        rw [hr] at h
        cases h
        simp [hk, c10det_resolveArgs_ok ks ws hr]

end Pm
