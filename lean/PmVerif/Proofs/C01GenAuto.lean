/-
Proofs/C01GenAuto.lean — a log GENERATOR for examples: it drives the replay model
`Automaton.build` with the canonical choices "smallest admissible state first, groups in the
model's order, always determinise, never merge" and returns the event log it took. The result
is only ever used as an input to `Automaton.build` (which re-checks every event), so nothing
has to be proved about it.
-/
import PmVerif.Model.BuilderT
import PmVerif.Model.ManyMatcher
namespace Pm.C01G
open Automaton
variable {K P : Type} [DecidableEq K] [DecidableEq P]

/-- The groups `make_constraints_unique(s)` has to fuse, in the model's order. -/
def pendingGroups (a : Automaton K P) (s : Nat) : R (List (List Nat)) :=
  match a.allTransitions s with
  | .error e => .error e
  | .ok ts =>
    match a.groupTransitions ts [] with
    | .error e => .error e
    | .ok groups => .ok ((groups.filter fun g => g.2.length ≥ 2).map (·.2))

/-- One iteration of the main loop for state `s` with canonical choices; returns its events. -/
def autoIteration (toTree : List (Constraint K P) → Option (CTree (Constraint K P))) (fuel : Nat)
    (a : Automaton K P) (s : Nat) : R (Automaton K P × List Ev) :=
  match pendingGroups a s with
  | .error e => .error e
  | .ok g1 =>
    let ev1 := g1.map (Ev.group s)
    match a.makeConstraintsUnique s ev1 with
    | .error e => .error e
    | .ok (a, _) =>
      match insertConstraintTree toTree a s fuel with
      | .error e => .error e
      | .ok (a, treeDet) =>
        match pendingGroups a s with
        | .error e => .error e
        | .ok g2 =>
          let ev2 := g2.map (Ev.group s)
          match a.makeConstraintsUnique s ev2 with
          | .error e => .error e
          | .ok (a, _) =>
            if treeDet then
              match a.makeDet s with
              | .error e => .error e
              | .ok a => .ok (a, [Ev.topo s] ++ ev1 ++ ev2 ++ [Ev.detAsk s, Ev.detYes s, Ev.iterEnd s])
            else .ok (a, [Ev.topo s] ++ ev1 ++ ev2 ++ [Ev.iterEnd s])

/-- The main loop: emit the smallest admissible state until none is left. -/
def autoLoop (toTree : List (Constraint K P) → Option (CTree (Constraint K P))) (fuel : Nat) :
    Nat → Automaton K P → List Nat → List Ev → R (List Ev)
  | 0, _, _, _ => .error (.fuel "autoLoop")
  | n + 1, a, emitted, evs =>
    match a.g.nodeIndices.find? (fun s => a.topoAdmissible emitted s) with
    | none => .ok evs
    | some s =>
      match autoIteration toTree fuel a s with
      | .error e => .error e
      | .ok (a, ev) => autoLoop toTree fuel n a (emitted ++ [s]) (evs ++ ev)

/-- A canonical complete log for the given builder inputs. -/
def autoLog (toTree : List (Constraint K P) → Option (CTree (Constraint K P))) (req : K → List K)
    (fuel : Nat) (patterns : List (Nat × List (Constraint K P) × List K)) : R (List Ev) :=
  match addPatterns req fuel new patterns with
  | .error e => .error e
  | .ok a => autoLoop toTree fuel fuel a [] []

end Pm.C01G
