/-
Proofs/PGCompBase.lean — the baseline matcher (`singleMatches`) on single-root port-graph
constraint lists, in closed form: the level-by-level fold from the empty binding keeps exactly one
candidate per live host node `r` at which every constraint holds under `pgSigmaAnch h r`, namely
the binding `baseMap h r cs` of `root 0` and of the constraints' keys to their values from `r`.
Totality with an explicit fuel bound. Everything lives in `namespace Pm.PGComp`.
-/
import PmVerif.Proofs.PGCompDom
namespace Pm.PGComp
open AnchG PGDom

/-- The keys the baseline binds when it reaches constraint `c`: `root 0`, then the keys of `c`. -/
abbrev ckeys (c : PGCons) : List PGKey := Baseline.starKeys (PGKey.root 0) c.args

/-- What the baseline needs of a constraint list: single-root keys and matching arities. -/
structure ConsOK (cs : List PGCons) : Prop where
  sr : ∀ c ∈ cs, ∀ k ∈ c.args, SR k
  arity : ∀ c ∈ cs, c.args.length = c.pred.arity

theorem ConsOK.tail {c : PGCons} {cs : List PGCons} (h : ConsOK (c :: cs)) : ConsOK cs :=
  ⟨fun c' hc' => h.sr c' (List.mem_cons_of_mem _ hc'),
    fun c' hc' => h.arity c' (List.mem_cons_of_mem _ hc')⟩

theorem args_ne_of_arity {c : PGCons} (har : c.args.length = c.pred.arity) : c.args ≠ [] := by
  intro he
  rw [he] at har
  cases hp : c.pred <;> rw [hp] at har <;> simp [PGPred.arity] at har

theorem consOK_of_constraints {g : PortGraph} {root : Nat} {cs : List PGCons}
    (hcs : pgConstraints g root = some cs) (hsr : pgSigMultiRoot cs = false) : ConsOK cs :=
  ⟨sr_of_sig hsr, pgConstraints_arity hcs⟩

theorem extG_append (h : PortGraph) (r : Nat) : ∀ (a b : List PGKey) (m : PGMap),
    extG h r m (a ++ b) = extG h r (extG h r m a) b
  | [], _, _ => rfl
  | k :: a, b, m => by
    show extG h r (ext1 h r m k) (a ++ b) = extG h r (extG h r (ext1 h r m k) a) b
    exact extG_append h r a b _

/-! ### one level -/

/-- A level from an anchored binding: the candidate survives iff the constraint holds at the
anchor. -/
theorem pg_levelStep_anch (h : PortGraph) (fuel r : Nat) (c : PGCons)
    (hsr : ∀ k ∈ c.args, SR k) (har : c.args.length = c.pred.arity) {m : PGMap}
    (ha : Anchored h r m) :
    levelStep pgDomain h (fuel + 4) c [m] =
      if pgSigmaAnch h r c = true then [extG h r m (ckeys c)] else [] := by
  rw [levelStep_single]
  show (bindAll assocMap pgOpts h m ((allMissingBindings pgReq c.args [] (fuel + 4)).getD [])
    false).filter (fun m' =>
      satOrFalse alGet (fun p g vs => pgCheck p g vs) c h m' == some true) = _
  rw [pg_allMissing fuel c.args hsr, Option.getD_some, bindAll_anch false _ ha (sr_starKeys hsr)]
  by_cases hdef : ∀ k ∈ ckeys c, (pgVal h r k).isSome = true
  · rw [if_pos (.inr hdef)]
    have hk : ∀ k ∈ c.args, alGet (extG h r m (ckeys c)) k = pgVal h r k := by
      intro k hk
      rw [get_extG _ ha,
        if_pos ((Baseline.mem_starKeys (PGKey.root 0)).2 ⟨List.ne_nil_of_mem hk, .inr hk⟩)]
    rw [List.filter_cons, List.filter_nil, sat_eq_sigma h r c _ hk har]
    cases pgSigmaAnch h r c <;> simp
  · have hn : ¬ (false = true ∨ ∀ k ∈ ckeys c, (pgVal h r k).isSome = true) := by
      rintro (hf | hf)
      · cases hf
      · exact hdef hf
    rw [if_neg hn]
    have hs : ¬ pgSigmaAnch h r c = true := by
      intro hs
      apply hdef
      intro k hk
      rcases (Baseline.mem_starKeys (PGKey.root 0)).1 hk with ⟨_, rfl | hk⟩
      · rfl
      · exact (args_of_sigma hs).2 k hk
    rw [if_neg hs]
    rfl

/-- A level from a list of anchored bindings indexed by their anchors. -/
theorem pg_levelStep_map (h : PortGraph) (fuel : Nat) (c : PGCons)
    (hsr : ∀ k ∈ c.args, SR k) (har : c.args.length = c.pred.arity) (f : Nat → PGMap)
    (hf : ∀ r, Anchored h r (f r)) : ∀ (L : List Nat),
    levelStep pgDomain h (fuel + 4) c (L.map f) =
      (L.filter fun r => pgSigmaAnch h r c).map fun r => extG h r (f r) (ckeys c)
  | [] => by simp [levelStep]
  | r :: L => by
    rw [List.map_cons, levelStep_cons, pg_levelStep_map h fuel c hsr har f hf L,
      pg_levelStep_anch h fuel r c hsr har (hf r)]
    by_cases hs : pgSigmaAnch h r c = true
    · rw [if_pos hs, List.filter_cons, if_pos hs]
      rfl
    · rw [if_neg hs, List.filter_cons, if_neg hs]
      rfl

/-- The first level, from the empty binding: the root key is bound to every live host node. -/
theorem pg_levelStep_nil (h : PortGraph) (fuel : Nat) (c : PGCons)
    (hsr : ∀ k ∈ c.args, SR k) (hne : c.args ≠ []) :
    levelStep pgDomain h (fuel + 4) c [[]] =
      levelStep pgDomain h (fuel + 4) c (h.nodesIter.map fun r => [(PGKey.root 0, r)]) := by
  have hkeys : (allMissingBindings pgDomain.req c.args [] (fuel + 4)).getD [] = ckeys c := by
    show (allMissingBindings pgReq c.args [] (fuel + 4)).getD [] = _
    rw [pg_allMissing fuel c.args hsr]
    rfl
  obtain ⟨rest, hrest⟩ : ∃ rest, ckeys c = PGKey.root 0 :: rest := by
    cases ha : c.args with
    | nil => exact absurd ha hne
    | cons k ks => exact ⟨_, by show Baseline.starKeys _ c.args = _; rw [ha]; rfl⟩
  rw [levelStep_single]
  unfold levelStep
  rw [hkeys, hrest]
  show (bindAll assocMap pgOpts h [] (PGKey.root 0 :: rest) false).filter _ = _
  rw [c13_cons, extend_nil_root h false (.inl rfl), List.flatMap_map, List.flatMap_map,
    List.filter_flatMap]
  apply AnchG.flatMap_congr'
  intro r _
  show _ = (bindAll assocMap pgOpts h [(PGKey.root 0, r)] (PGKey.root 0 :: rest) false).filter _
  rw [c13_bound_left_alone assocMap pgOpts h [(PGKey.root 0, r)] (PGKey.root 0) rest false
    (by simp [assocMap, alGet])]

/-! ### all levels -/

theorem pg_levels_map (h : PortGraph) (fuel : Nat) : ∀ (cs : List PGCons), ConsOK cs →
    ∀ (f : Nat → PGMap), (∀ r, Anchored h r (f r)) → ∀ (L : List Nat),
    singleLevels pgDomain h (fuel + 4) cs (L.map f) =
      (L.filter fun r => cs.all (pgSigmaAnch h r)).map fun r =>
        extG h r (f r) (cs.flatMap ckeys)
  | [], _, f, _, L => by
    have hfl : L.filter (fun _ => true) = L := List.filter_eq_self.2 (fun _ _ => rfl)
    simp [singleLevels, extG, hfl]
  | c :: cs, hok, f, hf, L => by
    rw [singleLevels_cons,
      pg_levelStep_map h fuel c (hok.sr c List.mem_cons_self) (hok.arity c List.mem_cons_self) f hf L]
    have := pg_levels_map h fuel cs hok.tail (fun r => extG h r (f r) (ckeys c))
      (fun r => anchored_extG _ (hf r)) (L.filter fun r => pgSigmaAnch h r c)
    rw [this, List.filter_filter]
    simp only [List.all_cons, List.flatMap_cons, extG_append, Bool.and_comm]

/-- The binding the baseline computes at anchor `r`. -/
def baseMap (h : PortGraph) (r : Nat) (cs : List PGCons) : PGMap :=
  extG h r [(PGKey.root 0, r)] (cs.flatMap ckeys)

/-- **The levels of the baseline on a single-root constraint list** (first constraint with an
argument): one candidate per live host node at which all constraints hold, in node order. -/
theorem pg_levels (h : PortGraph) (fuel : Nat) (cs : List PGCons) (hok : ConsOK cs)
    (hne : cs ≠ []) :
    singleLevels pgDomain h (fuel + 4) cs [[]] =
      (h.nodesIter.filter fun r => cs.all (pgSigmaAnch h r)).map fun r => baseMap h r cs := by
  cases cs with
  | nil => exact absurd rfl hne
  | cons c cs =>
    rw [singleLevels_cons, pg_levelStep_nil h fuel c (hok.sr c List.mem_cons_self)
      (args_ne_of_arity (hok.arity c List.mem_cons_self)), ← singleLevels_cons,
      pg_levels_map h fuel (c :: cs) hok _ (fun r => anchored_single h r)]
    rfl

/-! ### the computed binding -/

theorem anchored_baseMap (h : PortGraph) (r : Nat) (cs : List PGCons) :
    Anchored h r (baseMap h r cs) :=
  anchored_extG _ (anchored_single h r)

theorem get_baseMap (h : PortGraph) (r : Nat) (cs : List PGCons) (k : PGKey) :
    alGet (baseMap h r cs) k =
      if k = PGKey.root 0 ∨ ∃ c ∈ cs, k ∈ c.args then pgVal h r k else none := by
  unfold baseMap
  rw [get_extG _ (anchored_single h r)]
  by_cases hk : k ∈ cs.flatMap ckeys
  · rw [if_pos hk]
    obtain ⟨c, hc, hkc⟩ := List.mem_flatMap.1 hk
    rcases (Baseline.mem_starKeys (PGKey.root 0)).1 hkc with ⟨_, rfl | hkc⟩
    · rw [if_pos (.inl rfl)]
    · rw [if_pos (.inr ⟨c, hc, hkc⟩)]
  · rw [if_neg hk, alGet_singleton]
    by_cases h0 : k = PGKey.root 0
    · subst h0
      rw [if_pos rfl, if_pos (.inl rfl)]
      rfl
    · have h0' : ¬ PGKey.root 0 = k := fun e => h0 e.symm
      rw [if_neg h0']
      have : ¬ (k = PGKey.root 0 ∨ ∃ c ∈ cs, k ∈ c.args) := by
        rintro (e | ⟨c, hc, hkc⟩)
        · exact h0 e
        · exact hk (List.mem_flatMap.2 ⟨c, hc,
            (Baseline.mem_starKeys (PGKey.root 0)).2 ⟨List.ne_nil_of_mem hkc, .inr hkc⟩⟩)
      rw [if_neg this]

/-- `baseMap` is the binding of the pattern keys to their values. -/
theorem mapGets_baseMap (h : PortGraph) (r : Nat) (cs : List PGCons) (hok : ConsOK cs)
    (hne : cs ≠ []) : MapGets (baseMap h r cs) (pgPatternKeys cs) (pgVal h r) := by
  intro k
  rw [get_baseMap]
  have hpk := mem_patternKeys cs hok.sr k
  obtain ⟨c0, hc0⟩ := List.exists_mem_of_ne_nil cs hne
  have hiff : (k = PGKey.root 0 ∨ ∃ c ∈ cs, k ∈ c.args) ↔
      ((∃ c ∈ cs, k ∈ c.args) ∨ (k = PGKey.root 0 ∧ ∃ c ∈ cs, c.args ≠ [])) := by
    constructor
    · rintro (e | e)
      · exact .inr ⟨e, c0, hc0, args_ne_of_arity (hok.arity c0 hc0)⟩
      · exact .inl e
    · rintro (e | ⟨e, _⟩)
      · exact .inr e
      · exact .inl e
  by_cases hk : k = PGKey.root 0 ∨ ∃ c ∈ cs, k ∈ c.args
  · rw [if_pos hk, if_pos (hpk.2 (hiff.1 hk))]
  · rw [if_neg hk, if_neg (fun h' => hk (hiff.2 (hpk.1 h')))]

/-- Every entry of `baseMap` is kept by `retain requested`. -/
theorem retain_baseMap (h : PortGraph) (r : Nat) (cs : List PGCons) (requested : List PGKey)
    (hreq : ∀ x, ((∃ c ∈ cs, x ∈ c.args) ∨ x = PGKey.root 0) → x ∈ requested) :
    alRetain (baseMap h r cs) requested = baseMap h r cs := by
  unfold alRetain
  rw [List.filter_eq_self]
  intro kv hkv
  have hg : alGet (baseMap h r cs) kv.1 = some kv.2 :=
    alGet_of_mem_nodup (anchored_baseMap h r cs).nodup hkv
  rw [get_baseMap] at hg
  split at hg
  · next hc =>
    rcases hc with e | e
    · exact decide_eq_true (hreq _ (.inr e))
    · exact decide_eq_true (hreq _ (.inl e))
  · cases hg

theorem map_some_inj {α : Type} : ∀ {l l' : List α}, l.map some = l'.map some → l = l'
  | [], [], _ => rfl
  | [], _ :: _, h => by simp at h
  | _ :: _, [], h => by simp at h
  | a :: l, b :: l', h => by
    simp only [List.map_cons, List.cons.injEq, Option.some.injEq] at h
    rw [h.1, map_some_inj h.2]

/-! ### the baseline in closed form -/

/-- **C05 for single-root port-graph constraint lists, any fuel**: whenever the baseline
succeeds it reports, in host-node order, exactly one binding per live host node at which every
constraint holds under the anchored assignment: the binding of the keys to their values. -/
theorem pg_single_exact (h : PortGraph) (fuel : Nat) (cs : List PGCons) (hok : ConsOK cs)
    (hne : cs ≠ []) (out : List PGMap) (hs : singleMatches pgDomain cs h fuel = .ok out) :
    out = (h.nodesIter.filter fun r => cs.all (pgSigmaAnch h r)).map fun r => baseMap h r cs := by
  have hs' : singleMatches pgDomain cs h (fuel + 4) = .ok out :=
    singleMatches_fuel_mono hs (by omega)
  have hq : requestedBindings pgDomain cs (fuel + 4) =
      some (Baseline.starKeys (PGKey.root 0) (cs.flatMap (·.args))) := by
    apply pg_allMissing fuel
    intro k hk
    obtain ⟨c, hc, hk⟩ := List.mem_flatMap.1 hk
    exact hok.sr c hc k hk
  have hreq := mem_requested hok.sr hq
  obtain ⟨c0, hc0⟩ := List.exists_mem_of_ne_nil cs hne
  have hreq' : ∀ x, ((∃ c ∈ cs, x ∈ c.args) ∨ x = PGKey.root 0) →
      x ∈ Baseline.starKeys (PGKey.root 0) (cs.flatMap (·.args)) := by
    rintro x (e | e)
    · exact (hreq x).2 (.inl e)
    · exact (hreq x).2 (.inr ⟨e, c0, hc0, args_ne_of_arity (hok.arity c0 hc0)⟩)
  obtain ⟨_, rs, h1, h2⟩ := tsingle_eq hs' hq
  have hlev : singleLevels pgDomain h (fuel + 4) cs [pgDomain.map.empty] = _ :=
    pg_levels h fuel cs hok hne
  rw [hlev, List.map_map] at h1
  have hrs : rs = (h.nodesIter.filter fun r => cs.all (pgSigmaAnch h r)).map
      fun r => baseMap h r cs := by
    apply map_some_inj
    rw [← h1, List.map_map]
    apply List.map_congr_left
    intro r _
    show some (alRetain (baseMap h r cs) _) = some (baseMap h r cs)
    rw [retain_baseMap h r cs _ hreq']
  rw [h2, hrs, List.filter_eq_self]
  intro m hm
  obtain ⟨r, hr, rfl⟩ := List.mem_map.1 hm
  have hsat : ∀ c ∈ cs, pgSigmaAnch h r c = true :=
    List.all_eq_true.1 (List.mem_filter.1 hr).2
  rw [List.all_eq_true]
  intro k hk
  show (alGet (baseMap h r cs) k).isSome = true
  rw [get_baseMap]
  rcases (hreq k).1 hk with ⟨c, hc, hkc⟩ | ⟨e, _⟩
  · rw [if_pos (.inr ⟨c, hc, hkc⟩)]
    exact (args_of_sigma (hsat c hc)).2 k hkc
  · rw [if_pos (.inl e), e]
    rfl

/-! ### totality -/

theorem pg_sat_ne_none (c : PGCons) (har : c.args.length = c.pred.arity) (h : PortGraph)
    (m : PGMap) : satOrFalse pgDomain.map.get pgDomain.check c h m ≠ none := by
  show satOrFalse alGet (fun p g vs => pgCheck p g vs) c h m ≠ none
  unfold satOrFalse isSatisfied isSatisfiedLog
  cases hr : resolveArgs alGet m c.args with
  | error e => simp
  | ok vs =>
    simp only
    have hl : vs.length = c.args.length := resolveArgs_length alGet m c.args vs hr
    have := pgCheck_arity_total c.pred h vs (hl.trans har)
    intro hn
    rw [hn] at this
    cases this

theorem pg_levelWork_map (h : PortGraph) (fuel : Nat) : ∀ (cs : List PGCons), ConsOK cs →
    ∀ (f : Nat → PGMap), (∀ r, Anchored h r (f r)) → ∀ (L : List Nat),
    levelWork pgDomain h (fuel + 4) cs (L.map f) ≤ (cs.length + 1) * L.length
  | [], _, f, _, L => by simp [levelWork]
  | c :: cs, hok, f, hf, L => by
    simp only [levelWork, List.length_map, List.length_cons]
    rw [pg_levelStep_map h fuel c (hok.sr c List.mem_cons_self) (hok.arity c List.mem_cons_self)
      f hf L]
    have := pg_levelWork_map h fuel cs hok.tail (fun r => extG h r (f r) (ckeys c))
      (fun r => anchored_extG _ (hf r)) (L.filter fun r => pgSigmaAnch h r c)
    have hle : (L.filter fun r => pgSigmaAnch h r c).length ≤ L.length := List.length_filter_le _ _
    have hmul : (cs.length + 1) * (L.filter fun r => pgSigmaAnch h r c).length ≤
        (cs.length + 1) * L.length := Nat.mul_le_mul_left _ hle
    have e : (cs.length + 1 + 1) * L.length = (cs.length + 1) * L.length + L.length := by
      rw [Nat.add_mul, Nat.one_mul]
    omega

/-- Fuel that suffices for the baseline on `cs` in `h`. -/
def pgBaselineFuel (cs : List PGCons) (h : PortGraph) : Nat :=
  cs.length * h.nodesIter.length + 4

/-- **C05 for single-root port-graph constraint lists, total form.** -/
theorem pg_single_ok (h : PortGraph) (fuel : Nat) (cs : List PGCons) (hok : ConsOK cs)
    (hne : cs ≠ []) (hf : pgBaselineFuel cs h ≤ fuel) :
    singleMatches pgDomain cs h fuel =
      .ok ((h.nodesIter.filter fun r => cs.all (pgSigmaAnch h r)).map fun r => baseMap h r cs) := by
  obtain ⟨f, rfl⟩ : ∃ f, fuel = f + 4 := ⟨fuel - 4, by unfold pgBaselineFuel at hf; omega⟩
  have hq : requestedBindings pgDomain cs (f + 4) =
      some (Baseline.starKeys (PGKey.root 0) (cs.flatMap (·.args))) := by
    apply pg_allMissing f
    intro k hk
    obtain ⟨c, hc, hk⟩ := List.mem_flatMap.1 hk
    exact hok.sr c hc k hk
  have hwork : levelWork pgDomain h (f + 4) cs [pgDomain.map.empty] ≤ f + 4 := by
    show levelWork pgDomain h (f + 4) cs [[]] ≤ f + 4
    unfold pgBaselineFuel at hf
    cases cs with
    | nil => exact absurd rfl hne
    | cons c cs =>
      simp only [levelWork, List.length_cons, List.length_nil]
      rw [pg_levelStep_nil h f c (hok.sr c List.mem_cons_self)
        (args_ne_of_arity (hok.arity c List.mem_cons_self)),
        pg_levelStep_map h f c (hok.sr c List.mem_cons_self) (hok.arity c List.mem_cons_self) _
          (fun r => anchored_single h r)]
      have := pg_levelWork_map h f cs hok.tail
        (fun r => extG h r [(PGKey.root 0, r)] (ckeys c))
        (fun r => anchored_extG _ (anchored_single h r))
        (h.nodesIter.filter fun r => pgSigmaAnch h r c)
      have hle : (h.nodesIter.filter fun r => pgSigmaAnch h r c).length ≤ h.nodesIter.length :=
        List.length_filter_le _ _
      have hmul : (cs.length + 1) * (h.nodesIter.filter fun r => pgSigmaAnch h r c).length ≤
          (cs.length + 1) * h.nodesIter.length := Nat.mul_le_mul_left _ hle
      simp only [List.length_cons] at hf
      omega
  have htot := singleLoop_total (D := pgDomain) (h := h)
    (requested := Baseline.starKeys (PGKey.root 0) (cs.flatMap (·.args)))
    (mbFuel := f + 4) cs [pgDomain.map.empty]
    ((singleLevels pgDomain h (f + 4) cs [pgDomain.map.empty]).map fun m =>
      alRetain m (Baseline.starKeys (PGKey.root 0) (cs.flatMap (·.args))))
    (f + 4) []
    (fun c hc => ⟨_, pg_allMissing f c.args (hok.sr c hc)⟩)
    (fun c hc m => pg_sat_ne_none c (hok.arity c hc) h m)
    (by rw [List.map_map]; rfl) hwork
  have hs : ∃ out, singleMatches pgDomain cs h (f + 4) = .ok out := by
    unfold singleMatches
    rw [hq]
    exact ⟨_, htot⟩
  obtain ⟨out, hs⟩ := hs
  rw [hs, pg_single_exact h (f + 4) cs hok hne out hs]

/-! ### the baseline in the vocabulary of the anchored traversal theorem -/

theorem mem_single_iff (h : PortGraph) (fuel : Nat) (cs : List PGCons) (hok : ConsOK cs)
    (hne : cs ≠ []) (out : List PGMap) (hs : singleMatches pgDomain cs h fuel = .ok out)
    (m' : PGMap) :
    m' ∈ out ↔ ∃ r, r ∈ h.nodesIter ∧ (∀ c ∈ cs, pgSigmaAnch h r c = true) ∧
      m' = baseMap h r cs := by
  rw [pg_single_exact h fuel cs hok hne out hs, List.mem_map]
  constructor
  · rintro ⟨r, hr, rfl⟩
    obtain ⟨h1, h2⟩ := List.mem_filter.1 hr
    exact ⟨r, h1, List.all_eq_true.1 h2, rfl⟩
  · rintro ⟨r, h1, h2, rfl⟩
    exact ⟨r, List.mem_filter.2 ⟨h1, List.all_eq_true.2 h2⟩, rfl⟩

theorem defined_of_sigma {h : PortGraph} {r : Nat} {cs : List PGCons} (hok : ConsOK cs)
    (hsat : ∀ c ∈ cs, pgSigmaAnch h r c = true) :
    ∀ k ∈ pgPatternKeys cs, (pgVal h r k).isSome = true := by
  intro k hk
  rcases (mem_patternKeys cs hok.sr k).1 hk with ⟨c, hc, hkc⟩ | ⟨rfl, _⟩
  · exact (args_of_sigma (hsat c hc)).2 k hkc
  · rfl

/-- **The baseline reports exactly what the automaton of a checked build reports** (the
right-hand side is that of `c01_c02_pg_checked`): up to the order of the entries of the binding,
the bindings of `pgPatternKeys cs` from the live host nodes at which all constraints hold. -/
theorem single_anch_iff (h : PortGraph) (fuel : Nat) (cs : List PGCons) (hok : ConsOK cs)
    (hne : cs ≠ []) (out : List PGMap) (hs : singleMatches pgDomain cs h fuel = .ok out)
    (m : PGMap) :
    (∃ m', m' ∈ out ∧ MapEqv m' m) ↔
      ∃ r, r ∈ h.nodesIter ∧ (∀ c ∈ cs, pgSigmaAnch h r c = true) ∧
        (∀ k ∈ pgPatternKeys cs, (pgVal h r k).isSome = true) ∧
        MapGets m (pgPatternKeys cs) (pgVal h r) := by
  constructor
  · rintro ⟨m', hm', heq⟩
    obtain ⟨r, h1, h2, rfl⟩ := (mem_single_iff h fuel cs hok hne out hs m').1 hm'
    refine ⟨r, h1, h2, defined_of_sigma hok h2, fun k => ?_⟩
    rw [← heq k]
    exact mapGets_baseMap h r cs hok hne k
  · rintro ⟨r, h1, h2, _, h4⟩
    exact ⟨baseMap h r cs, (mem_single_iff h fuel cs hok hne out hs _).2 ⟨r, h1, h2, rfl⟩,
      mapGets_eqv (mapGets_baseMap h r cs hok hne) h4⟩

end Pm.PGComp
