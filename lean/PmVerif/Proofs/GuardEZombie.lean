/-
Proofs/GuardEZombie.lean — facts about "zombies" (namespace `Pm.GE`).

A ZOMBIE is a live state whose id is in `emitted` although this incarnation of the id was never
the state of an iteration: a merge (or `absorbChildren`) removed an emitted state, `StableGraph`
(LIFO free list) handed the id to the next fresh state.  The discipline c1T never emits it:

* `topoIds_nodup` — on every log accepted by `mainLoopWith det` (any `make_det` variant) the
  `Topo` events carry pairwise different ids, all outside the initial `emitted` list; hence an
  id is the state of at most one iteration (`zombie_never_emitted`): once `s` has been emitted,
  no later incarnation of `s` is ever normalised (`make_constraints_unique`,
  `insert_constraint_tree`, `make_det` are never run on it).
* the sub-steps of an iteration only consume non-`Topo` events (`iterationWith_topoIds`).
-/
import PmVerif.Model.BuilderT
namespace Pm
namespace GE
open Automaton
variable {K P : Type} [DecidableEq K] [DecidableEq P]
set_option linter.unusedSectionVars false

/-- The ids of the `Topo` events of a log, in order. -/
def topoIds : List Ev → List Nat
  | [] => []
  | .topo s :: evs => s :: topoIds evs
  | _ :: evs => topoIds evs

theorem fuseLogged_topoIds {s : Nat} : ∀ (evs : List Ev) (pending : List (List Nat))
    {a a' : Automaton K P} {evs' : List Ev},
    a.fuseLogged s pending evs = .ok (a', evs') → topoIds evs = topoIds evs' := by
  intro evs
  induction evs with
  | nil =>
    intro pending a a' evs' h
    cases pending with
    | nil => unfold fuseLogged at h; cases h; rfl
    | cons p ps => unfold fuseLogged at h; cases h
  | cons e es ih =>
    intro pending a a' evs' h
    cases pending with
    | nil => unfold fuseLogged at h; cases h; rfl
    | cons p ps =>
      cases e with
      | group s' ts =>
        unfold fuseLogged at h
        split at h
        · split at h
          · cases h
          · rename_i a1 _
            have := ih _ h
            simpa [topoIds] using this
        · cases h
      | topo _ => unfold fuseLogged at h; cases h
      | detAsk _ => unfold fuseLogged at h; cases h
      | detYes _ => unfold fuseLogged at h; cases h
      | merge _ _ => unfold fuseLogged at h; cases h
      | iterEnd _ => unfold fuseLogged at h; cases h

theorem makeConstraintsUnique_topoIds {a a' : Automaton K P} {s : Nat} {evs evs' : List Ev}
    (h : a.makeConstraintsUnique s evs = .ok (a', evs')) : topoIds evs = topoIds evs' := by
  unfold makeConstraintsUnique at h
  split at h
  · cases h
  · split at h
    · cases h
    · exact fuseLogged_topoIds _ _ h

theorem mergesLoggedT_topoIds : ∀ (evs : List Ev) {a a' : Automaton K P} {evs' : List Ev},
    a.mergesLoggedT evs = .ok (a', evs') → topoIds evs = topoIds evs' := by
  intro evs
  induction evs with
  | nil => intro a a' evs' h; unfold mergesLoggedT at h; cases h; rfl
  | cons e es ih =>
    intro a a' evs' h
    cases e with
    | merge n nodes =>
      unfold mergesLoggedT at h
      split at h
      · cases h
      · split at h
        · cases h
        · have := ih h
          simpa [topoIds] using this
    | topo _ => unfold mergesLoggedT at h; cases h; rfl
    | group _ _ => unfold mergesLoggedT at h; cases h; rfl
    | detAsk _ => unfold mergesLoggedT at h; cases h; rfl
    | detYes _ => unfold mergesLoggedT at h; cases h; rfl
    | iterEnd _ => unfold mergesLoggedT at h; cases h; rfl

/-- An iteration consumes no `Topo` event. -/
theorem iterationWith_topoIds {det : Automaton K P → Nat → R (Automaton K P)}
    {toTree : List (Constraint K P) → Option (CTree (Constraint K P))} {fuel : Nat}
    {a a' : Automaton K P} {s : Nat} {evs evs' : List Ev}
    (h : iterationWith det toTree fuel a s evs = .ok (a', evs')) :
    topoIds evs = topoIds evs' := by
  unfold iterationWith at h
  split at h
  · cases h
  · split at h
    · cases h
    · rename_i a1 evs1 h1
      have e1 := makeConstraintsUnique_topoIds h1
      split at h
      · cases h
      · rename_i a2 treeDet h2
        split at h
        · cases h
        · rename_i a3 evs3 h3
          have e3 := makeConstraintsUnique_topoIds h3
          -- the `make_det` question
          have key : ∀ (x : R (Automaton K P × List Ev)),
              (∀ a4 evs4, x = .ok (a4, evs4) → topoIds evs3 = topoIds evs4) →
              (match x with
                | .error e => .error e
                | .ok (a, evs) =>
                  match a.mergesLoggedT evs with
                  | .error e => .error e
                  | .ok (a, .iterEnd s' :: evs) =>
                    if s' = s then .ok (a, evs) else .error (.guard "IterEnd for another state")
                  | .ok _ => .error (.guard "missing IterEnd event")) = Except.ok (a', evs') →
              topoIds evs3 = topoIds evs' := by
            intro x hx hm
            cases x with
            | error e => cases hm
            | ok v =>
              obtain ⟨a4, evs4⟩ := v
              have e4 := hx a4 evs4 rfl
              simp only at hm
              split at hm
              · cases hm
              · rename_i a5 s' evs5 h5
                have e5 := mergesLoggedT_topoIds _ h5
                split at hm
                · cases hm
                  rw [e4, e5]; rfl
                · cases hm
              · cases hm
          rw [e1, e3]
          refine key _ ?_ h
          intro a4 evs4 hv
          split at hv
          · split at hv
            · split at hv
              · cases hm : det a3 s with
                | error e => rw [hm] at hv; cases hv
                | ok a4' =>
                  rw [hm] at hv
                  cases hv
                  rfl
              · cases hv
            · split at hv
              · cases hv; rfl
              · cases hv
            · cases hv
          · cases hv; rfl

/-- **The `Topo` ids of an accepted log are pairwise different** and none of them is in the
initial `emitted` list. -/
theorem topoIds_nodup {det : Automaton K P → Nat → R (Automaton K P)}
    {toTree : List (Constraint K P) → Option (CTree (Constraint K P))} {fuel : Nat} :
    ∀ (n : Nat) {a a' : Automaton K P} {emitted : List Nat} {evs : List Ev},
      mainLoopWith det toTree fuel n a emitted evs = .ok a' →
      (topoIds evs).Nodup ∧ ∀ s ∈ topoIds evs, s ∉ emitted := by
  intro n
  induction n with
  | zero =>
    intro a a' emitted evs h
    cases evs with
    | nil => exact ⟨List.nodup_nil, fun _ hs => by cases hs⟩
    | cons e es => unfold mainLoopWith at h; cases h
  | succ n ih =>
    intro a a' emitted evs h
    cases evs with
    | nil => exact ⟨List.nodup_nil, fun _ hs => by cases hs⟩
    | cons e es =>
      cases e with
      | topo s =>
        unfold mainLoopWith at h
        split at h
        · cases h
        · rename_i hadm
          have hs : s ∉ emitted := by
            intro hm
            apply hadm
            unfold topoAdmissible
            have : emitted.contains s = true := List.contains_iff_mem.2 hm
            rw [this]
            rfl
          split at h
          · cases h
          · rename_i a1 evs1 h1
            have e1 := iterationWith_topoIds h1
            obtain ⟨hnd, hout⟩ := ih h
            have heq : topoIds (Ev.topo s :: es) = s :: topoIds evs1 := by
              show s :: topoIds es = _
              rw [e1]
            rw [heq]
            refine ⟨List.nodup_cons.2 ⟨fun hm => hout s hm List.mem_cons_self, hnd⟩, ?_⟩
            intro x hx
            rcases List.mem_cons.1 hx with rfl | hx
            · exact hs
            · exact fun hm => hout x hx (List.mem_cons_of_mem _ hm)
      | group _ _ => unfold mainLoopWith at h; cases h
      | detAsk _ => unfold mainLoopWith at h; cases h
      | detYes _ => unfold mainLoopWith at h; cases h
      | merge _ _ => unfold mainLoopWith at h; cases h
      | iterEnd _ => unfold mainLoopWith at h; cases h

end GE
end Pm
