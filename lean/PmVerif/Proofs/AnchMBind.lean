/-
Proofs/AnchMBind.lean — T-RUN-ANCH-MAT, stage 1: the bindings the traversal of a matrix automaton
computes. `bindAll`/`retain` on `MatPos` in closed form (`AnchM.extBox`, `AnchM.retBox`), the step
candidates of a state (`stepCands`), the bindings emitted at an accepting state, and the
evaluation of a constraint under such a binding (`= matSigma`).

Differences from strings: hosts are ragged and a position map answers `get` for every key of its
bounding box, whether or not the host cell exists. The box of a step candidate therefore depends
on the box the configuration arrived with (not only on anchor and scope); what the later stages
use is `stepBox_spec`: the box is non-negative and contains every *bindable* scope key.
Everything lives in `namespace Pm.AnchM`.
-/
import PmVerif.Spec.MatRun
import PmVerif.Spec.RunSpec
import PmVerif.Props.C13
import PmVerif.Props.C09
import PmVerif.Props.C14
import PmVerif.Props.TRun
import PmVerif.Proofs.BaselineDom
namespace Pm
namespace AnchM

/-! ### keys, boxes -/

/-- All keys of the list are non-negative offsets. -/
def NN (ks : List MKey) : Prop := ∀ k ∈ ks, 0 ≤ k.1 ∧ 0 ≤ k.2

/-- The component-wise maximum of a key list (and `(0,0)`): the box of a reported match. -/
def boxMax (ks : List MKey) : Int × Int :=
  ks.foldl (fun acc k => (max acc.1 k.1, max acc.2 k.2)) (0, 0)

theorem boxMax_eq (ks : List MKey) : boxMax ks = matBox 0 0 ks := rfl

theorem boxMax_zero_cons (rest : List MKey) : boxMax ((0, 0) :: rest) = matBox 0 0 rest := by
  show matBox (max 0 0) (max 0 0) rest = _
  simp

theorem NN_tail {k : MKey} {ks : List MKey} (h : NN (k :: ks)) : NN ks :=
  fun k' hk' => h k' (List.mem_cons_of_mem _ hk')

theorem matBoxIn_iff (R C : Int) (k : MKey) : matBoxIn R C k = true ↔ k.1 ≤ R ∧ k.2 ≤ C := by
  simp [matBoxIn]

theorem matBoxIn_false_iff (R C : Int) (k : MKey) :
    matBoxIn R C k = false ↔ ¬ (k.1 ≤ R ∧ k.2 ≤ C) := by
  rw [← matBoxIn_iff]; simp

/-- A non-negative key inside the box `[0,0]×[0,0]` is the start key. -/
theorem eq_zero_of_in_zero_box (k : MKey) (hk : 0 ≤ k.1 ∧ 0 ≤ k.2) (hb : k.1 ≤ 0 ∧ k.2 ≤ 0) :
    k = (0, 0) := by
  obtain ⟨i, j⟩ := k
  simp only at hk hb
  have h1 : i = 0 := by omega
  have h2 : j = 0 := by omega
  rw [h1, h2]

/-! ### `get` on a bound map -/

theorem get_bound (r c : Nat) (R C : Int) (k : MKey) (hk : 0 ≤ k.1 ∧ 0 ≤ k.2) :
    MatPos.get (.bound r c 0 0 R C) k =
      if k.1 ≤ R ∧ k.2 ≤ C then some (r + k.1.toNat, c + k.2.toNat) else none := by
  by_cases hb : k.1 ≤ R ∧ k.2 ≤ C
  · rw [if_pos hb]; exact mat_get_in r c R C k hk hb
  · rw [if_neg hb]; exact mat_get_out r c R C k hb

theorem get_bound_zero (r c : Nat) (R C : Int) (hR : 0 ≤ R) (hC : 0 ≤ C) :
    MatPos.get (.bound r c 0 0 R C) (0, 0) = some (r, c) := by
  rw [get_bound r c R C (0, 0) ⟨Int.le_refl _, Int.le_refl _⟩, if_pos ⟨hR, hC⟩]
  simp

theorem get_isNone_iff (r c : Nat) (R C : Int) (k : MKey) (hk : 0 ≤ k.1 ∧ 0 ≤ k.2) :
    (MatPos.get (.bound r c 0 0 R C) k).isNone = true ↔ ¬ (k.1 ≤ R ∧ k.2 ≤ C) := by
  rw [get_bound r c R C k hk]
  by_cases hb : k.1 ≤ R ∧ k.2 ≤ C
  · rw [if_pos hb]; simp [hb]
  · rw [if_neg hb]; simp [hb]

/-! ### `extend`, `bindAll` (incomplete mode) on a bound map -/

theorem extend_bound (h : MatHost) (r c : Nat) (R C : Int) (k : MKey) (inc : Bool) (hR : 0 ≤ R)
    (hC : 0 ≤ C) (hk : 0 ≤ k.1 ∧ 0 ≤ k.2) :
    extend matPosMap matOpts h inc k (.bound r c 0 0 R C)
      = if (matBoxIn R C k || matCellAt h r c k) = true then
          [.bound r c 0 0 (max R k.1) (max C k.2)]
        else if inc = true then [.bound r c 0 0 R C] else [] := by
  cases inc with
  | false => simpa using mat_extend_bound h r c R C k hR hC hk
  | true =>
    unfold extend
    by_cases hb : k.1 ≤ R ∧ k.2 ≤ C
    · have e1 : max R k.1 = R := by omega
      have e2 : max C k.2 = C := by omega
      have hg : matPosMap.get (.bound r c 0 0 R C) k = some (r + k.1.toNat, c + k.2.toNat) :=
        mat_get_in r c R C k hk hb
      simp [hg, matBoxIn, hb.1, hb.2, e1, e2]
    · have hg : matPosMap.get (.bound r c 0 0 R C) k = none := mat_get_out r c R C k hb
      have hk0 : k ≠ (0, 0) := by
        rintro rfl
        exact hb ⟨hR, hC⟩
      have hin : matBoxIn R C k = false := (matBoxIn_false_iff R C k).mpr hb
      have ha1 : addSigned r k.1 = some (r + k.1.toNat) := by
        rw [addSigned_nonneg _ _ (by omega)]; congr 1; omega
      have ha2 : addSigned c k.2 = some (c + k.2.toNat) := by
        rw [addSigned_nonneg _ _ (by omega)]; congr 1; omega
      have hbind : ∀ v, MatPos.bind (.bound r c 0 0 R C) k v
          = .ok (.bound r c 0 0 (max R k.1) (max C k.2)) := by
        intro v
        rw [mat_bind_bound_of_ne _ _ _ _ _ _ _ _ hk0]
        have e1 : min 0 k.1 = 0 := by omega
        have e2 : min 0 k.2 = 0 := by omega
        rw [e1, e2]
      simp only [hg, Option.isSome_none, Bool.false_eq_true, if_false, Bool.and_true, hin,
        Bool.false_or, if_true]
      unfold matOpts matOptsP
      simp only [hk0, if_false, ha1, ha2]
      by_cases hcell : (matCell h (r + k.1.toNat) (c + k.2.toNat)).isSome = true
      · simp [matCellAt, hcell, matPosMap, hbind]
      · simp [matCellAt, hcell]

/-- One key in incomplete mode: the box takes in a bindable key. -/
def extI (h : MatHost) (r c : Nat) (b : Int × Int) (k : MKey) : Int × Int :=
  if (matBoxIn b.1 b.2 k || matCellAt h r c k) = true then (max b.1 k.1, max b.2 k.2) else b

/-- The box after binding (incomplete mode) the keys `ks` in order from the box `b` at anchor
`(r, c)`. -/
def extBox (h : MatHost) (r c : Nat) (b : Int × Int) (ks : List MKey) : Int × Int :=
  ks.foldl (extI h r c) b

theorem extBox_cons (h : MatHost) (r c : Nat) (b : Int × Int) (k : MKey) (ks : List MKey) :
    extBox h r c b (k :: ks) = extBox h r c (extI h r c b k) ks := rfl

theorem extI_ge (h : MatHost) (r c : Nat) (b : Int × Int) (k : MKey) :
    b.1 ≤ (extI h r c b k).1 ∧ b.2 ≤ (extI h r c b k).2 := by
  unfold extI
  split
  · exact ⟨by simp only; omega, by simp only; omega⟩
  · exact ⟨Int.le_refl _, Int.le_refl _⟩

theorem extBox_ge (h : MatHost) (r c : Nat) : ∀ (ks : List MKey) (b : Int × Int),
    b.1 ≤ (extBox h r c b ks).1 ∧ b.2 ≤ (extBox h r c b ks).2
  | [], b => ⟨Int.le_refl _, Int.le_refl _⟩
  | k :: ks, b => by
    obtain ⟨h1, h2⟩ := extI_ge h r c b k
    obtain ⟨h3, h4⟩ := extBox_ge h r c ks (extI h r c b k)
    rw [extBox_cons]
    exact ⟨Int.le_trans h1 h3, Int.le_trans h2 h4⟩

/-- Every bindable listed key ends up inside the box. -/
theorem extBox_covers (h : MatHost) (r c : Nat) : ∀ (ks : List MKey) (b : Int × Int),
    ∀ k ∈ ks, matCellAt h r c k = true →
      k.1 ≤ (extBox h r c b ks).1 ∧ k.2 ≤ (extBox h r c b ks).2
  | [], _ => by simp
  | k' :: ks, b => by
    intro k hk hcell
    rw [extBox_cons]
    rcases List.mem_cons.mp hk with rfl | hk
    · obtain ⟨h3, h4⟩ := extBox_ge h r c ks (extI h r c b k)
      have he : extI h r c b k = (max b.1 k.1, max b.2 k.2) := by
        unfold extI
        rw [if_pos (by simp [hcell])]
      rw [he] at h3 h4 ⊢
      simp only at h3 h4
      exact ⟨by omega, by omega⟩
    · exact extBox_covers h r c ks _ k hk hcell

theorem extI_zero (h : MatHost) (r c : Nat) (b : Int × Int) (h1 : 0 ≤ b.1) (h2 : 0 ≤ b.2) :
    extI h r c b (0, 0) = b := by
  unfold extI
  have e1 : max b.1 0 = b.1 := by omega
  have e2 : max b.2 0 = b.2 := by omega
  split
  · simp only [e1, e2]
  · rfl

theorem extBox_zero_cons (h : MatHost) (r c : Nat) (b : Int × Int) (rest : List MKey)
    (h1 : 0 ≤ b.1) (h2 : 0 ≤ b.2) :
    extBox h r c b ((0, 0) :: rest) = extBox h r c b rest := by
  rw [extBox_cons, extI_zero h r c b h1 h2]

/-- `bindAll` in incomplete mode from a bound map: exactly one candidate. -/
theorem bindAll_inc (h : MatHost) (r c : Nat) : ∀ (ks : List MKey) (b : Int × Int),
    0 ≤ b.1 → 0 ≤ b.2 → NN ks →
    bindAll matPosMap matOpts h (.bound r c 0 0 b.1 b.2) ks true =
      [.bound r c 0 0 (extBox h r c b ks).1 (extBox h r c b ks).2]
  | [], _, _, _, _ => rfl
  | k :: ks, b, h1, h2, hnn => by
    rw [c13_cons, extend_bound h r c b.1 b.2 k true h1 h2 (hnn k List.mem_cons_self), extBox_cons]
    obtain ⟨g1, g2⟩ := extI_ge h r c b k
    have ih := bindAll_inc h r c ks (extI h r c b k) (by omega) (by omega) (NN_tail hnn)
    by_cases hb : (matBoxIn b.1 b.2 k || matCellAt h r c k) = true
    · have he : extI h r c b k = (max b.1 k.1, max b.2 k.2) := by
        unfold extI; rw [if_pos hb]
      rw [if_pos hb]
      simp only [List.flatMap_cons, List.flatMap_nil, List.append_nil]
      rw [he] at ih ⊢
      exact ih
    · have he : extI h r c b k = b := by
        unfold extI; rw [if_neg hb]
      rw [if_neg hb]
      simp only [if_true, List.flatMap_cons, List.flatMap_nil, List.append_nil]
      rw [he] at ih ⊢
      exact ih

/-! ### `retain` -/

/-- One key of `retain_keys`: a listed key inside the old box `[0,R]×[0,C]` is re-bound. -/
def retI (R C : Int) (b : Int × Int) (k : MKey) : Int × Int :=
  if matBoxIn R C k = true then (max b.1 k.1, max b.2 k.2) else b

/-- The box after re-binding the keys `ks` that lie in the old box `[0,R]×[0,C]`. -/
def retBox (R C : Int) (b : Int × Int) (ks : List MKey) : Int × Int := ks.foldl (retI R C) b

theorem retBox_cons (R C : Int) (b : Int × Int) (k : MKey) (ks : List MKey) :
    retBox R C b (k :: ks) = retBox R C (retI R C b k) ks := rfl

theorem retI_ge (R C : Int) (b : Int × Int) (k : MKey) :
    b.1 ≤ (retI R C b k).1 ∧ b.2 ≤ (retI R C b k).2 := by
  unfold retI
  split
  · exact ⟨by simp only; omega, by simp only; omega⟩
  · exact ⟨Int.le_refl _, Int.le_refl _⟩

theorem retBox_ge (R C : Int) : ∀ (ks : List MKey) (b : Int × Int),
    b.1 ≤ (retBox R C b ks).1 ∧ b.2 ≤ (retBox R C b ks).2
  | [], b => ⟨Int.le_refl _, Int.le_refl _⟩
  | k :: ks, b => by
    obtain ⟨h1, h2⟩ := retI_ge R C b k
    obtain ⟨h3, h4⟩ := retBox_ge R C ks (retI R C b k)
    rw [retBox_cons]
    exact ⟨Int.le_trans h1 h3, Int.le_trans h2 h4⟩

/-- Every listed key of the old box is inside the retained box. -/
theorem retBox_covers (R C : Int) : ∀ (ks : List MKey) (b : Int × Int),
    ∀ k ∈ ks, (k.1 ≤ R ∧ k.2 ≤ C) → k.1 ≤ (retBox R C b ks).1 ∧ k.2 ≤ (retBox R C b ks).2
  | [], _ => by simp
  | k' :: ks, b => by
    intro k hk hin
    rw [retBox_cons]
    rcases List.mem_cons.mp hk with rfl | hk
    · obtain ⟨h3, h4⟩ := retBox_ge R C ks (retI R C b k)
      have he : retI R C b k = (max b.1 k.1, max b.2 k.2) := by
        unfold retI
        rw [if_pos ((matBoxIn_iff R C k).mpr hin)]
      rw [he] at h3 h4 ⊢
      simp only at h3 h4
      exact ⟨by omega, by omega⟩
    · exact retBox_covers R C ks _ k hk hin

/-- When every listed key lies in the old box the retained box is their component-wise maximum. -/
theorem retBox_all (R C : Int) : ∀ (ks : List MKey) (b : Int × Int),
    (∀ k ∈ ks, k.1 ≤ R ∧ k.2 ≤ C) → retBox R C b ks = matBox b.1 b.2 ks
  | [], _, _ => rfl
  | k :: ks, b, hin => by
    have he : retI R C b k = (max b.1 k.1, max b.2 k.2) := by
      unfold retI
      rw [if_pos ((matBoxIn_iff R C k).mpr (hin k List.mem_cons_self))]
    rw [retBox_cons, matBox_cons, he]
    exact retBox_all R C ks _ fun k' hk' => hin k' (List.mem_cons_of_mem _ hk')

theorem retainDefault_unbound : ∀ (ks : List MKey) (acc : MatPos),
    retainDefault MatPos.getP MatPos.bind .unbound ks acc = some acc :=
  fun ks acc => retainDefault_skip_all MatPos.getP MatPos.bind .unbound acc ks fun _ _ => rfl

theorem retain_unbound (ks : List MKey) : matPosMap.retain .unbound ks = some .unbound :=
  retainDefault_unbound ks .unbound

theorem retain_nil (m : MatPos) : matPosMap.retain m [] = some .unbound := rfl

theorem retainDefault_bound (r c : Nat) (R C : Int) : ∀ (ks : List MKey) (b : Int × Int),
    (0, 0) ∉ ks → NN ks →
    retainDefault MatPos.getP MatPos.bind (.bound r c 0 0 R C) ks (.bound r c 0 0 b.1 b.2) =
      some (.bound r c 0 0 (retBox R C b ks).1 (retBox R C b ks).2)
  | [], _, _, _ => rfl
  | k :: ks, b, h0, hnn => by
    have hk0 : k ≠ (0, 0) := fun e => h0 (e ▸ List.mem_cons_self)
    have h0' : (0, 0) ∉ ks := fun hm => h0 (List.mem_cons_of_mem _ hm)
    obtain ⟨hk1, hk2⟩ := hnn k List.mem_cons_self
    rw [retBox_cons]
    by_cases hb : k.1 ≤ R ∧ k.2 ≤ C
    · have hg := mat_getP_in_nonneg r c 0 0 R C k ⟨hk1, hb.1, hk2, hb.2⟩ (by omega) (by omega)
      have hbind : MatPos.bind (.bound r c 0 0 b.1 b.2) k
          (((r : Int) + k.1).toNat, ((c : Int) + k.2).toNat)
          = .ok (.bound r c 0 0 (max b.1 k.1) (max b.2 k.2)) := by
        rw [mat_bind_bound_of_ne _ _ _ _ _ _ _ _ hk0]
        have e1 : min 0 k.1 = 0 := by omega
        have e2 : min 0 k.2 = 0 := by omega
        rw [e1, e2]
      rw [retainDefault_cons_bind MatPos.getP MatPos.bind _ _ _ k _ ks hg hbind]
      have he : retI R C b k = (max b.1 k.1, max b.2 k.2) := by
        unfold retI
        rw [if_pos ((matBoxIn_iff R C k).mpr hb)]
      rw [he]
      exact retainDefault_bound r c R C ks (max b.1 k.1, max b.2 k.2) h0' (NN_tail hnn)
    · have hg : MatPos.getP (.bound r c 0 0 R C) k = some none :=
        mat_getP_out _ _ _ _ _ _ _ (fun hbox => hb ⟨hbox.2.1, hbox.2.2.2⟩)
      rw [retainDefault_cons_skip MatPos.getP MatPos.bind _ _ k ks hg]
      have he : retI R C b k = b := by
        unfold retI
        rw [if_neg (by rw [matBoxIn_iff]; exact hb)]
      rw [he]
      exact retainDefault_bound r c R C ks b h0' (NN_tail hnn)

/-- `retain_keys` on a bound map, with the start key listed first and only once. -/
theorem retain_bound (r c : Nat) (R C : Int) (rest : List MKey) (hR : 0 ≤ R) (hC : 0 ≤ C)
    (h0 : (0, 0) ∉ rest) (hnn : NN rest) :
    matPosMap.retain (.bound r c 0 0 R C) ((0, 0) :: rest) =
      some (.bound r c 0 0 (retBox R C (0, 0) rest).1 (retBox R C (0, 0) rest).2) := by
  have hg : MatPos.getP (.bound r c 0 0 R C) (0, 0) = some (some (r, c)) := by
    rw [mat_getP_in_nonneg r c 0 0 R C (0, 0) ⟨Int.le_refl 0, hR, Int.le_refl 0, hC⟩
      (by simp) (by simp)]
    simp
  rw [matPosMap_retain,
    retainDefault_cons_bind MatPos.getP MatPos.bind _ _ (.bound r c 0 0 0 0) (0, 0) _ rest hg
      (by simp [MatPos.bind])]
  exact retainDefault_bound r c R C rest (0, 0) h0 hnn

/-! ### step candidates -/

theorem retainAll_singleton {keys : List MKey} {m m' : MatPos}
    (hr : matPosMap.retain m keys = some m') : retainAll matDomain keys [m] = .ok [m'] := by
  have hr' : matDomain.map.retain m keys = some m' := hr
  simp [retainAll, hr']

theorem retainAll_map {α : Type} (keys : List MKey) (l : List α) (f g : α → MatPos)
    (H : ∀ x ∈ l, matPosMap.retain (f x) keys = some (g x)) :
    retainAll matDomain keys (l.map f) = .ok (l.map g) := by
  rw [retainAll_ok]
  rw [List.map_map, List.map_map]
  exact List.map_congr_left fun x hx => H x hx

theorem flatMap_singleton_of_mem {α β : Type} (l : List α) (g : α → List β) (F : α → β)
    (H : ∀ x ∈ l, g x = [F x]) : l.flatMap g = l.map F := by
  induction l with
  | nil => rfl
  | cons x xs ih =>
    rw [List.flatMap_cons, List.map_cons, H x List.mem_cons_self,
      ih fun y hy => H y (List.mem_cons_of_mem _ hy)]
    rfl

/-- The box of the step candidate of a state with scope `(0,0) :: rest`, from a configuration at
anchor `(r, c)` with box `b`: bind the scope (incomplete mode), retain it. -/
def stepBox (h : MatHost) (r c : Nat) (b : Int × Int) (rest : List MKey) : Int × Int :=
  retBox (extBox h r c b rest).1 (extBox h r c b rest).2 (0, 0) rest

/-- What the later stages use about the box of a step candidate: it is non-negative and contains
every bindable scope key. -/
theorem stepBox_spec (h : MatHost) (r c : Nat) (b : Int × Int) (rest : List MKey) :
    0 ≤ (stepBox h r c b rest).1 ∧ 0 ≤ (stepBox h r c b rest).2 ∧
      ∀ k ∈ (0, 0) :: rest, matCellAt h r c k = true →
        k.1 ≤ (stepBox h r c b rest).1 ∧ k.2 ≤ (stepBox h r c b rest).2 := by
  obtain ⟨g1, g2⟩ := retBox_ge (extBox h r c b rest).1 (extBox h r c b rest).2 rest (0, 0)
  refine ⟨g1, g2, ?_⟩
  intro k hk hcell
  rcases List.mem_cons.mp hk with rfl | hk
  · exact ⟨g1, g2⟩
  · exact retBox_covers _ _ rest (0, 0) k hk (extBox_covers h r c rest b k hk hcell)

theorem retain_ext (h : MatHost) (r c : Nat) (b : Int × Int) (rest : List MKey)
    (h0 : (0, 0) ∉ rest) (hnn : NN rest) (h1 : 0 ≤ b.1) (h2 : 0 ≤ b.2) :
    matPosMap.retain
        (.bound r c 0 0 (extBox h r c b rest).1 (extBox h r c b rest).2) ((0, 0) :: rest) =
      some (.bound r c 0 0 (stepBox h r c b rest).1 (stepBox h r c b rest).2) := by
  obtain ⟨g1, g2⟩ := extBox_ge h r c rest b
  exact retain_bound r c _ _ rest (by omega) (by omega) h0 hnn

theorem NN_cons_zero {rest : List MKey} (hnn : NN rest) : NN ((0, 0) :: rest) := by
  intro k hk
  rcases List.mem_cons.mp hk with rfl | hk
  · exact ⟨Int.le_refl _, Int.le_refl _⟩
  · exact hnn k hk

theorem stepCands_bound (h : MatHost) (w : AState MKey) (r c : Nat) (R C : Int)
    (rest : List MKey) (hs : w.scope = (0, 0) :: rest) (h0 : (0, 0) ∉ rest) (hnn : NN rest)
    (hR : 0 ≤ R) (hC : 0 ≤ C) :
    stepCands matDomain h w (.bound r c 0 0 R C) =
      .ok [.bound r c 0 0 (stepBox h r c (R, C) rest).1 (stepBox h r c (R, C) rest).2] := by
  unfold stepCands
  show retainAll matDomain w.scope (bindAll matPosMap matOpts h (.bound r c 0 0 R C) w.scope true)
    = _
  rw [hs, bindAll_inc h r c ((0, 0) :: rest) (R, C) hR hC (NN_cons_zero hnn),
    extBox_zero_cons h r c (R, C) rest hR hC]
  exact retainAll_singleton (retain_ext h r c (R, C) rest h0 hnn hR hC)

theorem extend_unbound_zero (h : MatHost) (inc : Bool) (hB : inc = false ∨ matAllCells h ≠ []) :
    extend matPosMap matOpts h inc (0, 0) .unbound =
      (matAllCells h).map fun v => MatPos.bound v.1 v.2 0 0 0 0 := by
  unfold extend
  have hg : matPosMap.get .unbound ((0 : Int), (0 : Int)) = none := rfl
  have ho : matOpts h (0, 0) .unbound = matAllCells h := rfl
  have he : ((matAllCells h).isEmpty && inc) = false := by
    rcases hB with rfl | hB
    · simp
    · cases hc : matAllCells h with
      | nil => exact absurd hc hB
      | cons _ _ => rfl
  simp only [hg, Option.isSome_none, Bool.false_eq_true, if_false, ho, he]
  induction matAllCells h with
  | nil => rfl
  | cons x xs ih =>
    obtain ⟨vr, vc⟩ := x
    simp [matPosMap, MatPos.bind]

theorem stepCands_unbound (h : MatHost) (w : AState MKey) (rest : List MKey)
    (hs : w.scope = (0, 0) :: rest) (h0 : (0, 0) ∉ rest) (hnn : NN rest)
    (hB : matAllCells h ≠ []) :
    stepCands matDomain h w .unbound =
      .ok ((matAllCells h).map fun v =>
        .bound v.1 v.2 0 0 (stepBox h v.1 v.2 (0, 0) rest).1 (stepBox h v.1 v.2 (0, 0) rest).2) := by
  unfold stepCands
  show retainAll matDomain w.scope (bindAll matPosMap matOpts h .unbound w.scope true) = _
  rw [hs, c13_cons, extend_unbound_zero h true (.inr hB), List.flatMap_map]
  rw [flatMap_singleton_of_mem (matAllCells h)
    (F := fun v => MatPos.bound v.1 v.2 0 0 (extBox h v.1 v.2 (0, 0) rest).1
      (extBox h v.1 v.2 (0, 0) rest).2)]
  · apply retainAll_map
    intro v _
    exact retain_ext h v.1 v.2 (0, 0) rest h0 hnn (Int.le_refl _) (Int.le_refl _)
  · intro v _
    exact bindAll_inc h v.1 v.2 rest (0, 0) (Int.le_refl _) (Int.le_refl _) hnn

theorem bindAll_unbound_empty (h : MatHost) (hB : matAllCells h = []) : ∀ ks : List MKey,
    bindAll matPosMap matOpts h .unbound ks true = [.unbound] := by
  intro ks
  induction ks with
  | nil => rfl
  | cons k ks ih =>
    rw [c13_cons]
    have : extend matPosMap matOpts h true k .unbound = [.unbound] := by
      unfold extend
      have hg : matPosMap.get .unbound k = none := rfl
      have ho : matOpts h k .unbound = [] := by
        unfold matOpts matOptsP
        by_cases hk : k = (0, 0)
        · simp [hk, hB]
        · simp [hk]
      simp [hg, ho]
    rw [this]
    simp [ih]

/-- On a host without cells nothing is ever bound. -/
theorem stepCands_unbound_empty (h : MatHost) (w : AState MKey) (hB : matAllCells h = []) :
    stepCands matDomain h w .unbound = .ok [.unbound] := by
  unfold stepCands
  show retainAll matDomain w.scope (bindAll matPosMap matOpts h .unbound w.scope true) = _
  rw [bindAll_unbound_empty h hB]
  exact retainAll_singleton (retain_unbound _)

/-! ### emission -/

/-- The keys that are missing at a bound configuration are those outside its box. -/
theorem filter_missing (r c : Nat) (R C : Int) (ks : List MKey) (hnn : NN ks) :
    (ks.filter fun k => (matPosMap.get (.bound r c 0 0 R C) k).isNone) =
      ks.filter fun k => !matBoxIn R C k := by
  apply List.filter_congr
  intro k hk
  show (MatPos.get (.bound r c 0 0 R C) k).isNone = _
  by_cases hb : k.1 ≤ R ∧ k.2 ≤ C
  · have h1 : (MatPos.get (.bound r c 0 0 R C) k).isNone = false := by
      rw [get_bound r c R C k (hnn k hk), if_pos hb]; rfl
    rw [h1, (matBoxIn_iff R C k).mpr hb]; rfl
  · rw [(get_isNone_iff r c R C k (hnn k hk)).mpr hb, (matBoxIn_false_iff R C k).mpr hb]; rfl

/-- After the missing keys of `(0,0) :: rest` have been bound completely, `retain` gives the
component-wise maximum of the key list. -/
theorem retain_after_bind (r c : Nat) (R C : Int) (rest : List MKey) (hR : 0 ≤ R) (hC : 0 ≤ C)
    (h0 : (0, 0) ∉ rest) (hnn : NN rest) (news : List MKey)
    (hnews : ∀ k ∈ rest, (k.1 ≤ R ∧ k.2 ≤ C) ∨ k ∈ news) :
    matPosMap.retain (.bound r c 0 0 (matBox R C news).1 (matBox R C news).2) ((0, 0) :: rest) =
      some (.bound r c 0 0 (boxMax ((0, 0) :: rest)).1 (boxMax ((0, 0) :: rest)).2) := by
  obtain ⟨g1, g2⟩ := matBox_ge news R C
  rw [retain_bound r c _ _ rest (by omega) (by omega) h0 hnn, boxMax_zero_cons, retBox_all]
  intro k hk
  rcases hnews k hk with hin | hin
  · exact ⟨by omega, by omega⟩
  · exact matBox_mem news R C k hin

/-- Emission of an accepted pattern with key list `(0,0) :: rest` at a bound configuration:
whatever is emitted carries the box `boxMax`. -/
theorem emit_bound_sound (h : MatHost) (r c : Nat) (R C : Int) (rest : List MKey)
    (h0 : (0, 0) ∉ rest) (hnn : NN rest) (hR : 0 ≤ R) (hC : 0 ≤ C) (mm : MatPos)
    (hex : ∃ m₁ ∈ bindAll matPosMap matOpts h (.bound r c 0 0 R C)
        (((0, 0) :: rest).filter fun k => (matPosMap.get (.bound r c 0 0 R C) k).isNone) false,
        matPosMap.retain m₁ ((0, 0) :: rest) = some mm) :
    mm = .bound r c 0 0 (boxMax ((0, 0) :: rest)).1 (boxMax ((0, 0) :: rest)).2 := by
  obtain ⟨m₁, hm₁, hr⟩ := hex
  have hnn' : NN ((0, 0) :: rest) := NN_cons_zero hnn
  rw [filter_missing r c R C _ hnn',
    mat_bindAll_bound h r c _ R C hR hC
      (fun k hk => hnn' k (List.mem_filter.mp hk).1)] at hm₁
  split at hm₁
  · rw [List.mem_singleton] at hm₁
    subst hm₁
    rw [retain_after_bind r c R C rest hR hC h0 hnn _ ?_] at hr
    · exact (Option.some.inj hr).symm
    · intro k hk
      by_cases hb : k.1 ≤ R ∧ k.2 ≤ C
      · exact .inl hb
      · right
        rw [List.mem_filter]
        exact ⟨List.mem_cons_of_mem _ hk, by rw [(matBoxIn_false_iff R C k).mpr hb]; rfl⟩
  · cases hm₁

/-- … and when every key is bindable the match is emitted. -/
theorem emit_bound_complete (h : MatHost) (r c : Nat) (R C : Int) (rest : List MKey)
    (h0 : (0, 0) ∉ rest) (hnn : NN rest) (hR : 0 ≤ R) (hC : 0 ≤ C)
    (hb : ∀ k ∈ (0, 0) :: rest, matCellAt h r c k = true) :
    ∃ m₁ ∈ bindAll matPosMap matOpts h (.bound r c 0 0 R C)
        (((0, 0) :: rest).filter fun k => (matPosMap.get (.bound r c 0 0 R C) k).isNone) false,
        matPosMap.retain m₁ ((0, 0) :: rest) =
          some (.bound r c 0 0 (boxMax ((0, 0) :: rest)).1 (boxMax ((0, 0) :: rest)).2) := by
  have hnn' : NN ((0, 0) :: rest) := NN_cons_zero hnn
  rw [filter_missing r c R C _ hnn',
    mat_bindAll_bound h r c _ R C hR hC
      (fun k hk => hnn' k (List.mem_filter.mp hk).1),
    if_pos (matCond_of_cells h r c _ R C fun k hk => hb k (List.mem_filter.mp hk).1)]
  refine ⟨_, List.mem_singleton.mpr rfl, ?_⟩
  apply retain_after_bind r c R C rest hR hC h0 hnn
  intro k hk
  by_cases hb : k.1 ≤ R ∧ k.2 ≤ C
  · exact .inl hb
  · right
    rw [List.mem_filter]
    exact ⟨List.mem_cons_of_mem _ hk, by rw [(matBoxIn_false_iff R C k).mpr hb]; rfl⟩

theorem filter_unbound (ks : List MKey) :
    (ks.filter fun k => (matPosMap.get .unbound k).isNone) = ks :=
  List.filter_eq_self.mpr fun _ _ => rfl

theorem filter_zero_box (v : MVal) (rest : List MKey) (h0 : (0, 0) ∉ rest) (hnn : NN rest) :
    (((0, 0) :: rest).filter fun k => (matPosMap.get (.bound v.1 v.2 0 0 0 0) k).isNone) = rest := by
  rw [List.filter_cons]
  have : (matPosMap.get (.bound v.1 v.2 0 0 0 0) (0, 0)).isNone = false := by
    show (MatPos.get (.bound v.1 v.2 0 0 0 0) (0, 0)).isNone = false
    rw [get_bound_zero _ _ _ _ (Int.le_refl _) (Int.le_refl _)]; rfl
  rw [this]
  simp only [Bool.false_eq_true, if_false]
  apply List.filter_eq_self.mpr
  intro k hk
  show (MatPos.get (.bound v.1 v.2 0 0 0 0) k).isNone = true
  rw [get_isNone_iff _ _ _ _ k (hnn k hk)]
  intro hb
  exact h0 (eq_zero_of_in_zero_box k (hnn k hk) hb ▸ hk)

/-- Emission at the unbound configuration: whatever is emitted is anchored at a host cell and
carries the box `boxMax`. -/
theorem emit_unbound_sound (h : MatHost) (rest : List MKey) (h0 : (0, 0) ∉ rest) (hnn : NN rest)
    (mm : MatPos)
    (hex : ∃ m₁ ∈ bindAll matPosMap matOpts h .unbound
        (((0, 0) :: rest).filter fun k => (matPosMap.get .unbound k).isNone) false,
        matPosMap.retain m₁ ((0, 0) :: rest) = some mm) :
    ∃ v ∈ matAllCells h,
      mm = .bound v.1 v.2 0 0 (boxMax ((0, 0) :: rest)).1 (boxMax ((0, 0) :: rest)).2 := by
  obtain ⟨m₁, hm₁, hr⟩ := hex
  rw [filter_unbound, c13_cons, extend_unbound_zero h false (.inl rfl)] at hm₁
  obtain ⟨m₀, hm₀, hm₁⟩ := List.mem_flatMap.mp hm₁
  obtain ⟨v, hv, rfl⟩ := List.mem_map.mp hm₀
  refine ⟨v, hv, ?_⟩
  apply emit_bound_sound h v.1 v.2 0 0 rest h0 hnn (Int.le_refl _) (Int.le_refl _) mm
  exact ⟨m₁, by rw [filter_zero_box v rest h0 hnn]; exact hm₁, hr⟩

theorem emit_unbound_complete (h : MatHost) (rest : List MKey) (h0 : (0, 0) ∉ rest)
    (hnn : NN rest) (v : MVal) (hv : v ∈ matAllCells h)
    (hb : ∀ k ∈ (0, 0) :: rest, matCellAt h v.1 v.2 k = true) :
    ∃ m₁ ∈ bindAll matPosMap matOpts h .unbound
        (((0, 0) :: rest).filter fun k => (matPosMap.get .unbound k).isNone) false,
        matPosMap.retain m₁ ((0, 0) :: rest) =
          some (.bound v.1 v.2 0 0 (boxMax ((0, 0) :: rest)).1 (boxMax ((0, 0) :: rest)).2) := by
  obtain ⟨m₁, hm₁, hr⟩ :=
    emit_bound_complete h v.1 v.2 0 0 rest h0 hnn (Int.le_refl _) (Int.le_refl _) hb
  rw [filter_zero_box v rest h0 hnn] at hm₁
  refine ⟨m₁, ?_, hr⟩
  rw [filter_unbound, c13_cons, extend_unbound_zero h false (.inl rfl)]
  exact List.mem_flatMap.mpr ⟨.bound v.1 v.2 0 0 0 0, List.mem_map.mpr ⟨v, hv, rfl⟩, hm₁⟩

/-! ### evaluation of a constraint is `matSigma` -/

/-- A constraint that is true under `matSigma` only mentions existing cells. -/
theorem sigma_cells (h : MatHost) (r c : Nat) (k : MatCons) (hs : matSigma h r c k = true) :
    ∀ key ∈ k.args, matCellAt h r c key = true := by
  obtain ⟨pred, args⟩ := k
  unfold matSigma at hs
  simp only [beq_iff_eq] at hs
  cases pred with
  | constVal v =>
    match args, hs with
    | [k1], hs =>
      simp only [List.map_cons, List.map_nil, matCheck, Option.some.injEq, beq_iff_eq] at hs
      intro key hkey
      rw [List.mem_singleton] at hkey
      subst hkey
      simp [matCellAt, hs]
    | [], hs => simp [matCheck] at hs
    | _ :: _ :: _, hs => simp [matCheck] at hs
  | bindingEq =>
    match args, hs with
    | [k1, k2], hs =>
      simp only [List.map_cons, List.map_nil, matCheck, Option.some.injEq, Bool.and_eq_true,
        beq_iff_eq] at hs
      intro key hkey
      simp only [List.mem_cons, List.not_mem_nil, or_false] at hkey
      rcases hkey with rfl | rfl
      · exact hs.1
      · unfold matCellAt
        rw [← hs.2]; exact hs.1
    | [], hs => simp [matCheck] at hs
    | [_], hs => simp [matCheck] at hs
    | _ :: _ :: _ :: _, hs => simp [matCheck] at hs

/-- Fact 2: under a binding `.bound r c 0 0 R C` whose box contains every bindable key of the
arity-correct constraint `k` (all keys non-negative), the traversal's evaluation of `k` is the
truth value `matSigma h r c k`. A key inside the box whose cell does not exist makes `matCheck`
false; a key outside the box is unbound (evaluation `false`) and not bindable, so `matCheck`
under `matSigma` is false as well. -/
theorem sat_eq_sigma (h : MatHost) (r c : Nat) (R C : Int) (k : MatCons) (hnn : NN k.args)
    (hcov : ∀ key ∈ k.args, matCellAt h r c key = true → key.1 ≤ R ∧ key.2 ≤ C)
    (har : k.args.length = k.pred.arity) :
    satOrFalse MatPos.get matCheck k h (.bound r c 0 0 R C) = some (matSigma h r c k) := by
  obtain ⟨pred, args⟩ := k
  cases pred with
  | constVal v =>
    match args, har with
    | [k1], _ =>
      have hn1 := hnn k1 List.mem_cons_self
      simp only [satOrFalse, isSatisfied, isSatisfiedLog, resolveArgs, get_bound r c R C k1 hn1,
        matSigma, List.map_cons, List.map_nil, matCheck]
      by_cases hb : k1.1 ≤ R ∧ k1.2 ≤ C
      · simp [hb]
      · have hcell : matCellAt h r c k1 = false := by
          cases hc : matCellAt h r c k1 with
          | false => rfl
          | true => exact absurd (hcov k1 List.mem_cons_self hc) hb
        unfold matCellAt at hcell
        have hnone : matCell h (r + k1.1.toNat) (c + k1.2.toNat) = none := by
          cases hx : matCell h (r + k1.1.toNat) (c + k1.2.toNat) with
          | none => rfl
          | some x => rw [hx] at hcell; cases hcell
        simp [hb, hnone]
  | bindingEq =>
    match args, har with
    | [k1, k2], _ =>
      have hn1 := hnn k1 List.mem_cons_self
      have hn2 := hnn k2 (by simp)
      have hcellnone : ∀ key, key ∈ [k1, k2] → ¬ (key.1 ≤ R ∧ key.2 ≤ C) →
          matCell h (r + key.1.toNat) (c + key.2.toNat) = none := by
        intro key hkey hb
        have hcell : matCellAt h r c key = false := by
          cases hc : matCellAt h r c key with
          | false => rfl
          | true => exact absurd (hcov key hkey hc) hb
        unfold matCellAt at hcell
        cases hx : matCell h (r + key.1.toNat) (c + key.2.toNat) with
        | none => rfl
        | some x => rw [hx] at hcell; cases hcell
      simp only [satOrFalse, isSatisfied, isSatisfiedLog, resolveArgs, get_bound r c R C k1 hn1,
        get_bound r c R C k2 hn2, matSigma, List.map_cons, List.map_nil, matCheck]
      by_cases hb1 : k1.1 ≤ R ∧ k1.2 ≤ C
      · by_cases hb2 : k2.1 ≤ R ∧ k2.2 ≤ C
        · simp [hb1, hb2]
        · have h2 := hcellnone k2 (by simp) hb2
          simp only [hb1, hb2, and_self, if_true, if_false, h2]
          cases matCell h (r + k1.1.toNat) (c + k1.2.toNat) <;> simp
      · have h1 := hcellnone k1 (by simp) hb1
        simp [hb1, h1]

end AnchM
end Pm
