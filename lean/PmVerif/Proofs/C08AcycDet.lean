/-
Proofs/C08AcycDet.lean — acyclicity is preserved by `make_det` (guarded `makeDet` and lenient
`makeDetL` = the Rust code).

One round of `makeDetLoop` (structures `RoundPre` / `RoundSpec` of `Proofs/BuildDet.lean`)
processes a constraint transition `t : s → X` of the state `s` with fallback transition
`tε : s → F`: `split_target(t)` makes `t` the only transition into its target `tgt` (`tgt = X`, or
a fresh copy of `X` with copies of the out-edges of `X`), then `tgt` gets copies of the out-edges
`F → d` of `F`. Rank: `rank' tgt = rank s + 1` — the only in-edge of `tgt` comes from `s`, and
every out-edge of `tgt` leads to a successor of `X` or of `F`, of rank `≥ rank s + 2`.
Everything lives in `namespace Pm.C08A`.
-/
import PmVerif.Proofs.C08AcycCore
import PmVerif.Proofs.C08Total4
namespace Pm
namespace C08A
open Automaton
variable {K P : Type} [DecidableEq K] [DecidableEq P]
set_option linter.unusedSectionVars false

/-- One round of `makeDetLoop`. -/
theorem Mono.round {rank : Nat → Nat} {b b' : Automaton K P} {s F tε t X tgt : Nat}
    {c : Constraint K P} {fw : AState K} (m : Mono rank b) (pre : RoundPre b s F tε t X c fw)
    (rs : RoundSpec b b' s F t X tgt c) : Mono (upd rank tgt (rank s + 1)) b' := by
  have hsX : rank s < rank X := m t _ pre.edge_t
  have hsF : rank s < rank F := m tε _ pre.edge_ε
  intro x e he
  by_cases hxt : x = t
  · -- the processed transition `s → tgt`
    subst hxt
    rw [rs.edge_t] at he
    cases he
    show upd rank tgt (rank s + 1) s < upd rank tgt (rank s + 1) tgt
    rw [upd_self, upd_ne rank _ (Ne.symm rs.nes)]
    exact Nat.lt_succ_self _
  · have hdst : e.dst ≠ tgt := fun hd => hxt (rs.only x e he hd)
    rw [upd_ne rank _ hdst]
    rcases rs.new x e he with h1 | h1 | ⟨h1, _, x0, h2 | h2⟩
    · exact absurd h1 hxt
    · -- an old edge
      have hlt := m x e h1
      by_cases hsrc : e.src = tgt
      · rw [hsrc, upd_self]
        rcases rs.cases with hX | hdead
        · rw [hsrc, hX] at hlt
          omega
        · exact absurd (hsrc ▸ pre.inv.ok.src_live h1) hdead
      · rw [upd_ne rank _ hsrc]
        exact hlt
    · -- a copy of an out-edge of `X`
      have := m x0 _ h2
      simp only at this
      rw [h1, upd_self]
      omega
    · -- a copy of an out-edge of `F`
      have := m x0 _ h2
      simp only at this
      rw [h1, upd_self]
      omega

theorem acyclic_round {b b' : Automaton K P} {s F tε t X tgt : Nat} {c : Constraint K P}
    {fw : AState K} (pre : RoundPre b s F tε t X c fw) (rs : RoundSpec b b' s F t X tgt c)
    (h : Acyclic b) : Acyclic b' := by
  obtain ⟨rank, m⟩ := h
  exact ⟨_, m.round pre rs⟩

/-- **`make_det(s)` as the Rust code runs it preserves acyclicity** (at a live state with at most
one epsilon transition, which is what `make_constraints_unique` leaves: it then cannot fail). -/
theorem acyclic_makeDetL {a a' : Automaton K P} {s : Nat} (inv : Inv a) (hs : a.Live s)
    (hle : ∀ w, a.g.weight? s = some w → w.eorder.length ≤ 1) (H : Acyclic a)
    (h : a.makeDetL s = .ok a') : Inv a' ∧ Acyclic a' := by
  obtain ⟨a'', h', inv', H'⟩ := C08.makeDetL_total (Φ := fun b => Acyclic b) (s := s)
    (fun r h => acyclic_reflag r h) (fun pre rs h => acyclic_round pre rs h) inv hs hle H
  rw [h'] at h
  cases h
  exact ⟨inv', H'⟩

/-- **The guarded `make_det(s)` preserves acyclicity.** -/
theorem acyclic_makeDet {a a' : Automaton K P} {s : Nat} (inv : Inv a) (hs : a.Live s)
    (hle : ∀ w, a.g.weight? s = some w → w.eorder.length ≤ 1) (H : Acyclic a)
    (h : a.makeDet s = .ok a') : Inv a' ∧ Acyclic a' := by
  rcases C08.makeDet_total (Φ := fun b => Acyclic b) (s := s)
    (fun r h => acyclic_reflag r h) (fun pre rs h => acyclic_round pre rs h) inv hs hle H with
    ⟨a'', h', inv', H'⟩ | h'
  · rw [h'] at h
    cases h
    exact ⟨inv', H'⟩
  · rw [h'] at h
    cases h

end C08A
end Pm
