/-
Proofs/StrProgDet.lean — the step-level invariant `SP E Q` (Proofs/StrProgDefs.lean) is preserved
by `make_det(s)` (Model/Builder.lean `makeDet`).  The proof re-runs the case analysis of
`makeDet_spec` and the induction of `makeDetLoop_inv` (Proofs/BuildDet.lean), carrying `SP E Q b`
next to the loop invariant `LoopInv`.
-/
import PmVerif.Proofs.StrProgDefs
import PmVerif.Proofs.BuildDet
namespace Pm
namespace StrProg
open Automaton
variable {K P : Type}

/-- Setting the flag of `s` changes neither the edges, nor the accepted ids, nor the root. -/
theorem sp_reflag {E : Nat → Prop} {Q : Constraint K P → Prop} {a a0 : Automaton K P} {s : Nat}
    {w : AState K} (r : Reflag a a0 s w) (sp : SP E Q a) : SP E Q a0 := by
  refine ⟨fun t e c he hc => ?_, fun x pid hi hE => ?_, fun t e he hn => ?_⟩
  · rw [r.edge] at he
    exact sp.efrom t e c he hc
  · rw [r.root]
    exact sp.emp x pid ((r.ids_iff x pid).1 hi) hE
  · rw [r.edge] at he
    obtain ⟨t', e', he', hsrc, hsome⟩ := sp.noEps t e he hn
    exact ⟨t', e', by rw [r.edge]; exact he', hsrc, hsome⟩

/-- One round of `makeDetLoop` preserves `SP`. -/
theorem sp_round {E : Nat → Prop} {Q : Constraint K P → Prop} {b b' : Automaton K P}
    {s F tε t X tgt : Nat} {c : Constraint K P} {fw : AState K}
    (pre : RoundPre b s F tε t X c fw) (rs : RoundSpec b b' s F t X tgt c) (rsb : RootSrc b)
    (sp : SP E Q b) : SP E Q b' := by
  have hXroot : X ≠ b.root := rsb.2 t _ pre.edge_t
  have hFroot : F ≠ b.root := rsb.2 tε _ pre.edge_ε
  refine ⟨fun x e c' he hc => ?_, fun y pid hi hE => ?_, fun x e he hn => ?_⟩
  · rcases rs.new x e he with h1 | h1 | ⟨_, _, x0, h1 | h1⟩
    · subst h1
      rw [rs.edge_t] at he; cases he
      cases hc
      exact sp.efrom x _ c pre.edge_t rfl
    · exact sp.efrom x e c' h1 hc
    · exact sp.efrom x0 ⟨X, e.dst, e.w⟩ c' h1 hc
    · exact sp.efrom x0 ⟨F, e.dst, e.w⟩ c' h1 hc
  · rw [rs.root]
    by_cases hy : y = tgt
    · subst hy
      rcases (rs.ids_tgt pid).1 hi with h | h
      · exact absurd (sp.emp X pid h hE) hXroot
      · exact absurd (sp.emp F pid h hE) hFroot
    · obtain ⟨w, hw, hp⟩ := hi
      exact sp.emp y pid ⟨w, (rs.wt_ne y hy).symm.trans hw, hp⟩ hE
  · rcases rs.new x e he with h1 | h1 | ⟨hsrc, _, x0, h1 | h1⟩
    · subst h1
      rw [rs.edge_t] at he; cases he
      cases hn
    · obtain ⟨x', e', he', hs', hsome⟩ := sp.noEps x e h1 hn
      by_cases hx : x' = t
      · subst hx
        rw [pre.edge_t] at he'; cases he'
        exact ⟨x', _, rs.edge_t, hs', rfl⟩
      · exact ⟨x', e', rs.old x' e' hx he', hs', hsome⟩
    · obtain ⟨x', e', he', hs', hsome⟩ := sp.noEps x0 ⟨X, e.dst, e.w⟩ h1 hn
      obtain ⟨x2, hx2⟩ := rs.covX x' e' he' hs'
      exact ⟨x2, _, hx2, hsrc.symm, hsome⟩
    · obtain ⟨x', e', he', hs', hsome⟩ := sp.noEps x0 ⟨F, e.dst, e.w⟩ h1 hn
      obtain ⟨x2, hx2⟩ := rs.covF x' e' he' hs'
      exact ⟨x2, _, hx2, hsrc.symm, hsome⟩

/-- `makeDetLoop` preserves `SP` (same induction as `makeDetLoop_inv`). -/
theorem makeDetLoop_sp {E : Nat → Prop} {Q : Constraint K P → Prop}
    {σ : Constraint K P → Bool} {a0 : Automaton K P} {s F tε : Nat}
    {ws fw : AState K} : ∀ (rest : List Nat) {b a' : Automaton K P},
    LoopInv σ a0 b s F tε ws fw rest → SP E Q b → rest.Nodup →
    b.makeDetLoop (fw.corder ++ fw.eorder) fw.matches_ rest = .ok a' →
    SP E Q a'
  | [], b, a', _, sp, _, h => by
    unfold makeDetLoop at h; cases h; exact sp
  | t :: rest, b, a', li, sp, hnd, h => by
    unfold makeDetLoop at h
    split at h
    · cases h
    · rename_i b1 tgt hsp
      split at h
      · cases h
      · rename_i b2 hcp
        split at h
        · cases h
        · rename_i b3 hm
          rw [List.nodup_cons] at hnd
          obtain ⟨X, c, he, _⟩ := li.todo t List.mem_cons_self
          have pre : RoundPre b s F tε t X c fw := ⟨li.inv, he, li.edge_ε, li.wtF⟩
          have su := splitU_of_splitTarget pre hsp
          have rs := roundSpec_of pre su hcp hm
          exact makeDetLoop_sp rest (li.step hnd.1 pre rs) (sp_round pre rs li.rootSrc sp)
            hnd.2 h

/-- `make_det(s)` preserves the step-level invariant `SP E Q`. -/
theorem sp_makeDet {K P : Type} [DecidableEq K] [DecidableEq P] {E : Nat → Prop}
    {Q : Constraint K P → Prop} {σ : Constraint K P → Bool} {a a' : Automaton K P} {s : Nat}
    (inv : Inv a) (rs : RootSrc a) (dok : DetOKE σ a) (sp : SP E Q a)
    (h : a.makeDet s = .ok a') : SP E Q a' := by
  unfold makeDet makeDetWith at h
  split at h
  · cases h
  · rename_i a0 wd hsd
    obtain ⟨w, rfl, r⟩ := setDeterministic_reflag inv hsd
    have sp0 : SP E Q a0 := sp_reflag r sp
    split at h
    · cases h
      exact sp0
    · split at h
      · cases h
      · cases h
        exact sp0
      · rename_i F hfn
        obtain ⟨ws, hws, hr | ⟨tε, eε, hε, heε, hr⟩⟩ := failNextState_ok hfn
        · cases hr.1
        · cases hr
          split at h
          · rename_i failTs cts fw hft hcts hfw
            obtain ⟨fw', hfw', rfl⟩ := allTransitions_ok_iff.1 hft
            obtain ⟨ws', hws', rfl⟩ := corderOf_ok_iff.1 hcts
            rw [state_ok_iff] at hfw
            rw [hfw] at hfw'; cases hfw'
            rw [hws] at hws'; cases hws'
            rw [if_pos rfl] at h
            dsimp only at h
            split at h
            · cases h
            · rename_i hcd
              -- the fallback transition
              have hε' : a0.g.edge? tε = some ⟨s, eε.dst, none⟩ := by
                obtain ⟨e, he, hsrc, hnone⟩ :=
                  r.inv.ok.eorder_edge s ws hws tε (by rw [hε]; exact List.mem_singleton.2 rfl)
                rw [heε] at he; cases he
                rw [heε]
                cases eε with
                | mk src dst wt =>
                  simp only at hsrc
                  subst hsrc
                  cases wt with
                  | none => rfl
                  | some _ => cases hnone
              have li : LoopInv σ a0 a0 s eε.dst tε ws fw ws.corder := by
                refine ⟨r.inv, rfl, hws, hfw, hε', fun t ht => ?_, fun t ht hn => absurd ht hn,
                  r.rootSrc rs, fun _ => Iff.rfl, r.detEx inv dok⟩
                obtain ⟨e, he, hsrc, hsome⟩ := r.inv.ok.corder_edge s ws hws t ht
                obtain ⟨c, hc⟩ := Option.isSome_iff_exists.1 hsome
                refine ⟨e.dst, c, ?_, ?_⟩
                · rw [he]
                  cases e
                  simp only at hsrc hc
                  subst hsrc hc
                  rfl
                · rintro ⟨wx, hwx, hdx⟩
                  apply hcd
                  rw [List.any_eq_true]
                  exact ⟨t, ht, by simp only [he, hwx, hdx]⟩
              have hnd : ws.corder.Nodup := (List.nodup_append.1 (r.inv.ok.nodup s ws hws)).1
              exact makeDetLoop_sp _ li sp0 hnd h
          · cases h
          · cases h
          · cases h

end StrProg
end Pm
