/-
Proofs/C08AcycMerge.lean — acyclicity is preserved by `try_merge_new_nodes` (`doMerge`,
`mergesLogged`, `mergesLoggedT`), for every log.

`mergeLoop first rest` folds each `n ∈ rest` into `first` (structure `Fold` of
`Proofs/BuildMerge.lean`): the in-edges `p → n` are re-routed to `first`, `n` is removed. The c4
guard of `doMerge` (`pathExists x y = false` for all distinct members `x`, `y` of the merge set)
is what keeps the graph acyclic: the Boolean DFS `pathExists` is complete for the path relation
`Reach` (`Automaton.reachable_complete`), so no member reaches another one (`Sep`); folding `n`
into `first` keeps `Sep` for the remaining members — a path of the folded graph is a path of the
old graph, or an old path into `n` followed by an old path out of `first` (`Reach.fold`) — hence
checking PAIRS is enough for merge sets of any size. Rank after one fold: every state reachable
from `first` is lifted by `rank n`; no predecessor of `n` is reachable from `first`.

Remark `twin_no_reach`: in an acyclic graph two states with the same out-edges (what `sameTuple`
checks before the path guard is evaluated) never reach one another, so the path guard of `doMerge`
never fires during a build (`doMerge_path_guard_dead`).
Everything lives in `namespace Pm.C08A`.
-/
import PmVerif.Proofs.C08AcycCore
import PmVerif.Proofs.BuildMerge
import PmVerif.Proofs.C09ReachCore
import PmVerif.Model.BuilderT
namespace Pm
namespace C08A
open Automaton
variable {K P : Type}

/-! ### the path relation over live transitions -/

/-- Reflexive-transitive closure of "there is a live transition `m → d`". -/
inductive Reach (a : Automaton K P) : Nat → Nat → Prop where
  | refl (s : Nat) : Reach a s s
  | step {s m d t : Nat} {e : GEdge (Option (Constraint K P))} :
      Reach a s m → a.g.edge? t = some e → e.src = m → e.dst = d → Reach a s d

theorem Reach.edge {a : Automaton K P} {t : Nat} {e : GEdge (Option (Constraint K P))}
    (he : a.g.edge? t = some e) : Reach a e.src e.dst :=
  .step (.refl _) he rfl rfl

theorem Reach.trans {a : Automaton K P} {x y z : Nat} (h1 : Reach a x y) (h2 : Reach a y z) :
    Reach a x z := by
  induction h2 with
  | refl => exact h1
  | step _ he hs hd ih => exact .step ih he hs hd

/-- A path is trivial or starts with a transition. -/
theorem Reach.head {a : Automaton K P} {x y : Nat} (h : Reach a x y) :
    x = y ∨ ∃ t e, a.g.edge? t = some e ∧ e.src = x ∧ Reach a e.dst y := by
  induction h with
  | refl => exact .inl rfl
  | step _ he hs hd ih =>
    right
    rcases ih with rfl | ⟨t0, e0, he0, hs0, hr0⟩
    · exact ⟨_, _, he, hs, hd ▸ Reach.refl _⟩
    · exact ⟨t0, e0, he0, hs0, .step hr0 he hs hd⟩

theorem Reach.rank_le {a : Automaton K P} {rank : Nat → Nat} (m : Mono rank a) {x y : Nat}
    (h : Reach a x y) : rank x ≤ rank y := by
  induction h with
  | refl => exact Nat.le_refl _
  | step _ he hs hd ih =>
    have := m _ _ he
    rw [hs, hd] at this
    omega

/-- Completeness of the Boolean DFS of the c4 guard. -/
theorem pathExists_of_reach {a : Automaton K P} (hg : a.g.WF) {x y : Nat} (h : Reach a x y) :
    a.pathExists x y = true := by
  unfold pathExists
  simp only [List.contains_iff_mem]
  refine reachable_complete hg x y fun S hs hcl => ?_
  induction h with
  | refl => exact hs
  | step _ he hsrc hdst ih =>
    exact hcl _ _ ih (mem_succs_iff_outEdges.2 ⟨_, (c09b_mem_outEdges hg).2 ⟨_, he, hsrc, hdst⟩⟩)

/-- No member of `L` reaches another one. -/
def Sep (a : Automaton K P) (L : List Nat) : Prop :=
  ∀ x ∈ L, ∀ y ∈ L, x ≠ y → ¬ Reach a x y

/-! ### one fold -/

/-- Paths of the folded graph, read in the old graph. -/
theorem Reach.fold {a a' : Automaton K P} {first n : Nat} (f : Fold a a' first n) {x y : Nat}
    (h : Reach a' x y) : Reach a x y ∨ (Reach a x n ∧ Reach a first y) := by
  induction h with
  | refl => exact .inl (.refl _)
  | @step m d t e _ he hs hd ih =>
    have hed : HasEdge a' m d e.w := by
      have := HasEdge.of_edge he
      rw [hs, hd] at this
      exact this
    rcases f.sound m d e.w hed with ⟨⟨t0, ht0⟩, _, _⟩ | ⟨rfl, ⟨t0, ht0⟩⟩
    · -- an old edge `m → d`
      rcases ih with h1 | ⟨h1, h2⟩
      · exact .inl (.step h1 ht0 rfl rfl)
      · exact .inr ⟨h1, .step h2 ht0 rfl rfl⟩
    · -- a re-routed edge: `m → n` in the old graph, now `m → first`
      rcases ih with h1 | ⟨h1, _⟩
      · exact .inr ⟨.step h1 ht0 rfl rfl, .refl _⟩
      · exact .inr ⟨h1, .refl _⟩

theorem Sep.fold {a a' : Automaton K P} {first n : Nat} {ns : List Nat} (f : Fold a a' first n)
    (hnd : (first :: n :: ns).Nodup) (sep : Sep a (first :: n :: ns)) :
    Sep a' (first :: ns) := by
  have hsub : ∀ x ∈ first :: ns, x ∈ first :: n :: ns := by
    intro x hx
    rcases List.mem_cons.1 hx with rfl | hx
    · exact List.mem_cons_self
    · exact List.mem_cons_of_mem _ (List.mem_cons_of_mem _ hx)
  have hn : n ∈ first :: n :: ns := List.mem_cons_of_mem _ List.mem_cons_self
  have hxn : ∀ x ∈ first :: ns, x ≠ n := by
    intro x hx hxn
    subst hxn
    rw [List.nodup_cons] at hnd
    rcases List.mem_cons.1 hx with rfl | hx
    · exact hnd.1 List.mem_cons_self
    · exact (List.nodup_cons.1 hnd.2).1 hx
  intro x hx y hy hxy hr
  rcases hr.fold f with h | ⟨h, _⟩
  · exact sep x (hsub x hx) y (hsub y hy) hxy h
  · exact sep x (hsub x hx) n hn (hxn x hx) h

/-- Folding `n` into a state that does not reach it keeps the graph acyclic. -/
theorem acyclic_fold {a a' : Automaton K P} {first n : Nat} (f : Fold a a' first n)
    (hno : ¬ Reach a first n) (H : Acyclic a) : Acyclic a' := by
  classical
  obtain ⟨r, m⟩ := H
  refine ⟨fun x => if Reach a first x then r x + r n else r x, ?_⟩
  intro t e he
  rcases f.sound e.src e.dst e.w (HasEdge.of_edge he) with ⟨⟨t0, ht0⟩, _, _⟩ | ⟨hd, ⟨t0, ht0⟩⟩
  · have hlt : r e.src < r e.dst := m t0 _ ht0
    by_cases hs : Reach a first e.src
    · have hd : Reach a first e.dst := .step hs ht0 rfl rfl
      simp only [if_pos hs, if_pos hd]
      omega
    · simp only [if_neg hs]
      split <;> omega
  · have hlt : r e.src < r n := m t0 _ ht0
    have hs : ¬ Reach a first e.src := fun hs => hno (.step hs ht0 rfl rfl)
    have hf : Reach a first e.dst := hd ▸ Reach.refl _
    simp only [if_neg hs, if_pos hf]
    omega

/-! ### `mergeLoop`, `doMerge` -/

theorem acyclic_mergeLoop {first : Nat} :
    ∀ (rest : List Nat) {a a' : Automaton K P}, Inv a → (first :: rest).Nodup →
    (∀ m ∈ rest, Twin a first m) → Sep a (first :: rest) → Acyclic a →
    a.mergeLoop first rest = .ok a' → Inv a' ∧ Acyclic a'
  | [], a, a', inv, _, _, _, H, h => by
    unfold mergeLoop at h; cases h; exact ⟨inv, H⟩
  | n :: ns, a, a', inv, hnd, htw, sep, H, h => by
    unfold mergeLoop at h
    split at h
    · cases h
    · rename_i a1 hmv
      have tw : Twin a first n := htw n List.mem_cons_self
      have hnd0 := hnd
      rw [List.nodup_cons] at hnd
      obtain ⟨hfn, hnd'⟩ := hnd
      rw [List.nodup_cons] at hnd'
      have hne : first ≠ n := fun hx => hfn (hx ▸ List.mem_cons_self)
      have f := fold_of_merge inv hne (tw.no_edge inv) hmv
      have hno : ¬ Reach a first n :=
        sep first List.mem_cons_self n (List.mem_cons_of_mem _ List.mem_cons_self) hne
      refine acyclic_mergeLoop ns f.inv ?_ ?_ (sep.fold f hnd0) (acyclic_fold f hno H) h
      · exact List.nodup_cons.2 ⟨fun hm => hfn (List.mem_cons_of_mem _ hm), hnd'.2⟩
      · intro m hm
        have hmn : m ≠ n := fun hx => hnd'.1 (hx ▸ hm)
        exact f.twin inv hne hmn tw (htw m (List.mem_cons_of_mem _ hm))

variable [DecidableEq K] [DecidableEq P]

/-- **One `Merge` event preserves the structural invariant and acyclicity.** -/
theorem acyclic_doMerge {a a' : Automaton K P} {node : Nat} {nodes : List Nat} (inv : Inv a)
    (H : Acyclic a) (h : a.doMerge node nodes = .ok a') : Inv a' ∧ Acyclic a' := by
  unfold doMerge at h
  split at h
  · cases h; exact ⟨inv, H⟩
  · cases h; exact ⟨inv, H⟩
  · rename_i first rest _
    split at h
    · cases h
    · split at h
      · cases h
      · rename_i hnd
        split at h
        · cases h
        · rename_i same hsame
          split at h
          · cases h
          · rename_i hall
            split at h
            · cases h
            · rename_i hpath
              split at h
              · cases h
              · have hnd' : (first :: rest).Nodup := by
                  cases hd : decide (first :: rest).Nodup
                  · rw [hd] at hnd; exact absurd rfl hnd
                  · exact of_decide_eq_true hd
                have hall' : ∀ y ∈ same, y = true := by
                  cases hd : same.all id
                  · rw [hd] at hall; exact absurd rfl hall
                  · intro y hy
                    exact List.all_eq_true.1 hd y hy
                have htw : ∀ n ∈ first :: rest, Twin a node n := by
                  intro n hn
                  obtain ⟨y, hy, hf⟩ := mapR_mem_in hsame n hn
                  rw [hall' y hy] at hf
                  exact sameTuple_twin inv hf
                have hfirst := htw first List.mem_cons_self
                have sep : Sep a (first :: rest) := by
                  intro x hx y hy hxy hr
                  apply hpath
                  rw [List.any_eq_true]
                  refine ⟨x, hx, ?_⟩
                  rw [List.any_eq_true]
                  refine ⟨y, hy, ?_⟩
                  simp only [decide_eq_true_eq]
                  exact ⟨hxy, pathExists_of_reach inv.wf hr⟩
                refine acyclic_mergeLoop rest inv hnd' ?_ sep H h
                intro m hm
                exact hfirst.symm.trans (htw m (List.mem_cons_of_mem _ hm))

theorem acyclic_mergesLogged : ∀ (evs : List Ev) {a a' : Automaton K P} {evs' : List Ev},
    Inv a → Acyclic a → a.mergesLogged evs = .ok (a', evs') → Inv a' ∧ Acyclic a' := by
  intro evs
  induction evs with
  | nil =>
    intro a a' evs' inv H h
    unfold mergesLogged at h
    cases h
    exact ⟨inv, H⟩
  | cons ev evs0 ih =>
    intro a a' evs' inv H h
    cases ev with
    | merge n nodes =>
      unfold mergesLogged at h
      split at h
      · cases h
      · rename_i a1 hdm
        obtain ⟨inv1, H1⟩ := acyclic_doMerge inv H hdm
        exact ih inv1 H1 h
    | _ =>
      unfold mergesLogged at h
      cases h
      exact ⟨inv, H⟩

theorem acyclic_mergesLoggedT : ∀ (evs : List Ev) {a a' : Automaton K P} {evs' : List Ev},
    Inv a → Acyclic a → a.mergesLoggedT evs = .ok (a', evs') → Inv a' ∧ Acyclic a' := by
  intro evs
  induction evs with
  | nil =>
    intro a a' evs' inv H h
    unfold mergesLoggedT at h
    cases h
    exact ⟨inv, H⟩
  | cons ev evs0 ih =>
    intro a a' evs' inv H h
    cases ev with
    | merge n nodes =>
      unfold mergesLoggedT at h
      split at h
      · cases h
      · split at h
        · cases h
        · rename_i a1 hdm
          obtain ⟨inv1, H1⟩ := acyclic_doMerge inv H hdm
          exact ih inv1 H1 h
    | _ =>
      unfold mergesLoggedT at h
      cases h
      exact ⟨inv, H⟩

/-! ### remark: the path guard is implied by the tuple guard -/

omit [DecidableEq K] [DecidableEq P] in
/-- In an acyclic graph, two different states with the same out-edges do not reach one another. -/
theorem twin_no_reach {a : Automaton K P} (H : Acyclic a) {x y : Nat} (tw : Twin a x y)
    (hxy : x ≠ y) : ¬ Reach a x y := by
  intro hr
  obtain ⟨r, m⟩ := H
  rcases hr.head with h | ⟨t, e, he, hs, hr'⟩
  · exact hxy h
  · -- `x → d →* y` and, as `y` is a twin of `x`, `y → d`
    obtain ⟨t', ht'⟩ := (tw.out e.dst e.w).1 (hs ▸ HasEdge.of_edge he)
    have h1 := hr'.rank_le m
    have h2 : r y < r e.dst := m t' _ ht'
    omega

omit [DecidableEq K] [DecidableEq P] in
/-- Soundness of the Boolean DFS of the c4 guard. -/
theorem reach_of_pathExists {a : Automaton K P} (hg : a.g.WF) {x y : Nat}
    (h : a.pathExists x y = true) : Reach a x y := by
  unfold pathExists at h
  simp only [List.contains_iff_mem] at h
  refine reachable_sound a (Reach a x) (fun n d hn hd => ?_) _ [x] [] ?_ (by simp) y h
  · obtain ⟨t, ht⟩ := mem_succs_iff_outEdges.1 hd
    obtain ⟨e, he, hs, hdst⟩ := (c09b_mem_outEdges hg).1 ht
    exact .step hn he hs hdst
  · intro n hn
    rw [List.mem_singleton.1 hn]
    exact .refl _

/-- **The c4 path guard never fires during a build**: on an acyclic automaton satisfying the
structural invariant, whenever a merge set passes the tuple check of `doMerge` (all members have
the state tuple of `node`), the path check finds nothing — members of the set have the same
out-edges, so a path between two of them would close a cycle. -/
theorem doMerge_path_guard_dead {a : Automaton K P} {node : Nat} {nodes : List Nat}
    {same : List Bool} (inv : Inv a) (H : Acyclic a)
    (hsame : mapR (fun n => a.sameTuple node n) nodes = .ok same) (hall : same.all id = true) :
    nodes.any (fun x => nodes.any fun y => x ≠ y ∧ a.pathExists x y) = false := by
  have htw : ∀ n ∈ nodes, Twin a node n := by
    intro n hn
    obtain ⟨y, hy, hf⟩ := mapR_mem_in hsame n hn
    have : y = true := List.all_eq_true.1 hall y hy
    rw [this] at hf
    exact sameTuple_twin inv hf
  cases hp : nodes.any (fun x => nodes.any fun y => x ≠ y ∧ a.pathExists x y) with
  | false => rfl
  | true =>
    exfalso
    rw [List.any_eq_true] at hp
    obtain ⟨x, hx, hp⟩ := hp
    rw [List.any_eq_true] at hp
    obtain ⟨y, hy, hp⟩ := hp
    simp only [decide_eq_true_eq] at hp
    exact twin_no_reach H ((htw x hx).symm.trans (htw y hy)) hp.1
      (reach_of_pathExists inv.wf hp.2)

end C08A
end Pm
