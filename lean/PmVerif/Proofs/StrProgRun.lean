/-
Proofs/StrProgRun.lean — the anchored traversal theorem for strings (T-RUN-ANCH-STR,
`Proofs/AnchReach.lean` / `Proofs/AnchRun.lean`) re-derived from the hypothesis it actually uses:
every live state satisfies `Pm.Anch.StateOK` (`AllOK`), instead of the decidable per-program check
`strProgramOK` (clauses 1 and 3 of the check are never used). The proofs are those of
`Anch.reach_inv`, `Anch.twin`, `Anch.complete_aux`, `Anch.trun_str_main` with
`stateOK_of_programOK hok hw` replaced by the hypothesis. Everything lives in `namespace Pm.StrProg`.
-/
import PmVerif.Proofs.AnchRun
namespace Pm
namespace StrProg
open Automaton Anch

/-- Every live state satisfies the per-state conditions of the traversal theorem. -/
def AllOK (A : Automaton Nat CharPred) (ps : List (List CharVar)) : Prop :=
  ∀ s w, A.g.weight? s = some w → StateOK A ps s w

theorem allOK_of_programOK {A : Automaton Nat CharPred} {ps : List (List CharVar)}
    (hok : strProgramOK A ps = true) : AllOK A ps := fun _ _ hw => stateOK_of_programOK hok hw

variable {A : Automaton Nat CharPred} {ps : List (List CharVar)} {h : List Nat}

theorem reach_inv (hok : AllOK A ps) {s : Nat} {m : StrPos}
    (hr : Reach strDomain A h s m) : Anch.Inv A h s m := by
  induction hr with
  | root => exact .inl ⟨rfl, .inl rfl⟩
  | @con s m w cands m' t e c _ hw hc hm' ht he hcw hsat ih =>
    have hst := hok _ _ hw
    have hne : w.scope ≠ [] := hst.scope_ne (.inl (List.ne_nil_of_mem ht))
    rcases cands_cases hst hne ih hc hm' with ⟨rfl, hB⟩ | ⟨a, ha, rfl, hpath⟩
    · exact .inl ⟨rfl, .inr hB⟩
    · obtain ⟨h1, h2⟩ := ext_scope_bounds (h := h) a w.scope ha
      refine .inr ⟨a, _, rfl, ha, h1, h2, fun pid ks hacc => hpath pid ks ?_⟩
      rw [sat_cand hst ht he hcw a] at hsat
      exact AccDetK.con hw ht he hcw (Option.some.inj hsat) hacc
  | @eps s m w cands m' t e _ hw hc hm' ht he hd ih =>
    have hst := hok _ _ hw
    have hne : w.scope ≠ [] := hst.scope_ne (.inr (List.ne_nil_of_mem ht))
    rcases cands_cases hst hne ih hc hm' with ⟨rfl, hB⟩ | ⟨a, ha, rfl, hpath⟩
    · exact .inl ⟨rfl, .inr hB⟩
    · obtain ⟨h1, h2⟩ := ext_scope_bounds (h := h) a w.scope ha
      refine .inr ⟨a, _, rfl, ha, h1, h2, fun pid ks hacc => hpath pid ks ?_⟩
      exact AccDetK.eps hw ht he ((eps_cond_iff hst a).mp hd) hacc

/-! ### completeness along an acceptance path -/

section Complete
variable {fuel : Nat} {ms : List (Match StrPos)} {seen : List (Nat × List (Option Nat))}

/-- A good configuration whose key is in the visit log has an expanded twin that is good for
the same anchor. -/
theorem twin {exp : List (Nat × StrPos)} {a s : Nat} {m : StrPos} {w : AState Nat}
    (hok : AllOK A ps)
    (hF : Forall2 (fun sm key => ∃ w, A.g.weight? sm.1 = some w ∧
      key = (sm.1, visitKey strDomain w sm.2)) exp seen)
    (hreach : ∀ sm ∈ exp, Reach strDomain A h sm.1 sm.2)
    (hw : A.g.weight? s = some w) (hg : Anch.Good A h a s m)
    (h0 : 0 ∈ w.scope ++ dedup (w.matches_.flatMap (·.2)))
    (hkey : (s, visitKey strDomain w m) ∈ seen) :
    ∃ m₂, (s, m₂) ∈ exp ∧ Anch.Good A h a s m₂ := by
  obtain ⟨⟨s', m₂⟩, hmem, w', hw', heq⟩ := hF.mem_right hkey
  simp only [Prod.mk.injEq] at heq
  obtain ⟨rfl, hk⟩ := heq
  rw [hw] at hw'
  cases hw'
  exact ⟨m₂, hmem, good_of_key hg (reach_inv hok (hreach _ hmem)) h0 hk.symm⟩

theorem complete_aux (hok : AllOK A ps)
    (hr : run strDomain A h fuel = .ok (ms, seen)) (a : Nat) (ha : a < strByteLen h)
    (pid : Nat) (ks : List Nat) (hne : ks ≠ []) (hb : ∀ k ∈ ks, a + k < strByteLen h) (s : Nat)
    (hacc : AccDetK (strSigma h a) A s pid ks) :
    ∀ m, Anch.Good A h a s m → (∀ w, A.g.weight? s = some w → (s, visitKey strDomain w m) ∈ seen) →
      (pid, StrPos.bound a (1 + ks.foldl max 0)) ∈ ms := by
  obtain ⟨_, exp, hF, ⟨ems, hE, rfl⟩, hreach, hclosed⟩ := trun_closed hr
  induction hacc with
  | @here s pid ks w hw hmem =>
    intro m hg hkey
    have hst := hok _ _ hw
    have h0 : 0 ∈ w.scope ++ dedup (w.matches_.flatMap (·.2)) := by
      apply List.mem_append_right
      rw [mem_dedup, List.mem_flatMap]
      refine ⟨(pid, ks), hmem, ?_⟩
      rcases (hst.matches_ pid ks hmem).1 with h | ⟨rest, h, _⟩
      · exact absurd h hne
      · rw [h]; exact List.mem_cons_self
    obtain ⟨m₂, hexp, hg₂⟩ := twin hok hF hreach hw hg h0 (hkey w hw)
    obtain ⟨em, hem, w', hw', he⟩ := hE.mem_left hexp
    rw [hw] at hw'
    cases hw'
    exact List.mem_flatten.mpr ⟨em, hem, good_emit ha hst hg₂ hmem hne hb he⟩
  | @con s pid ks w t e c hw ht he hcw hsig _ ih =>
    intro m hg hkey
    have hst := hok _ _ hw
    have hsne : w.scope ≠ [] := hst.scope_ne (.inl (List.ne_nil_of_mem ht))
    have h0 : 0 ∈ w.scope ++ dedup (w.matches_.flatMap (·.2)) := by
      apply List.mem_append_left
      rcases hst.scope_shape with h | ⟨rest, h, _⟩
      · exact absurd h hsne
      · rw [h]; exact List.mem_cons_self
    obtain ⟨m₂, hexp, hg₂⟩ := twin hok hF hreach hw hg h0 (hkey w hw)
    obtain ⟨nexts, hn, hcl⟩ := hclosed _ hexp
    obtain ⟨cands, hc, hcand⟩ := good_step ha hst hsne hg₂
    have hnext : (e.dst, StrPos.bound a (ext (strByteLen h) a 1 w.scope)) ∈ nexts :=
      (mem_nextLegalStates hn _ _).mpr ⟨w, cands, hw, hc, hcand,
        .inl ⟨t, e, c, ht, he, hcw, by rw [sat_cand hst ht he hcw a, hsig], rfl⟩⟩
    obtain ⟨w', hw', hseen⟩ := hcl _ hnext
    obtain ⟨h1, h2⟩ := ext_scope_bounds (h := h) a w.scope ha
    refine ih hne hb _ (.inr ⟨_, rfl, h1, h2⟩) ?_
    intro w'' hw''
    rw [hw'] at hw''
    cases hw''
    exact hseen
  | @eps s pid ks w t e hw ht he hd _ ih =>
    intro m hg hkey
    have hst := hok _ _ hw
    have hsne : w.scope ≠ [] := hst.scope_ne (.inr (List.ne_nil_of_mem ht))
    have h0 : 0 ∈ w.scope ++ dedup (w.matches_.flatMap (·.2)) := by
      apply List.mem_append_left
      rcases hst.scope_shape with h | ⟨rest, h, _⟩
      · exact absurd h hsne
      · rw [h]; exact List.mem_cons_self
    obtain ⟨m₂, hexp, hg₂⟩ := twin hok hF hreach hw hg h0 (hkey w hw)
    obtain ⟨nexts, hn, hcl⟩ := hclosed _ hexp
    obtain ⟨cands, hc, hcand⟩ := good_step ha hst hsne hg₂
    have hnext : (e.dst, StrPos.bound a (ext (strByteLen h) a 1 w.scope)) ∈ nexts :=
      (mem_nextLegalStates hn _ _).mpr ⟨w, cands, hw, hc, hcand,
        .inr ⟨t, e, ht, he, (eps_cond_iff hst a).mpr hd, rfl⟩⟩
    obtain ⟨w', hw', hseen⟩ := hcl _ hnext
    obtain ⟨h1, h2⟩ := ext_scope_bounds (h := h) a w.scope ha
    refine ih hne hb _ (.inr ⟨_, rfl, h1, h2⟩) ?_
    intro w'' hw''
    rw [hw'] at hw''
    cases hw''
    exact hseen

end Complete

/-! ### the theorem -/

/-- **T-RUN-ANCH-STR.** -/
theorem trun_str_of_stateOK (A : Automaton Nat CharPred) (ps : List (List CharVar)) (h : List Nat)
    (fuel : Nat) (ms : List (Match StrPos)) (seen : List (Nat × List (Option Nat)))
    (hok : AllOK A ps) (hr : run strDomain A h fuel = .ok (ms, seen))
    (i : Nat) (m : StrPos) :
    (i, m) ∈ ms ↔
      (m = .unbound ∧ ∃ w, A.g.weight? A.root = some w ∧ (i, []) ∈ w.matches_) ∨
      (∃ a ks, a < strByteLen h ∧ ks ≠ [] ∧ AccDetK (strSigma h a) A A.root i ks ∧
        (∀ k ∈ ks, a + k < strByteLen h) ∧ m = .bound a (1 + ks.foldl max 0)) := by
  constructor
  · intro hm
    obtain ⟨s, m0, w, keys, hreach, hw, hk, m₁, hm₁, hret⟩ := trun_sound hr i m hm
    have hst := hok _ _ hw
    have hinv := reach_inv hok hreach
    obtain ⟨hshape, hroot, _⟩ := hst.matches_ i keys hk
    rcases hshape with rfl | ⟨rest, rfl, h0⟩
    · left
      have hs : s = A.root := by
        rcases hroot with h | h
        · exact h
        · exact absurd rfl h
      subst hs
      have : m = .unbound := by
        have hret' : strPosMap.retain m₁ [] = some m := hret
        rw [retain_nil] at hret'
        exact (Option.some.inj hret').symm
      exact ⟨this, w, hw, hk⟩
    · right
      rcases hinv with ⟨rfl, hs⟩ | ⟨a, L, rfl, ha, hL1, hL2, hpath⟩
      · obtain ⟨a, ha, hb, hmm⟩ := (emit_unbound h rest h0 m).mp ⟨m₁, hm₁, hret⟩
        have hs' : s = A.root := by
          rcases hs with h | h
          · exact h
          · omega
        subst hs'
        exact ⟨a, _, ha, by simp, AccDetK.here hw hk, hb, hmm⟩
      · obtain ⟨hb, hmm⟩ := (emit_bound h a L rest h0 hL1 hL2 m).mp ⟨m₁, hm₁, hret⟩
        exact ⟨a, _, ha, by simp, hpath _ _ (AccDetK.here hw hk), hb, hmm⟩
  · rintro (⟨rfl, w, hw, hk⟩ | ⟨a, ks, ha, hne, hacc, hb, rfl⟩)
    · obtain ⟨⟨wr, hwr, hrk⟩, exp, hF, ⟨ems, hE, rfl⟩, _, _⟩ := trun_closed hr
      obtain ⟨⟨s', m₂⟩, hmem, w', hw', heq⟩ := hF.mem_right hrk
      simp only [Prod.mk.injEq] at heq
      obtain ⟨rfl, _⟩ := heq
      obtain ⟨em, hem, w'', hw'', he⟩ := hE.mem_left hmem
      rw [hw] at hw''
      cases hw''
      refine List.mem_flatten.mpr ⟨em, hem, (mem_emitMatches he _ _).mpr ⟨[], hk, m₂, ?_, ?_⟩⟩
      · exact List.mem_singleton.mpr rfl
      · exact retain_nil m₂
    · obtain ⟨⟨wr, hwr, hrk⟩, _⟩ := trun_closed hr
      refine complete_aux hok hr a ha i ks hne hb A.root hacc .unbound (.inl ⟨rfl, rfl⟩) ?_
      intro w hw
      rw [hwr] at hw
      cases hw
      exact hrk

end StrProg
end Pm
