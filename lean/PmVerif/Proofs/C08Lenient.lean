/-
Proofs/C08Lenient.lean — the per-state conditions of the anchored traversal theorems
(`Anch.StateOK`, `AnchM.StateOK`) for the automata returned by the LENIENT disciplined build
`buildTL` (the Rust code as it runs, no `make_det` guard) and for the guarded disciplined build
`buildT`: `strProg_builtWith`, `matProg_builtWith`, together with `OrdersOK`, a live root and a
rank decreasing along the edges (`builtWith_facts`). These are `strProg_built` / `matProg_built` /
`built_facts` without the model guard: the invariant `BI` = `Inv` ∧ `RootSrc` ∧ `SP E Q` is carried
through the lenient main loop by `mainLoopWith_only`, the recorded key lists by the frame `c09b_MFrom`.
Everything lives in `namespace Pm.C08`.
-/
import PmVerif.Proofs.C08Fuel
import PmVerif.Proofs.C08Str
import PmVerif.Proofs.StrProgMain
import PmVerif.Proofs.MatProgMain
namespace Pm
namespace C08
open Automaton StrProg

/-! ### recorded `(pattern id, key list)` pairs through the disciplined main loop -/

section MFrom
variable {K P : Type} [DecidableEq K] [DecidableEq P] {S : Nat × List K → Prop}

theorem mfrom_makeDetL {a a' : Automaton K P} {s : Nat}
    (h : a.makeDetL s = .ok a') (H : c09b_MFrom S a) : c09b_MFrom S a' := by
  unfold makeDetL at h
  split at h
  · cases h
  · rename_i a0 wd hsd
    have H0 := c09b_mfrom_setDeterministic hsd H
    split at h
    · cases h; exact H0
    · split at h
      · cases h
      · cases h; exact H0
      · split at h
        · rename_i failTs cts fw hft hcts hfw
          exact c09b_mfrom_makeDetLoop (H0 _ fw (c09b_state_ok hfw)) _ h H0
        · cases h
        · cases h
        · cases h

/-- A `make_det` variant that only copies recorded pairs. -/
def DetMFrom (det : Automaton K P → Nat → R (Automaton K P)) : Prop :=
  ∀ (S : Nat × List K → Prop) (a a' : Automaton K P) (s : Nat), det a s = .ok a' →
    c09b_MFrom S a → c09b_MFrom S a'

theorem detMFrom_makeDetL : DetMFrom (makeDetL (K := K) (P := P)) :=
  fun _ _ _ _ h H => mfrom_makeDetL h H

theorem detMFrom_makeDet : DetMFrom (makeDet (K := K) (P := P)) :=
  fun _ _ _ _ h H => c09b_mfrom_makeDet h H

theorem mfrom_iterationWith {det : Automaton K P → Nat → R (Automaton K P)}
    (hdet : DetMFrom det)
    {toTree : List (Constraint K P) → Option (CTree (Constraint K P))} {fuel : Nat}
    {a a' : Automaton K P} {s : Nat} {evs evs' : List Ev}
    (h : iterationWith det toTree fuel a s evs = .ok (a', evs')) (H : c09b_MFrom S a) :
    c09b_MFrom S a' := by
  unfold iterationWith at h
  split at h
  · cases h
  · split at h
    · cases h
    · rename_i a1 evs1 h1
      have H1 := c09b_mfrom_makeConstraintsUnique h1 H
      split at h
      · cases h
      · rename_i a2 treeDet h2
        have H2 := c09b_mfrom_insertConstraintTree h2 H1
        split at h
        · cases h
        · rename_i a3 evs3 h3
          have H3 := c09b_mfrom_makeConstraintsUnique h3 H2
          dsimp only at h
          split at h
          · cases h
          · rename_i a4 evs4 h4
            have H4 : c09b_MFrom S a4 := by
              split at h4
              · split at h4
                · split at h4
                  · obtain ⟨a5, hm, he⟩ := c09b_map_ok h4
                    cases he
                    exact hdet S _ _ _ hm H3
                  · cases h4
                · split at h4
                  · cases h4; exact H3
                  · cases h4
                · cases h4
              · cases h4; exact H3
            split at h
            · cases h
            · rename_i a5 s' evs5 h5
              split at h
              · cases h
                exact c09b_mfrom_mergesLogged _ (mergesLogged_of_T _ h5) H4
              · cases h
            · cases h

theorem mfrom_mainLoopWith {det : Automaton K P → Nat → R (Automaton K P)}
    (hdet : DetMFrom det)
    {toTree : List (Constraint K P) → Option (CTree (Constraint K P))} {fuel : Nat} :
    ∀ (n : Nat) {a a' : Automaton K P} (emitted : List Nat) (evs : List Ev),
    mainLoopWith det toTree fuel n a emitted evs = .ok a' → c09b_MFrom S a → c09b_MFrom S a' := by
  intro n
  induction n with
  | zero =>
    intro a a' emitted evs h H
    cases evs with
    | nil =>
      unfold mainLoopWith at h
      split at h
      · cases h; exact H
      · cases h
    | cons e es => unfold mainLoopWith at h; cases h
  | succ n ih =>
    intro a a' emitted evs h H
    cases evs with
    | nil =>
      unfold mainLoopWith at h
      split at h
      · cases h; exact H
      · cases h
    | cons e es =>
      cases e with
      | topo s =>
        unfold mainLoopWith at h
        split at h
        · cases h
        · split at h
          · cases h
          · rename_i a1 evs1 h1
            exact ih _ evs1 h (mfrom_iterationWith hdet h1 H)
      | _ => unfold mainLoopWith at h; cases h

end MFrom

/-! ### the parts of a successful disciplined build -/

section Parts
variable {K P : Type} [DecidableEq K] [DecidableEq P]

/-- The disciplined build with the `make_det` variant as a parameter: `buildT = buildWith makeDet`,
`buildTL = buildWith makeDetL`. -/
def buildWith (det : Automaton K P → Nat → R (Automaton K P))
    (toTree : List (Constraint K P) → Option (CTree (Constraint K P))) (req : K → List K)
    (fuel : Nat) (patterns : List (Nat × List (Constraint K P) × List K)) (evs : List Ev) :
    R (Automaton K P) :=
  match addPatterns req fuel new patterns with
  | .error e => .error e
  | .ok a => finishWith det toTree req fuel a evs

theorem buildT_eq_buildWith
    (toTree : List (Constraint K P) → Option (CTree (Constraint K P))) (req : K → List K)
    (fuel : Nat) (patterns : List (Nat × List (Constraint K P) × List K)) (evs : List Ev) :
    buildT toTree req fuel patterns evs = buildWith makeDet toTree req fuel patterns evs := rfl

theorem buildTL_eq_buildWith
    (toTree : List (Constraint K P) → Option (CTree (Constraint K P))) (req : K → List K)
    (fuel : Nat) (patterns : List (Nat × List (Constraint K P) × List K)) (evs : List Ev) :
    buildTL toTree req fuel patterns evs = buildWith makeDetL toTree req fuel patterns evs := rfl

/-- A successful `buildT` / `buildTL` is `addPatterns`, then the main loop, then
`populate_scopes`. -/
theorem buildWith_parts {det : Automaton K P → Nat → R (Automaton K P)}
    {toTree : List (Constraint K P) → Option (CTree (Constraint K P))} {req : K → List K}
    {fuel : Nat} {patterns : List (Nat × List (Constraint K P) × List K)} {evs : List Ev}
    {A : Automaton K P}
    (h : buildWith det toTree req fuel patterns evs = .ok A) :
    ∃ a1 a2, addPatterns req fuel (new : Automaton K P) patterns = .ok a1 ∧
      mainLoopWith det toTree fuel evs.length a1 [] evs = .ok a2 ∧
      populateScopes req fuel a2 = .ok A := by
  unfold buildWith at h
  cases h1 : addPatterns req fuel (new : Automaton K P) patterns with
  | error e => rw [h1] at h; cases h
  | ok a1 =>
    rw [h1] at h
    simp only at h
    unfold finishWith at h
    cases h2 : mainLoopWith det toTree fuel evs.length a1 [] evs with
    | error e => rw [h2] at h; cases h
    | ok a2 =>
      rw [h2] at h
      exact ⟨a1, a2, rfl, h2, h⟩

/-- `OrdersOK`, a live root and a bounded rank decreasing along the edges, for every successful
disciplined build (guarded or lenient). -/
theorem builtWith_facts {E : Nat → Prop} {Q : Constraint K P → Prop}
    {det : Automaton K P → Nat → R (Automaton K P)} (hdet : DetOK' E Q det)
    {toTree : List (Constraint K P) → Option (CTree (Constraint K P))} (hT : TreeFine Q toTree)
    {req : K → List K} {fuel : Nat} {patterns : List (Nat × List (Constraint K P) × List K)}
    (hp : ∀ p ∈ patterns, (∀ c ∈ p.2.1, Q c) ∧ (E p.1 → p.2.1 = [])) {evs : List Ev}
    {A : Automaton K P}
    (h : buildWith det toTree req fuel patterns evs = .ok A) :
    ∃ a2, populateScopes req fuel a2 = .ok A ∧ BI E Q a2 ∧
      OrdersOK A ∧ (∃ w, A.g.weight? A.root = some w) ∧
      ∃ rank : Nat → Nat, (∀ s, rank s ≤ A.g.nodes.length) ∧
        ∀ t e, A.g.edge? t = some e → rank e.dst < rank e.src := by
  obtain ⟨a1, a2, h1, h2, h3⟩ := buildWith_parts h
  have bi1 : BI E Q a1 := bi_addPatterns hp h1
  have bi2 : BI E Q a2 := (mainLoopWith_only (A := NoPanic) (fun _ => IsGuard.noPanic) hdet hT
    fuel (treeStepOK_fine toTree fuel) evs.length [] evs bi1 (.inr (Nat.le_refl _))).2 a2 h2
  obtain ⟨inv3, hr3, he3, hw3⟩ := populateScopes_frame bi2.inv h3
  obtain ⟨rank, hrank⟩ := populateScopes_rank bi2.inv h3
  have hrankA : ∀ t e, A.g.edge? t = some e → rank e.dst < rank e.src := by
    intro t e he
    rw [he3] at he
    exact hrank t e he
  refine ⟨a2, h3, bi2, inv3.ok, ?_, compressRank A rank, compressRank_le A rank,
    compressRank_lt A inv3.ok rank hrankA⟩
  obtain ⟨w2, hw2⟩ := live_iff.mp bi2.rs.1
  have := hw3 a2.root
  rw [hw2] at this
  rw [hr3]
  cases hA : A.g.weight? a2.root with
  | none => rw [hA] at this; cases this
  | some w => exact ⟨w, rfl⟩

end Parts

/-! ### strings -/

/-- `Anch.StateOK` from the parts of a build: the automaton `a2` the main loop ends with satisfies
`Inv` and `SP`, the result is `populate_scopes` of it, and the recorded key lists are those of the
patterns. (The tail of the proof of `StrProg.strProg_built`.) -/
theorem strStateOK_of_parts (ps : List (List CharVar)) {fuel : Nat}
    {a2 A : Automaton Nat CharPred} (hps : populateScopes strReq fuel a2 = .ok A)
    (inv2 : Inv a2)
    (sp2 : SP (fun pid => ps[pid]? = some []) (fun c : StrCons => c.args.length = c.pred.arity) a2)
    (hkeys : ∀ s w, A.g.weight? s = some w → ∀ m ∈ w.matches_,
      ∃ p, ps[m.1]? = some p ∧ m.2 = strPatternKeys p) :
    ∀ s w, A.g.weight? s = some w → Anch.StateOK A ps s w := by
  have hsame := populateScopes_sameButScope hps
  have hcov := c09_populateScopes_scopeCovers strReq_acyclic hps
  have hk2 : ∀ s w, a2.g.weight? s = some w → ∀ m ∈ w.matches_, m.2 ≠ [] → 0 ∈ m.2 := by
    intro s w2 hw2 m hm hne
    obtain ⟨w, hw, he⟩ := hsame.weight?_symm hw2
    have hm' : m ∈ w.matches_ := by rw [he]; exact hm
    obtain ⟨p, _, hmp⟩ := hkeys s w hw m hm'
    exact sh_mem_zero (hmp ▸ sh_strPatternKeys p) hne
  have hshape := populateScopes_sh hps hk2
  intro s w hw
  obtain ⟨w2, hw2, he⟩ := hsame.weight? hw
  have hco : w.corder = w2.corder := by rw [he]
  have heo : w.eorder = w2.eorder := by rw [he]
  have hma : w.matches_ = w2.matches_ := by rw [he]
  have hcon : ∀ t ∈ w.corder, ∃ e c, A.g.edge? t = some e ∧ e.w = some c ∧
      c.args.length = c.pred.arity ∧ ∀ k ∈ c.args, k ∈ w.scope := by
    intro t ht
    obtain ⟨e, he2, _, hsome⟩ := inv2.ok.corder_edge s w2 hw2 t (hco ▸ ht)
    obtain ⟨c, hc⟩ := Option.isSome_iff_exists.1 hsome
    have heA : A.g.edge? t = some e := by rw [hsame.edge?]; exact he2
    exact ⟨e, c, heA, hc, sp2.efrom t e c he2 hc, hcov s w hw t ht e c heA hc⟩
  refine ⟨hcon, ?_, hshape s w hw, ?_⟩
  · intro hor
    have hcne : w.corder ≠ [] := by
      rcases hor with h | h
      · exact h
      · obtain ⟨t, ht⟩ := List.exists_mem_of_ne_nil _ h
        obtain ⟨e, he2, hsrc, hnone⟩ := inv2.ok.eorder_edge s w2 hw2 t (heo ▸ ht)
        have hn : e.w = none := Option.isNone_iff_eq_none.1 hnone
        obtain ⟨t', e', he', hs', hw'⟩ := sp2.noEps t e he2 hn
        have : t' ∈ w2.corder := (mem_corder_iff inv2.ok hw2).2 ⟨e', he', hs'.trans hsrc, hw'⟩
        rw [hco]
        exact List.ne_nil_of_mem this
    obtain ⟨t, ht⟩ := List.exists_mem_of_ne_nil _ hcne
    obtain ⟨e, c, _, _, har, hsc⟩ := hcon t ht
    have hpos' : 0 < c.args.length := by rw [har]; exact StrProg.charPred_arity_pos _
    obtain ⟨k, hk⟩ := List.exists_mem_of_ne_nil _ (List.ne_nil_of_length_pos hpos')
    exact List.ne_nil_of_mem (hsc k hk)
  · intro pid ks hm
    obtain ⟨p, hp, hks⟩ := hkeys s w hw (pid, ks) hm
    simp only at hp hks
    refine ⟨hks ▸ sh_strPatternKeys p, ?_, p, hp, hks⟩
    by_cases hnil : ks = []
    · left
      have hpnil : p = [] := by
        refine Classical.byContradiction fun hpne => ?_
        exact Anch.strPatternKeys_ne p hpne (hks ▸ hnil)
      subst hpnil
      have hid : a2.Ids s pid :=
        ⟨w2, hw2, List.mem_map.2 ⟨(pid, ks), hma ▸ hm, rfl⟩⟩
      rw [hsame.root]
      exact sp2.emp s pid hid hp
    · exact .inr hnil

/-- What `manyInputs` produces for string patterns. -/
theorem str_inputs_spec (ps : List (List CharVar))
    (inputs : List (Nat × List StrCons × List Nat))
    (hin : manyInputs (fun p => some (strConstraints p)) (fun _ => ([] : List Nat)) true ps 0 =
      some inputs) :
    ∀ x ∈ inputs, ∃ p, ps[x.1]? = some p ∧ x.2.1 = strConstraints p ∧ x.2.2 = [] := by
  have hpos := c06_ids_are_positions (fun p => some (strConstraints p))
    (fun _ => ([] : List Nat)) true ps 0 inputs hin
  rintro ⟨i, cs, ex⟩ hx
  obtain ⟨k, p, hk, hj, hc, hex⟩ := (hpos i cs ex).mp hx
  simp only [Nat.zero_add] at hj
  subst hj
  simp only [Option.some.injEq] at hc
  exact ⟨p, hk, hc.symm, hex⟩

/-- **Every automaton returned by a disciplined string build — guarded or LENIENT — is an OK
program**, with `OrdersOK`, a live root and a bounded rank. -/
theorem strProg_builtWith (ps : List (List CharVar))
    {det : Automaton Nat CharPred → Nat → R (Automaton Nat CharPred)}
    (hdet : DetOK' (fun pid => ps[pid]? = some [])
      (fun c : StrCons => c.args.length = c.pred.arity) det) (hdm : DetMFrom det)
    (evs : List Ev) (fuel : Nat)
    (inputs : List (Nat × List StrCons × List Nat)) (A : Automaton Nat CharPred)
    (hin : manyInputs (fun p => some (strConstraints p)) (fun _ => ([] : List Nat)) true ps 0 =
      some inputs)
    (hb : buildWith det (charTree natLt) strReq fuel inputs evs = .ok A) :
    (∀ s w, A.g.weight? s = some w → Anch.StateOK A ps s w) ∧
    OrdersOK A ∧ (∃ w, A.g.weight? A.root = some w) ∧
      ∃ rank : Nat → Nat, (∀ s, rank s ≤ A.g.nodes.length) ∧
        ∀ t e, A.g.edge? t = some e → rank e.dst < rank e.src := by
  have hspec := str_inputs_spec ps inputs hin
  have hp : ∀ p ∈ inputs, (∀ c ∈ p.2.1, c.args.length = c.pred.arity) ∧
      (ps[p.1]? = some [] → p.2.1 = []) := by
    intro x hx
    obtain ⟨p, hk, hc, _⟩ := hspec x hx
    rw [hc]
    refine ⟨tdom_str_arity p, fun hE => ?_⟩
    rw [hk] at hE
    cases hE
    show strConstraints [] = []
    decide
  obtain ⟨a2, hps, bi2, ok, hroot, hrank⟩ :=
    builtWith_facts hdet (treeFine_char natLt) hp hb
  refine ⟨strStateOK_of_parts ps hps bi2.inv bi2.sp ?_, ok, hroot, hrank⟩
  obtain ⟨a1, a2', h1, h2, h3⟩ := buildWith_parts hb
  have H1 : c09b_MFrom (KeysOf ps) a1 := by
    refine strKeys_addPatterns ps fuel inputs new a1 hspec h1 ?_
    intro s w hw m hm
    rw [new_no_matches s w hw] at hm
    cases hm
  exact c09b_mfrom_populateScopes h3 (mfrom_mainLoopWith hdm _ _ _ h2 H1)

/-! ### matrices -/

theorem matStateOK_of_parts (ps : List MatPattern) {fuel : Nat}
    {a2 A : Automaton MKey CharPred} (hps : populateScopes matReq fuel a2 = .ok A)
    (inv2 : Inv a2)
    (sp2 : SP (fun _ => False) (fun c : MatCons => c.args.length = c.pred.arity ∧
      ∀ k ∈ c.args, 0 ≤ k.1 ∧ 0 ≤ k.2) a2)
    (hkeys : ∀ s w, A.g.weight? s = some w → ∀ m ∈ w.matches_,
      ∃ p, ps[m.1]? = some p ∧ m.2 = matPatternKeys p) :
    ∀ s w, A.g.weight? s = some w → AnchM.StateOK A ps s w := by
  have hsame := populateScopes_sameButScope hps
  have hcov := c09_populateScopes_scopeCovers MatProg.matReq_acyclic hps
  have hk2 : ∀ s w, a2.g.weight? s = some w → ∀ m ∈ w.matches_, m.2 ≠ [] →
      ((0, 0) : MKey) ∈ m.2 := by
    intro s w2 hw2 m hm hne
    obtain ⟨w, hw, he⟩ := hsame.weight?_symm hw2
    have hm' : m ∈ w.matches_ := by rw [he]; exact hm
    obtain ⟨p, _, hmp⟩ := hkeys s w hw m hm'
    exact MatProg.sh_mem_start (hmp ▸ MatProg.shape_matPatternKeys p) hne
  have hshape := MatProg.populateScopes_mat hps
    (fun t e c he hc => (sp2.efrom t e c he hc).2) hk2
  intro s w hw
  obtain ⟨w2, hw2, he⟩ := hsame.weight? hw
  have hco : w.corder = w2.corder := by rw [he]
  have heo : w.eorder = w2.eorder := by rw [he]
  have hcon : ∀ t ∈ w.corder, ∃ e c, A.g.edge? t = some e ∧ e.w = some c ∧
      c.args.length = c.pred.arity ∧ ∀ k ∈ c.args, k ∈ w.scope := by
    intro t ht
    obtain ⟨e, he2, _, hsome⟩ := inv2.ok.corder_edge s w2 hw2 t (hco ▸ ht)
    obtain ⟨c, hc⟩ := Option.isSome_iff_exists.1 hsome
    have heA : A.g.edge? t = some e := by rw [hsame.edge?]; exact he2
    exact ⟨e, c, heA, hc, (sp2.efrom t e c he2 hc).1, hcov s w hw t ht e c heA hc⟩
  refine ⟨hcon, ?_, (hshape s w hw).1, (hshape s w hw).2, ?_⟩
  · intro hor
    have hcne : w.corder ≠ [] := by
      rcases hor with h | h
      · exact h
      · obtain ⟨t, ht⟩ := List.exists_mem_of_ne_nil _ h
        obtain ⟨e, he2, hsrc, hnone⟩ := inv2.ok.eorder_edge s w2 hw2 t (heo ▸ ht)
        have hn : e.w = none := Option.isNone_iff_eq_none.1 hnone
        obtain ⟨t', e', he', hs', hw'⟩ := sp2.noEps t e he2 hn
        have : t' ∈ w2.corder := (mem_corder_iff inv2.ok hw2).2 ⟨e', he', hs'.trans hsrc, hw'⟩
        rw [hco]
        exact List.ne_nil_of_mem this
    obtain ⟨t, ht⟩ := List.exists_mem_of_ne_nil _ hcne
    obtain ⟨e, c, _, _, har, hsc⟩ := hcon t ht
    have hpos' : 0 < c.args.length := by rw [har]; exact MatProg.charPred_arity_pos _
    obtain ⟨k, hk⟩ := List.exists_mem_of_ne_nil _ (List.ne_nil_of_length_pos hpos')
    exact List.ne_nil_of_mem (hsc k hk)
  · intro pid ks hm
    obtain ⟨p, hp, hks⟩ := hkeys s w hw (pid, ks) hm
    simp only at hp hks
    exact ⟨hks ▸ MatProg.shape_matPatternKeys p, .inr (hks ▸ AnchM.matPatternKeys_ne p),
      hks ▸ AnchM.matPatternKeys_nn p, p, hp, hks⟩

theorem mat_inputs_spec (ps : List MatPattern)
    (inputs : List (Nat × List MatCons × List MKey))
    (hin : manyInputs (fun p => some (matConstraints p)) (fun _ => ([] : List MKey)) true ps 0 =
      some inputs) :
    ∀ x ∈ inputs, ∃ p, ps[x.1]? = some p ∧ x.2.1 = matConstraints p ∧ x.2.2 = [] := by
  have hpos := c06_ids_are_positions (fun p => some (matConstraints p))
    (fun _ => ([] : List MKey)) true ps 0 inputs hin
  rintro ⟨i, cs, ex⟩ hx
  obtain ⟨k, p, hk, hj, hc, hex⟩ := (hpos i cs ex).mp hx
  simp only [Nat.zero_add] at hj
  subst hj
  simp only [Option.some.injEq] at hc
  exact ⟨p, hk, hc.symm, hex⟩

/-- The decomposition `charTree` and the matrix invariant (arity and non-negative keys). -/
theorem treeFine_mat : TreeFine (fun c : MatCons => c.args.length = c.pred.arity ∧
    ∀ k ∈ c.args, 0 ≤ k.1 ∧ 0 ≤ k.2) (charTree mkeyLt) where
  tot := fun cs h => c10_charTree_total mkeyLt cs fun c hc => (h c hc).1
  hyp := treeHyp_charTree mkeyLt _
  ok := c03_treeOK_char mkeyLt _

/-- **Every automaton returned by a disciplined matrix build — guarded or LENIENT — is an OK
program**, with `OrdersOK`, a live root and a bounded rank. -/
theorem matProg_builtWith {det : Automaton MKey CharPred → Nat → R (Automaton MKey CharPred)}
    (hdet : DetOK' (fun _ => False) (fun c : MatCons => c.args.length = c.pred.arity ∧
      ∀ k ∈ c.args, 0 ≤ k.1 ∧ 0 ≤ k.2) det) (hdm : DetMFrom det)
    (ps : List MatPattern) (evs : List Ev) (fuel : Nat)
    (inputs : List (Nat × List MatCons × List MKey)) (A : Automaton MKey CharPred)
    (hin : manyInputs (fun p => some (matConstraints p)) (fun _ => ([] : List MKey)) true ps 0 =
      some inputs)
    (hb : buildWith det (charTree mkeyLt) matReq fuel inputs evs = .ok A) :
    (∀ s w, A.g.weight? s = some w → AnchM.StateOK A ps s w) ∧
    OrdersOK A ∧ (∃ w, A.g.weight? A.root = some w) ∧
      ∃ rank : Nat → Nat, (∀ s, rank s ≤ A.g.nodes.length) ∧
        ∀ t e, A.g.edge? t = some e → rank e.dst < rank e.src := by
  have hspec := mat_inputs_spec ps inputs hin
  have hp : ∀ p ∈ inputs, (∀ c ∈ p.2.1, c.args.length = c.pred.arity ∧
      ∀ k ∈ c.args, 0 ≤ k.1 ∧ 0 ≤ k.2) ∧ (False → p.2.1 = []) := by
    intro x hx
    obtain ⟨p, _, hc, _⟩ := hspec x hx
    rw [hc]
    exact ⟨fun c hc' => ⟨tdom_mat_arity p c hc', Pm.mat_keys_nonneg p c hc'⟩,
      fun hE => hE.elim⟩
  obtain ⟨a2, hps, bi2, ok, hroot, hrank⟩ := builtWith_facts hdet treeFine_mat hp hb
  refine ⟨matStateOK_of_parts ps hps bi2.inv bi2.sp ?_, ok, hroot, hrank⟩
  obtain ⟨a1, a2', h1, h2, h3⟩ := buildWith_parts hb
  have H1 : c09b_MFrom (MatProg.KeysOf ps) a1 := by
    refine MatProg.matKeys_addPatterns ps fuel inputs new a1 hspec h1 ?_
    intro s w hw m hm
    rw [new_no_matches s w hw] at hm
    cases hm
  exact c09b_mfrom_populateScopes h3 (mfrom_mainLoopWith hdm _ _ _ h2 H1)

end C08
end Pm
