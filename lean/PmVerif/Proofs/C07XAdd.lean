/-
Proofs/C07XAdd.lean — C07 (multiplicities), builder part: the trie built by `addPatterns` from
DISTINCT pattern ids satisfies the builder invariant `XB Mx` (Proofs/C07XDefs.lean), whatever the
constraints are (`Excl` is never used).

* `ChainE a a' s pid` — edge-level contract of `addPatternLoop` from `s` followed by `addMatch`:
  every new transition leads to a fresh state and leaves `s` or a fresh state, `s` gains at most
  one transition, a fresh state has at most one outgoing transition, and `pid` is recorded at a
  state without new outgoing transitions.
* `Own a own S` — the `Mx`-free trie invariant carried through `addPatterns`: `own x` is the
  pattern id of the chain the non-root state `x` belongs to, `S` the ids used so far.
* `xb_addPatterns` — the result.
Everything lives in `namespace Pm.C07`.
-/
import PmVerif.Proofs.C07XDefs
import PmVerif.Proofs.BuildAddPattern
namespace Pm
namespace C07
open Automaton
variable {K P : Type}

/-! ### small facts -/

theorem hasEdge_src_live {a : Automaton K P} (inv : Inv a) {x d : Nat}
    {c : Option (Constraint K P)} (h : HasEdge a x d c) : a.Live x := by
  obtain ⟨t, ht⟩ := h
  exact inv.ok.src_live ht

theorem hasEdge_dst_live {a : Automaton K P} (inv : Inv a) {x d : Nat}
    {c : Option (Constraint K P)} (h : HasEdge a x d c) : a.Live d := by
  obtain ⟨t, ht⟩ := h
  exact inv.ok.dst_live ht

theorem ids_live {a : Automaton K P} {x i : Nat} (h : a.Ids x i) : a.Live x := by
  obtain ⟨w, hw, _⟩ := h
  exact live_of_weight hw

/-- Transitions after `add_transition`: the old ones and the new one. -/
theorem addTransition_hasEdge {a a1 : Automaton K P} {p ch e : Nat}
    {c : Option (Constraint K P)} (sp : AddTransitionSpec a a1 p ch c e) {x d : Nat}
    {k : Option (Constraint K P)} (h : HasEdge a1 x d k) :
    HasEdge a x d k ∨ (x = p ∧ d = ch ∧ k = c) := by
  obtain ⟨t, ht⟩ := h
  rw [sp.edge] at ht
  split at ht
  · cases ht
    exact .inr ⟨rfl, rfl, rfl⟩
  · exact .inl ⟨t, ht⟩

/-- Live states after `add_transition`: the old ones and the child. -/
theorem addTransition_live_inv {a a1 : Automaton K P} {p ch e : Nat}
    {c : Option (Constraint K P)} (sp : AddTransitionSpec a a1 p ch c e) {x : Nat}
    (h : a1.Live x) : a.Live x ∨ x = ch := by
  by_cases hx : x = ch
  · exact .inr hx
  · refine .inl ?_
    obtain ⟨w, hw⟩ := live_iff.1 h
    rw [sp.wt, if_neg hx] at hw
    split at hw
    · rename_i hxp
      rw [hxp]
      exact sp.livep
    · exact live_of_weight hw

/-- `add_transition` records no id. -/
theorem addTransition_ids_inv {a a1 : Automaton K P} {p ch e : Nat}
    {c : Option (Constraint K P)} (sp : AddTransitionSpec a a1 p ch c e) {x i : Nat}
    (h : a1.Ids x i) : a.Ids x i := by
  obtain ⟨wy, hwy, hq⟩ := h
  rw [sp.wt] at hwy
  split at hwy
  · cases hwy; cases hq
  · split at hwy
    · rename_i hyp
      subst hyp
      cases hwp : a.g.weight? x with
      | none => rw [hwp] at hwy; cases hwy
      | some w0 =>
        rw [hwp] at hwy; cases hwy
        rw [addOrder_matches] at hq
        exact ⟨w0, hwp, hq⟩
    · exact ⟨wy, hwy, hq⟩

/-! ### the chain of `add_pattern`, edge level -/

/-- Edge-level contract of `addPatternLoop` from `s` followed by `addMatch`. -/
structure ChainE (a a' : Automaton K P) (s pid : Nat) : Prop where
  inv : Inv a'
  root : a'.root = a.root
  live : ∀ x, a.Live x → a'.Live x
  edges : ∀ x d c, HasEdge a' x d c →
    HasEdge a x d c ∨ (¬ a.Live d ∧ (x = s ∨ ¬ a.Live x))
  ids : ∀ x i, a'.Ids x i → a.Ids x i ∨ (i = pid ∧
    ((x = s ∧ ∀ y d c, HasEdge a' y d c → HasEdge a y d c) ∨
     (¬ a.Live x ∧ ∀ d c, ¬ HasEdge a' x d c)))
  out_s : ∀ d1 d2 c1 c2, HasEdge a' s d1 c1 → HasEdge a' s d2 c2 → ¬ a.Live d1 → ¬ a.Live d2 →
    d1 = d2 ∧ c1 = c2
  out_new : ∀ x d1 d2 c1 c2, ¬ a.Live x → HasEdge a' x d1 c1 → HasEdge a' x d2 c2 →
    d1 = d2 ∧ c1 = c2

variable [DecidableEq K] [DecidableEq P]

omit [DecidableEq P] in
theorem addPatternLoop_chainE {req : K → List K} {fuel : Nat} {pid : Nat} :
    ∀ (cs : List (Constraint K P)) {a a1 a' : Automaton K P} {s s1 : Nat}
      {keys keys1 : List K}, Inv a → a.Live s →
      addPatternLoop req fuel a s keys cs = .ok (a1, s1, keys1) →
      a1.addMatch s1 pid keys1 = .ok a' → ChainE a a' s pid
  | [], a, a1, a', s, s1, keys, keys1, inv, _, h, hm => by
    unfold addPatternLoop at h
    simp only [Except.ok.injEq, Prod.mk.injEq] at h
    obtain ⟨h1, h2, h3⟩ := h
    subst h1 h2 h3
    have sp := addMatch_spec inv hm
    have hed : ∀ x d c, HasEdge a' x d c → HasEdge a x d c := by
      rintro x d c ⟨t, ht⟩
      rw [sp.edge] at ht
      exact ⟨t, ht⟩
    refine ⟨sp.inv, sp.root, fun x => sp.live_of_live, fun x d c he => .inl (hed x d c he),
      ?_, ?_, ?_⟩
    · rintro x i ⟨wx, hwx, hi⟩
      obtain ⟨w, w', hw, hw', _, _, _, hmm⟩ := sp.wt
      by_cases hx : x = s
      · subst hx
        rw [hw'] at hwx; cases hwx
        rcases (hmm i).1 hi with h1 | h1
        · exact .inl ⟨w, hw, h1⟩
        · exact .inr ⟨h1, .inl ⟨rfl, hed⟩⟩
      · rw [sp.wt_ne x hx] at hwx
        exact .inl ⟨wx, hwx, hi⟩
    · intro d1 d2 c1 c2 h1 _ hd1 _
      exact absurd (hasEdge_dst_live inv (hed _ _ _ h1)) hd1
    · intro x d1 d2 c1 c2 hx h1 _
      exact absurd (hasEdge_src_live inv (hed _ _ _ h1)) hx
  | c :: cs, a, a1, a', s, s1, keys, keys1, inv, hs, h, hm => by
    unfold addPatternLoop at h
    split at h
    · cases h
    · split at h
      · cases h
      · rename_i more _ a2 s' hadd
        obtain ⟨e, sp⟩ := addTransition_spec inv hs hadd
        have ih := addPatternLoop_chainE cs sp.inv sp.live_child h hm
        have hss : s ≠ s' := fun hx => sp.deadc (hx ▸ hs)
        have hdead2 : ∀ x, ¬ a2.Live x → ¬ a.Live x := fun x hx hl => hx (sp.live_of_live hl)
        -- the fresh child has no outgoing transition yet
        have hno : ∀ d k, ¬ HasEdge a2 s' d k := by
          intro d k he
          rcases addTransition_hasEdge sp he with h0 | ⟨h0, _, _⟩
          · exact sp.deadc (hasEdge_src_live inv h0)
          · exact hss h0.symm
        refine ⟨ih.inv, ih.root.trans sp.root, fun x hx => ih.live x (sp.live_of_live hx),
          ?_, ?_, ?_, ?_⟩
        · intro x d k he
          rcases ih.edges x d k he with h2 | ⟨hd, hx⟩
          · rcases addTransition_hasEdge sp h2 with h0 | ⟨h0, h1, _⟩
            · exact .inl h0
            · exact .inr ⟨h1 ▸ sp.deadc, .inl h0⟩
          · refine .inr ⟨hdead2 d hd, .inr ?_⟩
            rcases hx with hx | hx
            · exact hx ▸ sp.deadc
            · exact hdead2 x hx
        · intro x i hi
          rcases ih.ids x i hi with h2 | ⟨hp, h2 | h2⟩
          · exact .inl (addTransition_ids_inv sp h2)
          · obtain ⟨hxs, hall⟩ := h2
            refine .inr ⟨hp, .inr ⟨hxs ▸ sp.deadc, fun d k he => ?_⟩⟩
            rw [hxs] at he
            exact hno d k (hall _ _ _ he)
          · exact .inr ⟨hp, .inr ⟨hdead2 x h2.1, h2.2⟩⟩
        · have key : ∀ d k, HasEdge a' s d k → ¬ a.Live d → d = s' ∧ k = some c := by
            intro d k he hd
            rcases ih.edges s d k he with h2 | ⟨_, hx⟩
            · rcases addTransition_hasEdge sp h2 with h0 | ⟨_, h1, h2⟩
              · exact absurd (hasEdge_dst_live inv h0) hd
              · exact ⟨h1, h2⟩
            · rcases hx with hx | hx
              · exact absurd hx hss
              · exact absurd (sp.live_of_live hs) hx
          intro d1 d2 c1 c2 h1 h2 hd1 hd2
          obtain ⟨e1, e2⟩ := key d1 c1 h1 hd1
          obtain ⟨e3, e4⟩ := key d2 c2 h2 hd2
          exact ⟨e1.trans e3.symm, e2.trans e4.symm⟩
        · intro x d1 d2 c1 c2 hx h1 h2
          by_cases hxs : x = s'
          · rw [hxs] at h1 h2
            have key : ∀ d k, HasEdge a' s' d k → ¬ a2.Live d := by
              intro d k he
              rcases ih.edges s' d k he with h0 | ⟨hd, _⟩
              · exact absurd h0 (hno d k)
              · exact hd
            exact ih.out_s d1 d2 c1 c2 h1 h2 (key _ _ h1) (key _ _ h2)
          · have hx2 : ¬ a2.Live x := fun hl => by
              rcases addTransition_live_inv sp hl with h0 | h0
              · exact hx h0
              · exact hxs h0
            exact ih.out_new x d1 d2 c1 c2 hx2 h1 h2

omit [DecidableEq P] in
/-- One `add_pattern`, edge level. -/
theorem addPattern_chainE {req : K → List K} {fuel : Nat} {a a' : Automaton K P}
    {cs : List (Constraint K P)} {pid : Nat} {extra : List K} (inv : Inv a) (rs : RootSrc a)
    (h : addPattern req fuel a cs pid extra = .ok a') : ChainE a a' a.root pid := by
  unfold addPattern at h
  split at h
  · cases h
  · split at h
    · cases h
    · rename_i a1 s1 keys1 hloop
      exact addPatternLoop_chainE cs inv rs.1 hloop h

/-! ### the trie invariant -/

/-- The trie built so far: `own x` is the pattern id of the chain the non-root state `x` belongs
to, `S` the set of pattern ids used so far. -/
structure Own (a : Automaton K P) (own : Nat → Nat) (S : Nat → Prop) : Prop where
  tgt : ∀ x d c, HasEdge a x d c → S (own d)
  same : ∀ x d c, HasEdge a x d c → x ≠ a.root → own x = own d
  ids : ∀ x i, a.Ids x i → S i
  leaf : ∀ x i, a.Ids x i → x ≠ a.root → own x = i ∧ ∀ d c, ¬ HasEdge a x d c
  rootid : ∀ i, a.Ids a.root i → ∀ x d c, HasEdge a x d c → own d ≠ i
  rootout : ∀ d1 d2 c1 c2, HasEdge a a.root d1 c1 → HasEdge a a.root d2 c2 → own d1 = own d2 →
    d1 = d2 ∧ c1 = c2
  uniq : ∀ x d1 d2 c1 c2, x ≠ a.root → HasEdge a x d1 c1 → HasEdge a x d2 c2 →
    d1 = d2 ∧ c1 = c2

omit [DecidableEq K] [DecidableEq P] in
/-- One chain with a fresh pattern id keeps the trie invariant. -/
theorem Own.step {a a' : Automaton K P} {own own' : Nat → Nat} {S S' : Nat → Prop} {pid : Nat}
    (inv : Inv a) (rs : RootSrc a) (O : Own a own S) (hp : ¬ S pid)
    (ch : ChainE a a' a.root pid)
    (hL : ∀ x, a.Live x → own' x = own x) (hD : ∀ x, ¬ a.Live x → own' x = pid)
    (hS : ∀ i, S' i ↔ S i ∨ i = pid) : RootSrc a' ∧ Own a' own' S' := by
  have hr := ch.root
  refine ⟨⟨?_, ?_⟩, ?_, ?_, ?_, ?_, ?_, ?_, ?_⟩
  · rw [hr]; exact ch.live _ rs.1
  · intro t e he hd
    rcases ch.edges _ _ _ (HasEdge.of_edge he) with h0 | ⟨h0, _⟩
    · obtain ⟨t0, ht0⟩ := h0
      exact rs.2 t0 _ ht0 (hd.trans hr)
    · apply h0
      rw [hd, hr]
      exact rs.1
  · -- tgt
    intro x d c he
    rcases ch.edges x d c he with h0 | ⟨hd, _⟩
    · rw [hL d (hasEdge_dst_live inv h0)]
      exact (hS _).2 (.inl (O.tgt x d c h0))
    · rw [hD d hd]
      exact (hS _).2 (.inr rfl)
  · -- same
    intro x d c he hx
    rw [hr] at hx
    rcases ch.edges x d c he with h0 | ⟨hd, hx'⟩
    · rw [hL x (hasEdge_src_live inv h0), hL d (hasEdge_dst_live inv h0)]
      exact O.same x d c h0 hx
    · rcases hx' with hx' | hx'
      · exact absurd hx' hx
      · rw [hD x hx', hD d hd]
  · -- ids
    intro x i hi
    rcases ch.ids x i hi with h0 | ⟨h0, _⟩
    · exact (hS i).2 (.inl (O.ids x i h0))
    · exact (hS i).2 (.inr h0)
  · -- leaf
    intro x i hi hx
    rw [hr] at hx
    rcases ch.ids x i hi with h0 | ⟨h0, h1 | h1⟩
    · have hl : a.Live x := ids_live h0
      obtain ⟨e1, e2⟩ := O.leaf x i h0 hx
      refine ⟨(hL x hl).trans e1, fun d c he => ?_⟩
      rcases ch.edges x d c he with h2 | ⟨_, h2 | h2⟩
      · exact e2 d c h2
      · exact hx h2
      · exact h2 hl
    · exact absurd h1.1 hx
    · exact ⟨(hD x h1.1).trans h0.symm, h1.2⟩
  · -- rootid
    intro i hi x d c he
    rw [hr] at hi
    rcases ch.ids _ i hi with h0 | ⟨h0, h1 | h1⟩
    · rcases ch.edges x d c he with h2 | ⟨hd, _⟩
      · rw [hL d (hasEdge_dst_live inv h2)]
        exact O.rootid i h0 x d c h2
      · rw [hD d hd]
        intro heq
        apply hp
        rw [heq]
        exact O.ids _ i h0
    · have h2 := h1.2 x d c he
      rw [hL d (hasEdge_dst_live inv h2), h0]
      intro heq
      apply hp
      rw [← heq]
      exact O.tgt x d c h2
    · exact absurd rs.1 h1.1
  · -- rootout
    intro d1 d2 c1 c2 h1 h2 ho
    rw [hr] at h1 h2
    rcases ch.edges _ d1 c1 h1 with e1 | ⟨n1, _⟩
    · rcases ch.edges _ d2 c2 h2 with e2 | ⟨n2, _⟩
      · rw [hL d1 (hasEdge_dst_live inv e1), hL d2 (hasEdge_dst_live inv e2)] at ho
        exact O.rootout d1 d2 c1 c2 e1 e2 ho
      · rw [hL d1 (hasEdge_dst_live inv e1), hD d2 n2] at ho
        exfalso
        apply hp
        rw [← ho]
        exact O.tgt _ d1 c1 e1
    · rcases ch.edges _ d2 c2 h2 with e2 | ⟨n2, _⟩
      · rw [hD d1 n1, hL d2 (hasEdge_dst_live inv e2)] at ho
        exfalso
        apply hp
        rw [ho]
        exact O.tgt _ d2 c2 e2
      · exact ch.out_s d1 d2 c1 c2 h1 h2 n1 n2
  · -- uniq
    intro x d1 d2 c1 c2 hx h1 h2
    rw [hr] at hx
    by_cases hl : a.Live x
    · have f : ∀ d c, HasEdge a' x d c → HasEdge a x d c := by
        intro d c he
        rcases ch.edges x d c he with h0 | ⟨_, h0 | h0⟩
        · exact h0
        · exact absurd h0 hx
        · exact absurd hl h0
      exact O.uniq x d1 d2 c1 c2 hx (f _ _ h1) (f _ _ h2)
    · exact ch.out_new x d1 d2 c1 c2 hl h1 h2

omit [DecidableEq K] [DecidableEq P] in
/-- Everything accepted at or below a non-root state is the id of its chain. -/
theorem Own.below {a : Automaton K P} {own : Nat → Nat} {S : Nat → Prop} (inv : Inv a)
    (rs : RootSrc a) (O : Own a own S) {y i : Nat} (h : Below a y i) :
    y ≠ a.root → own y = i := by
  unfold Below at h
  refine AccND.edge_induction inv.ok (T := fun y i => y ≠ a.root → own y = i) ?_ ?_ h
  · intro s pid hi hs
    exact (O.leaf s pid hi hs).1
  · intro t e pid he _ _ ih hs
    rw [O.same e.src e.dst e.w (HasEdge.of_edge he) hs]
    exact ih (rs.2 t e he)

omit [DecidableEq K] [DecidableEq P] in
/-- The trie invariant implies the builder invariant, for any `Mx`. -/
theorem Own.xb {Mx : Constraint K P → Constraint K P → Prop} {a : Automaton K P}
    {own : Nat → Nat} {S : Nat → Prop} (inv : Inv a) (rs : RootSrc a) (O : Own a own S) :
    XB Mx a := by
  have hroot : ∀ x d c, HasEdge a x d c → d ≠ a.root := by
    rintro x d c ⟨t, ht⟩
    exact rs.2 t _ ht
  refine ⟨?_, ?_, ?_⟩
  · intro x d1 d2 c1 c2 h1 h2 hne _ i b1 b2
    have o1 := O.below inv rs b1 (hroot _ _ _ h1)
    have o2 := O.below inv rs b2 (hroot _ _ _ h2)
    by_cases hx : x = a.root
    · rw [hx] at h1 h2
      exact hne (O.rootout d1 d2 c1 c2 h1 h2 (o1.trans o2.symm)).1
    · exact hne (O.uniq x d1 d2 c1 c2 hx h1 h2).1
  · intro x i d c hi he hb
    have o1 := O.below inv rs hb (hroot _ _ _ he)
    by_cases hx : x = a.root
    · rw [hx] at hi
      exact O.rootid i hi x d c he o1
    · exact (O.leaf x i hi hx).2 d c he
  · intro x d c1 c2 h1 h2 hne _ i _
    by_cases hx : x = a.root
    · rw [hx] at h1 h2
      exact hne (O.rootout d d c1 c2 h1 h2 rfl).2
    · exact hne (O.uniq x d d c1 c2 hx h1 h2).2

/-! ### `new`, `addPatterns` -/

omit [DecidableEq K] [DecidableEq P] in
/-- The initial automaton has no transition and accepts nothing. -/
theorem own_new : Own (new : Automaton K P) (fun _ => 0) (fun _ => False) := by
  obtain ⟨_, hwt, hed, _⟩ := addNode_frame (inv_empty (K := K) (P := P)) ({} : AState K) rfl rfl
  have hnew : (new : Automaton K P) =
      ⟨((SGraph.empty : SGraph (AState K) (Option (Constraint K P))).addNode {}).1, 0⟩ := rfl
  have hidx : ((SGraph.empty : SGraph (AState K) (Option (Constraint K P))).addNode {}).2 = 0 := rfl
  rw [hidx] at hwt
  have hw : ∀ x, (new : Automaton K P).g.weight? x = if x = 0 then some {} else none := by
    intro x
    rw [hnew]
    show ((SGraph.empty : SGraph (AState K) (Option (Constraint K P))).addNode {}).1.weight? x = _
    rw [hwt]
    split
    · rfl
    · simp [SGraph.weight?, SGraph.node?, SGraph.empty]
  have he : ∀ t, (new : Automaton K P).g.edge? t = none := by
    intro t
    rw [hnew]
    show ((SGraph.empty : SGraph (AState K) (Option (Constraint K P))).addNode {}).1.edge? t = _
    rw [hed]
    simp [SGraph.edge?, SGraph.empty]
  have hE : ∀ x d c, ¬ HasEdge (new : Automaton K P) x d c := by
    rintro x d c ⟨t, ht⟩
    rw [he] at ht
    cases ht
  have hI : ∀ x i, ¬ (new : Automaton K P).Ids x i := by
    rintro x i ⟨w, hwx, hi⟩
    rw [hw] at hwx
    split at hwx
    · cases hwx; cases hi
    · cases hwx
  refine ⟨?_, ?_, ?_, ?_, ?_, ?_, ?_⟩
  · intro x d c h; exact absurd h (hE x d c)
  · intro x d c h; exact absurd h (hE x d c)
  · intro x i h; exact absurd h (hI x i)
  · intro x i h; exact absurd h (hI x i)
  · intro i h; exact absurd h (hI _ i)
  · intro d1 d2 c1 c2 h; exact absurd h (hE _ d1 c1)
  · intro x d1 d2 c1 c2 _ h; exact absurd h (hE x d1 c1)

omit [DecidableEq P] in
/-- `addPatterns` with fresh, distinct pattern ids keeps the trie invariant. -/
theorem own_addPatterns {req : K → List K} {fuel : Nat} :
    ∀ (patterns : List (Nat × List (Constraint K P) × List K)) {a0 a : Automaton K P}
      {own : Nat → Nat} {S : Nat → Prop},
      Inv a0 → RootSrc a0 → Own a0 own S → (∀ p ∈ patterns.map (·.1), ¬ S p) →
      (patterns.map (·.1)).Nodup → addPatterns req fuel a0 patterns = .ok a →
      Inv a ∧ RootSrc a ∧ ∃ own' S', Own a own' S'
  | [], a0, a, own, S, inv, rs, O, _, _, h => by
    unfold addPatterns at h
    cases h
    exact ⟨inv, rs, own, S, O⟩
  | (pid0, cs0, extra0) :: ps, a0, a, own, S, inv, rs, O, hfresh, hnd, h => by
    unfold addPatterns at h
    split at h
    · cases h
    · rename_i a1 hadd
      have ch := addPattern_chainE inv rs hadd
      have hp : ¬ S pid0 := hfresh pid0 List.mem_cons_self
      obtain ⟨rs1, O1⟩ := Own.step
        (own' := fun x => if a0.g.containsNode x = true then own x else pid0)
        (S' := fun i => S i ∨ i = pid0) inv rs O hp ch
        (fun x hx => if_pos hx) (fun x hx => if_neg hx) (fun i => Iff.rfl)
      rw [List.map_cons, List.nodup_cons] at hnd
      refine own_addPatterns ps ch.inv rs1 O1 ?_ hnd.2 h
      intro p hpm hs
      rcases hs with hs | hs
      · exact hfresh p (List.mem_cons_of_mem _ hpm) hs
      · exact hnd.1 (hs ▸ hpm)

/-- The trie built by `addPatterns` from distinct pattern ids satisfies the builder invariant of
C07, whatever the constraints are. -/
theorem xb_addPatterns {Mx : Constraint K P → Constraint K P → Prop} {req : K → List K}
    {fuel : Nat} {patterns : List (Nat × List (Constraint K P) × List K)} {a : Automaton K P}
    (hnd : (patterns.map (·.1)).Nodup)
    (h : addPatterns req fuel (Automaton.new : Automaton K P) patterns = .ok a) : XB Mx a := by
  obtain ⟨inv0, _, rs0, _, _⟩ := new_spec (K := K) (P := P)
  obtain ⟨inv1, rs1, own', S', O1⟩ :=
    own_addPatterns patterns inv0 rs0 own_new (fun _ _ hs => hs) hnd h
  exact O1.xb inv1 rs1

end C07
end Pm
