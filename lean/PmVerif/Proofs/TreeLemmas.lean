/-
Proofs/TreeLemmas.lean — helper lemmas for property C10 (constraint trees): node-array
operations, reachability (`Rch`) versus the executable `reachFrom`, depth-one trees
(`withChildren` and its clients), the stable sort, and the `with_powerset` worklist loop.
-/
import PmVerif.Spec.TreeSpec
import PmVerif.Model.TableDom
namespace Pm
namespace CTree
variable {C : Type}

/-! ### Node-array operations -/

theorem childrenAt_eq_nil_of_le (t : CTree C) {n : Nat} (h : t.nodes.length ≤ n) :
    t.childrenAt n = [] := by
  simp [childrenAt, List.getElem?_eq_none h]

theorem labelsAt_eq_nil_of_le (t : CTree C) {n : Nat} (h : t.nodes.length ≤ n) :
    t.labelsAt n = [] := by
  simp [labelsAt, List.getElem?_eq_none h]

@[simp] theorem length_modifyNode (t : CTree C) (n : Nat) (f) :
    (t.modifyNode n f).nodes.length = t.nodes.length := by
  simp [modifyNode]

@[simp] theorem makeDet_nodes (t : CTree C) (b : Bool) : ({ t with makeDet := b } : CTree C).nodes = t.nodes := rfl

theorem childrenAt_modifyNode (t : CTree C) (n m : Nat) (f : TreeNode C → TreeNode C) :
    (t.modifyNode n f).childrenAt m =
      if n = m then (t.nodes[m]?.map (fun nd => (f nd).children)).getD [] else t.childrenAt m := by
  unfold childrenAt modifyNode
  simp only [List.getElem?_modify]
  by_cases h : n = m
  · subst h; cases t.nodes[n]? <;> simp
  · cases t.nodes[m]? <;> simp [h]

theorem labelsAt_modifyNode (t : CTree C) (n m : Nat) (f : TreeNode C → TreeNode C) :
    (t.modifyNode n f).labelsAt m =
      if n = m then (t.nodes[m]?.map (fun nd => (f nd).labels)).getD [] else t.labelsAt m := by
  unfold labelsAt modifyNode
  simp only [List.getElem?_modify]
  by_cases h : n = m
  · subst h; cases t.nodes[n]? <;> simp
  · cases t.nodes[m]? <;> simp [h]

@[simp] theorem length_addLabel (t : CTree C) (n i : Nat) :
    (t.addLabel n i).nodes.length = t.nodes.length := by
  simp [addLabel]

@[simp] theorem childrenAt_addLabel (t : CTree C) (n i m : Nat) :
    (t.addLabel n i).childrenAt m = t.childrenAt m := by
  unfold addLabel
  rw [childrenAt_modifyNode]
  split
  · rfl
  · rfl

theorem mem_labelsAt_addLabel (t : CTree C) (n i m l : Nat) :
    l ∈ (t.addLabel n i).labelsAt m ↔
      l ∈ t.labelsAt m ∨ (m = n ∧ n < t.nodes.length ∧ l = i) := by
  unfold addLabel
  rw [labelsAt_modifyNode]
  by_cases h : n = m
  · subst h
    simp only [if_true, labelsAt]
    by_cases hn : n < t.nodes.length
    · simp [hn]
    · simp [hn]
  · simp only [if_neg h]
    constructor
    · exact Or.inl
    · rintro (h1 | ⟨h1, -⟩)
      · exact h1
      · exact absurd h1.symm h

theorem mem_allLabels (t : CTree C) (l : Nat) : l ∈ t.allLabels ↔ ∃ n, l ∈ t.labelsAt n := by
  unfold allLabels labelsAt
  rw [List.mem_flatMap]
  constructor
  · rintro ⟨nd, hnd, hl⟩
    obtain ⟨n, hn⟩ := List.mem_iff_getElem?.1 hnd
    exact ⟨n, by simp [hn, hl]⟩
  · rintro ⟨n, hn⟩
    cases h : t.nodes[n]? with
    | none => simp [h] at hn
    | some nd =>
      refine ⟨nd, List.mem_iff_getElem?.2 ⟨n, h⟩, ?_⟩
      simpa [h] using hn

end CTree
end Pm
namespace Pm
namespace CTree
variable {C : Type}

/-! ### Well-formed node arrays and reachability -/

/-- The node array is a tree: child indices are larger than their parent and in range, every
node has at most one incoming edge, and the root exists. -/
structure TreeWF (t : CTree C) : Prop where
  pos : 0 < t.nodes.length
  lt : ∀ n c m, (c, m) ∈ t.childrenAt n → n < m ∧ m < t.nodes.length
  uniq : ∀ n₁ c₁ n₂ c₂ m, (c₁, m) ∈ t.childrenAt n₁ → (c₂, m) ∈ t.childrenAt n₂ →
    n₁ = n₂ ∧ c₁ = c₂

/-- Reachability from the root along edges satisfied by `σ`. -/
inductive Rch (t : CTree C) (σ : C → Bool) : Nat → Prop
  | root : Rch t σ 0
  | edge {m : Nat} {c : C} {k : Nat} : Rch t σ m → (c, k) ∈ t.childrenAt m → σ c = true → Rch t σ k

/-- Length-indexed paths (head-recursive, like `reachFrom`). -/
def PathN (t : CTree C) (σ : C → Bool) : Nat → Nat → Nat → Prop
  | 0, n, k => n = k
  | L + 1, n, k => ∃ c m, (c, m) ∈ t.childrenAt n ∧ σ c = true ∧ PathN t σ L m k

theorem mem_reachFrom (t : CTree C) (σ : C → Bool) (fuel n k : Nat) :
    k ∈ t.reachFrom σ fuel n ↔ ∃ L, L ≤ fuel ∧ PathN t σ L n k := by
  induction fuel generalizing n with
  | zero =>
    simp only [reachFrom, List.mem_singleton, Nat.le_zero]
    constructor
    · intro h; exact ⟨0, rfl, h.symm⟩
    · rintro ⟨L, rfl, h⟩; exact h.symm
  | succ f ih =>
    simp only [reachFrom, List.mem_cons, List.mem_flatMap, List.mem_filter]
    constructor
    · rintro (h | ⟨ch, ⟨hch, hσ⟩, hk⟩)
      · exact ⟨0, Nat.zero_le _, h.symm⟩
      · obtain ⟨L, hL, hp⟩ := (ih _).1 hk
        exact ⟨L + 1, Nat.succ_le_succ hL, ch.1, ch.2, hch, hσ, hp⟩
    · rintro ⟨L, hL, hp⟩
      cases L with
      | zero => exact Or.inl hp.symm
      | succ L =>
        obtain ⟨c, m, hcm, hσ, hp⟩ := hp
        exact Or.inr ⟨(c, m), ⟨hcm, hσ⟩, (ih _).2 ⟨L, Nat.le_of_succ_le_succ hL, hp⟩⟩

theorem PathN_snoc (t : CTree C) (σ : C → Bool) {L n m k : Nat} {c : C}
    (hp : PathN t σ L n m) (he : (c, k) ∈ t.childrenAt m) (hσ : σ c = true) :
    PathN t σ (L + 1) n k := by
  induction L generalizing n with
  | zero => cases hp; exact ⟨c, k, he, hσ, rfl⟩
  | succ L ih =>
    obtain ⟨c', m', h1, h2, h3⟩ := hp
    exact ⟨c', m', h1, h2, ih h3⟩

theorem Rch_iff_PathN (t : CTree C) (σ : C → Bool) (k : Nat) :
    Rch t σ k ↔ ∃ L, PathN t σ L 0 k := by
  constructor
  · intro h
    induction h with
    | root => exact ⟨0, rfl⟩
    | edge _ he hσ ih =>
      obtain ⟨L, hp⟩ := ih
      exact ⟨L + 1, PathN_snoc t σ hp he hσ⟩
  · rintro ⟨L, hp⟩
    -- generalise the start node
    suffices h : ∀ L n, Rch t σ n → PathN t σ L n k → Rch t σ k from h L 0 .root hp
    intro L
    induction L with
    | zero => intro n hn hp; cases hp; exact hn
    | succ L ih =>
      intro n hn hp
      obtain ⟨c, m, h1, h2, h3⟩ := hp
      exact ih m (.edge hn h1 h2) h3

theorem PathN_bound {t : CTree C} (wf : TreeWF t) (σ : C → Bool) {L n k : Nat}
    (hp : PathN t σ L n k) : n + L ≤ k ∧ (0 < L → k < t.nodes.length) := by
  induction L generalizing n with
  | zero => cases hp; exact ⟨Nat.le_refl _, fun h => absurd h (Nat.lt_irrefl _)⟩
  | succ L ih =>
    obtain ⟨c, m, h1, h2, h3⟩ := hp
    have hlt := wf.lt n c m h1
    have := ih h3
    refine ⟨by omega, fun _ => ?_⟩
    cases L with
    | zero => cases h3; exact hlt.2
    | succ L => exact this.2 (Nat.succ_pos _)

/-- On a well-formed tree the executable `reachLabel` is root reachability of a labelled node. -/
theorem reachLabel_iff {t : CTree C} (wf : TreeWF t) (σ : C → Bool) (i : Nat) :
    t.reachLabel σ i = true ↔ ∃ k, Rch t σ k ∧ i ∈ t.labelsAt k := by
  unfold reachLabel
  rw [List.any_eq_true]
  constructor
  · rintro ⟨k, hk, hl⟩
    obtain ⟨L, -, hp⟩ := (mem_reachFrom t σ _ _ _).1 hk
    exact ⟨k, (Rch_iff_PathN t σ k).2 ⟨L, hp⟩, by simpa using hl⟩
  · rintro ⟨k, hk, hl⟩
    obtain ⟨L, hp⟩ := (Rch_iff_PathN t σ k).1 hk
    refine ⟨k, (mem_reachFrom t σ _ _ _).2 ⟨L, ?_, hp⟩, by simpa using hl⟩
    have hb := PathN_bound wf σ hp
    cases L with
    | zero => exact Nat.zero_le _
    | succ L => have := hb.2 (Nat.succ_pos _); omega

theorem Rch_inv {t : CTree C} {σ : C → Bool} {k : Nat} (h : Rch t σ k) :
    k = 0 ∨ ∃ m c, Rch t σ m ∧ (c, k) ∈ t.childrenAt m ∧ σ c = true := by
  cases h with
  | root => exact Or.inl rfl
  | edge hm he hσ => exact Or.inr ⟨_, _, hm, he, hσ⟩

/-- With a unique parent, a non-root node is reachable iff its parent is and the edge holds. -/
theorem Rch_child_iff {t : CTree C} (wf : TreeWF t) (σ : C → Bool) {n k : Nat} {c : C}
    (he : (c, k) ∈ t.childrenAt n) : Rch t σ k ↔ Rch t σ n ∧ σ c = true := by
  constructor
  · intro h
    rcases Rch_inv h with h0 | ⟨m, c', hm, he', hσ⟩
    · have := (wf.lt n c k he).1; omega
    · obtain ⟨rfl, rfl⟩ := wf.uniq _ _ _ _ _ he' he
      exact ⟨hm, hσ⟩
  · rintro ⟨hn, hσ⟩
    exact .edge hn he hσ

theorem Rch_mono {t t' : CTree C} {σ : C → Bool}
    (hsub : ∀ n c m, (c, m) ∈ t.childrenAt n → (c, m) ∈ t'.childrenAt n) {k : Nat}
    (h : Rch t σ k) : Rch t' σ k := by
  induction h with
  | root => exact .root
  | edge _ he hσ ih => exact .edge ih (hsub _ _ _ he) hσ

/-- If the only new edges of `t'` lead to the childless node `idx`, old nodes are reachable in
`t'` only if they were in `t`. -/
theorem Rch_anti {t t' : CTree C} {σ : C → Bool} {idx : Nat}
    (hold : ∀ n c m, (c, m) ∈ t'.childrenAt n → m ≠ idx → (c, m) ∈ t.childrenAt n)
    (hleaf : t'.childrenAt idx = []) {k : Nat} (h : Rch t' σ k) (hk : k ≠ idx) : Rch t σ k := by
  induction h with
  | root => exact .root
  | @edge m c k hm he hσ ih =>
    have hm' : m ≠ idx := by
      rintro rfl; rw [hleaf] at he; cases he
    exact .edge (ih hm') (hold _ _ _ he hk) hσ

theorem Rch_addLabel (t : CTree C) (σ : C → Bool) (n i k : Nat) :
    Rch (t.addLabel n i) σ k ↔ Rch t σ k :=
  ⟨Rch_mono (fun _ _ _ h => by simpa using h), Rch_mono (fun _ _ _ h => by simpa using h)⟩

theorem TreeWF_addLabel {t : CTree C} (wf : TreeWF t) (n i : Nat) : TreeWF (t.addLabel n i) where
  pos := by simpa using wf.pos
  lt := by simpa using wf.lt
  uniq := by simpa using wf.uniq

theorem TreeWF_new : TreeWF (new : CTree C) where
  pos := by simp [new]
  lt := by
    intro n c m h
    cases n <;> simp [new, childrenAt] at h
  uniq := by
    intro n c m _ _ h
    cases n <;> simp [new, childrenAt] at h

end CTree
end Pm
namespace Pm
namespace CTree
variable {C : Type}

/-! ### `getOrAddChild` -/

theorem childrenAt_push (t : CTree C) (b : Bool) (m : Nat) :
    ({ nodes := t.nodes ++ [⟨[], []⟩], makeDet := b } : CTree C).childrenAt m = t.childrenAt m := by
  unfold childrenAt
  simp only [List.getElem?_append]
  split
  · rfl
  · next h =>
    have h' : t.nodes.length ≤ m := Nat.le_of_not_lt h
    rw [List.getElem?_eq_none h']
    cases hm : m - t.nodes.length <;> simp

theorem labelsAt_push (t : CTree C) (b : Bool) (m : Nat) :
    ({ nodes := t.nodes ++ [⟨[], []⟩], makeDet := b } : CTree C).labelsAt m = t.labelsAt m := by
  unfold labelsAt
  simp only [List.getElem?_append]
  split
  · rfl
  · next h =>
    have h' : t.nodes.length ≤ m := Nat.le_of_not_lt h
    rw [List.getElem?_eq_none h']
    cases hm : m - t.nodes.length <;> simp

/-- What `getOrAddChild t n c = (t', k)` guarantees on a well-formed tree with `n` in range. -/
structure GocSpec (t : CTree C) (n : Nat) (c : C) (t' : CTree C) (k : Nat) : Prop where
  wf : TreeWF t'
  len : t.nodes.length ≤ t'.nodes.length
  klt : k < t'.nodes.length
  edge : (c, k) ∈ t'.childrenAt n
  labels : ∀ m, t'.labelsAt m = t.labelsAt m
  children : ∀ m c₂ k₂, (c₂, k₂) ∈ t'.childrenAt m ↔
    (c₂, k₂) ∈ t.childrenAt m ∨ (m = n ∧ c₂ = c ∧ k₂ = k)
  cases : (t' = t ∧ (c, k) ∈ t.childrenAt n) ∨
    ((∀ k', (c, k') ∉ t.childrenAt n) ∧ k = t.nodes.length ∧
      t'.nodes.length = t.nodes.length + 1)
  makeDet : t'.makeDet = t.makeDet
  rchOld : ∀ (σ : C → Bool) m, m < t.nodes.length → (Rch t' σ m ↔ Rch t σ m)

theorem getOrAddChild_spec [DecidableEq C] {t : CTree C} (wf : TreeWF t) {n : Nat}
    (hn : n < t.nodes.length) (c : C) :
    GocSpec t n c (t.getOrAddChild n c).1 (t.getOrAddChild n c).2 := by
  unfold getOrAddChild
  cases hf : (t.childrenAt n).find? (fun ch => ch.1 = c) with
  | some ch =>
    have hmem := List.mem_of_find?_eq_some hf
    have hc : ch.1 = c := by simpa using List.find?_some hf
    have hmem' : (c, ch.2) ∈ t.childrenAt n := by rw [← hc]; exact hmem
    exact {
      wf := wf
      len := Nat.le_refl _
      klt := (wf.lt _ _ _ hmem').2
      edge := hmem'
      labels := fun _ => rfl
      children := by
        intro m c₂ k₂
        constructor
        · exact Or.inl
        · rintro (h | ⟨rfl, rfl, rfl⟩)
          · exact h
          · exact hmem'
      cases := Or.inl ⟨rfl, hmem'⟩
      makeDet := rfl
      rchOld := fun _ _ _ => Iff.rfl }
  | none =>
    have hnone : ∀ k', (c, k') ∉ t.childrenAt n := by
      intro k' hk'
      have := List.find?_eq_none.1 hf _ hk'
      simp at this
    -- children of the new tree
    have hch : ∀ m, (CTree.modifyNode { nodes := t.nodes ++ [⟨[], []⟩], makeDet := t.makeDet } n
        fun nd => { nd with children := nd.children ++ [(c, t.nodes.length)] }).childrenAt m =
        if n = m then t.childrenAt n ++ [(c, t.nodes.length)] else t.childrenAt m := by
      intro m
      rw [childrenAt_modifyNode]
      by_cases h : n = m
      · subst h
        simp [childrenAt, List.getElem?_append_left hn, List.getElem?_eq_getElem hn]
      · simp only [if_neg h]
        exact childrenAt_push t _ m
    have hlab : ∀ m, (CTree.modifyNode { nodes := t.nodes ++ [⟨[], []⟩], makeDet := t.makeDet } n
        fun nd => { nd with children := nd.children ++ [(c, t.nodes.length)] }).labelsAt m =
        t.labelsAt m := by
      intro m
      rw [labelsAt_modifyNode]
      by_cases h : n = m
      · subst h
        simp [labelsAt, List.getElem?_append_left hn, List.getElem?_eq_getElem hn]
      · simp only [if_neg h]
        exact labelsAt_push t _ m
    have hmem : ∀ m c₂ k₂, (c₂, k₂) ∈ (if n = m then t.childrenAt n ++ [(c, t.nodes.length)]
        else t.childrenAt m) ↔
        (c₂, k₂) ∈ t.childrenAt m ∨ (m = n ∧ c₂ = c ∧ k₂ = t.nodes.length) := by
      intro m c₂ k₂
      by_cases h : n = m
      · subst h; simp
      · simp only [if_neg h]
        constructor
        · exact Or.inl
        · rintro (h1 | ⟨h1, -⟩)
          · exact h1
          · exact absurd h1.symm h
    have hchildren : ∀ m c₂ k₂, (c₂, k₂) ∈ (CTree.modifyNode
        { nodes := t.nodes ++ [⟨[], []⟩], makeDet := t.makeDet } n
        fun nd => { nd with children := nd.children ++ [(c, t.nodes.length)] }).childrenAt m ↔
        (c₂, k₂) ∈ t.childrenAt m ∨ (m = n ∧ c₂ = c ∧ k₂ = t.nodes.length) := by
      intro m c₂ k₂; rw [hch]; exact hmem m c₂ k₂
    have hlen : (CTree.modifyNode { nodes := t.nodes ++ [⟨[], []⟩], makeDet := t.makeDet } n
        fun nd => { nd with children := nd.children ++ [(c, t.nodes.length)] }).nodes.length =
        t.nodes.length + 1 := by simp
    have hwf : TreeWF (CTree.modifyNode { nodes := t.nodes ++ [⟨[], []⟩], makeDet := t.makeDet } n
        fun nd => { nd with children := nd.children ++ [(c, t.nodes.length)] }) := {
      pos := by rw [hlen]; exact Nat.succ_pos _
      lt := by
        intro m c₂ k₂ h
        rw [hlen]
        rcases (hchildren _ _ _).1 h with h | ⟨rfl, rfl, rfl⟩
        · have := wf.lt _ _ _ h; omega
        · omega
      uniq := by
        intro n₁ c₁ n₂ c₂ m h₁ h₂
        rcases (hchildren _ _ _).1 h₁ with e₁ | ⟨e₁, e₁', e₁''⟩
        · rcases (hchildren _ _ _).1 h₂ with e₂ | ⟨e₂, e₂', e₂''⟩
          · exact wf.uniq _ _ _ _ _ e₁ e₂
          · have := (wf.lt _ _ _ e₁).2; omega
        · rcases (hchildren _ _ _).1 h₂ with e₂ | ⟨e₂, e₂', e₂''⟩
          · have := (wf.lt _ _ _ e₂).2; omega
          · exact ⟨e₁.trans e₂.symm, e₁'.trans e₂'.symm⟩ }
    exact {
      wf := hwf
      len := by rw [hlen]; omega
      klt := by show t.nodes.length < _; rw [hlen]; omega
      edge := (hchildren _ _ _).2 (Or.inr ⟨rfl, rfl, rfl⟩)
      labels := hlab
      children := hchildren
      cases := Or.inr ⟨hnone, rfl, hlen⟩
      makeDet := rfl
      rchOld := by
        intro σ m hm
        constructor
        · intro h
          refine Rch_anti (idx := t.nodes.length) ?_ ?_ h (by omega)
          · intro n' c' m' he hne
            rcases (hchildren _ _ _).1 he with he | ⟨-, -, rfl⟩
            · exact he
            · exact absurd rfl hne
          · rw [hch, if_neg (by omega)]
            exact childrenAt_eq_nil_of_le t (Nat.le_refl _)
        · exact Rch_mono (fun _ _ _ he => (hchildren _ _ _).2 (Or.inl he)) }

theorem GocSpec.rchChild {t t' : CTree C} {n k : Nat} {c : C} (h : GocSpec t n c t' k)
    (hn : n < t.nodes.length) (σ : C → Bool) : Rch t' σ k ↔ Rch t σ n ∧ σ c = true := by
  rw [Rch_child_iff h.wf σ h.edge, h.rchOld σ n hn]

theorem GocSpec.rchMono {t t' : CTree C} {n k : Nat} {c : C} (h : GocSpec t n c t' k)
    (σ : C → Bool) {m : Nat} (hm : Rch t σ m) : Rch t' σ m :=
  Rch_mono (fun _ _ _ he => (h.children _ _ _).2 (Or.inl he)) hm

end CTree
end Pm
namespace Pm
namespace CTree
variable {C : Type}

/-! ### The `makeDet` flag is irrelevant for the semantics -/

theorem flatMap_congr' {α β : Type} {l : List α} {f g : α → List β}
    (h : ∀ a ∈ l, f a = g a) : l.flatMap f = l.flatMap g := by
  induction l with
  | nil => rfl
  | cons a l ih =>
    simp only [List.flatMap_cons]
    rw [h a (List.mem_cons_self ..), ih (fun b hb => h b (List.mem_cons_of_mem _ hb))]

theorem reachFrom_makeDet (t : CTree C) (b : Bool) (σ : C → Bool) (fuel n : Nat) :
    ({ t with makeDet := b } : CTree C).reachFrom σ fuel n = t.reachFrom σ fuel n := by
  induction fuel generalizing n with
  | zero => rfl
  | succ f ih =>
    simp only [reachFrom]
    congr 1
    exact flatMap_congr' (fun ch _ => ih ch.2)

@[simp] theorem reachLabel_makeDet (t : CTree C) (b : Bool) (σ : C → Bool) (i : Nat) :
    ({ t with makeDet := b } : CTree C).reachLabel σ i = t.reachLabel σ i := by
  unfold reachLabel
  rw [reachFrom_makeDet]
  rfl

@[simp] theorem allLabels_makeDet (t : CTree C) (b : Bool) :
    ({ t with makeDet := b } : CTree C).allLabels = t.allLabels := rfl

/-! ### Adding several labels to one node -/

theorem length_addLabels (t : CTree C) (k : Nat) (ls : List Nat) :
    (ls.foldl (fun t i => t.addLabel k i) t).nodes.length = t.nodes.length := by
  induction ls generalizing t with
  | nil => rfl
  | cons l ls ih => simp only [List.foldl_cons]; rw [ih]; simp

theorem childrenAt_addLabels (t : CTree C) (k : Nat) (ls : List Nat) (m : Nat) :
    (ls.foldl (fun t i => t.addLabel k i) t).childrenAt m = t.childrenAt m := by
  induction ls generalizing t with
  | nil => rfl
  | cons l ls ih => simp only [List.foldl_cons]; rw [ih]; simp

theorem mem_labelsAt_addLabels (t : CTree C) (k : Nat) (ls : List Nat) (m l : Nat) :
    l ∈ (ls.foldl (fun t i => t.addLabel k i) t).labelsAt m ↔
      l ∈ t.labelsAt m ∨ (m = k ∧ k < t.nodes.length ∧ l ∈ ls) := by
  induction ls generalizing t with
  | nil => simp
  | cons a ls ih =>
    simp only [List.foldl_cons]
    rw [ih, mem_labelsAt_addLabel, length_addLabel, List.mem_cons]
    constructor
    · rintro ((h | ⟨h1, h2, h3⟩) | ⟨h1, h2, h3⟩)
      · exact Or.inl h
      · exact Or.inr ⟨h1, h2, Or.inl h3⟩
      · exact Or.inr ⟨h1, h2, Or.inr h3⟩
    · rintro (h | ⟨h1, h2, h3 | h3⟩)
      · exact Or.inl (Or.inl h)
      · exact Or.inl (Or.inr ⟨h1, h2, h3⟩)
      · exact Or.inr ⟨h1, h2, h3⟩

theorem TreeWF_addLabels {t : CTree C} (wf : TreeWF t) (k : Nat) (ls : List Nat) :
    TreeWF (ls.foldl (fun t i => t.addLabel k i) t) := by
  induction ls generalizing t with
  | nil => exact wf
  | cons l ls ih => exact ih (TreeWF_addLabel wf k l)

/-! ### `withChildren` -/

/-- Invariant of the `withChildren` fold after processing `done`. -/
structure D1 (t : CTree C) (done : List (C × List Nat)) : Prop where
  wf : TreeWF t
  distinct : ∀ c m₁ m₂, (c, m₁) ∈ t.childrenAt 0 → (c, m₂) ∈ t.childrenAt 0 → m₁ = m₂
  labels : ∀ m l, l ∈ t.labelsAt m ↔ ∃ ch ∈ done, l ∈ ch.2 ∧ (ch.1, m) ∈ t.childrenAt 0
  present : ∀ ch ∈ done, ∃ m, (ch.1, m) ∈ t.childrenAt 0

theorem D1_new : D1 (new : CTree C) [] where
  wf := TreeWF_new
  distinct := by intro c m₁ m₂ h; simp [new, childrenAt] at h
  labels := by
    intro m l
    cases m <;> simp [new, labelsAt]
  present := by intro ch h; cases h

/-- One step of the `withChildren` fold. -/
def wcStep [DecidableEq C] (t : CTree C) (ch : C × List Nat) : CTree C :=
  ch.2.foldl (fun t' i => t'.addLabel (t.getOrAddChild 0 ch.1).2 i) (t.getOrAddChild 0 ch.1).1

theorem withChildren_eq [DecidableEq C] (children : List (C × List Nat)) :
    withChildren children = children.foldl wcStep new := rfl

theorem D1_step [DecidableEq C] {t : CTree C} {done : List (C × List Nat)} (h : D1 t done)
    (ch : C × List Nat) : D1 (wcStep t ch) (done ++ [ch]) := by
  have g := getOrAddChild_spec h.wf h.wf.pos ch.1
  unfold wcStep
  generalize (t.getOrAddChild 0 ch.1).1 = t' at g
  generalize (t.getOrAddChild 0 ch.1).2 = k at g
  have hch : ∀ m, (ch.2.foldl (fun t' i => t'.addLabel k i) t').childrenAt m = t'.childrenAt m :=
    childrenAt_addLabels t' k ch.2
  have hdist : ∀ c m₁ m₂, (c, m₁) ∈ t'.childrenAt 0 → (c, m₂) ∈ t'.childrenAt 0 → m₁ = m₂ := by
    intro c m₁ m₂ h₁ h₂
    rcases g.cases with ⟨rfl, -⟩ | ⟨hno, -, -⟩
    · exact h.distinct c m₁ m₂ h₁ h₂
    · rcases (g.children _ _ _).1 h₁ with e₁ | ⟨-, e₁, e₁'⟩
      · rcases (g.children _ _ _).1 h₂ with e₂ | ⟨-, e₂, e₂'⟩
        · exact h.distinct c m₁ m₂ e₁ e₂
        · subst e₂; exact absurd e₁ (hno _)
      · rcases (g.children _ _ _).1 h₂ with e₂ | ⟨-, e₂, e₂'⟩
        · subst e₁; exact absurd e₂ (hno _)
        · exact e₁'.trans e₂'.symm
  refine ⟨TreeWF_addLabels g.wf k ch.2, ?_, ?_, ?_⟩
  · intro c m₁ m₂; rw [hch]; exact hdist c m₁ m₂
  · intro m l
    rw [mem_labelsAt_addLabels, hch, g.labels, h.labels]
    constructor
    · rintro (⟨ch', hch', hl, he⟩ | ⟨rfl, -, hl⟩)
      · exact ⟨ch', List.mem_append_left _ hch', hl, (g.children _ _ _).2 (Or.inl he)⟩
      · exact ⟨ch, List.mem_append_right _ (List.mem_singleton_self _), hl, g.edge⟩
    · rintro ⟨ch', hch', hl, he⟩
      rcases List.mem_append.1 hch' with hd | hd
      · rcases (g.children _ _ _).1 he with e | ⟨-, e, e'⟩
        · exact Or.inl ⟨ch', hd, hl, e⟩
        · obtain ⟨m', hm'⟩ := h.present ch' hd
          rcases g.cases with ⟨rfl, hk⟩ | ⟨hno, -, -⟩
          · exact Or.inl ⟨ch', hd, hl, he⟩
          · rw [e] at hm'; exact absurd hm' (hno _)
      · have : ch' = ch := by simpa using hd
        subst this
        exact Or.inr ⟨hdist _ _ _ he g.edge, g.klt, hl⟩
  · intro ch' hch'
    rcases List.mem_append.1 hch' with hd | hd
    · obtain ⟨m, hm⟩ := h.present ch' hd
      exact ⟨m, by rw [hch]; exact (g.children _ _ _).2 (Or.inl hm)⟩
    · have : ch' = ch := by simpa using hd
      subst this
      exact ⟨k, by rw [hch]; exact g.edge⟩

theorem D1_foldl [DecidableEq C] (rest : List (C × List Nat)) {t : CTree C}
    {done : List (C × List Nat)} (h : D1 t done) : D1 (rest.foldl wcStep t) (done ++ rest) := by
  induction rest generalizing t done with
  | nil => simpa using h
  | cons ch rest ih =>
    have := ih (D1_step h ch)
    simpa using this

theorem D1_withChildren [DecidableEq C] (children : List (C × List Nat)) :
    D1 (withChildren children) children := by
  have := D1_foldl children (D1_new (C := C))
  simpa [withChildren_eq] using this

theorem withChildren_reach [DecidableEq C] (children : List (C × List Nat)) (σ : C → Bool)
    (i : Nat) : (withChildren children).reachLabel σ i = true ↔
      ∃ ch ∈ children, i ∈ ch.2 ∧ σ ch.1 = true := by
  have d := D1_withChildren children
  rw [reachLabel_iff d.wf]
  constructor
  · rintro ⟨k, hk, hl⟩
    obtain ⟨ch, hch, hi, he⟩ := (d.labels _ _).1 hl
    exact ⟨ch, hch, hi, ((Rch_child_iff d.wf σ he).1 hk).2⟩
  · rintro ⟨ch, hch, hi, hσ⟩
    obtain ⟨m, hm⟩ := d.present ch hch
    exact ⟨m, .edge .root hm hσ, (d.labels _ _).2 ⟨ch, hch, hi, hm⟩⟩

theorem withChildren_labels [DecidableEq C] (children : List (C × List Nat)) (i : Nat) :
    i ∈ (withChildren children).allLabels ↔ ∃ ch ∈ children, i ∈ ch.2 := by
  have d := D1_withChildren children
  rw [mem_allLabels]
  constructor
  · rintro ⟨n, hn⟩
    obtain ⟨ch, hch, hi, -⟩ := (d.labels _ _).1 hn
    exact ⟨ch, hch, hi⟩
  · rintro ⟨ch, hch, hi⟩
    obtain ⟨m, hm⟩ := d.present ch hch
    exact ⟨m, (d.labels _ _).2 ⟨ch, hch, hi, hm⟩⟩

/-- Singleton-label children built from `(constraint, index)` pairs. -/
theorem withChildren_pairs_reach [DecidableEq C] (kept : List (C × Nat)) (σ : C → Bool) (i : Nat) :
    (withChildren (kept.map fun ci => (ci.1, [ci.2]))).reachLabel σ i = true ↔
      ∃ c, (c, i) ∈ kept ∧ σ c = true := by
  rw [withChildren_reach]
  constructor
  · rintro ⟨ch, hch, hi, hσ⟩
    obtain ⟨ci, hci, rfl⟩ := List.mem_map.1 hch
    have : i = ci.2 := by simpa using hi
    subst this
    exact ⟨ci.1, hci, hσ⟩
  · rintro ⟨c, hc, hσ⟩
    exact ⟨(c, [i]), List.mem_map.2 ⟨(c, i), hc, rfl⟩, by simp, hσ⟩

theorem withChildren_pairs_labels [DecidableEq C] (kept : List (C × Nat)) (i : Nat) :
    i ∈ (withChildren (kept.map fun ci => (ci.1, [ci.2]))).allLabels ↔ ∃ c, (c, i) ∈ kept := by
  rw [withChildren_labels]
  constructor
  · rintro ⟨ch, hch, hi⟩
    obtain ⟨ci, hci, rfl⟩ := List.mem_map.1 hch
    have : i = ci.2 := by simpa using hi
    subst this
    exact ⟨ci.1, hci⟩
  · rintro ⟨c, hc⟩
    exact ⟨(c, [i]), List.mem_map.2 ⟨(c, i), hc, rfl⟩, by simp⟩

end CTree
end Pm
namespace Pm

/-! ### `sortWithIndices` -/
section SortLemmas
variable {α : Type}

theorem insertSorted_perm (le : α → α → Bool) (x : α × Nat) (l : List (α × Nat)) :
    (insertSorted le x l).Perm (x :: l) := by
  induction l with
  | nil => exact List.Perm.refl _
  | cons y ys ih =>
    simp only [insertSorted]
    split
    · exact ((List.Perm.cons y ih).trans (List.Perm.swap x y ys))
    · exact List.Perm.refl _

theorem sortFold_perm (le : α → α → Bool) (l acc : List (α × Nat)) :
    (l.foldl (fun acc x => insertSorted le x acc) acc).Perm (l ++ acc) := by
  induction l generalizing acc with
  | nil => exact List.Perm.refl _
  | cons x xs ih =>
    simp only [List.foldl_cons, List.cons_append]
    exact (ih _).trans ((List.Perm.append_left xs (insertSorted_perm le x acc)).trans
      List.perm_middle)

theorem sortWithIndices_perm (le : α → α → Bool) (xs : List α) :
    (sortWithIndices le xs).Perm (xs.zip (List.range xs.length)) := by
  have := sortFold_perm le (xs.zip (List.range xs.length)) []
  simpa [sortWithIndices] using this

theorem mem_zip_range {xs : List α} {x : α} {i : Nat} :
    (x, i) ∈ xs.zip (List.range xs.length) ↔ xs[i]? = some x := by
  rw [List.mem_iff_getElem?]
  constructor
  · rintro ⟨j, hj⟩
    obtain ⟨h1, h2⟩ := List.getElem?_zip_eq_some.1 hj
    have hjlt : j < xs.length := by
      have := (List.getElem?_eq_some_iff.1 h2).1
      simpa using this
    rw [List.getElem?_range hjlt] at h2
    cases h2
    exact h1
  · intro h
    have hlt : i < xs.length := (List.getElem?_eq_some_iff.1 h).1
    exact ⟨i, List.getElem?_zip_eq_some.2 ⟨h, List.getElem?_range hlt⟩⟩

theorem mem_sortWithIndices (le : α → α → Bool) (xs : List α) (x : α) (i : Nat) :
    (x, i) ∈ sortWithIndices le xs ↔ xs[i]? = some x := by
  rw [(sortWithIndices_perm le xs).mem_iff, mem_zip_range]

theorem sortWithIndices_nodup (le : α → α → Bool) (xs : List α) :
    ((sortWithIndices le xs).map (·.2)).Nodup := by
  rw [((sortWithIndices_perm le xs).map (·.2)).nodup_iff]
  rw [show (xs.zip (List.range xs.length)).map (·.2) = List.range xs.length from
    List.map_snd_zip (by simp)]
  exact List.nodup_range

/-- Sorted by `le`, ties broken by increasing original index. -/
def SortedBy (le : α → α → Bool) (l : List (α × Nat)) : Prop :=
  l.Pairwise fun a b => le a.1 b.1 = true ∧ (le b.1 a.1 = true → a.2 < b.2)

theorem insertSorted_sorted {le : α → α → Bool} (tp : TotalPreorder le) (x : α × Nat)
    (l : List (α × Nat)) (hs : SortedBy le l) (hx : ∀ y ∈ l, y.2 < x.2) :
    SortedBy le (insertSorted le x l) := by
  induction l with
  | nil => exact List.pairwise_singleton _ _
  | cons y ys ih =>
    have hs' := List.pairwise_cons.1 hs
    simp only [insertSorted]
    split
    · next hle =>
      refine List.pairwise_cons.2 ⟨?_, ih hs'.2 (fun z hz => hx z (List.mem_cons_of_mem _ hz))⟩
      intro z hz
      rcases List.mem_cons.1 ((insertSorted_perm le x ys).mem_iff.1 hz) with rfl | hz
      · exact ⟨hle, fun _ => hx y (List.mem_cons_self ..)⟩
      · exact hs'.1 z hz
    · next hle =>
      have hxy : le x.1 y.1 = true := by
        rcases tp.total x.1 y.1 with h | h
        · exact h
        · exact absurd h hle
      refine List.pairwise_cons.2 ⟨?_, hs⟩
      intro z hz
      rcases List.mem_cons.1 hz with rfl | hz
      · exact ⟨hxy, fun h => absurd h hle⟩
      · have hyz := hs'.1 z hz
        exact ⟨tp.trans _ _ _ hxy hyz.1, fun h => absurd (tp.trans _ _ _ hyz.1 h) hle⟩

theorem sortFold_sorted {le : α → α → Bool} (tp : TotalPreorder le) (l acc : List (α × Nat))
    (hs : SortedBy le acc) (hlt : ∀ y ∈ acc, ∀ x ∈ l, y.2 < x.2)
    (hl : l.Pairwise fun a b => a.2 < b.2) :
    SortedBy le (l.foldl (fun acc x => insertSorted le x acc) acc) := by
  induction l generalizing acc with
  | nil => exact hs
  | cons x xs ih =>
    have hl' := List.pairwise_cons.1 hl
    simp only [List.foldl_cons]
    refine ih _ (insertSorted_sorted tp x acc hs (fun y hy => hlt y hy x (List.mem_cons_self ..)))
      ?_ hl'.2
    intro y hy z hz
    rcases List.mem_cons.1 ((insertSorted_perm le x acc).mem_iff.1 hy) with rfl | hy
    · exact hl'.1 z hz
    · exact hlt y hy z (List.mem_cons_of_mem _ hz)

theorem sortWithIndices_sorted {le : α → α → Bool} (tp : TotalPreorder le) (xs : List α) :
    SortedBy le (sortWithIndices le xs) := by
  unfold sortWithIndices
  refine sortFold_sorted tp _ [] List.Pairwise.nil (fun _ h => by cases h) ?_
  have h : ((xs.zip (List.range xs.length)).map (·.2)).Pairwise (· < ·) := by
    rw [show (xs.zip (List.range xs.length)).map (·.2) = List.range xs.length from
      List.map_snd_zip (by simp)]
    exact List.pairwise_lt_range
  exact List.pairwise_map.1 h

theorem sortWithIndices_head_min {le : α → α → Bool} (tp : TotalPreorder le) (xs : List α)
    {x : α} {i : Nat} {rest : List (α × Nat)} (h : sortWithIndices le xs = (x, i) :: rest) :
    (∀ y ∈ xs, le x y = true) ∧ (∀ j y, xs[j]? = some y → le y x = true → i ≤ j) := by
  have hs := sortWithIndices_sorted tp xs
  rw [h] at hs
  have hs' := (List.pairwise_cons.1 hs).1
  have key : ∀ j y, xs[j]? = some y → (y, j) = (x, i) ∨ (y, j) ∈ rest := by
    intro j y hj
    have := (mem_sortWithIndices le xs y j).2 hj
    rw [h] at this
    exact List.mem_cons.1 this
  constructor
  · intro y hy
    obtain ⟨j, hj⟩ := List.mem_iff_getElem?.1 hy
    rcases key j y hj with e | e
    · cases e
      rcases tp.total x x with h | h <;> exact h
    · exact (hs' _ e).1
  · intro j y hj hle
    rcases key j y hj with e | e
    · cases e; exact Nat.le_refl _
    · exact Nat.le_of_lt ((hs' _ e).2 hle)

theorem sortWithIndices_ne_nil (le : α → α → Bool) {xs : List α} (h : xs ≠ []) :
    sortWithIndices le xs ≠ [] := by
  intro he
  have := (sortWithIndices_perm le xs).length_eq
  rw [he] at this
  cases xs with
  | nil => exact h rfl
  | cons a as => simp at this

end SortLemmas
end Pm
namespace Pm
open CTree
variable {C : Type}

/-! ### Depth-one trees given by a list of kept `(constraint, index)` pairs -/

/-- `t` behaves like the depth-one tree with one singleton-labelled child per kept pair. -/
structure PairsTree (t : CTree C) (kept : List (C × Nat)) : Prop where
  labels : ∀ i, i ∈ t.allLabels ↔ ∃ c, (c, i) ∈ kept
  reach : ∀ (σ : C → Bool) i, t.reachLabel σ i = true ↔ ∃ c, (c, i) ∈ kept ∧ σ c = true

theorem PairsTree_withChildren [DecidableEq C] (kept : List (C × Nat)) (b : Bool) :
    PairsTree ({ withChildren (kept.map fun ci => (ci.1, [ci.2])) with makeDet := b }) kept where
  labels := fun i => by rw [allLabels_makeDet]; exact withChildren_pairs_labels kept i
  reach := fun σ i => by rw [reachLabel_makeDet]; exact withChildren_pairs_reach kept σ i

theorem PairsTree_withChildren' [DecidableEq C] (kept : List (C × Nat)) :
    PairsTree (withChildren (kept.map fun ci => (ci.1, [ci.2]))) kept where
  labels := fun i => withChildren_pairs_labels kept i
  reach := fun σ i => withChildren_pairs_reach kept σ i

theorem PairsTree_new : PairsTree (CTree.new : CTree C) [] where
  labels := fun i => by simp [allLabels, CTree.new]
  reach := fun σ i => by
    simp [reachLabel, CTree.new, reachFrom, childrenAt, labelsAt]

theorem nodup_snd_unique {cs : List (C × Nat)} (hnd : (cs.map (·.2)).Nodup) {c c' : C} {i : Nat}
    (h : (c, i) ∈ cs) (h' : (c', i) ∈ cs) : c = c' := by
  induction cs with
  | nil => cases h
  | cons x xs ih =>
    simp only [List.map_cons, List.nodup_cons] at hnd
    rcases List.mem_cons.1 h with e₁ | h₁
    · rcases List.mem_cons.1 h' with e₂ | h₂
      · exact congrArg Prod.fst (e₁.trans e₂.symm)
      · subst e₁; exact absurd (List.mem_map.2 ⟨(c', i), h₂, rfl⟩) hnd.1
    · rcases List.mem_cons.1 h' with e₂ | h₂
      · subst e₂; exact absurd (List.mem_map.2 ⟨(c, i), h₁, rfl⟩) hnd.1
      · exact ih hnd.2 h₁ h₂

/-- The three C10 clauses for a depth-one tree whose kept pairs come from `cs`. -/
theorem PairsTree.clauses {t : CTree C} {kept cs : List (C × Nat)} (p : PairsTree t kept)
    (hsub : ∀ x ∈ kept, x ∈ cs) (σ : C → Bool) :
    (∀ l ∈ t.allLabels, ∃ c, (c, l) ∈ cs) ∧
    (∀ x, x ∈ kept → x.2 ∈ t.allLabels) ∧
    ((cs.map (·.2)).Nodup → ∀ c i, (c, i) ∈ cs → i ∈ t.allLabels →
      (t.reachLabel σ i = true ↔ σ c = true)) := by
  refine ⟨?_, ?_, ?_⟩
  · intro l hl
    obtain ⟨c, hc⟩ := (p.labels l).1 hl
    exact ⟨c, hsub _ hc⟩
  · intro x hx
    exact (p.labels x.2).2 ⟨x.1, hx⟩
  · intro hnd c i hc hi
    obtain ⟨c', hc'⟩ := (p.labels i).1 hi
    have e : c' = c := nodup_snd_unique hnd (hsub _ hc') hc
    subst e
    rw [p.reach]
    constructor
    · rintro ⟨c'', hc'', hσ⟩
      have e : c'' = c' := nodup_snd_unique hnd (hsub _ hc'') hc
      subst e; exact hσ
    · intro hσ; exact ⟨c', hc', hσ⟩

/-! ### The mutex constructors -/

theorem withTransitiveMutex_pairs [DecidableEq C] (cs : List (C × Nat)) (isMutex : C → C → Bool) :
    ∃ kept, PairsTree (withTransitiveMutex cs isMutex) kept ∧ (∀ x ∈ kept, x ∈ cs) ∧
      (∀ x xs, cs = x :: xs → x ∈ kept) := by
  cases cs with
  | nil => exact ⟨[], PairsTree_new, fun _ h => h, fun _ _ h => by cases h⟩
  | cons x rest =>
    obtain ⟨first, fi⟩ := x
    refine ⟨(first, fi) :: rest.filter (fun ci => isMutex first ci.1), ?_, ?_, ?_⟩
    · have := PairsTree_withChildren ((first, fi) :: rest.filter (fun ci => isMutex first ci.1)) true
      simpa [withTransitiveMutex] using this
    · intro y hy
      rcases List.mem_cons.1 hy with rfl | hy
      · exact List.mem_cons_self ..
      · exact List.mem_cons_of_mem _ (List.mem_filter.1 hy).1
    · intro y ys h
      cases h
      exact List.mem_cons_self ..

theorem pairwiseFold_spec (isMutex : C → C → Bool) (rest : List (C × Nat))
    (acc : List (C × List Nat)) :
    ∃ sub : List (C × Nat), (∀ x ∈ sub, x ∈ rest) ∧
      rest.foldl (fun (acc : List (C × List Nat)) (ci : C × Nat) =>
        if acc.all (fun o => isMutex o.1 ci.1) then acc ++ [(ci.1, [ci.2])] else acc) acc =
        acc ++ sub.map (fun ci => (ci.1, [ci.2])) ∧
      (acc = [] → ∀ x xs, rest = x :: xs → x ∈ sub) := by
  induction rest generalizing acc with
  | nil => exact ⟨[], fun _ h => h, by simp, fun _ _ _ h => by cases h⟩
  | cons y ys ih =>
    simp only [List.foldl_cons]
    by_cases hall : acc.all (fun o => isMutex o.1 y.1) = true
    · obtain ⟨sub, h1, h2, -⟩ := ih (acc ++ [(y.1, [y.2])])
      refine ⟨y :: sub, ?_, ?_, ?_⟩
      · intro x hx
        rcases List.mem_cons.1 hx with rfl | hx
        · exact List.mem_cons_self ..
        · exact List.mem_cons_of_mem _ (h1 x hx)
      · rw [if_pos hall, h2]; simp
      · intro _ x xs h; cases h; exact List.mem_cons_self ..
    · obtain ⟨sub, h1, h2, -⟩ := ih acc
      refine ⟨sub, fun x hx => List.mem_cons_of_mem _ (h1 x hx), ?_, ?_⟩
      · rw [if_neg hall, h2]
      · intro hacc; subst hacc; simp at hall

theorem withPairwiseMutex_pairs [DecidableEq C] (cs : List (C × Nat)) (isMutex : C → C → Bool) :
    ∃ kept, PairsTree (withPairwiseMutex cs isMutex) kept ∧ (∀ x ∈ kept, x ∈ cs) ∧
      (∀ x xs, cs = x :: xs → x ∈ kept) := by
  obtain ⟨sub, h1, h2, h3⟩ := pairwiseFold_spec isMutex cs []
  refine ⟨sub, ?_, h1, h3 rfl⟩
  have := PairsTree_withChildren sub true
  unfold withPairwiseMutex
  simp only [h2, List.nil_append]
  exact this

end Pm
namespace Pm
open CTree
variable {C : Type}

/-- The C10 clauses for a depth-one tree built from (part of) `sortWithIndices le cs`. -/
theorem PairsTree.sortedClauses {t : CTree C} {kept : List (C × Nat)} (p : PairsTree t kept)
    (le : C → C → Bool) (cs : List C) (hsub : ∀ x ∈ kept, x ∈ sortWithIndices le cs)
    (hhead : ∀ x xs, sortWithIndices le cs = x :: xs → x ∈ kept) (σ : C → Bool) :
    (∀ i ∈ t.allLabels, i < cs.length) ∧
    (∀ i ∈ t.allLabels, ∀ c, cs[i]? = some c → (t.reachLabel σ i = true ↔ σ c = true)) ∧
    (cs ≠ [] → ∃ x xs, sortWithIndices le cs = x :: xs ∧ x.2 ∈ t.allLabels) := by
  obtain ⟨h1, h2, h3⟩ := p.clauses hsub σ
  refine ⟨?_, ?_, ?_⟩
  · intro i hi
    obtain ⟨c, hc⟩ := h1 i hi
    exact (List.getElem?_eq_some_iff.1 ((mem_sortWithIndices le cs c i).1 hc)).1
  · intro i hi c hc
    exact h3 (sortWithIndices_nodup le cs) c i ((mem_sortWithIndices le cs c i).2 hc) hi
  · intro hne
    cases hs : sortWithIndices le cs with
    | nil => exact absurd hs (sortWithIndices_ne_nil le hne)
    | cons x xs => exact ⟨x, xs, rfl, h2 x (hhead x xs hs)⟩

theorem sortWithIndices_nil {α : Type} (le : α → α → Bool) : sortWithIndices le [] = [] := rfl

theorem charTree_pairs {K : Type} [DecidableEq K] (lt : K → K → Bool)
    (cs : List (Constraint K CharPred)) (t : CTree (Constraint K CharPred))
    (h : charTree lt cs = some t) :
    ∃ kept, PairsTree t kept ∧ (∀ x ∈ kept, x ∈ sortWithIndices (strConsLe lt) cs) ∧
      (∀ x xs, sortWithIndices (strConsLe lt) cs = x :: xs → x ∈ kept) := by
  unfold charTree at h
  split at h
  · next hemp =>
    have : cs = [] := by simpa using hemp
    subst this
    cases h
    refine ⟨[], ?_, (by intro _ h; cases h), (by intro _ _ h; cases h)⟩
    have := PairsTree_withChildren (C := Constraint K CharPred) [] true
    simpa [withChildren] using this
  · simp only at h
    split at h
    · cases h
    · next first fi rest hs =>
      split at h
      · cases h
        refine ⟨(sortWithIndices (strConsLe lt) cs).take 1, PairsTree_withChildren _ false,
          fun x hx => List.mem_of_mem_take hx, ?_⟩
        intro x xs hx
        rw [hx]; simp
      · next v hv =>
        split at h
        · next k hk =>
          cases h
          refine ⟨_, PairsTree_withChildren _ true, fun x hx => (List.mem_filter.1 hx).1, ?_⟩
          intro x xs hx
          rw [hs] at hx
          cases hx
          rw [hs]
          refine List.mem_filter.2 ⟨List.mem_cons_self .., ?_⟩
          simp [hv, hk]
        · cases h

theorem charTree_isSome {K : Type} [DecidableEq K] (lt : K → K → Bool)
    (cs : List (Constraint K CharPred)) (har : ∀ c ∈ cs, c.args.length = c.pred.arity) :
    (charTree lt cs).isSome = true := by
  unfold charTree
  split
  · rfl
  · next hemp =>
    have hne : cs ≠ [] := by simpa using hemp
    simp only
    split
    · next hs => exact absurd hs (sortWithIndices_ne_nil _ hne)
    · next first fi rest hs =>
      have hmem : (first, fi) ∈ sortWithIndices (strConsLe lt) cs := by
        rw [hs]; exact List.mem_cons_self ..
      have hin : first ∈ cs :=
        List.mem_of_getElem? ((mem_sortWithIndices _ cs first fi).1 hmem)
      have := har first hin
      split
      · rfl
      · next v hv =>
        rw [hv] at this
        split
        · rfl
        · next hno =>
          exfalso
          cases hargs : first.args with
          | nil => rw [hargs] at this; simp [CharPred.arity] at this
          | cons k ks =>
            cases ks with
            | nil => exact hno k hargs
            | cons k' ks' => rw [hargs] at this; simp [CharPred.arity] at this

theorem tTree_pairs (s : Nat) (hs : s ≤ 2) (cs : List TCons) (fuel : Nat) (t : CTree TCons)
    (h : tTree s cs fuel = some t) :
    ∃ kept, PairsTree t kept ∧ (∀ x ∈ kept, x ∈ sortWithIndices tconsLe cs) ∧
      (∀ x xs, sortWithIndices tconsLe cs = x :: xs → x ∈ kept) := by
  unfold tTree at h
  split at h
  · next hemp =>
    have : cs = [] := by simpa using hemp
    subst this
    cases h
    exact ⟨[], PairsTree_new, (by intro _ h; cases h), (by intro _ _ h; cases h)⟩
  · simp only at h
    split at h
    · cases h
      refine ⟨(sortWithIndices tconsLe cs).take 1, PairsTree_withChildren' _,
        fun x hx => List.mem_of_mem_take hx, ?_⟩
      intro x xs hx
      rw [hx]; simp
    · cases h
      exact withTransitiveMutex_pairs _ _
    · cases h
      exact withPairwiseMutex_pairs _ _
    · next h0 h1 h2 =>
      exfalso
      have : s = 0 ∨ s = 1 ∨ s = 2 := by omega
      rcases this with rfl | rfl | rfl
      · exact h0 rfl
      · exact h1 rfl
      · exact h2 rfl

end Pm
namespace Pm
open CTree

/-! ### The `with_powerset` worklist loop: induction principles -/
section PowersetLoop
variable {C : Type} (cond : C → List C → Option C) (cs : List (C × Nat))

/-- What `addImplied` returns, for any invariant preserved by the "implied" step. -/
theorem addImplied_induct (Inv : PQItem C → CTree C → Prop)
    (hA : ∀ it t c ci, Inv it t → cs[it.next]? = some (c, ci) → cond c it.satisfied = none →
      Inv ⟨it.next + 1, it.satisfied ++ [c], it.node⟩ (t.addLabel it.node ci)) :
    ∀ f t it, cs.length < f + it.next → Inv it t →
      Inv (addImplied cond cs f t it).2.1 (addImplied cond cs f t it).1 ∧
      it.next ≤ (addImplied cond cs f t it).2.1.next ∧
      (match (addImplied cond cs f t it).2.2 with
        | none => cs[(addImplied cond cs f t it).2.1.next]? = none
        | some c' => ∃ c ci, cs[(addImplied cond cs f t it).2.1.next]? = some (c, ci) ∧
            cond c (addImplied cond cs f t it).2.1.satisfied = some c') := by
  intro f
  induction f with
  | zero =>
    intro t it hf hinv
    simp only [addImplied]
    exact ⟨hinv, Nat.le_refl _, List.getElem?_eq_none (by omega)⟩
  | succ f ih =>
    intro t it hf hinv
    unfold addImplied
    cases hget : cs[it.next]? with
    | none => exact ⟨hinv, Nat.le_refl _, hget⟩
    | some cci =>
      obtain ⟨c, ci⟩ := cci
      simp only
      cases hc : cond c it.satisfied with
      | some c' => exact ⟨hinv, Nat.le_refl _, c, ci, hget, hc⟩
      | none =>
        simp only
        have := ih (t.addLabel it.node ci) ⟨it.next + 1, it.satisfied ++ [c], it.node⟩
          (by simp only; omega) (hA it t c ci hinv hget hc)
        refine ⟨this.1, ?_, this.2.2⟩
        have := this.2.1
        simp only at this
        omega

variable [DecidableEq C]

/-- Invariant rule for `powersetLoop`: an invariant preserved by the three elementary steps
(implied constraint, exhausted item, branching) holds of the final tree with an empty queue. -/
theorem powersetLoop_induct (Inv : List (PQItem C) → CTree C → Prop)
    (hA : ∀ it q t c ci, Inv (it :: q) t → cs[it.next]? = some (c, ci) →
      cond c it.satisfied = none →
      Inv (⟨it.next + 1, it.satisfied ++ [c], it.node⟩ :: q) (t.addLabel it.node ci))
    (hB : ∀ it q t, Inv (it :: q) t → cs[it.next]? = none → Inv q t)
    (hC : ∀ it q t c ci c', Inv (it :: q) t → cs[it.next]? = some (c, ci) →
      cond c it.satisfied = some c' →
      Inv (q ++ [⟨it.next + 1, it.satisfied, it.node⟩,
          ⟨it.next + 1, it.satisfied ++ [c], (t.getOrAddChild it.node c').2⟩])
        ((t.getOrAddChild it.node c').1.addLabel (t.getOrAddChild it.node c').2 ci)) :
    ∀ fuel q t t', Inv q t → powersetLoop cond cs fuel q t = some t' → Inv [] t' := by
  intro fuel
  induction fuel with
  | zero =>
    intro q t t' hinv h
    cases q with
    | nil => simp only [powersetLoop] at h; cases h; exact hinv
    | cons it q => simp [powersetLoop] at h
  | succ fuel ih =>
    intro q t t' hinv h
    cases q with
    | nil => simp only [powersetLoop] at h; cases h; exact hinv
    | cons it q =>
      have hai := addImplied_induct cond cs (fun it t => Inv (it :: q) t)
        (fun it t c ci => hA it q t c ci) (cs.length + 1) t it (by omega) hinv
      simp only [powersetLoop] at h
      generalize addImplied cond cs (cs.length + 1) t it = r at h hai
      obtain ⟨t1, it1, nc⟩ := r
      simp only at h hai
      cases nc with
      | none =>
        simp only at h hai
        exact ih q t1 t' (hB it1 q t1 hai.1 hai.2.2) h
      | some c' =>
        simp only at h hai
        obtain ⟨hinv1, -, c, ci, hget, hc⟩ := hai
        rw [hget] at h
        simp only at h
        exact ih _ _ t' (hC it1 q t1 c ci c' hinv1 hget hc) h

/-- Work bound of an item with `d` constraints left. -/
def psW : Nat → Nat
  | 0 => 1
  | d + 1 => 2 * psW d + 1

theorem psW_mono {a b : Nat} (h : a ≤ b) : psW a ≤ psW b := by
  induction b with
  | zero => cases Nat.le_zero.1 h; exact Nat.le_refl _
  | succ b ih =>
    rcases Nat.lt_or_ge a (b + 1) with h' | h'
    · have := ih (Nat.le_of_lt_succ h'); simp only [psW]; omega
    · cases Nat.le_antisymm h h'; exact Nat.le_refl _

theorem psW_lt (d : Nat) : psW d < 2 ^ (d + 1) := by
  induction d with
  | zero => simp [psW]
  | succ d ih => simp only [psW]; rw [Nat.pow_succ]; omega

def qW (q : List (PQItem C)) : Nat := (q.map fun it => psW (cs.length - it.next)).sum

theorem powersetLoop_terminates :
    ∀ fuel q t, qW cs q ≤ fuel → (powersetLoop cond cs fuel q t).isSome = true := by
  intro fuel
  induction fuel with
  | zero =>
    intro q t hq
    cases q with
    | nil => rfl
    | cons it q =>
      have : 0 < psW (cs.length - it.next) := by cases (cs.length - it.next) <;> simp [psW]
      simp only [qW, List.map_cons, List.sum_cons] at hq
      omega
  | succ fuel ih =>
    intro q t hq
    cases q with
    | nil => rfl
    | cons it q =>
      have hai := addImplied_induct cond cs (fun _ _ => True) (fun _ _ _ _ _ _ _ => trivial)
        (cs.length + 1) t it (by omega) trivial
      simp only [powersetLoop]
      generalize addImplied cond cs (cs.length + 1) t it = r at hai
      obtain ⟨t1, it1, nc⟩ := r
      simp only at hai ⊢
      simp only [qW, List.map_cons, List.sum_cons] at hq
      have hpos : 0 < psW (cs.length - it.next) := by cases (cs.length - it.next) <;> simp [psW]
      cases nc with
      | none =>
        simp only
        exact ih q t1 (by simp only [qW]; omega)
      | some c' =>
        simp only at hai ⊢
        obtain ⟨-, hle, c, ci, hget, -⟩ := hai
        rw [hget]
        simp only
        apply ih
        have hlt : it1.next < cs.length := (List.getElem?_eq_some_iff.1 hget).1
        have h1 : cs.length - it1.next = (cs.length - (it1.next + 1)) + 1 := by omega
        have h2 : psW (cs.length - it1.next) ≤ psW (cs.length - it.next) :=
          psW_mono (by omega)
        rw [h1] at h2
        simp only [psW] at h2
        simp only [qW, List.map_append, List.sum_append, List.map_cons, List.map_nil,
          List.sum_cons, List.sum_nil]
        omega

end PowersetLoop
end Pm
namespace Pm
open CTree

/-! ### The `with_powerset` invariant -/
section PowersetInv
variable {C : Type} (cs : List (C × Nat)) (σ : C → Bool)

/-- `CondLaw` relativised to constraints satisfying `P` (both `c` and the members of `S`). -/
def CondLawOn (cond : C → List C → Option C) (σ : C → Bool) (P : C → Prop) : Prop :=
  ∀ c S, P c → (∀ s ∈ S, P s) → (∀ s ∈ S, σ s = true) →
    (cond c S = none → σ c = true) ∧ (∀ c', cond c S = some c' → σ c' = σ c)

theorem CondLaw.on {cond : C → List C → Option C} {σ : C → Bool} (h : CondLaw cond σ)
    (P : C → Prop) : CondLawOn cond σ P := fun c S _ _ hS => h c S hS

/-- Invariant of the worklist loop for a fixed truth assignment `σ`. -/
structure PInv (q : List (PQItem C)) (t : CTree C) : Prop where
  wf : TreeWF t
  nodeLt : ∀ it ∈ q, it.node < t.nodes.length
  satTrue : ∀ it ∈ q, Rch t σ it.node → ∀ s ∈ it.satisfied, σ s = true
  labSound : ∀ n l, l ∈ t.labelsAt n → ∃ c, (c, l) ∈ cs ∧ (Rch t σ n → σ c = true)
  first : ∀ c₀ i₀ rest, cs = (c₀, i₀) :: rest → (∃ it ∈ q, it.next = 0) ∨ i₀ ∈ t.allLabels
  complete : ∃ p, (∀ j c l, j < p → cs[j]? = some (c, l) → σ c = true →
      ∃ n, Rch t σ n ∧ l ∈ t.labelsAt n) ∧
    (cs.length ≤ p ∨ ∃ it ∈ q, it.next = p ∧ Rch t σ it.node ∧ ∀ s ∈ it.satisfied, σ s = true)
  satIn : ∀ it ∈ q, ∀ s ∈ it.satisfied, ∃ i, (s, i) ∈ cs

theorem lt_of_mem_labelsAt {t : CTree C} {n l : Nat} (h : l ∈ t.labelsAt n) :
    n < t.nodes.length := by
  rcases Nat.lt_or_ge n t.nodes.length with h' | h'
  · exact h'
  · rw [labelsAt_eq_nil_of_le t h'] at h; cases h

theorem PInv_init : PInv cs σ [⟨0, [], 0⟩] ({ CTree.new with makeDet := true } : CTree C) where
  wf := ⟨TreeWF_new.pos, TreeWF_new.lt, TreeWF_new.uniq⟩
  nodeLt := by
    intro it hit
    have : it = ⟨0, [], 0⟩ := by simpa using hit
    subst this
    exact TreeWF_new.pos
  satTrue := by
    intro it hit _ s hs
    have : it = ⟨0, [], 0⟩ := by simpa using hit
    subst this
    cases hs
  labSound := by
    intro n l h
    cases n <;> simp [CTree.new, labelsAt] at h
  first := fun _ _ _ _ => Or.inl ⟨_, List.mem_singleton_self _, rfl⟩
  complete := ⟨0, fun j _ _ hj => absurd hj (Nat.not_lt_zero _),
    Or.inr ⟨_, List.mem_singleton_self _, rfl, .root, fun _ h => by cases h⟩⟩
  satIn := by
    intro it hit s hs
    have : it = ⟨0, [], 0⟩ := by simpa using hit
    subst this
    cases hs

variable {cs σ}

theorem PInv_stepB {it : PQItem C} {q : List (PQItem C)} {t : CTree C}
    (h : PInv cs σ (it :: q) t) (hget : cs[it.next]? = none) : PInv cs σ q t where
  wf := h.wf
  nodeLt := fun it' hit' => h.nodeLt it' (List.mem_cons_of_mem _ hit')
  satTrue := fun it' hit' => h.satTrue it' (List.mem_cons_of_mem _ hit')
  satIn := fun it' hit' => h.satIn it' (List.mem_cons_of_mem _ hit')
  labSound := h.labSound
  first := by
    intro c₀ i₀ rest hcs
    rcases h.first c₀ i₀ rest hcs with ⟨it0, hit0, h0⟩ | h'
    · rcases List.mem_cons.1 hit0 with e | hit0
      · subst e; rw [h0, hcs] at hget; simp at hget
      · exact Or.inl ⟨it0, hit0, h0⟩
    · exact Or.inr h'
  complete := by
    obtain ⟨p, hp, htr⟩ := h.complete
    refine ⟨p, hp, ?_⟩
    rcases htr with hle | ⟨it0, hit0, h0, hr⟩
    · exact Or.inl hle
    · rcases List.mem_cons.1 hit0 with e | hit0
      · subst e
        have : cs.length ≤ it0.next := by
          rcases Nat.lt_or_ge it0.next cs.length with h' | h'
          · rw [List.getElem?_eq_getElem h'] at hget; cases hget
          · exact h'
        exact Or.inl (h0 ▸ this)
      · exact Or.inr ⟨it0, hit0, h0, hr⟩

theorem mem_allLabels_addLabel {t : CTree C} {n i l : Nat} (h : l ∈ t.allLabels) :
    l ∈ (t.addLabel n i).allLabels := by
  obtain ⟨m, hm⟩ := (mem_allLabels t l).1 h
  exact (mem_allLabels _ l).2 ⟨m, (mem_labelsAt_addLabel t n i m l).2 (Or.inl hm)⟩

theorem PInv_stepA {cond : C → List C → Option C}
    (law : CondLawOn cond σ (fun c => ∃ i, (c, i) ∈ cs))
    {it : PQItem C} {q : List (PQItem C)} {t : CTree C} {c : C} {ci : Nat}
    (h : PInv cs σ (it :: q) t) (hget : cs[it.next]? = some (c, ci))
    (hc : cond c it.satisfied = none) :
    PInv cs σ (⟨it.next + 1, it.satisfied ++ [c], it.node⟩ :: q) (t.addLabel it.node ci) := by
  have hnode : it.node < t.nodes.length := h.nodeLt it (List.mem_cons_self ..)
  have hmem : (c, ci) ∈ cs := List.mem_of_getElem? hget
  have hσc : Rch t σ it.node → σ c = true := fun hr =>
    ((law c it.satisfied ⟨ci, hmem⟩ (h.satIn it (List.mem_cons_self ..))
      (h.satTrue it (List.mem_cons_self ..) hr)).1 hc)
  have hlab : ci ∈ (t.addLabel it.node ci).labelsAt it.node :=
    (mem_labelsAt_addLabel ..).2 (Or.inr ⟨rfl, hnode, rfl⟩)
  refine ⟨TreeWF_addLabel h.wf _ _, ?_, ?_, ?_, ?_, ?_, ?_⟩
  rotate_right
  · intro it' hit' s hs
    rcases List.mem_cons.1 hit' with e | hit'
    · subst e
      rcases List.mem_append.1 hs with hs | hs
      · exact h.satIn it (List.mem_cons_self ..) s hs
      · have : s = c := by simpa using hs
        subst this; exact ⟨ci, hmem⟩
    · exact h.satIn it' (List.mem_cons_of_mem _ hit') s hs
  · intro it' hit'
    rw [length_addLabel]
    rcases List.mem_cons.1 hit' with e | hit'
    · subst e; exact hnode
    · exact h.nodeLt it' (List.mem_cons_of_mem _ hit')
  · intro it' hit' hr s hs
    rw [Rch_addLabel] at hr
    rcases List.mem_cons.1 hit' with e | hit'
    · subst e
      rcases List.mem_append.1 hs with hs | hs
      · exact h.satTrue it (List.mem_cons_self ..) hr s hs
      · have : s = c := by simpa using hs
        subst this; exact hσc hr
    · exact h.satTrue it' (List.mem_cons_of_mem _ hit') hr s hs
  · intro n l hl
    rcases (mem_labelsAt_addLabel ..).1 hl with hl | ⟨rfl, -, rfl⟩
    · obtain ⟨c', hc', hs⟩ := h.labSound n l hl
      exact ⟨c', hc', fun hr => hs ((Rch_addLabel ..).1 hr)⟩
    · exact ⟨c, hmem, fun hr => hσc ((Rch_addLabel ..).1 hr)⟩
  · intro c₀ i₀ rest hcs
    rcases h.first c₀ i₀ rest hcs with ⟨it0, hit0, h0⟩ | h'
    · rcases List.mem_cons.1 hit0 with e | hit0
      · subst e
        rw [h0, hcs] at hget
        have : i₀ = ci := by simpa using congrArg Prod.snd (Option.some.inj hget)
        subst this
        exact Or.inr ((mem_allLabels _ _).2 ⟨_, hlab⟩)
      · exact Or.inl ⟨it0, List.mem_cons_of_mem _ hit0, h0⟩
    · exact Or.inr (mem_allLabels_addLabel h')
  · obtain ⟨p, hp, htr⟩ := h.complete
    have hp' : ∀ j c l, j < p → cs[j]? = some (c, l) → σ c = true →
        ∃ n, Rch (t.addLabel it.node ci) σ n ∧ l ∈ (t.addLabel it.node ci).labelsAt n := by
      intro j c l hj hjc hσ
      obtain ⟨n, hn, hl⟩ := hp j c l hj hjc hσ
      exact ⟨n, (Rch_addLabel ..).2 hn, (mem_labelsAt_addLabel ..).2 (Or.inl hl)⟩
    rcases htr with hle | ⟨it0, hit0, h0, hr, hs⟩
    · exact ⟨p, hp', Or.inl hle⟩
    · rcases List.mem_cons.1 hit0 with e | hit0
      · subst e
        refine ⟨p + 1, ?_, Or.inr ⟨_, List.mem_cons_self .., by simp [h0],
          (Rch_addLabel ..).2 hr, ?_⟩⟩
        · intro j c' l hj hjc hσ
          rcases Nat.lt_or_ge j p with hj' | hj'
          · exact hp' j c' l hj' hjc hσ
          · have : j = it0.next := by omega
            subst this
            rw [hget] at hjc
            cases hjc
            exact ⟨it0.node, (Rch_addLabel ..).2 hr, hlab⟩
        · intro s hs'
          rcases List.mem_append.1 hs' with hs' | hs'
          · exact hs s hs'
          · have : s = c := by simpa using hs'
            subst this; exact hσc hr
      · exact ⟨p, hp', Or.inr ⟨it0, List.mem_cons_of_mem _ hit0, h0, (Rch_addLabel ..).2 hr, hs⟩⟩

end PowersetInv
end Pm
namespace Pm
open CTree

section PowersetInv2
variable {C : Type} [DecidableEq C] {cs : List (C × Nat)} {σ : C → Bool}

theorem PInv_stepC {cond : C → List C → Option C}
    (law : CondLawOn cond σ (fun c => ∃ i, (c, i) ∈ cs))
    {it : PQItem C} {q : List (PQItem C)} {t : CTree C} {c c' : C} {ci : Nat}
    (h : PInv cs σ (it :: q) t) (hget : cs[it.next]? = some (c, ci))
    (hc : cond c it.satisfied = some c') :
    PInv cs σ (q ++ [⟨it.next + 1, it.satisfied, it.node⟩,
        ⟨it.next + 1, it.satisfied ++ [c], (t.getOrAddChild it.node c').2⟩])
      ((t.getOrAddChild it.node c').1.addLabel (t.getOrAddChild it.node c').2 ci) := by
  have hnode : it.node < t.nodes.length := h.nodeLt it (List.mem_cons_self ..)
  have hmem : (c, ci) ∈ cs := List.mem_of_getElem? hget
  have g := getOrAddChild_spec h.wf hnode c'
  generalize (t.getOrAddChild it.node c').1 = t1 at g
  generalize (t.getOrAddChild it.node c').2 = k at g
  have hsat : Rch t σ it.node → ∀ s ∈ it.satisfied, σ s = true :=
    h.satTrue it (List.mem_cons_self ..)
  have hcc' : Rch t σ it.node → σ c' = σ c := fun hr =>
    (law c it.satisfied ⟨ci, hmem⟩ (h.satIn it (List.mem_cons_self ..)) (hsat hr)).2 c' hc
  have hk : Rch (t1.addLabel k ci) σ k → Rch t σ it.node ∧ σ c = true := by
    intro hr
    have := (g.rchChild hnode σ).1 ((Rch_addLabel ..).1 hr)
    exact ⟨this.1, by rw [← hcc' this.1]; exact this.2⟩
  have hold : ∀ m, m < t.nodes.length → Rch (t1.addLabel k ci) σ m → Rch t σ m :=
    fun m hm hr => (g.rchOld σ m hm).1 ((Rch_addLabel ..).1 hr)
  have hmono : ∀ m, Rch t σ m → Rch (t1.addLabel k ci) σ m :=
    fun m hr => (Rch_addLabel ..).2 (g.rchMono σ hr)
  have hlab : ci ∈ (t1.addLabel k ci).labelsAt k :=
    (mem_labelsAt_addLabel ..).2 (Or.inr ⟨rfl, g.klt, rfl⟩)
  have hlabmono : ∀ n l, l ∈ t.labelsAt n → l ∈ (t1.addLabel k ci).labelsAt n := by
    intro n l hl
    exact (mem_labelsAt_addLabel ..).2 (Or.inl (by rw [g.labels]; exact hl))
  refine ⟨TreeWF_addLabel g.wf _ _, ?_, ?_, ?_, ?_, ?_, ?_⟩
  rotate_right
  · intro it' hit' s hs
    rcases List.mem_append.1 hit' with hit' | hit'
    · exact h.satIn it' (List.mem_cons_of_mem _ hit') s hs
    · simp only [List.mem_cons, List.not_mem_nil, or_false] at hit'
      rcases hit' with e | e
      · subst e; exact h.satIn it (List.mem_cons_self ..) s hs
      · subst e
        rcases List.mem_append.1 hs with hs | hs
        · exact h.satIn it (List.mem_cons_self ..) s hs
        · have : s = c := by simpa using hs
          subst this; exact ⟨ci, hmem⟩
  · intro it' hit'
    rw [length_addLabel]
    rcases List.mem_append.1 hit' with hit' | hit'
    · exact Nat.lt_of_lt_of_le (h.nodeLt it' (List.mem_cons_of_mem _ hit')) g.len
    · simp only [List.mem_cons, List.not_mem_nil, or_false] at hit'
      rcases hit' with e | e
      · subst e; exact Nat.lt_of_lt_of_le hnode g.len
      · subst e; exact g.klt
  · intro it' hit' hr s hs
    rcases List.mem_append.1 hit' with hit' | hit'
    · have hm := List.mem_cons_of_mem it hit'
      exact h.satTrue it' hm (hold _ (h.nodeLt it' hm) hr) s hs
    · simp only [List.mem_cons, List.not_mem_nil, or_false] at hit'
      rcases hit' with e | e
      · subst e; exact hsat (hold _ hnode hr) s hs
      · subst e
        obtain ⟨hr', hσ⟩ := hk hr
        rcases List.mem_append.1 hs with hs | hs
        · exact hsat hr' s hs
        · have : s = c := by simpa using hs
          subst this; exact hσ
  · intro n l hl
    rcases (mem_labelsAt_addLabel ..).1 hl with hl | ⟨rfl, -, rfl⟩
    · rw [g.labels] at hl
      obtain ⟨c₂, hc₂, hs⟩ := h.labSound n l hl
      exact ⟨c₂, hc₂, fun hr => hs (hold n (lt_of_mem_labelsAt hl) hr)⟩
    · exact ⟨c, hmem, fun hr => (hk hr).2⟩
  · intro c₀ i₀ rest hcs
    rcases h.first c₀ i₀ rest hcs with ⟨it0, hit0, h0⟩ | h'
    · rcases List.mem_cons.1 hit0 with e | hit0
      · subst e
        rw [h0, hcs] at hget
        have : i₀ = ci := by simpa using congrArg Prod.snd (Option.some.inj hget)
        subst this
        exact Or.inr ((mem_allLabels _ _).2 ⟨_, hlab⟩)
      · exact Or.inl ⟨it0, List.mem_append_left _ hit0, h0⟩
    · obtain ⟨m, hm⟩ := (mem_allLabels t i₀).1 h'
      exact Or.inr ((mem_allLabels _ _).2 ⟨m, hlabmono m i₀ hm⟩)
  · obtain ⟨p, hp, htr⟩ := h.complete
    have hp' : ∀ j c l, j < p → cs[j]? = some (c, l) → σ c = true →
        ∃ n, Rch (t1.addLabel k ci) σ n ∧ l ∈ (t1.addLabel k ci).labelsAt n := by
      intro j c l hj hjc hσ
      obtain ⟨n, hn, hl⟩ := hp j c l hj hjc hσ
      exact ⟨n, hmono n hn, hlabmono n l hl⟩
    rcases htr with hle | ⟨it0, hit0, h0, hr, hs⟩
    · exact ⟨p, hp', Or.inl hle⟩
    · rcases List.mem_cons.1 hit0 with e | hit0
      · subst e
        cases hσc : σ c with
        | true =>
          have hrk : Rch (t1.addLabel k ci) σ k :=
            (Rch_addLabel ..).2 ((g.rchChild hnode σ).2 ⟨hr, by rw [hcc' hr]; exact hσc⟩)
          refine ⟨p + 1, ?_, Or.inr ⟨⟨it0.next + 1, it0.satisfied ++ [c], k⟩, by simp,
            by simp [h0], hrk, ?_⟩⟩
          · intro j c₂ l hj hjc hσ
            rcases Nat.lt_or_ge j p with hj' | hj'
            · exact hp' j c₂ l hj' hjc hσ
            · have : j = it0.next := by omega
              subst this
              rw [hget] at hjc
              cases hjc
              exact ⟨k, hrk, hlab⟩
          · intro s hs'
            rcases List.mem_append.1 hs' with hs' | hs'
            · exact hs s hs'
            · have : s = c := by simpa using hs'
              subst this; exact hσc
        | false =>
          refine ⟨p + 1, ?_, Or.inr ⟨⟨it0.next + 1, it0.satisfied, it0.node⟩, by simp,
            by simp [h0], hmono _ hr, hs⟩⟩
          intro j c₂ l hj hjc hσ
          rcases Nat.lt_or_ge j p with hj' | hj'
          · exact hp' j c₂ l hj' hjc hσ
          · have : j = it0.next := by omega
            subst this
            rw [hget] at hjc
            cases hjc
            rw [hσc] at hσ; cases hσ
      · exact ⟨p, hp', Or.inr ⟨it0, List.mem_append_left _ hit0, h0, hmono _ hr, hs⟩⟩

/-- The invariant holds (with an empty queue) of every tree `withPowerset` returns. -/
theorem withPowerset_inv {cond : C → List C → Option C}
    (law : CondLawOn cond σ (fun c => ∃ i, (c, i) ∈ cs)) {fuel : Nat}
    {t : CTree C} (hne : cs ≠ []) (h : withPowerset cond cs fuel = some t) : PInv cs σ [] t := by
  unfold withPowerset at h
  have : cs.isEmpty = false := by cases cs with
    | nil => exact absurd rfl hne
    | cons _ _ => rfl
  rw [this] at h
  simp only [Bool.false_eq_true, if_false] at h
  exact powersetLoop_induct cond cs (PInv cs σ)
    (fun it q t c ci hinv hget hc => PInv_stepA law hinv hget hc)
    (fun it q t hinv hget => PInv_stepB hinv hget)
    (fun it q t c ci c' hinv hget hc => PInv_stepC law hinv hget hc)
    fuel _ _ t (PInv_init cs σ) h

omit [DecidableEq C] in
theorem condLaw_true (cond : C → List C → Option C) : CondLaw cond (fun _ => true) :=
  fun _ _ _ => ⟨fun _ => rfl, fun _ _ => rfl⟩

theorem withPowerset_nil {cond : C → List C → Option C} {fuel : Nat} {t : CTree C}
    (h : withPowerset cond ([] : List (C × Nat)) fuel = some t) : t = CTree.new := by
  simp [withPowerset] at h; exact h.symm

end PowersetInv2
end Pm
namespace Pm
open CTree

/-! ### The conditioning law of the table domain -/

/-- Truth of a table constraint under binding `m` (host irrelevant for `TPred.check`):
`is_satisfied(...) == Ok(true)`. -/
def tSigma (m : TMap) (c : TCons) : Bool :=
  match isSatisfied alGet TPred.check c (⟨false, []⟩ : THost) m with
  | .ok (some true) => true
  | _ => false

theorem tSigma_iff (m : TMap) (c : TCons) :
    tSigma m c = true ↔
      isSatisfied alGet TPred.check c (⟨false, []⟩ : THost) m = .ok (some true) := by
  unfold tSigma
  split
  · next h => simp [h]
  · next h =>
    constructor
    · intro h'; cases h'
    · intro h'; exact absurd h' (h)

theorem resolveArgs_ok_iff (m : TMap) (ks : List Nat) (vs : List Nat) :
    resolveArgs alGet m ks = .ok vs ↔ ks.map (alGet m) = vs.map some := by
  induction ks generalizing vs with
  | nil =>
    simp only [resolveArgs, List.map_nil]
    constructor
    · intro h; cases h; rfl
    · intro h
      cases vs with
      | nil => rfl
      | cons _ _ => cases h
  | cons k ks ih =>
    simp only [resolveArgs, List.map_cons]
    cases hk : alGet m k with
    | none =>
      simp only
      constructor
      · intro h; cases h
      · intro h
        cases vs with
        | nil => cases h
        | cons v vs => simp at h
    | some v =>
      simp only
      cases hr : resolveArgs alGet m ks with
      | error e =>
        simp only
        constructor
        · intro h; cases h
        · intro h
          cases vs with
          | nil => cases h
          | cons v' vs' =>
            simp only [List.map_cons, List.cons.injEq] at h
            have := (ih vs').2 h.2
            rw [hr] at this; cases this
      | ok vs0 =>
        simp only
        have h0 := (ih vs0).1 hr
        constructor
        · intro h; cases h; simp [h0]
        · intro h
          cases vs with
          | nil => cases h
          | cons v' vs' =>
            simp only [List.map_cons, List.cons.injEq, Option.some.injEq] at h
            have := (ih vs').2 h.2
            rw [hr] at this
            cases this
            rw [h.1]

theorem map_some_inj {α : Type} : ∀ {a b : List α}, a.map some = b.map some → a = b
  | [], [], _ => rfl
  | [], _ :: _, h => by cases h
  | _ :: _, [], h => by cases h
  | x :: a, y :: b, h => by
    simp only [List.map_cons, List.cons.injEq, Option.some.injEq] at h
    rw [h.1, map_some_inj h.2]

theorem isSatisfied_ok_iff (m : TMap) (c : TCons) (b : Bool) :
    isSatisfied alGet TPred.check c (⟨false, []⟩ : THost) m = .ok (some b) ↔
      ∃ vs, c.args.map (alGet m) = vs.map some ∧ TPred.check c.pred ⟨false, []⟩ vs = some b := by
  unfold isSatisfied isSatisfiedLog
  cases hr : resolveArgs alGet m c.args with
  | error e =>
    simp only
    constructor
    · intro h; cases h
    · rintro ⟨vs, h1, -⟩
      rw [(resolveArgs_ok_iff m c.args vs).2 h1] at hr; cases hr
  | ok vs0 =>
    simp only
    have h0 := (resolveArgs_ok_iff m c.args vs0).1 hr
    constructor
    · intro h
      refine ⟨vs0, h0, ?_⟩
      cases h' : TPred.check c.pred ⟨false, []⟩ vs0 with
      | none => rw [h'] at h; cases h
      | some b' => rw [h'] at h; cases h; rfl
    · rintro ⟨vs, h1, h2⟩
      have : vs = vs0 := by
        exact map_some_inj (h1.symm.trans h0)
      subst this
      rw [h2]

/-- `first`'s value differs from the value of every key in `others` (all bound). -/
def nSat (m : TMap) (first : Nat) (others : List Nat) : Prop :=
  ∃ v, alGet m first = some v ∧ ∀ k ∈ others, ∃ w, alGet m k = some w ∧ w ≠ v

theorem tSigma_notIn (m : TMap) (n first : Nat) (others : List Nat) :
    tSigma m ⟨.notIn n, first :: others⟩ = true ↔ others.length = n ∧ nSat m first others := by
  rw [tSigma_iff, isSatisfied_ok_iff]
  constructor
  · rintro ⟨vs, h1, h2⟩
    cases vs with
    | nil => cases h1
    | cons v vs =>
      simp only [List.map_cons, List.cons.injEq] at h1
      simp only [TPred.check] at h2
      split at h2
      · next hlen =>
        have hnc : vs.contains v = false := by simpa using h2
        have hlen' : others.length = vs.length := by
          have := congrArg List.length h1.2; simpa using this
        refine ⟨hlen' ▸ hlen, v, h1.1, ?_⟩
        intro k hk
        obtain ⟨j, hj⟩ := List.mem_iff_getElem?.1 hk
        have hj' : (others.map (alGet m))[j]? = some (alGet m k) := by simp [hj]
        rw [h1.2] at hj'
        simp only [List.getElem?_map, Option.map_eq_some_iff] at hj'
        obtain ⟨w, hw, hwk⟩ := hj'
        refine ⟨w, hwk.symm, ?_⟩
        rintro rfl
        have : w ∈ vs := List.mem_of_getElem? hw
        simp [this] at hnc
      · cases h2
  · rintro ⟨hlen, v, hv, hall⟩
    -- build the value list
    have hex : ∀ (ks : List Nat), (∀ k ∈ ks, ∃ w, alGet m k = some w ∧ w ≠ v) →
        ∃ vs : List Nat, ks.map (alGet m) = vs.map some ∧ v ∉ vs := by
      intro ks
      induction ks with
      | nil => intro _; exact ⟨[], rfl, by simp⟩
      | cons k ks ih =>
        intro h
        obtain ⟨w, hw, hne⟩ := h k (List.mem_cons_self ..)
        obtain ⟨vs, h1, h2⟩ := ih (fun k' hk' => h k' (List.mem_cons_of_mem _ hk'))
        refine ⟨w :: vs, by simp [hw, h1], ?_⟩
        intro hmem
        rcases List.mem_cons.1 hmem with e | e
        · exact hne e.symm
        · exact h2 e
    obtain ⟨vs, h1, h2⟩ := hex others hall
    refine ⟨v :: vs, by simp [hv, h1], ?_⟩
    have hlen' : vs.length = n := by
      have := congrArg List.length h1; simp at this; omega
    simp only [TPred.check, hlen', if_true]
    simp [h2]

end Pm
namespace Pm
open CTree

theorem mem_insertSet (x k : Nat) (l : List Nat) : k ∈ insertSet x l ↔ k = x ∨ k ∈ l := by
  induction l with
  | nil => simp [insertSet]
  | cons y ys ih =>
    simp only [insertSet]
    split
    · simp
    · split
      · next h => subst h; simp
      · simp only [List.mem_cons, ih]
        constructor
        · rintro (h | h | h)
          · exact Or.inr (Or.inl h)
          · exact Or.inl h
          · exact Or.inr (Or.inr h)
        · rintro (h | h | h)
          · exact Or.inr (Or.inl h)
          · exact Or.inl h
          · exact Or.inr (Or.inr h)

theorem mem_insertSet_fold (others : List Nat) (acc : List Nat) (k : Nat) :
    k ∈ others.foldl (fun s k => insertSet k s) acc ↔ k ∈ others ∨ k ∈ acc := by
  induction others generalizing acc with
  | nil => simp
  | cons x xs ih =>
    simp only [List.foldl_cons, ih, mem_insertSet, List.mem_cons]
    constructor
    · rintro (h | h | h)
      · exact Or.inl (Or.inr h)
      · exact Or.inl (Or.inl h)
      · exact Or.inr h
    · rintro ((h | h) | h)
      · exact Or.inr (Or.inl h)
      · exact Or.inl h
      · exact Or.inr (Or.inr h)

/-- `s` is a `notIn` constraint on `first` whose other keys include `k`. -/
def tCovered (first : Nat) (s : TCons) (k : Nat) : Prop :=
  ∃ n os, s = ⟨.notIn n, first :: os⟩ ∧ k ∈ os

theorem mem_removed_step (first : Nat) (ks : List Nat) (s : TCons) (k : Nat) :
    k ∈ (match s.pred, s.args with
      | .notIn _, f :: os => if f = first then ks.filter (fun k => !os.contains k) else ks
      | _, _ => ks) ↔ k ∈ ks ∧ ¬ tCovered first s k := by
  obtain ⟨p, args⟩ := s
  simp only
  split
  · next _ _ n f os =>
    split
    · next hf =>
      subst hf
      simp only [List.mem_filter, tCovered]
      constructor
      · rintro ⟨h1, h2⟩
        refine ⟨h1, ?_⟩
        rintro ⟨n', os', he, hk⟩
        cases he
        simp [hk] at h2
      · rintro ⟨h1, h2⟩
        refine ⟨h1, ?_⟩
        have : k ∉ os := fun hk => h2 ⟨n, os, rfl, hk⟩
        simp [this]
    · next hf =>
      constructor
      · intro h
        refine ⟨h, ?_⟩
        rintro ⟨n', os', he, -⟩
        cases he
        exact hf rfl
      · exact fun h => h.1
  · next hno =>
    constructor
    · intro h
      refine ⟨h, ?_⟩
      rintro ⟨n', os', he, -⟩
      cases he
      exact hno n' first os' rfl rfl
    · exact fun h => h.1

theorem mem_removed_fold (first : Nat) (S : List TCons) (ks : List Nat) (k : Nat) :
    k ∈ S.foldl (fun (ks : List Nat) s =>
      match s.pred, s.args with
      | .notIn _, f :: os => if f = first then ks.filter (fun k => !os.contains k) else ks
      | _, _ => ks) ks ↔ k ∈ ks ∧ ∀ s ∈ S, ¬ tCovered first s k := by
  induction S generalizing ks with
  | nil => simp
  | cons s S ih =>
    simp only [List.foldl_cons]
    rw [ih, mem_removed_step]
    simp only [List.mem_cons, forall_eq_or_imp]
    exact ⟨fun ⟨⟨a, b⟩, c⟩ => ⟨a, b, c⟩, fun ⟨a, b, c⟩ => ⟨⟨a, b⟩, c⟩⟩

/-- **Pointwise conditioning law of the table domain.** -/
theorem tCond_law (m : TMap) (c : TCons) (S : List TCons)
    (harity : c.args.length = c.pred.arity) (hbound : ∀ k ∈ c.args, (alGet m k).isSome = true)
    (hS : ∀ s ∈ S, tSigma m s = true) :
    (tCond c S = none → tSigma m c = true) ∧
    (∀ c', tCond c S = some c' → tSigma m c' = tSigma m c) := by
  obtain ⟨pred, args⟩ := c
  simp only at harity hbound
  unfold tCond
  simp only
  split
  · next n =>
    -- `true_ n`
    refine ⟨fun _ => ?_, fun c' h => by cases h⟩
    rw [tSigma_iff, isSatisfied_ok_iff]
    have hex : ∀ (ks : List Nat), (∀ k ∈ ks, (alGet m k).isSome = true) →
        ∃ vs : List Nat, ks.map (alGet m) = vs.map some := by
      intro ks
      induction ks with
      | nil => intro _; exact ⟨[], rfl⟩
      | cons k ks ih =>
        intro h
        obtain ⟨vs, h1⟩ := ih (fun k' hk' => h k' (List.mem_cons_of_mem _ hk'))
        have := h k (List.mem_cons_self ..)
        cases hk : alGet m k with
        | none => rw [hk] at this; cases this
        | some w => exact ⟨w :: vs, by simp [hk, h1]⟩
    obtain ⟨vs, h1⟩ := hex args hbound
    refine ⟨vs, h1, ?_⟩
    have hlen : vs.length = n := by
      have := congrArg List.length h1
      simp only [List.length_map] at this
      rw [← this, harity]; rfl
    simp [TPred.check, hlen]
  · next n =>
    -- `notIn n`
    cases args with
    | nil => simp [TPred.arity] at harity
    | cons first others =>
      simp only
      have hlen : others.length = n := by simpa [TPred.arity] using harity
      have hfirst := hbound first (List.mem_cons_self ..)
      cases hv : alGet m first with
      | none => rw [hv] at hfirst; cases hfirst
      | some v =>
        -- what membership in `removed` means
        have hrem : ∀ k, k ∈ S.foldl (fun (ks : List Nat) s =>
            match s.pred, s.args with
            | .notIn _, f :: os => if f = first then ks.filter (fun k => !os.contains k) else ks
            | _, _ => ks) (others.foldl (fun s k => insertSet k s) []) ↔
            k ∈ others ∧ ∀ s ∈ S, ¬ tCovered first s k := by
          intro k
          rw [mem_removed_fold, mem_insertSet_fold]
          simp
        generalize S.foldl (fun (ks : List Nat) s =>
            match s.pred, s.args with
            | .notIn _, f :: os => if f = first then ks.filter (fun k => !os.contains k) else ks
            | _, _ => ks) (others.foldl (fun s k => insertSet k s) []) = removed at hrem
        -- covered keys differ from `first`'s value
        have hcov : ∀ k, k ∈ others → k ∉ removed → ∃ w, alGet m k = some w ∧ w ≠ v := by
          intro k hk hnr
          have : ¬ ∀ s ∈ S, ¬ tCovered first s k := fun h => hnr ((hrem k).2 ⟨hk, h⟩)
          have : ∃ s ∈ S, tCovered first s k := by
            apply Classical.byContradiction
            intro hne
            exact this (fun s hs hc => hne ⟨s, hs, hc⟩)
          obtain ⟨s, hs, n', os, rfl, hkos⟩ := this
          obtain ⟨-, v', hv', hall⟩ := (tSigma_notIn m n' first os).1 (hS _ hs)
          rw [hv] at hv'; cases hv'
          exact hall k hkos
        split
        · next hemp =>
          have hnil : removed = [] := by simpa using hemp
          refine ⟨fun _ => ?_, fun c' h => by cases h⟩
          rw [tSigma_notIn]
          refine ⟨hlen, v, hv, fun k hk => hcov k hk ?_⟩
          rw [hnil]; simp
        · refine ⟨fun h => (by cases h), ?_⟩
          intro c' hc'
          cases hc'
          rw [Bool.eq_iff_iff, tSigma_notIn, tSigma_notIn]
          constructor
          · rintro ⟨-, v', hv', hall⟩
            rw [hv] at hv'; cases hv'
            refine ⟨hlen, v, hv, ?_⟩
            intro k hk
            by_cases hr : k ∈ removed
            · exact hall k hr
            · exact hcov k hk hr
          · rintro ⟨-, v', hv', hall⟩
            exact ⟨rfl, v', hv', fun k hk => hall k ((hrem k).1 hk).1⟩
  · refine ⟨fun h => (by cases h), ?_⟩
    intro c' hc'
    cases hc'
    rfl

end Pm
namespace Pm
open CTree

/-! ### `withPowerset`: the C10 clauses -/
section PowersetFinal
variable {C : Type} [DecidableEq C] {cond : C → List C → Option C} {cs : List (C × Nat)}
  {fuel : Nat} {t : CTree C}

theorem withPowerset_terminates (cond : C → List C → Option C) (cs : List (C × Nat)) (fuel : Nat)
    (hf : 2 ^ (cs.length + 1) ≤ fuel) : (withPowerset cond cs fuel).isSome = true := by
  unfold withPowerset
  split
  · rfl
  · apply powersetLoop_terminates
    have := psW_lt cs.length
    simp only [qW, List.map_cons, List.map_nil, List.sum_cons, List.sum_nil, Nat.sub_zero]
    omega

theorem withPowerset_valid (h : withPowerset cond cs fuel = some t) :
    ∀ l ∈ t.allLabels, ∃ c, (c, l) ∈ cs := by
  intro l hl
  by_cases hne : cs = []
  · subst hne
    rw [withPowerset_nil h] at hl
    simp [allLabels, CTree.new] at hl
  · have inv := withPowerset_inv (σ := fun _ => true) ((condLaw_true cond).on _) hne h
    obtain ⟨n, hn⟩ := (mem_allLabels t l).1 hl
    obtain ⟨c, hc, -⟩ := inv.labSound n l hn
    exact ⟨c, hc⟩

theorem withPowerset_smallest (h : withPowerset cond cs fuel = some t) {c₀ : C} {i₀ : Nat}
    {rest : List (C × Nat)} (hcs : cs = (c₀, i₀) :: rest) : i₀ ∈ t.allLabels := by
  have hne : cs ≠ [] := by rw [hcs]; exact List.cons_ne_nil _ _
  have inv := withPowerset_inv (σ := fun _ => true) ((condLaw_true cond).on _) hne h
  rcases inv.first c₀ i₀ rest hcs with ⟨it, hit, -⟩ | h'
  · cases hit
  · exact h'

theorem withPowerset_all_labels (h : withPowerset cond cs fuel = some t) {c : C} {l : Nat}
    (hc : (c, l) ∈ cs) : l ∈ t.allLabels := by
  have hne : cs ≠ [] := by rintro rfl; cases hc
  have inv := withPowerset_inv (σ := fun _ => true) ((condLaw_true cond).on _) hne h
  obtain ⟨p, hp, htr⟩ := inv.complete
  obtain ⟨j, hj⟩ := List.mem_iff_getElem?.1 hc
  have hjlt : j < cs.length := (List.getElem?_eq_some_iff.1 hj).1
  rcases htr with hle | ⟨it, hit, -⟩
  · obtain ⟨n, -, hn⟩ := hp j c l (by omega) hj rfl
    exact (mem_allLabels t l).2 ⟨n, hn⟩
  · cases hit

theorem withPowerset_faithful {σ : C → Bool} (h : withPowerset cond cs fuel = some t)
    (law : CondLawOn cond σ (fun c => ∃ i, (c, i) ∈ cs)) (hnd : (cs.map (·.2)).Nodup)
    {c : C} {l : Nat} (hc : (c, l) ∈ cs) : t.reachLabel σ l = true ↔ σ c = true := by
  have hne : cs ≠ [] := by rintro rfl; cases hc
  have inv := withPowerset_inv law hne h
  rw [reachLabel_iff inv.wf]
  constructor
  · rintro ⟨k, hk, hl⟩
    obtain ⟨c', hc', hs⟩ := inv.labSound k l hl
    have e : c' = c := nodup_snd_unique hnd hc' hc
    subst e
    exact hs hk
  · intro hσ
    obtain ⟨p, hp, htr⟩ := inv.complete
    obtain ⟨j, hj⟩ := List.mem_iff_getElem?.1 hc
    have hjlt : j < cs.length := (List.getElem?_eq_some_iff.1 hj).1
    rcases htr with hle | ⟨it, hit, -⟩
    · exact hp j c l (by omega) hj hσ
    · cases hit

end PowersetFinal

/-! ### The table domain's powerset strategy -/

/-- `c` is arity-correct and all its argument keys are bound in `m`. -/
def tOk (m : TMap) (c : TCons) : Prop :=
  c.args.length = c.pred.arity ∧ ∀ k ∈ c.args, (alGet m k).isSome = true

theorem tCond_lawOn (m : TMap) (P : TCons → Prop) (hP : ∀ c, P c → tOk m c) :
    CondLawOn tCond (tSigma m) P :=
  fun c S hc _ hS => tCond_law m c S (hP c hc).1 (hP c hc).2 hS

theorem tTree_powerset {s : Nat} (hs : 3 ≤ s) {cs : List TCons} {fuel : Nat} {t : CTree TCons}
    (h : tTree s cs fuel = some t) (m : TMap) (hok : ∀ c ∈ cs, tOk m c) :
    (∀ i ∈ t.allLabels, i < cs.length) ∧
    (∀ i ∈ t.allLabels, ∀ c, cs[i]? = some c →
      (t.reachLabel (tSigma m) i = true ↔ tSigma m c = true)) ∧
    (cs ≠ [] → ∃ x xs, sortWithIndices tconsLe cs = x :: xs ∧ x.2 ∈ t.allLabels) := by
  unfold tTree at h
  split at h
  · next hemp =>
    have : cs = [] := by simpa using hemp
    subst this
    cases h
    refine ⟨?_, ?_, fun h => absurd rfl h⟩ <;> simp [allLabels, CTree.new]
  · simp only at h
    split at h
    · omega
    · omega
    · omega
    · have hsub : ∀ c i, (c, i) ∈ (sortWithIndices tconsLe cs).take 4 → cs[i]? = some c :=
        fun c i hci => (mem_sortWithIndices tconsLe cs c i).1 (List.mem_of_mem_take hci)
      have hnd : (((sortWithIndices tconsLe cs).take 4).map (·.2)).Nodup := by
        rw [List.map_take]
        exact (sortWithIndices_nodup tconsLe cs).sublist (List.take_sublist _ _)
      have law : CondLawOn tCond (tSigma m)
          (fun c => ∃ i, (c, i) ∈ (sortWithIndices tconsLe cs).take 4) :=
        tCond_lawOn m _ (fun c ⟨i, hci⟩ => hok c (List.mem_of_getElem? (hsub c i hci)))
      refine ⟨?_, ?_, ?_⟩
      · intro i hi
        obtain ⟨c, hc⟩ := withPowerset_valid h i hi
        exact (List.getElem?_eq_some_iff.1 (hsub c i hc)).1
      · intro i hi c hc
        obtain ⟨c', hc'⟩ := withPowerset_valid h i hi
        have : c' = c := Option.some.inj ((hsub c' i hc').symm.trans hc)
        subst this
        exact withPowerset_faithful h law hnd hc'
      · intro hne
        cases hsrt : sortWithIndices tconsLe cs with
        | nil => exact absurd hsrt (sortWithIndices_ne_nil _ hne)
        | cons x xs =>
          refine ⟨x, xs, rfl, ?_⟩
          rw [hsrt] at h
          exact withPowerset_smallest (c₀ := x.1) (i₀ := x.2) (rest := xs.take 3) h (by simp)

end Pm
namespace Pm

/-! ### `tconsLe` is a total preorder -/

theorem natListLe_total : ∀ a b : List Nat, natListLe a b = true ∨ natListLe b a = true
  | [], _ => Or.inl (by simp [natListLe])
  | _ :: _, [] => Or.inr (by simp [natListLe])
  | x :: a, y :: b => by
    simp only [natListLe]
    rcases Nat.lt_trichotomy x y with h | h | h
    · exact Or.inl (by simp [h])
    · subst h
      simp only [Nat.lt_irrefl, if_false, if_true]
      exact natListLe_total a b
    · exact Or.inr (by simp [h])

theorem natListLe_trans : ∀ a b c : List Nat, natListLe a b = true → natListLe b c = true →
    natListLe a c = true
  | [], _, _, _, _ => by simp [natListLe]
  | _ :: _, [], _, h, _ => by simp [natListLe] at h
  | _ :: _, _ :: _, [], _, h => by simp [natListLe] at h
  | x :: a, y :: b, z :: c, h₁, h₂ => by
    simp only [natListLe] at h₁ h₂ ⊢
    by_cases hxy : x < y
    · by_cases hyz : y < z
      · simp [show x < z by omega]
      · by_cases hyz' : y = z
        · subst hyz'; simp [hxy]
        · simp [hyz, hyz'] at h₂
    · by_cases hxy' : x = y
      · subst hxy'
        by_cases hyz : x < z
        · simp [hyz]
        · by_cases hyz' : x = z
          · subst hyz'
            simp only [Nat.lt_irrefl, if_false, if_true] at h₁ h₂ ⊢
            exact natListLe_trans a b c h₁ h₂
          · simp [hyz, hyz'] at h₂
      · simp [hxy, hxy'] at h₁

/-- The lexicographic reading of `tconsLe`. -/
theorem tconsLe_iff (a b : TCons) : tconsLe a b = true ↔
    (a.args.foldl max 0 < b.args.foldl max 0 ∨ (a.args.foldl max 0 = b.args.foldl max 0 ∧
      (a.pred.code.1 < b.pred.code.1 ∨ (a.pred.code.1 = b.pred.code.1 ∧
        (a.pred.code.2 < b.pred.code.2 ∨ (a.pred.code.2 = b.pred.code.2 ∧
          natListLe a.args b.args = true)))))) := by
  unfold tconsLe
  simp only
  generalize a.args.foldl max 0 = ma
  generalize b.args.foldl max 0 = mb
  generalize a.pred.code.1 = p
  generalize b.pred.code.1 = q
  generalize a.pred.code.2 = r
  generalize b.pred.code.2 = s
  generalize natListLe a.args b.args = e
  repeat' split
  all_goals first | (simp only [Bool.false_eq_true, false_iff]; omega) | (simp only [true_iff]; omega) | skip
  constructor
  · intro h; exact Or.inr ⟨by omega, Or.inr ⟨by omega, Or.inr ⟨by omega, h⟩⟩⟩
  · rintro (h | ⟨-, h | ⟨-, h | ⟨-, h⟩⟩⟩)
    · omega
    · omega
    · omega
    · exact h

theorem tconsLe_totalPreorder : TotalPreorder tconsLe where
  total := by
    intro a b
    rw [tconsLe_iff, tconsLe_iff]
    have := natListLe_total a.args b.args
    generalize a.args.foldl max 0 = ma
    generalize b.args.foldl max 0 = mb
    generalize a.pred.code.1 = p
    generalize b.pred.code.1 = q
    generalize a.pred.code.2 = r
    generalize b.pred.code.2 = s
    rcases this with h | h
    · simp only [h, and_true]; omega
    · simp only [h, and_true]; omega
  trans := by
    intro a b c
    rw [tconsLe_iff, tconsLe_iff, tconsLe_iff]
    have := natListLe_trans a.args b.args c.args
    generalize a.args.foldl max 0 = ma
    generalize b.args.foldl max 0 = mb
    generalize c.args.foldl max 0 = mc
    generalize a.pred.code.1 = p
    generalize b.pred.code.1 = q
    generalize c.pred.code.1 = q'
    generalize a.pred.code.2 = r
    generalize b.pred.code.2 = s
    generalize c.pred.code.2 = s'
    generalize natListLe a.args b.args = e₁ at this
    generalize natListLe b.args c.args = e₂ at this
    generalize natListLe a.args c.args = e₃ at this
    intro h₁ h₂
    cases e₁ <;> cases e₂ <;> cases e₃ <;>
      simp only [Bool.false_eq_true, and_false, or_false, and_true, true_implies,
        false_implies, imp_false, not_true_eq_false] at this h₁ h₂ ⊢ <;> omega

end Pm

namespace Pm
open CTree

/-- Every strategy of `tTree` keeps the head of the sorted constraint list. -/
theorem tTree_head {s : Nat} {cs : List TCons} {fuel : Nat} {t : CTree TCons}
    (h : tTree s cs fuel = some t) (hne : cs ≠ []) :
    ∃ x xs, sortWithIndices tconsLe cs = x :: xs ∧ x.2 ∈ t.allLabels := by
  rcases Nat.lt_or_ge s 3 with hs | hs
  · obtain ⟨kept, p, hsub, hhead⟩ := tTree_pairs s (by omega) cs fuel t h
    exact (p.sortedClauses tconsLe cs hsub hhead (fun _ => true)).2.2 hne
  · unfold tTree at h
    split at h
    · next hemp => exact absurd (by simpa using hemp) hne
    · simp only at h
      split at h
      · omega
      · omega
      · omega
      · cases hsrt : sortWithIndices tconsLe cs with
        | nil => exact absurd hsrt (sortWithIndices_ne_nil _ hne)
        | cons x xs =>
          refine ⟨x, xs, rfl, ?_⟩
          rw [hsrt] at h
          exact withPowerset_smallest (c₀ := x.1) (i₀ := x.2) (rest := xs.take 3) h (by simp)

/-- The tree of a non-empty constraint list contains the index of a `tconsLe`-minimum, namely
the first one in the input order. -/
theorem tTree_contains_min {s : Nat} {cs : List TCons} {fuel : Nat} {t : CTree TCons}
    (h : tTree s cs fuel = some t) (hne : cs ≠ []) :
    ∃ i c, i ∈ t.allLabels ∧ cs[i]? = some c ∧ (∀ y ∈ cs, tconsLe c y = true) ∧
      (∀ j y, cs[j]? = some y → tconsLe y c = true → i ≤ j) := by
  obtain ⟨x, xs, hsrt, hx⟩ := tTree_head h hne
  obtain ⟨c, i⟩ := x
  have hmem : (c, i) ∈ sortWithIndices tconsLe cs := by rw [hsrt]; exact List.mem_cons_self ..
  have hmin := sortWithIndices_head_min tconsLe_totalPreorder cs hsrt
  exact ⟨i, c, hx, (mem_sortWithIndices tconsLe cs c i).1 hmem, hmin.1, hmin.2⟩

end Pm

namespace Pm
open CTree

/-- The executable checker `faithfulAt` follows from validity and faithfulness of all labels. -/
theorem faithfulAt_of_clauses {C : Type} (t : CTree C) (cs : List C) (σ : C → Bool)
    (hvalid : ∀ i ∈ t.allLabels, i < cs.length)
    (hfaith : ∀ i ∈ t.allLabels, ∀ c, cs[i]? = some c → (t.reachLabel σ i = true ↔ σ c = true)) :
    t.faithfulAt cs σ = true := by
  unfold faithfulAt
  rw [List.all_eq_true]
  intro i hi
  have hlt := hvalid i hi
  rw [List.getElem?_eq_getElem hlt]
  simp only
  have := hfaith i hi cs[i] (List.getElem?_eq_getElem hlt)
  rw [beq_iff_eq, Bool.eq_iff_iff]
  exact this

end Pm
