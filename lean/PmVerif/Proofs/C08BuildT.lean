/-
Proofs/C08BuildT.lean — the disciplined replay `buildT` / `buildTL` (Model/BuilderT.lean) versus
the undisciplined `build` / `buildL`: the discipline only ADDS guards (c1T on `Topo`, c4T on
`Merge`), so whenever the disciplined build succeeds the undisciplined one returns the same
automaton (`buildT_imp_build`, `buildTL_imp_buildL`); every theorem about `build` applies to
`buildT`. (The discipline: c1T on `Topo`, c4T on `Merge`, c1C at the end of the log.)
Everything lives in `namespace Pm.C08`.
-/
import PmVerif.Model.BuilderT
namespace Pm
namespace C08
open Automaton
variable {K P : Type} [DecidableEq K] [DecidableEq P]
set_option linter.unusedSectionVars false

theorem mergesLogged_of_T : ∀ (evs : List Ev) {a : Automaton K P} {r : Automaton K P × List Ev},
    a.mergesLoggedT evs = .ok r → a.mergesLogged evs = .ok r := by
  intro evs
  induction evs with
  | nil => intro a r h; unfold mergesLoggedT at h; unfold mergesLogged; exact h
  | cons ev evs ih =>
    intro a r h
    cases ev with
    | merge n nodes =>
      unfold mergesLoggedT at h
      unfold mergesLogged
      split at h
      · cases h
      · cases hd : a.doMerge n nodes with
        | error e => rw [hd] at h; cases h
        | ok a1 =>
          rw [hd] at h
          exact ih h
    | topo _ => unfold mergesLoggedT at h; unfold mergesLogged; exact h
    | group _ _ => unfold mergesLoggedT at h; unfold mergesLogged; exact h
    | detAsk _ => unfold mergesLoggedT at h; unfold mergesLogged; exact h
    | detYes _ => unfold mergesLoggedT at h; unfold mergesLogged; exact h
    | iterEnd _ => unfold mergesLoggedT at h; unfold mergesLogged; exact h

/-- The tail of an iteration (merges, `IterEnd`) in both replays. -/
theorem iteration_tail_of_T {s : Nat} {r : Automaton K P × List Ev}
    (x : R (Automaton K P × List Ev))
    (h : (match x with
      | .error e => .error e
      | .ok (a, evs) =>
        match a.mergesLoggedT evs with
        | .error e => .error e
        | .ok (a, .iterEnd s' :: evs) =>
          if s' = s then .ok (a, evs) else .error (.guard "IterEnd for another state")
        | .ok _ => .error (.guard "missing IterEnd event")) = Except.ok r) :
    (match x with
      | .error e => .error e
      | .ok (a, evs) =>
        match a.mergesLogged evs with
        | .error e => .error e
        | .ok (a, .iterEnd s' :: evs) =>
          if s' = s then .ok (a, evs) else .error (.guard "IterEnd for another state")
        | .ok _ => .error (.guard "missing IterEnd event")) = Except.ok r := by
  cases x with
  | error e => cases h
  | ok v =>
    obtain ⟨a, evs⟩ := v
    simp only at h ⊢
    cases hm : a.mergesLoggedT evs with
    | error e => rw [hm] at h; cases h
    | ok v' =>
      rw [hm] at h
      rw [mergesLogged_of_T evs hm]
      exact h

theorem iteration_of_with_makeDet
    {toTree : List (Constraint K P) → Option (CTree (Constraint K P))} {fuel : Nat}
    {a : Automaton K P} {s : Nat} {evs : List Ev} {r : Automaton K P × List Ev}
    (h : iterationWith makeDet toTree fuel a s evs = .ok r) :
    iteration toTree fuel a s evs = .ok r := by
  unfold iterationWith at h
  unfold iteration
  by_cases hlive : (!a.g.containsNode s) = true
  · rw [if_pos hlive] at h; cases h
  · rw [if_neg hlive] at h ⊢
    cases h1 : a.makeConstraintsUnique s evs with
    | error e => rw [h1] at h; cases h
    | ok v1 =>
      obtain ⟨a1, evs1⟩ := v1
      rw [h1] at h
      simp only at h ⊢
      cases h2 : insertConstraintTree toTree a1 s fuel with
      | error e => rw [h2] at h; cases h
      | ok v2 =>
        obtain ⟨a2, treeDet⟩ := v2
        rw [h2] at h
        simp only at h ⊢
        cases h3 : a2.makeConstraintsUnique s evs1 with
        | error e => rw [h3] at h; cases h
        | ok v3 =>
          obtain ⟨a3, evs3⟩ := v3
          rw [h3] at h
          simp only at h ⊢
          exact iteration_tail_of_T _ h

theorem iterationL_of_with_makeDetL
    {toTree : List (Constraint K P) → Option (CTree (Constraint K P))} {fuel : Nat}
    {a : Automaton K P} {s : Nat} {evs : List Ev} {r : Automaton K P × List Ev}
    (h : iterationWith makeDetL toTree fuel a s evs = .ok r) :
    iterationL toTree fuel a s evs = .ok r := by
  unfold iterationWith at h
  unfold iterationL
  by_cases hlive : (!a.g.containsNode s) = true
  · rw [if_pos hlive] at h; cases h
  · rw [if_neg hlive] at h ⊢
    cases h1 : a.makeConstraintsUnique s evs with
    | error e => rw [h1] at h; cases h
    | ok v1 =>
      obtain ⟨a1, evs1⟩ := v1
      rw [h1] at h
      simp only at h ⊢
      cases h2 : insertConstraintTree toTree a1 s fuel with
      | error e => rw [h2] at h; cases h
      | ok v2 =>
        obtain ⟨a2, treeDet⟩ := v2
        rw [h2] at h
        simp only at h ⊢
        cases h3 : a2.makeConstraintsUnique s evs1 with
        | error e => rw [h3] at h; cases h
        | ok v3 =>
          obtain ⟨a3, evs3⟩ := v3
          rw [h3] at h
          simp only at h ⊢
          exact iteration_tail_of_T _ h

theorem mainLoop_of_with_makeDet
    {toTree : List (Constraint K P) → Option (CTree (Constraint K P))} {fuel : Nat} :
    ∀ (n : Nat) {a a' : Automaton K P} {emitted : List Nat} {evs : List Ev},
      mainLoopWith makeDet toTree fuel n a emitted evs = .ok a' →
      mainLoop toTree fuel n a evs = .ok a' := by
  intro n
  induction n with
  | zero =>
    intro a a' emitted evs h
    cases evs with
    | nil =>
      unfold mainLoopWith at h
      unfold mainLoop
      split at h
      · exact h
      · cases h
    | cons e es => unfold mainLoopWith at h; cases h
  | succ n ih =>
    intro a a' emitted evs h
    cases evs with
    | nil =>
      unfold mainLoopWith at h
      unfold mainLoop
      split at h
      · exact h
      · cases h
    | cons e es =>
      cases e with
      | topo s =>
        unfold mainLoopWith at h
        unfold mainLoop
        split at h
        · cases h
        · split at h
          · cases h
          · rename_i a1 evs1 h1
            rw [iteration_of_with_makeDet h1]
            exact ih h
      | _ => unfold mainLoopWith at h; cases h

theorem mainLoopL_of_with_makeDetL
    {toTree : List (Constraint K P) → Option (CTree (Constraint K P))} {fuel : Nat} :
    ∀ (n : Nat) {a a' : Automaton K P} {emitted : List Nat} {evs : List Ev},
      mainLoopWith makeDetL toTree fuel n a emitted evs = .ok a' →
      mainLoopL toTree fuel n a evs = .ok a' := by
  intro n
  induction n with
  | zero =>
    intro a a' emitted evs h
    cases evs with
    | nil =>
      unfold mainLoopWith at h
      unfold mainLoopL
      split at h
      · exact h
      · cases h
    | cons e es => unfold mainLoopWith at h; cases h
  | succ n ih =>
    intro a a' emitted evs h
    cases evs with
    | nil =>
      unfold mainLoopWith at h
      unfold mainLoopL
      split at h
      · exact h
      · cases h
    | cons e es =>
      cases e with
      | topo s =>
        unfold mainLoopWith at h
        unfold mainLoopL
        split at h
        · cases h
        · split at h
          · cases h
          · rename_i a1 evs1 h1
            rw [iterationL_of_with_makeDetL h1]
            exact ih h
      | _ => unfold mainLoopWith at h; cases h

/-- **Whenever the disciplined guarded build succeeds, the guarded build returns the same
automaton**, so every theorem about `build` (T-BUILD, C01–C06, …) applies to `buildT`. -/
theorem buildT_imp_build
    {toTree : List (Constraint K P) → Option (CTree (Constraint K P))} {req : K → List K}
    {fuel : Nat} {patterns : List (Nat × List (Constraint K P) × List K)} {evs : List Ev}
    {A : Automaton K P} (h : buildT toTree req fuel patterns evs = .ok A) :
    build toTree req fuel patterns evs = .ok A := by
  unfold buildT at h
  unfold build
  cases h1 : addPatterns req fuel (new : Automaton K P) patterns with
  | error e => rw [h1] at h; cases h
  | ok a1 =>
    rw [h1] at h
    simp only at h ⊢
    unfold finishWith at h
    unfold finish
    cases h2 : mainLoopWith makeDet toTree fuel evs.length a1 [] evs with
    | error e => rw [h2] at h; cases h
    | ok a2 =>
      rw [h2] at h
      rw [mainLoop_of_with_makeDet _ h2]
      exact h

/-- The same for the lenient replays (the Rust code as it runs). -/
theorem buildTL_imp_buildL
    {toTree : List (Constraint K P) → Option (CTree (Constraint K P))} {req : K → List K}
    {fuel : Nat} {patterns : List (Nat × List (Constraint K P) × List K)} {evs : List Ev}
    {A : Automaton K P} (h : buildTL toTree req fuel patterns evs = .ok A) :
    buildL toTree req fuel patterns evs = .ok A := by
  unfold buildTL at h
  unfold buildL
  cases h1 : addPatterns req fuel (new : Automaton K P) patterns with
  | error e => rw [h1] at h; cases h
  | ok a1 =>
    rw [h1] at h
    simp only at h ⊢
    unfold finishWith at h
    unfold finishL
    cases h2 : mainLoopWith makeDetL toTree fuel evs.length a1 [] evs with
    | error e => rw [h2] at h; cases h
    | ok a2 =>
      rw [h2] at h
      rw [mainLoopL_of_with_makeDetL _ h2]
      exact h

end C08
end Pm
