/-
Proofs/PGProgRun.lean — T-RUN-ANCH-PG from the per-state hypothesis `AllOK A css` (every live
state satisfies `AnchG.StateOK`) instead of the decidable check `pgProgramOK A css = true`: the
proofs of Proofs/AnchGReach.lean (`reach_inv`) and Proofs/AnchGRun.lean (`twin`, `complete_aux`,
soundness, completeness, the equivalence) only use the check through `stateOK_of_programOK`; they
are repeated here with that one step replaced (the lemmas that already take `StateOK` —
`cands_cases`, `sat_cand`, `eps_cond_iff`, `good_of_key`, `good_step`, `good_emit` — are reused).
The clauses "at most one fallback" and "fallback entries are constraint-free live edges",
`Nodup` and `prereqOrdered` of `pgProgramOK` are not needed. Everything lives in
`namespace Pm.PGProg`.
-/
import PmVerif.Proofs.AnchGRun
namespace Pm
namespace PGProg
open Automaton AnchG

/-- Every live state satisfies the per-state conditions of the anchored traversal theorem. -/
def AllOK (A : Automaton PGKey PGPred) (css : List (Option (List PGCons))) : Prop :=
  ∀ s w, A.g.weight? s = some w → StateOK A css s w

/-- The check implies the per-state hypothesis. -/
theorem allOK_of_programOK {A : Automaton PGKey PGPred} {css : List (Option (List PGCons))}
    (hok : pgProgramOK A css = true) : AllOK A css :=
  fun _ _ hw => stateOK_of_programOK hok hw

variable {A : Automaton PGKey PGPred} {css : List (Option (List PGCons))} {h : PortGraph}

theorem reach_inv (hok : AllOK A css) {s : Nat} {m : PGMap}
    (hr : Reach pgDomain A h s m) : Inv A h s m := by
  induction hr with
  | root => exact .inl ⟨rfl, .inl rfl⟩
  | @con s m w cands m' t e c _ hw hc hm' ht he hcw hsat ih =>
    have hst := hok _ _ hw
    have hne : w.scope ≠ [] := hst.scope_ne (.inl (List.ne_nil_of_mem ht))
    rcases cands_cases hst hne ih hc hm' with ⟨rfl, hE⟩ | ⟨r, hr, hmap, hpath⟩
    · exact .inl ⟨rfl, .inr hE⟩
    · refine .inr ⟨r, hr, anchored_of_mapIs hmap (hst.scope_shape.root_mem hne),
        fun pid ks hacc => hpath pid ks ?_⟩
      rw [sat_cand hst ht he hcw hmap.2] at hsat
      exact AccDetK.con hw ht he hcw (Option.some.inj hsat) hacc
  | @eps s m w cands m' t e _ hw hc hm' ht he hd ih =>
    have hst := hok _ _ hw
    have hne : w.scope ≠ [] := hst.scope_ne (.inr (List.ne_nil_of_mem ht))
    rcases cands_cases hst hne ih hc hm' with ⟨rfl, hE⟩ | ⟨r, hr, hmap, hpath⟩
    · exact .inl ⟨rfl, .inr hE⟩
    · refine .inr ⟨r, hr, anchored_of_mapIs hmap (hst.scope_shape.root_mem hne),
        fun pid ks hacc => hpath pid ks ?_⟩
      exact AccDetK.eps hw ht he ((eps_cond_iff hst hmap.2).mp hd) hacc

section Complete
variable {fuel : Nat} {ms : List (Match PGMap)} {seen : List (Nat × List (Option Nat))}

theorem twin {exp : List (Nat × PGMap)} {r s : Nat} {m : PGMap} {w : AState PGKey}
    (hok : AllOK A css)
    (hF : Forall2 (fun sm key => ∃ w, A.g.weight? sm.1 = some w ∧
      key = (sm.1, visitKey pgDomain w sm.2)) exp seen)
    (hreach : ∀ sm ∈ exp, Reach pgDomain A h sm.1 sm.2)
    (hw : A.g.weight? s = some w) (hg : AnchG.Good A h r s m)
    (h0 : .root 0 ∈ w.scope ++ dedup (w.matches_.flatMap (·.2)))
    (hkey : (s, visitKey pgDomain w m) ∈ seen) :
    ∃ m₂, (s, m₂) ∈ exp ∧ AnchG.Good A h r s m₂ := by
  obtain ⟨⟨s', m₂⟩, hmem, w', hw', heq⟩ := hF.mem_right hkey
  simp only [Prod.mk.injEq] at heq
  obtain ⟨rfl, hk⟩ := heq
  rw [hw] at hw'
  cases hw'
  exact ⟨m₂, hmem, good_of_key hg (reach_inv hok (hreach _ hmem)) h0 hk.symm⟩

theorem complete_aux (hok : AllOK A css)
    (hr : run pgDomain A h fuel = .ok (ms, seen)) (r : Nat) (hrn : r ∈ h.nodesIter)
    (pid : Nat) (ks : List PGKey) (hne : ks ≠ [])
    (hb : ∀ k ∈ ks, (pgVal h r k).isSome = true) (s : Nat)
    (hacc : AccDetK (pgSigmaAnch h r) A s pid ks) :
    ∀ m, AnchG.Good A h r s m → (∀ w, A.g.weight? s = some w → (s, visitKey pgDomain w m) ∈ seen) →
      ∃ mm, (pid, mm) ∈ ms ∧ MapIs mm ks (pgVal h r) := by
  obtain ⟨_, exp, hF, ⟨ems, hE, rfl⟩, hreach, hclosed⟩ := trun_closed hr
  induction hacc with
  | @here s pid ks w hw hmem =>
    intro m hg hkey
    have hst := hok _ _ hw
    have h0 : .root 0 ∈ w.scope ++ dedup (w.matches_.flatMap (·.2)) := by
      apply List.mem_append_right
      rw [mem_dedup, List.mem_flatMap]
      exact ⟨(pid, ks), hmem, (hst.matches_ pid ks hmem).1.root_mem hne⟩
    obtain ⟨m₂, hexp, hg₂⟩ := twin hok hF hreach hw hg h0 (hkey w hw)
    obtain ⟨em, hem, w', hw', he⟩ := hE.mem_left hexp
    rw [hw] at hw'
    cases hw'
    obtain ⟨mm, hmm, hmap⟩ := good_emit hrn hst hg₂ hmem hne hb he
    exact ⟨mm, List.mem_flatten.mpr ⟨em, hem, hmm⟩, hmap⟩
  | @con s pid ks w t e c hw ht he hcw hsig _ ih =>
    intro m hg hkey
    have hst := hok _ _ hw
    have hsne : w.scope ≠ [] := hst.scope_ne (.inl (List.ne_nil_of_mem ht))
    have h0 : .root 0 ∈ w.scope ++ dedup (w.matches_.flatMap (·.2)) :=
      List.mem_append_left _ (hst.scope_shape.root_mem hsne)
    obtain ⟨m₂, hexp, hg₂⟩ := twin hok hF hreach hw hg h0 (hkey w hw)
    obtain ⟨nexts, hn, hcl⟩ := hclosed _ hexp
    obtain ⟨cands, m', hc, hcand, hmap⟩ := good_step hrn hst hsne hg₂
    have hnext : (e.dst, m') ∈ nexts :=
      (mem_nextLegalStates hn _ _).mpr ⟨w, cands, hw, hc, hcand,
        .inl ⟨t, e, c, ht, he, hcw, by rw [sat_cand hst ht he hcw hmap.2, hsig], rfl⟩⟩
    obtain ⟨w', hw', hseen⟩ := hcl _ hnext
    refine ih hne hb _ (.inr (anchored_of_mapIs hmap (hst.scope_shape.root_mem hsne))) ?_
    intro w'' hw''
    rw [hw'] at hw''
    cases hw''
    exact hseen
  | @eps s pid ks w t e hw ht he hd _ ih =>
    intro m hg hkey
    have hst := hok _ _ hw
    have hsne : w.scope ≠ [] := hst.scope_ne (.inr (List.ne_nil_of_mem ht))
    have h0 : .root 0 ∈ w.scope ++ dedup (w.matches_.flatMap (·.2)) :=
      List.mem_append_left _ (hst.scope_shape.root_mem hsne)
    obtain ⟨m₂, hexp, hg₂⟩ := twin hok hF hreach hw hg h0 (hkey w hw)
    obtain ⟨nexts, hn, hcl⟩ := hclosed _ hexp
    obtain ⟨cands, m', hc, hcand, hmap⟩ := good_step hrn hst hsne hg₂
    have hnext : (e.dst, m') ∈ nexts :=
      (mem_nextLegalStates hn _ _).mpr ⟨w, cands, hw, hc, hcand,
        .inr ⟨t, e, ht, he, (eps_cond_iff hst hmap.2).mpr hd, rfl⟩⟩
    obtain ⟨w', hw', hseen⟩ := hcl _ hnext
    refine ih hne hb _ (.inr (anchored_of_mapIs hmap (hst.scope_shape.root_mem hsne))) ?_
    intro w'' hw''
    rw [hw'] at hw''
    cases hw''
    exact hseen

end Complete

/-- **T-RUN-ANCH-PG, soundness, from `AllOK`.** -/
theorem trun_pg_sound_of_allOK (A : Automaton PGKey PGPred) (css : List (Option (List PGCons)))
    (h : PortGraph) (fuel : Nat) (ms : List (Match PGMap)) (seen : List (Nat × List (Option Nat)))
    (hok : AllOK A css) (hr : run pgDomain A h fuel = .ok (ms, seen))
    (i : Nat) (m : PGMap) (hm : (i, m) ∈ ms) :
    (m = [] ∧ ∃ w, A.g.weight? A.root = some w ∧ (i, []) ∈ w.matches_) ∨
    (∃ r ks, r ∈ h.nodesIter ∧ ks ≠ [] ∧ AccDetK (pgSigmaAnch h r) A A.root i ks ∧
      (∀ k ∈ ks, (pgVal h r k).isSome = true) ∧ MapIs m ks (pgVal h r)) := by
  obtain ⟨s, m0, w, keys, hreach, hw, hk, m₁, hm₁, hret⟩ := trun_sound hr i m hm
  have hst := hok _ _ hw
  have hinv := reach_inv hok hreach
  obtain ⟨⟨hsr, hshape⟩, hroot, _⟩ := hst.matches_ i keys hk
  rcases hshape with rfl | ⟨rest, rfl⟩
  · left
    have hs : s = A.root := by
      rcases hroot with h | h
      · exact h
      · exact absurd rfl h
    subst hs
    have : m = [] := by
      have hret' : some (alRetain m₁ ([] : List PGKey)) = some m := hret
      rw [alRetain_nil] at hret'
      exact (Option.some.inj hret').symm
    exact ⟨this, w, hw, hk⟩
  · right
    rcases hinv with ⟨rfl, hs⟩ | ⟨r, hrn, ha, hpath⟩
    · obtain ⟨r, hrn, hb, hmap⟩ :=
        (emit_nil h rest fun k hk => hsr k (List.mem_cons_of_mem _ hk)).1 m ⟨m₁, hm₁, hret⟩
      have hs' : s = A.root := by
        rcases hs with h | h
        · exact h
        · rw [h] at hrn; cases hrn
      subst hs'
      exact ⟨r, _, hrn, by simp, AccDetK.here hw hk, hb, hmap⟩
    · obtain ⟨hiff, hmap⟩ := emit_anch ha (.root 0 :: rest) hsr
      exact ⟨r, _, hrn, by simp, hpath _ _ (AccDetK.here hw hk), hiff.mp ⟨m, m₁, hm₁, hret⟩,
        hmap m ⟨m₁, hm₁, hret⟩⟩

/-- **T-RUN-ANCH-PG, completeness, from `AllOK`.** -/
theorem trun_pg_complete_of_allOK (A : Automaton PGKey PGPred)
    (css : List (Option (List PGCons)))
    (h : PortGraph) (fuel : Nat) (ms : List (Match PGMap)) (seen : List (Nat × List (Option Nat)))
    (hok : AllOK A css) (hr : run pgDomain A h fuel = .ok (ms, seen))
    (i r : Nat) (ks : List PGKey) (hrn : r ∈ h.nodesIter) (hne : ks ≠ [])
    (hacc : AccDetK (pgSigmaAnch h r) A A.root i ks)
    (hb : ∀ k ∈ ks, (pgVal h r k).isSome = true) :
    ∃ m, (i, m) ∈ ms ∧ MapIs m ks (pgVal h r) := by
  obtain ⟨⟨wr, hwr, hrk⟩, _⟩ := trun_closed hr
  refine complete_aux hok hr r hrn i ks hne hb A.root hacc [] (.inl ⟨rfl, rfl⟩) ?_
  intro w hw
  rw [hwr] at hw
  cases hw
  exact hrk

/-- **T-RUN-ANCH-PG from `AllOK`**, as an equivalence for all `i`, `m`, up to the order of the
entries of the reported binding. -/
theorem trun_pg_of_allOK (A : Automaton PGKey PGPred) (css : List (Option (List PGCons)))
    (h : PortGraph) (fuel : Nat) (ms : List (Match PGMap)) (seen : List (Nat × List (Option Nat)))
    (hok : AllOK A css) (hr : run pgDomain A h fuel = .ok (ms, seen))
    (i : Nat) (m : PGMap) :
    (∃ m', (i, m') ∈ ms ∧ MapEqv m' m) ↔
      (m = [] ∧ ∃ w, A.g.weight? A.root = some w ∧ (i, []) ∈ w.matches_) ∨
      (∃ r ks, r ∈ h.nodesIter ∧ ks ≠ [] ∧ AccDetK (pgSigmaAnch h r) A A.root i ks ∧
        (∀ k ∈ ks, (pgVal h r k).isSome = true) ∧ MapGets m ks (pgVal h r)) := by
  constructor
  · rintro ⟨m', hm', heqv⟩
    rcases trun_pg_sound_of_allOK A css h fuel ms seen hok hr i m' hm' with
      ⟨rfl, hroot⟩ | ⟨r, ks, hrn, hne, hacc, hb, hmap⟩
    · left
      exact ⟨alGet_eq_nil fun k => (heqv k).symm, hroot⟩
    · right
      exact ⟨r, ks, hrn, hne, hacc, hb, fun k => (heqv k).symm.trans (hmap.2 k)⟩
  · rintro (⟨rfl, w, hw, hk⟩ | ⟨r, ks, hrn, hne, hacc, hb, hmap⟩)
    · exact ⟨[], trun_pg_complete_nil A h fuel ms seen hr i w hw hk, fun _ => rfl⟩
    · obtain ⟨m', hm', hmap'⟩ :=
        trun_pg_complete_of_allOK A css h fuel ms seen hok hr i r ks hrn hne hacc hb
      exact ⟨m', hm', fun k => (hmap'.2 k).trans (hmap k).symm⟩

end PGProg
end Pm
