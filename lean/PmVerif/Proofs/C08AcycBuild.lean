/-
Proofs/C08AcycBuild.lean — the disciplined builds without the acyclicity exception: the totality
statements of `Proofs/C08Total6.lean` (`finishWith_only`, `buildWith_only`: every error is allowed
by the policy `A` OR is the panic "Graph should be acyclic") combined with acyclicity as a step
invariant (`Proofs/C08AcycMain.lean`): every error is allowed by the policy `A`.
Everything lives in `namespace Pm.C08A`.
-/
import PmVerif.Proofs.C08AcycMain
import PmVerif.Proofs.C08Fuel
namespace Pm
namespace C08A
open Automaton C08
variable {K P : Type} [DecidableEq K] [DecidableEq P]
set_option linter.unusedSectionVars false

variable {E : Nat → Prop} {Q : Constraint K P → Prop} {A : Err → Prop}

/-- **`finishWith`** on an acyclic automaton: no acyclicity panic. -/
theorem finishWith_only' (hg : ∀ e, IsGuard e → A e)
    {det : Automaton K P → Nat → R (Automaton K P)} (hdet : DetOK' E Q det) (hda : DetAcyc det)
    {toTree : List (Constraint K P) → Option (CTree (Constraint K P))} (hT : TreeFine Q toTree)
    (req : K → List K) (fuel : Nat) (htree : TreeStepOK A toTree fuel) (hmb : MBOK A req fuel)
    {a : Automaton K P} (evs : List Ev) (bi : BI E Q a) (H : Acyclic a) :
    Only A (finishWith det toTree req fuel a evs) := by
  unfold finishWith
  obtain ⟨hf, _⟩ := mainLoopWith_only hg hdet hT fuel htree evs.length [] evs bi
    (.inr (Nat.le_refl _))
  cases hm : mainLoopWith det toTree fuel evs.length a [] evs with
  | error e => exact hf.error hm
  | ok a2 =>
    obtain ⟨inv2, H2⟩ := acyclic_mainLoopWith hda _ [] evs bi.inv H hm
    exact populateScopes_only_of_isSome hmb inv2 (topoOrder_of_acyclic inv2.wf H2)

/-- **The disciplined build**: every error is allowed by the policy `A`. -/
theorem buildWith_only' (hg : ∀ e, IsGuard e → A e)
    {det : Automaton K P → Nat → R (Automaton K P)} (hdet : DetOK' E Q det) (hda : DetAcyc det)
    {toTree : List (Constraint K P) → Option (CTree (Constraint K P))} (hT : TreeFine Q toTree)
    (req : K → List K) (fuel : Nat) (htree : TreeStepOK A toTree fuel) (hmb : MBOK A req fuel)
    (patterns : List (Nat × List (Constraint K P) × List K))
    (hp : ∀ p ∈ patterns, (∀ c ∈ p.2.1, Q c) ∧ (E p.1 → p.2.1 = [])) (evs : List Ev) :
    Only A (match addPatterns req fuel (new : Automaton K P) patterns with
      | .error e => .error e
      | .ok a => finishWith det toTree req fuel a evs) := by
  obtain ⟨inv0, _, rs0, _, _⟩ := new_spec (K := K) (P := P)
  have hf := addPatterns_only hmb patterns inv0 rs0.1
  cases h : addPatterns req fuel (new : Automaton K P) patterns with
  | error e => exact hf.error h
  | ok a =>
    exact finishWith_only' hg hdet hda hT req fuel htree hmb evs (bi_addPatterns hp h)
      (acyclic_addPatterns h).2.2

/-- Instance "never panics": any fuel. -/
theorem buildWith_fine {det : Automaton K P → Nat → R (Automaton K P)}
    (hdet : DetOK' E Q det) (hda : DetAcyc det)
    {toTree : List (Constraint K P) → Option (CTree (Constraint K P))} (hT : TreeFine Q toTree)
    (req : K → List K) (fuel : Nat) (patterns : List (Nat × List (Constraint K P) × List K))
    (hp : ∀ p ∈ patterns, (∀ c ∈ p.2.1, Q c) ∧ (E p.1 → p.2.1 = [])) (evs : List Ev) :
    Fine (match addPatterns req fuel (new : Automaton K P) patterns with
      | .error e => .error e
      | .ok a => finishWith det toTree req fuel a evs) :=
  buildWith_only' (fun _ => IsGuard.noPanic) hdet hda hT req fuel
    (treeStepOK_fine toTree fuel) (mbOK_noPanic req fuel) patterns hp evs

/-- Character constraints over a star scheme, `fuel ≥ 16`: every error of a disciplined build is a
guard error of the replay. -/
theorem char_buildWith_guardOnly {K : Type} [DecidableEq K] (lt : K → K → Bool) (s : K)
    {fuel : Nat} (hfuel : 16 ≤ fuel)
    (inputs : List (Nat × List (Constraint K CharPred) × List K))
    (har : ∀ p ∈ inputs, ∀ c ∈ p.2.1, c.args.length = c.pred.arity) (evs : List Ev) :
    Only IsGuard (buildTL (charTree lt) (Baseline.starReq s) fuel inputs evs) ∧
    Only IsGuard (buildT (charTree lt) (Baseline.starReq s) fuel inputs evs) :=
  ⟨buildWith_only' (E := fun _ => False) (fun _ h => h) detOK_makeDetL detAcyc_makeDetL
      (treeFine_char lt) _ fuel
      (treeStepOK_depthOne _ (by omega) (charTree_depthOne lt)) (mbOK_star _ s hfuel) inputs
      (fun p hp => ⟨har p hp, fun h => h.elim⟩) evs,
    buildWith_only' (E := fun _ => False) (fun _ h => h) detOK_makeDet detAcyc_makeDet
      (treeFine_char lt) _ fuel
      (treeStepOK_depthOne _ (by omega) (charTree_depthOne lt)) (mbOK_star _ s hfuel) inputs
      (fun p hp => ⟨har p hp, fun h => h.elim⟩) evs⟩

/-! ### the strict disciplined build `buildTD` (c1D) -/

/-- The strict loop is the disciplined loop with one more guard. -/
theorem mainLoopD_cases (det : Automaton K P → Nat → R (Automaton K P))
    (toTree : List (Constraint K P) → Option (CTree (Constraint K P))) (fuel : Nat) :
    ∀ (n : Nat) (a : Automaton K P) (emitted : List Nat) (evs : List Ev),
    mainLoopD det toTree fuel n a emitted evs =
        .error (.guard "c1D: a child of the emitted state is already deterministic") ∨
      mainLoopD det toTree fuel n a emitted evs = mainLoopWith det toTree fuel n a emitted evs := by
  intro n
  induction n with
  | zero =>
    intro a emitted evs
    cases evs with
    | nil => right; unfold mainLoopD mainLoopWith; rfl
    | cons e es => right; unfold mainLoopD mainLoopWith; rfl
  | succ n ih =>
    intro a emitted evs
    cases evs with
    | nil => right; unfold mainLoopD mainLoopWith; rfl
    | cons e es =>
      cases e with
      | topo s =>
        unfold mainLoopD mainLoopWith
        by_cases h1 : (!a.topoAdmissible emitted s) = true
        · right; rw [if_pos h1, if_pos h1]
        · rw [if_neg h1, if_neg h1]
          by_cases h2 : (!a.noDetChild s) = true
          · left; rw [if_pos h2]
          · rw [if_neg h2]
            cases hi : iterationWith det toTree fuel a s es with
            | error e => right; rfl
            | ok v => exact ih _ _ _
      | group _ _ => right; unfold mainLoopD mainLoopWith; rfl
      | detAsk _ => right; unfold mainLoopD mainLoopWith; rfl
      | detYes _ => right; unfold mainLoopD mainLoopWith; rfl
      | merge _ _ => right; unfold mainLoopD mainLoopWith; rfl
      | iterEnd _ => right; unfold mainLoopD mainLoopWith; rfl

/-- **The strict disciplined build**: every error is allowed by the policy `A`. -/
theorem buildTD_only (hg : ∀ e, IsGuard e → A e)
    (hdet : DetOK' E Q (makeDet (K := K) (P := P)))
    {toTree : List (Constraint K P) → Option (CTree (Constraint K P))} (hT : TreeFine Q toTree)
    (req : K → List K) (fuel : Nat) (htree : TreeStepOK A toTree fuel) (hmb : MBOK A req fuel)
    (patterns : List (Nat × List (Constraint K P) × List K))
    (hp : ∀ p ∈ patterns, (∀ c ∈ p.2.1, Q c) ∧ (E p.1 → p.2.1 = [])) (evs : List Ev) :
    Only A (buildTD toTree req fuel patterns evs) := by
  have hT' := buildWith_only' hg hdet detAcyc_makeDet hT req fuel htree hmb patterns hp evs
  unfold buildTD
  cases h : addPatterns req fuel (new : Automaton K P) patterns with
  | error e => rw [h] at hT'; exact hT'
  | ok a =>
    rw [h] at hT'
    simp only at hT' ⊢
    unfold finishD
    unfold finishWith at hT'
    rcases mainLoopD_cases makeDet toTree fuel evs.length a [] evs with hc | hc
    · rw [hc]; exact Only.err (hg _ ⟨_, rfl⟩)
    · rw [hc]; exact hT'

end C08A
end Pm
