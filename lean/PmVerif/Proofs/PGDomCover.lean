/-
Proofs/PGDomCover.lean — `cover_core` (stated as `tdom_pg_cover` in Props/TDomPG.lean): for a well-formed (`LinksOK`), connected pattern with a
live root, the breadth-first search of `linePartition` puts every link on a line and gives every
live node a key (`LinesCover`).  The fuel of `extendLine` and of `linePartitionLoop` is shown to
be sufficient, so the theorem is unconditional.
-/
import PmVerif.Proofs.PGDomDefs
namespace Pm.PGDom.Cover

/-! ### Unfolding `extendLine` and `linePartitionLoop` -/

/-- The queue after visiting `curr` (first part of an `extendLine` iteration). -/
def stepQ (g : PortGraph) (curr : Nat) (queue visL : List PLink) (visN : List Nat) : List PLink :=
  if visN.contains curr then queue
  else queue ++ (g.allLinks curr).filter (fun l => !linkVisited visL l)

/-- The visited nodes after visiting `curr`. -/
def stepN (curr : Nat) (visN : List Nat) : List Nat :=
  if visN.contains curr then visN else visN ++ [curr]

theorem extendLine_zero (g : PortGraph) (line queue visL : List PLink) (visN : List Nat) :
    extendLine g 0 line queue visL visN = (line, queue, visL, visN) := rfl

theorem extendLine_succ (g : PortGraph) (fuel : Nat) (line queue visL : List PLink)
    (visN : List Nat) :
    extendLine g (fuel + 1) line queue visL visN =
      match line.getLast? with
      | none => (line, queue, visL, visN)
      | some last =>
        if (line.head?.map fun l => l.1.1) == some last.2.1 then
          (line, stepQ g last.2.1 queue visL visN, visL, stepN last.2.1 visN)
        else if !g.portExists (last.2.1, last.2.2.opposite) then
          (line, stepQ g last.2.1 queue visL visN, visL, stepN last.2.1 visN)
        else
          match g.portLink (last.2.1, last.2.2.opposite) with
          | none => (line, stepQ g last.2.1 queue visL visN, visL, stepN last.2.1 visN)
          | some right =>
            if linkVisited visL ((last.2.1, last.2.2.opposite), right) then
              (line, stepQ g last.2.1 queue visL visN, visL, stepN last.2.1 visN)
            else
              extendLine g fuel (line ++ [((last.2.1, last.2.2.opposite), right)])
                (stepQ g last.2.1 queue visL visN)
                (visL ++ [((last.2.1, last.2.2.opposite), right)]) (stepN last.2.1 visN) := by
  rw [extendLine]
  cases line.getLast? with
  | none => rfl
  | some last =>
    simp only [stepQ, stepN]
    cases visN.contains last.2.1 <;> rfl


theorem linePartitionLoop_zero (g : PortGraph) (queue visL : List PLink) (visN : List Nat)
    (lines : List (List PLink)) : linePartitionLoop g 0 queue visL visN lines = lines := rfl

theorem linePartitionLoop_nil (g : PortGraph) (fuel : Nat) (visL : List PLink) (visN : List Nat)
    (lines : List (List PLink)) : linePartitionLoop g fuel [] visL visN lines = lines := by
  cases fuel <;> rfl

theorem linePartitionLoop_succ_cons (g : PortGraph) (fuel : Nat) (start : PLink)
    (queue visL : List PLink) (visN : List Nat) (lines : List (List PLink)) :
    linePartitionLoop g (fuel + 1) (start :: queue) visL visN lines =
      if linkVisited visL start then linePartitionLoop g fuel queue visL visN lines
      else
        linePartitionLoop g fuel
          (extendLine g (g.links.length + 1) [start] queue (visL ++ [start]) visN).2.1
          (extendLine g (g.links.length + 1) [start] queue (visL ++ [start]) visN).2.2.1
          (extendLine g (g.links.length + 1) [start] queue (visL ++ [start]) visN).2.2.2
          (lines ++ [(extendLine g (g.links.length + 1) [start] queue (visL ++ [start]) visN).1]) :=
  rfl

theorem go_zero (nbrs : Nat → List Nat) (work seen : List Nat) :
    pgConnected.go nbrs 0 work seen = seen := rfl
theorem go_nil (nbrs : Nat → List Nat) (f : Nat) (seen : List Nat) :
    pgConnected.go nbrs f [] seen = seen := by cases f <;> rfl
theorem go_succ_cons (nbrs : Nat → List Nat) (f n : Nat) (work seen : List Nat) :
    pgConnected.go nbrs (f + 1) (n :: work) seen =
      if seen.contains n then pgConnected.go nbrs f work seen
      else pgConnected.go nbrs f (nbrs n ++ work) (n :: seen) := rfl

theorem lines_nil (n2k : List (Nat × PGKey)) (n2r : List (Nat × Nat)) :
    pgNodeKeys.lines [] n2k n2r = n2k := rfl

/-- The fold step of `pgNodeKeys.lines`. -/
def keyStep (ri : Nat) (off : POff) (n2k : List (Nat × PGKey)) (li : PLink × Nat) :
    List (Nat × PGKey) :=
  if (alGet n2k li.1.2.1).isSome then n2k
  else n2k ++ [(li.1.2.1, PGKey.along ri off (li.2 + 1))]

theorem lines_cons (line : List PLink) (rest : List (List PLink)) (n2k : List (Nat × PGKey))
    (n2r : List (Nat × Nat)) :
    pgNodeKeys.lines (line :: rest) n2k n2r =
      match line.head? with
      | none => n2k
      | some first =>
        pgNodeKeys.lines rest
          ((line.zip (List.range line.length)).foldl
            (keyStep (match alGet n2r first.1.1 with | some i => i | none => n2r.length) first.1.2)
            n2k)
          (match alGet n2r first.1.1 with
            | some _ => n2r
            | none => n2r ++ [(first.1.1, n2r.length)]) := by
  rw [pgNodeKeys.lines]
  cases line.head? with
  | none => rfl
  | some first =>
    dsimp only
    cases alGet n2r first.1.1 <;> rfl

/-! ### `sameLink`, `linkVisited`, canonical orientation -/

theorem sameLink_iff (a b : PLink) :
    sameLink a b = true ↔ (a.1 = b.1 ∧ a.2 = b.2) ∨ (a.1 = b.2 ∧ a.2 = b.1) := by
  unfold sameLink
  exact decide_eq_true_iff

theorem sameLink_self (a : PLink) : sameLink a a = true :=
  (sameLink_iff a a).2 (Or.inl ⟨rfl, rfl⟩)

theorem sameLink_symm {a b : PLink} (h : sameLink a b = true) : sameLink b a = true := by
  rw [sameLink_iff] at h ⊢
  rcases h with ⟨h1, h2⟩ | ⟨h1, h2⟩
  · exact Or.inl ⟨h1.symm, h2.symm⟩
  · exact Or.inr ⟨h2.symm, h1.symm⟩

theorem linkVisited_iff (vis : List PLink) (l : PLink) :
    linkVisited vis l = true ↔ ∃ x ∈ vis, sameLink l x = true := by
  unfold linkVisited
  exact List.any_eq_true

theorem linkVisited_append (a b : List PLink) (l : PLink) :
    linkVisited (a ++ b) l = (linkVisited a l || linkVisited b l) := by
  unfold linkVisited
  exact List.any_append

theorem linkVisited_append_left {a : List PLink} (b : List PLink) {l : PLink}
    (h : linkVisited a l = true) : linkVisited (a ++ b) l = true := by
  rw [linkVisited_append, h]; rfl

theorem linkVisited_self (a : List PLink) (l : PLink) : linkVisited (a ++ [l]) l = true := by
  rw [linkVisited_iff]
  exact ⟨l, List.mem_append_right _ (List.mem_singleton.2 rfl), sameLink_self l⟩

theorem any_linkVisited_flatten (lines : List (List PLink)) (l : PLink) :
    (lines.any fun line => linkVisited line l) = linkVisited lines.flatten l := by
  unfold linkVisited
  exact List.any_flatten.symm

/-- The output→input orientation of a link. -/
def canon (x : PLink) : PLink := if x.1.2.dir = .out then x else (x.2, x.1)

theorem sameLink_of_canon_eq {x y : PLink} (h : canon x = canon y) : sameLink x y = true := by
  rw [sameLink_iff]
  unfold canon at h
  obtain ⟨x1, x2⟩ := x
  obtain ⟨y1, y2⟩ := y
  simp only at h ⊢
  split at h <;> split at h <;> simp only [Prod.mk.injEq] at h
  · exact Or.inl h
  · exact Or.inr h
  · exact Or.inr ⟨h.2, h.1⟩
  · exact Or.inl ⟨h.2, h.1⟩

theorem canon_mem {g : PortGraph} (hg : g.LinksOK) {x : PLink} (h : g.portLink x.1 = some x.2) :
    canon x ∈ g.links := by
  unfold canon
  rcases PortGraph.portLink_some_mem h with hl | hl
  · rw [if_pos (hg.dirs hl).1]; exact hl
  · have : x.1.2.dir = .inc := (hg.dirs hl).2
    rw [if_neg (by rw [this]; exact fun e => PDir.noConfusion e)]
    exact hl

/-- A list of real links that is duplicate-free up to orientation is no longer than `g.links`. -/
theorem length_le_links {g : PortGraph} (hg : g.LinksOK) {visL : List PLink}
    (real : ∀ x ∈ visL, g.portLink x.1 = some x.2) (nd : (visL.map canon).Nodup) :
    visL.length ≤ g.links.length := by
  have := nodup_subset_length (visL.map canon) g.links nd (fun y hy => by
    obtain ⟨x, hx, rfl⟩ := List.mem_map.1 hy
    exact canon_mem hg (real x hx))
  rwa [List.length_map] at this

/-! ### `allPorts`, `allLinks` -/

theorem mem_allPorts_fst {g : PortGraph} {n : Nat} {p : Port} (h : p ∈ g.allPorts n) : p.1 = n := by
  unfold PortGraph.allPorts at h
  obtain ⟨o, -, rfl⟩ := List.mem_map.1 h
  rfl

theorem mem_allPorts_of_exists {g : PortGraph} {p : Port} (h : g.portExists p = true) :
    p ∈ g.allPorts p.1 := by
  obtain ⟨n, o⟩ := p
  unfold PortGraph.allPorts
  rw [List.mem_map]
  refine ⟨o, ?_, rfl⟩
  unfold PortGraph.portExists at h
  unfold PortGraph.allPortOffsets
  simp only at h ⊢
  split at h
  · cases h
  · next nd hn =>
    obtain ⟨d, i⟩ := o
    cases d with
    | inc =>
      simp only [decide_eq_true_eq] at h
      exact List.mem_append_left _ (List.mem_map.2 ⟨i, List.mem_range.2 h, rfl⟩)
    | out =>
      simp only [decide_eq_true_eq] at h
      exact List.mem_append_right _ (List.mem_map.2 ⟨i, List.mem_range.2 h, rfl⟩)

theorem mem_allLinks {g : PortGraph} {n : Nat} {l : PLink} (h : l ∈ g.allLinks n) :
    l.1 ∈ g.allPorts n ∧ g.portLink l.1 = some l.2 ∧ ¬(l.2.1 = n ∧ l.2.2.dir = .out) := by
  unfold PortGraph.allLinks at h
  obtain ⟨p, hp, hpl⟩ := List.mem_filterMap.1 h
  cases hq : g.portLink p with
  | none => rw [hq] at hpl; cases hpl
  | some q =>
    rw [hq] at hpl
    simp only at hpl
    split at hpl
    · cases hpl
    · next hc =>
      cases hpl
      exact ⟨hp, hq, hc⟩

theorem mem_allLinks_of {g : PortGraph} {n : Nat} {p q : Port} (hp : p ∈ g.allPorts n)
    (hl : g.portLink p = some q) (hq : ¬(q.1 = n ∧ q.2.dir = .out)) : (p, q) ∈ g.allLinks n := by
  unfold PortGraph.allLinks
  rw [List.mem_filterMap]
  refine ⟨p, hp, ?_⟩
  rw [hl]
  simp only
  rw [if_neg hq]

theorem allLinks_fst {g : PortGraph} {n : Nat} {l : PLink} (h : l ∈ g.allLinks n) : l.1.1 = n :=
  mem_allPorts_fst (mem_allLinks h).1


/-! ### Visiting a node -/

theorem stepN_of_mem {c : Nat} {V : List Nat} (h : c ∈ V) : stepN c V = V := by
  unfold stepN
  rw [if_pos (List.contains_iff_mem.2 h)]

theorem stepN_of_not_mem {c : Nat} {V : List Nat} (h : c ∉ V) : stepN c V = V ++ [c] := by
  unfold stepN
  rw [if_neg (fun e => h (List.contains_iff_mem.1 e))]

theorem stepQ_of_mem (g : PortGraph) {c : Nat} (queue visL : List PLink) {V : List Nat}
    (h : c ∈ V) : stepQ g c queue visL V = queue := by
  unfold stepQ
  rw [if_pos (List.contains_iff_mem.2 h)]

theorem stepQ_of_not_mem (g : PortGraph) {c : Nat} (queue visL : List PLink) {V : List Nat}
    (h : c ∉ V) :
    stepQ g c queue visL V = queue ++ (g.allLinks c).filter (fun l => !linkVisited visL l) := by
  unfold stepQ
  rw [if_neg (fun e => h (List.contains_iff_mem.1 e))]

theorem mem_stepN_self (c : Nat) (V : List Nat) : c ∈ stepN c V := by
  by_cases h : c ∈ V
  · rw [stepN_of_mem h]; exact h
  · rw [stepN_of_not_mem h]; exact List.mem_append_right _ (List.mem_singleton.2 rfl)

theorem mem_stepN_of_mem (c : Nat) {V : List Nat} {n : Nat} (hn : n ∈ V) : n ∈ stepN c V := by
  by_cases h : c ∈ V
  · rw [stepN_of_mem h]; exact hn
  · rw [stepN_of_not_mem h]; exact List.mem_append_left _ hn

theorem mem_stepQ_of_mem (g : PortGraph) (c : Nat) {queue : List PLink} (visL : List PLink)
    (V : List Nat) {l : PLink} (hl : l ∈ queue) : l ∈ stepQ g c queue visL V := by
  by_cases h : c ∈ V
  · rw [stepQ_of_mem g _ _ h]; exact hl
  · rw [stepQ_of_not_mem g _ _ h]; exact List.mem_append_left _ hl

/-! ### The part of the loop invariant shared by the two loops -/

/-- `queue`, `visL`, `visN` as in `line_partition`: the visited links are real links, pairwise
different as unordered pairs; every link at a visited node is visited or queued; queued and
visited links start at visited nodes; a visited node is the root or the right end of a visited
link. -/
structure Core (g : PortGraph) (root : Nat) (queue visL : List PLink) (visN : List Nat) :
    Prop where
  real : ∀ x ∈ visL, g.portLink x.1 = some x.2
  nd : (visL.map canon).Nodup
  q : ∀ n ∈ visN, ∀ l ∈ g.allLinks n, linkVisited visL l = true ∨ l ∈ queue
  q0 : ∀ x ∈ queue, x.1.1 ∈ visN ∧ g.portLink x.1 = some x.2
  fst : ∀ x ∈ visL, x.1.1 ∈ visN
  key : ∀ n ∈ visN, n = root ∨ ∃ x ∈ visL, x.2.1 = n
  rootIn : root ∈ visN

variable {g : PortGraph} {root : Nat} {queue visL : List PLink} {visN : List Nat}

theorem Core.length_le (hg : g.LinksOK) (c : Core g root queue visL visN) :
    visL.length ≤ g.links.length := length_le_links hg c.real c.nd

theorem Core.init (g : PortGraph) (root : Nat) : Core g root (g.allLinks root) [] [root] where
  real := fun x hx => by cases hx
  nd := List.nodup_nil
  q := fun n hn l hl => by
    rw [List.mem_singleton] at hn; subst hn; exact Or.inr hl
  q0 := fun x hx => by
    have := mem_allLinks hx
    exact ⟨List.mem_singleton.2 (mem_allPorts_fst this.1), this.2.1⟩
  fst := fun x hx => by cases hx
  key := fun n hn => Or.inl (List.mem_singleton.1 hn)
  rootIn := List.mem_singleton.2 rfl

/-- Mark a new real link starting at a visited node as visited. -/
theorem Core.push (c : Core g root queue visL visN) {new : PLink}
    (hreal : g.portLink new.1 = some new.2) (hfst : new.1.1 ∈ visN)
    (hnew : linkVisited visL new = false) : Core g root queue (visL ++ [new]) visN where
  real := fun x hx => by
    rcases List.mem_append.1 hx with hx | hx
    · exact c.real x hx
    · rw [List.mem_singleton] at hx; subst hx; exact hreal
  nd := by
    rw [List.map_append, List.nodup_append]
    refine ⟨c.nd, by simp, ?_⟩
    intro a ha b hb e
    obtain ⟨x, hx, rfl⟩ := List.mem_map.1 ha
    simp only [List.map_cons, List.map_nil, List.mem_singleton] at hb
    subst hb
    have : linkVisited visL new = true :=
      (linkVisited_iff _ _).2 ⟨x, hx, sameLink_symm (sameLink_of_canon_eq e)⟩
    rw [hnew] at this; cases this
  q := fun n hn l hl => by
    rcases c.q n hn l hl with h | h
    · exact Or.inl (linkVisited_append_left _ h)
    · exact Or.inr h
  q0 := c.q0
  fst := fun x hx => by
    rcases List.mem_append.1 hx with hx | hx
    · exact c.fst x hx
    · rw [List.mem_singleton] at hx; subst hx; exact hfst
  key := fun n hn => by
    rcases c.key n hn with h | ⟨x, hx, h⟩
    · exact Or.inl h
    · exact Or.inr ⟨x, List.mem_append_left _ hx, h⟩
  rootIn := c.rootIn

/-- Drop a queue entry that is already visited. -/
theorem Core.pop {s : PLink} (c : Core g root (s :: queue) visL visN)
    (hs : linkVisited visL s = true) : Core g root queue visL visN where
  real := c.real
  nd := c.nd
  q := fun n hn l hl => by
    rcases c.q n hn l hl with h | h
    · exact Or.inl h
    · rcases List.mem_cons.1 h with rfl | h
      · exact Or.inl hs
      · exact Or.inr h
  q0 := fun x hx => c.q0 x (List.mem_cons_of_mem _ hx)
  fst := c.fst
  key := c.key
  rootIn := c.rootIn

/-- Visit the node `curr` (the right end of a visited link). -/
theorem Core.visit (c : Core g root queue visL visN) {curr : Nat}
    (hk : curr = root ∨ ∃ x ∈ visL, x.2.1 = curr) :
    Core g root (stepQ g curr queue visL visN) visL (stepN curr visN) := by
  by_cases h : curr ∈ visN
  · rw [stepQ_of_mem g _ _ h, stepN_of_mem h]; exact c
  · rw [stepQ_of_not_mem g _ _ h, stepN_of_not_mem h]
    exact {
      real := c.real
      nd := c.nd
      q := fun n hn l hl => by
        rcases List.mem_append.1 hn with hn | hn
        · rcases c.q n hn l hl with h' | h'
          · exact Or.inl h'
          · exact Or.inr (List.mem_append_left _ h')
        · rw [List.mem_singleton] at hn; subst hn
          cases hv : linkVisited visL l with
          | true => exact Or.inl rfl
          | false =>
            refine Or.inr (List.mem_append_right _ (List.mem_filter.2 ⟨hl, ?_⟩))
            rw [hv]; rfl
      q0 := fun x hx => by
        rcases List.mem_append.1 hx with hx | hx
        · exact ⟨List.mem_append_left _ (c.q0 x hx).1, (c.q0 x hx).2⟩
        · have hx' := (List.mem_filter.1 hx).1
          have := mem_allLinks hx'
          exact ⟨List.mem_append_right _ (List.mem_singleton.2 (mem_allPorts_fst this.1)),
            this.2.1⟩
      fst := fun x hx => List.mem_append_left _ (c.fst x hx)
      key := fun n hn => by
        rcases List.mem_append.1 hn with hn | hn
        · exact c.key n hn
        · rw [List.mem_singleton] at hn; subst hn; exact hk
      rootIn := List.mem_append_left _ c.rootIn }


/-! ### The potential bounding the number of outer iterations -/

/-- `Σ f n` over the `n ∈ L` not in `V`. -/
def sumOut (f : Nat → Nat) (L V : List Nat) : Nat :=
  ((L.filter fun n => !V.contains n).map f).sum

theorem sumOut_cons (f : Nat → Nat) (x : Nat) (L V : List Nat) :
    sumOut f (x :: L) V = (if x ∈ V then 0 else f x) + sumOut f L V := by
  unfold sumOut
  by_cases h : x ∈ V
  · rw [List.filter_cons_of_neg (by simp [h]), if_pos h, Nat.zero_add]
  · rw [List.filter_cons_of_pos (by simp [h]), if_neg h, List.map_cons, List.sum_cons]

theorem sumOut_not_mem (f : Nat → Nat) {c : Nat} (V : List Nat) :
    ∀ {L : List Nat}, c ∉ L → sumOut f L (V ++ [c]) = sumOut f L V
  | [], _ => rfl
  | x :: L, h => by
    have hx : x ≠ c := fun e => h (e ▸ List.mem_cons_self ..)
    have hL : c ∉ L := fun e => h (List.mem_cons_of_mem _ e)
    rw [sumOut_cons, sumOut_cons, sumOut_not_mem f V hL]
    have : x ∈ V ++ [c] ↔ x ∈ V := by simp [hx]
    simp only [this]

theorem sumOut_visit (f : Nat → Nat) {c : Nat} {V : List Nat} (hV : c ∉ V) :
    ∀ {L : List Nat}, L.Nodup → c ∈ L → sumOut f L (V ++ [c]) + f c = sumOut f L V
  | [], _, h => by cases h
  | x :: L, hnd, h => by
    rw [List.nodup_cons] at hnd
    rw [sumOut_cons, sumOut_cons]
    by_cases hx : x = c
    · subst hx
      rw [sumOut_not_mem f V hnd.1, if_neg hV, if_pos (by simp)]
      omega
    · have hc : c ∈ L := by
        rcases List.mem_cons.1 h with e | e
        · exact absurd e.symm hx
        · exact e
      have ih := sumOut_visit f hV hnd.2 hc
      have : x ∈ V ++ [c] ↔ x ∈ V := by simp [hx]
      simp only [this]
      omega

theorem sumOut_nil (f : Nat → Nat) (L : List Nat) : sumOut f L [] = (L.map f).sum := by
  unfold sumOut
  have : L.filter (fun n => !([] : List Nat).contains n) = L :=
    List.filter_eq_self.2 (fun a _ => by simp)
  rw [this]

/-- Queue length plus the number of `allLinks` entries of the nodes not yet visited. -/
def pot (g : PortGraph) (queue : List PLink) (visN : List Nat) : Nat :=
  queue.length + sumOut (fun n => (g.allLinks n).length) g.nodesIter visN

theorem pot_visit (g : PortGraph) (queue visL : List PLink) (visN : List Nat) {curr : Nat}
    (hc : curr ∈ g.nodesIter) :
    pot g (stepQ g curr queue visL visN) (stepN curr visN) ≤ pot g queue visN := by
  by_cases h : curr ∈ visN
  · rw [stepQ_of_mem g _ _ h, stepN_of_mem h]; exact Nat.le_refl _
  · rw [stepQ_of_not_mem g _ _ h, stepN_of_not_mem h]
    unfold pot
    have h1 := sumOut_visit (fun n => (g.allLinks n).length) h g.nodesIter_nodup hc
    have h2 := List.length_filter_le (fun l => !linkVisited visL l) (g.allLinks curr)
    rw [List.length_append]
    omega

/-! ### The inner loop `extendLine` -/

/-- One iteration of `extendLine` with fuel left: it visits the node at the end of the line and
then either stops or appends the (unvisited) link at the opposite port and recurses. -/
theorem extendLine_cases (g : PortGraph) (fuel : Nat) (line queue visL : List PLink)
    (visN : List Nat) {last : PLink} (h : line.getLast? = some last) :
    extendLine g (fuel + 1) line queue visL visN =
        (line, stepQ g last.2.1 queue visL visN, visL, stepN last.2.1 visN) ∨
      ∃ right, g.portLink (last.2.1, last.2.2.opposite) = some right ∧
        linkVisited visL ((last.2.1, last.2.2.opposite), right) = false ∧
        extendLine g (fuel + 1) line queue visL visN =
          extendLine g fuel (line ++ [((last.2.1, last.2.2.opposite), right)])
            (stepQ g last.2.1 queue visL visN)
            (visL ++ [((last.2.1, last.2.2.opposite), right)]) (stepN last.2.1 visN) := by
  rw [extendLine_succ, h]
  simp only
  split
  · exact Or.inl rfl
  · split
    · exact Or.inl rfl
    · split
      · exact Or.inl rfl
      · next right hr =>
        split
        · exact Or.inl rfl
        · next hv =>
          exact Or.inr ⟨right, hr, by simpa using hv, rfl⟩

/-- The invariant of the outer loop. -/
structure Inv (g : PortGraph) (root : Nat) (lines : List (List PLink)) (queue visL : List PLink)
    (visN : List Nat) : Prop where
  core : Core g root queue visL visN
  hv : visL = lines.flatten
  hne : ∀ ln ∈ lines, ln ≠ []
  snd : ∀ x ∈ visL, x.2.1 ∈ visN

/-- The invariant of the inner loop; `line` is the line under construction, whose last link may
end at a node not yet visited. -/
structure InvE (g : PortGraph) (root : Nat) (lines : List (List PLink))
    (line queue visL : List PLink) (visN : List Nat) : Prop where
  core : Core g root queue visL visN
  hv : visL = lines.flatten ++ line
  hne : ∀ ln ∈ lines, ln ≠ []
  lne : line ≠ []
  snd : ∀ x ∈ visL, x.2.1 ∈ visN ∨ line.getLast? = some x

/-- `extendLine` with enough fuel (`g.links.length + 1` when the line has one link) re-establishes
the outer invariant with the new line appended, and does not increase the potential. -/
theorem extendLine_inv (hg : g.LinksOK) (root : Nat) (lines : List (List PLink)) :
    ∀ (fuel : Nat) (line queue visL : List PLink) (visN : List Nat),
      InvE g root lines line queue visL visN → g.links.length + 1 ≤ fuel + visL.length →
      Inv g root (lines ++ [(extendLine g fuel line queue visL visN).1])
          (extendLine g fuel line queue visL visN).2.1
          (extendLine g fuel line queue visL visN).2.2.1
          (extendLine g fuel line queue visL visN).2.2.2 ∧
        pot g (extendLine g fuel line queue visL visN).2.1
          (extendLine g fuel line queue visL visN).2.2.2 ≤ pot g queue visN
  | 0, line, queue, visL, visN, inv, hf => by
    have := inv.core.length_le hg
    omega
  | fuel + 1, line, queue, visL, visN, inv, hf => by
    obtain ⟨last, hlast⟩ : ∃ last, line.getLast? = some last := by
      cases h : line.getLast? with
      | none => exact absurd (List.getLast?_eq_none_iff.1 h) inv.lne
      | some last => exact ⟨last, rfl⟩
    have hlastL : last ∈ visL := by
      rw [inv.hv]; exact List.mem_append_right _ (List.mem_of_getLast? hlast)
    -- the node at the end of the line is live
    have hlive : last.2.1 ∈ g.nodesIter :=
      (g.mem_nodesIter _).2
        (PortGraph.node_of_portExists (hg.portLink_exists (inv.core.real last hlastL)).2)
    have core' := inv.core.visit (curr := last.2.1) (Or.inr ⟨last, hlastL, rfl⟩)
    have hpot := pot_visit g queue visL visN hlive
    have hsnd : ∀ x ∈ visL, x.2.1 ∈ stepN last.2.1 visN := fun x hx => by
      rcases inv.snd x hx with h | h
      · exact mem_stepN_of_mem _ h
      · rw [hlast] at h; cases h; exact mem_stepN_self _ _
    rcases extendLine_cases g fuel line queue visL visN hlast with e | ⟨right, hr, hv, e⟩
    · rw [e]
      refine ⟨⟨core', ?_, ?_, hsnd⟩, hpot⟩
      · rw [List.flatten_append, inv.hv]; simp
      · intro ln hln
        rcases List.mem_append.1 hln with h | h
        · exact inv.hne ln h
        · rw [List.mem_singleton] at h; subst h; exact inv.lne
    · rw [e]
      have inv' : InvE g root lines (line ++ [((last.2.1, last.2.2.opposite), right)])
          (stepQ g last.2.1 queue visL visN)
          (visL ++ [((last.2.1, last.2.2.opposite), right)]) (stepN last.2.1 visN) :=
        { core := core'.push hr (mem_stepN_self _ _) hv
          hv := by rw [inv.hv, List.append_assoc]
          hne := inv.hne
          lne := by simp
          snd := fun x hx => by
            rcases List.mem_append.1 hx with hx | hx
            · exact Or.inl (hsnd x hx)
            · rw [List.mem_singleton] at hx; subst hx
              exact Or.inr List.getLast?_concat }
      have ih := extendLine_inv hg root lines fuel _ _ _ _ inv' (by
        rw [List.length_append, List.length_singleton]; omega)
      exact ⟨ih.1, Nat.le_trans ih.2 hpot⟩

/-! ### The outer loop `linePartitionLoop` -/

/-- With fuel at least the potential, the loop ends with an empty queue: its result satisfies
the invariant for the empty queue and some final `visL`, `visN`. -/
theorem loop_inv (hg : g.LinksOK) (root : Nat) :
    ∀ (fuel : Nat) (queue visL : List PLink) (visN : List Nat) (lines : List (List PLink)),
      Inv g root lines queue visL visN → pot g queue visN ≤ fuel →
      ∃ visL' visN', Inv g root (linePartitionLoop g fuel queue visL visN lines) [] visL' visN'
  | fuel, [], visL, visN, lines, inv, _ => by
    rw [linePartitionLoop_nil]; exact ⟨visL, visN, inv⟩
  | 0, start :: queue, visL, visN, lines, inv, hf => by
    unfold pot at hf
    simp only [List.length_cons] at hf
    omega
  | fuel + 1, start :: queue, visL, visN, lines, inv, hf => by
    rw [linePartitionLoop_succ_cons]
    have hpot : pot g queue visN + 1 = pot g (start :: queue) visN := by
      unfold pot; simp only [List.length_cons]; omega
    by_cases hs : linkVisited visL start = true
    · rw [if_pos hs]
      exact loop_inv hg root fuel queue visL visN lines
        ⟨inv.core.pop hs, inv.hv, inv.hne, inv.snd⟩ (by omega)
    · rw [if_neg hs]
      have hs' : linkVisited visL start = false := by
        cases h : linkVisited visL start with
        | true => exact absurd h hs
        | false => rfl
      have hq0 := inv.core.q0 start (List.mem_cons_self ..)
      have core' : Core g root queue (visL ++ [start]) visN :=
        (inv.core.push hq0.2 hq0.1 hs').pop (linkVisited_self _ _)
      have invE : InvE g root lines [start] queue (visL ++ [start]) visN :=
        { core := core'
          hv := by rw [inv.hv]
          hne := inv.hne
          lne := by simp
          snd := fun x hx => by
            rcases List.mem_append.1 hx with hx | hx
            · exact Or.inl (inv.snd x hx)
            · rw [List.mem_singleton] at hx; subst hx; exact Or.inr rfl }
      have h := extendLine_inv hg root lines (g.links.length + 1) [start] queue
        (visL ++ [start]) visN invE (by
          rw [List.length_append, List.length_singleton]; omega)
      exact loop_inv hg root fuel _ _ _ _ h.1 (by omega)

/-! ### The initial potential: `Σ_n |allLinks n| ≤ 2 * |links|` -/

theorem allPorts_nodup (g : PortGraph) (n : Nat) : (g.allPorts n).Nodup := by
  unfold PortGraph.allPorts
  have hoff : (g.allPortOffsets n).Nodup := by
    unfold PortGraph.allPortOffsets
    cases g.node? n with
    | none => exact List.nodup_nil
    | some nd =>
      simp only
      rw [List.nodup_append]
      refine ⟨?_, ?_, ?_⟩
      · exact List.Pairwise.map _ (fun a b (h : a ≠ b) e => h (by cases e; rfl)) List.nodup_range
      · exact List.Pairwise.map _ (fun a b (h : a ≠ b) e => h (by cases e; rfl)) List.nodup_range
      · intro a ha b hb e
        obtain ⟨i, -, rfl⟩ := List.mem_map.1 ha
        obtain ⟨j, -, rfl⟩ := List.mem_map.1 hb
        cases e
  exact List.Pairwise.map _ (fun a b (h : a ≠ b) e => h (by cases e; rfl)) hoff

theorem filterMap_fst_sublist {α β : Type} (φ : α → Option (α × β))
    (hφ : ∀ p r, φ p = some r → r.1 = p) :
    ∀ ps : List α, ((ps.filterMap φ).map (·.1)).Sublist ps
  | [] => List.Sublist.slnil
  | p :: ps => by
    cases h : φ p with
    | none =>
      rw [List.filterMap_cons_none h]
      exact List.Sublist.cons _ (filterMap_fst_sublist φ hφ ps)
    | some r =>
      rw [List.filterMap_cons_some h, List.map_cons, hφ p r h]
      exact List.Sublist.cons_cons _ (filterMap_fst_sublist φ hφ ps)

theorem allLinks_fst_sublist (g : PortGraph) (n : Nat) :
    ((g.allLinks n).map (·.1)).Sublist (g.allPorts n) := by
  unfold PortGraph.allLinks
  apply filterMap_fst_sublist
  intro p r h
  cases hq : g.portLink p with
  | none => rw [hq] at h; cases h
  | some q =>
    rw [hq] at h
    simp only at h
    split at h
    · cases h
    · cases h; rfl

theorem flatMap_fst_nodup (g : PortGraph) :
    ∀ Ns : List Nat, Ns.Nodup → (Ns.flatMap fun n => (g.allLinks n).map (·.1)).Nodup
  | [], _ => List.nodup_nil
  | n :: Ns, hnd => by
    rw [List.nodup_cons] at hnd
    rw [List.flatMap_cons, List.nodup_append]
    refine ⟨(allLinks_fst_sublist g n).nodup (allPorts_nodup g n), flatMap_fst_nodup g Ns hnd.2, ?_⟩
    intro a ha b hb e
    subst e
    obtain ⟨l, hl, rfl⟩ := List.mem_map.1 ha
    obtain ⟨m, hm, hb'⟩ := List.mem_flatMap.1 hb
    obtain ⟨l', hl', e'⟩ := List.mem_map.1 hb'
    have h1 := allLinks_fst hl
    have h2 := allLinks_fst hl'
    rw [e', h1] at h2
    exact hnd.1 (h2 ▸ hm)

theorem sum_allLinks_le (g : PortGraph) :
    (g.nodesIter.map fun n => (g.allLinks n).length).sum ≤ 2 * g.links.length := by
  have hlen : (g.nodesIter.flatMap fun n => (g.allLinks n).map (·.1)).length =
      (g.nodesIter.map fun n => (g.allLinks n).length).sum := by
    rw [List.length_flatMap]
    congr 1
    apply List.map_congr_left
    intro n _
    simp
  rw [← hlen]
  have := nodup_subset_length _ (g.links.map (·.1) ++ g.links.map (·.2))
    (flatMap_fst_nodup g g.nodesIter g.nodesIter_nodup) (fun p hp => by
      obtain ⟨n, -, hp'⟩ := List.mem_flatMap.1 hp
      obtain ⟨l, hl, rfl⟩ := List.mem_map.1 hp'
      rcases PortGraph.portLink_some_mem (mem_allLinks hl).2.1 with h | h
      · exact List.mem_append_left _ (List.mem_map.2 ⟨_, h, rfl⟩)
      · exact List.mem_append_right _ (List.mem_map.2 ⟨_, h, rfl⟩))
  rw [List.length_append, List.length_map, List.length_map] at this
  omega

theorem pot_init_le (g : PortGraph) {root : Nat} (hr : (g.node? root).isSome = true) :
    pot g (g.allLinks root) [root] ≤
      4 * g.links.length + 4 + 2 * (g.allLinks root).length := by
  unfold pot
  have h1 := sumOut_visit (fun n => (g.allLinks n).length) (c := root) (V := [])
    (by simp) g.nodesIter_nodup ((g.mem_nodesIter root).2 hr)
  rw [sumOut_nil, List.nil_append] at h1
  have h2 := sum_allLinks_le g
  omega

/-! ### The final state of `linePartition` -/

/-- `linePartition` never runs out of fuel: its result satisfies the invariant with an empty
queue. -/
theorem linePartition_final (hg : g.LinksOK) {root : Nat} (hr : (g.node? root).isSome = true) :
    ∃ visL visN, Inv g root (linePartition g root) [] visL visN := by
  unfold linePartition
  apply loop_inv hg root
  · exact ⟨Core.init g root, rfl, fun ln h => (by cases h), fun x h => (by cases h)⟩
  · exact pot_init_le g hr

/-- Two nodes joined by a link. -/
def Adj (g : PortGraph) (a b : Nat) : Prop :=
  ∃ l ∈ g.links, (l.1.1 = a ∧ l.2.1 = b) ∨ (l.2.1 = a ∧ l.1.1 = b)

theorem Adj.symm {a b : Nat} (h : Adj g a b) : Adj g b a := by
  obtain ⟨l, hl, h⟩ := h
  refine ⟨l, hl, ?_⟩
  rcases h with ⟨h1, h2⟩ | ⟨h1, h2⟩
  · exact Or.inr ⟨h2, h1⟩
  · exact Or.inl ⟨h2, h1⟩

/-- A link of the graph with an end at a visited node is visited, once the queue is empty. -/
theorem Inv.link_visited (hg : g.LinksOK) {lines : List (List PLink)}
    (inv : Inv g root lines [] visL visN) {l : PLink} (hl : l ∈ g.links)
    (hn : l.1.1 ∈ visN ∨ l.2.1 ∈ visN) : linkVisited visL l = true := by
  have hd := hg.dirs hl
  have he := hg.ends hl
  have key : ∀ l' : PLink, l' ∈ g.allLinks l'.1.1 → l'.1.1 ∈ visN → sameLink l l' = true →
      linkVisited visL l = true := by
    intro l' hmem hvis hsame
    rcases inv.core.q _ hvis l' hmem with h | h
    · obtain ⟨x, hx, hs⟩ := (linkVisited_iff _ _).1 h
      refine (linkVisited_iff _ _).2 ⟨x, hx, ?_⟩
      rw [sameLink_iff] at hsame hs ⊢
      rcases hsame with ⟨a1, a2⟩ | ⟨a1, a2⟩ <;> rcases hs with ⟨b1, b2⟩ | ⟨b1, b2⟩
      · exact Or.inl ⟨a1.trans b1, a2.trans b2⟩
      · exact Or.inr ⟨a1.trans b1, a2.trans b2⟩
      · exact Or.inr ⟨a1.trans b2, a2.trans b1⟩
      · exact Or.inl ⟨a1.trans b2, a2.trans b1⟩
    · cases h
  have hA : l.1.1 ∈ visN → linkVisited visL l = true := fun h =>
    key (l.1, l.2) (mem_allLinks_of (mem_allPorts_of_exists he.1) (hg.portLink_fst hl)
      (fun hc => by rw [hd.2] at hc; cases hc.2)) h (sameLink_self l)
  rcases hn with h | h
  · exact hA h
  · by_cases hself : l.1.1 = l.2.1
    · exact hA (hself ▸ h)
    · exact key (l.2, l.1) (mem_allLinks_of (mem_allPorts_of_exists he.2) (hg.portLink_snd hl)
        (fun hc => hself hc.1)) h ((sameLink_iff _ _).2 (Or.inr ⟨rfl, rfl⟩))

/-- Both ends of a visited link are visited nodes. -/
theorem Inv.ends_visited {lines : List (List PLink)} (inv : Inv g root lines queue visL visN)
    {l : PLink} (h : linkVisited visL l = true) : l.1.1 ∈ visN ∧ l.2.1 ∈ visN := by
  obtain ⟨x, hx, hs⟩ := (linkVisited_iff _ _).1 h
  have h1 := inv.core.fst x hx
  have h2 := inv.snd x hx
  rw [sameLink_iff] at hs
  rcases hs with ⟨a1, a2⟩ | ⟨a1, a2⟩
  · rw [a1, a2]; exact ⟨h1, h2⟩
  · rw [a1, a2]; exact ⟨h2, h1⟩

/-- With an empty queue the visited nodes are closed under adjacency. -/
theorem Inv.closed (hg : g.LinksOK) {lines : List (List PLink)}
    (inv : Inv g root lines [] visL visN) {a b : Nat} (ha : a ∈ visN) (hab : Adj g a b) :
    b ∈ visN := by
  obtain ⟨l, hl, h⟩ := hab
  rcases h with ⟨h1, h2⟩ | ⟨h1, h2⟩
  · have := inv.ends_visited (inv.link_visited hg hl (Or.inl (h1 ▸ ha)))
    exact h2 ▸ this.2
  · have := inv.ends_visited (inv.link_visited hg hl (Or.inr (h1 ▸ ha)))
    exact h2 ▸ this.1

/-! ### Connectedness -/

/-- Reachability along links (in either direction). -/
inductive Reach (g : PortGraph) (a : Nat) : Nat → Prop
  | refl : Reach g a a
  | step {b c : Nat} : Reach g a b → Adj g b c → Reach g a c

theorem Reach.trans {a b c : Nat} (h1 : Reach g a b) (h2 : Reach g b c) : Reach g a c := by
  induction h2 with
  | refl => exact h1
  | step _ hadj ih => exact ih.step hadj

theorem Reach.symm {a b : Nat} (h : Reach g a b) : Reach g b a := by
  induction h with
  | refl => exact Reach.refl
  | step _ hadj ih => exact (Reach.step Reach.refl hadj.symm).trans ih

/-- Everything the search of `pgConnected` collects satisfies any property that holds for the
work list and is inherited by neighbours (independently of the fuel). -/
theorem go_invariant (nbrs : Nat → List Nat) (R : Nat → Prop)
    (hR : ∀ n m, R n → m ∈ nbrs n → R m) :
    ∀ (f : Nat) (work seen : List Nat), (∀ n ∈ work, R n) → (∀ n ∈ seen, R n) →
      ∀ n ∈ pgConnected.go nbrs f work seen, R n
  | 0, work, seen, _, hs => by rw [go_zero]; exact hs
  | f + 1, [], seen, _, hs => by rw [go_nil]; exact hs
  | f + 1, n :: work, seen, hw, hs => by
    rw [go_succ_cons]
    have hn := hw n (List.mem_cons_self ..)
    have hw' : ∀ m ∈ work, R m := fun m hm => hw m (List.mem_cons_of_mem _ hm)
    split
    · exact go_invariant nbrs R hR f work seen hw' hs
    · apply go_invariant nbrs R hR f
      · intro m hm
        rcases List.mem_append.1 hm with h | h
        · exact hR n m hn h
        · exact hw' m h
      · intro m hm
        rcases List.mem_cons.1 hm with rfl | h
        · exact hn
        · exact hs m h

/-- A connected graph: all live nodes are reachable from one of them. -/
theorem pgConnected_reach (h : pgConnected g = true) :
    ∃ start, ∀ n ∈ g.nodesIter, Reach g start n := by
  unfold pgConnected at h
  cases hn : g.nodesIter with
  | nil => rw [hn] at h; cases h
  | cons start rest =>
    rw [hn] at h
    simp only [List.all_eq_true] at h
    refine ⟨start, fun n hmem => ?_⟩
    have hseen := List.contains_iff_mem.1 (h n hmem)
    refine go_invariant _ (Reach g start) ?_ _ _ _ ?_ ?_ n hseen
    · intro a b ha hb
      obtain ⟨l, hl, hlb⟩ := List.mem_filterMap.1 hb
      refine ha.step ⟨l, hl, ?_⟩
      split at hlb
      · next e => cases hlb; exact Or.inl ⟨e, rfl⟩
      · split at hlb
        · next e => cases hlb; exact Or.inr ⟨e, rfl⟩
        · cases hlb
    · intro m hm
      rw [List.mem_singleton] at hm; subst hm; exact Reach.refl
    · intro m hm; cases hm

theorem pgConnected_reach_root (h : pgConnected g = true) {root : Nat}
    (hr : (g.node? root).isSome = true) : ∀ n ∈ g.nodesIter, Reach g root n := by
  obtain ⟨start, hs⟩ := pgConnected_reach h
  intro n hn
  exact (hs root ((g.mem_nodesIter root).2 hr)).symm.trans (hs n hn)

/-! ### Keys: `pgNodeKeys.lines` only ever adds entries -/

/-- `alGet` of an appended association list keeps earlier hits. -/
theorem alGet_append_isSome {K V : Type} [DecidableEq K] :
    ∀ {m : List (K × V)} (n' : List (K × V)) {k : K},
      (alGet m k).isSome = true → (alGet (m ++ n') k).isSome = true
  | [], _, _, h => by cases h
  | (k', v) :: m, n', k, h => by
    simp only [List.cons_append, alGet] at h ⊢
    split
    · rfl
    · next hk => rw [if_neg hk] at h; exact alGet_append_isSome n' h

theorem alGet_append_self_isSome {K V : Type} [DecidableEq K] :
    ∀ (m : List (K × V)) (k : K) (v : V), (alGet (m ++ [(k, v)]) k).isSome = true
  | [], k, v => by simp [alGet]
  | (k', v') :: m, k, v => by
    simp only [List.cons_append, alGet]
    split
    · rfl
    · exact alGet_append_self_isSome m k v

theorem keyStep_mono (ri : Nat) (off : POff) (n2k : List (Nat × PGKey)) (li : PLink × Nat)
    {n : Nat} (h : (alGet n2k n).isSome = true) :
    (alGet (keyStep ri off n2k li) n).isSome = true := by
  unfold keyStep
  split
  · exact h
  · exact alGet_append_isSome _ h

theorem keyStep_hit (ri : Nat) (off : POff) (n2k : List (Nat × PGKey)) (li : PLink × Nat) :
    (alGet (keyStep ri off n2k li) li.1.2.1).isSome = true := by
  unfold keyStep
  split
  · next h => exact h
  · exact alGet_append_self_isSome _ _ _

theorem foldl_keyStep_mono (ri : Nat) (off : POff) {n : Nat} :
    ∀ (zs : List (PLink × Nat)) (n2k : List (Nat × PGKey)), (alGet n2k n).isSome = true →
      (alGet (zs.foldl (keyStep ri off) n2k) n).isSome = true
  | [], _, h => h
  | z :: zs, n2k, h => by
    rw [List.foldl_cons]
    exact foldl_keyStep_mono ri off zs _ (keyStep_mono ri off n2k z h)

theorem foldl_keyStep_hit (ri : Nat) (off : POff) {n : Nat} :
    ∀ (zs : List (PLink × Nat)) (n2k : List (Nat × PGKey)), (∃ z ∈ zs, z.1.2.1 = n) →
      (alGet (zs.foldl (keyStep ri off) n2k) n).isSome = true
  | [], _, h => by obtain ⟨z, hz, _⟩ := h; cases hz
  | z :: zs, n2k, h => by
    rw [List.foldl_cons]
    obtain ⟨z', hz', e⟩ := h
    rcases List.mem_cons.1 hz' with rfl | hz'
    · exact foldl_keyStep_mono ri off zs _ (e ▸ keyStep_hit ri off n2k z')
    · exact foldl_keyStep_hit ri off zs _ ⟨z', hz', e⟩

theorem lines_mono {n : Nat} :
    ∀ (lines : List (List PLink)) (n2k : List (Nat × PGKey)) (n2r : List (Nat × Nat)),
      (alGet n2k n).isSome = true → (alGet (pgNodeKeys.lines lines n2k n2r) n).isSome = true
  | [], _, _, h => by rw [lines_nil]; exact h
  | line :: rest, n2k, n2r, h => by
    rw [lines_cons]
    cases line.head? with
    | none => exact h
    | some first => exact lines_mono rest _ _ (foldl_keyStep_mono _ _ _ _ h)

/-- The right end of every link on a (non-empty) line gets a key. -/
theorem lines_hit {n : Nat} :
    ∀ (lines : List (List PLink)) (n2k : List (Nat × PGKey)) (n2r : List (Nat × Nat)),
      (∀ ln ∈ lines, ln ≠ []) → (∃ x ∈ lines.flatten, x.2.1 = n) →
      (alGet (pgNodeKeys.lines lines n2k n2r) n).isSome = true
  | [], _, _, _, h => by obtain ⟨x, hx, _⟩ := h; cases hx
  | line :: rest, n2k, n2r, hne, h => by
    rw [lines_cons]
    cases hh : line.head? with
    | none =>
      exact absurd (List.head?_eq_none_iff.1 hh) (hne line (List.mem_cons_self ..))
    | some first =>
      simp only
      obtain ⟨x, hx, e⟩ := h
      rw [List.flatten_cons] at hx
      rcases List.mem_append.1 hx with hx | hx
      · apply lines_mono
        apply foldl_keyStep_hit
        have hmap : (line.zip (List.range line.length)).map Prod.fst = line :=
          List.map_fst_zip (by rw [List.length_range]; exact Nat.le_refl _)
        rw [← hmap] at hx
        obtain ⟨z, hz, rfl⟩ := List.mem_map.1 hx
        exact ⟨z, hz, e⟩
      · exact lines_hit rest _ _ (fun ln hln => hne ln (List.mem_cons_of_mem _ hln)) ⟨x, hx, e⟩

end Pm.PGDom.Cover

namespace Pm.PGDom
open Cover

/-- **T-DOM-PG (coverage).** For a well-formed, connected pattern with a live root, every link
lies on a line of `linePartition` and every live node has a key. -/
theorem cover_core (p : PortGraph) (root : Nat) (hp : p.LinksOK)
    (hc : pgConnected p = true) (hr : (p.node? root).isSome = true) : LinesCover p root := by
  obtain ⟨visL, visN, inv⟩ := linePartition_final hp hr
  have hreach : ∀ n, Reach p root n → n ∈ visN := by
    intro n h
    induction h with
    | refl => exact inv.core.rootIn
    | step _ hadj ih => exact inv.closed hp ih hadj
  have hvis : ∀ n ∈ p.nodesIter, n ∈ visN := fun n hn =>
    hreach n (pgConnected_reach_root hc hr n hn)
  constructor
  · intro l hl
    unfold onLines
    rw [any_linkVisited_flatten, ← inv.hv]
    have hlive : l.1.1 ∈ p.nodesIter :=
      (p.mem_nodesIter _).2 (PortGraph.node_of_portExists (hp.ends hl).1)
    exact inv.link_visited hp hl (Or.inl (hvis _ hlive))
  · intro n hn
    unfold pgNodeKeys
    rcases inv.core.key n (hvis n hn) with rfl | ⟨x, hx, e⟩
    · apply lines_mono
      simp [alGet]
    · rw [inv.hv] at hx
      exact lines_hit _ _ _ inv.hne ⟨x, hx, e⟩

/-! ### Examples: direct evaluation, and non-vacuity of the hypotheses of `cover_core` -/

example : LinesCover PGEx.gCyc 0 := by decide
example : LinesCover PGEx.gPath 0 := by decide
example : LinesCover PGEx.gCyc 0 :=
  cover_core _ _ (by decide) (by decide) (by decide)
example : LinesCover PGEx.gPath 0 :=
  cover_core _ _ (by decide) (by decide) (by decide)

end Pm.PGDom
