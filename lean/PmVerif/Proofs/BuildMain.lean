/-
Proofs/BuildMain.lean — the main induction of T-BUILD: one iteration of the main loop, the main
loop, `finish` and `build`, from the per-step lemmas (packaged as `StepLemmas`).
-/
import PmVerif.Proofs.BuildCommon
import PmVerif.Proofs.BuildAddPattern
import PmVerif.Proofs.BuildScopes
namespace Pm
namespace Automaton
variable {K P : Type} [DecidableEq K] [DecidableEq P]
set_option linter.unusedSectionVars false

/-- The global invariant of the main loop. -/
structure Good (σ : Constraint K P → Bool) (a : Automaton K P) : Prop where
  inv : Inv a
  rs : RootSrc a
  det : DetOKE σ a

/-- `a'` is good again and its root accepts the same ids. -/
def Keeps (σ : Constraint K P → Bool) (a a' : Automaton K P) : Prop :=
  Good σ a' ∧ a'.root = a.root ∧ ∀ pid, AccND σ a' a'.root pid ↔ AccND σ a a.root pid

theorem Keeps.trans {σ : Constraint K P → Bool} {a a1 a2 : Automaton K P}
    (h1 : Keeps σ a a1) (h2 : Keeps σ a1 a2) : Keeps σ a a2 :=
  ⟨h2.1, h2.2.1.trans h1.2.1, fun pid => (h2.2.2 pid).trans (h1.2.2 pid)⟩

theorem Keeps.of_pres {σ : Constraint K P → Bool} {a a' : Automaton K P} {s : Nat}
    (g : Good σ a) (p : Pres σ a a' s) : Keeps σ a a' := by
  obtain ⟨rs', hl⟩ := p.rootSrc g.rs
  exact ⟨⟨p.inv, rs', p.det g.det⟩, p.root, hl⟩

/-- The per-step lemmas the main induction needs. -/
structure StepLemmas (σ : Constraint K P → Bool)
    (toTree : List (Constraint K P) → Option (CTree (Constraint K P))) : Prop where
  fuse : ∀ {a a' : Automaton K P} {s : Nat} {evs evs' : List Ev}, Inv a → a.Live s →
    a.makeConstraintsUnique s evs = .ok (a', evs') → Pres σ a a' s
  tree : ∀ {a a' : Automaton K P} {s fuel : Nat} {det : Bool}, Inv a → a.Live s →
    insertConstraintTree toTree a s fuel = .ok (a', det) → SubStep σ a a' s
  det : ∀ {a a' : Automaton K P} {s : Nat}, Good σ a → a.makeDet s = .ok a' → Keeps σ a a'
  merge : ∀ (evs : List Ev) {a a' : Automaton K P} {evs' : List Ev}, Good σ a →
    a.mergesLogged evs = .ok (a', evs') → Keeps σ a a'

theorem iteration_tail {σ : Constraint K P → Bool}
    {toTree : List (Constraint K P) → Option (CTree (Constraint K P))} (L : StepLemmas σ toTree)
    {a a' : Automaton K P} {s : Nat} {evs' : List Ev} (r : R (Automaton K P × List Ev))
    (hr : ∀ a4 evs4, r = .ok (a4, evs4) → Keeps σ a a4)
    (h : (match r with
      | .error e => .error e
      | .ok (a, evs) =>
        match a.mergesLogged evs with
        | .error e => .error e
        | .ok (a, .iterEnd s' :: evs) =>
          if s' = s then .ok (a, evs) else .error (.guard "IterEnd for another state")
        | .ok _ => .error (.guard "missing IterEnd event")) = Except.ok (a', evs')) :
    Keeps σ a a' := by
  split at h
  · cases h
  · rename_i a4 evs4
    have k4 := hr a4 evs4 rfl
    split at h
    · cases h
    · rename_i a5 s' evs5 h5
      split at h
      · cases h; exact k4.trans (L.merge _ k4.1 h5)
      · cases h
    · cases h

theorem afterDet_keeps {σ : Constraint K P → Bool}
    {toTree : List (Constraint K P) → Option (CTree (Constraint K P))} (L : StepLemmas σ toTree)
    {a a3 a4 : Automaton K P} {s : Nat} {treeDet : Bool} {evs3 evs4 : List Ev}
    (k3 : Keeps σ a a3)
    (h : (if treeDet then
        match evs3 with
        | .detAsk s' :: .detYes s'' :: evs' =>
          if s' = s ∧ s'' = s then (a3.makeDet s).map (·, evs')
          else .error (.guard "c5: DetAsk/DetYes for another state")
        | .detAsk s' :: evs' =>
          if s' = s then .ok (a3, evs') else .error (.guard "c5: DetAsk for another state")
        | _ => .error (.guard "c5: missing DetAsk event")
      else .ok (a3, evs3) : R (Automaton K P × List Ev)) = .ok (a4, evs4)) : Keeps σ a a4 := by
  split at h
  · split at h
    · split at h
      · cases hm : a3.makeDet s with
        | error e => rw [hm] at h; cases h
        | ok a4' =>
          rw [hm] at h
          cases h
          exact k3.trans (L.det k3.1 hm)
      · cases h
    · split at h
      · cases h; exact k3
      · cases h
    · cases h
  · cases h; exact k3

theorem iteration_keeps {σ : Constraint K P → Bool}
    {toTree : List (Constraint K P) → Option (CTree (Constraint K P))} (L : StepLemmas σ toTree)
    {fuel : Nat} {a a' : Automaton K P} {s : Nat} {evs evs' : List Ev} (g : Good σ a)
    (h : iteration toTree fuel a s evs = .ok (a', evs')) : Keeps σ a a' := by
  unfold iteration at h
  split at h
  · cases h
  · rename_i hlive
    have hs : a.Live s := by
      unfold Live; cases hx : a.g.containsNode s <;> simp_all
    split at h
    · cases h
    · rename_i a1 evs1 h1
      have p1 := L.fuse g.inv hs h1
      have k1 := Keeps.of_pres g p1
      split at h
      · cases h
      · rename_i a2 treeDet h2
        have p2 := (L.tree p1.inv p1.live_s h2).pres
        have k2 := k1.trans (Keeps.of_pres k1.1 p2)
        split at h
        · cases h
        · rename_i a3 evs3 h3
          have p3 := L.fuse p2.inv p2.live_s h3
          have k3 := k2.trans (Keeps.of_pres k2.1 p3)
          exact iteration_tail L _ (fun a4 evs4 h4 => afterDet_keeps L k3 h4) h

theorem mainLoop_keeps {σ : Constraint K P → Bool}
    {toTree : List (Constraint K P) → Option (CTree (Constraint K P))} (L : StepLemmas σ toTree)
    {fuel : Nat} : ∀ (n : Nat) {a a' : Automaton K P} (evs : List Ev), Good σ a →
    mainLoop toTree fuel n a evs = .ok a' → Keeps σ a a' := by
  intro n
  induction n with
  | zero =>
    intro a a' evs g h
    cases evs with
    | nil => unfold mainLoop at h; cases h; exact ⟨g, rfl, fun _ => Iff.rfl⟩
    | cons e es => unfold mainLoop at h; cases h
  | succ n ih =>
    intro a a' evs g h
    cases evs with
    | nil => unfold mainLoop at h; cases h; exact ⟨g, rfl, fun _ => Iff.rfl⟩
    | cons e es =>
      cases e with
      | topo s =>
        unfold mainLoop at h
        split at h
        · cases h
        · rename_i a1 evs1 h1
          exact (iteration_keeps L g h1).trans (ih evs1 (iteration_keeps L g h1).1 h)
      | _ => unfold mainLoop at h; cases h

/-- Everything the final theorems need about a successful `build`. -/
theorem build_sem {σ : Constraint K P → Bool}
    {toTree : List (Constraint K P) → Option (CTree (Constraint K P))} (L : StepLemmas σ toTree)
    {req : K → List K} {fuel : Nat} {patterns : List (Nat × List (Constraint K P) × List K)}
    {evs : List Ev} {A : Automaton K P} (h : build toTree req fuel patterns evs = .ok A) :
    Inv A ∧ DetOK σ A ∧
    (∃ rank : Nat → Nat, ∀ t e, A.g.edge? t = some e → rank e.dst < rank e.src) ∧
    ∀ pid, AccND σ A A.root pid ↔
      ∃ cs extra, (pid, cs, extra) ∈ patterns ∧ ∀ c ∈ cs, σ c = true := by
  unfold build at h
  split at h
  · cases h
  · rename_i a1 h1
    obtain ⟨inv1, _, rs1, nd1, hl1⟩ := addPatterns_spec (σ := σ) h1
    have g1 : Good σ a1 := ⟨inv1, rs1, detOKE_of_noDet nd1⟩
    unfold finish at h
    split at h
    · cases h
    · rename_i a2 h2
      obtain ⟨g2, hr2, hl2⟩ := mainLoop_keeps L _ _ g1 h2
      obtain ⟨inv3, hr3, he3, hw3⟩ := populateScopes_frame g2.inv h
      obtain ⟨rank, hrank⟩ := populateScopes_rank g2.inv h
      obtain ⟨hnd, _, hdk⟩ := sem_congr he3 hw3 σ
      refine ⟨inv3, hdk ((detOK_iff g2.inv.ok).2 g2.det), ⟨rank, fun t e he => ?_⟩, fun pid => ?_⟩
      · rw [he3] at he; exact hrank t e he
      · rw [hnd, hr3, hl2, hl1]

end Automaton
end Pm
