/-
Proofs/BuildTreeSem.lean — the semantic argument for `insert_constraint_tree`: given the
structural description `TreeBuilt` of what `add_constraint_tree` builds (hypothesis
`AddTreeStmt`), the step preserves every language (`SubStep`).
-/
import PmVerif.Proofs.BuildTreeDefs
namespace Pm
namespace Automaton
variable {K P : Type}

/-! ### `addRest` (the loop adding the not-added constraints below the fail state) -/

theorem addRest_grows {cs : List (Constraint K P)} {ch : List Nat} {f : Nat} :
    ∀ (is : List Nat) {a a' : Automaton K P}, Inv a →
    insertConstraintTree.addRest cs ch f a is = .ok a' →
    Grows a a' f (fun c' d => ∃ i ∈ is, ∃ c, cs[i]? = some c ∧ ch[i]? = some d ∧
        c' = some c ∧ d ≠ f) ∧
    (∀ i ∈ is, ∃ c d, cs[i]? = some c ∧ ch[i]? = some d ∧
      (d ≠ f → ∃ t, a'.g.edge? t = some ⟨f, d, some c⟩))
  | [], a, a', inv, h => by
    unfold insertConstraintTree.addRest at h; cases h
    exact ⟨Grows.refl inv _ _, fun _ h => by cases h⟩
  | i :: is, a, a', inv, h => by
    unfold insertConstraintTree.addRest at h
    split at h
    · rename_i child c hch hc
      split at h
      · cases h
      · rename_i a1 happ
        obtain ⟨g1, cov1⟩ := appendEdge_grows inv happ
        obtain ⟨g2, cov2⟩ := addRest_grows is g1.inv h
        constructor
        · refine (g1.mono ?_).trans (g2.mono ?_)
          · rintro c' d ⟨rfl, rfl, hne⟩
            exact ⟨i, List.mem_cons_self, c, hc, hch, rfl, hne⟩
          · rintro c' d ⟨j, hj, c, h1, h2, h3, h4⟩
            exact ⟨j, List.mem_cons_of_mem _ hj, c, h1, h2, h3, h4⟩
        · intro j hj
          rcases List.mem_cons.1 hj with rfl | hj
          · refine ⟨c, child, hc, hch, fun hne => ?_⟩
            obtain ⟨x, hx⟩ := cov1 hne
            exact ⟨x, g2.old x _ hx⟩
          · exact cov2 j hj
    · cases h

/-! ### Bookkeeping for the drained transitions -/

theorem drain_index (a : Automaton K P)
    (g : Option (Constraint K P) × Nat → Option (Constraint K P × Nat))
    (hg : ∀ c d, g (c, d) = c.map fun c => (c, d)) :
    ∀ (ts : List Nat) (drained : List (Option (Constraint K P) × Nat)),
    ts.map (edgeInfo a) = drained.map some →
    (∀ t ∈ ts, ∃ e, a.g.edge? t = some e ∧ e.w.isSome = true) →
    (drained.filterMap g).length = ts.length ∧
    ∀ (i : Nat) t, ts[i]? = some t → ∃ e c, a.g.edge? t = some e ∧ e.w = some c ∧
      (drained.filterMap g)[i]? = some (c, e.dst)
  | [], drained, hmap, _ => by
    cases drained with
    | nil => exact ⟨rfl, fun i t h => by simp at h⟩
    | cons p dr => simp at hmap
  | t :: ts, drained, hmap, hsome => by
    cases drained with
    | nil => simp at hmap
    | cons p dr =>
      simp only [List.map_cons, List.cons.injEq] at hmap
      obtain ⟨hp, hmap'⟩ := hmap
      obtain ⟨e, he, hc⟩ := hsome t List.mem_cons_self
      obtain ⟨c, hcw⟩ := Option.isSome_iff_exists.1 hc
      have hp' : p = (some c, e.dst) := by
        unfold edgeInfo at hp
        rw [he] at hp
        simp only [Option.map_some, Option.some.injEq] at hp
        rw [← hp, hcw]
      subst hp'
      have hgp : g (some c, e.dst) = some (c, e.dst) := by rw [hg]; rfl
      obtain ⟨ih1, ih2⟩ := drain_index a g hg ts dr hmap'
        (fun t' ht' => hsome t' (List.mem_cons_of_mem _ ht'))
      rw [List.filterMap_cons_some hgp]
      refine ⟨by simp [ih1], ?_⟩
      intro i t' hi
      cases i with
      | zero =>
        simp only [List.getElem?_cons_zero, Option.some.injEq] at hi
        subst hi
        exact ⟨e, c, he, hcw, by simp⟩
      | succ i =>
        simp only [List.getElem?_cons_succ] at hi ⊢
        exact ih2 i t' hi

theorem eta_edge {E : Type} (e : GEdge E) {s d : Nat} {c : E} (h1 : e.src = s) (h2 : e.dst = d)
    (h3 : e.w = c) : e = ⟨s, d, c⟩ := by
  cases e; simp only at h1 h2 h3; subst h1 h2 h3; rfl

theorem drain_ctx {a : Automaton K P} (ok : OrdersOK a) {s : Nat} {w : AState K}
    (hw : a.g.weight? s = some w)
    (g : Option (Constraint K P) × Nat → Option (Constraint K P × Nat))
    (hg : ∀ c d, g (c, d) = c.map fun c => (c, d))
    (drained : List (Option (Constraint K P) × Nat))
    (hmap : w.corder.map (edgeInfo a) = drained.map some) :
    (∀ (i : Nat) c d, ((drained.filterMap g).map (·.1))[i]? = some c →
      ((drained.filterMap g).map (·.2))[i]? = some d →
      ∃ t, t ∈ w.corder ∧ a.g.edge? t = some ⟨s, d, some c⟩) ∧
    (∀ t, t ∈ w.corder → ∃ (i : Nat) (c : Constraint K P) (d : Nat), ((drained.filterMap g).map (·.1))[i]? = some c ∧
      ((drained.filterMap g).map (·.2))[i]? = some d ∧ a.g.edge? t = some ⟨s, d, some c⟩) := by
  have hsome : ∀ t ∈ w.corder, ∃ e, a.g.edge? t = some e ∧ e.w.isSome = true := by
    intro t ht
    obtain ⟨e, he, _, hc⟩ := ok.corder_edge s w hw t ht
    exact ⟨e, he, hc⟩
  obtain ⟨hlen, hidx⟩ := drain_index a g hg w.corder drained hmap hsome
  constructor
  · intro i c d hc hd
    rw [List.getElem?_map] at hc hd
    cases hp : (drained.filterMap g)[i]? with
    | none => rw [hp] at hc; cases hc
    | some p =>
      rw [hp] at hc hd
      simp only [Option.map_some, Option.some.injEq] at hc hd
      have hi : i < w.corder.length := by
        rw [← hlen]; exact (List.getElem?_eq_some_iff.1 hp).1
      have ht : w.corder[i]? = some w.corder[i] := List.getElem?_eq_getElem hi
      obtain ⟨e, c', he, hcw, hp'⟩ := hidx i _ ht
      rw [hp] at hp'
      cases hp'
      simp only at hc hd
      subst hc hd
      have hmem : w.corder[i] ∈ w.corder := List.getElem_mem hi
      obtain ⟨e', he', hsrc, _⟩ := ok.corder_edge s w hw _ hmem
      rw [he] at he'; cases he'
      exact ⟨_, hmem, by rw [he, eta_edge e hsrc rfl hcw]⟩
  · intro t ht
    obtain ⟨i, hi⟩ := List.mem_iff_getElem?.1 ht
    obtain ⟨e, c, he, hcw, hp⟩ := hidx i t hi
    obtain ⟨e', he', hsrc, _⟩ := ok.corder_edge s w hw t ht
    rw [he] at he'; cases he'
    refine ⟨i, c, e.dst, ?_, ?_, by rw [he, eta_edge e hsrc rfl hcw]⟩
    · rw [List.getElem?_map, hp]; rfl
    · rw [List.getElem?_map, hp]; rfl

/-! ### The fail state -/

/-- `a'` is `a2` plus (possibly) a fresh fail state `f` (`F f`) below `s`, with an epsilon edge
`s -ε-> f` and the edges `f -cs[i]-> ch[i]` for the indices `i` that were not added. -/
structure FailBuilt (a2 a' : Automaton K P) (s : Nat) (cs : List (Constraint K P))
    (ch : List Nat) (added : List Nat) (F : Nat → Prop) : Prop where
  inv : Inv a'
  root : a'.root = a2.root
  fresh : ∀ f, F f → ¬ a2.Live f
  wt_old : ∀ x, a2.Live x → x ≠ s → a'.g.weight? x = a2.g.weight? x
  wt_s : ∀ w, a2.g.weight? s = some w →
    ∃ w', a'.g.weight? s = some w' ∧ w'.matches_ = w.matches_ ∧ w'.det = w.det
  wt_new : ∀ x w, ¬ a2.Live x → a'.g.weight? x = some w →
    w.matches_ = [] ∧ w.det = false ∧ F x
  old : ∀ t e, a2.g.edge? t = some e → a'.g.edge? t = some e
  new : ∀ t e, a'.g.edge? t = some e → a2.g.edge? t = some e ∨
    (e.src = s ∧ e.w = none ∧ F e.dst) ∨
    (F e.src ∧ ∃ (i : Nat) (c : Constraint K P), i ∉ added ∧ cs[i]? = some c ∧
      ch[i]? = some e.dst ∧ e.w = some c)
  cover : ∀ (i : Nat) c d, i ∉ added → cs[i]? = some c → ch[i]? = some d →
    ∃ f t1 t2, a'.g.edge? t1 = some ⟨s, f, none⟩ ∧ a'.g.edge? t2 = some ⟨f, d, some c⟩

theorem failBuilt_nil {a2 : Automaton K P} (inv : Inv a2) (s : Nat)
    {cs : List (Constraint K P)} (ch : List Nat) {added : List Nat}
    (hall : ∀ i, i < cs.length → i ∈ added) :
    FailBuilt a2 a2 s cs ch added (fun _ => False) where
  inv := inv
  root := rfl
  fresh _ h := h.elim
  wt_old _ _ _ := rfl
  wt_s w hw := ⟨w, hw, rfl, rfl⟩
  wt_new _ _ hx hw := absurd (live_of_weight hw) hx
  old _ _ h := h
  new _ _ h := .inl h
  cover i _ _ hi hc _ := absurd (hall i (List.getElem?_eq_some_iff.1 hc).1) hi

theorem failBuilt_cons {a2 a3 a' : Automaton K P} (inv : Inv a2) {s f : Nat}
    {cs : List (Constraint K P)} {ch : List Nat} {added notAdded : List Nat}
    (hs : a2.Live s) (hlive : ∀ (i : Nat) d, ch[i]? = some d → a2.Live d)
    (hna : ∀ i, i < cs.length → i ∉ added → i ∈ notAdded)
    (hna' : ∀ i ∈ notAdded, i ∉ added)
    (h1 : a2.addTransition s none = .ok (a3, f))
    (h2 : insertConstraintTree.addRest cs ch f a3 notAdded = .ok a') :
    FailBuilt a2 a' s cs ch added (fun x => x = f) := by
  obtain ⟨e0, sp⟩ := addTransition_spec inv hs h1
  obtain ⟨g, cov⟩ := addRest_grows notAdded sp.inv h2
  have hsf : s ≠ f := fun h => sp.deadc (h ▸ hs)
  have hedge0 : a'.g.edge? e0 = some ⟨s, f, none⟩ := g.old e0 _ (by rw [sp.edge, if_pos rfl])
  refine ⟨g.inv, g.root.trans sp.root, ?_, ?_, ?_, ?_, ?_, ?_, ?_⟩
  · rintro x rfl; exact sp.deadc
  · intro x hx hxs
    have hxf : x ≠ f := fun h => sp.deadc (h ▸ hx)
    rw [g.wt_ne x hxf, sp.wt, if_neg hxf, if_neg hxs]
  · intro w hw
    refine ⟨addOrder (none : Option (Constraint K P)) e0 w, ?_, by simp, by simp⟩
    rw [g.wt_ne s hsf, sp.wt, if_neg hsf, if_pos rfl, hw]; rfl
  · intro x w hx hw
    by_cases hxf : x = f
    · subst hxf
      obtain ⟨w3, hw3, hm, hd⟩ := g.weight_some' hw
      rw [sp.wt, if_pos rfl] at hw3
      cases hw3
      exact ⟨hm, hd, rfl⟩
    · rw [g.wt_ne x hxf, sp.wt, if_neg hxf] at hw
      have hxs : x ≠ s := fun h => hx (h ▸ hs)
      rw [if_neg hxs] at hw
      exact absurd (live_of_weight hw) hx
  · intro t e he
    refine g.old t e ?_
    rw [sp.edge]
    split
    · rename_i hte; subst hte; rw [sp.fresh] at he; cases he
    · exact he
  · intro t e he
    rcases g.new t e he with h | ⟨_, hsrc, i, hi, c, hc, hd, hw, _⟩
    · rw [sp.edge] at h
      split at h
      · cases h; exact .inr (.inl ⟨rfl, rfl, rfl⟩)
      · exact .inl h
    · exact .inr (.inr ⟨hsrc, i, c, hna' i hi, hc, hd, hw⟩)
  · intro i c d hi hc hd
    have hmem : i ∈ notAdded := hna i (List.getElem?_eq_some_iff.1 hc).1 hi
    obtain ⟨c', d', hc', hd', hed⟩ := cov i hmem
    rw [hc] at hc'; cases hc'
    rw [hd] at hd'; cases hd'
    have hdf : d ≠ f := fun h => sp.deadc (h ▸ hlive i d hd)
    obtain ⟨t2, ht2⟩ := hed hdf
    exact ⟨f, e0, t2, hedge0, ht2⟩

/-! ### The combined picture: `a` versus `a'` -/

/-- Everything known in the non-trivial branch of `insert_constraint_tree`: `a1` is `a` without
the constraint transitions of `s` (`w.corder`), `cs[i]`, `ch[i]` are constraint and target of the
`i`-th of them, `tree` is faithful for `cs` under `σ`, `a2` is `a1` plus the image of the tree,
`a'` is `a2` plus the fail state. -/
structure Ctx (σ : Constraint K P → Bool) (a a1 a2 a' : Automaton K P) (s : Nat) (w : AState K)
    (cs : List (Constraint K P)) (ch : List Nat) (tree : CTree (Constraint K P)) (fuel : Nat)
    (added : List Nat) (Rep : Nat → Nat → Prop) (F : Nat → Prop) : Prop where
  inv : Inv a
  hw : a.g.weight? s = some w
  ndet : w.det = false
  sh : Shrinks a a1 w.corder
  len : ch.length = cs.length
  idx_edge : ∀ (i : Nat) c d, cs[i]? = some c → ch[i]? = some d →
    ∃ t, t ∈ w.corder ∧ a.g.edge? t = some ⟨s, d, some c⟩
  edge_idx : ∀ t, t ∈ w.corder → ∃ (i : Nat) (c : Constraint K P) (d : Nat),
    cs[i]? = some c ∧ ch[i]? = some d ∧ a.g.edge? t = some ⟨s, d, some c⟩
  lab_lt : ∀ i ∈ tree.allLabels, i < cs.length
  lab_ok : ∀ i ∈ tree.allLabels, ∀ c, cs[i]? = some c →
    (tree.reachLabel σ i = true ↔ σ c = true)
  tb : TreeBuilt a1 a2 tree s ch fuel added Rep
  fb : FailBuilt a2 a' s cs ch added F

section Sem
variable {σ : Constraint K P → Bool} {a a1 a2 a' : Automaton K P} {s : Nat} {w : AState K}
  {cs : List (Constraint K P)} {ch : List Nat} {tree : CTree (Constraint K P)} {fuel : Nat}
  {added : List Nat} {Rep : Nat → Nat → Prop} {F : Nat → Prop}

local notation "CTX" => Ctx σ a a1 a2 a' s w cs ch tree fuel added Rep F

theorem Ctx.live_s (X : CTX) : a.Live s := live_of_weight X.hw

theorem Ctx.root_eq (X : CTX) : a'.root = a.root :=
  X.fb.root.trans (X.tb.root.trans X.sh.root)

/-- Weights of `a` survive in `a2` (up to the orders). -/
theorem wt_fwd2_of {S : List Nat} (sh : Shrinks a a1 S)
    (tb : TreeBuilt a1 a2 tree s ch fuel added Rep) {x : Nat} {w0 : AState K}
    (h : a.g.weight? x = some w0) :
    ∃ w2, a2.g.weight? x = some w2 ∧ w2.matches_ = w0.matches_ ∧ w2.det = w0.det := by
  obtain ⟨w1, hw1, hm1, hd1⟩ := sh.wt x w0 h
  by_cases hx : x = s
  · subst hx
    obtain ⟨w2, hw2, hm2, hd2⟩ := tb.wt_s w1 hw1
    exact ⟨w2, hw2, hm2.trans hm1, hd2.trans hd1⟩
  · exact ⟨w1, (tb.wt_old x (live_of_weight hw1) hx).trans hw1, hm1, hd1⟩

theorem live2_of {S : List Nat} (sh : Shrinks a a1 S)
    (tb : TreeBuilt a1 a2 tree s ch fuel added Rep) {x : Nat} (h : a.Live x) : a2.Live x := by
  obtain ⟨w0, hw0⟩ := live_iff.1 h
  obtain ⟨w2, hw2, _⟩ := wt_fwd2_of sh tb hw0
  exact live_of_weight hw2

theorem Ctx.wt_fwd2 (X : CTX) {x : Nat} {w0 : AState K} (h : a.g.weight? x = some w0) :
    ∃ w2, a2.g.weight? x = some w2 ∧ w2.matches_ = w0.matches_ ∧ w2.det = w0.det :=
  wt_fwd2_of X.sh X.tb h

theorem Ctx.live2 (X : CTX) {x : Nat} (h : a.Live x) : a2.Live x := live2_of X.sh X.tb h

/-- Weights of `a` survive in `a'` (up to the orders). -/
theorem Ctx.wt_fwd (X : CTX) {x : Nat} {w0 : AState K} (h : a.g.weight? x = some w0) :
    ∃ w', a'.g.weight? x = some w' ∧ w'.matches_ = w0.matches_ ∧ w'.det = w0.det := by
  obtain ⟨w2, hw2, hm2, hd2⟩ := X.wt_fwd2 h
  by_cases hx : x = s
  · subst hx
    obtain ⟨w3, hw3, hm3, hd3⟩ := X.fb.wt_s w2 hw2
    exact ⟨w3, hw3, hm3.trans hm2, hd3.trans hd2⟩
  · exact ⟨w2, (X.fb.wt_old x (live_of_weight hw2) hx).trans hw2, hm2, hd2⟩

theorem Ctx.live' (X : CTX) {x : Nat} (h : a.Live x) : a'.Live x := by
  obtain ⟨w0, hw0⟩ := live_iff.1 h
  obtain ⟨w', hw', _⟩ := X.wt_fwd hw0
  exact live_of_weight hw'

theorem Ctx.not_live1 (X : CTX) {x : Nat} (h : ¬ a.Live x) : ¬ a1.Live x :=
  fun h1 => h ((X.sh.live_iff x).1 h1)

/-- Weights of `a'`: an old one, or the weight of a fresh state. -/
theorem Ctx.wt_cases (X : CTX) {x : Nat} {w' : AState K} (h : a'.g.weight? x = some w') :
    (∃ w0, a.g.weight? x = some w0 ∧ w'.matches_ = w0.matches_ ∧ w'.det = w0.det) ∨
    (¬ a.Live x ∧ w'.matches_ = [] ∧ w'.det = false) := by
  by_cases hx : a.Live x
  · obtain ⟨w0, hw0⟩ := live_iff.1 hx
    obtain ⟨w'', hw'', hm, hd⟩ := X.wt_fwd hw0
    rw [h] at hw''; cases hw''
    exact .inl ⟨w0, hw0, hm, hd⟩
  · right
    by_cases hx2 : a2.Live x
    · have hxs : x ≠ s := fun e => hx (e ▸ X.live_s)
      rw [X.fb.wt_old x hx2 hxs] at h
      obtain ⟨hm, hd, _⟩ := X.tb.wt_new x w' (X.not_live1 hx) h
      exact ⟨hx, hm, hd⟩
    · obtain ⟨hm, hd, _⟩ := X.fb.wt_new x w' hx2 h
      exact ⟨hx, hm, hd⟩

theorem Ctx.ids_fwd (X : CTX) {x pid : Nat} (h : a.Ids x pid) : a'.Ids x pid := by
  obtain ⟨w0, hw0, hp⟩ := h
  obtain ⟨w', hw', hm, _⟩ := X.wt_fwd hw0
  exact ⟨w', hw', hm ▸ hp⟩

theorem Ctx.ids_bwd (X : CTX) {x pid : Nat} (h : a'.Ids x pid) : a.Ids x pid := by
  obtain ⟨w', hw', hp⟩ := h
  rcases X.wt_cases hw' with ⟨w0, hw0, hm, _⟩ | ⟨_, hm, _⟩
  · exact ⟨w0, hw0, hm ▸ hp⟩
  · rw [hm] at hp; cases hp

/-- An edge of `a` that is not drained survives. -/
theorem Ctx.edge_fwd (X : CTX) {t : Nat} {e : GEdge (Option (Constraint K P))}
    (h : a.g.edge? t = some e) (ht : t ∉ w.corder) : a'.g.edge? t = some e := by
  refine X.fb.old t e (X.tb.old t e ?_)
  rw [X.sh.edge, if_neg ht]; exact h

theorem Ctx.drained_src (X : CTX) {t : Nat} {e : GEdge (Option (Constraint K P))}
    (h : a.g.edge? t = some e) (ht : t ∈ w.corder) : e.src = s := by
  obtain ⟨e', he', hs, _⟩ := X.inv.ok.corder_edge s w X.hw t ht
  rw [h] at he'; cases he'; exact hs

/-- The `i`-th child is the target of a (drained) constraint transition of `s` in `a`. -/
theorem Ctx.child_edge (X : CTX) {i d : Nat} (h : ch[i]? = some d) :
    ∃ t c, t ∈ w.corder ∧ cs[i]? = some c ∧ a.g.edge? t = some ⟨s, d, some c⟩ := by
  have hi : i < cs.length := by rw [← X.len]; exact (List.getElem?_eq_some_iff.1 h).1
  obtain ⟨t, ht, he⟩ := X.idx_edge i cs[i] d (List.getElem?_eq_getElem hi) h
  exact ⟨t, cs[i], ht, List.getElem?_eq_getElem hi, he⟩

theorem Ctx.child_live (X : CTX) {i d : Nat} (h : ch[i]? = some d) : a.Live d := by
  obtain ⟨t, c, _, _, he⟩ := X.child_edge h
  exact X.inv.ok.dst_live he

theorem Ctx.child_ne_s (X : CTX) {i d : Nat} (h : ch[i]? = some d) : d ≠ s := by
  obtain ⟨t, c, _, _, he⟩ := X.child_edge h
  exact Ne.symm (X.inv.noloop t _ he)

theorem Ctx.F_dead (X : CTX) {x : Nat} (h : F x) : ¬ a.Live x :=
  fun hx => X.fb.fresh x h (X.live2 hx)

theorem Ctx.F_not_rep (X : CTX) {x n : Nat} (h : F x) : ¬ Rep n x :=
  fun hr => X.fb.fresh x h (X.tb.rep_live n x hr)

theorem Ctx.rep_of_live (X : CTX) {x n : Nat} (hr : Rep n x) (hx : a.Live x) : n = 0 ∧ x = s := by
  rcases X.tb.rep_fresh n x hr with h | h
  · exact h
  · exact absurd ((X.sh.live_iff x).2 hx) h

theorem Ctx.child_ne_rep (X : CTX) {i d n m : Nat} (h : ch[i]? = some d) (hr : Rep n m) :
    d ≠ m := by
  intro e
  subst e
  exact X.child_ne_s h (X.rep_of_live hr (X.child_live h)).2

/-- Classification of the edges of `a'`. -/
theorem Ctx.edge_cases (X : CTX) {t : Nat} {e : GEdge (Option (Constraint K P))}
    (h : a'.g.edge? t = some e) :
    (a.g.edge? t = some e ∧ t ∉ w.corder) ∨
    (e.src = s ∧ e.w = none ∧ ∃ i ∈ tree.labelsAt 0, ch[i]? = some e.dst) ∨
    (∃ n c n', Rep n e.src ∧ (c, n') ∈ tree.childrenAt n ∧ e.w = some c ∧
      ((Rep n' e.dst ∧ ¬ a.Live e.dst) ∨ ∃ i ∈ tree.labelsAt n', ch[i]? = some e.dst)) ∨
    (e.src = s ∧ e.w = none ∧ F e.dst) ∨
    (F e.src ∧ ∃ (i : Nat) (c : Constraint K P), i ∉ added ∧ cs[i]? = some c ∧
      ch[i]? = some e.dst ∧ e.w = some c) := by
  rcases X.fb.new t e h with h2 | h2 | h2
  · rcases X.tb.new t e h2 with h1 | h1 | ⟨n, c, n', hr, hc, hw, hd⟩
    · left
      rw [X.sh.edge] at h1
      split at h1
      · cases h1
      · exact ⟨h1, ‹_›⟩
    · exact .inr (.inl h1)
    · refine .inr (.inr (.inl ⟨n, c, n', hr, hc, hw, ?_⟩))
      rcases hd with ⟨hr', hdead⟩ | hd
      · exact .inl ⟨hr', fun hx => hdead ((X.sh.live_iff _).2 hx)⟩
      · exact .inr hd
  · exact .inr (.inr (.inr (.inl h2)))
  · exact .inr (.inr (.inr (.inr h2)))

/-! #### Soundness: `a'` accepts nothing new -/

/-- `pid` is accepted in `a` from some child whose label is reachable from the tree node `n`. -/
def PathAcc (σ : Constraint K P → Bool) (a : Automaton K P) (tree : CTree (Constraint K P))
    (ch : List Nat) (n pid : Nat) : Prop :=
  ∃ (L k i d : Nat), CTree.PathN tree σ L n k ∧ i ∈ tree.labelsAt k ∧ ch[i]? = some d ∧
    AccND σ a d pid

/-- `pid` is accepted in `a` from a not-added child whose constraint holds. -/
def FailAcc (σ : Constraint K P → Bool) (a : Automaton K P) (cs : List (Constraint K P))
    (ch : List Nat) (added : List Nat) (pid : Nat) : Prop :=
  ∃ (i : Nat) (c : Constraint K P) (d : Nat), i ∉ added ∧ cs[i]? = some c ∧ σ c = true ∧
    ch[i]? = some d ∧ AccND σ a d pid

/-- The simulation predicate of the soundness direction. -/
def SoundT (σ : Constraint K P → Bool) (a : Automaton K P) (cs : List (Constraint K P))
    (ch : List Nat) (tree : CTree (Constraint K P)) (added : List Nat)
    (Rep : Nat → Nat → Prop) (F : Nat → Prop) (x pid : Nat) : Prop :=
  (a.Live x → AccND σ a x pid) ∧
  (¬ a.Live x → ∀ n, Rep n x → PathAcc σ a tree ch n pid) ∧
  (F x → FailAcc σ a cs ch added pid)

theorem Ctx.reach_of_path (X : CTX) {L k i : Nat} (hp : CTree.PathN tree σ L 0 k)
    (hi : i ∈ tree.labelsAt k) : tree.reachLabel σ i = true :=
  (CTree.reachLabel_iff_of_bounded tree fuel X.tb.depth σ i).2 ⟨L, k, hp, hi⟩

theorem Ctx.path_of_reach (X : CTX) {i : Nat} (h : tree.reachLabel σ i = true) :
    ∃ L k, CTree.PathN tree σ L 0 k ∧ i ∈ tree.labelsAt k :=
  (CTree.reachLabel_iff_of_bounded tree fuel X.tb.depth σ i).1 h

/-- The `i`-th drained edge can be taken in `a` when `σ cs[i]`. -/
theorem Ctx.drained_sound (X : CTX) {i d pid : Nat} {c : Constraint K P}
    (hc : cs[i]? = some c) (hd : ch[i]? = some d) (hσ : σ c = true) (hacc : AccND σ a d pid) :
    AccND σ a s pid := by
  obtain ⟨t, _, he⟩ := X.idx_edge i c d hc hd
  exact AccND.of_edge X.inv.ok he ((holds_some σ c).2 hσ) hacc

theorem Ctx.root_sound (X : CTX) {pid : Nat} (h : PathAcc σ a tree ch 0 pid) :
    AccND σ a s pid := by
  obtain ⟨L, k, i, d, hp, hi, hd, hacc⟩ := h
  obtain ⟨t, c, _, hc, _⟩ := X.child_edge hd
  have hall : i ∈ tree.allLabels := (CTree.mem_allLabels tree i).2 ⟨k, hi⟩
  have hσ : σ c = true := (X.lab_ok i hall c hc).1 (X.reach_of_path hp hi)
  exact X.drained_sound hc hd hσ hacc

theorem Ctx.fail_sound (X : CTX) {pid : Nat} (h : FailAcc σ a cs ch added pid) :
    AccND σ a s pid := by
  obtain ⟨i, c, d, _, hc, hσ, hd, hacc⟩ := h
  exact X.drained_sound hc hd hσ hacc

theorem Ctx.soundT_live (X : CTX) {x pid : Nat} (hx : a.Live x) (h : AccND σ a x pid) :
    SoundT σ a cs ch tree added Rep F x pid :=
  ⟨fun _ => h, fun hn => absurd hx hn, fun hf => absurd hx (X.F_dead hf)⟩

theorem Ctx.soundT_rep (X : CTX) {x n pid : Nat} (hr : Rep n x)
    (h : PathAcc σ a tree ch n pid) : SoundT σ a cs ch tree added Rep F x pid := by
  refine ⟨fun hx => ?_, fun _ n' hr' => ?_, fun hf => absurd hr (X.F_not_rep hf)⟩
  · obtain ⟨rfl, rfl⟩ := X.rep_of_live hr hx
    exact X.root_sound h
  · rw [X.tb.rep_fun n' n x hr' hr]; exact h

theorem Ctx.soundT_fail (X : CTX) {x pid : Nat} (hf : F x)
    (h : FailAcc σ a cs ch added pid) : SoundT σ a cs ch tree added Rep F x pid :=
  ⟨fun hx => absurd hx (X.F_dead hf), fun _ _ hr => absurd hr (X.F_not_rep hf), fun _ => h⟩

theorem Ctx.sound_step (X : CTX) {t pid : Nat} {e : GEdge (Option (Constraint K P))}
    (he : a'.g.edge? t = some e) (hc : Holds σ e.w)
    (ih : SoundT σ a cs ch tree added Rep F e.dst pid) :
    SoundT σ a cs ch tree added Rep F e.src pid := by
  rcases X.edge_cases he with ⟨h0, _⟩ | ⟨hsrc, _, i, hi, hd⟩ |
      ⟨n, c, n', hr, hcn, hw, hd⟩ | ⟨hsrc, _, hf⟩ | ⟨hf, i, c, hi, hci, hd, hw⟩
  · -- an old edge
    exact X.soundT_live (X.inv.ok.src_live h0)
      (AccND.of_edge X.inv.ok h0 hc (ih.1 (X.inv.ok.dst_live h0)))
  · -- a root label
    rw [hsrc]
    exact X.soundT_live X.live_s
      (X.root_sound ⟨0, 0, i, e.dst, rfl, hi, hd, ih.1 (X.child_live hd)⟩)
  · -- a tree edge
    have hσ : σ c = true := hc c hw
    refine X.soundT_rep hr ?_
    rcases hd with ⟨hr', hdead⟩ | ⟨i, hi, hd⟩
    · obtain ⟨L, k, i, d, hp, hi, hd, hacc⟩ := ih.2.1 hdead n' hr'
      exact ⟨L + 1, k, i, d, ⟨c, n', hcn, hσ, hp⟩, hi, hd, hacc⟩
    · exact ⟨1, n', i, e.dst, ⟨c, n', hcn, hσ, rfl⟩, hi, hd, ih.1 (X.child_live hd)⟩
  · -- the epsilon edge to the fail state
    rw [hsrc]
    exact X.soundT_live X.live_s (X.fail_sound (ih.2.2 hf))
  · -- an edge below the fail state
    exact X.soundT_fail hf ⟨i, c, e.dst, hi, hci, hc c hw, hd, ih.1 (X.child_live hd)⟩

theorem Ctx.sound (X : CTX) {x pid : Nat} (h : AccND σ a' x pid) :
    SoundT σ a cs ch tree added Rep F x pid := by
  refine AccND.edge_induction X.fb.inv.ok (T := SoundT σ a cs ch tree added Rep F) ?_ ?_ h
  · intro y pid hi
    have hi0 := X.ids_bwd hi
    obtain ⟨w0, hw0, _⟩ := hi0
    exact X.soundT_live (live_of_weight hw0) (.of_ids ⟨w0, hw0, ‹_›⟩)
  · intro t e pid he hc _ ih
    exact X.sound_step he hc ih

/-! #### Completeness: `a'` accepts everything `a` does -/

theorem pathN_succ_children {C : Type} {t : CTree C} {σ : C → Bool} {L n k : Nat}
    (h : CTree.PathN t σ (L + 1) n k) : t.childrenAt n ≠ [] := by
  obtain ⟨c, m, hc, _, _⟩ := h
  intro e; rw [e] at hc; cases hc

/-- Following a nonempty tree path below a tree state to a labelled node, then the label edge. -/
theorem Ctx.path_complete (X : CTX) {i d pid k : Nat} (hi : i ∈ tree.labelsAt k)
    (hd : ch[i]? = some d) (hacc : AccND σ a' d pid) :
    ∀ (L n m : Nat), Rep n m → CTree.PathN tree σ (L + 1) n k → AccND σ a' m pid := by
  intro L
  induction L with
  | zero =>
    intro n m hr hp
    obtain ⟨c, n1, hc, hσ, hk⟩ := hp
    have hk : n1 = k := hk
    subst hk
    obtain ⟨d', hd', hed⟩ := (X.tb.inner n m c n1 hr hc).2 i hi
    rw [hd] at hd'; cases hd'
    obtain ⟨t, ht⟩ := hed (X.child_ne_rep hd hr)
    exact AccND.of_edge X.fb.inv.ok (X.fb.old t _ ht) ((holds_some σ c).2 hσ) hacc
  | succ L ih =>
    intro n m hr hp
    obtain ⟨c, n1, hc, hσ, hp'⟩ := hp
    obtain ⟨m', hr', _, t, ht⟩ := (X.tb.inner n m c n1 hr hc).1 (pathN_succ_children hp')
    exact AccND.of_edge X.fb.inv.ok (X.fb.old t _ ht) ((holds_some σ c).2 hσ) (ih n1 m' hr' hp')

theorem Ctx.added_label (X : CTX) {i : Nat} (h : i ∈ added) : i ∈ tree.allLabels := by
  rcases (X.tb.added_iff i).1 h with h | ⟨_, _, _, n', _, _, h⟩
  · exact (CTree.mem_allLabels tree i).2 ⟨0, h⟩
  · exact (CTree.mem_allLabels tree i).2 ⟨n', h⟩

/-- The `i`-th drained edge is simulated in `a'`. -/
theorem Ctx.drained_complete (X : CTX) {i d pid : Nat} {c : Constraint K P}
    (hc : cs[i]? = some c) (hd : ch[i]? = some d) (hσ : σ c = true)
    (hacc : AccND σ a' d pid) : AccND σ a' s pid := by
  by_cases hi : i ∈ added
  · have hall := X.added_label hi
    obtain ⟨L, k, hp, hk⟩ := X.path_of_reach ((X.lab_ok i hall c hc).2 hσ)
    cases L with
    | zero =>
      cases hp
      obtain ⟨d', hd', hed⟩ := X.tb.root_labels i hk
      rw [hd] at hd'; cases hd'
      obtain ⟨t, ht⟩ := hed (X.child_ne_s hd)
      exact AccND.of_edge X.fb.inv.ok (X.fb.old t _ ht) (holds_none σ) hacc
    | succ L => exact X.path_complete hk hd hacc L 0 s X.tb.rep_root hp
  · obtain ⟨f, t1, t2, h1, h2⟩ := X.fb.cover i c d hi hc hd
    have hf : AccND σ a' f pid :=
      AccND.of_edge X.fb.inv.ok h2 ((holds_some σ c).2 hσ) hacc
    exact AccND.of_edge X.fb.inv.ok h1 (holds_none σ) hf

theorem Ctx.complete (X : CTX) {x pid : Nat} (h : AccND σ a x pid) : AccND σ a' x pid := by
  refine AccND.edge_induction X.inv.ok (T := fun x pid => AccND σ a' x pid) ?_ ?_ h
  · intro y pid hi
    exact .of_ids (X.ids_fwd hi)
  · intro t e pid he hc _ ih
    by_cases ht : t ∈ w.corder
    · obtain ⟨i, c, d, hci, hdi, he'⟩ := X.edge_idx t ht
      rw [he] at he'
      cases he'
      exact X.drained_complete hci hdi (hc c rfl) ih
    · exact AccND.of_edge X.fb.inv.ok (X.edge_fwd he ht) hc ih

theorem Ctx.lang (X : CTX) : LangEq σ a a' := by
  intro x hx _ pid
  exact ⟨fun h => (X.sound h).1 hx, X.complete⟩

/-! #### The contract -/

theorem Ctx.rootSrc (X : CTX) (rs : RootSrc a) : RootSrc a' := by
  refine ⟨by rw [X.root_eq]; exact X.live' rs.1, fun t e he => ?_⟩
  rw [X.root_eq]
  have hchild : ∀ i : Nat, ch[i]? = some e.dst → e.dst ≠ a.root := by
    intro i hd
    obtain ⟨t0, c, _, _, he0⟩ := X.child_edge hd
    exact rs.2 t0 ⟨s, e.dst, some c⟩ he0
  rcases X.edge_cases he with ⟨h0, _⟩ | ⟨_, _, i, _, hd⟩ | ⟨n, c, n', _, _, _, hd⟩ |
      ⟨_, _, hf⟩ | ⟨_, i, c, _, _, hd, _⟩
  · exact rs.2 t e h0
  · exact hchild i hd
  · rcases hd with ⟨_, hdead⟩ | ⟨i, _, hd⟩
    · exact fun e' => hdead (e' ▸ rs.1)
    · exact hchild i hd
  · exact fun e' => X.F_dead hf (e' ▸ rs.1)
  · exact hchild i hd

theorem Ctx.detFlag (X : CTX) {x : Nat} (h : IsDet a' x) : IsDet a x := by
  obtain ⟨w', hw', hd⟩ := h
  rcases X.wt_cases hw' with ⟨w0, hw0, _, hd0⟩ | ⟨_, _, hd0⟩
  · exact ⟨w0, hw0, hd0 ▸ hd⟩
  · rw [hd0] at hd; cases hd

theorem Ctx.flag_fwd (X : CTX) {x : Nat} (h : IsDet a x) : IsDet a' x := by
  obtain ⟨w0, hw0, hd⟩ := h
  obtain ⟨w', hw', _, hd'⟩ := X.wt_fwd hw0
  exact ⟨w', hw', hd'.trans hd⟩

theorem Ctx.not_det_s (X : CTX) : ¬ IsDet a s := by
  rintro ⟨w0, hw0, hd⟩
  rw [X.hw] at hw0; cases hw0
  rw [X.ndet] at hd; cases hd

theorem Ctx.children (X : CTX) {t : Nat} {e : GEdge (Option (Constraint K P))}
    (he : a'.g.edge? t = some e) (hsrc : e.src = s) :
    ¬ a.Live e.dst ∨ ∃ t0 e0, a.g.edge? t0 = some e0 ∧ e0.src = s ∧ e0.dst = e.dst := by
  have hchild : ∀ i : Nat, ch[i]? = some e.dst →
      ∃ t0 e0, a.g.edge? t0 = some e0 ∧ e0.src = s ∧ e0.dst = e.dst := by
    intro i hd
    obtain ⟨t0, c, _, _, he0⟩ := X.child_edge hd
    exact ⟨t0, _, he0, rfl, rfl⟩
  rcases X.edge_cases he with ⟨h0, _⟩ | ⟨_, _, i, _, hd⟩ | ⟨n, c, n', _, _, _, hd⟩ |
      ⟨_, _, hf⟩ | ⟨_, i, c, _, _, hd, _⟩
  · exact .inr ⟨t, e, h0, hsrc, rfl⟩
  · exact .inr (hchild i hd)
  · rcases hd with ⟨_, hdead⟩ | ⟨i, _, hd⟩
    · exact .inl hdead
    · exact .inr (hchild i hd)
  · exact .inl (X.F_dead hf)
  · exact .inr (hchild i hd)

theorem Ctx.det (X : CTX) (dok : DetOKE σ a) : DetOKE σ a' := by
  refine detOKE_transfer dok fun x hx => ?_
  have hx0 := X.detFlag hx
  have hxs : x ≠ s := by
    rintro rfl; exact X.not_det_s hx0
  have hxl : a.Live x := by
    obtain ⟨w0, hw0, _⟩ := hx0; exact live_of_weight hw0
  refine ⟨hx0, fun t e he hsrc => ?_, fun pid hca => ?_⟩
  · have h0 : a.g.edge? t = some e := by
      rcases X.edge_cases he with ⟨h0, _⟩ | ⟨hs, _⟩ | ⟨n, c, n', hr, _⟩ | ⟨hs, _⟩ | ⟨hf, _⟩
      · exact h0
      · exact absurd (hsrc.symm.trans hs) hxs
      · rw [hsrc] at hr; exact absurd (X.rep_of_live hr hxl).2 hxs
      · exact absurd (hsrc.symm.trans hs) hxs
      · rw [hsrc] at hf; exact absurd hxl (X.F_dead hf)
    refine ⟨⟨t, e, h0, hsrc, rfl⟩, fun pid hacc => ⟨t, e, h0, hsrc, rfl, ?_⟩⟩
    exact (X.sound hacc).1 (X.inv.ok.dst_live h0)
  · obtain ⟨t, e, c, he, hsrc, hw, hσ, hacc⟩ := hca
    have ht : t ∉ w.corder := fun hm => hxs (hsrc.symm.trans (X.drained_src he hm))
    exact ⟨t, e, c, X.edge_fwd he ht, hsrc, hw, hσ, X.complete hacc⟩

theorem Ctx.subStep (X : CTX) : SubStep σ a a' s where
  inv := X.fb.inv
  root := X.root_eq
  rootSrc := X.rootSrc
  live_s := X.live' X.live_s
  lang := X.lang
  detFlag _ := X.detFlag
  flag_s := X.flag_fwd
  children _ _ := X.children
  det := X.det

end Sem

section Main
variable [DecidableEq K] [DecidableEq P]

/-- Assembling the context from the run of `insert_constraint_tree` up to the fail state. -/
theorem subStep_of_run (hA : AddTreeStmt K P) {σ : Constraint K P → Bool}
    {toTree : List (Constraint K P) → Option (CTree (Constraint K P))} (hT : TreeOK toTree σ)
    {a a1 a2 a' : Automaton K P} {s fuel : Nat} {w : AState K} (inv : Inv a)
    (hw : a.g.weight? s = some w) (hdet : w.det = false)
    {drained : List (Option (Constraint K P) × Nat)}
    (hdr : a.drainConstraints s = .ok (a1, drained))
    (g : Option (Constraint K P) × Nat → Option (Constraint K P × Nat))
    {tree : CTree (Constraint K P)} {added : List Nat}
    (htree : toTree ((drained.filterMap g).map (·.1)) = some tree)
    (hadd : a1.addConstraintTree tree s ((drained.filterMap g).map (·.2)) fuel = .ok (a2, added))
    (hg : ∀ c d, g (c, d) = c.map fun c => (c, d))
    (hfb : Inv a2 → a2.Live s →
      (∀ (i : Nat) d, ((drained.filterMap g).map (·.2))[i]? = some d → a2.Live d) →
      ∃ F, FailBuilt a2 a' s ((drained.filterMap g).map (·.1))
        ((drained.filterMap g).map (·.2)) added F) :
    SubStep σ a a' s := by
  obtain ⟨w', hw', sh, hmap⟩ := drainConstraints_shrinks inv hdr
  rw [hw] at hw'; cases hw'
  obtain ⟨hie, hei⟩ := drain_ctx inv.ok hw g hg drained hmap
  obtain ⟨hlt, hok⟩ := hT _ _ htree
  have hs1 : a1.Live s := (sh.live_iff s).2 (live_of_weight hw)
  obtain ⟨Rep, tb⟩ := hA a1 a2 tree s _ fuel added sh.inv hs1 hadd
  have hlen : ((drained.filterMap g).map (·.2)).length =
      ((drained.filterMap g).map (·.1)).length := by simp
  have hchl : ∀ (i : Nat) d, ((drained.filterMap g).map (·.2))[i]? = some d → a2.Live d := by
    intro i d hd
    have hi : i < ((drained.filterMap g).map (·.1)).length := by
      rw [← hlen]; exact (List.getElem?_eq_some_iff.1 hd).1
    obtain ⟨t, _, he⟩ := hie i _ d (List.getElem?_eq_getElem hi) hd
    exact live2_of sh tb (inv.ok.dst_live he)
  obtain ⟨F, fb⟩ := hfb tb.inv (live2_of sh tb (live_of_weight hw)) hchl
  exact (Ctx.mk inv hw hdet sh hlen hie hei hlt hok tb fb).subStep

theorem insertConstraintTree_spec_of (hA : AddTreeStmt K P) {σ : Constraint K P → Bool}
    {toTree : List (Constraint K P) → Option (CTree (Constraint K P))} (hT : TreeOK toTree σ)
    {a a' : Automaton K P} {s fuel : Nat} {det : Bool} (inv : Inv a) (hs : a.Live s)
    (h : insertConstraintTree toTree a s fuel = .ok (a', det)) :
    SubStep σ a a' s ∧ (det = true → ¬ IsDet a s) := by
  unfold insertConstraintTree at h
  split at h
  · cases h
  · rename_i w hw
    rw [state_ok_iff] at hw
    split at h
    · cases h; exact ⟨SubStep.refl inv hs, fun h => by cases h⟩
    · rename_i hdet
      split at h
      · cases h; exact ⟨SubStep.refl inv hs, fun h => by cases h⟩
      · have hdet' : w.det = false := by cases hx : w.det <;> simp_all
        refine ⟨?_, fun _ ⟨w0, hw0, hd⟩ => by rw [hw] at hw0; cases hw0; exact hdet hd⟩
        split at h
        · cases h
        · rename_i a1 drained hdr
          extract_lets pairs cs ch at h
          split at h
          · cases h
          · rename_i tree htree
            split at h
            · cases h
            · rename_i a2 added hadd
              extract_lets notAdded at h
              have hmem : ∀ i, i ∈ notAdded ↔ i < cs.length ∧ i ∉ added := by
                intro i
                simp [notAdded, List.mem_filter, and_comm]
              split at h
              · rename_i hemp
                cases h
                refine subStep_of_run hA hT inv hw hdet' hdr _ htree hadd (by intro _ _; rfl) ?_
                intro inv2 _ _
                refine ⟨_, failBuilt_nil inv2 s ch ?_⟩
                intro i hi
                refine Classical.byContradiction fun hn => ?_
                have := (hmem i).2 ⟨hi, hn⟩
                rw [List.isEmpty_iff.1 hemp] at this
                cases this
              · split at h
                · cases h
                · rename_i a3 f h1
                  cases hrest : insertConstraintTree.addRest cs ch f a3 notAdded with
                  | error e => rw [hrest] at h; cases h
                  | ok a4 =>
                    rw [hrest] at h
                    cases h
                    refine subStep_of_run hA hT inv hw hdet' hdr _ htree hadd
                      (by intro _ _; rfl) ?_
                    intro inv2 hs2 hchl
                    exact ⟨_, failBuilt_cons inv2 hs2 hchl (fun i h1 h2 => (hmem i).2 ⟨h1, h2⟩)
                      (fun i hi => ((hmem i).1 hi).2) h1 hrest⟩

end Main

end Automaton
end Pm
