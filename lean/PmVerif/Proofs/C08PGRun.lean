/-
Proofs/C08PGRun.lean — C08 (totality) of the traversal for PORT-GRAPH automata: the hypotheses
`C08.RunSafe` of `Proofs/C08Run.lean` for `pgDomain`, on ANY host value (no `LinksOK`), from
`OrdersOK`, a live root and arity-correct constraints on the `constraint_order` entries (`ArityOK`;
clause `con` of `AnchG.StateOK`) — the invariant of binding maps is trivial: the association-list
map never panics in `retain_keys` and `pgCheck` is total at the matching arity —, the candidate
bound for states whose scopes consist of single-root keys (`ScopeSR`; clause `scope_shape` of
`AnchG.StateOK`): `bind_all` produces at most `max 1 |live host nodes|` candidates, and the facts
about a successful guarded `build` over `pgTree` (`pg_built_facts`).
Everything lives in `namespace Pm.C08PG`.
-/
import PmVerif.Proofs.C08Str
import PmVerif.Proofs.AnchGTree
import PmVerif.Proofs.AnchGReach
namespace Pm
namespace C08PG
open Automaton C08 AnchG

/-! ### the two per-state conditions the traversal needs -/

/-- Every constraint on a `constraint_order` entry of a live state has as many arguments as its
predicate's arity. -/
def ArityOK (A : Automaton PGKey PGPred) : Prop :=
  ∀ s w, A.g.weight? s = some w → ∀ t ∈ w.corder, ∀ e c, A.g.edge? t = some e → e.w = some c →
    c.args.length = c.pred.arity

/-- Every scope consists of single-root keys (`root 0`, `along 0 _ _`). -/
def ScopeSR (A : Automaton PGKey PGPred) : Prop :=
  ∀ s w, A.g.weight? s = some w → ∀ k ∈ w.scope, SR k

theorem arityOK_of_stateOK {A : Automaton PGKey PGPred} {css : List (Option (List PGCons))}
    (hok : ∀ s w, A.g.weight? s = some w → AnchG.StateOK A css s w) : ArityOK A := by
  intro s w hw t ht e c he hc
  obtain ⟨e', c', he', hc', har, _⟩ := (hok s w hw).con t ht
  rw [he] at he'; cases he'
  rw [hc] at hc'; cases hc'
  exact har

theorem scopeSR_of_stateOK {A : Automaton PGKey PGPred} {css : List (Option (List PGCons))}
    (hok : ∀ s w, A.g.weight? s = some w → AnchG.StateOK A css s w) : ScopeSR A :=
  fun s w hw => (hok s w hw).scope_shape.1

/-! ### `RunSafe` with the trivial invariant -/

/-- The hypotheses of the generic traversal theorems for a port-graph automaton with arity-correct
constraints, on ANY host: the invariant of binding maps is `True`. -/
theorem pgSafe {A : Automaton PGKey PGPred} (h : PortGraph) (ok : OrdersOK A)
    (hroot : ∃ w, A.g.weight? A.root = some w) (har : ArityOK A) :
    RunSafe pgDomain A h (fun _ => True) where
  ok := ok
  root := hroot
  empty := trivial
  bind := fun _ _ _ _ _ _ _ => trivial
  scope := fun _ w _ m _ => ⟨alRetain m w.scope, rfl, trivial⟩
  keys := fun _ _ _ _ ks _ m _ => ⟨alRetain m ks, rfl⟩
  sat := by
    intro s w hw t ht e c he hc m _
    apply satOrFalse_isSome
    intro vs hvs
    exact tpg_check_total c.pred h vs (hvs.trans (har s w hw t ht e c he hc))

/-! ### how many candidates `bind_all` produces on single-root keys -/

/-- The root key is bound. -/
def Rooted (m : PGMap) : Prop := (alGet m (.root 0)).isSome = true

theorem rooted_bind {m m' : PGMap} {k : PGKey} {v : Nat} (hm : Rooted m)
    (hb : alBind m k v = .ok m') : Rooted m' := by
  unfold Rooted at hm ⊢
  obtain ⟨r, hr⟩ := Option.isSome_iff_exists.1 hm
  unfold alBind at hb
  split at hb
  · split at hb
    · cases hb; exact hm
    · cases hb
  · cases hb
    rw [alGet_append_of_some m _ _ r hr]
    rfl

/-- One key from a rooted binding: at most one candidate, rooted again. -/
theorem extend_pg_rooted (h : PortGraph) (inc : Bool) {k : PGKey} (hk : SR k) {m : PGMap}
    (hm : Rooted m) :
    (extend assocMap pgOpts h inc k m).length ≤ 1 ∧
      ∀ m' ∈ extend assocMap pgOpts h inc k m, Rooted m' := by
  unfold extend
  split
  · exact ⟨Nat.le_refl _, fun m' hm' => (List.mem_singleton.mp hm') ▸ hm⟩
  · rename_i hg
    simp only
    split
    · exact ⟨Nat.le_refl _, fun m' hm' => (List.mem_singleton.mp hm') ▸ hm⟩
    · refine ⟨?_, fun m' hm' => ?_⟩
      · refine Nat.le_trans (List.length_filterMap_le _ _) ?_
        rcases hk with rfl | ⟨p, l, rfl⟩
        · exact absurd hm hg
        · obtain ⟨r, hr⟩ := Option.isSome_iff_exists.1 hm
          have hn : alGet m (.along 0 p l) = none := by
            cases hx : alGet m (.along 0 p l) with
            | none => rfl
            | some v =>
              have : (assocMap.get m (.along 0 p l)).isSome = true := by
                show (alGet m (.along 0 p l)).isSome = true
                rw [hx]; rfl
              exact absurd this hg
          rw [pgOpts_along hr hn]
          cases pgVal h r (.along 0 p l) <;> simp
      · obtain ⟨v, _, hbv⟩ := List.mem_filterMap.mp hm'
        split at hbv
        · rename_i m'' hbind
          cases hbv
          exact rooted_bind hm hbind
        · cases hbv

/-- One key from an unrooted binding: nothing happens, or one rooted candidate per live host
node (or none at all). -/
theorem extend_pg_unrooted (h : PortGraph) (inc : Bool) {k : PGKey} (hk : SR k) {m : PGMap}
    (hm : ¬ Rooted m) :
    extend assocMap pgOpts h inc k m = [m] ∨
      ((extend assocMap pgOpts h inc k m).length ≤ h.nodesIter.length ∧
        ∀ m' ∈ extend assocMap pgOpts h inc k m, Rooted m') := by
  have hr : alGet m (.root 0) = none := by
    cases hx : alGet m (.root 0) with
    | none => rfl
    | some v => exact absurd (by unfold Rooted; rw [hx]; rfl) hm
  unfold extend
  split
  · exact .inl rfl
  · rename_i hg
    simp only
    split
    · exact .inl rfl
    · right
      rcases hk with rfl | ⟨p, l, rfl⟩
      · rw [pgOpts_root hr]
        refine ⟨List.length_filterMap_le _ _, fun m' hm' => ?_⟩
        obtain ⟨v, _, hbv⟩ := List.mem_filterMap.mp hm'
        split at hbv
        · rename_i m'' hbind
          cases hbv
          have hb : alBind m (.root 0) v = .ok m' := hbind
          unfold alBind at hb
          rw [hr] at hb
          cases hb
          unfold Rooted
          rw [alGet_append_of_none m _ _ hr, alGet_singleton, if_pos rfl]
          rfl
        · cases hbv
      · have hn : alGet m (.along 0 p l) = none := by
          cases hx : alGet m (.along 0 p l) with
          | none => rfl
          | some v =>
            have : (assocMap.get m (.along 0 p l)).isSome = true := by
              show (alGet m (.along 0 p l)).isSome = true
              rw [hx]; rfl
            exact absurd this hg
        rw [pgOpts_along_unrooted hr hn]
        exact ⟨Nat.zero_le _, fun m' hm' => by cases hm'⟩

/-- `C08.bindAll_length` relativised to the keys of the list. -/
theorem bindAll_length_on {K V H M : Type} {ops : MapOps K V M} {opts : H → K → M → List V}
    {h : H} {Bd : M → Prop} {N : Nat} (Pk : K → Prop)
    (hbd : ∀ inc k m, Pk k → Bd m → (extend ops opts h inc k m).length ≤ 1 ∧
      ∀ m' ∈ extend ops opts h inc k m, Bd m')
    (hun : ∀ inc k m, Pk k → ¬ Bd m → extend ops opts h inc k m = [m] ∨
      ((extend ops opts h inc k m).length ≤ N ∧ ∀ m' ∈ extend ops opts h inc k m, Bd m'))
    (m : M) (ks : List K) (hks : ∀ k ∈ ks, Pk k) (inc : Bool) :
    (bindAll ops opts h m ks inc).length ≤ max 1 N := by
  have step : ∀ (k : K), Pk k → ∀ cands : List M, CandsOK Bd N cands →
      CandsOK Bd N (cands.flatMap (extend ops opts h inc k)) := by
    intro k hk cands hc
    rcases hc with hc | ⟨hc, hb⟩
    · match cands, hc with
      | [], _ => exact .inl (by simp)
      | [m], _ =>
        rw [List.flatMap_cons, List.flatMap_nil, List.append_nil]
        by_cases hm : Bd m
        · exact .inl (hbd inc k m hk hm).1
        · rcases hun inc k m hk hm with he | he
          · rw [he]; exact .inl (Nat.le_refl _)
          · exact .inr he
    · have key : ∀ cands : List M, (∀ m ∈ cands, Bd m) →
          (cands.flatMap (extend ops opts h inc k)).length ≤ cands.length ∧
            ∀ m' ∈ cands.flatMap (extend ops opts h inc k), Bd m' := by
        intro cands
        induction cands with
        | nil => intro _; exact ⟨Nat.le_refl _, fun m hm => by cases hm⟩
        | cons m ms ih =>
          intro hb
          obtain ⟨h1, h2⟩ := ih fun x hx => hb x (List.mem_cons_of_mem _ hx)
          obtain ⟨h3, h4⟩ := hbd inc k m hk (hb m List.mem_cons_self)
          rw [List.flatMap_cons, List.length_append, List.length_cons]
          refine ⟨by omega, fun x hx => ?_⟩
          rcases List.mem_append.mp hx with hx | hx
          · exact h4 x hx
          · exact h2 x hx
      obtain ⟨h1, h2⟩ := key cands hb
      exact .inr ⟨Nat.le_trans h1 hc, h2⟩
  have key : ∀ (ks : List K), (∀ k ∈ ks, Pk k) → ∀ cands : List M, CandsOK Bd N cands →
      CandsOK Bd N (bindAllLoop ops opts h inc ks cands) := by
    intro ks
    induction ks with
    | nil => intro _ cands hc; exact hc
    | cons k ks ih =>
      intro hks cands hc
      exact ih (fun k' hk' => hks k' (List.mem_cons_of_mem _ hk')) _
        (step k (hks k List.mem_cons_self) cands hc)
  rcases key ks hks [m] (.inl (Nat.le_refl _)) with hc | ⟨hc, _⟩
  · exact Nat.le_trans hc (Nat.le_max_left _ _)
  · exact Nat.le_trans hc (Nat.le_max_right _ _)

/-- `bind_all` over single-root keys, from ANY binding and on ANY host: at most one candidate per
live host node (at least one is allowed). -/
theorem bindAll_pg_length (h : PortGraph) (m : PGMap) (ks : List PGKey) (hks : ∀ k ∈ ks, SR k)
    (inc : Bool) : (bindAll assocMap pgOpts h m ks inc).length ≤ max 1 h.nodesIter.length :=
  bindAll_length_on (Bd := Rooted) SR
    (fun inc _ _ hk hm => extend_pg_rooted h inc hk hm)
    (fun inc _ _ hk hm => extend_pg_unrooted h inc hk hm) m ks hks inc

theorem stepCands_pg_length {h : PortGraph} {w : AState PGKey} {m : PGMap} {cands : List PGMap}
    (hsr : ∀ k ∈ w.scope, SR k) (hc : stepCands pgDomain h w m = .ok cands) :
    cands.length ≤ max 1 h.nodesIter.length := by
  unfold stepCands at hc
  rw [retainAll_length hc]
  exact bindAll_pg_length h m w.scope hsr true

/-- The explicit fuel bound of the port-graph traversal: `geom b n = 1 + b + … + bⁿ` with
`b = max 1 |live host nodes| · outDeg A` and `n` the number of node slots of the automaton. -/
def pgRunBound (A : Automaton PGKey PGPred) (h : PortGraph) : Nat :=
  geom (max 1 h.nodesIter.length * outDeg A) A.g.nodes.length

theorem pg_succ_bound {A : Automaton PGKey PGPred} {h : PortGraph} (hsr : ScopeSR A) {s : Nat}
    {m : PGMap} {nexts : List (Nat × PGMap)}
    (hn : nextLegalStates pgDomain A h s m = .ok nexts) :
    nexts.length ≤ max 1 h.nodesIter.length * outDeg A := by
  obtain ⟨w, cands, hw, hc, hlen⟩ := nextLegalStates_length hn
  exact Nat.le_trans hlen (Nat.mul_le_mul (stepCands_pg_length (hsr s w hw) hc) (le_outDeg hw))

/-- Port graphs: the traversal of an `OrdersOK` automaton with a live root and arity-correct
constraints returns `.ok`, the fuel error, or the `fail_next_state` panic (the latter only with
two epsilons somewhere). -/
theorem pg_run_res {A : Automaton PGKey PGPred} (h : PortGraph) (ok : OrdersOK A)
    (hroot : ∃ w, A.g.weight? A.root = some w) (har : ArityOK A) (fuel : Nat) :
    ResF A (run pgDomain A h fuel) :=
  run_res (pgSafe h ok hroot har) fuel

/-- Port graphs: with an acyclic graph and single-root scopes, fuel `pgRunBound A h` suffices. -/
theorem pg_run_total {A : Automaton PGKey PGPred} (h : PortGraph) (ok : OrdersOK A)
    (hroot : ∃ w, A.g.weight? A.root = some w) (har : ArityOK A) (hsr : ScopeSR A)
    (rank : Nat → Nat) (hle : ∀ s, rank s ≤ A.g.nodes.length)
    (hrank : ∀ t e, A.g.edge? t = some e → rank e.dst < rank e.src)
    (fuel : Nat) (hf : pgRunBound A h ≤ fuel) : Res A (run pgDomain A h fuel) := by
  apply run_terminates (pgSafe h ok hroot har) rank hrank (max 1 h.nodesIter.length * outDeg A)
    (fun s m nexts _ hn => pg_succ_bound hsr hn) fuel
  exact Nat.le_trans (geom_mono _ (hle A.root)) hf

/-! ### no hidden panic in `list_bind_options` -/

/-- `pgOpts` collapses the `expect` of `find_root_candidates` into "no options"; on single-root
keys `list_bind_options` never gets there. -/
theorem pgOptsP_isSome_of_SR (h : PortGraph) {k : PGKey} (hk : SR k) (m : PGMap) :
    (pgOptsP h k m).isSome = true := by
  unfold pgOptsP
  split
  · rfl
  · rcases hk with rfl | ⟨p, l, rfl⟩
    · rfl
    · simp only
      split <;> rfl

/-! ### what a successful guarded build over `pgTree` provides -/

/-- `OrdersOK`, a live root and a bounded rank decreasing along the edges, for every successful
guarded build with the port-graph decomposition (any inputs, any log, any fuels). -/
theorem pg_built_facts (fuelT : Nat) (req : PGKey → List PGKey) (fuel : Nat)
    (patterns : List (Nat × List PGCons × List PGKey)) (evs : List Ev)
    (A : Automaton PGKey PGPred)
    (hb : build (fun cs => pgTree cs fuelT) req fuel patterns evs = .ok A) :
    OrdersOK A ∧ (∃ w, A.g.weight? A.root = some w) ∧
      ∃ rank : Nat → Nat, (∀ s, rank s ≤ A.g.nodes.length) ∧
        ∀ t e, A.g.edge? t = some e → rank e.dst < rank e.src := by
  have hT := treeOK_sigma' ⟨[], []⟩ 0 fuelT
  have ok := build_ordersOK _ req fuel patterns evs A _ hT hb
  obtain ⟨rank, hrank⟩ := build_acyclic _ req fuel patterns evs A _ hT hb
  exact ⟨ok, build_root_live (stepLemmas hT) hb,
    compressRank A rank, compressRank_le A rank, compressRank_lt A ok rank hrank⟩

end C08PG
end Pm
