/-
Proofs/GuardEInv.lean — the candidate invariant behind guard E for FLAT decompositions
(namespace `Pm.GE`): vocabulary, the transfer lemma for chains, and what the invariant gives at
an emission.

Everything is stated on transitions as triples `HasEdge a x d c` (source, target, constraint).
* `Poor a x`  — `x` has no fallback transition and at most one `(target, constraint)` pair;
* `Chain a x` — every state reachable from `x` (including `x`) is poor: a raw trie chain;
* `NodeOK a p` — `p` has no fallback transition, no child of `p` has one, and every GRANDCHILD of
  `p` is a chain;
* `INV a E`   — `NodeOK a p` for every `p` whose id is not in the list `E` of emitted ids.
Nothing is required of a state whose id has been emitted — in particular nothing of a zombie —
but the clauses for a pending `p` speak about ALL children of `p`, zombies included; that is why id
reuse is harmless.  `INV` at the emission of `s` gives c1G (`c1G_of_INV`), hence guard E
(`Proofs/GuardECore.lean`).
-/
import PmVerif.Proofs.GuardEMain
import PmVerif.Proofs.BuildMerge
namespace Pm
namespace GE
open Automaton TBL C09E
variable {K P : Type}

/-- No fallback transition (triple form of `C09E.EF`). -/
def EFt (a : Automaton K P) (x : Nat) : Prop := ∀ d, ¬ HasEdge a x d none

/-- No fallback transition and at most one `(target, constraint)` pair. -/
def Poor (a : Automaton K P) (x : Nat) : Prop :=
  EFt a x ∧ ∀ d c d' c', HasEdge a x d c → HasEdge a x d' c' → d = d' ∧ c = c'

inductive Reach (a : Automaton K P) : Nat → Nat → Prop
  | refl (x : Nat) : Reach a x x
  | head {x y z : Nat} {c : Option (Constraint K P)} : HasEdge a x y c → Reach a y z → Reach a x z

theorem Reach.tail {a : Automaton K P} {x y z : Nat} {c : Option (Constraint K P)}
    (h : Reach a x y) (he : HasEdge a y z c) : Reach a x z := by
  induction h with
  | refl x => exact .head he (.refl z)
  | head h1 _ ih => exact .head h1 (ih he)

theorem Reach.trans {a : Automaton K P} {x y z : Nat} (h : Reach a x y) (h2 : Reach a y z) :
    Reach a x z := by
  induction h with
  | refl x => exact h2
  | head h1 _ ih => exact .head h1 (ih h2)

/-- Everything reachable from `x` is poor. -/
def Chain (a : Automaton K P) (x : Nat) : Prop := ∀ y, Reach a x y → Poor a y

theorem Chain.poor {a : Automaton K P} {x : Nat} (h : Chain a x) : Poor a x := h x (.refl x)

theorem Chain.child {a : Automaton K P} {x y : Nat} {c : Option (Constraint K P)}
    (h : Chain a x) (he : HasEdge a x y c) : Chain a y :=
  fun z hz => h z (.head he hz)

theorem Chain.reach {a : Automaton K P} {x y : Nat} (h : Chain a x) (hr : Reach a x y) :
    Chain a y := fun z hz => h z (hr.trans hz)

/-- **Transfer of chains.**  `M` marks the states whose transitions the step may have changed;
the others keep (at most) their transitions; a marked state is poor afterwards and its
transitions lead to marked states or back into the old chain. -/
theorem chain_transfer {a a' : Automaton K P} {g : Nat} (M : Nat → Prop) (hg : Chain a g)
    (hsub : ∀ y, Reach a g y → ¬ M y → ∀ d c, HasEdge a' y d c → HasEdge a y d c)
    (hM : ∀ y, M y → Poor a' y ∧ ∀ d c, HasEdge a' y d c → M d ∨ Reach a g d) :
    Chain a' g := by
  have key : ∀ x y, Reach a' x y → (M x ∨ Reach a g x) → (M y ∨ Reach a g y) := by
    intro x y h
    induction h with
    | refl x => exact id
    | @head x m z c h1 _ ih =>
      intro hx
      apply ih
      by_cases hm : M x
      · exact (hM x hm).2 m c h1
      · rcases hx with hx | hx
        · exact absurd hx hm
        · exact .inr (hx.tail (hsub x hx hm m c h1))
  intro y hy
  have hy' := key g y hy (.inr (.refl g))
  by_cases hm : M y
  · exact (hM y hm).1
  · rcases hy' with hy' | hy'
    · exact absurd hy' hm
    · have hp := hg y hy'
      refine ⟨fun d hd => hp.1 d (hsub y hy' hm d none hd), fun d c d' c' h1 h2 => ?_⟩
      exact hp.2 d c d' c' (hsub y hy' hm d c h1) (hsub y hy' hm d' c' h2)

/-- Chains that no changed state is reachable from survive. -/
theorem chain_frame {a a' : Automaton K P} {g : Nat} (hg : Chain a g)
    (hsub : ∀ y, Reach a g y → ∀ d c, HasEdge a' y d c → HasEdge a y d c) : Chain a' g :=
  chain_transfer (fun _ => False) hg (fun y hy _ => hsub y hy) (fun _ h => h.elim)

/-! ### the invariant -/

/-- The clauses of the invariant for one state `p`. -/
structure NodeOK (a : Automaton K P) (p : Nat) : Prop where
  self : EFt a p
  child : ∀ c k, HasEdge a p c k → EFt a c
  grand : ∀ c k, HasEdge a p c k → ∀ g k', HasEdge a c g k' → Chain a g

/-- The invariant at iteration boundaries: `E` lists the emitted ids. -/
def INV (a : Automaton K P) (E : List Nat) : Prop := ∀ p, p ∉ E → NodeOK a p

/-- The clauses for the state `s` being processed once it may have its fail state: no child has
a fallback transition; the children of the CONSTRAINT children have chains below them. -/
structure LocOK (a : Automaton K P) (s : Nat) : Prop where
  child : ∀ c k, HasEdge a s c k → EFt a c
  grand : ∀ c k, HasEdge a s c (some k) → ∀ g k', HasEdge a c g k' → Chain a g
  /-- below a fallback child (the fail state): as for a pending state -/
  grandE : ∀ f, HasEdge a s f none → ∀ c k, HasEdge a f c k →
    EFt a c ∧ ∀ g k', HasEdge a c g k' → Chain a g

/-- The invariant inside the iteration at `s`. -/
structure JInv (a : Automaton K P) (E : List Nat) (s : Nat) : Prop where
  others : ∀ p, p ∉ E → p ≠ s → NodeOK a p
  loc : LocOK a s
  /-- c1T: the parents of `s` have been emitted -/
  preds : ∀ p k, HasEdge a p s k → p ∈ E

theorem NodeOK.locOK {a : Automaton K P} {s : Nat} (h : NodeOK a s) : LocOK a s :=
  ⟨h.child, fun c k he => h.grand c (some k) he, fun f hf => absurd hf (h.self f)⟩

theorem INV.jInv {a : Automaton K P} {E : List Nat} {s : Nat} (h : INV a E) (hs : s ∉ E)
    (hp : ∀ p k, HasEdge a p s k → p ∈ E) : JInv a E s ∧ EFt a s :=
  ⟨⟨fun p hp _ => h p hp, (h s hs).locOK, hp⟩, (h s hs).self⟩

/-- Without `make_det` the end of the iteration is immediate. -/
theorem JInv.inv_cons {a : Automaton K P} {E : List Nat} {s : Nat} (h : JInv a E s) :
    INV a (s :: E) := by
  intro p hp
  have h1 : p ≠ s := fun e => hp (e ▸ List.mem_cons_self)
  have h2 : p ∉ E := fun hm => hp (List.mem_cons_of_mem _ hm)
  exact h.others p h2 h1

section Emission
variable [DecidableEq K] [DecidableEq P]
set_option linter.unusedSectionVars false

theorem ef_of_eft {a : Automaton K P} {x : Nat} (h : EFt a x) : EF a x := by
  intro t e he hsrc hn
  apply h e.dst
  refine ⟨t, ?_⟩
  rw [he]
  cases e
  simp only at hsrc hn
  subst hsrc hn
  rfl

theorem eft_of_ef {a : Automaton K P} {x : Nat} (h : EF a x) : EFt a x := by
  rintro d ⟨t, ht⟩
  exact h t _ ht rfl rfl

theorem childEF_of_locOK {a : Automaton K P} {s : Nat} (h : LocOK a s) : ChildEF a s := by
  intro t e he hsrc
  have : HasEdge a s e.dst e.w := hsrc ▸ HasEdge.of_edge he
  exact ef_of_eft (h.child e.dst e.w this)

/-- **The invariant gives c1G at an emission.** -/
theorem c1G_of_INV {a : Automaton K P} {E : List Nat} {s : Nat} (inv : Inv a) (h : INV a E)
    (hs : s ∉ E) : c1G a s = true := by
  unfold c1G
  rw [Bool.or_eq_true]
  right
  unfold childEpsFree
  rw [List.all_eq_true]
  intro x hx
  obtain ⟨nd, t, e, hnd, hout, he, hd⟩ := SGraph.mem_succs.1 hx
  cases hw : a.g.weight? x with
  | none => rfl
  | some w =>
    simp only
    have hsrc : e.src = s := by
      obtain ⟨ed, hed, hs'⟩ := inv.wf.out_edge s nd hnd t hout
      rw [he] at hed; cases hed
      exact hs'
    have hE : HasEdge a s x e.w := by
      have := HasEdge.of_edge he
      rw [hsrc, hd] at this
      exact this
    have hef := ef_of_eft ((h s hs).child x e.w hE)
    rw [eorder_nil_of_ef inv hw hef]
    rfl

end Emission

end GE
end Pm
