/-
Proofs/TreeDepth.lean — on an ARBITRARY node array (no well-formedness assumption): if the
lengths of all root paths are bounded, then every root path has length at most the number of
nodes (pigeonhole + pumping), hence the executable `reachLabel` (fuel = number of nodes) is
exact.
-/
import PmVerif.Proofs.TreeLemmas
namespace Pm

/-- Pigeonhole: a duplicate-free list of naturals below `N` has length at most `N`. -/
theorem length_le_of_nodup_of_lt :
    ∀ (N : Nat) (l : List Nat), l.Nodup → (∀ x ∈ l, x < N) → l.length ≤ N
  | 0, l, _, hlt => by
    cases l with
    | nil => exact Nat.le_refl _
    | cons a l => exact absurd (hlt a List.mem_cons_self) (Nat.not_lt_zero _)
  | N + 1, l, hnd, hlt => by
    have hnd' : (l.erase N).Nodup := hnd.erase N
    have hlt' : ∀ x ∈ l.erase N, x < N := by
      intro x hx
      obtain ⟨hne, hxl⟩ := (hnd.mem_erase_iff).1 hx
      have := hlt x hxl
      omega
    have ih := length_le_of_nodup_of_lt N (l.erase N) hnd' hlt'
    rw [List.length_erase] at ih
    split at ih <;> omega

namespace CTree
variable {C : Type}

/-- Forgetting the constraints: a `σ`-path is a path. -/
theorem PathN_true (t : CTree C) (σ : C → Bool) {L n k : Nat} (hp : PathN t σ L n k) :
    PathN t (fun _ => true) L n k := by
  induction L generalizing n with
  | zero => exact hp
  | succ L ih =>
    obtain ⟨c, m, h1, _, h3⟩ := hp
    exact ⟨c, m, h1, rfl, ih h3⟩

/-- Path concatenation. -/
theorem PathN_append (t : CTree C) (σ : C → Bool) {L1 L2 n m k : Nat}
    (h1 : PathN t σ L1 n m) (h2 : PathN t σ L2 m k) : PathN t σ (L1 + L2) n k := by
  induction L1 generalizing n with
  | zero => cases h1; rw [Nat.zero_add]; exact h2
  | succ L1 ih =>
    obtain ⟨c, m', e1, e2, e3⟩ := h1
    rw [Nat.succ_add]
    exact ⟨c, m', e1, e2, ih e3⟩

/-- A cycle can be repeated any number of times. -/
theorem PathN_pump (t : CTree C) (σ : C → Bool) {l x : Nat} (h : PathN t σ l x x) :
    ∀ r, PathN t σ (r * l) x x
  | 0 => by rw [Nat.zero_mul]; exact rfl
  | r + 1 => by
    rw [Nat.succ_mul]
    exact PathN_append t σ (PathN_pump t σ h r) h

/-- The first node of a nonempty path is in range (it has a child). -/
theorem lt_length_of_PathN_succ (t : CTree C) (σ : C → Bool) {L n k : Nat}
    (h : PathN t σ (L + 1) n k) : n < t.nodes.length := by
  obtain ⟨c, m, h1, _, _⟩ := h
  apply Nat.lt_of_not_le
  intro hle
  rw [childrenAt_eq_nil_of_le t hle] at h1
  cases h1

/-- The trace of a path: the node at each position, with the sub-path between any two
positions. -/
theorem PathN_trace (t : CTree C) (σ : C → Bool) {L n k : Nat} (hp : PathN t σ L n k) :
    ∃ g : Nat → Nat, g 0 = n ∧
      ∀ i j, i ≤ j → j ≤ L → PathN t σ (j - i) (g i) (g j) := by
  induction L generalizing n with
  | zero =>
    refine ⟨fun _ => n, rfl, ?_⟩
    intro i j hij hj
    have hj0 : j = 0 := by omega
    have hi0 : i = 0 := by omega
    subst hj0; subst hi0
    exact rfl
  | succ L ih =>
    obtain ⟨c, m, e1, e2, e3⟩ := hp
    obtain ⟨g, hg0, hg⟩ := ih e3
    refine ⟨fun i => match i with | 0 => n | i + 1 => g i, rfl, ?_⟩
    intro i j hij hj
    cases j with
    | zero =>
      have hi0 : i = 0 := by omega
      subst hi0
      exact rfl
    | succ j =>
      cases i with
      | zero =>
        have := hg 0 j (Nat.zero_le _) (by omega)
        rw [hg0, Nat.sub_zero] at this
        exact ⟨c, m, e1, e2, this⟩
      | succ i =>
        have := hg i j (by omega) (by omega)
        rw [Nat.succ_sub_succ]
        exact this

/-- If the lengths of all root paths (ignoring constraints) are bounded by some `f`, then no
node reachable from the root lies on a cycle. -/
theorem no_cycle_of_bounded (t : CTree C) (f : Nat)
    (hb : ∀ L k, PathN t (fun _ => true) L 0 k → L ≤ f) (σ : C → Bool) {i l x : Nat}
    (h1 : PathN t σ i 0 x) (h2 : PathN t σ l x x) : l = 0 := by
  have h := PathN_append t _ (PathN_true t σ h1)
    (PathN_pump t _ (PathN_true t σ h2) (f + 1))
  have hle := hb _ _ h
  cases l with
  | zero => rfl
  | succ l =>
    have : f + 1 ≤ (f + 1) * (l + 1) := Nat.le_mul_of_pos_right _ (Nat.succ_pos _)
    omega

/-- If the lengths of all root paths (ignoring constraints) are bounded by some `f`, then every
root path has length at most the number of nodes (pigeonhole + pumping: a longer path repeats a
node that has children, and the cycle could be repeated to beat any bound). -/
theorem pathN_le_length (t : CTree C) (f : Nat)
    (hb : ∀ L k, PathN t (fun _ => true) L 0 k → L ≤ f) :
    ∀ (σ : C → Bool) (L k : Nat), PathN t σ L 0 k → L ≤ t.nodes.length := by
  intro σ L k hp
  apply Nat.le_of_not_lt
  intro hlt
  obtain ⟨g, hg0, hg⟩ := PathN_trace t σ hp
  -- the nodes at positions `0..N` (all `< L`) are distinct and in range
  have hnd : ((List.range (t.nodes.length + 1)).map g).Nodup := by
    unfold List.Nodup
    rw [List.pairwise_map]
    refine List.Pairwise.imp_of_mem ?_ List.pairwise_lt_range
    intro a b ha hb' hab heq
    rw [List.mem_range] at ha hb'
    have p1 := hg 0 a (Nat.zero_le _) (by omega)
    have p2 := hg a b (Nat.le_of_lt hab) (by omega)
    rw [hg0, Nat.sub_zero] at p1
    rw [← heq] at p2
    have := no_cycle_of_bounded t f hb σ p1 p2
    omega
  have hrange : ∀ x ∈ (List.range (t.nodes.length + 1)).map g, x < t.nodes.length := by
    intro x hx
    rw [List.mem_map] at hx
    obtain ⟨a, ha, rfl⟩ := hx
    rw [List.mem_range] at ha
    have p := hg a (a + 1) (Nat.le_succ _) (by omega)
    rw [Nat.add_sub_cancel_left] at p
    exact lt_length_of_PathN_succ t σ p
  have := length_le_of_nodup_of_lt _ _ hnd hrange
  rw [List.length_map, List.length_range] at this
  omega

/-- Consequently the executable `reachLabel` (fuel = number of nodes) is exact. -/
theorem reachLabel_iff_of_bounded (t : CTree C) (f : Nat)
    (hb : ∀ L k, PathN t (fun _ => true) L 0 k → L ≤ f) (σ : C → Bool) (i : Nat) :
    t.reachLabel σ i = true ↔ ∃ L k, PathN t σ L 0 k ∧ i ∈ t.labelsAt k := by
  unfold reachLabel
  rw [List.any_eq_true]
  constructor
  · rintro ⟨k, hk, hl⟩
    obtain ⟨L, -, hp⟩ := (mem_reachFrom t σ _ _ _).1 hk
    exact ⟨L, k, hp, by simpa using hl⟩
  · rintro ⟨L, k, hp, hl⟩
    exact ⟨k, (mem_reachFrom t σ _ _ _).2 ⟨L, pathN_le_length t f hb σ L k hp, hp⟩,
      by simpa using hl⟩

end CTree
end Pm
