/-
Proofs/C08Run.lean — C08 (totality), generic part for the traversal: for ANY domain `D`, automaton
`a` and host `h` such that
* `a` satisfies the structural invariant `OrdersOK` and its root is live,
* there is an invariant `I` of binding maps that holds of the empty map, is kept by every
  successful `bind` of a value the host offers, under which `retain_keys` of every scope and of
  every recorded key list succeeds (re-establishing `I` for scopes), and under which every
  constraint on a `constraint_order` entry evaluates without panicking
(`RunSafe`), the breadth-first loop `runLoop` — from any queue of configurations with live states
and `I`-bindings, with any fuel — returns `.ok`, or the fuel error, or (only if some live state
has more than one epsilon transition) the panic of the `assert!` in `fail_next_state`
(`runLoop_res`). If moreover the transition graph is acyclic (a rank decreasing along edges) and
one expansion yields at most `b` successors, fuel `geom b (rank root)` suffices
(`runLoop_terminates`); `compressRank` turns any rank into one bounded by the number of node slots,
so that the bound is an explicit function of the automaton.
Everything lives in `namespace Pm.C08`.
-/
import PmVerif.Proofs.RunLemmas
import PmVerif.Proofs.AccBasics
namespace Pm
namespace C08
open Automaton
set_option linter.unusedSectionVars false

/-- The tag of the one panic of the traversal that built automata do not exclude. -/
def failTag : String := "fail_next_state: more than one epsilon transition"

/-- Every live state has at most one epsilon (fallback) transition. -/
def EpsLe1 {K P : Type} (a : Automaton K P) : Prop :=
  ∀ s w, a.g.weight? s = some w → w.eorder.length ≤ 1

/-- Outcome of a step of the traversal on a safe configuration: success, or — only when some
state has two epsilon transitions — the `fail_next_state` assertion. -/
def Res {K P α : Type} (a : Automaton K P) (r : R α) : Prop :=
  (∃ x, r = .ok x) ∨ (¬ EpsLe1 a ∧ r = .error (.panic failTag))

/-- Outcome of the loop: additionally, fuel exhaustion. -/
def ResF {K P α : Type} (a : Automaton K P) (r : R α) : Prop :=
  (∃ x, r = .ok x) ∨ r = .error (.fuel "traversal") ∨ (¬ EpsLe1 a ∧ r = .error (.panic failTag))

section Generic
variable {K V P H M : Type}

/-! ### sequencing -/

theorem mapR_total {α β : Type} (f : α → R β) (xs : List α) (h : ∀ x ∈ xs, ∃ y, f x = .ok y) :
    ∃ ys, mapR f xs = .ok ys := by
  induction xs with
  | nil => exact ⟨[], rfl⟩
  | cons x xs ih =>
    obtain ⟨y, hy⟩ := h x List.mem_cons_self
    obtain ⟨ys, hys⟩ := ih fun x' hx' => h x' (List.mem_cons_of_mem _ hx')
    exact ⟨y :: ys, by simp only [mapR, hy, hys]⟩

theorem mapR_length {α β : Type} {f : α → R β} {xs : List α} {ys : List β}
    (h : mapR f xs = .ok ys) : ys.length = xs.length := by
  have := congrArg List.length ((mapR_ok f xs ys).mp h)
  simpa using this.symm

theorem retainAll_total (D : Domain K V P H M) (keys : List K) (ms : List M)
    (h : ∀ m ∈ ms, ∃ m', D.map.retain m keys = some m') : ∃ rs, retainAll D keys ms = .ok rs := by
  induction ms with
  | nil => exact ⟨[], rfl⟩
  | cons m ms ih =>
    obtain ⟨m', hm'⟩ := h m List.mem_cons_self
    obtain ⟨rs, hrs⟩ := ih fun x hx => h x (List.mem_cons_of_mem _ hx)
    exact ⟨m' :: rs, by simp only [retainAll, hm', hrs]⟩

theorem retainAll_length {D : Domain K V P H M} {keys : List K} {ms rs : List M}
    (h : retainAll D keys ms = .ok rs) : rs.length = ms.length := by
  have := congrArg List.length ((retainAll_ok D keys ms rs).mp h)
  simpa using this.symm

/-! ### `bind_all` keeps an invariant of maps -/

theorem extend_inv (ops : MapOps K V M) (opts : H → K → M → List V) (h : H) (inc : Bool)
    (I : M → Prop)
    (hb : ∀ m k v m', I m → v ∈ opts h k m → ops.bind m k v = .ok m' → I m')
    (k : K) (m : M) (hm : I m) : ∀ m' ∈ extend ops opts h inc k m, I m' := by
  intro m' hm'
  unfold extend at hm'
  split at hm'
  · rw [List.mem_singleton] at hm'; exact hm' ▸ hm
  · simp only at hm'
    split at hm'
    · rw [List.mem_singleton] at hm'; exact hm' ▸ hm
    · obtain ⟨v, hv, hbv⟩ := List.mem_filterMap.mp hm'
      split at hbv
      · rename_i m'' hbind
        cases hbv
        exact hb m k v _ hm hv hbind
      · cases hbv

theorem bindAllLoop_inv (ops : MapOps K V M) (opts : H → K → M → List V) (h : H) (inc : Bool)
    (I : M → Prop)
    (hb : ∀ m k v m', I m → v ∈ opts h k m → ops.bind m k v = .ok m' → I m') :
    ∀ (ks : List K) (cands : List M), (∀ m ∈ cands, I m) →
      ∀ m' ∈ bindAllLoop ops opts h inc ks cands, I m' := by
  intro ks
  induction ks with
  | nil => intro cands hc m' hm'; exact hc m' hm'
  | cons k ks ih =>
    intro cands hc m' hm'
    refine ih _ ?_ m' hm'
    intro x hx
    obtain ⟨m, hm, hxm⟩ := List.mem_flatMap.mp hx
    exact extend_inv ops opts h inc I hb k m (hc m hm) x hxm

theorem bindAll_inv (ops : MapOps K V M) (opts : H → K → M → List V) (h : H) (inc : Bool)
    (I : M → Prop)
    (hb : ∀ m k v m', I m → v ∈ opts h k m → ops.bind m k v = .ok m' → I m')
    (m : M) (hm : I m) (ks : List K) : ∀ m' ∈ bindAll ops opts h m ks inc, I m' :=
  bindAllLoop_inv ops opts h inc I hb ks [m] (fun _ hx => (List.mem_singleton.mp hx) ▸ hm)

/-! ### the hypotheses -/

/-- What the traversal needs in order not to panic (except, possibly, in `fail_next_state`). -/
structure RunSafe (D : Domain K V P H M) (a : Automaton K P) (h : H) (I : M → Prop) : Prop where
  ok : OrdersOK a
  root : ∃ w, a.g.weight? a.root = some w
  empty : I D.map.empty
  bind : ∀ m k v m', I m → v ∈ D.opts h k m → D.map.bind m k v = .ok m' → I m'
  scope : ∀ s w, a.g.weight? s = some w → ∀ m, I m →
    ∃ m', D.map.retain m w.scope = some m' ∧ I m'
  keys : ∀ s w, a.g.weight? s = some w → ∀ pid ks, (pid, ks) ∈ w.matches_ → ∀ m, I m →
    ∃ m', D.map.retain m ks = some m'
  sat : ∀ s w, a.g.weight? s = some w → ∀ t ∈ w.corder, ∀ e c, a.g.edge? t = some e →
    e.w = some c → ∀ m, I m → (satOrFalse D.map.get D.check c h m).isSome

variable {D : Domain K V P H M} {a : Automaton K P} {h : H} {I : M → Prop}

/-! ### `emitMatches` -/

theorem emitMatches_total (S : RunSafe D a h I) {s : Nat} {w : AState K}
    (hw : a.g.weight? s = some w) {m : M} (hm : I m) :
    ∀ pats : List (Nat × List K), (∀ x ∈ pats, x ∈ w.matches_) →
      ∃ out, emitMatches D h m pats = .ok out := by
  intro pats
  induction pats with
  | nil => intro _; exact ⟨[], rfl⟩
  | cons pk rest ih =>
    intro hsub
    obtain ⟨pid, keys⟩ := pk
    obtain ⟨more, hmore⟩ := ih fun x hx => hsub x (List.mem_cons_of_mem _ hx)
    have hmem : (pid, keys) ∈ w.matches_ := hsub _ List.mem_cons_self
    obtain ⟨ms, hms⟩ := retainAll_total D keys
      (bindAll D.map D.opts h m (keys.filter fun k => (D.map.get m k).isNone) false)
      (fun m₁ hm₁ => S.keys s w hw pid keys hmem m₁
        (bindAll_inv D.map D.opts h false I S.bind m hm _ m₁ hm₁))
    refine ⟨ms.map (fun x => (pid, x)) ++ more, ?_⟩
    simp only [emitMatches, emit_cands_eq, hms, hmore]

/-! ### `fail_next_state` -/

theorem failNextState_res (ok : OrdersOK a) {s : Nat} {w : AState K}
    (hw : a.g.weight? s = some w) : Res a (a.failNextState s) := by
  unfold Automaton.failNextState Automaton.eorderOf Automaton.state
  rw [hw]
  simp only [Except.map]
  match heo : w.eorder with
  | [] => exact .inl ⟨none, rfl⟩
  | [t] =>
    obtain ⟨e, he, _, _⟩ := ok.eorder_edge s w hw t (by rw [heo]; exact List.mem_cons_self)
    refine .inl ⟨some e.dst, ?_⟩
    simp only [Automaton.nextState, he]
  | t :: t' :: rest =>
    refine .inr ⟨fun heps => ?_, rfl⟩
    have := heps s w hw
    rw [heo] at this
    simp only [List.length_cons] at this
    omega

/-! ### `legalFrom`, `legalAll`, `nextLegalStates` -/

theorem foldr_sat_total {α β : Type} (f : α → R (List β) → R (List β)) (p : α → Option Bool)
    (g : α → β)
    (hft : ∀ x rest, p x = some true → f x (.ok rest) = .ok (g x :: rest))
    (hff : ∀ x rest, p x = some false → f x (.ok rest) = .ok rest)
    (xs : List α) (hs : ∀ x ∈ xs, (p x).isSome) {r : R (List β)}
    (hr : xs.foldr f (.ok []) = r) : ∃ ys, r = .ok ys := by
  subst hr
  induction xs with
  | nil => exact ⟨[], rfl⟩
  | cons x xs ih =>
    obtain ⟨rest, hrest⟩ := ih fun y hy => hs y (List.mem_cons_of_mem _ hy)
    have := hs x List.mem_cons_self
    rw [List.foldr_cons, hrest]
    cases hp : p x with
    | none => rw [hp] at this; cases this
    | some b =>
      cases b with
      | true => exact ⟨_, hft x rest hp⟩
      | false => exact ⟨_, hff x rest hp⟩

theorem legalFrom_res (ok : OrdersOK a) {s : Nat} {w : AState K}
    (hw : a.g.weight? s = some w) (det : Bool) (nf : List (Nat × Constraint K P)) (m : M)
    (hs : ∀ tc ∈ nf, (satOrFalse D.map.get D.check tc.2 h m).isSome) :
    Res a (legalFrom D a h s det nf m) := by
  unfold legalFrom
  simp only
  generalize hfold : List.foldr _ (Except.ok []) nf = r
  obtain ⟨valid, rfl⟩ := foldr_sat_total _ (fun tc : Nat × Constraint K P =>
      satOrFalse D.map.get D.check tc.2 h m) (fun tc => (tc.1, m))
      (fun x rest hp => by simp only [hp]) (fun x rest hp => by simp only [hp]) nf hs hfold
  simp only
  split
  · rcases failNextState_res ok hw with ⟨fo, hfo⟩ | ⟨hne, hfo⟩
    · rw [hfo]
      cases fo with
      | none => exact .inl ⟨_, rfl⟩
      | some f => exact .inl ⟨_, rfl⟩
    · rw [hfo]; exact .inr ⟨hne, rfl⟩
  · exact .inl ⟨_, rfl⟩

theorem legalAll_res (ok : OrdersOK a) {s : Nat} {w : AState K}
    (hw : a.g.weight? s = some w) (det : Bool) (nf : List (Nat × Constraint K P)) :
    ∀ ms : List M, (∀ m ∈ ms, ∀ tc ∈ nf, (satOrFalse D.map.get D.check tc.2 h m).isSome) →
      Res a (legalAll D a h s det nf ms) := by
  intro ms
  induction ms with
  | nil => intro _; exact .inl ⟨[], rfl⟩
  | cons m ms ih =>
    intro hs
    unfold legalAll
    rcases legalFrom_res (D := D) (h := h) ok hw det nf m (hs m List.mem_cons_self) with
      ⟨xs, hxs⟩ | ⟨hne, hxs⟩
    · rw [hxs]
      rcases ih fun m' hm' => hs m' (List.mem_cons_of_mem _ hm') with ⟨ys, hys⟩ | ⟨hne, hys⟩
      · rw [hys]; exact .inl ⟨_, rfl⟩
      · rw [hys]; exact .inr ⟨hne, rfl⟩
    · rw [hxs]; exact .inr ⟨hne, rfl⟩

/-- The non-fail transitions of a live state of an `OrdersOK` automaton can be read off (the
function is described by its equation: two syntactically equal `match` expressions in different
definitions are different auxiliary constants). -/
theorem nonFails_total (ok : OrdersOK a) {s : Nat} {w : AState K}
    (hw : a.g.weight? s = some w) {f : Nat → R (Nat × Constraint K P)}
    {r : R (List (Nat × Constraint K P))} (hr : mapR f w.corder = r)
    (hf : ∀ t e c, a.g.edge? t = some e → e.w = some c → f t = .ok (e.dst, c)) :
    ∃ nf, r = .ok nf ∧ ∀ tc ∈ nf, ∃ t ∈ w.corder, ∃ e c, a.g.edge? t = some e ∧
      e.w = some c ∧ tc = (e.dst, c) := by
  obtain ⟨nf, hnf⟩ := mapR_total f w.corder (fun t ht => by
    obtain ⟨e, he, _, hc⟩ := ok.corder_edge s w hw t ht
    obtain ⟨c, hc'⟩ := Option.isSome_iff_exists.mp hc
    exact ⟨(e.dst, c), hf t e c he hc'⟩)
  refine ⟨nf, by rw [← hr, hnf], fun tc htc => ?_⟩
  obtain ⟨t, ht, hft⟩ := (mem_of_mapR_ok hnf tc).mp htc
  obtain ⟨e, he, _, hc⟩ := ok.corder_edge s w hw t ht
  obtain ⟨c, hc'⟩ := Option.isSome_iff_exists.mp hc
  rw [hf t e c he hc'] at hft
  cases hft
  exact ⟨t, ht, e, c, he, hc', rfl⟩

theorem nextLegalStates_res (S : RunSafe D a h I) {s : Nat} {w : AState K}
    (hw : a.g.weight? s = some w) {m : M} (hm : I m) :
    Res a (nextLegalStates D a h s m) := by
  unfold nextLegalStates
  rw [state_ok.mpr hw]
  simp only
  have hall : ∀ x ∈ bindAll D.map D.opts h m w.scope true, I x :=
    bindAll_inv D.map D.opts h true I S.bind m hm _
  obtain ⟨cands, hcands⟩ := retainAll_total D w.scope _
    (fun x hx => (S.scope s w hw x (hall x hx)).imp fun _ h => h.1)
  rw [hcands]
  simp only
  generalize hr : mapR _ w.corder = r
  obtain ⟨nf, rfl, hmem⟩ := nonFails_total S.ok hw hr (fun t e c he hc => by
    simp only [Automaton.nextState, Automaton.constraintOf, he, hc])
  simp only
  apply legalAll_res S.ok hw
  intro m' hm' tc htc
  obtain ⟨x, hx, hret⟩ := (mem_retainAll hcands m').mp hm'
  have hI : I m' := by
    obtain ⟨m'', h1, h2⟩ := S.scope s w hw x (hall x hx)
    rw [h1] at hret; cases hret; exact h2
  obtain ⟨t, ht, e, c, he, hc, rfl⟩ := hmem tc htc
  exact S.sat s w hw t ht e c he hc m' hI

/-- The successors of a safe configuration are safe, lie one edge further, and there are at most
`|candidates| · (|constraint_order| + 1)` of them. -/
theorem nextLegalStates_succ (S : RunSafe D a h I) {s : Nat} {m : M} (hm : I m)
    {nexts : List (Nat × M)} (hn : nextLegalStates D a h s m = .ok nexts) :
    (∀ sm' ∈ nexts, I sm'.2 ∧ ∃ t e, a.g.edge? t = some e ∧ e.src = s ∧ e.dst = sm'.1) := by
  intro sm' hsm'
  obtain ⟨s', m'⟩ := sm'
  obtain ⟨w, cands, hw, hc, hm', hcase⟩ := (mem_nextLegalStates_aux hn s' m').mp hsm'
  have hall : ∀ x ∈ bindAll D.map D.opts h m w.scope true, I x :=
    bindAll_inv D.map D.opts h true I S.bind m hm _
  refine ⟨?_, ?_⟩
  · obtain ⟨x, hx, hret⟩ := (mem_retainAll hc m').mp hm'
    obtain ⟨m'', h1, h2⟩ := S.scope s w hw x (hall x hx)
    rw [h1] at hret; cases hret; exact h2
  · rcases hcase with ⟨t, e, c, ht, he, _, _, hd⟩ | ⟨t, e, ht, he, _, hd⟩
    · obtain ⟨e', he', hs, _⟩ := S.ok.corder_edge s w hw t ht
      rw [he] at he'; cases he'
      exact ⟨t, e, he, hs, hd⟩
    · obtain ⟨e', he', hs, _⟩ := S.ok.eorder_edge s w hw t ht
      rw [he] at he'; cases he'
      exact ⟨t, e, he, hs, hd⟩

/-! ### the loop never panics (except in `fail_next_state`) -/

/-- A configuration the loop can handle: live state, invariant binding. -/
def Conf (a : Automaton K P) (I : M → Prop) (sm : Nat × M) : Prop :=
  (∃ w, a.g.weight? sm.1 = some w) ∧ I sm.2

theorem conf_succ (S : RunSafe D a h I) {s : Nat} {m : M} (hm : I m)
    {nexts : List (Nat × M)} (hn : nextLegalStates D a h s m = .ok nexts) :
    ∀ sm' ∈ nexts, Conf a I sm' := by
  intro sm' hsm'
  obtain ⟨hI, t, e, he, _, hd⟩ := nextLegalStates_succ S hm hn sm' hsm'
  refine ⟨?_, hI⟩
  have := (S.ok.edge_live t e he).2
  rw [hd] at this
  exact live_iff.mp this

variable [DecidableEq K] [DecidableEq V]

theorem runLoop_res (S : RunSafe D a h I) :
    ∀ (fuel : Nat) (queue : List (Nat × M)) (seen : List (Nat × List (Option V)))
      (out : List (Match M)), (∀ sm ∈ queue, Conf a I sm) →
      ResF a (runLoop D a h fuel queue seen out) := by
  intro fuel
  induction fuel with
  | zero =>
    intro queue seen out _
    cases queue with
    | nil => exact .inl ⟨_, rfl⟩
    | cons sm q => exact .inr (.inl rfl)
  | succ fuel ih =>
    intro queue seen out hq
    cases queue with
    | nil => exact .inl ⟨_, rfl⟩
    | cons sm q =>
      obtain ⟨s, m⟩ := sm
      obtain ⟨⟨w, hw⟩, hm⟩ := hq (s, m) List.mem_cons_self
      have hq' : ∀ sm ∈ q, Conf a I sm := fun sm hsm => hq sm (List.mem_cons_of_mem _ hsm)
      unfold runLoop
      rw [state_ok.mpr hw]
      simp only
      split
      · exact ih q seen out hq'
      · obtain ⟨ms, hms⟩ := emitMatches_total S hw hm w.matches_ (fun _ hx => hx)
        rw [hms]
        simp only
        rcases nextLegalStates_res S hw hm with ⟨nexts, hn⟩ | ⟨hne, hn⟩
        · rw [hn]
          simp only
          apply ih
          intro sm hsm
          rcases List.mem_append.mp hsm with h1 | h1
          · exact hq' sm h1
          · exact conf_succ S hm hn sm h1
        · rw [hn]; exact .inr (.inr ⟨hne, rfl⟩)

theorem run_res (S : RunSafe D a h I) (fuel : Nat) : ResF a (run D a h fuel) := by
  unfold run
  apply runLoop_res S
  intro sm hsm
  rw [List.mem_singleton] at hsm
  subst hsm
  exact ⟨S.root, S.empty⟩

/-! ### termination -/

/-- `geom b r = 1 + b + … + b^r`: the number of configurations a breadth-first unfolding of
depth `r` and branching `b` can pop. -/
def geom (b : Nat) : Nat → Nat
  | 0 => 1
  | r + 1 => 1 + b * geom b r

theorem geom_pos (b r : Nat) : 1 ≤ geom b r := by
  cases r with
  | zero => exact Nat.le_refl _
  | succ r => simp only [geom]; omega

theorem geom_mono (b : Nat) {r r' : Nat} (h : r ≤ r') : geom b r ≤ geom b r' := by
  induction r' generalizing r with
  | zero => have : r = 0 := by omega
            subst this; exact Nat.le_refl _
  | succ r' ih =>
    cases r with
    | zero => exact geom_pos b _
    | succ r =>
      simp only [geom]
      have := ih (r := r) (by omega)
      have := Nat.mul_le_mul_left b this
      omega

theorem geom_mono_left {b b' : Nat} (h : b ≤ b') (r : Nat) : geom b r ≤ geom b' r := by
  induction r with
  | zero => exact Nat.le_refl _
  | succ r ih =>
    simp only [geom]
    have := Nat.mul_le_mul h ih
    omega

/-- The potential of a queue. -/
def pot (b : Nat) (rank : Nat → Nat) (q : List (Nat × M)) : Nat :=
  (q.map fun sm => geom b (rank sm.1)).sum

theorem pot_nil (b : Nat) (rank : Nat → Nat) : pot b rank ([] : List (Nat × M)) = 0 := rfl

theorem pot_cons (b : Nat) (rank : Nat → Nat) (sm : Nat × M) (q : List (Nat × M)) :
    pot b rank (sm :: q) = geom b (rank sm.1) + pot b rank q := by
  simp [pot]

theorem pot_append (b : Nat) (rank : Nat → Nat) (q q' : List (Nat × M)) :
    pot b rank (q ++ q') = pot b rank q + pot b rank q' := by
  simp [pot]

theorem pot_le (b : Nat) (rank : Nat → Nat) (r : Nat) (q : List (Nat × M))
    (hr : ∀ sm ∈ q, rank sm.1 ≤ r) : pot b rank q ≤ q.length * geom b r := by
  induction q with
  | nil => simp [pot]
  | cons sm q ih =>
    rw [pot_cons, List.length_cons, Nat.succ_mul]
    have h1 := geom_mono b (hr sm List.mem_cons_self)
    have h2 := ih fun x hx => hr x (List.mem_cons_of_mem _ hx)
    omega

/-- Successor count of one expansion. -/
theorem legalFrom_length {s : Nat} {det : Bool} {nf : List (Nat × Constraint K P)} {m : M}
    {xs : List (Nat × M)} (hl : legalFrom D a h s det nf m = .ok xs) :
    xs.length ≤ nf.length + 1 := by
  obtain ⟨valid, hv, hcase⟩ := legalFrom_ok hl
  have hlen : valid.length ≤ nf.length := by
    rw [hv, List.length_map]; exact List.length_filter_le _ _
  rcases hcase with ⟨_, _, rfl⟩ | ⟨_, fo, _, rfl⟩
  · omega
  · rw [List.length_append, List.length_map]
    cases fo <;> simp <;> omega

theorem legalAll_length {s : Nat} {det : Bool} {nf : List (Nat × Constraint K P)} :
    ∀ {ms : List M} {ys : List (Nat × M)}, legalAll D a h s det nf ms = .ok ys →
      ys.length ≤ ms.length * (nf.length + 1) := by
  intro ms
  induction ms with
  | nil => intro ys hl; simp only [legalAll, Except.ok.injEq] at hl; subst hl; simp
  | cons m ms ih =>
    intro ys hl
    simp only [legalAll] at hl
    split at hl
    · cases hl
    · rename_i xs hxs
      split at hl
      · cases hl
      · rename_i ys' hys
        simp only [Except.ok.injEq] at hl
        subst hl
        have h1 := legalFrom_length hxs
        have h2 := ih hys
        rw [List.length_append, List.length_cons, Nat.succ_mul]
        omega

theorem nextLegalStates_length {s : Nat} {m : M} {nexts : List (Nat × M)}
    (hn : nextLegalStates D a h s m = .ok nexts) :
    ∃ w cands, a.g.weight? s = some w ∧ stepCands D h w m = .ok cands ∧
      nexts.length ≤ cands.length * (w.corder.length + 1) := by
  unfold nextLegalStates at hn
  split at hn
  · cases hn
  · rename_i w hst
    simp only at hn
    split at hn
    · cases hn
    · rename_i cands hret
      split at hn
      · cases hn
      · rename_i nf hnf
        refine ⟨w, cands, state_ok.mp hst, hret, ?_⟩
        have := legalAll_length hn
        rw [mapR_length hnf] at this
        exact this

/-- **Termination.** With a rank decreasing along edges and at most `b` successors per expansion
of a safe configuration, fuel at least the potential of the queue suffices. -/
theorem runLoop_terminates (S : RunSafe D a h I) (rank : Nat → Nat)
    (hrank : ∀ t e, a.g.edge? t = some e → rank e.dst < rank e.src) (b : Nat)
    (hb : ∀ s m nexts, Conf a I (s, m) → nextLegalStates D a h s m = .ok nexts →
      nexts.length ≤ b) :
    ∀ (fuel : Nat) (queue : List (Nat × M)) (seen : List (Nat × List (Option V)))
      (out : List (Match M)), (∀ sm ∈ queue, Conf a I sm) → pot b rank queue ≤ fuel →
      Res a (runLoop D a h fuel queue seen out) := by
  intro fuel
  induction fuel with
  | zero =>
    intro queue seen out _ hp
    cases queue with
    | nil => exact .inl ⟨_, rfl⟩
    | cons sm q =>
      rw [pot_cons] at hp
      have := geom_pos b (rank sm.1)
      omega
  | succ fuel ih =>
    intro queue seen out hq hp
    cases queue with
    | nil => exact .inl ⟨_, rfl⟩
    | cons sm q =>
      obtain ⟨s, m⟩ := sm
      obtain ⟨⟨w, hw⟩, hm⟩ := hq (s, m) List.mem_cons_self
      have hq' : ∀ sm ∈ q, Conf a I sm := fun sm hsm => hq sm (List.mem_cons_of_mem _ hsm)
      rw [pot_cons] at hp
      have hp : geom b (rank s) + pot b rank q ≤ fuel + 1 := hp
      have hg := geom_pos b (rank s)
      unfold runLoop
      rw [state_ok.mpr hw]
      simp only
      split
      · exact ih q seen out hq' (by omega)
      · obtain ⟨ms, hms⟩ := emitMatches_total S hw hm w.matches_ (fun _ hx => hx)
        rw [hms]
        simp only
        rcases nextLegalStates_res S hw hm with ⟨nexts, hn⟩ | ⟨hne, hn⟩
        · rw [hn]
          simp only
          apply ih
          · intro sm hsm
            rcases List.mem_append.mp hsm with h1 | h1
            · exact hq' sm h1
            · exact conf_succ S hm hn sm h1
          · rw [pot_append]
            have hlen := hb s m nexts ⟨⟨w, hw⟩, hm⟩ hn
            cases hnx : nexts with
            | nil => simp only [pot_nil]; omega
            | cons x xs =>
              -- some successor exists, so `rank s ≥ 1`
              have hlt : ∀ sm' ∈ nexts, rank sm'.1 < rank s := by
                intro sm' hsm'
                obtain ⟨_, t, e, he, hs, hd⟩ := nextLegalStates_succ S hm hn sm' hsm'
                have := hrank t e he
                rw [hs, hd] at this
                exact this
              have hx := hlt x (by rw [hnx]; exact List.mem_cons_self)
              obtain ⟨r, hr⟩ : ∃ r, rank s = r + 1 := ⟨rank s - 1, by omega⟩
              have hpl := pot_le b rank r nexts (fun sm' hsm' => by
                have := hlt sm' hsm'; omega)
              have hmul : nexts.length * geom b r ≤ b * geom b r :=
                Nat.mul_le_mul_right _ hlen
              rw [← hnx]
              simp only [hr, geom] at hp
              omega
        · rw [hn]; exact .inr ⟨hne, rfl⟩

theorem run_terminates (S : RunSafe D a h I) (rank : Nat → Nat)
    (hrank : ∀ t e, a.g.edge? t = some e → rank e.dst < rank e.src) (b : Nat)
    (hb : ∀ s m nexts, Conf a I (s, m) → nextLegalStates D a h s m = .ok nexts →
      nexts.length ≤ b)
    (fuel : Nat) (hf : geom b (rank a.root) ≤ fuel) : Res a (run D a h fuel) := by
  unfold run
  apply runLoop_terminates S rank hrank b hb
  · intro sm hsm
    rw [List.mem_singleton] at hsm
    subst hsm
    exact ⟨S.root, S.empty⟩
  · simpa [pot] using hf

end Generic

/-! ### how many candidates `bind_all` produces -/

section Cands
variable {K V H M : Type}

/-- The shape of a candidate list of `bind_all` in an anchored domain (`Bd` = "the map is
anchored"): at most one candidate, or at most `N` candidates, all anchored. -/
def CandsOK (Bd : M → Prop) (N : Nat) (cands : List M) : Prop :=
  cands.length ≤ 1 ∨ (cands.length ≤ N ∧ ∀ m ∈ cands, Bd m)

variable {ops : MapOps K V M} {opts : H → K → M → List V} {h : H} {Bd : M → Prop} {N : Nat}

theorem flatMap_allBound
    (hbd : ∀ inc k m, Bd m → (extend ops opts h inc k m).length ≤ 1 ∧
      ∀ m' ∈ extend ops opts h inc k m, Bd m') (inc : Bool) (k : K) :
    ∀ cands : List M, (∀ m ∈ cands, Bd m) →
      (cands.flatMap (extend ops opts h inc k)).length ≤ cands.length ∧
        ∀ m' ∈ cands.flatMap (extend ops opts h inc k), Bd m' := by
  intro cands
  induction cands with
  | nil => intro _; exact ⟨Nat.le_refl _, fun m hm => by cases hm⟩
  | cons m ms ih =>
    intro hb
    obtain ⟨h1, h2⟩ := ih fun x hx => hb x (List.mem_cons_of_mem _ hx)
    obtain ⟨h3, h4⟩ := hbd inc k m (hb m List.mem_cons_self)
    rw [List.flatMap_cons, List.length_append, List.length_cons]
    refine ⟨by omega, fun x hx => ?_⟩
    rcases List.mem_append.mp hx with hx | hx
    · exact h4 x hx
    · exact h2 x hx

theorem candsOK_step
    (hbd : ∀ inc k m, Bd m → (extend ops opts h inc k m).length ≤ 1 ∧
      ∀ m' ∈ extend ops opts h inc k m, Bd m')
    (hun : ∀ inc k m, ¬ Bd m → extend ops opts h inc k m = [m] ∨
      ((extend ops opts h inc k m).length ≤ N ∧ ∀ m' ∈ extend ops opts h inc k m, Bd m'))
    (inc : Bool) (k : K) (cands : List M) (hc : CandsOK Bd N cands) :
    CandsOK Bd N (cands.flatMap (extend ops opts h inc k)) := by
  rcases hc with hc | ⟨hc, hb⟩
  · match cands, hc with
    | [], _ => exact .inl (by simp)
    | [m], _ =>
      rw [List.flatMap_cons, List.flatMap_nil, List.append_nil]
      by_cases hm : Bd m
      · exact .inl (hbd inc k m hm).1
      · rcases hun inc k m hm with he | he
        · rw [he]; exact .inl (Nat.le_refl _)
        · exact .inr he
  · obtain ⟨h1, h2⟩ := flatMap_allBound hbd inc k cands hb
    exact .inr ⟨Nat.le_trans h1 hc, h2⟩

theorem bindAll_length
    (hbd : ∀ inc k m, Bd m → (extend ops opts h inc k m).length ≤ 1 ∧
      ∀ m' ∈ extend ops opts h inc k m, Bd m')
    (hun : ∀ inc k m, ¬ Bd m → extend ops opts h inc k m = [m] ∨
      ((extend ops opts h inc k m).length ≤ N ∧ ∀ m' ∈ extend ops opts h inc k m, Bd m'))
    (m : M) (ks : List K) (inc : Bool) : (bindAll ops opts h m ks inc).length ≤ max 1 N := by
  have key : ∀ (ks : List K) (cands : List M), CandsOK Bd N cands →
      CandsOK Bd N (bindAllLoop ops opts h inc ks cands) := by
    intro ks
    induction ks with
    | nil => intro cands hc; exact hc
    | cons k ks ih => intro cands hc; exact ih _ (candsOK_step hbd hun inc k cands hc)
  rcases key ks [m] (.inl (Nat.le_refl _)) with hc | ⟨hc, _⟩
  · exact Nat.le_trans hc (Nat.le_max_left _ _)
  · exact Nat.le_trans hc (Nat.le_max_right _ _)

end Cands

/-! ### compressing a rank -/

section Rank
variable {K P : Type}

theorem filter_length_le {α : Type} (p q : α → Bool) (hpq : ∀ x, p x = true → q x = true) :
    ∀ l : List α, (l.filter p).length ≤ (l.filter q).length := by
  intro l
  induction l with
  | nil => simp
  | cons x l ih =>
    simp only [List.filter_cons]
    cases hp : p x with
    | true => rw [hpq x hp]; simp; omega
    | false =>
      cases hq : q x with
      | true => simp; omega
      | false => simpa using ih

theorem filter_length_lt {α : Type} (p q : α → Bool) (hpq : ∀ x, p x = true → q x = true)
    (d : α) (hp : p d = false) (hq : q d = true) :
    ∀ l : List α, d ∈ l → (l.filter p).length < (l.filter q).length := by
  intro l
  induction l with
  | nil => intro hd; cases hd
  | cons x l ih =>
    intro hd
    simp only [List.filter_cons]
    rcases List.mem_cons.mp hd with rfl | hd
    · rw [hp, hq]
      have := filter_length_le p q hpq l
      simp; omega
    · have := ih hd
      cases hp' : p x with
      | true => rw [hpq x hp']; simp; omega
      | false =>
        cases hq' : q x with
        | true => simp; omega
        | false => simpa using this

/-- Any rank can be replaced by one bounded by the number of node slots: the number of live
states of strictly smaller rank. -/
def compressRank (a : Automaton K P) (rank : Nat → Nat) (s : Nat) : Nat :=
  (a.g.nodeIndices.filter fun x => decide (rank x < rank s)).length

theorem compressRank_le (a : Automaton K P) (rank : Nat → Nat) (s : Nat) :
    compressRank a rank s ≤ a.g.nodes.length := by
  unfold compressRank
  refine Nat.le_trans (List.length_filter_le _ _) ?_
  unfold SGraph.nodeIndices
  refine Nat.le_trans (List.length_filter_le _ _) ?_
  simp

theorem compressRank_lt (a : Automaton K P) (ok : OrdersOK a) (rank : Nat → Nat)
    (hrank : ∀ t e, a.g.edge? t = some e → rank e.dst < rank e.src) :
    ∀ t e, a.g.edge? t = some e → compressRank a rank e.dst < compressRank a rank e.src := by
  intro t e he
  have hlt := hrank t e he
  unfold compressRank
  apply filter_length_lt _ _ _ e.dst
  · simp
  · simpa using hlt
  · have hl := (ok.edge_live t e he).2
    unfold SGraph.nodeIndices
    rw [List.mem_filter, List.mem_range]
    refine ⟨?_, hl⟩
    unfold SGraph.containsNode SGraph.node? at hl
    cases hn : a.g.nodes[e.dst]? with
    | none => rw [hn] at hl; cases hl
    | some _ => exact (List.getElem?_eq_some_iff.mp hn).1
  · intro x hx
    simp only [decide_eq_true_eq] at hx ⊢
    omega

end Rank

end C08
end Pm
